(* Proofs about the run-limit model (property C15).  Model: Evo/Limits.v. *)
From Coq Require Import List Bool Arith ZArith QArith Qround String Lia Lqa.
From GolemV Require Import Evo.Limits.
Import ListNotations.
Local Open Scope nat_scope.

(* ------------------------------------------------------------------------------------- *)
(* boolean comparisons on Q                                                               *)
(* ------------------------------------------------------------------------------------- *)
Lemma Qltb_true : forall a b, Qltb a b = true <-> (a < b)%Q.
Proof.
  intros a b. unfold Qltb. rewrite negb_true_iff. split; intro H.
  - apply Qnot_le_lt. intro L. apply Qle_bool_iff in L. congruence.
  - destruct (Qle_bool b a) eqn:E; [|reflexivity]. apply Qle_bool_iff in E. exfalso. apply (Qlt_not_le _ _ H E).
Qed.

Lemma Qltb_false : forall a b, Qltb a b = false <-> (b <= a)%Q.
Proof.
  intros a b. unfold Qltb. rewrite negb_false_iff. apply Qle_bool_iff.
Qed.

Lemma Qle_bool_false : forall a b, Qle_bool a b = false <-> (b < a)%Q.
Proof.
  intros a b. split; intro H.
  - apply Qnot_le_lt. intro L. apply Qle_bool_iff in L. congruence.
  - destruct (Qle_bool a b) eqn:E; [|reflexivity]. apply Qle_bool_iff in E. exfalso. apply (Qlt_not_le _ _ H E).
Qed.

(* ------------------------------------------------------------------------------------- *)
(* the timer                                                                              *)
(* ------------------------------------------------------------------------------------- *)
Lemma div_nonneg : forall (x : Q) (i : Z), (0 <= x)%Q -> (0 < i)%Z -> (0 <= x / inject_Z i)%Q.
Proof.
  intros x i Hx Hi. apply Qle_shift_div_l.
  - replace 0%Q with (inject_Z 0) by reflexivity. rewrite <- Zlt_Qlt. exact Hi.
  - lra.
Qed.

(* a zero / negative budget, or a budget used up at `minutes`, is reported as reached *)
Lemma budget_used_reached : forall t init minutes i,
  ((t <= 0)%Q \/ ((t <= minutes)%Q /\ (init <= minutes)%Q /\ (0 <= i)%Z)) ->
  opt_timer_reached (Some t) init minutes (Some i) = true.
Proof.
  intros t init minutes i H. unfold opt_timer_reached, timeout_minutes.
  destruct (Qltb t 0) eqn:Neg.
  - reflexivity.
  - apply Qltb_false in Neg.
    destruct (Qeq_bool t 0) eqn:Z0; [reflexivity|].
    assert (Tpos : (0 < t)%Q).
    { destruct (Qlt_le_dec 0 t) as [L|L]; [exact L|].
      exfalso. assert (E : (t == 0)%Q) by lra. apply Qeq_bool_iff in E. congruence. }
    destruct H as [H|[Hm [Hi Hz]]]; [lra|].
    rewrite negb_true_iff. unfold next_iteration_possible.
    destruct (Z.eqb i 0) eqn:Ei.
    + apply Qltb_false. exact Hm.
    + apply Qltb_false. apply Z.eqb_neq in Ei.
      assert (D : (0 <= (minutes - init) / inject_Z i)%Q) by (apply div_nonneg; [lra|lia]).
      lra.
Qed.

(* conversely: when the timer test answers False, the budget is positive and not used up *)
Lemma timer_false_within_budget : forall t init minutes i,
  opt_timer_reached (Some t) init minutes (Some i) = false ->
  (init <= minutes)%Q -> (0 <= i)%Z -> (0 < t)%Q /\ (minutes < t)%Q.
Proof.
  intros t init minutes i H Hi Hz.
  destruct (Qlt_le_dec 0 t) as [P|P].
  - split; [exact P|]. destruct (Qlt_le_dec minutes t) as [L|L]; [exact L|].
    rewrite budget_used_reached in H; [discriminate|]. right. repeat split; assumption.
  - rewrite budget_used_reached in H; [discriminate|]. left. exact P.
Qed.

Lemma no_timeout_never_reached : forall init minutes iter, opt_timer_reached None init minutes iter = false.
Proof. reflexivity. Qed.

(* ------------------------------------------------------------------------------------- *)
(* GroupedCondition                                                                       *)
(* ------------------------------------------------------------------------------------- *)
Lemma grouped_any_result : forall bs, fst (grouped_any (map (@Ok bool) bs)) = Ok (existsb (fun b => b) bs).
Proof.
  induction bs as [|b r IH]; [reflexivity|].
  cbn [map grouped_any]. destruct b; [reflexivity|].
  destruct (grouped_any (map (@Ok bool) r)) as [x n] eqn:E. cbn in *. exact IH.
Qed.

(* short-circuit: nothing after the first True is called (so a condition that would raise there is harmless) *)
Lemma grouped_any_short_circuit : forall pre post,
  forallb negb pre = true ->
  grouped_any (map (@Ok bool) pre ++ Ok true :: post) = (Ok true, S (List.length pre)).
Proof.
  induction pre as [|b r IH]; intros post H; [reflexivity|].
  cbn in H. apply andb_true_iff in H as [Hb Hr]. destruct b; [discriminate|].
  cbn [map app grouped_any]. rewrite (IH post Hr). reflexivity.
Qed.

(* a raising condition is reached only when every earlier one answered False *)
Lemma grouped_any_raise : forall pre e post,
  forallb negb pre = true ->
  grouped_any (map (@Ok bool) pre ++ Raise e :: post) = (Raise e, S (List.length pre)).
Proof.
  induction pre as [|b r IH]; intros e post H; [reflexivity|].
  cbn in H. apply andb_true_iff in H as [Hb Hr]. destruct b; [discriminate|].
  cbn [map app grouped_any]. rewrite (IH e post Hr). reflexivity.
Qed.

(* ------------------------------------------------------------------------------------- *)
(* stop test: what a False answer means                                                   *)
(* ------------------------------------------------------------------------------------- *)
Definition may_step (l : limits) (init t : Q) (k : kstate) : Prop :=
  opt_timer_reached (tmo l) init t (Some (Z.of_nat (gen_num k) - 1)%Z) = false /\
  (forall n, nog l = Some n -> (gen_num k <= n)%nat) /\
  (forall m, max_stag_len l = Some m -> (stag k < m)%nat) /\
  (forall e, est l = Some e -> (stag_duration t (stag_start k) < e)%Q).

Lemma stop_test_false : forall l init t1 t2 k,
  stop_test l init t1 t2 k = false ->
  opt_timer_reached (tmo l) init t1 (Some (Z.of_nat (gen_num k) - 1)%Z) = false /\
  (forall n, nog l = Some n -> (gen_num k <= n)%nat) /\
  (forall m, max_stag_len l = Some m -> (stag k < m)%nat) /\
  (forall e, est l = Some e -> (stag_duration t2 (stag_start k) < e)%Q).
Proof.
  intros l init t1 t2 k H. unfold stop_test in H.
  repeat (apply orb_false_iff in H; destruct H as [H ?]).
  split; [exact H|]. split; [|split].
  - intros n E. unfold c_gen in H2. rewrite E in H2. apply Nat.leb_gt in H2. lia.
  - intros m E. unfold c_stag in H1. rewrite E in H1. apply Nat.leb_gt in H1. exact H1.
  - intros e E. unfold c_stagtime, c_stagtime_d in H0. rewrite E in H0. apply Qle_bool_false in H0. exact H0.
Qed.

(* the configured stagnation limit (early_stopping_iterations >= 1) is the limit the test uses *)
Lemma max_stag_len_esi : forall l m, esi l = Some (S m) -> max_stag_len l = Some (S m).
Proof. intros l m E. unfold max_stag_len. rewrite E. reflexivity. Qed.

Lemma stop_test_gen : forall l init t1 t2 k n, nog l = Some n -> n < gen_num k -> stop_test l init t1 t2 k = true.
Proof.
  intros. unfold stop_test, c_gen. rewrite H.
  assert (E : Nat.leb (n + 1) (gen_num k) = true) by (apply Nat.leb_le; lia).
  rewrite E. rewrite orb_true_r. reflexivity.
Qed.

Lemma stop_test_stag : forall l init t1 t2 k m, esi l = Some (S m) -> S m <= stag k -> stop_test l init t1 t2 k = true.
Proof.
  intros. unfold stop_test, c_stag. rewrite (max_stag_len_esi _ _ H).
  assert (E : Nat.leb (S m) (stag k) = true) by (apply Nat.leb_le; lia).
  rewrite E. rewrite orb_true_r. reflexivity.
Qed.

Lemma stop_test_stagtime : forall l init t1 t2 k e, est l = Some e -> (e <= stag_duration t2 (stag_start k))%Q ->
  stop_test l init t1 t2 k = true.
Proof.
  intros. unfold stop_test, c_stagtime, c_stagtime_d. rewrite H.
  apply Qle_bool_iff in H0. rewrite H0. apply orb_true_r.
Qed.

Lemma stop_test_time : forall l init t1 t2 k t, tmo l = Some t ->
  ((t <= 0)%Q \/ ((t <= t1)%Q /\ (init <= t1)%Q /\ 1 <= gen_num k)) ->
  stop_test l init t1 t2 k = true.
Proof.
  intros l init t1 t2 k t E H. unfold stop_test, c_time. rewrite E.
  rewrite budget_used_reached; [reflexivity|].
  destruct H as [H|[H1 [H2 H3]]]; [left; exact H|right]. repeat split; try assumption. lia.
Qed.

(* ------------------------------------------------------------------------------------- *)
(* the populational loop                                                                  *)
(* ------------------------------------------------------------------------------------- *)
Section LoopProofs.
  Variable clock : nat -> Q.
  Variable init : Q.
  Variable evolve : nat -> kstate -> option (bool * nat).

  Notation loop' := (loop clock init evolve).

  (* (1) the number of evolve steps is bounded by the generation limit, for every clock and every
         evolve oracle: steps made <= (n + 1) - generation_num at loop entry *)
  Lemma loop_steps_bound : forall fuel l s s' n,
    nog l = Some n -> loop' fuel l s = Some s' ->
    steps s' + gen_num (ks s) <= steps s + Nat.max (gen_num (ks s)) (n + 1).
  Proof.
    induction fuel as [|fuel IH]; intros l s s' n Hn H; [discriminate|].
    cbn [loop] in H.
    destruct (stop_test l init (clock (now s)) (clock (now s)) (ks s)) eqn:St.
    - inversion H; subst. lia.
    - apply stop_test_false in St. destruct St as [_ [G _]]. specialize (G n Hn).
      destruct (evolve (steps s) (ks s)) as [[imp d]|].
      + apply (IH _ _ _ n Hn) in H. cbn [ks steps now trace keeper_append gen_num] in H. lia.
      + inversion H; subst. cbn [ks steps now trace]. lia.
  Qed.

  (* every step is in the trace, and the trace only grows *)
  Lemma loop_trace_steps : forall fuel l s s',
    loop' fuel l s = Some s' ->
    List.length (trace s') + steps s = List.length (trace s) + steps s'.
  Proof.
    induction fuel as [|fuel IH]; intros l s s' H; [discriminate|].
    cbn [loop] in H.
    destruct (stop_test l init (clock (now s)) (clock (now s)) (ks s)).
    - inversion H; subst. lia.
    - destruct (evolve (steps s) (ks s)) as [[imp d]|].
      + apply IH in H. cbn [ks steps now trace keeper_append gen_num List.length] in H. lia.
      + inversion H; subst. cbn [ks steps now trace List.length]. lia.
  Qed.

  (* (2) a step is started only if the stop test just before it answered False *)
  Lemma loop_trace_may_step : forall fuel l s s',
    loop' fuel l s = Some s' ->
    forall k i, In (k, i) (trace s') -> In (k, i) (trace s) \/ may_step l init (clock i) k.
  Proof.
    induction fuel as [|fuel IH]; intros l s s' H k i Hin; [discriminate|].
    cbn [loop] in H.
    destruct (stop_test l init (clock (now s)) (clock (now s)) (ks s)) eqn:St.
    - inversion H; subst. left. exact Hin.
    - apply stop_test_false in St.
      destruct (evolve (steps s) (ks s)) as [[imp d]|].
      + destruct (IH _ _ _ H k i Hin) as [Hold|Hnew]; [|right; exact Hnew].
        cbn in Hold. destruct Hold as [E|Hold]; [|left; exact Hold].
        inversion E; subst. right. exact St.
      + inversion H; subst. cbn in Hin. destruct Hin as [E|Hold]; [|left; exact Hold].
        inversion E; subst. right. exact St.
  Qed.

  (* the loop ends for every oracle when a generation limit is set: fuel n + 2 is enough *)
  Lemma loop_terminates : forall l n, nog l = Some n ->
    forall k s, n + 1 <= gen_num (ks s) + k -> exists s', loop' (S k) l s = Some s'.
  Proof.
    intros l n Hn. induction k as [|k IH]; intros s Hk.
    - cbn [loop]. rewrite (stop_test_gen l init _ _ (ks s) n Hn) by lia. eexists. reflexivity.
    - cbn [loop]. destruct (stop_test l init (clock (now s)) (clock (now s)) (ks s)); [eexists; reflexivity|].
      destruct (evolve (steps s) (ks s)) as [[imp d]|]; [|eexists; reflexivity].
      apply IH. cbn. lia.
  Qed.

  (* (3) zero budget / budget used up at the first test: the loop is left at once *)
  Lemma loop_zero_budget : forall fuel l s t,
    tmo l = Some t ->
    ((t <= 0)%Q \/ ((t <= clock (now s))%Q /\ (init <= clock (now s))%Q /\ 1 <= gen_num (ks s))) ->
    loop' (S fuel) l s = Some s.
  Proof.
    intros fuel l s t E H. cbn [loop]. rewrite (stop_test_time l init _ _ (ks s) t E H). reflexivity.
  Qed.

  (* the whole populational run *)
  Lemma initial_gen_num : forall ext imp0 imp1 d0 d1,
    gen_num (ks (initial_state clock ext imp0 imp1 d0 d1)) = if ext then 2 else 1.
  Proof. intros. unfold initial_state. destruct ext; reflexivity. Qed.

  Lemma initial_steps : forall ext imp0 imp1 d0 d1,
    steps (initial_state clock ext imp0 imp1 d0 d1) = 0 /\ trace (initial_state clock ext imp0 imp1 d0 d1) = [].
  Proof. intros. unfold initial_state. destruct ext; split; reflexivity. Qed.

  Theorem run_generations_bounded : forall fuel l ext imp0 imp1 d0 d1 s' n,
    nog l = Some n -> run clock init evolve fuel l ext imp0 imp1 d0 d1 = Some s' ->
    steps s' <= n /\ (ext = true -> steps s' <= n - 1).
  Proof.
    intros fuel l ext imp0 imp1 d0 d1 s' n Hn H. unfold run in H.
    pose proof (loop_steps_bound _ _ _ _ _ Hn H) as B.
    rewrite initial_gen_num in B. destruct (initial_steps ext imp0 imp1 d0 d1) as [S0 _]. rewrite S0 in B.
    destruct ext; split; try lia; intros; try discriminate; lia.
  Qed.

  Theorem run_no_step_after_limit : forall fuel l ext imp0 imp1 d0 d1 s',
    run clock init evolve fuel l ext imp0 imp1 d0 d1 = Some s' ->
    List.length (trace s') = steps s' /\
    forall k i, In (k, i) (trace s') -> may_step l init (clock i) k.
  Proof.
    intros fuel l ext imp0 imp1 d0 d1 s' H. unfold run in H.
    destruct (initial_steps ext imp0 imp1 d0 d1) as [S0 T0]. split.
    - pose proof (loop_trace_steps _ _ _ _ H) as L. rewrite S0, T0 in L. cbn in L. lia.
    - intros k i Hin. destruct (loop_trace_may_step _ _ _ _ H k i Hin) as [Hold|Hnew]; [|exact Hnew].
      rewrite T0 in Hold. destruct Hold.
  Qed.

  Theorem run_zero_budget : forall fuel l ext imp0 imp1 d0 d1 t,
    tmo l = Some t ->
    let s0 := initial_state clock ext imp0 imp1 d0 d1 in
    ((t <= 0)%Q \/ ((t <= clock (now s0))%Q /\ (init <= clock (now s0))%Q)) ->
    run clock init evolve (S fuel) l ext imp0 imp1 d0 d1 = Some s0 /\ steps s0 = 0 /\ trace s0 = [].
  Proof.
    intros fuel l ext imp0 imp1 d0 d1 t E s0 H. unfold run. fold s0.
    destruct (initial_steps ext imp0 imp1 d0 d1) as [S0 T0]. fold s0 in S0, T0.
    split; [|split; assumption].
    apply (loop_zero_budget fuel l s0 t E).
    destruct H as [H|[H1 H2]]; [left; exact H|right]. repeat split; try assumption.
    unfold s0. rewrite initial_gen_num. destruct ext; lia.
  Qed.

  Theorem run_terminates : forall l n ext imp0 imp1 d0 d1, nog l = Some n ->
    exists s', run clock init evolve (n + 2) l ext imp0 imp1 d0 d1 = Some s'.
  Proof.
    intros. unfold run. replace (n + 2) with (S (n + 1)) by lia.
    apply (loop_terminates l n H). rewrite initial_gen_num. destruct ext; lia.
  Qed.

  (* ---- random search ---- *)
  Variable dur : nat -> nat.
  Notation rs_loop' := (rs_loop clock init dur).

  Lemma rs_steps_bound : forall fuel l iter t iter' t' n,
    nog l = Some n -> rs_loop' fuel l iter t = Some (iter', t') -> iter <= iter' <= Nat.max iter n.
  Proof.
    induction fuel as [|fuel IH]; intros l iter t iter' t' n Hn H; [discriminate|].
    cbn [rs_loop] in H. destruct (rs_stop_test l init (clock t) iter) eqn:St.
    - inversion H; subst. lia.
    - unfold rs_stop_test in St. apply orb_false_iff in St as [_ G]. rewrite Hn in G. apply Nat.leb_gt in G.
      apply (IH _ _ _ _ _ n Hn) in H. lia.
  Qed.

  Theorem rs_generations_bounded : forall fuel l t iter' t' n,
    nog l = Some n -> rs_loop' fuel l 0 t = Some (iter', t') -> iter' <= n.
  Proof. intros. pose proof (rs_steps_bound _ _ _ _ _ _ _ H H0). lia. Qed.

  (* without a time limit random search performs exactly num_of_generations iterations *)
  Lemma rs_exact_from : forall fuel l iter t iter' t' n,
    nog l = Some n -> tmo l = None -> iter <= n -> rs_loop' fuel l iter t = Some (iter', t') -> iter' = n.
  Proof.
    induction fuel as [|fuel IH]; intros l iter t iter' t' n Hn Ht Hle H; [discriminate|].
    cbn [rs_loop] in H. unfold rs_stop_test in H. rewrite Ht, Hn in H. cbn [opt_timer_reached orb] in H.
    destruct (Nat.leb n iter) eqn:G.
    - inversion H; subst. apply Nat.leb_le in G. lia.
    - apply Nat.leb_gt in G. apply (IH _ _ _ _ _ n Hn Ht) in H; [exact H|lia].
  Qed.

  Theorem rs_exact : forall fuel l t iter' t' n,
    nog l = Some n -> tmo l = None -> rs_loop' fuel l 0 t = Some (iter', t') -> iter' = n.
  Proof. intros fuel l t iter' t' n Hn Ht H. exact (rs_exact_from fuel l 0 t iter' t' n Hn Ht (Nat.le_0_l n) H). Qed.

  Theorem rs_zero_budget : forall fuel l t0 t,
    tmo l = Some t -> ((t <= 0)%Q \/ ((t <= clock t0)%Q /\ (init <= clock t0)%Q)) ->
    rs_loop' (S fuel) l 0 t0 = Some (0, t0).
  Proof.
    intros fuel l t0 t E H. cbn [rs_loop]. unfold rs_stop_test. rewrite E.
    rewrite budget_used_reached; [reflexivity|].
    destruct H as [H|[H1 H2]]; [left; exact H|right]. repeat split; try assumption. cbn. lia.
  Qed.

  (* a random-search iteration starts only while the timer test answers False *)
  Lemma rs_step_within_budget : forall l t iter tm,
    rs_stop_test l init (clock t) iter = false -> tmo l = Some tm -> (init <= clock t)%Q ->
    (0 < tm)%Q /\ (clock t < tm)%Q.
  Proof.
    intros l t iter tm H E Hi. unfold rs_stop_test in H. apply orb_false_iff in H as [H _]. rewrite E in H.
    apply (timer_false_within_budget tm init (clock t) (Z.of_nat iter) H Hi). lia.
  Qed.
End LoopProofs.

(* a step of the populational loop starts only while the elapsed time is below the timeout *)
Lemma may_step_within_budget : forall l init t k tm,
  may_step l init t k -> tmo l = Some tm -> (init <= t)%Q -> 1 <= gen_num k -> (0 < tm)%Q /\ (t < tm)%Q.
Proof.
  intros l init t k tm [H _] E Hi Hg. rewrite E in H.
  apply (timer_false_within_budget tm init t _ H Hi). lia.
Qed.

(* ------------------------------------------------------------------------------------- *)
(* (4) every documented combination of the four options is accepted                       *)
(* ------------------------------------------------------------------------------------- *)
Lemma d_c_time_ok : forall l init t s, d_c_time (dyn_of l) init t s = Ok (c_time l init t s).
Proof. intros [n e st tm] init t s. unfold d_c_time, c_time, dyn_of. cbn. destruct tm; reflexivity. Qed.

Lemma d_c_gen_ok : forall l s, d_c_gen (dyn_of l) s = Ok (c_gen l s).
Proof.
  intros [n e st tm] s. unfold d_c_gen, c_gen, dyn_of. cbn. destruct n as [n|]; [|reflexivity]. cbn.
  f_equal. destruct (Nat.leb (n + 1) (gen_num s)) eqn:E.
  - apply Nat.leb_le in E. apply Z.leb_le. lia.
  - apply Nat.leb_gt in E. apply Z.leb_gt. lia.
Qed.

Lemma Zleb_nat : forall a b, Z.leb (Z.of_nat a) (Z.of_nat b) = Nat.leb a b.
Proof.
  intros. destruct (Nat.leb a b) eqn:E.
  - apply Nat.leb_le in E. apply Z.leb_le. lia.
  - apply Nat.leb_gt in E. apply Z.leb_gt. lia.
Qed.

Lemma py_or_nat : forall e n,
  py_or (inj_nat e) (inj_nat n) = inj_nat (match e with Some (S k) => Some (S k) | _ => n end).
Proof. intros [[|k]|] n; reflexivity. Qed.

Lemma d_c_stag_ok : forall l s, d_c_stag (dyn_of l) s = Ok (c_stag l s).
Proof.
  intros l s. unfold d_c_stag, c_stag. unfold dyn_of at 1 2. cbn [d_esi d_nog].
  rewrite py_or_nat. fold (max_stag_len l).
  destruct (max_stag_len l) as [m|]; [|reflexivity].
  unfold inj_nat, py_ge. rewrite Zleb_nat. reflexivity.
Qed.

Lemma d_c_stagtime_ok : forall l t s, d_c_stagtime_with (d_est (dyn_of l)) t s = Ok (c_stagtime l t s).
Proof. intros [n e st tm] t s. unfold d_c_stagtime_with, c_stagtime, c_stagtime_d, dyn_of. cbn. destruct st; reflexivity. Qed.

Theorem stop_options_total : forall l init t1 t2 s,
  d_stop_test (dyn_of l) init t1 t2 s = Ok (stop_test l init t1 t2 s).
Proof.
  intros. unfold d_stop_test. rewrite d_c_time_ok, d_c_gen_ok, d_c_stag_ok, d_c_stagtime_ok.
  unfold stop_test.
  destruct (c_time l init t1 s), (c_gen l s), (c_stag l s), (c_stagtime l t2 s); reflexivity.
Qed.

(* the condition before the repair raised for early_stopping_timeout = None with a timeout set *)
Lemma stop_pinned_refuted : exists l init t1 t2 s, d_stop_test_pinned (dyn_of l) init t1 t2 s = Raise TypeError.
Proof.
  exists {| nog := Some 3; esi := None; est := None; tmo := Some 5%Q |}, 0%Q, 1%Q, 1%Q,
         {| gen_num := 1; stag := 0; stag_start := 0%Q |}.
  vm_compute. reflexivity.
Qed.

(* ------------------------------------------------------------------------------------- *)
(* (5) population size, depth                                                             *)
(* ------------------------------------------------------------------------------------- *)
Local Open Scope Z_scope.

Theorem const_rate_le_max : forall initial rate maxp len m,
  truthy_max maxp = Some m -> const_rate_next initial rate maxp len <= m.
Proof. intros. unfold const_rate_next. rewrite H. apply Z.le_min_r. Qed.

Lemma ceil_nonneg : forall (p : Z) (rate : Q), 0 <= p -> (0 <= rate)%Q -> 0 <= Qceiling (inject_Z p * rate).
Proof.
  intros p rate Hp Hr.
  assert (H : (0 <= inject_Z p * rate)%Q).
  { apply Qmult_le_0_compat; [|exact Hr]. replace 0%Q with (inject_Z 0) by reflexivity. rewrite <- Zle_Qle. exact Hp. }
  pose proof (Qle_ceiling (inject_Z p * rate)) as C.
  assert (L : (inject_Z 0 <= inject_Z (Qceiling (inject_Z p * rate)))%Q) by (exact (Qle_trans _ _ _ H C)).
  rewrite <- Zle_Qle in L. exact L.
Qed.

Theorem const_rate_ge_prev : forall initial rate maxp len,
  0 <= len -> (0 <= rate)%Q ->
  match truthy_max maxp with
  | Some m => Z.min (Z.max len initial) m <= const_rate_next initial rate maxp len
  | None => Z.max len initial <= const_rate_next initial rate maxp len
  end.
Proof.
  intros initial rate maxp len Hl Hr. unfold const_rate_next.
  assert (C : 0 <= Qceiling (inject_Z (Z.max len initial) * rate)) by (apply ceil_nonneg; [lia|exact Hr]).
  destruct (truthy_max maxp) as [m|]; [|lia].
  destruct (Z.ltb (Z.max len initial) m) eqn:E; lia.
Qed.

Theorem adaptive_next_bounds : forall it maxp len a q c it' v,
  adaptive_next it maxp len a q c = (it', Ok v) ->
  match truthy_max maxp with
  | Some m => v <= m /\ (MIN_POP_SIZE <= m -> MIN_POP_SIZE <= v)
  | None => MIN_POP_SIZE <= v
  end.
Proof.
  intros it maxp len a q c it' v H. unfold adaptive_next in H.
  destruct (Z.eqb (si_current it) 0); [discriminate|].
  match type of H with (let '(_, _) := ?X in _) = _ => destruct X as [it1 p1] end.
  inversion H; subst. destruct (truthy_max maxp) as [m|]; lia.
Qed.

Theorem depth_next_bounds : forall adaptive max_depth max_stag cur stagn cur' d,
  depth_next adaptive max_depth max_stag cur stagn = (cur', d) ->
  cur <= cur' <= Z.max cur max_depth /\ d <= Z.max cur max_depth /\ (adaptive = true -> d = cur').
Proof.
  intros adaptive max_depth max_stag cur stagn cur' d H. unfold depth_next in H.
  destruct adaptive; cbn [negb] in H.
  - destruct (Z.leb max_depth cur) eqn:E1.
    + inversion H; subst. repeat split; intros; try lia.
    + apply Z.leb_gt in E1. destruct (Z.leb max_stag stagn); inversion H; subst; repeat split; intros; try lia.
  - inversion H; subst. repeat split; intros; try lia.
Qed.

Theorem depth_run_bounded : forall adaptive max_depth max_stag stags cur d,
  In d (depth_run adaptive max_depth max_stag cur stags) -> d <= Z.max cur max_depth.
Proof.
  intros adaptive max_depth max_stag. induction stags as [|s r IH]; intros cur d H; [destruct H|].
  cbn [depth_run] in H. destruct (depth_next adaptive max_depth max_stag cur s) as [cur' x] eqn:E.
  apply depth_next_bounds in E. destruct H as [H|H].
  - subst. lia.
  - apply IH in H. lia.
Qed.

(* ---- fibonacci and the iterator: the initial adaptive size respects max_pop_size ---- *)
Lemma fib_iter_shift : forall n a b, fib_iter (S n) a b = fib_iter n b (a + b).
Proof. reflexivity. Qed.

Lemma fib_iter_mono_args : forall n a b a' b', a <= a' -> b <= b' -> fib_iter n a b <= fib_iter n a' b'.
Proof. induction n; intros; cbn; [lia|apply IHn; lia]. Qed.

Lemma fib_iter_step_le : forall n a b, 0 <= a -> a <= b -> fib_iter n a b <= fib_iter (S n) a b.
Proof.
  induction n; intros a b Ha Hab; cbn; [lia|].
  change (fib_iter n b (a + b) <= fib_iter (S n) b (a + b)). apply IHn; lia.
Qed.

Lemma fib_iter_nonneg : forall n a b, 0 <= a -> 0 <= b -> 0 <= fib_iter n a b.
Proof. induction n; intros; cbn; [lia|apply IHn; lia]. Qed.

Lemma fibZ_nonneg : forall i, 0 <= fibZ i.
Proof. intros. unfold fibZ. apply fib_iter_nonneg; lia. Qed.

Lemma fibZ_step : forall i, 0 <= i -> fibZ i <= fibZ (i + 1).
Proof.
  intros i Hi. unfold fibZ. replace (Z.to_nat (i + 1)) with (S (Z.to_nat i)) by lia.
  apply fib_iter_step_le; lia.
Qed.

Lemma fibZ_neg : forall i, i <= 0 -> fibZ i = 0.
Proof. intros. unfold fibZ. replace (Z.to_nat i) with O by lia. reflexivity. Qed.

Lemma fibZ_mono : forall i j, i <= j -> fibZ i <= fibZ j.
Proof.
  intros i j H. destruct (Z.le_gt_cases i 0) as [N|P].
  - rewrite (fibZ_neg i N). apply fibZ_nonneg.
  - replace j with (i + Z.of_nat (Z.to_nat (j - i))) by lia.
    induction (Z.to_nat (j - i)) as [|k IH]; [replace (i + Z.of_nat 0) with i by lia; lia|].
    replace (i + Z.of_nat (S k)) with ((i + Z.of_nat k) + 1) by lia.
    etransitivity; [exact IH|]. apply fibZ_step. lia.
Qed.

(* get_sequence_index returns an index whose predecessors are all below the value *)
Lemma seq_index_from_below : forall fuel n value,
  (forall m, 0 <= m < n -> fibZ m < value) ->
  forall m, 0 <= m < seq_index_from fuel n value -> fibZ m < value.
Proof.
  induction fuel as [|fuel IH]; intros n value Hb m Hm; cbn [seq_index_from] in Hm.
  - apply Hb. exact Hm.
  - destruct (Z.leb value (fibZ n)) eqn:E.
    + apply Hb. exact Hm.
    + apply Z.leb_gt in E. apply (IH (n + 1) value); [|exact Hm].
      intros k Hk. destruct (Z.eq_dec k n) as [->|Ne]; [exact E|apply Hb; lia].
Qed.

Lemma seq_index_below : forall value m, 0 <= m < seq_index value -> fibZ m < value.
Proof.
  intros value m H. unfold seq_index in H.
  apply (seq_index_from_below (Z.to_nat value + 2) 0 value); [intros; lia|exact H].
Qed.

Lemma seq_index_from_ge : forall fuel n value, n <= seq_index_from fuel n value.
Proof.
  induction fuel as [|fuel IH]; intros; cbn [seq_index_from]; [lia|].
  destruct (Z.leb value (fibZ n)); [lia|]. specialize (IH (n + 1) value). lia.
Qed.

Lemma seq_index_nonneg : forall value, 0 <= seq_index value.
Proof. intros. unfold seq_index. apply seq_index_from_ge. Qed.

(* with 1 <= pop_size-independent max and pop_size <= max_pop_size the initial size of the
   parameter-free scheme is <= max_pop_size *)
Theorem adaptive_initial_le_max : forall pop_size m it v,
  adaptive_make pop_size (Some m) = (it, Ok v) -> 1 <= m -> pop_size <= m -> v <= m.
Proof.
  intros pop_size m it v H H1 Hle. unfold adaptive_make, adaptive_init in H.
  destruct (si_has_next (si_make (Some pop_size) (Some m) (Some 1))) eqn:HN.
  - unfold si_has_next in HN. cbn [si_make si_max si_index] in HN. apply Z.leb_le in HN.
    unfold si_next in H. cbn [si_make si_min si_index] in H.
    destruct (Z.ltb (fibZ (seq_index pop_size - 1 + 1)) 1) eqn:L; inversion H; subst; [|exact HN].
    assert (S1 : seq_index 1 = 1) by (vm_compute; reflexivity). rewrite S1.
    assert (F1 : fibZ 1 = 1) by (vm_compute; reflexivity). rewrite F1. exact H1.
  - unfold si_prev in H. cbn [si_make si_index] in H.
    destruct (Z.ltb (seq_index pop_size - 1 - 1) 0) eqn:L; inversion H; subst.
    apply Z.ltb_ge in L.
    assert (B : fibZ (seq_index pop_size - 1 - 1) < pop_size) by (apply seq_index_below; lia).
    lia.
Qed.

(* ------------------------------------------------------------------------------------- *)
(* (6) the facade                                                                         *)
(* ------------------------------------------------------------------------------------- *)
Local Open Scope string_scope.

Lemma lookup_filter : forall (p : string -> bool) k d,
  lookup k (filter (fun kv => p (fst kv)) d) = if p k then lookup k d else None.
Proof.
  intros p k d. induction d as [|[k' v] r IH]; cbn.
  - destruct (p k); reflexivity.
  - destruct (p k') eqn:Pk'; cbn.
    + destruct (String.eqb k k') eqn:E.
      * apply String.eqb_eq in E. subst. rewrite Pk'. reflexivity.
      * exact IH.
    + destruct (String.eqb k k') eqn:E.
      * apply String.eqb_eq in E. subst. rewrite Pk' in *. exact IH.
      * exact IH.
Qed.

Lemma lookup_select : forall d k input,
  lookup k (select d input) = if dest_eqb (dest_of k) d then lookup k input else None.
Proof. intros. unfold select. apply (lookup_filter (fun k => dest_eqb (dest_of k) d)). Qed.

Lemma lookup_dict_set_other : forall k k' v d, String.eqb k k' = false -> lookup k (dict_set k' v d) = lookup k d.
Proof.
  intros k k' v d Ne. induction d as [|[k2 v2] r IH]; cbn.
  - rewrite Ne. reflexivity.
  - destruct (String.eqb k' k2) eqn:E; cbn.
    + apply String.eqb_eq in E. subst. rewrite Ne. reflexivity.
    + destruct (String.eqb k k2); [reflexivity|exact IH].
Qed.

Lemma lookup_dict_set_same : forall k v d, lookup k (dict_set k v d) = Some v.
Proof.
  intros k v d. induction d as [|[k2 v2] r IH]; cbn.
  - rewrite String.eqb_refl. reflexivity.
  - destruct (String.eqb k k2) eqn:E; cbn; rewrite E; [reflexivity|exact IH].
Qed.

Lemma aval_eqb_refl : forall v, aval_eqb v v = true.
Proof. destruct v; cbn; try reflexivity; try apply Qeq_bool_refl. apply Nat.eqb_refl. Qed.

(* finite part: every limit key is routed to the object it is documented for and is not "timeout" *)
Lemma limit_keys_routing :
  forallb (fun kd => dest_eqb (dest_of (fst kd)) (snd kd) && negb (String.eqb (fst kd) "timeout")
                     && negb (String.eqb (fst kd) "n_jobs")
                     && negb (dest_eqb (snd kd) DCommon)) limit_keys = true.
Proof. vm_compute. reflexivity. Qed.

Lemma dest_eqb_eq : forall a b, dest_eqb a b = true -> a = b.
Proof. destruct a, b; cbn; intro H; try reflexivity; discriminate. Qed.

Lemma facade_ok_inv : forall cpu timeout n_jobs kwargs out,
  facade cpu timeout n_jobs kwargs = Ok out ->
  exists nj tdv, determine_n_jobs cpu n_jobs = Ok nj /\ to_timedelta timeout = Ok tdv /\
    let input := dict_set "n_jobs" (ANum (inject_Z nj)) (dict_set "timeout" tdv kwargs) in
    to_gp out = select DGp input /\ to_gen out = select DGen input /\ to_req out = select DReq input /\
    to_common out = select DCommon input.
Proof.
  intros cpu timeout n_jobs kwargs out F. unfold facade in F.
  destruct (determine_n_jobs cpu n_jobs) as [nj|e]; [|discriminate].
  destruct (to_timedelta timeout) as [tdv|e]; [|discriminate].
  inversion F; subst out. exists nj, tdv. cbn. repeat split; reflexivity.
Qed.

Lemma lookup_in_select : forall out input d k,
  to_gp out = select DGp input -> to_gen out = select DGen input -> to_req out = select DReq input ->
  to_common out = select DCommon input ->
  lookup_in d out k = if dest_eqb (dest_of k) d then lookup k input else None.
Proof.
  intros out input d k H1 H2 H3 H4. unfold lookup_in. destruct d; rewrite ?H1, ?H2, ?H3, ?H4; apply lookup_select.
Qed.

(* each limit given to the facade is found unchanged in the parameter object it is documented for
   and in neither of the other two *)
Theorem api_params_faithful : forall cpu timeout n_jobs kwargs out k d v,
  facade cpu timeout n_jobs kwargs = Ok out ->
  In (k, d) limit_keys -> lookup k kwargs = Some v ->
  only_in d out k v = true.
Proof.
  intros cpu timeout n_jobs kwargs out k d v F Hin Hl.
  pose proof limit_keys_routing as R. rewrite forallb_forall in R. specialize (R _ Hin). cbn [fst snd] in R.
  apply andb_true_iff in R as [R Rc]. apply andb_true_iff in R as [R Rj]. apply andb_true_iff in R as [Rd Rt].
  apply negb_true_iff in Rt. apply negb_true_iff in Rj. apply dest_eqb_eq in Rd.
  destruct (facade_ok_inv _ _ _ _ _ F) as [nj [tdv [_ [_ [G1 [G2 [G3 G4]]]]]]].
  unfold only_in. cbn [forallb]. rewrite !(lookup_in_select _ _ _ _ G1 G2 G3 G4).
  rewrite (lookup_dict_set_other _ _ _ _ Rj), (lookup_dict_set_other _ _ _ _ Rt), Hl, Rd.
  destruct d; cbn in Rc |- *; try discriminate; rewrite aval_eqb_refl; reflexivity.
Qed.

(* the timeout arrives in the requirements as the same duration; None stays None *)
Theorem api_timeout_faithful : forall cpu timeout n_jobs kwargs out,
  facade cpu timeout n_jobs kwargs = Ok out ->
  match timeout with
  | ANum q => only_in DReq out "timeout" (ADelta q) = true
  | ADelta q => only_in DReq out "timeout" (ADelta q) = true
  | ANone => only_in DReq out "timeout" ANone = true
  | AOpaque _ => False
  end.
Proof.
  intros cpu timeout n_jobs kwargs out F.
  destruct (facade_ok_inv _ _ _ _ _ F) as [nj [tdv [_ [T [G1 [G2 [G3 G4]]]]]]].
  assert (Ne : String.eqb "timeout" "n_jobs" = false) by reflexivity.
  assert (D : dest_of "timeout" = DReq) by (vm_compute; reflexivity).
  destruct timeout; cbn in T; inversion T; subst tdv;
    unfold only_in; cbn [forallb]; rewrite !(lookup_in_select _ _ _ _ G1 G2 G3 G4);
    rewrite (lookup_dict_set_other _ _ _ _ Ne), lookup_dict_set_same, D; cbn; rewrite ?Qeq_bool_refl; reflexivity.
Qed.

(* the worker count arrives in the requirements as determine_n_jobs(n_jobs) and nowhere else *)
Theorem api_n_jobs_faithful : forall cpu timeout n_jobs kwargs out,
  facade cpu timeout n_jobs kwargs = Ok out ->
  exists nj, determine_n_jobs cpu n_jobs = Ok nj /\ only_in DReq out "n_jobs" (ANum (inject_Z nj)) = true.
Proof.
  intros cpu timeout n_jobs kwargs out F.
  destruct (facade_ok_inv _ _ _ _ _ F) as [nj [tdv [N [_ [G1 [G2 [G3 G4]]]]]]].
  exists nj. split; [exact N|].
  assert (D : dest_of "n_jobs" = DReq) by (vm_compute; reflexivity).
  unfold only_in. cbn [forallb]. rewrite !(lookup_in_select _ _ _ _ G1 G2 G3 G4).
  rewrite lookup_dict_set_same, D. cbn. rewrite Qeq_bool_refl. reflexivity.
Qed.

(* a key the facade was not given reaches none of the parameter objects: the field keeps its class default *)
Theorem api_unset_stays_unset : forall cpu timeout n_jobs kwargs out d k,
  facade cpu timeout n_jobs kwargs = Ok out -> lookup k kwargs = None ->
  String.eqb k "timeout" = false -> String.eqb k "n_jobs" = false ->
  lookup_in d out k = None.
Proof.
  intros cpu timeout n_jobs kwargs out d k F Hl Ht Hj.
  destruct (facade_ok_inv _ _ _ _ _ F) as [nj [tdv [_ [_ [G1 [G2 [G3 G4]]]]]]].
  rewrite (lookup_in_select _ _ _ _ G1 G2 G3 G4).
  rewrite (lookup_dict_set_other _ _ _ _ Hj), (lookup_dict_set_other _ _ _ _ Ht), Hl.
  destruct (dest_eqb (dest_of k) d); reflexivity.
Qed.

(* determine_n_jobs: k unchanged for 1 <= k <= cpu, -1 = all cpus, never an error on documented counts *)
Theorem determine_n_jobs_spec : forall cpu n, (1 <= cpu)%Z ->
  ((1 <= n <= cpu)%Z -> determine_n_jobs cpu n = Ok n) /\
  ((- cpu <= n <= -1)%Z -> determine_n_jobs cpu n = Ok (cpu + 1 + n)%Z) /\
  ((cpu < n)%Z -> determine_n_jobs cpu n = Ok cpu) /\
  ((n = 0 \/ n < - cpu)%Z -> determine_n_jobs cpu n = Raise ValueError).
Proof.
  intros cpu n Hc. unfold determine_n_jobs. repeat split; intro H.
  - destruct (Z.ltb cpu n) eqn:E1; [apply Z.ltb_lt in E1; lia|].
    destruct (Z.leb n 0) eqn:E2; [apply Z.leb_le in E2; lia|reflexivity].
  - destruct (Z.ltb cpu n) eqn:E1; [apply Z.ltb_lt in E1; lia|].
    destruct (Z.leb n 0) eqn:E2; [|apply Z.leb_gt in E2; lia].
    destruct (Z.leb n (- cpu - 1)) eqn:E3; [apply Z.leb_le in E3; lia|].
    destruct (Z.eqb n 0) eqn:E4; [apply Z.eqb_eq in E4; lia|reflexivity].
  - destruct (Z.ltb cpu n) eqn:E1; [reflexivity|apply Z.ltb_ge in E1; lia].
  - destruct (Z.ltb cpu n) eqn:E1; [apply Z.ltb_lt in E1; lia|].
    destruct (Z.leb n 0) eqn:E2; [|apply Z.leb_gt in E2; lia].
    destruct H as [H|H].
    + subst. rewrite orb_true_r. reflexivity.
    + assert (E3 : Z.leb n (- cpu - 1) = true) by (apply Z.leb_le; lia). rewrite E3. reflexivity.
Qed.

(* the facade accepts every documented timeout / worker count, whatever the keyword arguments *)
Theorem facade_accepts : forall cpu timeout n_jobs kwargs, (1 <= cpu)%Z ->
  ((1 <= n_jobs <= cpu)%Z \/ (- cpu <= n_jobs <= -1)%Z \/ (cpu < n_jobs)%Z) ->
  (forall x, timeout <> AOpaque x) ->
  exists out, facade cpu timeout n_jobs kwargs = Ok out.
Proof.
  intros cpu timeout n_jobs kwargs Hc Hn Ht. unfold facade.
  destruct (determine_n_jobs_spec cpu n_jobs Hc) as [S1 [S2 [S3 _]]].
  destruct Hn as [H|[H|H]]; [rewrite (S1 H)|rewrite (S2 H)|rewrite (S3 H)];
    (destruct timeout; cbn; try (eexists; reflexivity); exfalso; eapply Ht; reflexivity).
Qed.

(* before the repair 03e7a66: timeout = None raised and the worker count stayed on ApiParams *)
Definition facade_pinned (timeout : aval) (kwargs : list (string * aval)) : res api_out :=
  match timeout with
  | ANone | AOpaque _ => Raise TypeError
  | ANum q | ADelta q =>
      let input := dict_set "timeout" (ADelta q) kwargs in
      Ok {| to_gp := select DGp input; to_gen := select DGen input; to_req := select DReq input;
            to_common := select DCommon input; dynamic_req := false; attr_n_jobs := ANone |}
  end.

Lemma facade_pinned_refuted :
  facade_pinned ANone [] = Raise TypeError /\
  exists out, facade_pinned (ANum 1) [] = Ok out /\ lookup_in DReq out "n_jobs" = None.
Proof. split; [reflexivity|]. eexists. split; reflexivity. Qed.

(* ------------------------------------------------------------------------------------- *)
(* the model's own answers satisfy the unit-level clauses checked on the implementation   *)
(* ------------------------------------------------------------------------------------- *)
Local Open Scope Z_scope.

Lemma budget_used_spec : forall timeout minutes,
  budget_used timeout minutes = true <-> exists t, timeout = Some t /\ ((t <= 0)%Q \/ (t <= minutes)%Q).
Proof.
  intros [t|] minutes; unfold budget_used; split.
  - intro H. exists t. split; [reflexivity|]. apply orb_true_iff in H as [H|H]; apply Qle_bool_iff in H; tauto.
  - intros [t' [E H]]. inversion E; subst. apply orb_true_iff. destruct H as [H|H]; apply Qle_bool_iff in H; tauto.
  - discriminate.
  - intros [t' [E _]]. discriminate.
Qed.

Theorem model_stop_test_holds : forall l s t, uholds (UStop l s t (Some (stop_test l 0 t t s))) = true.
Proof.
  intros l s t. cbn [uholds]. repeat (apply andb_true_iff; split); apply implb_true_iff; intro H.
  - apply andb_true_iff in H as [H G]. apply andb_true_iff in H as [B T0].
    apply budget_used_spec in B as [tm [E B]]. apply Qle_bool_iff in T0. apply Nat.leb_le in G.
    apply (stop_test_time l 0%Q t t s tm E).
    destruct B as [B|B]; [left; exact B|right; repeat split; assumption].
  - destruct (nog l) as [n|] eqn:E; [|discriminate]. apply Nat.ltb_lt in H.
    apply (stop_test_gen l 0%Q t t s n E H).
  - destruct (esi l) as [[|m]|] eqn:E; try discriminate. apply Nat.leb_le in H.
    apply (stop_test_stag l 0%Q t t s m E H).
  - destruct (est l) as [e|] eqn:E; [|discriminate]. apply Qle_bool_iff in H.
    apply (stop_test_stagtime l 0%Q t t s e E H).
Qed.

Theorem model_const_rate_holds : forall initial rate maxp len,
  0 <= len -> uholds (UConst initial rate maxp len (const_rate_next initial rate maxp len)) = true.
Proof.
  intros initial rate maxp len Hl. cbn [uholds].
  pose proof (const_rate_ge_prev initial rate maxp len Hl) as G.
  destruct (truthy_max maxp) as [m|] eqn:E.
  - apply andb_true_iff. split.
    + apply Z.leb_le. apply (const_rate_le_max _ _ _ _ _ E).
    + apply implb_true_iff. intro R. apply Qle_bool_iff in R. apply Z.leb_le. exact (G R).
  - apply implb_true_iff. intro R. apply Qle_bool_iff in R. apply Z.leb_le. exact (G R).
Qed.

(* the structural-diversity refill never lifts a population above max_pop_size *)
Theorem diversity_refill_le_max : forall maxp m unique,
  truthy_max maxp = Some m -> unique <= m -> diversity_refill maxp unique <= m.
Proof.
  intros maxp m unique E H. unfold diversity_refill, diversity_target. rewrite E.
  destruct (Z.ltb 0 unique && Z.ltb unique (Z.min MIN_POP_SIZE m)); lia.
Qed.

Theorem diversity_refill_ge : forall maxp unique, unique <= diversity_refill maxp unique.
Proof.
  intros. unfold diversity_refill.
  destruct (Z.ltb 0 unique && Z.ltb unique (diversity_target maxp)) eqn:E; [|lia].
  apply andb_true_iff in E as [_ E]. apply Z.ltb_lt in E. lia.
Qed.

Lemma diversity_refill_pinned_refuted : exists m unique, unique <= m /\ m < diversity_refill_pinned unique.
Proof. exists 3, 2. vm_compute. split; [discriminate|reflexivity]. Qed.

Theorem model_diversity_holds : forall maxp unique, uholds (UDiversity maxp unique (diversity_refill maxp unique)) = true.
Proof.
  intros. cbn [uholds]. destruct (truthy_max maxp) as [m|] eqn:E; [|reflexivity].
  apply implb_true_iff. intro H. apply Z.leb_le in H. apply Z.leb_le. apply (diversity_refill_le_max _ _ _ E H).
Qed.

Local Open Scope nat_scope.

(* ------------------------------------------------------------------------------------- *)
(* reflection: the boolean clauses evaluated on observed runs decide the stated properties *)
(* ------------------------------------------------------------------------------------- *)
Lemma h_generations_spec : forall r,
  h_generations r = true <->
  (forall n, nog (r_lim r) = Some n ->
     List.length (r_evolved_sizes r) <= n /\ r_started r <= n /\ r_iters r <= n).
Proof.
  intro r. unfold h_generations. destruct (nog (r_lim r)) as [n|]; split; intro H.
  - intros n' E. inversion E; subst n'. apply andb_true_iff in H as [H H3]. apply andb_true_iff in H as [H1 H2].
    apply Nat.leb_le in H1, H2, H3. repeat split; assumption.
  - destruct (H n eq_refl) as [H1 [H2 H3]]. apply Nat.leb_le in H1, H2, H3. rewrite H1, H2, H3. reflexivity.
  - intros n E. discriminate.
  - reflexivity.
Qed.

Lemma h_max_pop_spec : forall r,
  h_max_pop r = true <->
  (forall m, truthy_max (r_maxpop r) = Some m -> forall n, In n (r_evolved_sizes r) -> (Z.of_nat n <= m)%Z).
Proof.
  intro r. unfold h_max_pop. destruct (truthy_max (r_maxpop r)) as [m|]; split; intro H.
  - intros m' E n Hin. inversion E; subst m'. rewrite forallb_forall in H. apply Z.leb_le. exact (H n Hin).
  - apply forallb_forall. intros n Hin. apply Z.leb_le. exact (H m eq_refl n Hin).
  - intros m E. discriminate.
  - reflexivity.
Qed.

Lemma h_zero_budget_spec : forall r,
  h_zero_budget r = true <->
  (forall t, tmo (r_lim r) = Some t -> (t <= 0)%Q ->
     r_evolved_sizes r = [] /\ r_started r = 0 /\ r_iters r = 0 /\ (r_wall_ms r <= PROMPT_MS)%Z).
Proof.
  intro r. unfold h_zero_budget. destruct (tmo (r_lim r)) as [t|]; split; intro H.
  - intros t' E L. inversion E; subst t'. apply Qle_bool_iff in L. rewrite L in H. cbn [implb] in H.
    apply andb_true_iff in H as [H H4]. apply andb_true_iff in H as [H H3]. apply andb_true_iff in H as [H1 H2].
    apply Nat.eqb_eq in H1, H2, H3. apply Z.leb_le in H4.
    repeat split; try assumption. destruct (r_evolved_sizes r); [reflexivity|discriminate].
  - apply implb_true_iff. intro L. apply Qle_bool_iff in L. destruct (H t eq_refl L) as [H1 [H2 [H3 H4]]].
    rewrite H1, H2, H3. apply Z.leb_le in H4. rewrite H4. reflexivity.
  - intros t E. discriminate.
  - reflexivity.
Qed.

(* pairs of (recorded population before a step, the population the step produced) *)
Lemma h_stagnation_spec : forall r,
  h_stagnation r = true <->
  (forall a b, In (a, b) (step_pairs (r_pops r)) ->
     (forall m, esi (r_lim r) = Some (S m) -> p_stag a < S m) /\
     (forall e, est (r_lim r) = Some e -> (p_stagdur a < e)%Q)).
Proof.
  intro r. unfold h_stagnation. rewrite forallb_forall. split; intro H.
  - intros a b Hin. specialize (H (a, b) Hin). cbn [fst] in H. apply andb_true_iff in H as [H1 H2]. split.
    + intros m E. rewrite E in H1. apply Nat.ltb_lt in H1. exact H1.
    + intros e E. rewrite E in H2. apply Qltb_true in H2. exact H2.
  - intros [a b] Hin. destruct (H a b Hin) as [H1 H2]. cbn [fst]. apply andb_true_iff. split.
    + destruct (esi (r_lim r)) as [[|m]|]; try reflexivity. apply Nat.ltb_lt. exact (H1 m eq_refl).
    + destruct (est (r_lim r)) as [e|]; [|reflexivity]. apply Qltb_true. exact (H2 e eq_refl).
Qed.

(* ------------------------------------------------------------------------------------- *)
(* the stagnation clock of the keeper model                                               *)
(* ------------------------------------------------------------------------------------- *)
(* within a day the reported stagnation time is the elapsed time cut to whole seconds *)
Lemma stag_duration_bounds : forall now start,
  (0 <= now - start)%Q -> (now - start < 1440)%Q ->
  (stag_duration now start <= now - start)%Q /\ (now - start - (1 # 60) < stag_duration now start)%Q.
Proof.
  intros now start H0 H1. unfold stag_duration.
  set (x := ((now - start) * 60)%Q).
  assert (X0 : (0 <= x)%Q) by (unfold x; lra).
  assert (X1 : (x < 86400)%Q) by (unfold x; lra).
  pose proof (Qfloor_le x) as F1. pose proof (Qlt_floor x) as F2.
  assert (Z0 : (0 <= Qfloor x)%Z).
  { assert (L : (Qfloor 0 <= Qfloor x)%Z) by (apply Qfloor_resp_le; exact X0). exact L. }
  assert (Z1 : (Qfloor x < 86400)%Z).
  { rewrite Zlt_Qlt. apply (Qle_lt_trans _ x); [exact F1|]. exact X1. }
  rewrite (Z.mod_small _ _ (conj Z0 Z1)).
  rewrite (Qmake_Qdiv (Qfloor x) 60).
  replace (inject_Z (Z.pos 60)) with 60%Q by reflexivity.
  rewrite inject_Z_plus in F2. replace (inject_Z 1) with 1%Q in F2 by reflexivity.
  remember (inject_Z (Qfloor x)) as zq eqn:Hz. clear Hz Z0 Z1.
  unfold x in F1, F2, X0, X1. clear x.
  unfold Qdiv. change (/ 60)%Q with (1 # 60)%Q. split; lra.
Qed.

Lemma keeper_clock_model : forall apps s first restart,
  first = Nat.eqb (gen_num s) 0 -> stag_start s = restart ->
  keeper_clock_ok first restart apps (keeper_run s apps) = true.
Proof.
  induction apps as [|[[imp t] qt] r IH]; intros s first restart Hf Hs; [reflexivity|].
  cbn [keeper_run keeper_clock_ok].
  assert (E : stag_start (keeper_append imp t s) = (if first || imp then t else restart)).
  { unfold keeper_append. cbn [stag_start]. subst first restart.
    change (Nat.eqb (S (gen_num s)) 1) with (Nat.eqb (gen_num s) 0).
    destruct imp, (Nat.eqb (gen_num s) 0); reflexivity. }
  rewrite E. set (restart' := if first || imp then t else restart) in *.
  apply andb_true_iff. split; [apply andb_true_iff; split|].
  - apply Qeq_bool_refl.
  - apply implb_true_iff. intro H. apply andb_true_iff in H as [H1 H2].
    apply Qle_bool_iff in H1. apply Qltb_true in H2.
    destruct (stag_duration_bounds qt restart') as [B1 B2]; [lra|exact H2|].
    apply andb_true_iff. split; [apply Qle_bool_iff; exact B1|apply Qltb_true; exact B2].
  - apply IH; [reflexivity|exact E].
Qed.

(* the model's keeper satisfies the clock clause checked on the real GenerationKeeper: the stagnation clock
   restarts exactly on the first recorded population and on improving ones *)
Theorem model_keeper_clock_holds : forall t_create apps,
  uholds (UKeeper t_create apps (keeper_run (keeper_init t_create) apps)) = true.
Proof. intros. cbn [uholds]. apply keeper_clock_model; reflexivity. Qed.
