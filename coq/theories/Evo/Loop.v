(* Model of the optimiser loop bookkeeping (property C01; snapshot clause of C06):
   PopulationalOptimizer.optimise / _update_population / _log_to_history and the repaired
   RandomSearchOptimizer.optimise share this shape:
      for every population handed to _update_population:
          keeper.append(pop)                       -- archive update (Archive/*.v, property C08)
          history.add_to_history(pop, label)       -- stamps native generations (Evo/History.v)
          history.add_to_archive_history(archive.items)
      finally _update_population(archive.items, 'final_choices');
      return [ind.graph for ind in archive.items]
   WHICH populations are produced (initial, extended, evolved ones, where the loop stops) is an
   oracle: the list `pops`.  Definitions only.

   Individuals are the records of Archive/Hof.v; identity = uid.  The field `ngen` of those
   records is not used here: the native generation of an Individual object changes over time
   (it is set when the population is recorded, AFTER the archive update), so the similarity test
   of the Pareto front (_individuals_same) reads it from the history state of the moment. *)
From Coq Require Import List Bool Arith QArith.
From GolemV Require Import Fitness.Fitness Archive.Hof Archive.Pareto Evo.History.
Import ListNotations.
Local Open Scope nat_scope.

(* generation_keeper._individuals_same at a moment when the native generations are `m` *)
Definition sim_at (m : ngmap) (a b : indiv) : bool :=
  f_eq (fitness a) (fitness b) && opt_nat_eqb (ng_lookup m (uid a)) (ng_lookup m (uid b)) &&
  (gclass a =? gclass b).

(* GenerationKeeper: ParetoFront(maxsize = keep_n_best * 5, similar = _individuals_same) for a
   multi-objective objective, else HallOfFame(maxsize = keep_n_best) *)
Definition pareto_cap (k : nat) : nat := k * 5.

Definition arch_upd (multi : bool) (k : nat) (m : ngmap) (a : hof) (pop : list indiv) : hof :=
  if multi then pf_update fitness f_worse f_dom f_eq (sim_at m) (pareto_cap k) a pop
  else hof_upd k a pop.

Record run := {
  r_arch : hof;                              (* the keeper's archive *)
  r_hist : hstate;                           (* history: generations (uids) + native generations *)
  r_pops : list (label * list indiv);        (* the recorded populations themselves *)
  r_snaps : list (list indiv) }.             (* archive snapshot recorded with each generation *)

Definition run_init : run :=
  {| r_arch := empty_arch; r_hist := h_init; r_pops := []; r_snaps := [] |}.

Definition update_population (multi : bool) (k : nat) (r : run) (call : label * list indiv) : run :=
  let a := arch_upd multi k (ngs (r_hist r)) (r_arch r) (snd call) in
  {| r_arch := a;
     r_hist := add_to_history (r_hist r) (fst call, map uid (snd call));
     r_pops := r_pops r ++ [call];
     r_snaps := r_snaps r ++ [items a] |}.

Definition loop (multi : bool) (k : nat) (pops : list (label * list indiv)) : run :=
  fold_left (update_population multi k) pops run_init.

(* optimise: all populations of the loop, then the final choices *)
Definition optimise (multi : bool) (k : nat) (pops : list (label * list indiv)) : run :=
  let r := loop multi k pops in
  update_population multi k r (LFinal, items (r_arch r)).

Definition result (r : run) : list nat := map gclass (items (r_arch r)).

(* did the capacity eviction of the Pareto front ever fire? (ghost) *)
Fixpoint no_evict_from (k : nat) (r : run) (pops : list (label * list indiv)) : bool :=
  match pops with
  | [] => true
  | c :: rest =>
      pf_no_evict fitness f_worse f_dom f_eq (sim_at (ngs (r_hist r))) (pareto_cap k) (r_arch r) (snd c) &&
      no_evict_from k (update_population true k r c) rest
  end.

(* ---------- what the harness observed on a real run ---------- *)
Record orun := {
  or_multi : bool; or_keep : nat;
  or_gens : list (label * list indiv);   (* recorded generations: members with uid, fitness, graph class *)
  or_snaps : list (list nat);            (* uids of the archive snapshot recorded with each generation *)
  or_result : list nat;                  (* graph classes of the returned graphs, in order *)
  or_verified : list bool;               (* verifier verdict on each returned graph *)
  or_ng : list (nat * nat) }.            (* observed native generation of every recorded uid *)

Fixpoint nat_list_eqb (a b : list nat) : bool :=
  match a, b with
  | [], [] => true
  | x :: a', y :: b' => (x =? y) && nat_list_eqb a' b'
  | _, _ => false
  end.

(* the model is driven with the recorded populations (all but the final one, which the model
   derives itself) *)
Definition model_of (o : orun) : run := optimise (or_multi o) (or_keep o) (removelast (or_gens o)).

Definition agree (o : orun) : bool :=
  let r := model_of o in
  forallb2 nat_list_eqb (map (map uid) (r_snaps r)) (or_snaps o) &&
  nat_list_eqb (result r) (or_result o) &&
  forallb2 (fun g g' => label_eqb (fst g) (fst g') && nat_list_eqb (map uid (snd g)) (map uid (snd g')))
           (r_pops r) (or_gens o) &&
  forallb (fun un => match ng_lookup (ngs (r_hist r)) (fst un) with
                     | Some n => n =? snd un | None => false end) (or_ng o).

(* ---------- the property on the observed run, formulated without the archive model ---------- *)
Definition last_gen (o : orun) : list indiv :=
  match rev (or_gens o) with [] => [] | g :: _ => snd g end.
Definition last_label_final (o : orun) : bool :=
  match rev (or_gens o) with [] => false | g :: _ => label_eqb (fst g) LFinal end.
Definition last_snap (o : orun) : list nat :=
  match rev (or_snaps o) with [] => [] | s :: _ => s end.

Definition recorded (o : orun) : list indiv := concat (map snd (or_gens o)).

Definition holds_b (o : orun) : bool :=
  let lg := last_gen o in
  (* returned graphs = final archive = last generation, labelled as the final choices *)
  last_label_final o &&
  nat_list_eqb (or_result o) (map gclass lg) &&
  nat_list_eqb (last_snap o) (map uid lg) &&
  (* each of them passes the verifier *)
  forallb (fun b : bool => b) (or_verified o) && (length (or_verified o) =? length (or_result o)) &&
  (* (an empty result is not excluded by C01: when no initial graph can be evaluated the archive
     stays empty; non-emptiness is the business of C07, under its premise) *)
  if or_multi o then
    (* no returned individual is dominated by any recorded individual *)
    forallb (fun r => forallb (fun x => negb (f_dom (fitness x) (fitness r))) (recorded o)) lg
  else
    (* at most keep_n_best; nothing recorded is better than the best returned one *)
    (length lg <=? or_keep o) &&
    match lg with
    | [] => forallb (fun g => match snd g with [] => true | _ => false end) (or_gens o)
    | best :: _ => forallb (fun x => negb (f_better (fitness x) (fitness best))) (recorded o)
    end.

(* was the Pareto capacity ever reached?  (then a dominator may have been evicted) *)
Definition capacity_reached (o : orun) : bool :=
  or_multi o && existsb (fun s => pareto_cap (or_keep o) <=? length s) (or_snaps o).
