(* Model of the optimiser loop bookkeeping (property C01):
   PopulationalOptimizer.optimise / _update_population / _log_to_history and the repaired
   RandomSearchOptimizer.optimise share this shape:
      for every population handed to _update_population:  keeper.append(pop);
          history.add_to_history(pop, label); history.add_to_archive_history(archive.items)
      finally _update_population(archive.items, 'final_choices'); return [ind.graph for ind in archive.items]
   WHICH populations are produced (initial, extended, evolved ones, where the loop stops) is an
   oracle: the list `pops`.  Definitions only.  Archive / keeper: Archive/*.v (property C08). *)
From Coq Require Import List Bool Arith QArith.
From GolemV Require Import Fitness.Fitness Archive.Hof Archive.Pareto Archive.Keeper Evo.History.
Import ListNotations.
Local Open Scope nat_scope.

Definition set_ngen (n : nat) (x : indiv) : indiv :=
  match ngen x with
  | Some _ => x
  | None => {| uid := uid x; fitness := fitness x; gclass := gclass x; ngen := Some n |}
  end.

(* Generation(...) stamps native_generation on the recorded objects; the archive holds the same
   objects, so members that were new in this population now carry the generation number *)
Definition restamp (num : nat) (a : hof) : hof :=
  {| keys := keys a; items := map (set_ngen num) (items a) |}.

Record run := { r_keeper : keeper; r_gens : list (label * list indiv); r_snaps : list (list indiv) }.

Definition run_init (n : nat) : run := {| r_keeper := keeper_init n; r_gens := []; r_snaps := [] |}.

Definition update_population (kd : akind) (n : nat) (r : run) (call : label * list indiv) : run :=
  let k1 := keeper_append kd n (r_keeper r) (snd call) in
  let a := restamp (length (r_gens r)) (k_arch k1) in
  {| r_keeper := {| k_arch := a; k_gen := k_gen k1; k_stag := k_stag k1; k_impr := k_impr k1 |};
     r_gens := r_gens r ++ [(fst call, map (set_ngen (length (r_gens r))) (snd call))];
     r_snaps := r_snaps r ++ [items a] |}.

Definition archive_items (r : run) : list indiv := items (k_arch (r_keeper r)).

(* optimise: all populations of the loop, then the final choices *)
Definition optimise (kd : akind) (n : nat) (pops : list (label * list indiv)) : run :=
  let r := fold_left (update_population kd n) pops (run_init n) in
  update_population kd n r (LFinal, archive_items r).

Definition result (r : run) : list nat := map gclass (archive_items r).

(* ---------- what the harness observed on a real run ---------- *)
Record orun := {
  or_multi : bool; or_keep : nat; or_metrics : nat;
  or_gens : list (label * list indiv);   (* recorded generations, members with their fitness, graph class
                                            and the native generation they had when handed to the keeper *)
  or_snaps : list (list nat);            (* uids of the archive snapshot recorded with each generation *)
  or_result : list nat;                  (* graph classes of the returned graphs, in order *)
  or_verified : list bool }.             (* verifier verdict on each returned graph *)

Definition nat_list_eqb := Keeper.nat_list_eqb.

Definition all_but_last {A} (l : list A) : list A := removelast l.

(* the model is driven with the recorded populations (all but the final one, which the model
   derives itself) *)
Definition model_of (o : orun) : run :=
  optimise (keeper_kind (or_multi o) (or_keep o)) (or_metrics o) (all_but_last (or_gens o)).

Definition agree (o : orun) : bool :=
  let r := model_of o in
  forallb2 nat_list_eqb (map (map uid) (r_snaps r)) (or_snaps o) &&
  nat_list_eqb (result r) (or_result o) &&
  forallb2 (fun g g' => label_eqb (fst g) (fst g') && nat_list_eqb (map uid (snd g)) (map uid (snd g')))
           (r_gens r) (or_gens o).

(* ---------- the property on the observed run, formulated without the archive model ---------- *)
Definition last_gen (o : orun) : list indiv :=
  match rev (or_gens o) with [] => [] | g :: _ => snd g end.
Definition last_label_final (o : orun) : bool :=
  match rev (or_gens o) with [] => false | g :: _ => label_eqb (fst g) LFinal end.
Definition last_snap (o : orun) : list nat :=
  match rev (or_snaps o) with [] => [] | s :: _ => s end.

Definition recorded (o : orun) : list indiv := concat (map snd (or_gens o)).

Definition holds_b (o : orun) : bool :=
  let lg := last_gen o in
  (* returned graphs = final archive = last generation, labelled as the final choices *)
  last_label_final o &&
  nat_list_eqb (or_result o) (map gclass lg) &&
  nat_list_eqb (last_snap o) (map uid lg) &&
  (* each of them passes the verifier *)
  forallb (fun b : bool => b) (or_verified o) && (length (or_verified o) =? length (or_result o)) &&
  negb (length (or_result o) =? 0) &&
  if or_multi o then
    (* no returned individual is dominated by any recorded individual *)
    forallb (fun r => forallb (fun x => negb (f_dom (fitness x) (fitness r))) (recorded o)) lg
  else
    (* at most keep_n_best; nothing recorded is better than the best returned one *)
    (length lg <=? or_keep o) &&
    match lg with
    | [] => false
    | best :: _ => forallb (fun x => negb (f_better (fitness x) (fitness best))) (recorded o)
    end.

(* was the Pareto capacity ever reached?  (then a dominator may have been evicted) *)
Definition capacity_reached (o : orun) : bool :=
  or_multi o && existsb (fun s => or_keep o * 5 <=? length s) (or_snaps o).
