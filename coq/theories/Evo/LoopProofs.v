(* Proofs about the optimiser loop (property C01, snapshot clause of C06), on top of the archive
   theorems of property C08. *)
From Coq Require Import List Bool Arith Lia Sorted.
From GolemV Require Import Fitness.Fitness Fitness.FitnessProofs Archive.FitOrder Archive.Hof Archive.HofProofs
     Archive.Pareto Archive.ParetoProofs Evo.History Evo.HistoryProofs Evo.Loop.
Import ListNotations.

Notation floop multi k := (fold_left (update_population multi k)).

(* ---------- bookkeeping of the loop ---------- *)
Lemma floop_pops multi k pops : forall r0, r_pops (floop multi k pops r0) = r_pops r0 ++ pops.
Proof.
  induction pops as [|c pops IH]; intros r0; simpl; [rewrite app_nil_r; reflexivity|].
  rewrite IH. simpl. rewrite <- app_assoc. reflexivity.
Qed.

Lemma loop_pops multi k pops : r_pops (loop multi k pops) = pops.
Proof. unfold loop. rewrite floop_pops. reflexivity. Qed.

Lemma floop_snaps_length multi k pops : forall r0,
  length (r_snaps (floop multi k pops r0)) = length (r_snaps r0) + length pops.
Proof.
  induction pops as [|c pops IH]; intros r0; simpl; [lia|].
  rewrite IH. simpl. rewrite app_length. simpl. lia.
Qed.

Lemma floop_hist multi k pops : forall r0,
  r_hist (floop multi k pops r0) =
  fold_left add_to_history (map (fun c => (fst c, map uid (snd c))) pops) (r_hist r0).
Proof. induction pops as [|c pops IH]; intros r0; simpl; [reflexivity|]. rewrite IH. reflexivity. Qed.

Lemma loop_app multi k pops c :
  loop multi k (pops ++ [c]) = update_population multi k (loop multi k pops) c.
Proof. unfold loop. rewrite fold_left_app. reflexivity. Qed.

Lemma floop_app multi k p1 p2 r0 : floop multi k (p1 ++ p2) r0 = floop multi k p2 (floop multi k p1 r0).
Proof. apply fold_left_app. Qed.

(* one archive snapshot per recorded generation *)
Lemma loop_one_snapshot_per_generation multi k pops :
  length (r_snaps (loop multi k pops)) = length pops /\
  length (gens (r_hist (loop multi k pops))) = length pops.
Proof.
  unfold loop. split.
  - rewrite floop_snaps_length. reflexivity.
  - rewrite floop_hist. simpl. rewrite gens_length, map_length. reflexivity.
Qed.

(* the history of the loop is the history model of C06 run on the recorded uids *)
Lemma loop_history multi k pops :
  r_hist (loop multi k pops) = run_history (map (fun c => (fst c, map uid (snd c))) pops).
Proof. unfold loop, run_history. rewrite floop_hist. reflexivity. Qed.

(* snapshot number |pre| is the archive after the populations pre ++ [c] *)
Lemma floop_snaps_prefix multi k post : forall r0,
  exists more, r_snaps (floop multi k post r0) = r_snaps r0 ++ more.
Proof.
  induction post as [|c post IH]; intros r0; simpl; [exists []; rewrite app_nil_r; reflexivity|].
  destruct (IH (update_population multi k r0 c)) as [more E]. rewrite E. simpl.
  eexists. rewrite <- app_assoc. reflexivity.
Qed.

Lemma loop_snapshot_nth multi k pre c post :
  nth_error (r_snaps (loop multi k (pre ++ c :: post))) (length pre) =
  Some (items (r_arch (loop multi k (pre ++ [c])))).
Proof.
  replace (pre ++ c :: post) with ((pre ++ [c]) ++ post) by (rewrite <- app_assoc; reflexivity).
  unfold loop at 1. rewrite floop_app. fold (loop multi k (pre ++ [c])).
  destruct (floop_snaps_prefix multi k post (loop multi k (pre ++ [c]))) as [more E]. rewrite E.
  rewrite loop_app. simpl.
  assert (L : length (r_snaps (loop multi k pre)) = length pre) by apply loop_one_snapshot_per_generation.
  rewrite <- app_assoc. rewrite nth_error_app2 by lia. rewrite L, Nat.sub_diag. reflexivity.
Qed.

(* ---------- single objective: the loop archive is the hall of fame of C08 ---------- *)
Lemma floop_arch_single k pops : forall r0,
  r_arch (floop false k pops r0) = hof_runs k (r_arch r0) (map snd pops).
Proof.
  induction pops as [|c pops IH]; intros r0; simpl; [reflexivity|].
  rewrite IH. reflexivity.
Qed.

Lemma loop_arch_single k pops :
  r_arch (loop false k pops) = hof_runs k empty_arch (map snd pops).
Proof. unfold loop. rewrite floop_arch_single. reflexivity. Qed.

Lemma sim_uid_refl x : sim_uid x x = true.
Proof. unfold sim_uid. apply Nat.eqb_refl. Qed.

(* showing the hall of fame its own members changes nothing *)
Lemma hof_step_member k p0 (a : hof) ind :
  In ind (items a) -> hof_step fitness f_worse f_better sim_uid k p0 a ind = a.
Proof.
  intros Hin. unfold hof_step.
  assert (Z : (size a =? 0) = false).
  { unfold size. destruct (items a); [inversion Hin|reflexivity]. }
  rewrite Z. simpl.
  destruct (last_opt (items a)) as [w|]; [|reflexivity].
  assert (E : existsb (sim_uid ind) (items a) = true).
  { apply existsb_exists. exists ind. split; [exact Hin|apply sim_uid_refl]. }
  rewrite E. destruct (f_better (fitness ind) (fitness w) || (size a <? k)); reflexivity.
Qed.

Lemma hof_fold_members k p0 (a : hof) l :
  incl l (items a) -> fold_left (hof_step fitness f_worse f_better sim_uid k p0) l a = a.
Proof.
  induction l as [|x l IH]; intros Inc; simpl; [reflexivity|].
  rewrite hof_step_member by (apply Inc; left; reflexivity).
  apply IH. intros y Hy. apply Inc. right. exact Hy.
Qed.

Lemma hof_final_noop k (a : hof) : hof_upd k a (items a) = a.
Proof.
  unfold hof_upd, hof_update. destruct (items a) as [|p0 rest] eqn:E; [reflexivity|].
  rewrite <- E. apply hof_fold_members. apply incl_refl.
Qed.

(* ---------- multi objective: invariants of the Pareto front through the loop, whatever the
   native generations are at each moment ---------- *)
Section Multi.
  Variable k : nat.
  Variable seen_all : list indiv.
  Hypothesis HS : SepU (map fitness seen_all).
  Hypothesis HM : all_multi (map fitness seen_all).

  Let U := inU (map fitness seen_all).
  Let cap := pareto_cap k.
  Let di := u_dom_irrefl _ HS HM.
  Let dt := u_dom_trans _ HS HM.
  Let fr := u_feq_refl _ HS.
  Let fs := u_feq_sym _ HS.
  Let cl := u_dom_compat_l _ HS HM.
  Let cr := u_dom_compat_r _ HS HM.

  Lemma useen_incl seen : incl seen seen_all -> useen fit indiv fitness U seen.
  Proof. intros Inc s Hs. apply in_map, Inc, Hs. Qed.

  Lemma floop_PInv pops : forall r0 seen0,
    incl (seen0 ++ concat (map snd pops)) seen_all ->
    PInv fit indiv fitness f_dom cap seen0 (r_arch r0) ->
    PInv fit indiv fitness f_dom cap (seen0 ++ concat (map snd pops)) (r_arch (floop true k pops r0)).
  Proof.
    induction pops as [|c pops IH]; intros r0 seen0 Inc H; simpl.
    - rewrite app_nil_r. exact H.
    - rewrite app_assoc. apply IH; [rewrite <- app_assoc; exact Inc|].
      simpl. unfold pf_update.
      apply (PInv_fold fit indiv fitness f_worse f_dom f_eq (sim_at (ngs (r_hist r0))) U di dt cl cap); [|exact H].
      apply useen_incl. intros x Hx. apply Inc. simpl. rewrite app_assoc. apply in_or_app. left. exact Hx.
  Qed.

  Lemma loop_PInv pops :
    incl (concat (map snd pops)) seen_all ->
    PInv fit indiv fitness f_dom cap (concat (map snd pops)) (r_arch (loop true k pops)).
  Proof.
    intros Inc. apply (floop_PInv pops run_init [] Inc). apply PInv_empty.
  Qed.

  Lemma floop_Cov pops : forall r0 seen0,
    incl (seen0 ++ concat (map snd pops)) seen_all ->
    PInv fit indiv fitness f_dom cap seen0 (r_arch r0) ->
    Cov fit indiv fitness f_dom f_eq seen0 (r_arch r0) ->
    no_evict_from k r0 pops = true ->
    Cov fit indiv fitness f_dom f_eq (seen0 ++ concat (map snd pops)) (r_arch (floop true k pops r0)).
  Proof.
    induction pops as [|c pops IH]; intros r0 seen0 Inc H C Ne; simpl.
    - rewrite app_nil_r. exact C.
    - simpl in Ne. apply andb_true_iff in Ne as [Ne1 Ne2].
      assert (Us : useen fit indiv fitness U (seen0 ++ snd c)).
      { apply useen_incl. intros x Hx. apply Inc. simpl. rewrite app_assoc. apply in_or_app. left. exact Hx. }
      rewrite app_assoc. apply IH; [rewrite <- app_assoc; exact Inc| | |exact Ne2].
      + simpl. unfold pf_update.
        apply (PInv_fold fit indiv fitness f_worse f_dom f_eq (sim_at (ngs (r_hist r0))) U di dt cl cap); assumption.
      + simpl. unfold pf_update.
        apply (Cov_fold fit indiv fitness f_worse f_dom f_eq (sim_at (ngs (r_hist r0))) U di dt fr fs cl cr cap); assumption.
  Qed.

  (* members of the front are non-dominated among everything recorded, while no eviction fired *)
  Lemma loop_nondominated pops :
    incl (concat (map snd pops)) seen_all ->
    no_evict_from k run_init pops = true ->
    forall m, In m (items (r_arch (loop true k pops))) ->
    In m (concat (map snd pops)) /\
    forall s, In s (concat (map snd pops)) -> f_dom (fitness s) (fitness m) = false.
  Proof.
    intros Inc Ne.
    pose proof (loop_PInv pops Inc) as P.
    assert (C : Cov fit indiv fitness f_dom f_eq (concat (map snd pops)) (r_arch (loop true k pops))).
    { apply (floop_Cov pops run_init [] Inc); [apply PInv_empty|intros s []|exact Ne]. }
    destruct (exact_of_cov fit indiv fitness f_dom f_eq U dt fs cl cap _ _ (useen_incl _ Inc) P C) as [E _].
    exact E.
  Qed.

  (* showing the front its own members changes nothing *)
  Lemma scan_twin sim ind ms : forall i,
    (forall m, In m ms -> f_dom (fitness m) (fitness ind) = false /\ f_dom (fitness ind) (fitness m) = false) ->
    (exists m, In m ms /\ f_eq (fitness ind) (fitness m) && sim ind m = true) ->
    pf_scan fitness f_dom f_eq sim ind ms i false [] =
    {| s_dominated := false; s_twin := true; s_remove := [] |}.
  Proof.
    induction ms as [|m ms IH]; intros i Hnd [w [Hw Tw]]; [inversion Hw|].
    simpl. destruct (Hnd m (or_introl eq_refl)) as [D1 D2]. rewrite D1, D2. simpl.
    destruct (f_eq (fitness ind) (fitness m) && sim ind m) eqn:T; [reflexivity|].
    apply IH.
    - intros m' Hm'. apply Hnd. right. exact Hm'.
    - destruct Hw as [<-|Hw]; [congruence|]. exists w. split; assumption.
  Qed.

  Lemma pf_step_member m0 (a : hof) ind :
    ND fit indiv fitness f_dom (items a) -> (forall x, In x (items a) -> U (fitness x)) ->
    In ind (items a) ->
    pf_step fitness f_worse f_dom f_eq (sim_at m0) cap a ind = a.
  Proof.
    intros Hnd Hu Hin. unfold pf_step.
    rewrite (scan_twin (sim_at m0) ind (items a) 0).
    - simpl. unfold pf_prune. simpl. reflexivity.
    - intros m Hm. split; apply Hnd; assumption.
    - exists ind. split; [exact Hin|]. unfold sim_at.
      assert (E : f_eq (fitness ind) (fitness ind) = true) by (apply fr, Hu, Hin).
      rewrite E. simpl. rewrite Nat.eqb_refl, andb_true_r.
      destruct (ng_lookup m0 (uid ind)); simpl; [apply Nat.eqb_refl|reflexivity].
  Qed.

  Lemma pf_fold_members m0 (a : hof) l :
    ND fit indiv fitness f_dom (items a) -> (forall x, In x (items a) -> U (fitness x)) ->
    incl l (items a) ->
    fold_left (pf_step fitness f_worse f_dom f_eq (sim_at m0) cap) l a = a.
  Proof.
    intros Hnd Hu. induction l as [|x l IH]; intros Inc; simpl; [reflexivity|].
    rewrite pf_step_member; [|assumption|assumption|apply Inc; left; reflexivity].
    apply IH. intros y Hy. apply Inc. right. exact Hy.
  Qed.

  Lemma pareto_final_noop pops m0 :
    incl (concat (map snd pops)) seen_all ->
    let a := r_arch (loop true k pops) in
    arch_upd true k m0 a (items a) = a.
  Proof.
    intros Inc a. destruct (loop_PInv pops Inc) as [_ Hnd Hin _].
    unfold arch_upd, pf_update. apply pf_fold_members; [exact Hnd| |apply incl_refl].
    intros x Hx. apply in_map, Inc, Hin, Hx.
  Qed.
End Multi.

(* ---------- the run as a whole ---------- *)
Definition final_call (r : run) : label * list indiv := (LFinal, items (r_arch r)).

Lemma optimise_unfold multi k pops :
  optimise multi k pops = update_population multi k (loop multi k pops) (final_call (loop multi k pops)).
Proof. reflexivity. Qed.

(* hypotheses of C08 on what the archive is shown, per objective kind *)
Definition shown (multi : bool) (seen : list indiv) : Prop :=
  if multi then shown_multi seen else shown_ok seen.

Lemma final_noop multi k pops :
  shown multi (concat (map snd pops)) ->
  r_arch (optimise multi k pops) = r_arch (loop multi k pops).
Proof.
  intros H. rewrite optimise_unfold. destruct multi; simpl.
  - destruct H as [S M]. apply (pareto_final_noop k _ S M pops _ (incl_refl _)).
  - apply hof_final_noop.
Qed.

(* (1) the graphs returned are the final archive, which is also the last recorded generation
   (labelled as the final choices) and the last archive snapshot *)
Lemma result_is_final_archive multi k pops :
  shown multi (concat (map snd pops)) ->
  let r := optimise multi k pops in
  let final := items (r_arch (loop multi k pops)) in
  result r = map gclass final /\
  r_pops r = pops ++ [(LFinal, final)] /\
  (exists snaps, r_snaps r = snaps ++ [final] /\ length snaps = length pops) /\
  gens (r_hist r) = gens (r_hist (loop multi k pops)) ++
                    [{| g_num := length pops; g_label := LFinal; g_members := map uid final |}].
Proof.
  intros H r final. unfold r, result. rewrite (final_noop multi k pops H).
  split; [reflexivity|]. rewrite optimise_unfold. simpl.
  rewrite loop_pops. split; [reflexivity|]. split.
  - exists (r_snaps (loop multi k pops)). split.
    + f_equal. f_equal. unfold final. f_equal.
      pose proof (final_noop multi k pops H) as E. rewrite optimise_unfold in E. exact E.
    + apply loop_one_snapshot_per_generation.
  - destruct (loop_one_snapshot_per_generation multi k pops) as [_ L]. rewrite L. reflexivity.
Qed.

(* (2) single objective: at most keep_n_best graphs are returned *)
Lemma result_size k pops :
  1 <= k -> shown_ok (concat (map snd pops)) ->
  length (result (optimise false k pops)) <= k.
Proof.
  intros kpos H. unfold result. rewrite (final_noop false k pops H), map_length, loop_arch_single.
  apply (hof_inv k (map snd pops) kpos H).
Qed.

Lemma f_better_irrefl f : f_better f f = false.
Proof. unfold f_better. rewrite gt_irrefl. reflexivity. Qed.

Lemma recorded_optimise multi k pops :
  shown multi (concat (map snd pops)) ->
  concat (map snd (r_pops (optimise multi k pops))) =
  concat (map snd pops) ++ items (r_arch (loop multi k pops)).
Proof.
  intros H. destruct (result_is_final_archive multi k pops H) as [_ [E _]]. rewrite E.
  rewrite map_app, concat_app. simpl. rewrite app_nil_r. reflexivity.
Qed.

(* (3) single objective: no individual recorded anywhere in the history is better than the
   best returned one *)
Lemma single_obj_best k pops :
  1 <= k -> shown_ok (concat (map snd pops)) ->
  let r := optimise false k pops in
  forall best rest, items (r_arch r) = best :: rest ->
  forall s, In s (concat (map snd (r_pops r))) -> f_better (fitness s) (fitness best) = false.
Proof.
  intros kpos H r best rest E s Hs.
  unfold r in *. rewrite (final_noop false k pops H) in E.
  rewrite (recorded_optimise false k pops H) in Hs.
  rewrite loop_arch_single in E, Hs.
  destruct (hof_k_best k (map snd pops) kpos H) as [Inc [_ [So Out]]]. cbv zeta in *.
  set (a := hof_runs k empty_arch (map snd pops)) in *.
  assert (Seen : In s (concat (map snd pops))).
  { apply in_app_or in Hs as [Hs|Hs]; [exact Hs|apply Inc, Hs]. }
  destruct (existsb (fun m => uid m =? uid s) (items a)) eqn:Ex.
  - apply existsb_exists in Ex as [m [Hm Eu]]. apply Nat.eqb_eq in Eu.
    assert (Ef : fitness m = fitness s) by (apply (proj2 H); [apply Inc, Hm|exact Seen|exact Eu]).
    rewrite <- Ef. rewrite E in Hm, So. destruct Hm as [<-|Hm]; [apply f_better_irrefl|].
    inversion So as [|? ? _ F]; subst. rewrite Forall_forall in F. apply F, Hm.
  - apply (Out s Seen).
    + intros m Hm Eu. assert (C : existsb (fun m0 => uid m0 =? uid s) (items a) = true).
      { apply existsb_exists. exists m. split; [exact Hm|apply Nat.eqb_eq, Eu]. }
      congruence.
    + rewrite E. left. reflexivity.
Qed.

(* (4) multi objective, while the capacity eviction of the front never fired: no returned
   individual is dominated by any recorded individual *)
Lemma multi_obj_nondominated k pops :
  shown_multi (concat (map snd pops)) -> no_evict_from k run_init pops = true ->
  let r := optimise true k pops in
  forall m, In m (items (r_arch r)) ->
  forall s, In s (concat (map snd (r_pops r))) -> f_dom (fitness s) (fitness m) = false.
Proof.
  intros H Ne r m Hm s Hs. unfold r in *.
  rewrite (final_noop true k pops H) in Hm. rewrite (recorded_optimise true k pops H) in Hs.
  destruct H as [S M].
  pose proof (loop_nondominated k _ S M pops (incl_refl _) Ne) as ND.
  destruct (ND m Hm) as [_ Hd]. apply Hd.
  apply in_app_or in Hs as [Hs|Hs]; [exact Hs|]. apply (ND s Hs).
Qed.

(* (5) every archive snapshot only holds individuals recorded in that or an earlier generation
   (clause of C06); snapshot number |pre| is taken after the populations pre ++ [c] *)
Lemma snapshot_members_seen multi k pre c post :
  1 <= k -> shown multi (concat (map snd (pre ++ [c]))) ->
  exists s, nth_error (r_snaps (loop multi k (pre ++ c :: post))) (length pre) = Some s /\
            incl s (concat (map snd (pre ++ [c]))).
Proof.
  intros kpos H. eexists. split; [apply loop_snapshot_nth|].
  destruct multi; simpl in H.
  - destruct H as [S M]. apply (pi_incl _ _ _ _ _ _ _ (loop_PInv k _ S M (pre ++ [c]) (incl_refl _))).
  - rewrite loop_arch_single. apply (hof_k_best k (map snd (pre ++ [c])) kpos H).
Qed.

Lemma final_snapshot_members_seen multi k pops :
  1 <= k -> shown multi (concat (map snd pops)) ->
  incl (items (r_arch (optimise multi k pops))) (concat (map snd pops)).
Proof.
  intros kpos H. rewrite (final_noop multi k pops H). destruct multi; simpl in H.
  - destruct H as [S M]. apply (pi_incl _ _ _ _ _ _ _ (loop_PInv k _ S M pops (incl_refl _))).
  - rewrite loop_arch_single. apply (hof_k_best k (map snd pops) kpos H).
Qed.

(* (6) each returned graph passes the verifier, given that every recorded population consists
   of verified graphs (hypothesis H of DESIGN C01, discharged for the operators by C02/C17/C20
   and observed on every real run) *)
Lemma result_verified multi k pops (verified : indiv -> Prop) :
  1 <= k -> shown multi (concat (map snd pops)) ->
  (forall s, In s (concat (map snd pops)) -> verified s) ->
  forall m, In m (items (r_arch (optimise multi k pops))) -> verified m.
Proof.
  intros kpos H V m Hm. apply V. apply (final_snapshot_members_seen multi k pops kpos H), Hm.
Qed.

(* ---------- consequences along the run (added in the extension pass) ---------- *)

(* (7) multi objective: the returned individuals are mutually non-dominated (an antichain) *)
Lemma multi_result_antichain k pops :
  shown_multi (concat (map snd pops)) -> no_evict_from k run_init pops = true ->
  let r := optimise true k pops in
  forall m m', In m (items (r_arch r)) -> In m' (items (r_arch r)) ->
  f_dom (fitness m') (fitness m) = false.
Proof.
  intros H Ne r m m' Hm Hm'. apply (multi_obj_nondominated k pops H Ne m Hm).
  unfold r in *. rewrite (recorded_optimise true k pops H).
  rewrite (final_noop true k pops H) in Hm'. apply in_or_app. right. exact Hm'.
Qed.

(* (8) single objective: the best-so-far never gets worse along the run -- the head of the
   archive after any prefix of the recorded populations is not better than the best returned *)
Lemma single_best_monotone k pre post :
  1 <= k -> shown_ok (concat (map snd (pre ++ post))) ->
  forall h rest, items (r_arch (loop false k pre)) = h :: rest ->
  forall best rest', items (r_arch (optimise false k (pre ++ post))) = best :: rest' ->
  f_better (fitness h) (fitness best) = false.
Proof.
  intros kpos H h rest Eh best rest' Eb.
  apply (single_obj_best k (pre ++ post) kpos H best rest' Eb).
  rewrite (recorded_optimise false k (pre ++ post) H). apply in_or_app. left.
  rewrite map_app, concat_app. apply in_or_app. left.
  assert (Hp : shown_ok (concat (map snd pre))).
  { rewrite map_app, concat_app in H. apply (shown_ok_prefix _ _ H). }
  rewrite loop_arch_single in Eh.
  destruct (hof_k_best k (map snd pre) kpos Hp) as [Inc _]. apply Inc. rewrite Eh. left. reflexivity.
Qed.

(* (9) single objective: the returned list is exactly min(k, number of distinct recorded
   individuals) long and sorted best first *)
Lemma single_result_exact k pops :
  1 <= k -> shown_ok (concat (map snd pops)) ->
  let r := optimise false k pops in
  length (result r) = Nat.min k (length (nodup Nat.eq_dec (map uid (concat (map snd pops))))) /\
  StronglySorted (fun x y => f_better (fitness y) (fitness x) = false) (items (r_arch r)).
Proof.
  intros kpos H r. unfold r, result. rewrite (final_noop false k pops H), map_length, loop_arch_single.
  destruct (hof_k_best k (map snd pops) kpos H) as [_ [L [So _]]]. split; assumption.
Qed.

(* (10) single objective: a recorded individual that is not returned is not better than ANY
   returned one (the returned set is a k-best set of everything recorded) *)
Lemma single_result_k_best k pops :
  1 <= k -> shown_ok (concat (map snd pops)) ->
  let r := optimise false k pops in
  forall s, In s (concat (map snd (r_pops r))) ->
  (forall m, In m (items (r_arch r)) -> uid m <> uid s) ->
  forall m, In m (items (r_arch r)) -> f_better (fitness s) (fitness m) = false.
Proof.
  intros kpos H r s Hs Hn m Hm. unfold r in *.
  rewrite (final_noop false k pops H) in Hn, Hm. rewrite (recorded_optimise false k pops H) in Hs.
  rewrite loop_arch_single in Hn, Hm, Hs.
  destruct (hof_k_best k (map snd pops) kpos H) as [Inc [_ [_ Out]]].
  apply (Out s); [|exact Hn|exact Hm].
  apply in_app_or in Hs as [Hs|Hs]; [exact Hs|apply Inc, Hs].
Qed.
