(* C17 - executable models of the built-in mutation FUNCTIONS of
   golem/core/optimisers/genetic/operators/base_mutations.py, written as compositions of the
   LinkedGraph primitives of Graph/Ops.v (property C04).  Definitions only.

   State = (heap of node objects, `_nodes` list of the graph), see Graph/Heap.v.  Every random
   decision of a function is an explicit argument (which nodes were sampled, what the node factory
   returned - including None -, which strategy order, which coin); the theorems quantify over all
   of them.  Exceptions are values (`res`).

   Modelling decisions (see docs/C17.md):
   * the depth gates (`graph.depth > max_depth`, `graph.depth >= max_depth`) and the
     `new_graph == graph` test of single_add only decide whether the function stops early; they
     are choices (an attempt list may stop anywhere), property C17 says nothing about depth;
   * a node produced by the node factory is a new object with a new uid, no parents and a
     UniqueList container (what OptNode(content) builds); a tree produced by the random graph
     factory is ANY well-formed acyclic graph of new objects (constrained by C20, not here);
   * `deepcopy(graph)` at the start of single_add is modelled as the identity on references
     (the harness matches the copy with the original through the uids, which deepcopy keeps);
     that mutation functions leave their argument's cells alone is property C02. *)
From Coq Require Import List Arith Bool.
From GolemV Require Import Graph.Heap Graph.Ops.
Import ListNotations.

(* ------------------------------------------------------------------ products of the factories *)
Definition newnode := (nat * nat)%type.                     (* uid, label *)
Definition fresh_node (nn : newnode) : node := mkNode (fst nn) (snd nn) [] true.

(* a graph of new objects: parents are indices into the list itself; (nodes, index of the root) *)
Definition tree := (list node * nat)%type.
Definition shift (base : nat) (nd : node) : node :=
  mkNode (uid nd) (label nd) (map (fun p => base + p) (parents nd)) (uniq nd).
Definition alloc_tree (h : heap) (t : tree) : heap * ref :=
  (h ++ map (shift (length h)) (fst t), length h + snd t).

(* ------------------------------------------------------------------ no_mutation *)
Definition no_mutation (s : state) : res state := Ok s.

(* ------------------------------------------------------------------ single_edge_mutation *)
(* nodes_not_cycling(source, target): level-by-level walk over the ancestors of source
     parents = source.nodes_from
     while parents: if target not in parents: parents = [gp for p in parents for gp in p.nodes_from]
                    else: return False
     return True                                                                            *)
Fixpoint levels_ok (fuel : nat) (h : heap) (ps : list ref) (tgt : ref) : res bool :=
  match fuel with
  | O => Raise OutOfFuel
  | S k => match ps with
           | [] => Ok true
           | _ :: _ => if memb tgt ps then Ok false
                       else levels_ok k h (flat_map (pars h) ps) tgt
           end
  end.

Definition nodes_not_cycling (h : heap) (src tgt : ref) : res bool :=
  levels_ok (S (length h)) h (pars h src) tgt.

(* one iteration of `for _ in range(max_num_of_operator_attempts)`:
   Gate = `len(graph.nodes) < 2 or graph.depth > max_depth` fired (return);
   Try src tgt = what sample(graph.nodes, 2) returned *)
Inductive attempt := Gate | Try (src tgt : ref).

Fixpoint single_edge (attempts : list attempt) (s : state) : res state :=
  match attempts with
  | [] => Ok s
  | Gate :: _ => Ok s
  | Try src tgt :: rest =>
      let h := fst s in let g := snd s in
      if length g <? 2 then Ok s
      else if memb src (pars h tgt) then single_edge rest s
      else if has_cycle h g then connect_nodes h g src tgt
      else match nodes_not_cycling h src tgt with
           | Ok true => connect_nodes h g src tgt
           | Ok false => single_edge rest s
           | Raise e => Raise e
           end
  end.

(* ------------------------------------------------------------------ single_change_mutation *)
(* tries = the calls exchange_node(node) in shuffle order with their results *)
Definition replace_node (s : state) (v : ref) (nn : newnode) : res state :=
  update_node (fst s ++ [fresh_node nn]) (snd s) v (length (fst s)).

Fixpoint single_change (tries : list (ref * option newnode)) (s : state) : res state :=
  match tries with
  | [] => Ok s
  | (_, None) :: rest => single_change rest s
  | (v, Some nn) :: _ => replace_node s v nn
  end.

(* ------------------------------------------------------------------ simple_mutation *)
(* the recursive walk replaces the nodes for which the coin came up and the factory returned a
   node, one update_node each, in visiting order *)
Fixpoint simple_mutation (changes : list (ref * newnode)) (s : state) : res state :=
  match changes with
  | [] => Ok s
  | (v, nn) :: rest => bind (replace_node s v nn) (simple_mutation rest)
  end.

(* ------------------------------------------------------------------ single_drop_mutation *)
Inductive advice := AForbidden | ANodeOnly | ARewire | AWithChildren | AWithParents.

(* for child in nodes_to_delete: if len(graph.nodes) > 1: graph.delete_node(child, reconnect=all) *)
Fixpoint delete_all (l : list ref) (s : state) : res state :=
  match l with
  | [] => Ok s
  | c :: t => if 1 <? length (snd s) then bind (delete_node (fst s) (snd s) c RAll) (delete_all t)
              else delete_all t s
  end.

(* v = choice(graph.nodes); extra = the members picked by the `data_source` text filter of the
   with_direct_children branch (a string test on descriptive ids: an oracle here) *)
Definition single_drop (v : ref) (adv : advice) (extra : list ref) (s : state) : res state :=
  let h := fst s in let g := snd s in
  if length g <? 2 then Ok s
  else match adv with
       | AForbidden => Ok s
       | ANodeOnly => delete_node h g v RNone
       | ARewire => delete_node h g v RAll
       | AWithParents =>       (* only when the subtree is not the whole graph *)
           bind (hierarchy h v) (fun sub =>
           if length sub <? length g then delete_subtree h g v else Ok s)
       | AWithChildren => bind (delete_node h g v RSingle) (delete_all extra)
       end.

(* ------------------------------------------------------------------ single_add_mutation *)
Inductive add_step :=
| AsChild (v : ref) (child : option ref) (nn : newnode)   (* add_as_child *)
| SepParent (v : ref) (nn : newnode)                      (* add_separate_parent_node *)
| Intermediate (v : ref) (nn : newnode).                  (* add_intermediate_node *)

(* graph.add_node(new); connect(v, new); if child: connect(new, child); disconnect(v, child, clean-up) *)
Definition add_as_child (s : state) (v : ref) (child : option ref) (nn : newnode) : res state :=
  let n := length (fst s) in
  bind (add_node (fst s ++ [fresh_node nn]) (snd s) n) (fun s1 =>
  bind (connect_nodes (fst s1) (snd s1) v n) (fun s2 =>
  match child with
  | None => Ok s2
  | Some c => bind (connect_nodes (fst s2) (snd s2) n c) (fun s3 =>
              disconnect_nodes (fst s3) (snd s3) v c true)
  end)).

(* if v.nodes_from: v.nodes_from.append(new) else: v.nodes_from = [new];  graph.nodes.append(new) *)
Definition add_separate_parent (s : state) (v : ref) (nn : newnode) : res state :=
  let h := fst s ++ [fresh_node nn] in let n := length (fst s) in
  let h1 := if null (pars h v) then set_pars_uniq h v [n]
            else set_pars h v (pl_append (uniq (get h v)) (pars h v) n) in
  Ok (h1, snd s ++ [n]).

(* new.nodes_from = v.nodes_from; v.nodes_from = [new]; graph.add_node(new)
   (only nodes that have parents are candidates) *)
Definition add_intermediate (s : state) (v : ref) (nn : newnode) : res state :=
  let h := fst s ++ [fresh_node nn] in let n := length (fst s) in
  if null (pars h v) then Ok s
  else let h1 := set_pars_uniq h n (dedupe (pars h v)) in
       let h2 := set_pars_uniq h1 v [n] in
       add_node h2 (snd s) n.

Definition run_add_step (s : state) (st : add_step) : res state :=
  match st with
  | AsChild v c nn => add_as_child s v c nn
  | SepParent v nn => add_separate_parent s v nn
  | Intermediate v nn => add_intermediate s v nn
  end.

(* the strategies that changed something, in the order they ran (at most three; none when the
   depth gate fired or the factory kept returning None) *)
Fixpoint single_add (steps : list add_step) (s : state) : res state :=
  match steps with
  | [] => Ok s
  | st :: rest => bind (run_add_step s st) (single_add rest)
  end.

(* ------------------------------------------------------------------ tree_growth *)
(* Some (v, t): update_subtree(v, root of t) where t is what get_node(is_primary=True) or the
   random graph factory returned;  None: every candidate was skipped (factory returned None) *)
Definition tree_growth (c : option (ref * tree)) (s : state) : res state :=
  match c with
  | None => Ok s
  | Some (v, t) => let a := alloc_tree (fst s) t in update_subtree (fst a) (snd s) v (snd a)
  end.

(* ------------------------------------------------------------------ growth_mutation (both flavours) *)
Inductive growth_choice := GAdd (steps : list add_step) | GTree (c : option (ref * tree)).

Definition growth (c : growth_choice) (s : state) : res state :=
  match c with
  | GAdd steps => single_add steps s
  | GTree t => tree_growth t s
  end.

(* ------------------------------------------------------------------ reduce_mutation *)
(* all(len(child.nodes_from) - 1 >= min_arity for child in children)  (python ints) *)
Definition deletable (min_arity : nat) (h : heap) (g : graph) (v : ref) : bool :=
  forallb (fun c => S min_arity <=? length (pars h c)) (node_children h g v).

(* candidates: [node for node in graph.nodes if node is not graph.root_node]
   (root_node is the single sink or, with several sinks, a list - then nothing is excluded) *)
Definition is_excluded (h : heap) (g : graph) (v : ref) : bool :=
  match root_nodes h g with [r] => v =? r | _ => false end.

Fixpoint reduce_loop (min_arity : nat) (tries : list (ref * option newnode)) (s : state) : res state :=
  match tries with
  | [] => Ok s
  | (v, onn) :: rest =>
      let h := fst s in let g := snd s in
      if is_excluded h g v then reduce_loop min_arity rest s
      else if deletable min_arity h g v then delete_subtree h g v
      else match onn with
           | None => reduce_loop min_arity rest s
           | Some nn => update_subtree (h ++ [fresh_node nn]) g v (length h)
           end
  end.

Definition reduce (min_arity : nat) (tries : list (ref * option newnode)) (s : state) : res state :=
  if length (snd s) =? 1 then Ok s else reduce_loop min_arity tries s.

(* ------------------------------------------------------------------ the repository *)
Inductive mcall :=
| MNone
| MSimple (changes : list (ref * newnode))
| MEdge (attempts : list attempt)
| MAdd (steps : list add_step)
| MChange (tries : list (ref * option newnode))
| MDrop (v : ref) (adv : advice) (extra : list ref)
| MTree (c : option (ref * tree))
| MGrowth (c : growth_choice)
| MReduce (min_arity : nat) (tries : list (ref * option newnode)).

Definition run_mut (c : mcall) (s : state) : res state :=
  match c with
  | MNone => no_mutation s
  | MSimple ch => simple_mutation ch s
  | MEdge a => single_edge a s
  | MAdd st => single_add st s
  | MChange t => single_change t s
  | MDrop v a e => single_drop v a e s
  | MTree t => tree_growth t s
  | MGrowth t => growth t s
  | MReduce m t => reduce m t s
  end.

(* ------------------------------------------------------------------ comparison with the code *)
Inductive obs := OOk (h : heap) (g : graph) | ORaise.

Fixpoint list_eqb (a b : list nat) : bool :=
  match a, b with
  | [], [] => true
  | x :: a', y :: b' => (x =? y) && list_eqb a' b'
  | _, _ => false
  end.

(* Equality of two (heap, graph) pairs up to the numbering of references and up to the values
   of uids the harness could not know in advance (`known` = uids present before the call and
   uids of factory products; any other uid was drawn by uuid4 inside the call).  Nodes with a
   known uid are identified by it; nodes with an unknown uid by their label and, recursively,
   their parents (to a depth of the number of such nodes + 1: crossovers can build cycles
   through them, the comparison is then a bounded simulation: every parent of the model's node
   has a counterpart among the observed node's parents, and the lists have equal lengths).
   Order of `nodes` and of `nodes_from` is not compared (the property speaks of sets),
   multiplicities are (through the lengths). *)
Section Sim.
  Variable known : list nat.
  Variables hm ho : heap.

  Definition ukey (h : heap) (r : ref) : option nat :=
    let u := uid (get h r) in if memb u known then Some u else None.

  (* vm_compute is call-by-value: conjunctions are written with `if` so that they short-cut *)
  Fixpoint lexists {A} (f : A -> bool) (l : list A) : bool :=
    match l with [] => false | a :: t => if f a then true else lexists f t end.
  Fixpoint lforall {A} (f : A -> bool) (l : list A) : bool :=
    match l with [] => true | a :: t => if f a then lforall f t else false end.

  Fixpoint sim (fuel : nat) (a b : ref) : bool :=
    match fuel with
    | O => true
    | S k =>
      let pm := fun p q => match ukey hm p, ukey ho q with
                           | Some u, Some v => u =? v
                           | None, None => sim k p q
                           | _, _ => false
                           end in
      if negb (label (get hm a) =? label (get ho b)) then false
      else if negb (Bool.eqb (uniq (get hm a)) (uniq (get ho b))) then false
      else if negb (match ukey hm a, ukey ho b with
                    | Some u, Some v => u =? v
                    | None, None => true
                    | _, _ => false
                    end) then false
      else if negb (length (pars hm a) =? length (pars ho b)) then false
      else lforall (fun p => lexists (fun q => pm p q) (pars ho b)) (pars hm a)
    end.

  (* the depth of the comparison through nodes with unknown uids: their number + 1 *)
  Definition unknown_count (gm : graph) : nat :=
    length (filter (fun r => match ukey hm r with None => true | Some _ => false end) gm).

  Definition state_sim (gm go : graph) : bool :=
    let f := S (unknown_count gm) in
    if negb (length gm =? length go) then false
    else if lforall (fun a => lexists (fun b => sim f a b) go) gm
         then lforall (fun b => lexists (fun a => sim f a b) gm) go
         else false.
End Sim.

Definition agree_state (known : list nat) (r : res state) (o : obs) : bool :=
  match r, o with
  | Ok s, OOk ho go => state_sim known (fst s) ho (snd s) go
  | Raise _, ORaise => true
  | _, _ => false
  end.

(* model = implementation for one of the candidate choice vectors inferred by the harness *)
Definition mut_agree (known : list nat) (s : state) (cands : list mcall) (o : obs) : bool :=
  existsb (fun c => agree_state known (run_mut c s) o) cands.

(* ------------------------------------------------------------------ the property on observed behaviour *)
Inductive mkind := KNone | KSimple | KEdge | KAdd | KChange | KDrop | KTree | KGrowth | KReduce.

Definition acyc_b (h : heap) (g : graph) : bool := negb (has_cycle h g).

(* parent links as (child, parent) pairs *)
Definition edges (h : heap) (g : graph) : list (ref * ref) :=
  flat_map (fun c => map (fun p => (c, p)) (pars h c)) g.
Definition pair_eqb (a b : ref * ref) : bool := (fst a =? fst b) && (snd a =? snd b).
Definition mem2 (e : ref * ref) (l : list (ref * ref)) : bool := existsb (pair_eqb e) l.
Definition incl_b (a b : list nat) : bool := forallb (fun x => memb x b) a.
Definition incl2_b (a b : list (ref * ref)) : bool := forallb (fun x => mem2 x b) a.

Definition node_same (a b : node) : bool :=
  (uid a =? uid b) && (label a =? label b) && list_eqb (parents a) (parents b) && Bool.eqb (uniq a) (uniq b).

(* "returns the graph untouched": same node list, every member's fields as before *)
Definition untouched (h : heap) (g : graph) (h' : heap) (g' : graph) : bool :=
  list_eqb g g' && forallb (fun r => node_same (get h r) (get h' r)) g.

(* "keeps the node set and adds at most one edge": the same node objects with their uid and
   label, every former parent link still there, at most one more *)
Definition edge_delta (h : heap) (g : graph) (h' : heap) (g' : graph) : bool :=
  incl_b g g' && incl_b g' g &&
  forallb (fun r => (uid (get h r) =? uid (get h' r)) && (label (get h r) =? label (get h' r))) g &&
  incl2_b (edges h g) (edges h' g') && (length (edges h' g') <=? S (length (edges h g))).

(* "keeps the number of nodes and edges" *)
Definition same_counts (h : heap) (g : graph) (h' : heap) (g' : graph) : bool :=
  (length g' =? length g) && (length (edges h' g') =? length (edges h g)).

Definition clause_b (k : mkind) (h : heap) (g : graph) (h' : heap) (g' : graph) : bool :=
  match k with
  | KNone => untouched h g h' g'
  | KChange => same_counts h g h' g'
  | KEdge => edge_delta h g h' g'
  | KDrop => negb (null g')
  | KReduce => negb (null g')      (* removing a subtree is node removal too: never every node *)
  | _ => true
  end.

(* the domain of the property: a non-empty well-formed acyclic graph *)
Definition in_domain (s : state) : bool :=
  wf_b (fst s) (snd s) && acyc_b (fst s) (snd s) && negb (null (snd s)).

(* evaluated on the OBSERVED before / after states of the real function; independent of the model *)
Definition mut_holds_b (k : mkind) (s : state) (o : obs) : bool :=
  if in_domain s then
    match o with
    | ORaise => false
    | OOk h' g' => wf_b h' g' && acyc_b h' g' && clause_b k (fst s) (snd s) h' g'
    end
  else true.

(* what the driver evaluates per case *)
Definition mut_check (k : mkind) (known : list nat) (s : state) (cands : list mcall) (o : obs) : list bool :=
  [mut_agree known s cands o; mut_holds_b k s o; in_domain s].
