(* C17 - single_change keeps the number of nodes and of parent links (full statement).
   The missing half of MutationsProofs.single_change_counts_partial: the final sort_nodes of
   update_node lists every member, because in a parent-closed acyclic graph with a single sink
   every member is an ancestor of that sink. *)
From Coq Require Import List Arith Bool Lia Permutation.
From GolemV Require Import Graph.Heap Graph.Ops Graph.OpsSpec Graph.OpsBase Graph.OpsDfs Graph.OpsProofs
  Graph.OpsProofs2 Graph.OpsChar Graph.OpsAcyclic Evo.Mutations Evo.MutationsProofs.
From GolemV Require Graph.OpsSink.
Import ListNotations.

(* ------------------------------------------------------------------ a single sink reaches every member *)
Definition reaches_b (h : heap) (y x : ref) : bool :=
  match closure h y with Ok R => memb x R | Raise _ => false end.

Lemma reaches_b_iff : forall h y x, heap_ok h -> y < length h -> (reaches_b h y x = true <-> reach h y x).
Proof.
  intros h y x HK Vy. unfold reaches_b. destruct (closure_ok h y HK Vy) as [R E]. rewrite E.
  destruct (closure_spec h y R E) as [_ [_ [_ RS]]]. rewrite memb_In. apply RS.
Qed.

Lemma filter_length_le : forall (f f' : ref -> bool) l, (forall y, In y l -> f y = true -> f' y = true) ->
  length (filter f l) <= length (filter f' l).
Proof.
  induction l as [|a t IH]; intros H; simpl; [lia|].
  assert (Ht : forall y, In y t -> f y = true -> f' y = true) by (intros y Hy; apply H; right; exact Hy).
  specialize (IH Ht). destruct (f a) eqn:Fa.
  - rewrite (H a (or_introl eq_refl) Fa). simpl. lia.
  - destruct (f' a); simpl; lia.
Qed.

Lemma filter_length_lt : forall (f f' : ref -> bool) l, (forall y, In y l -> f y = true -> f' y = true) ->
  (exists z, In z l /\ f z = false /\ f' z = true) -> length (filter f l) < length (filter f' l).
Proof.
  induction l as [|a t IH]; intros H [z [Hz [Fz Fz']]]; [destruct Hz|]. simpl.
  assert (Ht : forall y, In y t -> f y = true -> f' y = true) by (intros y Hy; apply H; right; exact Hy).
  destruct Hz as [->|Hz].
  - rewrite Fz, Fz'. simpl. pose proof (filter_length_le f f' t Ht). lia.
  - assert (X : length (filter f t) < length (filter f' t)) by (apply IH; [exact Ht|exists z; auto]).
    destruct (f a) eqn:Fa.
    + rewrite (H a (or_introl eq_refl) Fa). simpl. lia.
    + destruct (f' a); simpl; lia.
Qed.

Section Sink.
  Variables (h : heap) (g : graph) (r : ref).
  Hypothesis HK : heap_ok h.
  Hypothesis V : forall x, In x g -> x < length h.
  Hypothesis AC : acyclic h g.
  Hypothesis RT : root_nodes h g = [r].

  Let rank (x : ref) : nat := length (filter (fun y => reaches_b h y x) g).

  Lemma sink_reaches_aux : forall k x, In x g -> rank x < k -> reach h r x.
  Proof.
    induction k as [|k IH]; intros x Hx L; [lia|].
    destruct (node_children h g x) as [|c cs] eqn:EC.
    - assert (X : In x (root_nodes h g)).
      { unfold root_nodes. apply filter_In. split; [exact Hx|]. rewrite EC. reflexivity. }
      rewrite RT in X. destruct X as [<-|[]]. constructor.
    - assert (Hc : In c (node_children h g x)) by (rewrite EC; left; reflexivity).
      apply node_children_In in Hc. destruct Hc as [Hcg Hxc].
      assert (NR : ~ reach h x c).
      { intros R. apply (AC c Hcg c (reach_refl _ _)). exists x. split; assumption. }
      assert (LT : rank c < rank x).
      { unfold rank. apply filter_length_lt.
        - intros y Hy Ry. apply reaches_b_iff; [exact HK|apply V; exact Hy|].
          apply (reaches_b_iff h y c HK (V y Hy)) in Ry. eapply reach_step_r; eauto.
        - exists x. split; [exact Hx|]. split.
          + destruct (reaches_b h x c) eqn:B; [|reflexivity].
            apply (reaches_b_iff h x c HK (V x Hx)) in B. tauto.
          + apply reaches_b_iff; [exact HK|apply V; exact Hx|constructor]. }
      eapply reach_step_r; [apply (IH c Hcg); lia|exact Hxc].
  Qed.

  Lemma sink_reaches_all : forall x, In x g -> reach h r x.
  Proof. intros x Hx. apply (sink_reaches_aux (S (rank x)) x Hx). lia. Qed.
End Sink.

(* sort_nodes loses no member of a parent-closed acyclic graph *)
Lemma sort_nodes_keeps : forall h g g', heap_ok h -> (forall x, In x g -> x < length h) -> acyclic h g ->
  sort_nodes h g = Ok g' -> forall x, In x g -> In x g'.
Proof.
  intros h g g' HK V AC E x Hx. unfold sort_nodes in E.
  destruct (root_nodes h g) as [|r [|r2 rs]] eqn:ER; try (inversion E; subst; exact Hx).
  destruct (negb (closed_b h g)); [discriminate|].
  destruct (has_cycle h g); [inversion E; subst; exact Hx|].
  destruct (hierarchy_spec h r g' E) as [_ [_ [_ RS]]]. apply RS.
  apply (sink_reaches_all h g r HK V AC ER). exact Hx.
Qed.

(* ------------------------------------------------------------------ node replacement keeps the counts *)
Lemma edges_perm_length : forall h (l l' : list ref), Permutation l l' -> length (edges h l) = length (edges h l').
Proof.
  intros h l l' P. rewrite !edges_length. induction P; simpl; try lia.
Qed.

Theorem single_change_counts : forall h g v nn h' g', WF h g -> acyclic h g -> In v g ->
  fresh_for (h, g) nn -> replace_node (h, g) v nn = Ok (h', g') ->
  length g' = length g /\ length (edges h' g') = length (edges h g).
Proof.
  intros h g v nn h' g' W AC Hv FR E.
  destruct (single_change_counts_partial h g v nn h' g' W AC Hv FR E) as [M [LE [PK PN]]].
  set (n := length h) in *.
  destruct (replace_node_good h g v nn W AC Hv FR) as [h2 [g2 [E2 [W' A']]]].
  rewrite E in E2. inversion E2; subst h2 g2. clear E2.
  (* open update_node to reach the member list handed to sort_nodes *)
  unfold replace_node in E. cbn [fst snd] in E.
  pose proof (alloc1_WF h g nn W) as W1.
  pose proof (alloc1_guard_upd h g nn W FR v Hv) as G.
  set (h1 := h ++ [fresh_node nn]) in *. fold n in E, G.
  destruct (update_node_facts h1 g v n W1 G) as [hx [gx [Ex [_ [[L2 F1] [FG [FN [FO FM]]]]]]]].
  rewrite E in Ex. inversion Ex; subst hx gx. clear Ex.
  assert (Nn : ~ In n g) by (apply (alloc1_new_not_member h g W)).
  assert (Pold : forall x, In x g -> pars h1 x = pars h x).
  { intros x Hx. apply pars_app_l. apply (wf_valid _ _ W). exact Hx. }
  assert (Pn : pars h1 n = []) by (apply (alloc1_pars_new h nn)).
  assert (Nvv : ~ In v (pars h v)).
  { intros X. apply (AC v Hv v (reach_refl _ _)). exists v. split; [exact X|constructor]. }
  unfold update_node in E.
  match type of E with bind ?X _ = _ => destruct X as [ha|?] eqn:Ea; cbn [bind] in E; [|discriminate] end.
  match type of E with bind ?X _ = _ => destruct X as [hb|?] eqn:Eb; cbn [bind] in E; [|discriminate] end.
  match type of E with bind ?X _ = _ => destruct X as [g1|?] eqn:E1; cbn [bind] in E; [|discriminate] end.
  match type of E with bind ?X _ = _ => destruct X as [g2|?] eqn:Eg; cbn [bind] in E; [|discriminate] end.
  match type of E with bind ?X _ = _ => destruct X as [g3|?] eqn:Es; cbn [bind] in E; [|discriminate] end.
  inversion E; subst hb g3. clear E.
  (* S = the new object and the former members other than v *)
  set (S := fun x => x = n \/ (In x g /\ x <> v)).
  assert (PS : forall x p, S x -> In p (pars h' x) ->
               S p /\ tc h (if x =? n then v else x) (if p =? n then v else p)).
  { intros x p [->|[Hx Nx]] Hp.
    - rewrite Nat.eqb_refl. apply FN in Hp. rewrite Pn, (Pold v Hv) in Hp.
      destruct Hp as [[]|[[_ X]|[X Np]]]; [tauto|].
      assert (Hpg : In p g) by (eapply (wf_closed _ _ W); eauto).
      assert (Npn : (p =? n) = false) by (apply Nat.eqb_neq; intros ->; tauto). rewrite Npn.
      split; [right; split; assumption|apply tc_edge; exact X].
    - assert (Nxn : (x =? n) = false) by (apply Nat.eqb_neq; intros ->; tauto). rewrite Nxn.
      apply (FG x Hx) in Hp. rewrite (Pold x Hx) in Hp. destruct Hp as [[-> X]|[X Np]].
      + rewrite Nat.eqb_refl. split; [left; reflexivity|apply tc_edge; exact X].
      + assert (Hpg : In p g) by (eapply (wf_closed _ _ W); eauto).
        assert (Npn : (p =? n) = false) by (apply Nat.eqb_neq; intros ->; tauto). rewrite Npn.
        split; [right; split; assumption|apply tc_edge; exact X]. }
  unfold add_node_g in Eg. destruct (dfs_add_closed _ _ _ _ _ Eg) as [I1 [Hn2 _]].
  assert (HKb : heap_ok h') by (apply (wf_heap _ _ W')).
  assert (Vn : n < length h') by (rewrite L2; apply (alloc1_valid h nn)).
  assert (M2 : forall x, In x g2 -> S x).
  { intros x Hx. destruct (dfs_add_sound _ _ _ _ _ Eg x Hx) as [A|R].
    - right. split; [eapply list_remove_incl; eauto|].
      destruct (list_remove_nodup _ _ _ E1 (wf_nodup _ _ W)) as [_ X]. intros ->. tauto.
    - apply (reach_closed_set h' S n x R); [left; reflexivity|]. intros y p Sy Hp. apply (PS y p Sy Hp). }
  assert (AC2 : acyclic h' g2).
  { apply (two_part_acyclic h h' g g2 S (fun _ => False) (fun x => if x =? n then v else x)).
    - intros x Hx. left. apply M2. exact Hx.
    - intros x [->|[Hx _]]; [rewrite Nat.eqb_refl; exact Hv|].
      assert (Nxn : (x =? n) = false) by (apply Nat.eqb_neq; intros ->; tauto). rewrite Nxn. exact Hx.
    - intros x _ [].
    - intros x p [].
    - intros x [].
    - intros x p Sx Hp. right. apply PS; assumption.
    - exact AC. }
  assert (V2 : forall x, In x g2 -> x < length h').
  { intros x Hx. destruct (M2 x Hx) as [->|[A _]]; [exact Vn|]. rewrite L2. apply (wf_valid _ _ W1). exact A. }
  assert (K : forall x, In x g2 -> In x g').
  { apply (sort_nodes_keeps h' g2 g' HKb V2 AC2 Es). }
  (* the result lists exactly S *)
  assert (IN : forall x, In x g' <-> x = n \/ (In x g /\ x <> v)).
  { intros x. split; [apply M|]. intros [->|[Hx Nx]]; apply K; [exact Hn2|].
    apply I1. eapply list_remove_other; eauto. }
  pose proof (list_remove_length _ _ _ E1) as LG.
  destruct (list_remove_nodup _ _ _ E1 (wf_nodup _ _ W)) as [ND1 Nv1].
  assert (ND' : NoDup (n :: g1)).
  { constructor; [|exact ND1]. intros X. apply Nn. eapply list_remove_incl; eauto. }
  assert (P : Permutation g' (n :: g1)).
  { apply NoDup_Permutation; [apply (wf_nodup _ _ W')|exact ND'|].
    intros x. rewrite IN. split.
    - intros [->|[Hx Nx]]; [left; reflexivity|right; eapply list_remove_other; eauto].
    - intros [<-|Hx]; [left; reflexivity|right]. split; [eapply list_remove_incl; eauto|]. intros ->. tauto. }
  split.
  - rewrite (Permutation_length P). simpl. unfold ref in *. lia.
  - rewrite (edges_perm_length h' _ _ P).
    assert (Q : Permutation g (v :: g1)).
    { apply NoDup_Permutation; [apply (wf_nodup _ _ W)|constructor; assumption|].
      intros x. split.
      - intros Hx. destruct (Nat.eq_dec x v) as [->|N]; [left; reflexivity|right; eapply list_remove_other; eauto].
      - intros [<-|Hx]; [exact Hv|eapply list_remove_incl; eauto]. }
    rewrite (edges_perm_length h _ _ Q). rewrite !edges_length. cbn [fold_right].
    rewrite (PN (proj2 (IN n) (or_introl eq_refl))). f_equal.
    assert (EQ : forall l, (forall x, In x l -> In x g1) ->
      fold_right (fun r m => length (pars h' r) + m) 0 l = fold_right (fun r m => length (pars h r) + m) 0 l).
    { induction l as [|a t IHl]; intros Hl; simpl; [reflexivity|].
      rewrite IHl by (intros x Hx; apply Hl; right; exact Hx). f_equal.
      assert (Ha1 : In a g1) by (apply Hl; left; reflexivity).
      assert (Hag : In a g) by (eapply list_remove_incl; eauto).
      assert (Nav : a <> v) by (intros ->; tauto).
      apply PK; [apply IN; right; split; assumption|]. intros ->. tauto. }
    apply EQ. auto.
Qed.

(* the function: the first candidate for which the factory answers is replaced *)
Theorem single_change_fn_counts : forall tries h g h' g', WF h g -> acyclic h g ->
  (forall v nn, In (v, Some nn) tries -> In v g /\ fresh_for (h, g) nn) ->
  single_change tries (h, g) = Ok (h', g') ->
  length g' = length g /\ length (edges h' g') = length (edges h g).
Proof.
  induction tries as [|[v [nn|]] t IH]; intros h g h' g' W AC H E; simpl in E.
  - inversion E; subst. auto.
  - destruct (H v nn (or_introl eq_refl)) as [Hv FR]. eapply single_change_counts; eauto.
  - apply IH; auto. intros v' nn' X. apply H. right. exact X.
Qed.

Lemma same_counts_iff : forall h g h' g',
  same_counts h g h' g' = true <-> length g' = length g /\ length (edges h' g') = length (edges h g).
Proof. intros. unfold same_counts. rewrite andb_true_iff, !Nat.eqb_eq. tauto. Qed.

(* ------------------------------------------------------------------ reduce_mutation never empties the graph *)
(* every member lies below some sink (a member without children) *)
Lemma root_above : forall h g, heap_ok h -> (forall x, In x g -> x < length h) -> acyclic h g ->
  forall k x, In x g -> length (filter (fun y => reaches_b h y x) g) < k ->
  exists r, In r (root_nodes h g) /\ reach h r x.
Proof.
  intros h g HK V AC. induction k as [|k IH]; intros x Hx L; [lia|].
  destruct (node_children h g x) as [|c cs] eqn:EC.
  - exists x. split; [|constructor]. unfold root_nodes. apply filter_In. split; [exact Hx|]. rewrite EC. reflexivity.
  - assert (Hc : In c (node_children h g x)) by (rewrite EC; left; reflexivity).
    apply node_children_In in Hc. destruct Hc as [Hcg Hxc].
    assert (NR : ~ reach h x c).
    { intros R. apply (AC c Hcg c (reach_refl _ _)). exists x. split; assumption. }
    assert (LT : length (filter (fun y => reaches_b h y c) g) < length (filter (fun y => reaches_b h y x) g)).
    { apply filter_length_lt.
      - intros y Hy Ry. apply reaches_b_iff; [exact HK|apply V; exact Hy|].
        apply (reaches_b_iff h y c HK (V y Hy)) in Ry. eapply reach_step_r; eauto.
      - exists x. split; [exact Hx|]. split.
        + destruct (reaches_b h x c) eqn:B; [|reflexivity].
          apply (reaches_b_iff h x c HK (V x Hx)) in B. tauto.
        + apply reaches_b_iff; [exact HK|apply V; exact Hx|constructor]. }
    destruct (IH c Hcg) as [r [Hr Rr]]; [lia|].
    exists r. split; [exact Hr|]. eapply reach_step_r; eauto.
Qed.

(* a sink other than v is no ancestor of v *)
Lemma root_not_above : forall h g v r, WF h g -> In v g -> In r (root_nodes h g) -> r <> v -> ~ reach h v r.
Proof.
  intros h g v r W Hv Hr N R.
  unfold root_nodes in Hr. apply filter_In in Hr. destruct Hr as [Hrg Hnull].
  assert (X : forall a b, reach h a b -> In a g -> a <> b -> exists x, In x g /\ In b (pars h x)).
  { intros a b Rab. unfold reach in Rab. induction Rab as [a|a p b Hp Hr' IH]; intros Ha Nab; [congruence|].
    assert (Hpg : In p g) by (eapply (wf_closed _ _ W); eauto).
    destruct (Nat.eq_dec p b) as [->|Npb]; [exists a; auto|apply IH; assumption]. }
  destruct (X v r R Hv (fun E => N (eq_sym E))) as [x [Hx Hp]].
  assert (Y : In x (node_children h g r)) by (apply node_children_In; auto).
  destruct (node_children h g r); [destruct Y|discriminate].
Qed.

(* the result of reduce_mutation is never empty: a sink other than the removed node survives
   delete_subtree, update_subtree puts a new node in *)
Theorem reduce_nonempty : forall min_arity tries h g h' g', WF h g -> acyclic h g -> g <> [] ->
  (forall v onn, In (v, onn) tries -> In v g) ->
  reduce min_arity tries (h, g) = Ok (h', g') -> g' <> [].
Proof.
  intros ma tries h g h' g' W AC N H E. unfold reduce in E. cbn [snd] in E.
  destruct (length g =? 1); [inversion E; subst; exact N|].
  induction tries as [|[v onn] t IH]; simpl in E; [inversion E; subst; exact N|].
  assert (Hv : In v g) by (eapply H; left; reflexivity).
  assert (Ht : forall v' o', In (v', o') t -> In v' g) by (intros; eapply H; right; eauto).
  destruct (is_excluded h g v) eqn:EX; [apply IH; assumption|].
  destruct (deletable ma h g v).
  - (* delete_subtree(v): some sink differs from v *)
    destruct (delete_subtree_char h g v h' g' W Hv E) as [_ [_ [M _]]].
    destruct (root_above h g (wf_heap _ _ W) (wf_valid _ _ W) AC _ v Hv (Nat.lt_succ_diag_r _)) as [r0 [Hr0 _]].
    assert (X : exists r, In r (root_nodes h g) /\ r <> v).
    { unfold is_excluded in EX. destruct (root_nodes h g) as [|a [|b rs]] eqn:ER.
      - destruct Hr0.
      - apply Nat.eqb_neq in EX. exists a. split; [left; reflexivity|auto].
      - assert (ND : NoDup (a :: b :: rs)).
        { rewrite <- ER. unfold root_nodes. apply NoDup_filter. apply (wf_nodup _ _ W). }
        inversion ND as [|? ? Na _]; subst.
        destruct (Nat.eq_dec a v) as [->|Nav].
        + exists b. split; [right; left; reflexivity|]. intros ->. apply Na. left. reflexivity.
        + exists a. split; [left; reflexivity|exact Nav]. }
    destruct X as [r [Hr Nr]].
    assert (Hrg : In r g) by (unfold root_nodes in Hr; apply filter_In in Hr; tauto).
    intros ->. apply (M r). split; [exact Hrg|]. apply (root_not_above h g v r W Hv Hr Nr).
  - destruct onn as [nn|]; [|apply IH; assumption].
    (* update_subtree(v, primary node): the copy of the new node is a member *)
    set (h1 := h ++ [fresh_node nn]) in *.
    assert (W1 : WF h1 g) by (apply (alloc1_WF h g nn W)).
    assert (A1 : acyclic h1 g) by (apply acyclic_app; assumption).
    assert (G : guard_b (h1, g) (OUpdSub v (length h)) = true).
    { pose proof (leaf_tree_ok h nn) as T. unfold tree_ok, alloc_tree in T. cbn [fst snd map] in T.
      rewrite shift_fresh, Nat.add_0_r in T. rewrite !andb_true_iff in T. destruct T as [_ T3].
      unfold guard_b. cbn [fst snd].
      apply andb_true_iff; split; [apply andb_true_iff; split; [apply andb_true_iff; split|]|].
      - apply memb_In. exact Hv.
      - apply Nat.ltb_lt. apply (alloc1_valid h nn).
      - eapply hierarchy_member_ok; eauto.
      - exact T3. }
    destruct (update_subtree_facts_exact h1 g v (length h) W1 G)
      as [h4 [g3 [Bs [E' [W' [_ [_ [_ [_ [_ [_ [R [g2 [_ [_ [_ [_ [W2 [ES M2]]]]]]]]]]]]]]]]]]].
    rewrite E in E'. inversion E'; subst h4 g3.
    intros ->.
    assert (In (rename R (length h1) (length h)) g2) by (apply M2; right; constructor).
    pose proof (OpsSink.sort_nodes_same_set h' g2 [] (wf_heap _ _ W2) (wf_valid _ _ W2) (wf_closed _ _ W2) ES
                  (rename R (length h1) (length h))) as X. apply X in H0. destruct H0.
Qed.
