(* C17 - proofs about the mutation models of Evo/Mutations.v.
   They rest on the per-operation theorems of property C04 (Graph/OpsProofs*.v: well-formedness,
   Graph/OpsChar.v: exact results, Graph/OpsAcyclic.v: acyclicity). *)
From Coq Require Import List Arith Bool Lia.
From GolemV Require Import Graph.Heap Graph.Ops Graph.OpsSpec Graph.OpsBase Graph.OpsDfs Graph.OpsProofs
  Graph.OpsProofs2 Graph.OpsChar Graph.OpsAcyclic Evo.Mutations.
Import ListNotations.

(* ------------------------------------------------------------------ the oracle decides the stated Props *)
Lemma acyc_b_iff : forall h g, WF h g -> (acyc_b h g = true <-> acyclic h g).
Proof. exact acyclic_b_iff. Qed.

Lemma null_false : forall {A} (l : list A), negb (null l) = true <-> l <> [].
Proof. intros A [|x t]; simpl; split; congruence. Qed.

Lemma in_domain_iff : forall h g,
  in_domain (h, g) = true <-> WF h g /\ acyclic h g /\ g <> [].
Proof.
  intros h g. unfold in_domain. simpl. rewrite !andb_true_iff, wf_b_iff, null_false. split.
  - intros [[W A] N]. split; [exact W|]. split; [apply acyc_b_iff; assumption|exact N].
  - intros [W [A N]]. split; [split; [exact W|apply acyc_b_iff; assumption]|exact N].
Qed.

(* what a `true` of the oracle on an observed call means *)
Theorem mut_holds_b_sound : forall k h g h' g',
  mut_holds_b k (h, g) (OOk h' g') = true -> WF h g -> acyclic h g -> g <> [] ->
  WF h' g' /\ acyclic h' g' /\ clause_b k h g h' g' = true.
Proof.
  intros k h g h' g' H W A N. unfold mut_holds_b in H.
  assert (D : in_domain (h, g) = true) by (apply in_domain_iff; auto).
  rewrite D in H. simpl in H. rewrite !andb_true_iff in H. destruct H as [[H1 H2] H3].
  apply wf_b_iff in H1. split; [exact H1|]. split; [apply acyc_b_iff; assumption|exact H3].
Qed.

Theorem mut_holds_b_complete : forall k h g h' g',
  WF h' g' -> acyclic h' g' -> clause_b k h g h' g' = true -> mut_holds_b k (h, g) (OOk h' g') = true.
Proof.
  intros k h g h' g' W A C. unfold mut_holds_b. destruct (in_domain (h, g)); [|reflexivity].
  simpl. rewrite C, !andb_true_r. apply andb_true_iff. split; [apply wf_b_iff; exact W|apply acyc_b_iff; assumption].
Qed.

(* an exception inside the domain is a violation *)
Theorem mut_holds_b_raise : forall k s, in_domain s = true -> mut_holds_b k s ORaise = false.
Proof. intros k s D. unfold mut_holds_b. rewrite D. reflexivity. Qed.

(* the clauses *)
Lemma list_eqb_eq : forall a b, list_eqb a b = true <-> a = b.
Proof.
  induction a as [|x a IH]; intros [|y b]; simpl; split; try congruence.
  - rewrite andb_true_iff, Nat.eqb_eq, IH. intros [-> ->]. reflexivity.
  - intros E. inversion E; subst. rewrite Nat.eqb_refl. simpl. apply IH. reflexivity.
Qed.

Lemma node_same_eq : forall a b, node_same a b = true <-> a = b.
Proof.
  intros [u l p q] [u' l' p' q']. unfold node_same. simpl.
  rewrite !andb_true_iff, !Nat.eqb_eq, list_eqb_eq, eqb_true_iff. split.
  - intros [[[-> ->] ->] ->]. reflexivity.
  - intros E. inversion E; subst. auto.
Qed.

(* "untouched": the same member list, every member object exactly as before *)
Lemma untouched_iff : forall h g h' g',
  untouched h g h' g' = true <-> g' = g /\ forall r, In r g -> get h' r = get h r.
Proof.
  intros. unfold untouched. rewrite andb_true_iff, list_eqb_eq, forallb_forall. split.
  - intros [-> H]. split; [reflexivity|]. intros r Hr. symmetry. apply node_same_eq. apply H. exact Hr.
  - intros [-> H]. split; [reflexivity|]. intros r Hr. apply node_same_eq. symmetry. apply H. exact Hr.
Qed.

(* ------------------------------------------------------------------ no_mutation *)
Theorem none_identity : forall s, no_mutation s = Ok s.
Proof. reflexivity. Qed.

(* ------------------------------------------------------------------ paths longer than the heap contain a cycle *)
(* deep h k x : a chain of k parent links starts at x *)
Fixpoint deep (h : heap) (k : nat) (x : ref) : Prop :=
  match k with
  | O => True
  | S k' => exists p, In p (pars h x) /\ deep h k' p
  end.

Lemma deep_cycle : forall h, heap_ok h -> forall k x V,
  x < length h -> NoDup V -> (forall v, In v V -> v < length h /\ tc h v x) ->
  length h <= length V + k -> deep h k x -> exists y, reach h x y /\ on_cycle h y.
Proof.
  intros h HK. induction k as [|k IH]; intros x V Vx ND HV L D.
  - destruct (in_dec Nat.eq_dec x V) as [I|I].
    + exists x. split; [constructor|]. apply on_cycle_tc. apply HV. exact I.
    + exfalso. assert (ND' : NoDup (x :: V)) by (constructor; assumption).
      assert (IN : incl (x :: V) (seq 0 (length h))).
      { intros v [<-|Hv]; apply in_seq; [lia|]. destruct (HV v Hv). lia. }
      pose proof (NoDup_incl_length ND' IN) as X. rewrite seq_length in X. simpl in X. unfold ref in *. lia.
  - destruct (in_dec Nat.eq_dec x V) as [I|I].
    + exists x. split; [constructor|]. apply on_cycle_tc. apply HV. exact I.
    + destruct D as [p [Hp Dp]].
      destruct (IH p (x :: V)) as [y [Ry Cy]].
      * eapply HK; eauto.
      * constructor; assumption.
      * intros v [<-|Hv].
        -- split; [exact Vx|apply tc_edge; exact Hp].
        -- destruct (HV v Hv) as [A B]. split; [exact A|]. eapply tc_then_reach; [exact B|].
           econstructor; [exact Hp|constructor].
      * simpl. lia.
      * exact Dp.
      * exists y. split; [econstructor; eauto|exact Cy].
Qed.

Lemma acyclic_not_deep : forall h x, heap_ok h -> x < length h -> acyclic_from h x -> ~ deep h (length h) x.
Proof.
  intros h x HK Vx AC D.
  destruct (deep_cycle h HK (length h) x [] Vx (NoDup_nil _)) as [y [Ry Cy]]; auto.
  - intros v [].
  - exact (AC y Ry Cy).
Qed.

(* ------------------------------------------------------------------ single_edge_mutation *)
(* the ancestor walk answers True only when the target is none of the walked ancestors *)
Lemma levels_sound : forall fuel h ps tgt, levels_ok fuel h ps tgt = Ok true ->
  forall x, In x ps -> ~ reach h x tgt.
Proof.
  induction fuel as [|k IH]; intros h ps tgt E; [discriminate|]. simpl in E.
  destruct ps as [|p ps']; [intros x []|].
  destruct (memb tgt (p :: ps')) eqn:M; [discriminate|].
  intros x Hx R. unfold reach in R. inversion R as [a|a q b Hq Rq]; subst.
  - apply memb_false in M. apply M. exact Hx.
  - apply (IH _ _ _ E q); [|exact Rq]. apply in_flat_map. exists x. split; assumption.
Qed.

(* ... and it always answers when no chain of |heap| links starts at a walked node *)
Lemma levels_total : forall k h ps tgt, (forall x, In x ps -> ~ deep h k x) ->
  exists b, levels_ok (S k) h ps tgt = Ok b.
Proof.
  induction k as [|k IH]; intros h ps tgt H; simpl.
  - destruct ps as [|p ps']; [eexists; reflexivity|]. exfalso. apply (H p); simpl; auto.
  - destruct ps as [|p ps']; [eexists; reflexivity|].
    destruct (memb tgt (p :: ps')); [eexists; reflexivity|].
    apply IH. intros y Hy D. apply in_flat_map in Hy. destruct Hy as [x [Hx Hy]].
    apply (H x Hx). exists y. split; assumption.
Qed.

Lemma not_cycling_total : forall h g src tgt, WF h g -> acyclic h g -> In src g ->
  exists b, nodes_not_cycling h src tgt = Ok b.
Proof.
  intros h g src tgt W AC Hs. unfold nodes_not_cycling. apply levels_total.
  intros x Hx. apply acyclic_not_deep.
  - apply (wf_heap _ _ W).
  - eapply WF_par_valid; eauto.
  - intros y Ry. apply (AC src Hs). econstructor; eauto.
Qed.

Lemma not_cycling_sound : forall h src tgt, nodes_not_cycling h src tgt = Ok true -> src <> tgt ->
  ~ reach h src tgt.
Proof.
  intros h src tgt E N R. unfold reach in R. inversion R as [a|a q b Hq Rq]; subst; [congruence|].
  exact (levels_sound _ _ _ _ E q Hq Rq).
Qed.

Definition att_ok (g : graph) (a : attempt) : Prop :=
  match a with Gate => True | Try s t => In s g /\ In t g /\ s <> t end.

(* the parent links of h' are those of h plus the link tgt -> src *)
Definition edge_added (h h' : heap) (src tgt : ref) : Prop :=
  forall r q, In q (pars h' r) <-> In q (pars h r) \/ (r = tgt /\ q = src).

(* For every list of attempts (sample(graph.nodes, 2) yields two distinct members): the function
   returns; the member list is the same list; the result is well-formed and acyclic; uid, label
   and container kind of every object are unchanged; either nothing changed or exactly one
   parent link tgt -> src that was not there was added. *)
Theorem single_edge_ok : forall atts h g, WF h g -> acyclic h g -> Forall (att_ok g) atts ->
  exists h', single_edge atts (h, g) = Ok (h', g) /\ WF h' g /\ acyclic h' g /\ same_fields h h' /\
    (h' = h \/ exists src tgt, In src g /\ In tgt g /\ src <> tgt /\ ~ In src (pars h tgt) /\
                               ~ reach h src tgt /\ edge_added h h' src tgt).
Proof.
  induction atts as [|a atts IH]; intros h g W AC F.
  - exists h. simpl. split; [reflexivity|]. split; [exact W|]. split; [exact AC|]. split; [apply same_fields_refl|auto].
  - inversion F as [|? ? Fa Ft]; subst. destruct a as [|src tgt].
    + exists h. simpl. split; [reflexivity|]. split; [exact W|]. split; [exact AC|]. split; [apply same_fields_refl|auto].
    + destruct Fa as [Hs [Ht Nst]]. cbn [single_edge fst snd].
      destruct (length g <? 2).
      { exists h. split; [reflexivity|]. split; [exact W|]. split; [exact AC|]. split; [apply same_fields_refl|auto]. }
      destruct (memb src (pars h tgt)) eqn:M; [apply IH; assumption|].
      apply memb_false in M.
      assert (HC : has_cycle h g = false).
      { pose proof (proj2 (acyclic_b_iff h g W) AC) as X. unfold acyclic_b in X. apply negb_true_iff in X. exact X. }
      rewrite HC.
      destruct (not_cycling_total h g src tgt W AC Hs) as [b Eb]. rewrite Eb.
      destruct b; [|apply IH; assumption].
      pose proof (not_cycling_sound h src tgt Eb Nst) as NR.
      destruct (connect_WF h g src tgt W Hs Ht) as [h' [E W']].
      exists h'. split; [exact E|]. split; [exact W'|].
      split; [exact (connect_acyclic h g src tgt h' g W Hs Ht NR E AC)|].
      destruct (connect_char h g src tgt h' g W Hs Ht E) as [_ [SF P]].
      split; [exact SF|]. right. exists src, tgt. repeat (split; [assumption|]). exact P.
Qed.

(* the count form of "adds at most one edge" *)
Lemma edges_length : forall h g, length (edges h g) = fold_right (fun r n => length (pars h r) + n) 0 g.
Proof.
  intros h g. unfold edges. induction g as [|r t IH]; simpl; [reflexivity|].
  rewrite app_length, map_length, IH. reflexivity.
Qed.

(* ------------------------------------------------------------------ single_drop_mutation *)
Lemma two_distinct : forall (g : list ref) n, NoDup g -> 2 <= length g -> exists r, In r g /\ r <> n.
Proof.
  intros [|a [|b t]] n ND L; simpl in L; try lia.
  inversion ND as [|? ? Ha _]; subst.
  destruct (Nat.eq_dec a n) as [->|N].
  - exists b. split; [simpl; auto|]. intros ->. apply Ha. simpl. auto.
  - exists a. split; [simpl; auto|exact N].
Qed.

Lemma all_or_missing : forall (g sub : list ref),
  (forall r, In r g -> In r sub) \/ exists r, In r g /\ ~ In r sub.
Proof.
  induction g as [|a t IH]; intros sub; [left; intros r []|].
  destruct (in_dec Nat.eq_dec a sub) as [I|I].
  - destruct (IH sub) as [A|[r [A B]]]; [left|right].
    + intros r [<-|Hr]; auto.
    + exists r. split; [right; exact A|exact B].
  - right. exists a. split; [left; reflexivity|exact I].
Qed.

Lemma delete_node_good : forall h g n m, WF h g -> acyclic h g -> In n g -> 2 <= length g ->
  exists h' g', delete_node h g n m = Ok (h', g') /\ WF h' g' /\ acyclic h' g' /\ g' <> [] /\
    (forall r, In r g' <-> In r g /\ r <> n).
Proof.
  intros h g n m W AC Hn L.
  destruct (delete_node_WF h g n m W Hn) as [[h' g'] [E W']]. simpl in W'.
  exists h', g'. split; [exact E|]. split; [exact W'|].
  split; [exact (delete_node_acyclic h g n m h' g' W Hn E AC)|].
  destruct (delete_node_char h g n m h' g' W Hn E) as [_ [M _]].
  split; [|exact M].
  destruct (two_distinct g n (wf_nodup _ _ W) L) as [r [Hr Nr]].
  intros ->. apply (M r). split; assumption.
Qed.

Lemma delete_all_good : forall extra h g, WF h g -> acyclic h g -> g <> [] ->
  NoDup extra -> (forall c, In c extra -> In c g) ->
  exists h' g', delete_all extra (h, g) = Ok (h', g') /\ WF h' g' /\ acyclic h' g' /\ g' <> [].
Proof.
  induction extra as [|c t IH]; intros h g W AC N ND I; simpl.
  - exists h, g. auto.
  - inversion ND as [|? ? Hc NDt]; subst.
    destruct (Nat.ltb_spec 1 (length g)) as [L|L].
    + destruct (delete_node_good h g c RAll W AC (I c (or_introl eq_refl)) L) as [h1 [g1 [E [W1 [A1 [N1 M1]]]]]].
      rewrite E. cbn [bind]. apply IH; auto.
      intros x Hx. apply M1. split; [apply I; right; exact Hx|]. intros ->. tauto.
    + apply IH; auto. intros x Hx. apply I. right. exact Hx.
Qed.

(* v = choice(graph.nodes) is a member; the nodes picked by the data_source filter are distinct
   members other than v.  For EVERY advice the function returns a non-empty well-formed acyclic graph. *)
Theorem single_drop_ok : forall v adv extra h g, WF h g -> acyclic h g -> g <> [] -> In v g ->
  NoDup extra -> (forall c, In c extra -> In c g /\ c <> v) ->
  exists h' g', single_drop v adv extra (h, g) = Ok (h', g') /\ WF h' g' /\ acyclic h' g' /\ g' <> [].
Proof.
  intros v adv extra h g W AC N Hv ND I. unfold single_drop. cbn [fst snd].
  destruct (Nat.ltb_spec (length g) 2) as [L|L]; [exists h, g; auto|].
  destruct adv.
  - exists h, g. auto.
  - destruct (delete_node_good h g v RNone W AC Hv L) as [h' [g' [E [W' [A' [N' _]]]]]]. exists h', g'. auto.
  - destruct (delete_node_good h g v RAll W AC Hv L) as [h' [g' [E [W' [A' [N' _]]]]]]. exists h', g'. auto.
  - destruct (delete_node_good h g v RSingle W AC Hv L) as [h1 [g1 [E [W1 [A1 [N1 M1]]]]]].
    rewrite E. cbn [bind]. apply delete_all_good; auto.
    intros c Hc. apply M1. apply I. exact Hc.
  - assert (Vv : v < length h) by (apply (wf_valid _ _ W); exact Hv).
    destruct (hierarchy_ok h v (wf_heap _ _ W) Vv (AC v Hv)) as [sub Es]. rewrite Es. cbn [bind].
    destruct (Nat.ltb_spec (length sub) (length g)) as [Ls|Ls]; [|exists h, g; auto].
    assert (K : is_ok (hierarchy h v) = true) by (rewrite Es; reflexivity).
    destruct (delete_subtree_WF h g v W Hv K) as [[h' g'] [E W']]. simpl in W'.
    exists h', g'. split; [exact E|]. split; [exact W'|].
    split; [exact (delete_subtree_acyclic h g v h' g' W Hv E AC)|].
    destruct (delete_subtree_char h g v h' g' W Hv E) as [_ [_ [M _]]].
    destruct (hierarchy_spec h v sub Es) as [NDs [_ [_ RS]]].
    destruct (all_or_missing g sub) as [A|[r [Hr Nr]]].
    + exfalso. pose proof (NoDup_incl_length (wf_nodup _ _ W) A). unfold ref in *. lia.
    + intros ->. apply (M r). split; [exact Hr|]. intros R. apply Nr. apply RS. exact R.
Qed.

(* the default advisor (node_rewire) on a graph with at least two nodes removes exactly the chosen node *)
Theorem single_drop_default : forall v extra h g, WF h g -> acyclic h g -> In v g -> 2 <= length g ->
  exists h' g', single_drop v ARewire extra (h, g) = Ok (h', g') /\
    (forall r, In r g' <-> In r g /\ r <> v) /\ g' <> [].
Proof.
  intros v extra h g W AC Hv L. unfold single_drop. cbn [fst snd].
  destruct (Nat.ltb_spec (length g) 2) as [X|X]; [lia|].
  destruct (delete_node_good h g v RAll W AC Hv L) as [h' [g' [E [_ [_ [N' M]]]]]]. exists h', g'. auto.
Qed.

(* ------------------------------------------------------------------ allocating factory products *)
Lemma get_alloc_new : forall h nd, get (h ++ [nd]) (length h) = nd.
Proof. intros. replace (length h) with (length h + 0) by lia. rewrite get_app_r. reflexivity. Qed.

Lemma heap_ok_alloc1 : forall h nn, heap_ok h -> heap_ok (h ++ [fresh_node nn]).
Proof.
  intros h nn HK r p Hr Hp. rewrite app_length in *. simpl in *.
  destruct (Nat.lt_ge_cases r (length h)) as [L|L].
  - rewrite pars_app_l in Hp by exact L. pose proof (HK r p L Hp). lia.
  - assert (r = length h) by lia. subst r. unfold pars in Hp. rewrite get_alloc_new in Hp. destruct Hp.
Qed.

Lemma acyclic_app : forall h g h2, WF h g -> acyclic h g -> acyclic (h ++ h2) g.
Proof.
  intros h g h2 W AC r Hr.
  apply (acyclic_from_local h (h ++ h2) (fun x => x < length h) r).
  - apply (wf_valid _ _ W). exact Hr.
  - intros x p Hx Hp. eapply (wf_heap _ _ W); eauto.
  - intros x Hx. apply pars_app_l. exact Hx.
  - apply AC. exact Hr.
Qed.

Lemma closure_leaf : forall h n, pars h n = [] -> closure h n = Ok [n].
Proof. intros h n H. unfold closure, add_node_g. simpl. rewrite H. reflexivity. Qed.

Lemma hierarchy_leaf : forall h n, pars h n = [] -> hierarchy h n = Ok [n].
Proof. intros h n H. unfold hierarchy. simpl. rewrite H. reflexivity. Qed.

(* the state after `new = factory(...)`: one more object, same graph *)
Section Alloc1.
  Variables (h : heap) (g : graph) (nn : newnode).
  Hypothesis W : WF h g.
  Hypothesis FR : forall r, In r g -> uid (get h r) <> fst nn.
  Let h1 := h ++ [fresh_node nn].
  Let n := length h.

  Lemma alloc1_WF : WF h1 g.
  Proof. apply WF_app; [exact W|]. apply heap_ok_alloc1. apply (wf_heap _ _ W). Qed.

  Lemma alloc1_new_not_member : ~ In n g.
  Proof. intros X. pose proof (wf_valid _ _ W n X). unfold n in *. lia. Qed.

  Lemma alloc1_pars_new : pars h1 n = [].
  Proof. unfold pars, h1, n. rewrite get_alloc_new. reflexivity. Qed.

  Lemma alloc1_valid : n < length h1.
  Proof. unfold h1, n. rewrite app_length. simpl. lia. Qed.

  Lemma alloc1_get_old : forall r, In r g -> get h1 r = get h r.
  Proof. intros r Hr. apply get_app_l. apply (wf_valid _ _ W). exact Hr. Qed.

  Lemma alloc1_ins_ok : ins_ok h1 g [n] = true.
  Proof.
    unfold ins_ok. apply andb_true_iff. split.
    - simpl. rewrite alloc1_pars_new. unfold h1, n. rewrite get_alloc_new. reflexivity.
    - assert (F : filter (fun r => negb (memb r g)) [n] = [n]).
      { simpl. pose proof alloc1_new_not_member as X. apply memb_false in X. rewrite X. reflexivity. }
      rewrite F. apply uid_inj_b_iff. intros a b Ha Hb E.
      apply in_app_or in Ha. apply in_app_or in Hb.
      assert (Un : uid (get h1 n) = fst nn) by (unfold h1, n; rewrite get_alloc_new; reflexivity).
      destruct Ha as [Ha|[<-|[]]]; destruct Hb as [Hb|[<-|[]]]; auto.
      + rewrite (alloc1_get_old a Ha), (alloc1_get_old b Hb) in E. apply (wf_uid _ _ W); assumption.
      + rewrite (alloc1_get_old a Ha), Un in E. exfalso. eapply FR; eauto.
      + rewrite (alloc1_get_old b Hb), Un in E. exfalso. eapply FR; eauto.
  Qed.

  Lemma alloc1_guard_upd : forall v, In v g -> guard_b (h1, g) (OUpdNode v n) = true.
  Proof.
    intros v Hv. unfold guard_b. cbn [fst snd]. rewrite (closure_leaf h1 n alloc1_pars_new).
    apply andb_true_iff; split; [apply andb_true_iff; split; [apply andb_true_iff; split|]|].
    - apply memb_In. exact Hv.
    - apply Nat.ltb_lt. exact alloc1_valid.
    - apply negb_true_iff. apply memb_false. exact alloc1_new_not_member.
    - exact alloc1_ins_ok.
  Qed.

  Lemma alloc1_acyc_guard_upd : forall v, acyc_guard_b (h1, g) (OUpdNode v n) = true.
  Proof.
    intros v. unfold acyc_guard_b. cbn [fst snd].
    rewrite (closure_leaf h1 n alloc1_pars_new), (hierarchy_leaf h1 n alloc1_pars_new).
    cbn [is_ok andb forallb]. rewrite andb_true_r. apply negb_true_iff. apply memb_false.
    exact alloc1_new_not_member.
  Qed.

  Lemma alloc1_guard_add : guard_b (h1, g) (OAdd n) = true.
  Proof.
    unfold guard_b. cbn [fst snd]. rewrite (closure_leaf h1 n alloc1_pars_new).
    apply andb_true_iff. split; [apply Nat.ltb_lt; exact alloc1_valid|exact alloc1_ins_ok].
  Qed.
End Alloc1.

(* ------------------------------------------------------------------ single_change_mutation, simple_mutation *)
(* update_node(v, factory product): v a member, the product's uid not used in the graph *)
Lemma replace_node_good : forall h g v nn, WF h g -> acyclic h g -> In v g ->
  (forall r, In r g -> uid (get h r) <> fst nn) ->
  exists h' g', replace_node (h, g) v nn = Ok (h', g') /\ WF h' g' /\ acyclic h' g'.
Proof.
  intros h g v nn W AC Hv FR. unfold replace_node. cbn [fst snd].
  pose proof (alloc1_WF h g nn W) as W1.
  pose proof (alloc1_guard_upd h g nn W FR v Hv) as G.
  pose proof (alloc1_acyc_guard_upd h g nn W v) as AG.
  destruct (update_node_WF _ _ _ _ W1 G) as [[h' g'] [E W']]. simpl in W'.
  exists h', g'. split; [exact E|]. split; [exact W'|].
  exact (update_node_acyclic _ _ _ _ h' g' W1 G AG E (acyclic_app h g _ W AC)).
Qed.

Definition fresh_for (s : state) (nn : newnode) : Prop :=
  forall r, In r (snd s) -> uid (get (fst s) r) <> fst nn.

(* every exchange_node call concerns a member; a product (if any) carries an unused uid *)
Theorem single_change_ok : forall tries h g, WF h g -> acyclic h g ->
  (forall v nn, In (v, Some nn) tries -> In v g /\ fresh_for (h, g) nn) ->
  exists h' g', single_change tries (h, g) = Ok (h', g') /\ WF h' g' /\ acyclic h' g'.
Proof.
  induction tries as [|[v [nn|]] t IH]; intros h g W AC H; simpl.
  - exists h, g. auto.
  - destruct (H v nn (or_introl eq_refl)) as [Hv FR]. apply replace_node_good; assumption.
  - apply IH; auto. intros v' nn' X. apply H. right. exact X.
Qed.

(* the replacements of simple_mutation, one after the other; validity of a step is stated on
   the state that step meets *)
Fixpoint changes_ok (changes : list (ref * newnode)) (s : state) : Prop :=
  match changes with
  | [] => True
  | (v, nn) :: rest => In v (snd s) /\ fresh_for s nn /\
                       forall s', replace_node s v nn = Ok s' -> changes_ok rest s'
  end.

Theorem simple_mutation_ok : forall changes h g, WF h g -> acyclic h g -> changes_ok changes (h, g) ->
  exists h' g', simple_mutation changes (h, g) = Ok (h', g') /\ WF h' g' /\ acyclic h' g'.
Proof.
  induction changes as [|[v nn] t IH]; intros h g W AC H; simpl.
  - exists h, g. auto.
  - destruct H as [Hv [FR K]]. simpl in Hv.
    destruct (replace_node_good h g v nn W AC Hv FR) as [h1 [g1 [E [W1 A1]]]].
    rewrite E. cbn [bind]. apply IH; auto.
Qed.

(* ------------------------------------------------------------------ tree_growth, reduce_mutation *)
(* "any fresh tree": the objects of the product only point at each other, the ancestors of its
   root form no cycle, carry UniqueList containers without repeated parents and pairwise distinct
   uids.  Nothing is asked about the relation of these uids to those of the graph (update_subtree
   renews the clashing ones). *)
Definition tree_ok (h : heap) (t : tree) : bool :=
  let a := alloc_tree h t in
  forallb (fun nd => forallb (fun p => p <? length (fst t)) (parents nd)) (fst t) &&
  (snd t <? length (fst t)) &&
  match hierarchy (fst a) (snd a) with Ok R => ins_ok (fst a) [] R | Raise _ => false end.

Lemma alloc_tree_WF : forall h g t, WF h g ->
  forallb (fun nd => forallb (fun p => p <? length (fst t)) (parents nd)) (fst t) = true ->
  WF (fst (alloc_tree h t)) g.
Proof.
  intros h g [ns root] W F. unfold alloc_tree. cbn [fst snd] in *. apply alloc_WF; [exact W|].
  rewrite map_length. apply forallb_forall. intros nd Hnd. apply in_map_iff in Hnd.
  destruct Hnd as [nd0 [<- H0]]. rewrite forallb_forall in F. specialize (F nd0 H0).
  unfold shift. cbn [parents]. apply forallb_forall. intros p Hp. apply in_map_iff in Hp.
  destruct Hp as [p0 [<- Hp0]]. rewrite forallb_forall in F. specialize (F p0 Hp0).
  apply Nat.ltb_lt in F. apply Nat.ltb_lt. lia.
Qed.

Lemma hierarchy_member_ok : forall h g v, WF h g -> acyclic h g -> In v g -> is_ok (hierarchy h v) = true.
Proof.
  intros h g v W AC Hv. apply hierarchy_ok_iff; [apply (wf_heap _ _ W)|apply (wf_valid _ _ W); exact Hv|apply AC; exact Hv].
Qed.

Lemma update_subtree_good : forall h g v new, WF h g -> acyclic h g -> In v g -> new < length h ->
  match hierarchy h new with Ok R => ins_ok h [] R | Raise _ => false end = true ->
  exists h' g', update_subtree h g v new = Ok (h', g') /\ WF h' g' /\ acyclic h' g'.
Proof.
  intros h g v new W AC Hv Vn I.
  assert (G : guard_b (h, g) (OUpdSub v new) = true).
  { unfold guard_b. cbn [fst snd].
    apply andb_true_iff; split; [apply andb_true_iff; split; [apply andb_true_iff; split|]|].
    - apply memb_In. exact Hv.
    - apply Nat.ltb_lt. exact Vn.
    - eapply hierarchy_member_ok; eauto.
    - exact I. }
  destruct (update_subtree_WF h g v new W G) as [[h' g'] [E W']]. simpl in W'.
  exists h', g'. split; [exact E|]. split; [exact W'|].
  exact (update_subtree_acyclic h g v new h' g' W G E AC).
Qed.

(* tree_growth: for every member v and every fresh tree t (or no successful candidate at all) *)
Theorem tree_growth_ok : forall c h g, WF h g -> acyclic h g ->
  (forall v t, c = Some (v, t) -> In v g /\ tree_ok h t = true) ->
  exists h' g', tree_growth c (h, g) = Ok (h', g') /\ WF h' g' /\ acyclic h' g'.
Proof.
  intros [[v t]|] h g W AC H; simpl; [|exists h, g; auto].
  destruct (H v t eq_refl) as [Hv T]. unfold tree_ok in T. rewrite !andb_true_iff in T.
  destruct T as [[T1 T2] T3].
  pose proof (alloc_tree_WF h g t W T1) as W1.
  apply update_subtree_good; auto.
  - destruct t as [ns root]. unfold alloc_tree. cbn [fst snd]. apply acyclic_app; assumption.
  - destruct t as [ns root]. unfold alloc_tree. cbn [fst snd] in *. rewrite app_length, map_length.
    apply Nat.ltb_lt in T2. lia.
Qed.

(* a single new node is a fresh tree, whatever its uid *)
Lemma shift_fresh : forall b nn, shift b (fresh_node nn) = fresh_node nn.
Proof. reflexivity. Qed.

Lemma leaf_tree_ok : forall h nn, tree_ok h ([fresh_node nn], 0) = true.
Proof.
  intros h nn. unfold tree_ok, alloc_tree. cbn [fst snd map]. rewrite shift_fresh, Nat.add_0_r.
  assert (P : pars (h ++ [fresh_node nn]) (length h) = []).
  { unfold pars. rewrite get_alloc_new. reflexivity. }
  rewrite (hierarchy_leaf _ _ P).
  apply andb_true_iff. split; [reflexivity|].
  unfold ins_ok. apply andb_true_iff. split.
  - cbn [forallb]. rewrite P, get_alloc_new. reflexivity.
  - apply uid_inj_b_iff. intros a b Ha Hb _. simpl in Ha, Hb.
    destruct Ha as [<-|[]]. destruct Hb as [<-|[]]. reflexivity.
Qed.

Lemma update_subtree_leaf_good : forall h g v nn, WF h g -> acyclic h g -> In v g ->
  exists h' g', update_subtree (h ++ [fresh_node nn]) g v (length h) = Ok (h', g') /\ WF h' g' /\ acyclic h' g'.
Proof.
  intros h g v nn W AC Hv.
  destruct (tree_growth_ok (Some (v, ([fresh_node nn], 0))) h g W AC) as [h' [g' [E R]]].
  - intros v' t' X. inversion X; subst. split; [exact Hv|apply leaf_tree_ok].
  - exists h', g'. split; [|exact R]. simpl in E. unfold alloc_tree in E. cbn [fst snd map] in E.
    rewrite shift_fresh, Nat.add_0_r in E. exact E.
Qed.

Theorem reduce_ok : forall min_arity tries h g, WF h g -> acyclic h g ->
  (forall v onn, In (v, onn) tries -> In v g) ->
  exists h' g', reduce min_arity tries (h, g) = Ok (h', g') /\ WF h' g' /\ acyclic h' g'.
Proof.
  intros ma tries h g W AC H. unfold reduce. cbn [snd].
  destruct (length g =? 1); [exists h, g; auto|].
  induction tries as [|[v onn] t IH]; simpl; [exists h, g; auto|].
  assert (Hv : In v g) by (eapply H; left; reflexivity).
  assert (Ht : forall v' o', In (v', o') t -> In v' g) by (intros; eapply H; right; eauto).
  destruct (is_excluded h g v); [apply IH; exact Ht|].
  destruct (deletable ma h g v).
  - pose proof (hierarchy_member_ok h g v W AC Hv) as K.
    destruct (delete_subtree_WF h g v W Hv K) as [[h' g'] [E W']]. simpl in W'.
    exists h', g'. split; [exact E|]. split; [exact W'|].
    exact (delete_subtree_acyclic h g v h' g' W Hv E AC).
  - destruct onn as [nn|]; [|apply IH; exact Ht].
    apply update_subtree_leaf_good; assumption.
Qed.

(* ------------------------------------------------------------------ single_add_mutation *)
Lemma reach_local_in : forall h h' (S : ref -> Prop),
  (forall x p, S x -> In p (pars h x) -> S p) ->
  (forall x p, S x -> (In p (pars h' x) <-> In p (pars h x))) ->
  forall a b, reach h' a b -> S a -> reach h a b /\ S b.
Proof.
  intros h h' S CL EQ a b R. unfold reach in *. induction R as [a|a p b Hp Hr IHr]; intros Sa.
  - split; [constructor|exact Sa].
  - apply (EQ a p Sa) in Hp. destruct (IHr (CL a p Sa Hp)) as [A B]. split; [econstructor; eauto|exact B].
Qed.

Lemma add_node_leaf : forall h g n, ~ In n g -> pars h n = [] -> add_node h g n = Ok (h, g ++ [n]).
Proof.
  intros h g n N P. unfold add_node, add_node_g. simpl. apply memb_false in N. rewrite N, P. reflexivity.
Qed.

Lemma acyclic_from_leaf : forall h n, pars h n = [] -> acyclic_from h n.
Proof.
  intros h n P x R [p [Hp _]]. unfold reach in R. inversion R as [a|a q b Hq _]; subst.
  - unfold edge in Hp. rewrite P in Hp. destruct Hp.
  - rewrite P in Hq. destruct Hq.
Qed.

(* the state after `graph.add_node(new)` for a factory product *)
Lemma add_leaf_good : forall h g nn, WF h g -> acyclic h g -> fresh_for (h, g) nn ->
  let h1 := h ++ [fresh_node nn] in let n := length h in
  WF h1 (g ++ [n]) /\ acyclic h1 (g ++ [n]) /\ add_node h1 g n = Ok (h1, g ++ [n]).
Proof.
  intros h g nn W AC FR h1 n.
  pose proof (alloc1_WF h g nn W) as W1.
  pose proof (alloc1_pars_new h nn) as P. fold h1 n in P.
  pose proof (alloc1_new_not_member h g W) as N. fold n in N.
  pose proof (add_node_leaf h1 g n N P) as E.
  destruct (add_node_WF h1 g n W1 (alloc1_guard_add h g nn W FR)) as [s' [E' W']].
  rewrite E in E'. inversion E'; subst s'. simpl in W'.
  split; [exact W'|]. split; [|exact E].
  eapply add_node_acyclic; [exact W1|apply alloc1_valid|apply acyclic_from_leaf; exact P|exact E|].
  apply acyclic_app; assumption.
Qed.

(* add_as_child: v a member; the child, if any, is a member that has v among its parents *)
Lemma add_as_child_good : forall h g v child nn, WF h g -> acyclic h g -> In v g -> fresh_for (h, g) nn ->
  (forall c, child = Some c -> In c g /\ In v (pars h c)) ->
  exists h' g', add_as_child (h, g) v child nn = Ok (h', g') /\ WF h' g' /\ acyclic h' g'.
Proof.
  intros h g v child nn W AC Hv FR HC. unfold add_as_child. cbn [fst snd].
  destruct (add_leaf_good h g nn W AC FR) as [W1 [A1 E1]].
  set (h1 := h ++ [fresh_node nn]) in *. set (n := length h) in *. set (g1 := g ++ [n]) in *.
  rewrite E1. cbn [bind fst snd].
  assert (Nn : ~ In n g) by (apply (alloc1_new_not_member h g W)).
  assert (Hv1 : In v g1) by (apply in_or_app; left; exact Hv).
  assert (Hn1 : In n g1) by (apply in_or_app; right; left; reflexivity).
  assert (Pold : forall x, In x g -> pars h1 x = pars h x).
  { intros x Hx. apply pars_app_l. apply (wf_valid _ _ W). exact Hx. }
  assert (CLg : forall x p, In x g -> In p (pars h1 x) -> In p g).
  { intros x p Hx Hp. rewrite (Pold x Hx) in Hp. eapply (wf_closed _ _ W); eauto. }
  (* connect(v, new) *)
  assert (NR1 : ~ reach h1 v n).
  { intros R. apply Nn. exact (reach_closed_set h1 (fun x => In x g) v n R Hv CLg). }
  destruct (connect_WF h1 g1 v n W1 Hv1 Hn1) as [h2 [E2 W2]]. rewrite E2. cbn [bind fst snd].
  pose proof (connect_acyclic h1 g1 v n h2 g1 W1 Hv1 Hn1 NR1 E2 A1) as A2.
  destruct (connect_char h1 g1 v n h2 g1 W1 Hv1 Hn1 E2) as [_ [_ P2]].
  destruct child as [c|]; [|exists h2, g1; auto].
  destruct (HC c eq_refl) as [Hc Hvc].
  assert (Hc1 : In c g1) by (apply in_or_app; left; exact Hc).
  assert (Ncn : c <> n) by (intros ->; tauto).
  (* connect(new, child) *)
  assert (P2g : forall x p, In x g -> (In p (pars h2 x) <-> In p (pars h x))).
  { intros x p Hx. rewrite P2, (Pold x Hx). split; [intros [A|[-> _]]; [exact A|tauto]|auto]. }
  assert (NR2 : ~ reach h2 n c).
  { intros R. unfold reach in R. inversion R as [a|a q b Hq Rq]; subst; [congruence|].
    apply P2 in Hq. destruct Hq as [Hq|[_ ->]].
    - pose proof (alloc1_pars_new h nn) as X. fold h1 n in X. rewrite X in Hq. destruct Hq.
    - destruct (reach_local_in h h2 (fun x => In x g) (wf_closed _ _ W) P2g v c Rq Hv) as [Rh _].
      apply (AC c Hc c (reach_refl _ _)). exists v. split; [exact Hvc|exact Rh]. }
  destruct (connect_WF h2 g1 n c W2 Hn1 Hc1) as [h3 [E3 W3]]. rewrite E3. cbn [bind fst snd].
  pose proof (connect_acyclic h2 g1 n c h3 g1 W2 Hn1 Hc1 NR2 E3 A2) as A3.
  (* disconnect(v, child, clean_up_leftovers=True) *)
  destruct (disconnect_WF h3 g1 v c true W3 Hv1 Hc1) as [[h4 g4] [E4 W4]]. simpl in W4.
  exists h4, g4. split; [exact E4|]. split; [exact W4|].
  exact (disconnect_acyclic h3 g1 v c true h4 g4 W3 Hv1 Hc1 E4 A3).
Qed.

(* add_separate_parent_node has the effect of connect_nodes(new, v) on the graph with the new leaf *)
Lemma sep_parent_as_connect : forall h g v nn, WF h g -> In v g ->
  add_separate_parent (h, g) v nn =
  connect_nodes (h ++ [fresh_node nn]) (g ++ [length h]) (length h) v.
Proof.
  intros h g v nn W Hv. unfold add_separate_parent, connect_nodes. cbn [fst snd].
  set (h1 := h ++ [fresh_node nn]). set (n := length h).
  assert (Vv : v < length h) by (apply (wf_valid _ _ W); exact Hv).
  assert (Pv : pars h1 v = pars h v) by (apply pars_app_l; exact Vv).
  assert (Nn : ~ In n g) by (apply (alloc1_new_not_member h g W)).
  assert (M : memb v (node_children h1 (g ++ [n]) n) = false).
  { apply memb_false. intros X. apply node_children_In in X. destruct X as [_ X].
    rewrite Pv in X. apply Nn. eapply (wf_closed _ _ W); eauto. }
  rewrite M.
  assert (U : uniq (get h1 v) = true).
  { unfold h1. rewrite get_app_l by exact Vv. apply (wf_uniq _ _ W). exact Hv. }
  destruct (pars h1 v) as [|q t] eqn:EP; cbn [null]; [|reflexivity].
  unfold set_pars_uniq, set_pars, with_parents, pl_append. rewrite U. cbn [memb existsb andb app]. reflexivity.
Qed.

Lemma add_separate_parent_good : forall h g v nn, WF h g -> acyclic h g -> In v g -> fresh_for (h, g) nn ->
  exists h' g', add_separate_parent (h, g) v nn = Ok (h', g') /\ WF h' g' /\ acyclic h' g'.
Proof.
  intros h g v nn W AC Hv FR. rewrite (sep_parent_as_connect h g v nn W Hv).
  destruct (add_leaf_good h g nn W AC FR) as [W1 [A1 _]].
  set (h1 := h ++ [fresh_node nn]) in *. set (n := length h) in *. set (g1 := g ++ [n]) in *.
  assert (Hv1 : In v g1) by (apply in_or_app; left; exact Hv).
  assert (Hn1 : In n g1) by (apply in_or_app; right; left; reflexivity).
  assert (Nn : ~ In n g) by (apply (alloc1_new_not_member h g W)).
  assert (NR : ~ reach h1 n v).
  { intros R. unfold reach in R. inversion R as [a|a q b Hq _]; subst; [tauto|].
    pose proof (alloc1_pars_new h nn) as X. fold h1 n in X. rewrite X in Hq. destruct Hq. }
  destruct (connect_WF h1 g1 n v W1 Hn1 Hv1) as [h2 [E W2]].
  exists h2, g1. split; [exact E|]. split; [exact W2|].
  exact (connect_acyclic h1 g1 n v h2 g1 W1 Hn1 Hv1 NR E A1).
Qed.

(* add_intermediate_node: the state built by the two nodes_from assignments *)
Lemma add_node_g_known : forall h g n, ~ In n g -> (forall p, In p (pars h n) -> In p g) -> 1 <= length h ->
  add_node_g h g n = Ok (g ++ [n]).
Proof.
  intros h g n N P L. unfold add_node_g. destruct (length h) as [|k] eqn:EL; [lia|].
  cbn [dfs_add]. apply memb_false in N. rewrite N.
  assert (F : forall ps, (forall p, In p ps -> In p g) ->
    fold_left (fun acc p => match acc with Ok g1 => dfs_add (pars h) (S k) g1 p | Raise e => Raise e end)
              ps (Ok (g ++ [n])) = Ok (g ++ [n])).
  { induction ps as [|p t IH]; intros I; [reflexivity|]. cbn [fold_left dfs_add].
    assert (M : memb p (g ++ [n]) = true) by (apply memb_In; apply in_or_app; left; apply I; left; reflexivity).
    rewrite M. apply IH. intros q Hq. apply I. right. exact Hq. }
  apply F. exact P.
Qed.

Lemma reach_step_inv : forall h a b, reach h a b -> a <> b -> exists q, In q (pars h a) /\ reach h q b.
Proof.
  intros h a b R N. unfold reach in R. inversion R as [x|x q y Hq Rq]; subst; [congruence|].
  exists q. split; assumption.
Qed.

Section Intermediate.
  Variables (h : heap) (g : graph) (v : ref) (nn : newnode).
  Hypothesis W : WF h g.
  Hypothesis AC : acyclic h g.
  Hypothesis Hv : In v g.
  Hypothesis FR : fresh_for (h, g) nn.
  Let n := length h.
  Let h1 := h ++ [fresh_node nn].
  Let h3 := set_pars_uniq (set_pars_uniq h1 n (dedupe (pars h1 v))) v [n].
  Let g1 := g ++ [n].

  Let Vv : v < length h. Proof. apply (wf_valid _ _ W). exact Hv. Qed.
  Let Nvn : v <> n. Proof. unfold n. lia. Qed.
  Let Nn : ~ In n g. Proof. apply (alloc1_new_not_member h g W). Qed.
  Let L1 : length h1 = S (length h). Proof. unfold h1. rewrite app_length. simpl. lia. Qed.

  Lemma inter_get : forall x, get h3 x =
    if x =? v then mkNode (uid (get h v)) (label (get h v)) [n] true
    else if x =? n then mkNode (fst nn) (snd nn) (pars h v) true
    else get h1 x.
  Proof.
    intros x. unfold h3, set_pars_uniq. rewrite !get_upd, !length_upd, L1.
    assert (Pv : pars h1 v = pars h v) by (apply pars_app_l; exact Vv).
    assert (G1n : get h1 n = fresh_node nn) by (unfold h1, n; apply get_alloc_new).
    assert (G1v : get h1 v = get h v) by (unfold h1; apply get_app_l; exact Vv).
    destruct (Nat.eqb_spec v x) as [<-|N1].
    - assert (X : (v <? S (length h)) = true) by (apply Nat.ltb_lt; lia). rewrite X. cbn [andb].
      rewrite Nat.eqb_refl. assert (Y : (n =? v) = false) by (apply Nat.eqb_neq; auto). rewrite Y. cbn [andb].
      rewrite G1v. reflexivity.
    - cbn [andb]. assert (Y : (x =? v) = false) by (apply Nat.eqb_neq; auto). rewrite Y.
      destruct (Nat.eqb_spec n x) as [<-|N2].
      + assert (X : (n <? S (length h)) = true) by (apply Nat.ltb_lt; unfold n; lia). rewrite X. cbn [andb].
        rewrite Nat.eqb_refl, G1n, Pv. cbn [fresh_node uid label].
        rewrite dedupe_nodup_id by (apply (wf_pnodup _ _ W); exact Hv). reflexivity.
      + cbn [andb]. assert (Z : (x =? n) = false) by (apply Nat.eqb_neq; auto). rewrite Z. reflexivity.
  Qed.

  Lemma inter_len : length h3 = S (length h).
  Proof. unfold h3, set_pars_uniq. rewrite !length_upd. exact L1. Qed.

  Lemma inter_pars_v : pars h3 v = [n].
  Proof. unfold pars. rewrite inter_get, Nat.eqb_refl. reflexivity. Qed.

  Lemma inter_pars_n : pars h3 n = pars h v.
  Proof.
    unfold pars at 1. rewrite inter_get. assert (Y : (n =? v) = false) by (apply Nat.eqb_neq; auto).
    rewrite Y, Nat.eqb_refl. reflexivity.
  Qed.

  Lemma inter_get_old : forall x, In x g -> x <> v -> get h3 x = get h x.
  Proof.
    intros x Hx N. rewrite inter_get.
    assert (Y : (x =? v) = false) by (apply Nat.eqb_neq; auto). rewrite Y.
    assert (Z : (x =? n) = false) by (apply Nat.eqb_neq; intros ->; tauto). rewrite Z.
    unfold h1. apply get_app_l. apply (wf_valid _ _ W). exact Hx.
  Qed.

  Lemma inter_pars_old : forall x, In x g -> x <> v -> pars h3 x = pars h x.
  Proof. intros. unfold pars. rewrite inter_get_old; auto. Qed.

  Lemma inter_uid : forall x, In x g -> uid (get h3 x) = uid (get h x).
  Proof.
    intros x Hx. destruct (Nat.eq_dec x v) as [->|N]; [|rewrite inter_get_old; auto].
    rewrite inter_get, Nat.eqb_refl. reflexivity.
  Qed.

  Lemma inter_pars_cases : forall x p, In x g1 -> In p (pars h3 x) ->
    (x = v /\ p = n) \/ (x = n /\ In p (pars h v)) \/ (In x g /\ x <> v /\ In p (pars h x)).
  Proof.
    intros x p Hx Hp. apply in_app_or in Hx. destruct Hx as [Hx|[<-|[]]].
    - destruct (Nat.eq_dec x v) as [->|N].
      + rewrite inter_pars_v in Hp. destruct Hp as [<-|[]]. auto.
      + rewrite (inter_pars_old x Hx N) in Hp. auto.
    - rewrite inter_pars_n in Hp. auto.
  Qed.

  Lemma inter_WF : WF h3 g1.
  Proof.
    constructor.
    - intros r p Hr Hp. rewrite inter_len in *. unfold pars in Hp. rewrite inter_get in Hp.
      destruct (r =? v); [destruct Hp as [<-|[]]; unfold n; lia|].
      destruct (r =? n).
      + cbn [parents] in Hp. pose proof (WF_par_valid h g v p W Hv Hp). lia.
      + pose proof (heap_ok_alloc1 h nn (wf_heap _ _ W) r p) as X. fold h1 in X. rewrite L1 in X. apply X; assumption.
    - apply NoDup_snoc; [apply (wf_nodup _ _ W)|exact Nn].
    - intros r Hr. rewrite inter_len. apply in_app_or in Hr. destruct Hr as [Hr|[<-|[]]]; [|unfold n; lia].
      pose proof (wf_valid _ _ W r Hr). lia.
    - intros a b Ha Hb E.
      assert (Un : uid (get h3 n) = fst nn).
      { rewrite inter_get. assert (Y : (n =? v) = false) by (apply Nat.eqb_neq; auto). rewrite Y, Nat.eqb_refl. reflexivity. }
      apply in_app_or in Ha. apply in_app_or in Hb.
      destruct Ha as [Ha|[<-|[]]]; destruct Hb as [Hb|[<-|[]]]; auto.
      + rewrite (inter_uid a Ha), (inter_uid b Hb) in E. apply (wf_uid _ _ W); assumption.
      + rewrite (inter_uid a Ha), Un in E. exfalso. apply (FR a Ha). exact E.
      + rewrite (inter_uid b Hb), Un in E. exfalso. apply (FR b Hb). symmetry. exact E.
    - intros r Hr. apply in_app_or in Hr. destruct Hr as [Hr|[<-|[]]].
      + destruct (Nat.eq_dec r v) as [->|N].
        * rewrite inter_pars_v. constructor; [intros []|constructor].
        * rewrite (inter_pars_old r Hr N). apply (wf_pnodup _ _ W). exact Hr.
      + rewrite inter_pars_n. apply (wf_pnodup _ _ W). exact Hv.
    - intros r Hr. rewrite inter_get. destruct (r =? v); [reflexivity|]. destruct (r =? n) eqn:E; [reflexivity|].
      apply in_app_or in Hr. destruct Hr as [Hr|[<-|[]]]; [|rewrite Nat.eqb_refl in E; discriminate].
      unfold h1. rewrite get_app_l by (apply (wf_valid _ _ W); exact Hr). apply (wf_uniq _ _ W). exact Hr.
    - intros r p Hr Hp. destruct (inter_pars_cases r p Hr Hp) as [[_ ->]|[[_ X]|[A [_ X]]]].
      + apply in_or_app. right. left. reflexivity.
      + apply in_or_app. left. eapply (wf_closed _ _ W); eauto.
      + apply in_or_app. left. eapply (wf_closed _ _ W); eauto.
  Qed.

  (* contracting the new node into v maps paths of the new graph to paths of the old one *)
  Let f (x : ref) : ref := if x =? n then v else x.

  Lemma inter_reach : forall a b, reach h3 a b -> In a g1 -> reach h (f a) (f b) /\ In b g1.
  Proof.
    intros a b R. unfold reach in *. induction R as [a|a p b Hp Hr IHr]; intros Ha.
    - split; [constructor|exact Ha].
    - assert (Hpg : In p g1) by (eapply (wf_closed _ _ inter_WF); eauto).
      destruct (IHr Hpg) as [R1 Hb]. split; [|exact Hb].
      destruct (inter_pars_cases a p Ha Hp) as [[-> ->]|[[-> X]|[A [N X]]]].
      + unfold f at 1. assert (Y : (v =? n) = false) by (apply Nat.eqb_neq; auto). rewrite Y.
        unfold f in R1 at 1. rewrite Nat.eqb_refl in R1. exact R1.
      + unfold f at 1. rewrite Nat.eqb_refl. econstructor; [exact X|].
        assert (Z : f p = p).
        { unfold f. assert (p <> n) by (intros ->; apply Nn; eapply (wf_closed _ _ W); eauto).
          apply Nat.eqb_neq in H. rewrite H. reflexivity. }
        rewrite Z in R1. exact R1.
      + assert (Za : f a = a).
        { unfold f. assert (a <> n) by (intros ->; tauto). apply Nat.eqb_neq in H. rewrite H. reflexivity. }
        assert (Zp : f p = p).
        { unfold f. assert (p <> n) by (intros ->; apply Nn; eapply (wf_closed _ _ W); eauto).
          apply Nat.eqb_neq in H. rewrite H. reflexivity. }
        rewrite Za. rewrite Zp in R1. econstructor; eauto.
  Qed.

  Lemma inter_acyclic : acyclic h3 g1.
  Proof.
    intros r Hr x Rx [p [Hp Rp]]. unfold edge in Hp.
    destruct (inter_reach r x Rx Hr) as [_ Hx].
    assert (Hpg : In p g1) by (eapply (wf_closed _ _ inter_WF); eauto).
    destruct (inter_reach p x Rp Hpg) as [R1 _].
    assert (fv : f v = v) by (unfold f; assert (Y : (v =? n) = false) by (apply Nat.eqb_neq; auto); rewrite Y; reflexivity).
    assert (fn : f n = v) by (unfold f; rewrite Nat.eqb_refl; reflexivity).
    assert (fold_ : forall y, In y g -> f y = y).
    { intros y Hy. unfold f. assert (y <> n) by (intros ->; tauto). apply Nat.eqb_neq in H. rewrite H. reflexivity. }
    destruct (inter_pars_cases x p Hx Hp) as [[-> ->]|[[-> X]|[A [N X]]]].
    - (* v -> n ->* v : n's first step goes to a parent q of v in the old graph *)
      assert (Nnv : n <> v) by auto.
      destruct (reach_step_inv h3 n v Rp Nnv) as [q [Hq Rq]].
      rewrite inter_pars_n in Hq.
      assert (Hqg : In q g) by (eapply (wf_closed _ _ W); eauto).
      destruct (inter_reach q v Rq (in_or_app _ _ _ (or_introl Hqg))) as [R2 _].
      rewrite (fold_ q Hqg), fv in R2.
      apply (AC v Hv v (reach_refl _ _)). exists q. split; assumption.
    - assert (Hpg' : In p g) by (eapply (wf_closed _ _ W); eauto).
      rewrite (fold_ p Hpg'), fn in R1.
      apply (AC v Hv v (reach_refl _ _)). exists p. split; assumption.
    - assert (Hpg' : In p g) by (eapply (wf_closed _ _ W); eauto).
      rewrite (fold_ p Hpg'), (fold_ x A) in R1.
      apply (AC x A x (reach_refl _ _)). exists p. split; assumption.
  Qed.

  Lemma inter_add_node : add_node h3 g n = Ok (h3, g1).
  Proof.
    unfold add_node. rewrite add_node_g_known; [reflexivity|exact Nn| |rewrite inter_len; lia].
    intros p Hp. rewrite inter_pars_n in Hp. eapply (wf_closed _ _ W); eauto.
  Qed.
End Intermediate.

Lemma add_intermediate_good : forall h g v nn, WF h g -> acyclic h g -> In v g -> fresh_for (h, g) nn ->
  exists h' g', add_intermediate (h, g) v nn = Ok (h', g') /\ WF h' g' /\ acyclic h' g'.
Proof.
  intros h g v nn W AC Hv FR. unfold add_intermediate. cbn [fst snd].
  destruct (null (pars (h ++ [fresh_node nn]) v)); [exists h, g; auto|].
  rewrite (inter_add_node h g v nn W Hv).
  eexists. eexists. split; [reflexivity|]. split; [apply inter_WF; assumption|apply inter_acyclic; assumption].
Qed.

(* every strategy step concerns a member, a product with an unused uid, and (add_as_child) a
   child of that member; validity of a step is stated on the state the step meets *)
Definition step_ok (s : state) (st : add_step) : Prop :=
  match st with
  | AsChild v c nn => In v (snd s) /\ fresh_for s nn /\
                      (forall x, c = Some x -> In x (snd s) /\ In v (pars (fst s) x))
  | SepParent v nn => In v (snd s) /\ fresh_for s nn
  | Intermediate v nn => In v (snd s) /\ fresh_for s nn
  end.

Fixpoint steps_ok (steps : list add_step) (s : state) : Prop :=
  match steps with
  | [] => True
  | st :: rest => step_ok s st /\ forall s', run_add_step s st = Ok s' -> steps_ok rest s'
  end.

Lemma run_add_step_good : forall h g st, WF h g -> acyclic h g -> step_ok (h, g) st ->
  exists h' g', run_add_step (h, g) st = Ok (h', g') /\ WF h' g' /\ acyclic h' g'.
Proof.
  intros h g [v c nn|v nn|v nn] W AC H; simpl in H; cbn [run_add_step].
  - destruct H as [Hv [FR HC]]. apply add_as_child_good; assumption.
  - destruct H as [Hv FR]. apply add_separate_parent_good; assumption.
  - destruct H as [Hv FR]. apply add_intermediate_good; assumption.
Qed.

Theorem single_add_ok : forall steps h g, WF h g -> acyclic h g -> steps_ok steps (h, g) ->
  exists h' g', single_add steps (h, g) = Ok (h', g') /\ WF h' g' /\ acyclic h' g'.
Proof.
  induction steps as [|st t IH]; intros h g W AC H; simpl.
  - exists h, g. auto.
  - destruct H as [H1 H2].
    destruct (run_add_step_good h g st W AC H1) as [h1 [g1 [E [W1 A1]]]].
    rewrite E. cbn [bind]. apply IH; auto.
Qed.

Theorem growth_ok : forall c h g, WF h g -> acyclic h g ->
  match c with
  | GAdd steps => steps_ok steps (h, g)
  | GTree t => forall v tr, t = Some (v, tr) -> In v g /\ tree_ok h tr = true
  end ->
  exists h' g', growth c (h, g) = Ok (h', g') /\ WF h' g' /\ acyclic h' g'.
Proof.
  intros [steps|t] h g W AC H; simpl.
  - apply single_add_ok; assumption.
  - apply tree_growth_ok; assumption.
Qed.

(* ------------------------------------------------------------------ single_change keeps the counts *)
From Coq Require Import Permutation.

Lemma same_set_same_length : forall (l l' : list ref), NoDup l -> NoDup l' ->
  (forall y, In y l <-> In y l') -> length l = length l'.
Proof. intros l l' N N' E. apply Permutation_length. apply NoDup_Permutation; assumption. Qed.

(* replacing v by a value that does not occur keeps the length of a duplicate-free list *)
Lemma swap_length : forall (l l' : list ref) v n, NoDup l -> NoDup l' -> ~ In n l ->
  (forall p, In p l' <-> (p = n /\ In v l) \/ (In p l /\ p <> v)) -> length l' = length l.
Proof.
  intros l l' v n N N' Hn E.
  set (sw := fun y => if y =? v then n else y).
  transitivity (length (map sw l)); [|apply map_length]. apply same_set_same_length; [exact N'| |].
  - apply map_inj_nodup; [|exact N]. intros x y Hx Hy. unfold sw.
    destruct (Nat.eqb_spec x v) as [Ex|Nx]; destruct (Nat.eqb_spec y v) as [Ey|Ny]; intros X.
    + congruence.
    + exfalso. apply Hn. rewrite X. exact Hy.
    + exfalso. apply Hn. rewrite <- X. exact Hx.
    + exact X.
  - intros p. rewrite E, in_map_iff. unfold sw. split.
    + intros [[-> Hv]|[Hp Np]].
      * exists v. rewrite Nat.eqb_refl. auto.
      * exists p. apply Nat.eqb_neq in Np. rewrite Np. auto.
    + intros [y [Ey Hy]]. destruct (Nat.eqb_spec y v) as [Eq|Ny].
      * left. split; [symmetry; exact Ey|rewrite <- Eq; exact Hy].
      * right. rewrite <- Ey. split; assumption.
Qed.

(* Full statement (kept visible; the missing half is named below):
     replace_node (h, g) v nn = Ok (h', g') ->
     length g' = length g /\ length (edges h' g') = length (edges h g).
   Proved here: nothing is gained - the members of the result are the new object and members of g
   other than v, each former member keeps the number of its parents (v replaced by the new object
   in place), the new object gets as many parents as v had; hence |g'| <= |g|.
   Missing for equality: that sort_nodes (ordered_subnodes_hierarchy of the only sink) lists EVERY
   member, i.e. that nothing is lost; this half is checked on every observed call by the oracle
   clause `same_counts`. *)
Theorem single_change_counts_partial : forall h g v nn h' g', WF h g -> acyclic h g -> In v g ->
  fresh_for (h, g) nn -> replace_node (h, g) v nn = Ok (h', g') ->
  let n := length h in
  (forall x, In x g' -> x = n \/ (In x g /\ x <> v)) /\
  length g' <= length g /\
  (forall x, In x g' -> x <> n -> length (pars h' x) = length (pars h x)) /\
  (In n g' -> length (pars h' n) = length (pars h v)).
Proof.
  intros h g v nn h' g' W AC Hv FR E n. unfold replace_node in E. cbn [fst snd] in E.
  pose proof (alloc1_WF h g nn W) as W1.
  pose proof (alloc1_guard_upd h g nn W FR v Hv) as G.
  set (h1 := h ++ [fresh_node nn]) in *. fold n in E, G.
  destruct (update_node_facts h1 g v n W1 G) as [h2 [g3 [E' [W' [[L2 F1] [FG [FN [FO FM]]]]]]]].
  rewrite E in E'. inversion E'; subst h2 g3. clear E'.
  assert (Nn : ~ In n g) by (apply (alloc1_new_not_member h g W)).
  assert (Pold : forall x, In x g -> pars h1 x = pars h x).
  { intros x Hx. apply pars_app_l. apply (wf_valid _ _ W). exact Hx. }
  assert (Pn : pars h1 n = []) by (apply (alloc1_pars_new h nn)).
  assert (Nvv : ~ In v (pars h v)).
  { intros X. apply (AC v Hv v (reach_refl _ _)). exists v. split; [exact X|constructor]. }
  assert (PN : forall p, In p (pars h' n) <-> In p (pars h v)).
  { intros p. rewrite FN, Pn, (Pold v Hv). split.
    - intros [[]|[[_ X]|[X _]]]; [tauto|exact X].
    - intros X. right. right. split; [exact X|]. intros ->. tauto. }
  assert (CL : forall x p, (x = n \/ (In x g /\ x <> v)) -> In p (pars h' x) -> p = n \/ (In p g /\ p <> v)).
  { intros x p [->|[Hx Nx]] Hp.
    - apply PN in Hp. right. split; [eapply (wf_closed _ _ W); eauto|]. intros ->. tauto.
    - apply (FG x Hx) in Hp. rewrite (Pold x Hx) in Hp. destruct Hp as [[-> _]|[Hp Np]]; [auto|].
      right. split; [eapply (wf_closed _ _ W); eauto|exact Np]. }
  assert (M : forall x, In x g' -> x = n \/ (In x g /\ x <> v)).
  { intros x Hx. destruct (FM x Hx) as [A|R]; [auto|].
    exact (reach_closed_set h' (fun y => y = n \/ (In y g /\ y <> v)) n x R (or_introl eq_refl) CL). }
  split; [exact M|]. split; [|split].
  - destruct (list_remove_ok v g Hv) as [g1 E1].
    pose proof (list_remove_length _ _ _ E1) as LG.
    assert (I : incl g' (n :: g1)).
    { intros x Hx. destruct (M x Hx) as [->|[A B]]; [left; reflexivity|right].
      eapply list_remove_other; eauto. }
    pose proof (NoDup_incl_length (wf_nodup _ _ W') I) as X. simpl in X. unfold ref in *. lia.
  - intros x Hx' Nx. destruct (M x Hx') as [->|[Hx Nxv]]; [congruence|].
    apply (swap_length (pars h x) (pars h' x) v n).
    + apply (wf_pnodup _ _ W). exact Hx.
    + apply (wf_pnodup _ _ W'). exact Hx'.
    + intros X. apply Nn. eapply (wf_closed _ _ W); eauto.
    + intros p. rewrite (FG x Hx), (Pold x Hx). tauto.
  - intros Hn'. apply same_set_same_length.
    + apply (wf_pnodup _ _ W'). exact Hn'.
    + apply (wf_pnodup _ _ W). exact Hv.
    + exact PN.
Qed.
