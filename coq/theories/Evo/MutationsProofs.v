(* C17 - proofs about the mutation models of Evo/Mutations.v.
   They rest on the per-operation theorems of property C04 (Graph/OpsProofs*.v: well-formedness,
   Graph/OpsChar.v: exact results, Graph/OpsAcyclic.v: acyclicity). *)
From Coq Require Import List Arith Bool Lia.
From GolemV Require Import Graph.Heap Graph.Ops Graph.OpsSpec Graph.OpsBase Graph.OpsDfs Graph.OpsProofs
  Graph.OpsProofs2 Graph.OpsChar Graph.OpsAcyclic Evo.Mutations.
Import ListNotations.

(* ------------------------------------------------------------------ the oracle decides the stated Props *)
Lemma acyc_b_iff : forall h g, WF h g -> (acyc_b h g = true <-> acyclic h g).
Proof. exact acyclic_b_iff. Qed.

Lemma null_false : forall {A} (l : list A), negb (null l) = true <-> l <> [].
Proof. intros A [|x t]; simpl; split; congruence. Qed.

Lemma in_domain_iff : forall h g,
  in_domain (h, g) = true <-> WF h g /\ acyclic h g /\ g <> [].
Proof.
  intros h g. unfold in_domain. simpl. rewrite !andb_true_iff, wf_b_iff, null_false. split.
  - intros [[W A] N]. split; [exact W|]. split; [apply acyc_b_iff; assumption|exact N].
  - intros [W [A N]]. split; [split; [exact W|apply acyc_b_iff; assumption]|exact N].
Qed.

(* what a `true` of the oracle on an observed call means *)
Theorem mut_holds_b_sound : forall k h g h' g',
  mut_holds_b k (h, g) (OOk h' g') = true -> WF h g -> acyclic h g -> g <> [] ->
  WF h' g' /\ acyclic h' g' /\ clause_b k h g h' g' = true.
Proof.
  intros k h g h' g' H W A N. unfold mut_holds_b in H.
  assert (D : in_domain (h, g) = true) by (apply in_domain_iff; auto).
  rewrite D in H. simpl in H. rewrite !andb_true_iff in H. destruct H as [[H1 H2] H3].
  apply wf_b_iff in H1. split; [exact H1|]. split; [apply acyc_b_iff; assumption|exact H3].
Qed.

Theorem mut_holds_b_complete : forall k h g h' g',
  WF h' g' -> acyclic h' g' -> clause_b k h g h' g' = true -> mut_holds_b k (h, g) (OOk h' g') = true.
Proof.
  intros k h g h' g' W A C. unfold mut_holds_b. destruct (in_domain (h, g)); [|reflexivity].
  simpl. rewrite C, !andb_true_r. apply andb_true_iff. split; [apply wf_b_iff; exact W|apply acyc_b_iff; assumption].
Qed.

(* an exception inside the domain is a violation *)
Theorem mut_holds_b_raise : forall k s, in_domain s = true -> mut_holds_b k s ORaise = false.
Proof. intros k s D. unfold mut_holds_b. rewrite D. reflexivity. Qed.

(* the clauses *)
Lemma list_eqb_eq : forall a b, list_eqb a b = true <-> a = b.
Proof.
  induction a as [|x a IH]; intros [|y b]; simpl; split; try congruence.
  - rewrite andb_true_iff, Nat.eqb_eq, IH. intros [-> ->]. reflexivity.
  - intros E. inversion E; subst. rewrite Nat.eqb_refl. simpl. apply IH. reflexivity.
Qed.

Lemma node_same_eq : forall a b, node_same a b = true <-> a = b.
Proof.
  intros [u l p q] [u' l' p' q']. unfold node_same. simpl.
  rewrite !andb_true_iff, !Nat.eqb_eq, list_eqb_eq, eqb_true_iff. split.
  - intros [[[-> ->] ->] ->]. reflexivity.
  - intros E. inversion E; subst. auto.
Qed.

(* "untouched": the same member list, every member object exactly as before *)
Lemma untouched_iff : forall h g h' g',
  untouched h g h' g' = true <-> g' = g /\ forall r, In r g -> get h' r = get h r.
Proof.
  intros. unfold untouched. rewrite andb_true_iff, list_eqb_eq, forallb_forall. split.
  - intros [-> H]. split; [reflexivity|]. intros r Hr. symmetry. apply node_same_eq. apply H. exact Hr.
  - intros [-> H]. split; [reflexivity|]. intros r Hr. apply node_same_eq. symmetry. apply H. exact Hr.
Qed.

(* ------------------------------------------------------------------ no_mutation *)
Theorem none_identity : forall s, no_mutation s = Ok s.
Proof. reflexivity. Qed.

(* ------------------------------------------------------------------ paths longer than the heap contain a cycle *)
(* deep h k x : a chain of k parent links starts at x *)
Fixpoint deep (h : heap) (k : nat) (x : ref) : Prop :=
  match k with
  | O => True
  | S k' => exists p, In p (pars h x) /\ deep h k' p
  end.

Lemma deep_cycle : forall h, heap_ok h -> forall k x V,
  x < length h -> NoDup V -> (forall v, In v V -> v < length h /\ tc h v x) ->
  length h <= length V + k -> deep h k x -> exists y, reach h x y /\ on_cycle h y.
Proof.
  intros h HK. induction k as [|k IH]; intros x V Vx ND HV L D.
  - destruct (in_dec Nat.eq_dec x V) as [I|I].
    + exists x. split; [constructor|]. apply on_cycle_tc. apply HV. exact I.
    + exfalso. assert (ND' : NoDup (x :: V)) by (constructor; assumption).
      assert (IN : incl (x :: V) (seq 0 (length h))).
      { intros v [<-|Hv]; apply in_seq; [lia|]. destruct (HV v Hv). lia. }
      pose proof (NoDup_incl_length ND' IN) as X. rewrite seq_length in X. simpl in X. unfold ref in *. lia.
  - destruct (in_dec Nat.eq_dec x V) as [I|I].
    + exists x. split; [constructor|]. apply on_cycle_tc. apply HV. exact I.
    + destruct D as [p [Hp Dp]].
      destruct (IH p (x :: V)) as [y [Ry Cy]].
      * eapply HK; eauto.
      * constructor; assumption.
      * intros v [<-|Hv].
        -- split; [exact Vx|apply tc_edge; exact Hp].
        -- destruct (HV v Hv) as [A B]. split; [exact A|]. eapply tc_then_reach; [exact B|].
           econstructor; [exact Hp|constructor].
      * simpl. lia.
      * exact Dp.
      * exists y. split; [econstructor; eauto|exact Cy].
Qed.

Lemma acyclic_not_deep : forall h x, heap_ok h -> x < length h -> acyclic_from h x -> ~ deep h (length h) x.
Proof.
  intros h x HK Vx AC D.
  destruct (deep_cycle h HK (length h) x [] Vx (NoDup_nil _)) as [y [Ry Cy]]; auto.
  - intros v [].
  - exact (AC y Ry Cy).
Qed.

(* ------------------------------------------------------------------ single_edge_mutation *)
(* the ancestor walk answers True only when the target is none of the walked ancestors *)
Lemma levels_sound : forall fuel h ps tgt, levels_ok fuel h ps tgt = Ok true ->
  forall x, In x ps -> ~ reach h x tgt.
Proof.
  induction fuel as [|k IH]; intros h ps tgt E; [discriminate|]. simpl in E.
  destruct ps as [|p ps']; [intros x []|].
  destruct (memb tgt (p :: ps')) eqn:M; [discriminate|].
  intros x Hx R. unfold reach in R. inversion R as [a|a q b Hq Rq]; subst.
  - apply memb_false in M. apply M. exact Hx.
  - apply (IH _ _ _ E q); [|exact Rq]. apply in_flat_map. exists x. split; assumption.
Qed.

(* ... and it always answers when no chain of |heap| links starts at a walked node *)
Lemma levels_total : forall k h ps tgt, (forall x, In x ps -> ~ deep h k x) ->
  exists b, levels_ok (S k) h ps tgt = Ok b.
Proof.
  induction k as [|k IH]; intros h ps tgt H; simpl.
  - destruct ps as [|p ps']; [eexists; reflexivity|]. exfalso. apply (H p); simpl; auto.
  - destruct ps as [|p ps']; [eexists; reflexivity|].
    destruct (memb tgt (p :: ps')); [eexists; reflexivity|].
    apply IH. intros y Hy D. apply in_flat_map in Hy. destruct Hy as [x [Hx Hy]].
    apply (H x Hx). exists y. split; assumption.
Qed.

Lemma not_cycling_total : forall h g src tgt, WF h g -> acyclic h g -> In src g ->
  exists b, nodes_not_cycling h src tgt = Ok b.
Proof.
  intros h g src tgt W AC Hs. unfold nodes_not_cycling. apply levels_total.
  intros x Hx. apply acyclic_not_deep.
  - apply (wf_heap _ _ W).
  - eapply WF_par_valid; eauto.
  - intros y Ry. apply (AC src Hs). econstructor; eauto.
Qed.

Lemma not_cycling_sound : forall h src tgt, nodes_not_cycling h src tgt = Ok true -> src <> tgt ->
  ~ reach h src tgt.
Proof.
  intros h src tgt E N R. unfold reach in R. inversion R as [a|a q b Hq Rq]; subst; [congruence|].
  exact (levels_sound _ _ _ _ E q Hq Rq).
Qed.

Definition att_ok (g : graph) (a : attempt) : Prop :=
  match a with Gate => True | Try s t => In s g /\ In t g /\ s <> t end.

(* the parent links of h' are those of h plus the link tgt -> src *)
Definition edge_added (h h' : heap) (src tgt : ref) : Prop :=
  forall r q, In q (pars h' r) <-> In q (pars h r) \/ (r = tgt /\ q = src).

(* For every list of attempts (sample(graph.nodes, 2) yields two distinct members): the function
   returns; the member list is the same list; the result is well-formed and acyclic; uid, label
   and container kind of every object are unchanged; either nothing changed or exactly one
   parent link tgt -> src that was not there was added. *)
Theorem single_edge_ok : forall atts h g, WF h g -> acyclic h g -> Forall (att_ok g) atts ->
  exists h', single_edge atts (h, g) = Ok (h', g) /\ WF h' g /\ acyclic h' g /\ same_fields h h' /\
    (h' = h \/ exists src tgt, In src g /\ In tgt g /\ src <> tgt /\ ~ In src (pars h tgt) /\
                               ~ reach h src tgt /\ edge_added h h' src tgt).
Proof.
  induction atts as [|a atts IH]; intros h g W AC F.
  - exists h. simpl. split; [reflexivity|]. split; [exact W|]. split; [exact AC|]. split; [apply same_fields_refl|auto].
  - inversion F as [|? ? Fa Ft]; subst. destruct a as [|src tgt].
    + exists h. simpl. split; [reflexivity|]. split; [exact W|]. split; [exact AC|]. split; [apply same_fields_refl|auto].
    + destruct Fa as [Hs [Ht Nst]]. cbn [single_edge fst snd].
      destruct (length g <? 2).
      { exists h. split; [reflexivity|]. split; [exact W|]. split; [exact AC|]. split; [apply same_fields_refl|auto]. }
      destruct (memb src (pars h tgt)) eqn:M; [apply IH; assumption|].
      apply memb_false in M.
      assert (HC : has_cycle h g = false).
      { pose proof (proj2 (acyclic_b_iff h g W) AC) as X. unfold acyclic_b in X. apply negb_true_iff in X. exact X. }
      rewrite HC.
      destruct (not_cycling_total h g src tgt W AC Hs) as [b Eb]. rewrite Eb.
      destruct b; [|apply IH; assumption].
      pose proof (not_cycling_sound h src tgt Eb Nst) as NR.
      destruct (connect_WF h g src tgt W Hs Ht) as [h' [E W']].
      exists h'. split; [exact E|]. split; [exact W'|].
      split; [exact (connect_acyclic h g src tgt h' g W Hs Ht NR E AC)|].
      destruct (connect_char h g src tgt h' g W Hs Ht E) as [_ [SF P]].
      split; [exact SF|]. right. exists src, tgt. repeat (split; [assumption|]). exact P.
Qed.

(* the count form of "adds at most one edge" *)
Lemma edges_length : forall h g, length (edges h g) = fold_right (fun r n => length (pars h r) + n) 0 g.
Proof.
  intros h g. unfold edges. induction g as [|r t IH]; simpl; [reflexivity|].
  rewrite app_length, map_length, IH. reflexivity.
Qed.

(* ------------------------------------------------------------------ single_drop_mutation *)
Lemma two_distinct : forall (g : list ref) n, NoDup g -> 2 <= length g -> exists r, In r g /\ r <> n.
Proof.
  intros [|a [|b t]] n ND L; simpl in L; try lia.
  inversion ND as [|? ? Ha _]; subst.
  destruct (Nat.eq_dec a n) as [->|N].
  - exists b. split; [simpl; auto|]. intros ->. apply Ha. simpl. auto.
  - exists a. split; [simpl; auto|exact N].
Qed.

Lemma all_or_missing : forall (g sub : list ref),
  (forall r, In r g -> In r sub) \/ exists r, In r g /\ ~ In r sub.
Proof.
  induction g as [|a t IH]; intros sub; [left; intros r []|].
  destruct (in_dec Nat.eq_dec a sub) as [I|I].
  - destruct (IH sub) as [A|[r [A B]]]; [left|right].
    + intros r [<-|Hr]; auto.
    + exists r. split; [right; exact A|exact B].
  - right. exists a. split; [left; reflexivity|exact I].
Qed.

Lemma delete_node_good : forall h g n m, WF h g -> acyclic h g -> In n g -> 2 <= length g ->
  exists h' g', delete_node h g n m = Ok (h', g') /\ WF h' g' /\ acyclic h' g' /\ g' <> [] /\
    (forall r, In r g' <-> In r g /\ r <> n).
Proof.
  intros h g n m W AC Hn L.
  destruct (delete_node_WF h g n m W Hn) as [[h' g'] [E W']]. simpl in W'.
  exists h', g'. split; [exact E|]. split; [exact W'|].
  split; [exact (delete_node_acyclic h g n m h' g' W Hn E AC)|].
  destruct (delete_node_char h g n m h' g' W Hn E) as [_ [M _]].
  split; [|exact M].
  destruct (two_distinct g n (wf_nodup _ _ W) L) as [r [Hr Nr]].
  intros ->. apply (M r). split; assumption.
Qed.

Lemma delete_all_good : forall extra h g, WF h g -> acyclic h g -> g <> [] ->
  NoDup extra -> (forall c, In c extra -> In c g) ->
  exists h' g', delete_all extra (h, g) = Ok (h', g') /\ WF h' g' /\ acyclic h' g' /\ g' <> [].
Proof.
  induction extra as [|c t IH]; intros h g W AC N ND I; simpl.
  - exists h, g. auto.
  - inversion ND as [|? ? Hc NDt]; subst.
    destruct (Nat.ltb_spec 1 (length g)) as [L|L].
    + destruct (delete_node_good h g c RAll W AC (I c (or_introl eq_refl)) L) as [h1 [g1 [E [W1 [A1 [N1 M1]]]]]].
      rewrite E. cbn [bind]. apply IH; auto.
      intros x Hx. apply M1. split; [apply I; right; exact Hx|]. intros ->. tauto.
    + apply IH; auto. intros x Hx. apply I. right. exact Hx.
Qed.

(* v = choice(graph.nodes) is a member; the nodes picked by the data_source filter are distinct
   members other than v.  For EVERY advice the function returns a non-empty well-formed acyclic graph. *)
Theorem single_drop_ok : forall v adv extra h g, WF h g -> acyclic h g -> g <> [] -> In v g ->
  NoDup extra -> (forall c, In c extra -> In c g /\ c <> v) ->
  exists h' g', single_drop v adv extra (h, g) = Ok (h', g') /\ WF h' g' /\ acyclic h' g' /\ g' <> [].
Proof.
  intros v adv extra h g W AC N Hv ND I. unfold single_drop. cbn [fst snd].
  destruct (Nat.ltb_spec (length g) 2) as [L|L]; [exists h, g; auto|].
  destruct adv.
  - exists h, g. auto.
  - destruct (delete_node_good h g v RNone W AC Hv L) as [h' [g' [E [W' [A' [N' _]]]]]]. exists h', g'. auto.
  - destruct (delete_node_good h g v RAll W AC Hv L) as [h' [g' [E [W' [A' [N' _]]]]]]. exists h', g'. auto.
  - destruct (delete_node_good h g v RSingle W AC Hv L) as [h1 [g1 [E [W1 [A1 [N1 M1]]]]]].
    rewrite E. cbn [bind]. apply delete_all_good; auto.
    intros c Hc. apply M1. apply I. exact Hc.
  - assert (Vv : v < length h) by (apply (wf_valid _ _ W); exact Hv).
    destruct (hierarchy_ok h v (wf_heap _ _ W) Vv (AC v Hv)) as [sub Es]. rewrite Es. cbn [bind].
    destruct (Nat.ltb_spec (length sub) (length g)) as [Ls|Ls]; [|exists h, g; auto].
    assert (K : is_ok (hierarchy h v) = true) by (rewrite Es; reflexivity).
    destruct (delete_subtree_WF h g v W Hv K) as [[h' g'] [E W']]. simpl in W'.
    exists h', g'. split; [exact E|]. split; [exact W'|].
    split; [exact (delete_subtree_acyclic h g v h' g' W Hv E AC)|].
    destruct (delete_subtree_char h g v h' g' W Hv E) as [_ [_ [M _]]].
    destruct (hierarchy_spec h v sub Es) as [NDs [_ [_ RS]]].
    destruct (all_or_missing g sub) as [A|[r [Hr Nr]]].
    + exfalso. pose proof (NoDup_incl_length (wf_nodup _ _ W) A). unfold ref in *. lia.
    + intros ->. apply (M r). split; [exact Hr|]. intros R. apply Nr. apply RS. exact R.
Qed.

(* the default advisor (node_rewire) on a graph with at least two nodes removes exactly the chosen node *)
Theorem single_drop_default : forall v extra h g, WF h g -> acyclic h g -> In v g -> 2 <= length g ->
  exists h' g', single_drop v ARewire extra (h, g) = Ok (h', g') /\
    (forall r, In r g' <-> In r g /\ r <> v) /\ g' <> [].
Proof.
  intros v extra h g W AC Hv L. unfold single_drop. cbn [fst snd].
  destruct (Nat.ltb_spec (length g) 2) as [X|X]; [lia|].
  destruct (delete_node_good h g v RAll W AC Hv L) as [h' [g' [E [_ [_ [N' M]]]]]]. exists h', g'. auto.
Qed.

(* ------------------------------------------------------------------ allocating factory products *)
Lemma get_alloc_new : forall h nd, get (h ++ [nd]) (length h) = nd.
Proof. intros. replace (length h) with (length h + 0) by lia. rewrite get_app_r. reflexivity. Qed.

Lemma heap_ok_alloc1 : forall h nn, heap_ok h -> heap_ok (h ++ [fresh_node nn]).
Proof.
  intros h nn HK r p Hr Hp. rewrite app_length in *. simpl in *.
  destruct (Nat.lt_ge_cases r (length h)) as [L|L].
  - rewrite pars_app_l in Hp by exact L. pose proof (HK r p L Hp). lia.
  - assert (r = length h) by lia. subst r. unfold pars in Hp. rewrite get_alloc_new in Hp. destruct Hp.
Qed.

Lemma acyclic_app : forall h g h2, WF h g -> acyclic h g -> acyclic (h ++ h2) g.
Proof.
  intros h g h2 W AC r Hr.
  apply (acyclic_from_local h (h ++ h2) (fun x => x < length h) r).
  - apply (wf_valid _ _ W). exact Hr.
  - intros x p Hx Hp. eapply (wf_heap _ _ W); eauto.
  - intros x Hx. apply pars_app_l. exact Hx.
  - apply AC. exact Hr.
Qed.

Lemma closure_leaf : forall h n, pars h n = [] -> closure h n = Ok [n].
Proof. intros h n H. unfold closure, add_node_g. simpl. rewrite H. reflexivity. Qed.

Lemma hierarchy_leaf : forall h n, pars h n = [] -> hierarchy h n = Ok [n].
Proof. intros h n H. unfold hierarchy. simpl. rewrite H. reflexivity. Qed.

(* the state after `new = factory(...)`: one more object, same graph *)
Section Alloc1.
  Variables (h : heap) (g : graph) (nn : newnode).
  Hypothesis W : WF h g.
  Hypothesis FR : forall r, In r g -> uid (get h r) <> fst nn.
  Let h1 := h ++ [fresh_node nn].
  Let n := length h.

  Lemma alloc1_WF : WF h1 g.
  Proof. apply WF_app; [exact W|]. apply heap_ok_alloc1. apply (wf_heap _ _ W). Qed.

  Lemma alloc1_new_not_member : ~ In n g.
  Proof. intros X. pose proof (wf_valid _ _ W n X). unfold n in *. lia. Qed.

  Lemma alloc1_pars_new : pars h1 n = [].
  Proof. unfold pars, h1, n. rewrite get_alloc_new. reflexivity. Qed.

  Lemma alloc1_valid : n < length h1.
  Proof. unfold h1, n. rewrite app_length. simpl. lia. Qed.

  Lemma alloc1_get_old : forall r, In r g -> get h1 r = get h r.
  Proof. intros r Hr. apply get_app_l. apply (wf_valid _ _ W). exact Hr. Qed.

  Lemma alloc1_ins_ok : ins_ok h1 g [n] = true.
  Proof.
    unfold ins_ok. apply andb_true_iff. split.
    - simpl. rewrite alloc1_pars_new. unfold h1, n. rewrite get_alloc_new. reflexivity.
    - assert (F : filter (fun r => negb (memb r g)) [n] = [n]).
      { simpl. pose proof alloc1_new_not_member as X. apply memb_false in X. rewrite X. reflexivity. }
      rewrite F. apply uid_inj_b_iff. intros a b Ha Hb E.
      apply in_app_or in Ha. apply in_app_or in Hb.
      assert (Un : uid (get h1 n) = fst nn) by (unfold h1, n; rewrite get_alloc_new; reflexivity).
      destruct Ha as [Ha|[<-|[]]]; destruct Hb as [Hb|[<-|[]]]; auto.
      + rewrite (alloc1_get_old a Ha), (alloc1_get_old b Hb) in E. apply (wf_uid _ _ W); assumption.
      + rewrite (alloc1_get_old a Ha), Un in E. exfalso. eapply FR; eauto.
      + rewrite (alloc1_get_old b Hb), Un in E. exfalso. eapply FR; eauto.
  Qed.

  Lemma alloc1_guard_upd : forall v, In v g -> guard_b (h1, g) (OUpdNode v n) = true.
  Proof.
    intros v Hv. unfold guard_b. cbn [fst snd]. rewrite (closure_leaf h1 n alloc1_pars_new).
    apply andb_true_iff; split; [apply andb_true_iff; split; [apply andb_true_iff; split|]|].
    - apply memb_In. exact Hv.
    - apply Nat.ltb_lt. exact alloc1_valid.
    - apply negb_true_iff. apply memb_false. exact alloc1_new_not_member.
    - exact alloc1_ins_ok.
  Qed.

  Lemma alloc1_acyc_guard_upd : forall v, acyc_guard_b (h1, g) (OUpdNode v n) = true.
  Proof.
    intros v. unfold acyc_guard_b. cbn [fst snd].
    rewrite (closure_leaf h1 n alloc1_pars_new), (hierarchy_leaf h1 n alloc1_pars_new).
    cbn [is_ok andb forallb]. rewrite andb_true_r. apply negb_true_iff. apply memb_false.
    exact alloc1_new_not_member.
  Qed.

  Lemma alloc1_guard_add : guard_b (h1, g) (OAdd n) = true.
  Proof.
    unfold guard_b. cbn [fst snd]. rewrite (closure_leaf h1 n alloc1_pars_new).
    apply andb_true_iff. split; [apply Nat.ltb_lt; exact alloc1_valid|exact alloc1_ins_ok].
  Qed.
End Alloc1.

(* ------------------------------------------------------------------ single_change_mutation, simple_mutation *)
(* update_node(v, factory product): v a member, the product's uid not used in the graph *)
Lemma replace_node_good : forall h g v nn, WF h g -> acyclic h g -> In v g ->
  (forall r, In r g -> uid (get h r) <> fst nn) ->
  exists h' g', replace_node (h, g) v nn = Ok (h', g') /\ WF h' g' /\ acyclic h' g'.
Proof.
  intros h g v nn W AC Hv FR. unfold replace_node. cbn [fst snd].
  pose proof (alloc1_WF h g nn W) as W1.
  pose proof (alloc1_guard_upd h g nn W FR v Hv) as G.
  pose proof (alloc1_acyc_guard_upd h g nn W v) as AG.
  destruct (update_node_WF _ _ _ _ W1 G) as [[h' g'] [E W']]. simpl in W'.
  exists h', g'. split; [exact E|]. split; [exact W'|].
  exact (update_node_acyclic _ _ _ _ h' g' W1 G AG E (acyclic_app h g _ W AC)).
Qed.

Definition fresh_for (s : state) (nn : newnode) : Prop :=
  forall r, In r (snd s) -> uid (get (fst s) r) <> fst nn.

(* every exchange_node call concerns a member; a product (if any) carries an unused uid *)
Theorem single_change_ok : forall tries h g, WF h g -> acyclic h g ->
  (forall v nn, In (v, Some nn) tries -> In v g /\ fresh_for (h, g) nn) ->
  exists h' g', single_change tries (h, g) = Ok (h', g') /\ WF h' g' /\ acyclic h' g'.
Proof.
  induction tries as [|[v [nn|]] t IH]; intros h g W AC H; simpl.
  - exists h, g. auto.
  - destruct (H v nn (or_introl eq_refl)) as [Hv FR]. apply replace_node_good; assumption.
  - apply IH; auto. intros v' nn' X. apply H. right. exact X.
Qed.

(* the replacements of simple_mutation, one after the other; validity of a step is stated on
   the state that step meets *)
Fixpoint changes_ok (changes : list (ref * newnode)) (s : state) : Prop :=
  match changes with
  | [] => True
  | (v, nn) :: rest => In v (snd s) /\ fresh_for s nn /\
                       forall s', replace_node s v nn = Ok s' -> changes_ok rest s'
  end.

Theorem simple_mutation_ok : forall changes h g, WF h g -> acyclic h g -> changes_ok changes (h, g) ->
  exists h' g', simple_mutation changes (h, g) = Ok (h', g') /\ WF h' g' /\ acyclic h' g'.
Proof.
  induction changes as [|[v nn] t IH]; intros h g W AC H; simpl.
  - exists h, g. auto.
  - destruct H as [Hv [FR K]]. simpl in Hv.
    destruct (replace_node_good h g v nn W AC Hv FR) as [h1 [g1 [E [W1 A1]]]].
    rewrite E. cbn [bind]. apply IH; auto.
Qed.
