(* Model of ReproductionController.reproduce (golem/core/optimisers/genetic/operators/
   reproduction.py, property C16).  Definitions only.
   Oracles: `partial i size` = what reproduce_uncontrolled (selection, crossover, mutation and
   the evaluator, which may drop individuals) returns at attempt i when asked for `size`
   individuals; `under i size` = the binary64 quotient residual / mean_success_rate fell just
   below an exactly integral value (only consulted when the exact quotient is an integer). *)
From Coq Require Import List Bool Arith ZArith QArith Qround.
From GolemV Require Import Fitness.Fitness Evo.Selection.
Import ListNotations.
Local Open Scope nat_scope.

Record rparams := {
  r_target : nat;        (* parameters.pop_size *)
  r_ratio : Q;           (* parameters.required_valid_ratio *)
  r_min_pop : nat;       (* MIN_POP_SIZE = 5 *)
  r_attempts : nat       (* EVALUATION_ATTEMPTS_NUMBER = 5 *)
}.

Inductive rres := RetOk (l : list ind) | RaiseAttempts.   (* EvaluationAttemptsError *)

Definition qnat (n : nat) : Q := inject_Z (Z.of_nat n).
Definition qsum (w : list Q) : Q := fold_right Qplus (0 # 1)%Q w.
(* float(np.mean(window)) *)
Definition mean (w : list Q) : Q := (qsum w / qnat (length w))%Q.
(* int(x): truncation towards zero *)
Definition py_int (q : Q) : Z := if Qle_bool (0 # 1) q then Qfloor q else Qceiling q.
Definition is_integral (q : Q) : bool := Qeq_bool (inject_Z (Qfloor q)) q.

(* min(len(population), max(MIN_POP_SIZE, int((target - len(collected)) / mean_success_rate))) *)
Definition req_size (p : rparams) (pop_len n_collected : nat) (w : list Q) (under : bool) : nat :=
  let residual := (Z.of_nat (r_target p) - Z.of_nat n_collected)%Z in
  let q := (inject_Z residual / mean w)%Q in
  let k := py_int q in
  let k := if under && is_integral q then (k - 1)%Z else k in
  Nat.min pop_len (Z.to_nat (Z.max (Z.of_nat (r_min_pop p)) k)).

(* np.roll(window, 1); window[0] = ratio *)
Definition push_window (x : Q) (w : list Q) : list Q :=
  match w with [] => [] | _ => x :: removelast w end.

Definition min_ratio (p : rparams) : Q := (r_ratio p * (1 # 2))%Q.
Definition enough (p : rparams) (n : nat) : bool := Qle_bool (qnat (r_target p) * r_ratio p) (qnat n).
Definition enough_min (p : rparams) (n : nat) : bool := Qle_bool (qnat (r_target p) * min_ratio p) (qnat n).

Section Reproduce.
  Variable p : rparams.
  Variable pop_len : nat.
  Variable partial : nat -> nat -> list ind.
  Variable under : nat -> nat -> bool.

  (* result, window after the call, the sizes requested attempt by attempt *)
  Fixpoint rloop (fuel i : nat) (collected : list ind) (w : list Q) : rres * list Q * list nat :=
    match fuel with
    | 0 => (if enough_min p (length collected) then RetOk collected else RaiseAttempts, w, [])
    | S f =>
        let rsf := req_size p pop_len (length collected) w false in
        let rs := if under i rsf then req_size p pop_len (length collected) w true else rsf in
        let part := partial i rs in
        let collected' := dict_update collected part in
        let w' := if r_min_pop p <=? length part then push_window (qnat (length part) / qnat rs)%Q w else w in
        if enough p (length collected') then (RetOk (firstn (r_target p) collected'), w', [rs])
        else match rloop f (S i) collected' w' with
             | (r, w'', ss) => (r, w'', rs :: ss)
             end
    end.
  Definition reproduce (w : list Q) : rres * list Q * list nat := rloop (r_attempts p) 0 [] w.
End Reproduce.

(* ---------------- correspondence ---------------- *)
Inductive robs := ORet (l : list ind) | OAttemptsError | OOtherError.
Record rcall := {
  c_params : rparams; c_pop_len : nat;
  c_partials : list (list ind);        (* what the evaluator returned, attempt by attempt *)
  c_sizes : list nat;                  (* pop_size requested from selection, attempt by attempt *)
  c_result : robs }.

Definition rres_eqb (r : rres) (o : robs) : bool :=
  match r, o with
  | RetOk l, ORet l' => inds_eqb l l'
  | RaiseAttempts, OAttemptsError => true
  | _, _ => false
  end.
Fixpoint nats_eqb (l r : list nat) : bool :=
  match l, r with
  | [], [] => true
  | a :: l', b :: r' => Nat.eqb a b && nats_eqb l' r'
  | _, _ => false
  end.

Definition call_model (c : rcall) (w : list Q) : rres * list Q * list nat :=
  reproduce (c_params c) (c_pop_len c)
            (fun i _ => nth i (c_partials c) [])
            (fun i rsf => negb (Nat.eqb (nth i (c_sizes c) 0) rsf)) w.

(* a sequence of reproduce calls on one controller (the success-rate window persists) *)
Fixpoint rep_agree (w : list Q) (calls : list rcall) : bool :=
  match calls with
  | [] => true
  | c :: cs => match call_model c w with
               | (r, w', ss) => rres_eqb r (c_result c) && nats_eqb ss (c_sizes c) && rep_agree w' cs
               end
  end.

Definition evaluated (x : ind) : bool := valid (fitness x).

(* the property's clauses on the OBSERVED result of one call *)
Definition rep_holds_call (c : rcall) : bool :=
  match c_result c with
  | ORet l =>
      nodup_uid l && forallb evaluated l &&
      (length l <=? r_target (c_params c)) && enough_min (c_params c) (length l) &&
      subset_b l (concat (c_partials c))
  | OAttemptsError => true
  | OOtherError => false
  end.
Definition rep_holds_b (calls : list rcall) : bool := forallb rep_holds_call calls.
