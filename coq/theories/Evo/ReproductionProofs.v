(* Proofs about the model of ReproductionController.reproduce (property C16). *)
From Coq Require Import List Bool Arith ZArith QArith Qround Lia Lqa Permutation.
From GolemV Require Import Fitness.Fitness Evo.Selection Evo.SelectionProofs Evo.Elitism Evo.ElitismProofs
     Evo.Reproduction.
Import ListNotations.
Local Open Scope nat_scope.

Lemma qnat_le a b : (qnat a <= qnat b)%Q <-> a <= b.
Proof. unfold qnat. rewrite <- Zle_Qle. lia. Qed.
Lemma qnat_lt a b : (qnat a < qnat b)%Q <-> a < b.
Proof. unfold qnat. rewrite <- Zlt_Qlt. lia. Qed.
Lemma qnat_nonneg a : (0 <= qnat a)%Q.
Proof. change 0%Q with (qnat 0). apply qnat_le. lia. Qed.

Definition ratio_ok (p : rparams) : Prop := (0 <= r_ratio p)%Q /\ (r_ratio p <= 1)%Q.

Lemma not_enough_below_target p n : ratio_ok p -> enough p n = false -> n <= r_target p.
Proof.
  intros [R0 R1] E. unfold enough in E.
  assert (H : ~ (qnat (r_target p) * r_ratio p <= qnat n)%Q) by (intros C; apply Qle_bool_iff in C; congruence).
  apply Qnot_le_lt in H. pose proof (qnat_nonneg (r_target p)) as T0.
  assert (qnat n < qnat (r_target p))%Q by nra.
  apply qnat_lt in H0. lia.
Qed.

Lemma enough_min_of_enough p m : ratio_ok p -> enough p m = true -> enough_min p (Nat.min (r_target p) m) = true.
Proof.
  intros [R0 R1] E. unfold enough in E. apply Qle_bool_iff in E. unfold enough_min, min_ratio. apply Qle_bool_iff.
  pose proof (qnat_nonneg (r_target p)) as T0.
  destruct (Nat.min_spec (r_target p) m) as [[_ ->]|[_ ->]]; nra.
Qed.

Section Contract.
  Variable p : rparams.
  Variable pop_len : nat.
  Variable partial : nat -> nat -> list ind.
  Variable under : nat -> nat -> bool.
  Hypothesis R : ratio_ok p.

  Definition from_evaluator (x : ind) : Prop := exists i s, In x (partial i s).

  Definition result_ok (r : rres) : Prop :=
    match r with
    | RetOk l => NoDup (map uid l) /\ length l <= r_target p /\ enough_min p (length l) = true /\
                 forall x, In x l -> from_evaluator x
    | RaiseAttempts => True
    end.

  Lemma rloop_ok fuel : forall i collected w,
    NoDup (map uid collected) -> length collected <= r_target p ->
    (forall x, In x collected -> from_evaluator x) ->
    result_ok (fst (fst (rloop p pop_len partial under fuel i collected w))).
  Proof.
    induction fuel as [|f IH]; intros i collected w ND L F; simpl.
    - destruct (enough_min p (length collected)) eqn:E; simpl; auto.
    - set (rsf := req_size p pop_len (length collected) w false).
      set (rs := if under i rsf then req_size p pop_len (length collected) w true else rsf).
      set (c' := dict_update collected (partial i rs)).
      assert (ND' : NoDup (map uid c')) by (apply dict_update_NoDup, ND).
      assert (F' : forall x, In x c' -> from_evaluator x).
      { intros x Hx. destruct (dict_update_In _ _ _ Hx) as [H|H]; [apply F, H|]. exists i, rs. exact H. }
      destruct (enough p (length c')) eqn:E; simpl.
      + split; [apply firstn_NoDup_map, ND'|]. rewrite firstn_length. split; [lia|]. split.
        * apply enough_min_of_enough; assumption.
        * intros x Hx. apply F'. eapply firstn_incl, Hx.
      + match goal with |- context [rloop p pop_len partial under f (S i) c' ?w'] =>
          specialize (IH (S i) c' w' ND' (not_enough_below_target p _ R E) F');
          destruct (rloop p pop_len partial under f (S i) c' w') as [[r w''] ss] end.
        simpl in *. exact IH.
  Qed.

  Theorem reproduce_contract_g w : result_ok (fst (fst (reproduce p pop_len partial under w))).
  Proof.
    unfold reproduce. apply rloop_ok; [constructor|simpl; lia|intros x []].
  Qed.

  (* everything the evaluator returned during a call, deduplicated by uid *)
  Fixpoint collect_all (i : nat) (ss : list nat) (c : list ind) : list ind :=
    match ss with
    | [] => c
    | s :: ss' => collect_all (S i) ss' (dict_update c (partial i s))
    end.

  (* the dedicated error is raised only after all attempts were used and the distinct
     individuals the evaluator delivered stay below the minimum fraction *)
  Lemma rloop_raise fuel : forall i collected w w' ss,
    rloop p pop_len partial under fuel i collected w = (RaiseAttempts, w', ss) ->
    length ss = fuel /\ enough_min p (length (collect_all i ss collected)) = false.
  Proof.
    induction fuel as [|f IH]; intros i collected w w' ss; simpl.
    - destruct (enough_min p (length collected)) eqn:E; intros H; inversion H; subst. simpl. auto.
    - set (rsf := req_size p pop_len (length collected) w false).
      set (rs := if under i rsf then req_size p pop_len (length collected) w true else rsf).
      destruct (enough p (length (dict_update collected (partial i rs)))); [intros H; inversion H|].
      match goal with |- context [rloop p pop_len partial under f (S i) ?c ?w0] =>
        destruct (rloop p pop_len partial under f (S i) c w0) as [[r w''] ss'] eqn:El end.
      intros H. inversion H; subst. destruct (IH _ _ _ _ _ El) as [L E]. simpl. split; [lia|exact E].
  Qed.

  Theorem reproduce_raise_g w w' ss :
    reproduce p pop_len partial under w = (RaiseAttempts, w', ss) ->
    length ss = r_attempts p /\ enough_min p (length (collect_all 0 ss [])) = false.
  Proof. apply rloop_raise. Qed.
End Contract.

(* the executable clauses hold of the model's result whenever the evaluator returns only
   evaluated individuals *)
Theorem model_rep_holds_call p pop_len parts under w sizes :
  ratio_ok p -> (forall x, In x (concat parts) -> evaluated x = true) ->
  let r := fst (fst (reproduce p pop_len (fun i _ => nth i parts []) under w)) in
  rep_holds_call (Build_rcall p pop_len parts sizes
                    (match r with RetOk l => ORet l | RaiseAttempts => OAttemptsError end)) = true.
Proof.
  intros R Ev r. pose proof (reproduce_contract_g p pop_len (fun i _ => nth i parts []) under R w) as H.
  fold r in H. unfold rep_holds_call. destruct r as [l|]; simpl; [|reflexivity].
  destruct H as (ND & L & E & F).
  assert (I : incl l (concat parts)).
  { intros x Hx. destruct (F x Hx) as (i & s & Hi). apply in_concat. exists (nth i parts []). split; [|exact Hi].
    destruct (Nat.lt_ge_cases i (length parts)) as [Hl|Hl]; [apply nth_In, Hl|].
    rewrite nth_overflow in Hi by exact Hl. destruct Hi. }
  apply nodup_uid_iff in ND. rewrite ND, E, (subset_b_of_incl _ _ I). apply Nat.leb_le in L. rewrite L.
  assert (forallb evaluated l = true) as -> by (apply forallb_forall; intros x Hx; apply Ev, I, Hx).
  reflexivity.
Qed.
