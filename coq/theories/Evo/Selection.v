(* Model of golem/core/optimisers/genetic/operators/selection.py (property C16).
   Definitions only.  Individuals are records (uid, fitness); python Individual.__eq__ is
   equality of uid.  Randomness is an explicit oracle:
     - tournament: per round a list of "choice numbers" from which random.sample is replayed
       (position c mod len of the remaining list, without replacement) - every stream of
       numbers is a well-formed sample and every sample is produced by some stream;
     - SPEA-2 fill branch: a rank function standing for the density term (0 < density <= 1/2,
       so it only breaks ties between equal raw fitness values);
     - SPEA-2 truncation branch: a list of positions standing for the k-th-nearest-neighbour
       truncation (float arithmetic with random pivots: abstracted). *)
From Coq Require Import List Bool Arith QArith.
From GolemV Require Import Fitness.Fitness.
Import ListNotations.
Local Open Scope nat_scope.

Record ind := { uid : nat; fitness : fit }.

(* ---- comparisons the operators perform on fitness objects (an operator that raises is
        treated as "not true"; the correspondence uses one fitness class and one length per
        population, where nothing raises) ---- *)
Definition fit_better (f g : fit) : bool :=            (* f > g *)
  match gt f g with Ok true => true | _ => false end.
Definition fit_dom (f g : fit) : bool :=               (* f.dominates(g) *)
  match dominates f g with Ok true => true | _ => false end.
Definition better (a b : ind) : bool := fit_better (fitness a) (fitness b).
Definition dom (a b : ind) : bool := fit_dom (fitness a) (fitness b).
Definition worse (a b : ind) : bool := lt (fitness a) (fitness b).   (* a.fitness < b.fitness *)

Definition same_uid (a b : ind) : bool := Nat.eqb (uid a) (uid b).
Definition mem_uid (x : ind) (l : list ind) : bool := existsb (same_uid x) l.   (* x in l *)

(* ---- dict keyed by uid, as an association list in insertion order ---- *)
Fixpoint dict_put (d : list ind) (x : ind) : list ind :=
  match d with
  | [] => [x]
  | y :: d' => if same_uid y x then x :: d' else y :: dict_put d' x
  end.
(* d.update({ind.uid: ind for ind in l}) *)
Definition dict_update (d l : list ind) : list ind := fold_left dict_put l d.
(* list({ind.uid: ind for ind in l}.values()) *)
Definition dedup (l : list ind) : list ind := dict_update [] l.

(* ---- list primitives ---- *)
Fixpoint remove_nth {A} (n : nat) (l : list A) : list A :=
  match l, n with
  | [], _ => []
  | _ :: l', 0 => l'
  | x :: l', S n' => x :: remove_nth n' l'
  end.

(* random.sample(l, k) / random.shuffle replayed from choice numbers *)
Fixpoint sample_pick {A} (k : nat) (cs : list nat) (l : list A) : list A :=
  match k with
  | 0 => []
  | S k' =>
      match l with
      | [] => []
      | d :: _ => let c := (hd 0 cs) mod (length l) in
                  nth c l d :: sample_pick k' (tl cs) (remove_nth c l)
      end
  end.
Definition shuffle {A} (cs : list nat) (l : list A) : list A := sample_pick (length l) cs l.

(* list.remove(x): first element equal (by uid) to x *)
Fixpoint remove_first (x : ind) (l : list ind) : list ind :=
  match l with
  | [] => []
  | y :: l' => if same_uid y x then l' else y :: remove_first x l'
  end.

(* individuals * n *)
Fixpoint list_times {A} (l : list A) (n : nat) : list A :=
  match n with 0 => [] | S n' => l ++ list_times l n' end.

(* ---- tournament ---- *)
(* max(group, key=fitness): the first element that no later element beats with > *)
Definition py_max (bt : ind -> ind -> bool) (g : list ind) : option ind :=
  match g with
  | [] => None                                           (* ValueError: max() of empty *)
  | x :: l => Some (fold_left (fun m y => if bt y m then y else m) l x)
  end.

(* max(ceil(n * 0.1), min(2, n)) *)
Definition group_size (n : nat) : nat := Nat.max ((n + 9) / 10) (Nat.min 2 n).

Section Tournament.
  Variable bt : ind -> ind -> bool.
  (* need = pop_size - len(chosen); fuel = iterations_limit.  The result is the list of
     (sampled group, winner) per round; None = the python code raised. *)
  Fixpoint tour_loop (fuel : nat) (rounds : list (list nat)) (gsize need : nat) (inds : list ind)
    : option (list (list ind * ind)) :=
    match fuel with
    | 0 => Some []
    | S f =>
        match need with
        | 0 => Some []
        | S need' =>
            let g := sample_pick (Nat.min gsize (length inds)) (hd [] rounds) inds in
            match py_max bt g with
            | None => None
            | Some b =>
                match tour_loop f (tl rounds) gsize need' (remove_first b inds) with
                | None => None
                | Some tr => Some ((g, b) :: tr)
                end
            end
        end
    end.
  Definition tournament_trace (rounds : list (list nat)) (inds : list ind) (pop_size : nat) :=
    tour_loop (pop_size * 10) rounds (group_size (length inds)) pop_size inds.
  Definition tournament (rounds : list (list nat)) (inds : list ind) (pop_size : nat) : option (list ind) :=
    option_map (map snd) (tournament_trace rounds inds pop_size).
End Tournament.

(* ---- SPEA-2 ---- *)
Definition indexed (l : list ind) : list (nat * ind) := combine (seq 0 (length l)) l.

(* stable insertion sort, ascending by a "strictly less" test (python list.sort on tuples
   (fits[i], i): ties on the first component are broken by the index, i.e. stay in order) *)
Section Sort.
  Context {A : Type} (ltb : A -> A -> bool).
  Fixpoint ins_sorted (x : A) (l : list A) : list A :=      (* x is earlier than all of l *)
    match l with
    | [] => [x]
    | y :: l' => if ltb y x then y :: ins_sorted x l' else x :: l
    end.
  Fixpoint stable_sort (l : list A) : list A :=
    match l with [] => [] | x :: l' => ins_sorted x (stable_sort l') end.
End Sort.

(* delete d elements at oracle positions, one after the other *)
Fixpoint del_some {A} (d : nat) (ps : list nat) (l : list A) : list A :=
  match d with
  | 0 => l
  | S d' => match l with
            | [] => []
            | _ => del_some d' (tl ps) (remove_nth ((hd 0 ps) mod (length l)) l)
            end
  end.

Section Spea2.
  Variable dm : ind -> ind -> bool.
  (* the pair loop "if i dominates j ... elif j dominates i ..." over i < j *)
  Definition beats (p q : nat * ind) : bool :=
    if fst p <? fst q then dm (snd p) (snd q)
    else if fst q <? fst p then dm (snd p) (snd q) && negb (dm (snd q) (snd p))
    else false.
  Definition strength (il : list (nat * ind)) (p : nat * ind) : nat := length (filter (beats p) il).
  (* fits[i] = sum of strength_fits[j] over j in dominating_inds[i] *)
  Definition raw (il : list (nat * ind)) (p : nat * ind) : nat :=
    list_sum (map (strength il) (filter (fun q => beats q p) il)).
  Definition keyed (inds : list ind) : list (nat * (nat * ind)) :=
    let il := indexed inds in map (fun p => (raw il p, p)) il.
  Definition is_front (kp : nat * (nat * ind)) : bool := Nat.eqb (fst kp) 0.
  Definition key_lt (rank : nat -> nat) (a b : nat * (nat * ind)) : bool :=
    (fst a <? fst b) || (Nat.eqb (fst a) (fst b) && (rank (fst (snd a)) <? rank (fst (snd b)))).
  Definition spea2 (rank : nat -> nat) (ps : list nat) (inds : list ind) (pop_size : nat) : list ind :=
    let ks := keyed inds in
    let chosen := filter is_front ks in
    let n := length chosen in
    let res :=
      if n <? pop_size then
        chosen ++ firstn (pop_size - n) (stable_sort (key_lt rank) (filter (fun kp => negb (is_front kp)) ks))
      else if pop_size <? n then del_some (n - pop_size) ps chosen
      else chosen in
    map (fun kp => snd (snd kp)) res.
End Spea2.

(* ---- default_selection_behaviour and Selection.__call__ ---- *)
Definition wrapper (f : list ind -> nat -> option (list ind)) (individuals : list ind) (pop_size : nat)
  : option (list ind) :=
  let inds := dedup individuals in
  if Nat.eqb (length inds) 1 then Some (list_times inds pop_size)
  else if length inds <=? pop_size then Some inds
  else f inds pop_size.

Inductive sel_type := Tournament | Spea2.
Record sel_oracle := { so_rounds : list (list nat); so_rank : nat -> nat; so_del : list nat }.

Section Select.
  Variables (bt dm : ind -> ind -> bool).
  Definition select_g (t : sel_type) (o : sel_oracle) : list ind -> nat -> option (list ind) :=
    wrapper (match t with
             | Tournament => tournament bt (so_rounds o)
             | Spea2 => fun inds n => Some (spea2 dm (so_rank o) (so_del o) inds n)
             end).
  (* Selection.__call__: pop_size = pop_size or self.parameters.pop_size (0 stands for None / 0) *)
  Definition selection_call_g (t : sel_type) (o : sel_oracle) (default_size : nat) (population : list ind)
             (pop_size : nat) : option (list ind) :=
    select_g t o population (if Nat.eqb pop_size 0 then default_size else pop_size).
End Select.
Definition select := select_g better dom.
Definition selection_call := selection_call_g better dom.

(* ================= correspondence: the decidable relation `admits` ================= *)
Definition optQ_eqb (a b : option Q) : bool :=
  match a, b with Some x, Some y => Qeq_bool x y | None, None => true | _, _ => false end.
Definition fit_eqb (f g : fit) : bool :=
  match f, g with
  | Single p s, Single q t => optQ_eqb p q && identical s t
  | Multi v w, Multi v' w' => identical v v' && identical w w'
  | _, _ => false
  end.
Definition ind_eqb (a b : ind) : bool := same_uid a b && fit_eqb (fitness a) (fitness b).
Definition inds_eqb (l r : list ind) : bool := forallb2 ind_eqb l r.

Fixpoint nodup_uid (l : list ind) : bool :=
  match l with [] => true | x :: l' => negb (mem_uid x l') && nodup_uid l' end.

(* tournament: winner number k can be the maximum of SOME group of the required size sampled
   from the individuals not chosen so far iff it is one of them and at least (size - 1) of the
   others are not strictly better - a rank condition *)
Fixpoint tour_admits (bt : ind -> ind -> bool) (gsize : nat) (inds out : list ind) : bool :=
  match out with
  | [] => true
  | w :: out' =>
      match find (ind_eqb w) inds with
      | None => false
      | Some w' =>
          (Nat.min gsize (length inds) - 1 <=? length (filter (fun x => negb (bt x w')) (remove_first w' inds))) &&
          tour_admits bt gsize (remove_first w' inds) out'
      end
  end.

Fixpoint subseq_b (s l : list ind) : bool :=
  match s, l with
  | [], _ => true
  | _ :: _, [] => false
  | x :: s', y :: l' => if ind_eqb x y then subseq_b s' l' else subseq_b s l'
  end.

Fixpoint sorted_nat (l : list nat) : bool :=
  match l with
  | a :: ((b :: _) as l') => (a <=? b) && sorted_nat l'
  | _ => true
  end.

Definition raw_of (ks : list (nat * (nat * ind))) (x : ind) : option nat :=
  option_map fst (find (fun kp => ind_eqb (snd (snd kp)) x) ks).

Definition spea2_admits (dm : ind -> ind -> bool) (inds : list ind) (pop_size : nat) (out : list ind) : bool :=
  let ks := keyed dm inds in
  let front := map (fun kp => snd (snd kp)) (filter is_front ks) in
  let rest := filter (fun kp => negb (is_front kp)) ks in
  let n := length front in
  if n <? pop_size then
    let fill := skipn n out in
    let fill_raw := map (fun x => match raw_of rest x with Some r => r | None => 0 end) fill in
    inds_eqb (firstn n out) front && Nat.eqb (length fill) (pop_size - n) &&
    forallb (fun x => match raw_of rest x with Some _ => true | None => false end) fill &&
    nodup_uid fill && sorted_nat fill_raw &&
    (* nothing left out has a smaller raw fitness than something taken *)
    forallb (fun kp => mem_uid (snd (snd kp)) fill || (last fill_raw 0 <=? fst kp)) rest
  else if pop_size <? n then subseq_b out front && Nat.eqb (length out) pop_size
  else inds_eqb out front.

(* observed output of a selection function (None = it raised) admitted by the mechanism *)
Definition sel_admits (t : sel_type) (population : list ind) (pop_size : nat) (out : option (list ind)) : bool :=
  match out with
  | None => false
  | Some out =>
      let inds := dedup population in
      if Nat.eqb (length inds) 1 then inds_eqb out (list_times inds pop_size)
      else if length inds <=? pop_size then inds_eqb out inds
      else match t with
           | Tournament => Nat.eqb (length out) pop_size && tour_admits better (group_size (length inds)) inds out
           | Spea2 => spea2_admits dom inds pop_size out
           end
  end.
Definition call_admits (t : sel_type) (default_size : nat) (population : list ind) (pop_size : nat)
           (out : option (list ind)) : bool :=
  sel_admits t population (if Nat.eqb pop_size 0 then default_size else pop_size) out.

(* ================= the property's clauses on the OBSERVED output ================= *)
Fixpoint distinct_uids (l : list nat) : list nat :=
  match l with [] => [] | x :: l' => if existsb (Nat.eqb x) l' then distinct_uids l' else x :: distinct_uids l' end.
Definition n_distinct (l : list ind) : nat := length (distinct_uids (map uid l)).
Definition subset_b (out inp : list ind) : bool := forallb (fun x => existsb (ind_eqb x) inp) out.
Definition nondominated (dm : ind -> ind -> bool) (l : list ind) (x : ind) : bool :=
  forallb (fun y => negb (dm y x)) l.

(* Selection clauses: only individuals of the input; with >= 2 distinct individuals no repeats
   and exactly min(requested, distinct) of them; a single individual is replicated to the
   requested size; SPEA-2 keeps every non-dominated individual when they all fit. *)
Definition sel_holds_b (t : sel_type) (population : list ind) (pop_size : nat) (out : option (list ind)) : bool :=
  match out with
  | None => false
  | Some out =>
      let d := n_distinct population in
      subset_b out population &&
      implb (2 <=? d) (nodup_uid out && Nat.eqb (length out) (Nat.min pop_size d)) &&
      implb (Nat.eqb d 1) (Nat.eqb (length out) pop_size) &&
      match t with
      | Tournament => true
      | Spea2 =>
          let nd := filter (nondominated dom population) population in
          implb (n_distinct nd <=? pop_size) (forallb (fun x => mem_uid x out) nd)
      end
  end.
Definition call_holds_b (t : sel_type) (default_size : nat) (population : list ind) (pop_size : nat)
           (out : option (list ind)) : bool :=
  sel_holds_b t population (if Nat.eqb pop_size 0 then default_size else pop_size) out.
