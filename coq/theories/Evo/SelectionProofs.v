(* Proofs about the selection model (property C16). *)
From Coq Require Import List Bool Arith QArith Lia Permutation.
From GolemV Require Import Fitness.Fitness Fitness.FitnessProofs Evo.Selection.
Import ListNotations.
Local Open Scope nat_scope.

(* ------------------------------------------------------------------ generic list facts *)
Lemma NoDup_map_inj {A B} (f : A -> B) l a b :
  NoDup (map f l) -> In a l -> In b l -> f a = f b -> a = b.
Proof.
  induction l as [|x l IH]; simpl; intros ND Ha Hb E; [contradiction|].
  inversion ND as [|? ? Hn ND']; subst.
  destruct Ha as [->|Ha], Hb as [->|Hb]; auto.
  - exfalso. apply Hn. rewrite E. apply in_map, Hb.
  - exfalso. apply Hn. rewrite <- E. apply in_map, Ha.
Qed.

Lemma Permutation_app_incl {A} (s r l : list A) : Permutation (s ++ r) l -> incl s l.
Proof. intros P x Hx. eapply Permutation_in; [exact P|]. apply in_or_app; auto. Qed.

Lemma NoDup_app_l {A} (l r : list A) : NoDup (l ++ r) -> NoDup l.
Proof.
  induction l as [|x l IH]; simpl; intros H; [constructor|].
  inversion H as [|? ? Hn H']; subst. constructor; [|apply IH, H'].
  intros Hx. apply Hn. apply in_or_app. left. exact Hx.
Qed.

Lemma Permutation_app_NoDup_map {A B} (f : A -> B) (s r l : list A) :
  Permutation (s ++ r) l -> NoDup (map f l) -> NoDup (map f s).
Proof.
  intros P ND. apply (Permutation_map f) in P. apply Permutation_sym in P.
  pose proof (Permutation_NoDup P ND) as H. rewrite map_app in H.
  eapply NoDup_app_l. exact H.
Qed.

Lemma Permutation_app_length {A} (s r l : list A) :
  Permutation (s ++ r) l -> length s + length r = length l.
Proof. intros P. apply Permutation_length in P. rewrite app_length in P. exact P. Qed.

Lemma remove_nth_In {A} n (l : list A) x : In x (remove_nth n l) -> In x l.
Proof.
  revert n; induction l as [|y l IH]; intros [|n]; simpl; auto.
  intros [->|H]; auto. right. eapply IH, H.
Qed.

Lemma remove_nth_perm {A} n (l : list A) d :
  n < length l -> Permutation (nth n l d :: remove_nth n l) l.
Proof.
  revert n; induction l as [|y l IH]; intros [|n]; simpl; intros H; try lia.
  - apply Permutation_refl.
  - eapply perm_trans; [apply perm_swap|]. apply perm_skip. apply IH. lia.
Qed.

Lemma sample_pick_perm {A} k cs (l : list A) :
  exists rest, Permutation (sample_pick k cs l ++ rest) l.
Proof.
  revert cs l; induction k as [|k IH]; intros cs l; simpl.
  - exists l. apply Permutation_refl.
  - destruct l as [|d l'] eqn:El; [exists []; apply Permutation_refl|].
    rewrite <- El. set (c := hd 0 cs mod length l).
    assert (Hc : c < length l) by (apply Nat.mod_upper_bound; subst l; simpl; lia).
    destruct (IH (tl cs) (remove_nth c l)) as [rest P].
    exists rest. simpl. eapply perm_trans; [apply perm_skip, P|]. apply remove_nth_perm, Hc.
Qed.

Lemma remove_nth_length {A} n (l : list A) : n < length l -> length (remove_nth n l) = length l - 1.
Proof.
  intros H. revert n H; induction l as [|y l IH]; intros [|n]; simpl; intros H; try lia.
  rewrite IH by lia. destruct l; simpl in *; lia.
Qed.

Lemma sample_pick_length {A} k cs (l : list A) : length (sample_pick k cs l) = Nat.min k (length l).
Proof.
  revert cs l; induction k as [|k IH]; intros cs l; simpl; [reflexivity|].
  destruct l as [|d l'] eqn:El; [reflexivity|]. rewrite <- El.
  set (c := hd 0 cs mod length l).
  assert (Hc : c < length l) by (apply Nat.mod_upper_bound; subst l; simpl; lia).
  simpl. rewrite IH, (remove_nth_length c l Hc). subst l. simpl. lia.
Qed.

Lemma shuffle_perm {A} cs (l : list A) : Permutation (shuffle cs l) l.
Proof.
  unfold shuffle. destruct (sample_pick_perm (length l) cs l) as [rest P].
  pose proof (Permutation_app_length _ _ _ P) as HL. rewrite sample_pick_length, Nat.min_id in HL.
  assert (rest = []) as -> by (destruct rest; simpl in HL; [reflexivity|lia]).
  rewrite app_nil_r in P. exact P.
Qed.

Lemma del_some_perm {A} d ps (l : list A) : exists rest, Permutation (del_some d ps l ++ rest) l.
Proof.
  revert ps l; induction d as [|d IH]; intros ps l; simpl.
  - exists []. rewrite app_nil_r. apply Permutation_refl.
  - destruct l as [|x l'] eqn:El; [exists []; apply Permutation_refl|]. rewrite <- El.
    set (c := hd 0 ps mod length l).
    assert (Hc : c < length l) by (apply Nat.mod_upper_bound; subst l; simpl; lia).
    destruct (IH (tl ps) (remove_nth c l)) as [rest P].
    exists (rest ++ [nth c l x]).
    rewrite app_assoc. eapply perm_trans; [apply Permutation_app_tail, P|].
    eapply perm_trans; [apply Permutation_app_comm|]. simpl. apply remove_nth_perm, Hc.
Qed.

Lemma del_some_length {A} d ps (l : list A) : d <= length l -> length (del_some d ps l) = length l - d.
Proof.
  revert ps l; induction d as [|d IH]; intros ps l H; simpl; [lia|].
  destruct l as [|x l'] eqn:El; [simpl in H; lia|]. rewrite <- El in *.
  set (c := hd 0 ps mod length l).
  assert (Hc : c < length l) by (apply Nat.mod_upper_bound; subst l; simpl; lia).
  rewrite IH; rewrite (remove_nth_length c l Hc); lia.
Qed.

Lemma filter_partition_perm {A} (p : A -> bool) l :
  Permutation (filter p l ++ filter (fun x => negb (p x)) l) l.
Proof.
  induction l as [|x l IH]; simpl; [apply Permutation_refl|].
  destruct (p x); simpl.
  - apply perm_skip, IH.
  - eapply perm_trans; [apply Permutation_sym, Permutation_middle|]. apply perm_skip, IH.
Qed.

Lemma ins_sorted_perm {A} (ltb : A -> A -> bool) x l : Permutation (ins_sorted ltb x l) (x :: l).
Proof.
  induction l as [|y l IH]; simpl; [apply Permutation_refl|].
  destruct (ltb y x); [|apply Permutation_refl].
  eapply perm_trans; [apply perm_skip, IH|]. apply perm_swap.
Qed.

Lemma stable_sort_perm {A} (ltb : A -> A -> bool) l : Permutation (stable_sort ltb l) l.
Proof.
  induction l as [|x l IH]; simpl; [apply Permutation_refl|].
  eapply perm_trans; [apply ins_sorted_perm|]. apply perm_skip, IH.
Qed.

Lemma list_sum_ge {l : list nat} {a} : In a l -> a <= list_sum l.
Proof. induction l as [|b l IH]; simpl; [contradiction|]. intros [->|H]; [lia|]. specialize (IH H). lia. Qed.

Lemma filter_none {A} (p : A -> bool) l : (forall x, In x l -> p x = false) -> filter p l = [].
Proof.
  induction l as [|x l IH]; simpl; intros H; [reflexivity|].
  rewrite (H x (or_introl eq_refl)). apply IH. intros y Hy. apply H. right. exact Hy.
Qed.

Lemma map_snd_combine {A B} (l : list A) (r : list B) : length l = length r -> map snd (combine l r) = r.
Proof.
  revert r; induction l as [|a l IH]; intros [|b r]; simpl; intros H; try discriminate; [reflexivity|].
  f_equal. apply IH. lia.
Qed.
Lemma map_fst_combine {A B} (l : list A) (r : list B) : length l = length r -> map fst (combine l r) = l.
Proof.
  revert r; induction l as [|a l IH]; intros [|b r]; simpl; intros H; try discriminate; [reflexivity|].
  f_equal. apply IH. lia.
Qed.

Lemma filter_map_comm {A B} (f : A -> B) (p : B -> bool) l :
  filter p (map f l) = map f (filter (fun x => p (f x)) l).
Proof. induction l as [|x l IH]; simpl; [reflexivity|]. destruct (p (f x)); simpl; rewrite IH; reflexivity. Qed.

Lemma list_times_single {A} (x : A) n : list_times [x] n = repeat x n.
Proof. induction n as [|n IH]; simpl; [reflexivity|]. rewrite IH. reflexivity. Qed.

Lemma firstn_incl {A} n (l : list A) : incl (firstn n l) l.
Proof. intros x H. rewrite <- (firstn_skipn n l). apply in_or_app. left. exact H. Qed.

Lemma firstn_NoDup_map {A B} (f : A -> B) n (l : list A) : NoDup (map f l) -> NoDup (map f (firstn n l)).
Proof.
  intros H. rewrite <- (firstn_skipn n l), map_app in H. eapply NoDup_app_l, H.
Qed.

Lemma NoDup_app_intro {A} (a b : list A) :
  NoDup a -> NoDup b -> (forall x, In x a -> ~ In x b) -> NoDup (a ++ b).
Proof.
  induction a as [|x a IH]; simpl; intros Ha Hb D; [exact Hb|].
  inversion Ha as [|? ? Hn Ha']; subst. constructor.
  - intros H. apply in_app_or in H as [H|H]; [apply Hn, H|]. apply (D x); auto.
  - apply IH; auto.
Qed.

Lemma filter_length_split {A} (p : A -> bool) l :
  length (filter p l) + length (filter (fun x => negb (p x)) l) = length l.
Proof. pose proof (Permutation_length (filter_partition_perm p l)) as H. rewrite app_length in H. exact H. Qed.

Lemma filter_NoDup_map {A B} (f : A -> B) (p : A -> bool) l : NoDup (map f l) -> NoDup (map f (filter p l)).
Proof.
  induction l as [|x l IH]; simpl; intros H; [constructor|].
  inversion H as [|? ? Hn H']; subst. destruct (p x); simpl; [|apply IH, H'].
  constructor; [|apply IH, H']. intros Hx. apply Hn.
  apply in_map_iff in Hx as [y [E Hy]]. apply filter_In in Hy as [Hy _]. rewrite <- E. apply in_map, Hy.
Qed.

(* ------------------------------------------------------------------ uid dictionary *)
Lemma same_uid_iff a b : same_uid a b = true <-> uid a = uid b.
Proof. unfold same_uid. apply Nat.eqb_eq. Qed.
Lemma same_uid_false a b : same_uid a b = false <-> uid a <> uid b.
Proof. unfold same_uid. apply Nat.eqb_neq. Qed.

Lemma mem_uid_iff x l : mem_uid x l = true <-> In (uid x) (map uid l).
Proof.
  unfold mem_uid. rewrite existsb_exists, in_map_iff. split.
  - intros [y [Hy E]]. apply same_uid_iff in E. exists y. split; [symmetry; exact E|exact Hy].
  - intros [y [E Hy]]. exists y. split; [exact Hy|]. apply same_uid_iff. symmetry. exact E.
Qed.

Lemma dict_put_In d x z : In z (dict_put d x) -> In z d \/ z = x.
Proof.
  induction d as [|y d IH]; simpl.
  - intros [<-|[]]. right. reflexivity.
  - destruct (same_uid y x).
    + intros [<-|H]; [right; reflexivity|left; right; exact H].
    + intros [<-|H]; [left; left; reflexivity|]. destruct (IH H) as [H'|H']; [left; right; exact H'|right; exact H'].
Qed.

Lemma dict_put_uids d x u : In u (map uid (dict_put d x)) <-> In u (map uid d) \/ u = uid x.
Proof.
  induction d as [|y d IH]; simpl.
  - split; [intros [<-|[]]; right; reflexivity|intros [ [] | -> ]; left; reflexivity].
  - destruct (same_uid y x) eqn:E; simpl.
    + apply same_uid_iff in E. rewrite E. intuition congruence.
    + rewrite IH. intuition congruence.
Qed.

Lemma dict_put_NoDup d x : NoDup (map uid d) -> NoDup (map uid (dict_put d x)).
Proof.
  induction d as [|y d IH]; simpl; intros ND.
  - constructor; [intros []|constructor].
  - inversion ND as [|? ? Hn ND']; subst. destruct (same_uid y x) eqn:E; simpl.
    + apply same_uid_iff in E. rewrite <- E. constructor; assumption.
    + constructor; [|apply IH, ND'].
      rewrite dict_put_uids. intros [H|H]; [apply Hn, H|]. apply same_uid_false in E. apply E, H.
Qed.

Lemma dict_update_In l d z : In z (dict_update d l) -> In z d \/ In z l.
Proof.
  unfold dict_update. revert d; induction l as [|x l IH]; simpl; intros d H; [left; exact H|].
  destruct (IH _ H) as [H'|H']; [|right; right; exact H'].
  destruct (dict_put_In _ _ _ H') as [H''| ->]; [left; exact H''|right; left; reflexivity].
Qed.

Lemma dict_update_uids l d u :
  In u (map uid (dict_update d l)) <-> In u (map uid d) \/ In u (map uid l).
Proof.
  unfold dict_update. revert d; induction l as [|x l IH]; simpl; intros d; [tauto|].
  rewrite IH, dict_put_uids. intuition congruence.
Qed.

Lemma dict_update_NoDup l d : NoDup (map uid d) -> NoDup (map uid (dict_update d l)).
Proof.
  unfold dict_update. revert d; induction l as [|x l IH]; simpl; intros d ND; [exact ND|].
  apply IH, dict_put_NoDup, ND.
Qed.

Lemma dedup_In l z : In z (dedup l) -> In z l.
Proof. intros H. destruct (dict_update_In _ _ _ H) as [[]|H']. exact H'. Qed.
Lemma dedup_NoDup l : NoDup (map uid (dedup l)).
Proof. apply dict_update_NoDup. constructor. Qed.
Lemma dedup_uids l u : In u (map uid (dedup l)) <-> In u (map uid l).
Proof. unfold dedup. rewrite dict_update_uids. simpl. tauto. Qed.

Lemma distinct_uids_In l u : In u (distinct_uids l) <-> In u l.
Proof.
  induction l as [|x l IH]; simpl; [tauto|].
  destruct (existsb (Nat.eqb x) l) eqn:E.
  - rewrite IH. split; [auto|]. intros [<-|H]; [|exact H].
    apply existsb_exists in E as [y [Hy E]]. apply Nat.eqb_eq in E. subst. exact Hy.
  - simpl. rewrite IH. tauto.
Qed.
Lemma distinct_uids_NoDup l : NoDup (distinct_uids l).
Proof.
  induction l as [|x l IH]; simpl; [constructor|].
  destruct (existsb (Nat.eqb x) l) eqn:E; [exact IH|].
  constructor; [|exact IH]. rewrite distinct_uids_In. intros H.
  assert (existsb (Nat.eqb x) l = true) by (apply existsb_exists; exists x; split; [exact H|apply Nat.eqb_refl]).
  congruence.
Qed.

Lemma dedup_length l : length (dedup l) = n_distinct l.
Proof.
  unfold n_distinct. rewrite <- (map_length uid (dedup l)). apply Permutation_length.
  apply NoDup_Permutation; [apply dedup_NoDup|apply distinct_uids_NoDup|].
  intros u. rewrite dedup_uids, distinct_uids_In. tauto.
Qed.

(* ------------------------------------------------------------------ tournament *)
Lemma py_max_In bt g b : py_max bt g = Some b -> In b g.
Proof.
  destruct g as [|x l]; simpl; [discriminate|]. intros E. injection E as <-.
  assert (H : forall l m, In (fold_left (fun m y => if bt y m then y else m) l m) (m :: l)).
  { clear. induction l as [|y l IH]; intros m; simpl; [left; reflexivity|].
    destruct (IH (if bt y m then y else m)) as [H|H]; [|right; right; exact H].
    destruct (bt y m); [right; left; exact H|left; exact H]. }
  apply H.
Qed.

Lemma py_max_some bt g : g <> [] -> exists b, py_max bt g = Some b.
Proof. destruct g; [congruence|]. intros _. eexists. reflexivity. Qed.

(* on a set where > is a strict weak order, max() returns an element no other element beats *)
Definition swo_on (bt : ind -> ind -> bool) (l : list ind) : Prop :=
  (forall a, In a l -> bt a a = false) /\
  (forall a b c, In a l -> In b l -> In c l -> bt a b = true -> bt b c = true -> bt a c = true) /\
  (forall a b c, In a l -> In b l -> In c l -> bt a b = false -> bt b c = false -> bt a c = false).

Lemma swo_on_incl bt l l' : incl l' l -> swo_on bt l -> swo_on bt l'.
Proof.
  intros I (H1 & H2 & H3). repeat split.
  - intros a Ha. apply H1, I, Ha.
  - intros a b c Ha Hb Hc. apply H2; apply I; assumption.
  - intros a b c Ha Hb Hc. apply H3; apply I; assumption.
Qed.

Definition max_step (bt : ind -> ind -> bool) (m y : ind) : ind := if bt y m then y else m.

Lemma fold_max_best bt U : swo_on bt U ->
  forall l seen m, incl seen U -> incl l U -> In m seen -> (forall x, In x seen -> bt x m = false) ->
    In (fold_left (max_step bt) l m) (seen ++ l) /\
    forall x, In x (seen ++ l) -> bt x (fold_left (max_step bt) l m) = false.
Proof.
  intros (Irr & Tr & Neg). induction l as [|y l IH]; intros seen m Is Il Hm Hb; simpl.
  - rewrite app_nil_r. split; [exact Hm|exact Hb].
  - assert (Hy : In y U) by (apply Il; left; reflexivity).
    assert (HmU : In m U) by (apply Is, Hm).
    assert (E : seen ++ y :: l = (seen ++ [y]) ++ l) by (rewrite <- app_assoc; reflexivity).
    rewrite E. apply IH.
    + intros x Hx. apply in_app_or in Hx as [Hx|[<-|[]]]; [apply Is, Hx|exact Hy].
    + intros x Hx. apply Il. right. exact Hx.
    + unfold max_step. destruct (bt y m); apply in_or_app; [right; left; reflexivity|left; exact Hm].
    + intros x Hx. unfold max_step. destruct (bt y m) eqn:Eym.
      * apply in_app_or in Hx as [Hx|[<-|[]]]; [|apply Irr, Hy].
        assert (bt m y = false).
        { destruct (bt m y) eqn:Emy; [|reflexivity].
          pose proof (Tr m y m HmU Hy HmU Emy Eym) as C. rewrite (Irr m HmU) in C. discriminate. }
        apply (Neg x m y); auto.
      * apply in_app_or in Hx as [Hx|[<-|[]]]; [apply Hb, Hx|exact Eym].
Qed.

Lemma py_max_best bt g b :
  swo_on bt g -> py_max bt g = Some b -> In b g /\ forall x, In x g -> bt x b = false.
Proof.
  intros S E. destruct g as [|x0 l]; simpl in E; [discriminate|]. injection E as <-.
  change (fun m y => if bt y m then y else m) with (max_step bt).
  apply (fold_max_best bt (x0 :: l) S l [x0] x0).
  - intros x [<-|[]]. left. reflexivity.
  - intros x Hx. right. exact Hx.
  - left. reflexivity.
  - intros x [<-|[]]. destruct S as (Irr & _). apply Irr. left. reflexivity.
Qed.

Lemma remove_first_perm b l : NoDup (map uid l) -> In b l -> Permutation (b :: remove_first b l) l.
Proof.
  induction l as [|y l IH]; simpl; intros ND Hb; [contradiction|].
  inversion ND as [|? ? Hn ND']; subst.
  destruct (same_uid y b) eqn:E.
  - apply same_uid_iff in E. destruct Hb as [->|Hb]; [apply Permutation_refl|].
    exfalso. apply Hn. rewrite E. apply in_map, Hb.
  - destruct Hb as [->|Hb].
    + apply same_uid_false in E. congruence.
    + eapply perm_trans; [apply perm_swap|]. apply perm_skip. apply IH; assumption.
Qed.

(* what a run of the tournament loop looks like, round by round *)
Inductive tour_rounds (bt : ind -> ind -> bool) (gsize : nat) : list ind -> list (list ind * ind) -> Prop :=
| tr_nil inds : tour_rounds bt gsize inds []
| tr_cons inds g b tr :
    (exists rest, Permutation (g ++ rest) inds) ->            (* g is a sample of the remaining individuals *)
    length g = Nat.min gsize (length inds) ->                (* of the required size *)
    py_max bt g = Some b ->                                   (* b is what max() returns on it *)
    tour_rounds bt gsize (remove_first b inds) tr ->          (* b leaves the pool *)
    tour_rounds bt gsize inds ((g, b) :: tr).

Lemma tour_loop_rounds bt fuel : forall rounds gsize need inds tr,
  tour_loop bt fuel rounds gsize need inds = Some tr -> tour_rounds bt gsize inds tr.
Proof.
  induction fuel as [|f IH]; intros rounds gsize need inds tr; simpl.
  - intros E. injection E as <-. constructor.
  - destruct need as [|need']; [intros E; injection E as <-; constructor|].
    set (g := sample_pick (Nat.min gsize (length inds)) (hd [] rounds) inds).
    destruct (py_max bt g) as [b|] eqn:Em; [|discriminate].
    destruct (tour_loop bt f (tl rounds) gsize need' (remove_first b inds)) as [tr'|] eqn:El; [|discriminate].
    intros E. injection E as <-. constructor.
    + apply sample_pick_perm.
    + subst g. rewrite sample_pick_length. lia.
    + exact Em.
    + eapply IH, El.
Qed.

Lemma tour_loop_total bt fuel : forall rounds gsize need inds,
  NoDup (map uid inds) -> need <= fuel -> need <= length inds -> 1 <= gsize ->
  exists tr, tour_loop bt fuel rounds gsize need inds = Some tr /\ length tr = need /\
             exists rest, Permutation (map snd tr ++ rest) inds.
Proof.
  induction fuel as [|f IH]; intros rounds gsize need inds ND Hf Hl Hg; simpl.
  - exists []. split; [reflexivity|]. split; [simpl; lia|]. exists inds. apply Permutation_refl.
  - destruct need as [|need'].
    { exists []. split; [reflexivity|]. split; [reflexivity|]. exists inds. apply Permutation_refl. }
    set (g := sample_pick (Nat.min gsize (length inds)) (hd [] rounds) inds).
    assert (Lg : length g = Nat.min gsize (length inds)) by (subst g; rewrite sample_pick_length; lia).
    assert (g <> []) as Hne by (intros E; rewrite E in Lg; simpl in Lg; lia).
    destruct (py_max_some bt g Hne) as [b Em]. rewrite Em.
    assert (Hb : In b inds).
    { destruct (sample_pick_perm (Nat.min gsize (length inds)) (hd [] rounds) inds) as [rest P].
      eapply Permutation_app_incl; [exact P|]. apply py_max_In in Em. exact Em. }
    pose proof (remove_first_perm b inds ND Hb) as P.
    assert (ND' : NoDup (map uid (remove_first b inds))).
    { apply (Permutation_map uid) in P. apply Permutation_sym in P.
      pose proof (Permutation_NoDup P ND) as H. simpl in H. inversion H; assumption. }
    assert (L' : length (remove_first b inds) = length inds - 1).
    { apply Permutation_length in P. simpl in P. lia. }
    destruct (IH (tl rounds) gsize need' (remove_first b inds) ND') as (tr' & E' & Len' & rest & P'); try lia.
    rewrite E'. exists ((g, b) :: tr'). split; [reflexivity|]. split; [simpl; lia|].
    exists rest. simpl. eapply perm_trans; [apply perm_skip, P'|exact P].
Qed.

Lemma group_size_pos n : 1 <= n -> 1 <= group_size n.
Proof. unfold group_size. intros H. destruct n as [|[|n]]; simpl; lia. Qed.

Lemma remove_first_incl b l : incl (remove_first b l) l.
Proof.
  induction l as [|y l IH]; simpl; [intros x []|].
  destruct (same_uid y b); intros x Hx; [right; exact Hx|].
  destruct Hx as [<-|Hx]; [left; reflexivity|right; apply IH, Hx].
Qed.

(* every winner is a best element of its group *)
Lemma tour_rounds_best bt gsize inds tr :
  swo_on bt inds -> tour_rounds bt gsize inds tr ->
  forall g b, In (g, b) tr -> In b g /\ incl g inds /\ forall x, In x g -> bt x b = false.
Proof.
  intros S R. induction R as [|inds g b tr [rest P] Lg Em R IH]; intros g' b' H; [destruct H|].
  destruct H as [E|H].
  - injection E as <- <-.
    assert (I : incl g inds) by (eapply Permutation_app_incl, P).
    destruct (py_max_best bt g b (swo_on_incl _ _ _ I S) Em) as [H1 H2]. auto.
  - destruct (IH (swo_on_incl _ _ _ (remove_first_incl b inds) S) _ _ H) as (H1 & H2 & H3).
    repeat split; auto. intros x Hx. apply (remove_first_incl b inds), H2, Hx.
Qed.

(* ------------------------------------------------------------------ SPEA-2 *)
Definition proj (kp : nat * (nat * ind)) : ind := snd (snd kp).
Definition asym (dm : ind -> ind -> bool) : Prop := forall a b, dm a b = true -> dm b a = false.

Lemma indexed_snd l : map snd (indexed l) = l.
Proof. unfold indexed. apply map_snd_combine. rewrite seq_length. reflexivity. Qed.
Lemma indexed_fst_NoDup l : NoDup (map fst (indexed l)).
Proof. unfold indexed. rewrite map_fst_combine by (rewrite seq_length; reflexivity). apply seq_NoDup. Qed.

Lemma keyed_proj dm l : map proj (keyed dm l) = l.
Proof. unfold keyed, proj. rewrite map_map. simpl. apply indexed_snd. Qed.
Lemma keyed_length dm l : length (keyed dm l) = length l.
Proof. rewrite <- (keyed_proj dm l) at 2. rewrite map_length. reflexivity. Qed.

Lemma beats_dm dm il p q :
  asym dm -> NoDup (map fst il) -> In p il -> In q il -> beats dm p q = dm (snd p) (snd q).
Proof.
  intros A ND Hp Hq. unfold beats.
  destruct (fst p <? fst q) eqn:E1; [reflexivity|].
  destruct (fst q <? fst p) eqn:E2.
  - destruct (dm (snd p) (snd q)) eqn:D; [|reflexivity]. rewrite (A _ _ D). reflexivity.
  - apply Nat.ltb_ge in E1. apply Nat.ltb_ge in E2.
    assert (p = q) as -> by (eapply NoDup_map_inj; eauto; lia).
    destruct (dm (snd q) (snd q)) eqn:D; [|reflexivity]. pose proof (A _ _ D). congruence.
Qed.

Lemma raw_zero_iff dm il p :
  In p il -> (raw dm il p = 0 <-> forall q, In q il -> beats dm q p = false).
Proof.
  intros Hp. unfold raw. split.
  - intros Z q Hq. destruct (beats dm q p) eqn:B; [|reflexivity]. exfalso.
    assert (Hs : 1 <= strength dm il q).
    { unfold strength. assert (In p (filter (beats dm q) il)) by (apply filter_In; auto).
      destruct (filter (beats dm q) il); [contradiction|simpl; lia]. }
    assert (In (strength dm il q) (map (strength dm il) (filter (fun q0 => beats dm q0 p) il))).
    { apply in_map, filter_In. auto. }
    pose proof (list_sum_ge H). lia.
  - intros H. rewrite (filter_none _ il H). reflexivity.
Qed.

(* non-dominated <-> raw fitness 0 *)
Lemma front_iff_nondominated dm inds kp :
  asym dm -> In kp (keyed dm inds) -> (is_front kp = true <-> nondominated dm inds (proj kp) = true).
Proof.
  intros A Hk. unfold keyed in Hk. apply in_map_iff in Hk as [p [<- Hp]].
  unfold is_front, proj, nondominated. simpl. rewrite Nat.eqb_eq, (raw_zero_iff dm _ p Hp), forallb_forall.
  pose proof (indexed_fst_NoDup inds) as ND.
  split.
  - intros H y Hy. rewrite <- (indexed_snd inds) in Hy. apply in_map_iff in Hy as [q [<- Hq]].
    rewrite <- (beats_dm dm _ q p A ND Hq Hp), (H q Hq). reflexivity.
  - intros H q Hq. rewrite (beats_dm dm _ q p A ND Hq Hp).
    apply negb_true_iff, H. rewrite <- (indexed_snd inds). apply in_map, Hq.
Qed.

Lemma front_count dm inds : asym dm ->
  length (filter is_front (keyed dm inds)) = length (filter (nondominated dm inds) inds).
Proof.
  intros A. rewrite <- (keyed_proj dm inds) at 3. rewrite filter_map_comm, map_length.
  f_equal. apply filter_ext_in. intros kp Hk.
  pose proof (front_iff_nondominated dm inds kp A Hk) as H.
  destruct (is_front kp), (nondominated dm inds (proj kp)); try reflexivity; intuition congruence.
Qed.

(* the selected triples, before projection *)
Definition spea2_res dm (rank : nat -> nat) (ps : list nat) (inds : list ind) (pop_size : nat) :=
  let ks := keyed dm inds in
  let chosen := filter is_front ks in
  let n := length chosen in
  if n <? pop_size then
    chosen ++ firstn (pop_size - n) (stable_sort (key_lt rank) (filter (fun kp => negb (is_front kp)) ks))
  else if pop_size <? n then del_some (n - pop_size) ps chosen
  else chosen.
Lemma spea2_unfold dm rank ps inds pop_size :
  spea2 dm rank ps inds pop_size = map proj (spea2_res dm rank ps inds pop_size).
Proof. reflexivity. Qed.

Lemma spea2_res_perm dm rank ps inds pop_size :
  exists rest, Permutation (spea2_res dm rank ps inds pop_size ++ rest) (keyed dm inds).
Proof.
  unfold spea2_res. set (ks := keyed dm inds). set (chosen := filter is_front ks).
  set (others := filter (fun kp => negb (is_front kp)) ks).
  pose proof (filter_partition_perm is_front ks) as Pp. fold chosen others in Pp.
  destruct (length chosen <? pop_size).
  - set (s := stable_sort (key_lt rank) others). exists (skipn (pop_size - length chosen) s).
    rewrite <- app_assoc, firstn_skipn.
    eapply perm_trans; [apply Permutation_app_head, stable_sort_perm|exact Pp].
  - destruct (pop_size <? length chosen).
    + destruct (del_some_perm (length chosen - pop_size) ps chosen) as [r P].
      exists (r ++ others). rewrite app_assoc.
      eapply perm_trans; [apply Permutation_app_tail, P|exact Pp].
    + exists others. exact Pp.
Qed.

Lemma spea2_res_length dm rank ps inds pop_size :
  pop_size <= length inds -> length (spea2_res dm rank ps inds pop_size) = pop_size.
Proof.
  intros H. unfold spea2_res. set (ks := keyed dm inds). set (chosen := filter is_front ks).
  set (others := filter (fun kp => negb (is_front kp)) ks).
  pose proof (Permutation_length (filter_partition_perm is_front ks)) as Pl. fold chosen others in Pl.
  rewrite app_length in Pl. assert (Lk : length ks = length inds) by apply keyed_length. rewrite Lk in Pl.
  destruct (length chosen <? pop_size) eqn:E1.
  - apply Nat.ltb_lt in E1. rewrite app_length, firstn_length.
    rewrite (Permutation_length (stable_sort_perm (key_lt rank) others)). lia.
  - apply Nat.ltb_ge in E1. destruct (pop_size <? length chosen) eqn:E2.
    + rewrite del_some_length by lia. lia.
    + apply Nat.ltb_ge in E2. lia.
Qed.

Lemma spea2_front_kept dm rank ps inds pop_size kp :
  length (filter is_front (keyed dm inds)) <= pop_size ->
  In kp (keyed dm inds) -> is_front kp = true -> In kp (spea2_res dm rank ps inds pop_size).
Proof.
  intros H Hk Hf. unfold spea2_res.
  assert (Hc : In kp (filter is_front (keyed dm inds))) by (apply filter_In; auto).
  destruct (length (filter is_front (keyed dm inds)) <? pop_size).
  - apply in_or_app. left. exact Hc.
  - destruct (pop_size <? length (filter is_front (keyed dm inds))) eqn:E; [|exact Hc].
    apply Nat.ltb_lt in E. lia.
Qed.

Lemma spea2_incl dm rank ps inds pop_size : incl (spea2 dm rank ps inds pop_size) inds.
Proof.
  rewrite spea2_unfold. destruct (spea2_res_perm dm rank ps inds pop_size) as [rest P].
  intros x Hx. apply in_map_iff in Hx as [kp [<- Hk]].
  rewrite <- (keyed_proj dm inds). apply in_map. eapply Permutation_app_incl; eauto.
Qed.

Lemma spea2_NoDup dm rank ps inds pop_size :
  NoDup (map uid inds) -> NoDup (map uid (spea2 dm rank ps inds pop_size)).
Proof.
  intros ND. rewrite spea2_unfold. destruct (spea2_res_perm dm rank ps inds pop_size) as [rest P].
  apply (Permutation_map proj) in P. rewrite map_app, keyed_proj in P.
  eapply Permutation_app_NoDup_map; eauto.
Qed.

Lemma spea2_length dm rank ps inds pop_size :
  pop_size <= length inds -> length (spea2 dm rank ps inds pop_size) = pop_size.
Proof. intros H. rewrite spea2_unfold, map_length. apply spea2_res_length, H. Qed.

(* SPEA-2 keeps every non-dominated individual whenever they all fit *)
Lemma spea2_keeps_front_raw dm rank ps inds pop_size x :
  asym dm -> length (filter (nondominated dm inds) inds) <= pop_size ->
  In x inds -> nondominated dm inds x = true -> In x (spea2 dm rank ps inds pop_size).
Proof.
  intros A H Hx Hn. rewrite spea2_unfold.
  rewrite <- (keyed_proj dm inds) in Hx. apply in_map_iff in Hx as [kp [E Hk]].
  rewrite <- E. apply in_map. apply spea2_front_kept; auto.
  - rewrite front_count; auto.
  - apply (front_iff_nondominated dm inds kp A Hk). rewrite E. exact Hn.
Qed.

(* ------------------------------------------------------------------ fitness facts *)
Lemma Qlt_b_asym a b : Qlt_b a b = true -> Qlt_b b a = false.
Proof. intros H. apply Qlt_b_iff in H. apply Qlt_b_false_iff. apply Qlt_le_weak, H. Qed.

Lemma dominates_loop_asym l r :
  dominates_loop false l r = true -> dominates_loop false r l = true -> False.
Proof.
  revert r; induction l as [|a l IH]; intros [|b r]; simpl; try discriminate.
  destruct (Qlt_b a b) eqn:E1.
  - rewrite (Qlt_b_asym _ _ E1). discriminate.
  - destruct (Qlt_b b a) eqn:E2; [discriminate|]. apply IH.
Qed.

Lemma tuple_gt_both_false l r : tuple_gt l r = false -> tuple_gt r l = false -> identical l r = true.
Proof.
  unfold identical. revert r; induction l as [|a l IH]; intros [|b r]; simpl; try discriminate; [reflexivity|].
  rewrite (Qeq_bool_sym b a). destruct (Qeq_bool a b) eqn:E; simpl.
  - apply IH.
  - intros H1 H2. rewrite (Q_trichotomy_b _ _ E), H1 in H2. discriminate.
Qed.

Lemma identical_close l r : identical l r = true -> forallb2 close l r = true.
Proof.
  unfold identical. revert r; induction l as [|a l IH]; intros [|b r]; simpl; try discriminate; [reflexivity|].
  intros H. apply andb_true_iff in H as [H1 H2]. apply Qeq_bool_iff in H1.
  rewrite (close_refl_eq _ _ H1), (IH _ H2). reflexivity.
Qed.

Lemma gt_asym_same_class f g :
  same_class f g = true -> gt f g = Ok true -> gt g f = Ok true -> False.
Proof.
  intros Hc. unfold gt, le.
  destruct (lt f g) eqn:L1; [simpl; discriminate|]. destruct (lt g f) eqn:L2; [simpl; discriminate|].
  assert (Vf : valid f = true).
  { destruct (valid f) eqn:Vf; [reflexivity|]. unfold lt in L1. rewrite Vf in L1. discriminate. }
  assert (Vg : valid g = true).
  { destruct (valid g) eqn:Vg; [reflexivity|]. unfold lt in L2. rewrite Vg in L2. discriminate. }
  unfold lt in L1, L2. rewrite Vf, Vg in L1, L2. cbn [negb] in L1, L2.
  pose proof (tuple_gt_both_false _ _ L1 L2) as Id.
  unfold eq. rewrite Hc, Vf, Vg. cbn [andb].
  rewrite (allclose_same_length _ _ (identical_length _ _ Id)), (identical_close _ _ Id). simpl. discriminate.
Qed.

Lemma fit_dom_asym f g : fit_dom f g = true -> fit_dom g f = false.
Proof.
  unfold fit_dom. destruct f as [p s|v w], g as [q t|v' w'].
  - unfold dominates. destruct (gt (Single p s) (Single q t)) as [[|]|] eqn:E1; try discriminate.
    intros _. destruct (gt (Single q t) (Single p s)) as [[|]|] eqn:E2; try reflexivity.
    exfalso. eapply (gt_asym_same_class (Single p s) (Single q t)); eauto.
  - intros _. reflexivity.
  - simpl. discriminate.
  - simpl. destruct (dominates_loop false (wvalues v w) (wvalues v' w')) eqn:E1; [|discriminate].
    intros _. destruct (dominates_loop false (wvalues v' w') (wvalues v w)) eqn:E2; [|reflexivity].
    exfalso. eapply dominates_loop_asym; eauto.
Qed.

Lemma dom_asym : asym dom.
Proof. intros a b. apply fit_dom_asym. Qed.

(* on separated valid fitness values of one class, > is a strict weak order *)
Definition sep_pop (l : list ind) : Prop :=
  forall a b, In a l -> In b l ->
    same_class (fitness a) (fitness b) = true /\ valid (fitness a) = true /\
    sep_b (vals (fitness a)) (vals (fitness b)) = true.

Lemma lex_identical_l l m r : identical l m = true -> lex_lt_b l r = lex_lt_b m r.
Proof.
  unfold identical. revert m r; induction l as [|a l IH]; intros [|b m] r; simpl; try discriminate; [reflexivity|].
  intros H. apply andb_true_iff in H as [H1 H2]. apply Qeq_bool_iff in H1.
  destruct r as [|c r]; [reflexivity|].
  rewrite (Qeq_bool_comp a b c c H1 (Qeq_refl c)), (Qlt_b_comp a b c c H1 (Qeq_refl c)), (IH _ r H2). reflexivity.
Qed.

Lemma better_lex l a b : sep_pop l -> In a l -> In b l ->
  better a b = lex_lt_b (vals (fitness a)) (vals (fitness b)).
Proof.
  intros S Ha Hb. destruct (S a b Ha Hb) as (Hc & Hf & Hs). destruct (S b a Hb Ha) as (_ & Hg & _).
  unfold better, fit_better. rewrite (sep_gt _ _ Hc Hf Hg Hs).
  destruct (lex_lt_b (vals (fitness a)) (vals (fitness b))); reflexivity.
Qed.

Lemma better_swo_on_separated l : sep_pop l -> swo_on better l.
Proof.
  intros S. repeat split.
  - intros a Ha. rewrite (better_lex l a a S Ha Ha). apply lex_irrefl.
  - intros a b c Ha Hb Hc. rewrite (better_lex l a b S Ha Hb), (better_lex l b c S Hb Hc), (better_lex l a c S Ha Hc).
    apply lex_trans.
  - intros a b c Ha Hb Hc. rewrite (better_lex l a b S Ha Hb), (better_lex l b c S Hb Hc), (better_lex l a c S Ha Hc).
    intros H1 H2. destruct (lex_lt_b (vals (fitness a)) (vals (fitness c))) eqn:H3; [|reflexivity].
    destruct (S a b Ha Hb) as (_ & _ & Hs). pose proof (sep_length _ _ Hs) as L.
    rewrite (lex_trichotomy _ _ L) in H1. apply negb_false_iff, orb_true_iff in H1 as [H1|H1].
    + rewrite (lex_trans _ _ _ H1 H3) in H2. discriminate.
    + rewrite (lex_identical_l _ _ _ H1), H2 in H3. discriminate.
Qed.

(* ------------------------------------------------------------------ the wrapper *)
Section Contract.
  Variables bt dm : ind -> ind -> bool.

  Lemma tournament_total rounds inds pop_size :
    NoDup (map uid inds) -> pop_size <= length inds -> 1 <= length inds ->
    exists tr, tournament_trace bt rounds inds pop_size = Some tr /\
               tournament bt rounds inds pop_size = Some (map snd tr) /\ length tr = pop_size /\
               tour_rounds bt (group_size (length inds)) inds tr /\
               exists rest, Permutation (map snd tr ++ rest) inds.
  Proof.
    intros ND H1 H2. unfold tournament, tournament_trace.
    destruct (tour_loop_total bt (pop_size * 10) rounds (group_size (length inds)) pop_size inds ND)
      as (tr & E & L & P); try lia; [apply group_size_pos, H2|].
    exists tr. rewrite E. repeat split; auto. eapply tour_loop_rounds, E.
  Qed.

  Theorem selection_contract_g t o population pop_size :
    exists out, select_g bt dm t o population pop_size = Some out /\
      incl out population /\
      (2 <= n_distinct population ->
         NoDup (map uid out) /\ length out = Nat.min pop_size (n_distinct population)) /\
      (n_distinct population = 1 -> exists x, In x population /\ out = repeat x pop_size).
  Proof.
    unfold select_g, wrapper. pose proof (dedup_length population) as L.
    pose proof (dedup_NoDup population) as ND. pose proof (dedup_In population) as I.
    set (inds := dedup population) in *.
    destruct (Nat.eqb (length inds) 1) eqn:E1.
    - apply Nat.eqb_eq in E1. destruct inds as [|x [|y r]] eqn:Ei; simpl in E1; try lia.
      exists (list_times [x] pop_size). rewrite list_times_single.
      split; [reflexivity|]. split; [|split].
      + intros z Hz. apply repeat_spec in Hz. subst z. apply I. left. reflexivity.
      + simpl in L. lia.
      + intros _. exists x. split; [apply I; left; reflexivity|reflexivity].
    - apply Nat.eqb_neq in E1. destruct (length inds <=? pop_size) eqn:E2.
      + apply Nat.leb_le in E2. exists inds. split; [reflexivity|]. split; [exact I|split].
        * intros _. split; [exact ND|lia].
        * lia.
      + apply Nat.leb_gt in E2. destruct t.
        * destruct (tournament_total (so_rounds o) inds pop_size ND) as (tr & _ & E & Lt & _ & rest & P); try lia.
          exists (map snd tr). split; [exact E|]. split; [|split].
          -- intros z Hz. apply I. eapply Permutation_app_incl; eauto.
          -- intros _. split; [eapply Permutation_app_NoDup_map; eauto|rewrite map_length; lia].
          -- lia.
        * exists (spea2 dm (so_rank o) (so_del o) inds pop_size). split; [reflexivity|]. split; [|split].
          -- intros z Hz. apply I. eapply spea2_incl, Hz.
          -- intros _. split; [apply spea2_NoDup, ND|rewrite spea2_length; lia].
          -- lia.
  Qed.

  Theorem spea2_keeps_front_g o population pop_size out x :
    asym dm ->
    select_g bt dm Spea2 o population pop_size = Some out ->
    length (filter (nondominated dm (dedup population)) (dedup population)) <= pop_size ->
    In x (dedup population) -> nondominated dm (dedup population) x = true -> In x out.
  Proof.
    intros A. unfold select_g, wrapper. set (inds := dedup population).
    destruct (Nat.eqb (length inds) 1) eqn:E1.
    - apply Nat.eqb_eq in E1. destruct inds as [|y [|z r]] eqn:Ei; simpl in E1; try lia.
      intros E H Hx Hn. injection E as <-. destruct Hx as [<-|[]].
      cbn [filter] in H. rewrite Hn in H. cbn [length] in H.
      destruct pop_size; [lia|]. simpl. left. reflexivity.
    - destruct (length inds <=? pop_size) eqn:E2.
      + intros E _ Hx _. injection E as <-. exact Hx.
      + intros E H Hx Hn. injection E as <-. apply spea2_keeps_front_raw; auto.
  Qed.
End Contract.

(* ------------------------------------------------------------------ reflection of the oracle *)
Lemma nodup_uid_iff l : nodup_uid l = true <-> NoDup (map uid l).
Proof.
  induction l as [|x l IH]; simpl; [split; [constructor|reflexivity]|].
  rewrite andb_true_iff, negb_true_iff, IH. split.
  - intros [H1 H2]. constructor; [|exact H2]. intros C. apply mem_uid_iff in C. congruence.
  - intros H. inversion H as [|? ? Hn H']; subst. split; [|exact H'].
    destruct (mem_uid x l) eqn:E; [|reflexivity]. apply mem_uid_iff in E. contradiction.
Qed.

Lemma fit_eqb_refl f : fit_eqb f f = true.
Proof.
  destruct f as [[q|] s|v w]; simpl; rewrite ?identical_refl; try reflexivity.
  - assert (Qeq_bool q q = true) as -> by (apply Qeq_bool_iff; reflexivity). reflexivity.
Qed.
Lemma ind_eqb_refl x : ind_eqb x x = true.
Proof. unfold ind_eqb, same_uid. rewrite Nat.eqb_refl, fit_eqb_refl. reflexivity. Qed.
Lemma ind_eqb_uid x y : ind_eqb x y = true -> uid x = uid y.
Proof. unfold ind_eqb. intros H. apply andb_true_iff in H as [H _]. apply same_uid_iff, H. Qed.

(* subset_b decides "every output individual is (up to the representation of its rational
   fitness values) an individual of the input" *)
Lemma subset_b_iff out inp :
  subset_b out inp = true <-> forall x, In x out -> exists y, In y inp /\ ind_eqb x y = true.
Proof. unfold subset_b. rewrite forallb_forall. split; intros H x Hx; apply existsb_exists, H, Hx. Qed.

Lemma subset_b_of_incl out inp : incl out inp -> subset_b out inp = true.
Proof. intros I. apply subset_b_iff. intros x Hx. exists x. split; [apply I, Hx|apply ind_eqb_refl]. Qed.

Lemma inds_eqb_refl l : inds_eqb l l = true.
Proof. unfold inds_eqb. induction l as [|x l IH]; simpl; [reflexivity|]. rewrite ind_eqb_refl, IH. reflexivity. Qed.

(* the tournament clauses of the oracle hold of the model's output for every oracle *)
Theorem model_sel_holds_b_tournament o population pop_size :
  sel_holds_b Tournament population pop_size (select Tournament o population pop_size) = true.
Proof.
  destruct (selection_contract_g better dom Tournament o population pop_size) as (out & E & I & H2 & H1).
  unfold select. rewrite E. unfold sel_holds_b. rewrite (subset_b_of_incl _ _ I).
  assert (A : implb (2 <=? n_distinct population)
                    (nodup_uid out && Nat.eqb (length out) (Nat.min pop_size (n_distinct population))) = true).
  { unfold implb. destruct (2 <=? n_distinct population) eqn:D; [|reflexivity]. apply Nat.leb_le in D.
    destruct (H2 D) as [ND L]. cbn [negb orb]. apply andb_true_iff.
    split; [apply nodup_uid_iff, ND|apply Nat.eqb_eq, L]. }
  assert (B : implb (Nat.eqb (n_distinct population) 1) (Nat.eqb (length out) pop_size) = true).
  { unfold implb. destruct (Nat.eqb (n_distinct population) 1) eqn:D; [|reflexivity]. apply Nat.eqb_eq in D.
    destruct (H1 D) as (x & _ & ->). cbn [negb orb]. rewrite repeat_length. apply Nat.eqb_refl. }
  rewrite A, B. reflexivity.
Qed.

(* ------------------------------------------------------------------ soundness of tour_admits *)
Lemma firstn_sub {A} n (l : list A) x : In x (firstn n l) -> In x l.
Proof. intros H. rewrite <- (firstn_skipn n l). apply in_or_app. left. exact H. Qed.

Lemma fold_max_stays bt l m : (forall y, In y l -> bt y m = false) -> fold_left (max_step bt) l m = m.
Proof.
  induction l as [|y l IH]; simpl; intros H; [reflexivity|].
  unfold max_step at 2. rewrite (H y (or_introl eq_refl)). apply IH. intros z Hz. apply H. right. exact Hz.
Qed.

(* an output accepted by the rank condition is produced by some run of the tournament loop:
   there are groups (samples of the required size of the individuals not chosen so far) whose
   max() winners are exactly the observed individuals *)
Theorem tour_admits_sound bt gsize : 1 <= gsize -> forall out inds,
  NoDup (map uid inds) -> tour_admits bt gsize inds out = true ->
  exists tr, tour_rounds bt gsize inds tr /\ inds_eqb out (map snd tr) = true.
Proof.
  intros Hg. induction out as [|w out IH]; intros inds ND H; simpl in H.
  - exists []. split; [constructor|reflexivity].
  - destruct (find (ind_eqb w) inds) as [w'|] eqn:Ef; [|discriminate].
    apply find_some in Ef as [Hw Ew]. apply andb_true_iff in H as [Hc Hr]. apply Nat.leb_le in Hc.
    set (R := remove_first w' inds) in *. set (F := filter (fun x => negb (bt x w')) R) in *.
    set (s := Nat.min gsize (length inds)) in *.
    pose proof (remove_first_perm w' inds ND Hw) as P. fold R in P.
    assert (ND' : NoDup (map uid R)).
    { apply (Permutation_map uid) in P. apply Permutation_sym in P.
      pose proof (Permutation_NoDup P ND) as H. simpl in H. inversion H; assumption. }
    destruct (IH R ND' Hr) as (tr & Rd & Eq).
    assert (Ls : 1 <= s) by (subst s; destruct inds; [destruct Hw|simpl; lia]).
    set (g := w' :: firstn (s - 1) F).
    exists ((g, w') :: tr). split.
    + constructor.
      * exists (skipn (s - 1) F ++ filter (fun x => negb (negb (bt x w'))) R).
        subst g. simpl. eapply perm_trans; [|exact P]. apply perm_skip.
        rewrite app_assoc, firstn_skipn. apply filter_partition_perm.
      * subst g. simpl. rewrite firstn_length. lia.
      * subst g. simpl. f_equal. change (fun m y => if bt y m then y else m) with (max_step bt).
        apply fold_max_stays. intros y Hy. apply firstn_sub in Hy.
        subst F. apply filter_In in Hy as [_ Hy]. apply negb_true_iff, Hy.
      * exact Rd.
    + unfold inds_eqb in *. cbn [map snd forallb2]. rewrite Ew. exact Eq.
Qed.

(* ------------------------------------------------------------------ completeness of tour_admits *)
Lemma filter_perm_length {A} (p : A -> bool) l l' :
  Permutation l l' -> length (filter p l) = length (filter p l').
Proof.
  induction 1; simpl; auto; try congruence.
  - destruct (p x); simpl; congruence.
  - destruct (p x), (p y); reflexivity.
Qed.

Lemma filter_all_true {A} (p : A -> bool) l : (forall x, In x l -> p x = true) -> filter p l = l.
Proof.
  induction l as [|x l IH]; simpl; intros H; [reflexivity|].
  rewrite (H x (or_introl eq_refl)), IH; [reflexivity|]. intros y Hy. apply H. right. exact Hy.
Qed.

Lemma find_self inds b : NoDup (map uid inds) -> In b inds -> find (ind_eqb b) inds = Some b.
Proof.
  intros ND Hb. destruct (find (ind_eqb b) inds) as [w|] eqn:E.
  - apply find_some in E as [Hw E]. f_equal. symmetry.
    eapply NoDup_map_inj; eauto. apply ind_eqb_uid, E.
  - exfalso. pose proof (find_none _ _ E b Hb) as C. rewrite ind_eqb_refl in C. discriminate.
Qed.

(* on a strict weak order every run of the tournament loop passes the rank condition: the
   relation rejects no behaviour of the mechanism *)
Theorem tour_admits_complete bt gsize inds tr :
  NoDup (map uid inds) -> swo_on bt inds -> tour_rounds bt gsize inds tr ->
  tour_admits bt gsize inds (map snd tr) = true.
Proof.
  intros ND S R. induction R as [|inds g b tr [rest P] Lg Em R IH]; [reflexivity|].
  assert (Ig : incl g inds) by (eapply Permutation_app_incl, P).
  destruct (py_max_best bt g b (swo_on_incl _ _ _ Ig S) Em) as [Hbg Hbest].
  assert (Hb : In b inds) by (apply Ig, Hbg).
  cbn [map snd tour_admits]. rewrite (find_self inds b ND Hb).
  pose proof (remove_first_perm b inds ND Hb) as Pb.
  assert (ND' : NoDup (map uid (remove_first b inds))).
  { apply (Permutation_map uid) in Pb. apply Permutation_sym in Pb.
    pose proof (Permutation_NoDup Pb ND) as H. simpl in H. inversion H; assumption. }
  rewrite (IH ND' (swo_on_incl _ _ _ (remove_first_incl b inds) S)), andb_true_r.
  apply Nat.leb_le. rewrite <- Lg.
  destruct (in_split _ _ Hbg) as (g1 & g2 & Eg).
  assert (P0 : Permutation ((g1 ++ g2) ++ rest) (remove_first b inds)).
  { apply (Permutation_cons_inv (a := b)). eapply perm_trans; [|apply Permutation_sym, Pb].
    eapply perm_trans; [|exact P]. rewrite Eg. rewrite <- !app_assoc. simpl. apply Permutation_middle. }
  rewrite <- (filter_perm_length _ _ _ P0), filter_app, app_length.
  rewrite (filter_all_true _ (g1 ++ g2)).
  - rewrite Eg, !app_length. simpl. lia.
  - intros x Hx. apply negb_true_iff, Hbest. rewrite Eg. apply in_app_or in Hx as [Hx|Hx]; apply in_or_app; [left|right; right]; exact Hx.
Qed.

(* ------------------------------------------------------------------ SPEA-2: admitted outputs *)
Lemma inds_eqb_In_r l r x : inds_eqb l r = true -> In x r -> exists y, In y l /\ ind_eqb y x = true.
Proof.
  unfold inds_eqb. revert r; induction l as [|a l IH]; intros [|b r]; simpl; try discriminate; [intros _ []|].
  intros H [<-|Hx]; apply andb_true_iff in H as [H1 H2].
  - exists a. auto.
  - destruct (IH r H2 Hx) as (y & Hy & E). exists y. auto.
Qed.

Lemma mem_uid_of_eqb x y l : In y l -> ind_eqb y x = true -> mem_uid x l = true.
Proof.
  intros Hy E. apply mem_uid_iff. apply ind_eqb_uid in E. rewrite <- E. apply in_map, Hy.
Qed.

(* an output accepted by the SPEA-2 relation contains every non-dominated individual whenever
   the non-dominated ones all fit *)
Theorem spea2_admits_keeps_front dm inds pop_size out x :
  asym dm -> spea2_admits dm inds pop_size out = true ->
  length (filter (nondominated dm inds) inds) <= pop_size ->
  In x inds -> nondominated dm inds x = true -> mem_uid x out = true.
Proof.
  intros A H Hn Hx Hnd. unfold spea2_admits in H.
  set (ks := keyed dm inds) in *. set (front := map (fun kp => snd (snd kp)) (filter is_front ks)) in *.
  assert (Ln : length front = length (filter (nondominated dm inds) inds)).
  { subst front. rewrite map_length. apply front_count, A. }
  assert (Hf : In x front).
  { rewrite <- (keyed_proj dm inds) in Hx. apply in_map_iff in Hx as [kp [E Hk]].
    subst front. rewrite <- E. apply (in_map (fun kp => snd (snd kp))). apply filter_In. split; [exact Hk|].
    apply (front_iff_nondominated dm inds kp A Hk). rewrite E. exact Hnd. }
  destruct (length front <? pop_size) eqn:E1.
  - repeat (apply andb_true_iff in H as [H _]).
    destruct (inds_eqb_In_r _ _ x H Hf) as (y & Hy & E). eapply mem_uid_of_eqb; [eapply firstn_sub, Hy|exact E].
  - destruct (pop_size <? length front) eqn:E2; [apply Nat.ltb_lt in E2; lia|].
    destruct (inds_eqb_In_r _ _ x H Hf) as (y & Hy & E). eapply mem_uid_of_eqb; eauto.
Qed.

Lemma optQ_eqb_sym a b : optQ_eqb a b = optQ_eqb b a.
Proof. destruct a, b; simpl; try reflexivity. apply Qeq_bool_sym. Qed.
Lemma fit_eqb_sym f g : fit_eqb f g = fit_eqb g f.
Proof.
  destruct f, g; simpl; try reflexivity.
  - rewrite optQ_eqb_sym, identical_sym. reflexivity.
  - rewrite (identical_sym values), (identical_sym weights). reflexivity.
Qed.
Lemma ind_eqb_sym x y : ind_eqb x y = ind_eqb y x.
Proof. unfold ind_eqb, same_uid. rewrite Nat.eqb_sym, fit_eqb_sym. reflexivity. Qed.

Lemma inds_eqb_uids l r : inds_eqb l r = true -> map uid l = map uid r.
Proof.
  unfold inds_eqb. revert r; induction l as [|a l IH]; intros [|b r]; simpl; try discriminate; [reflexivity|].
  intros H. apply andb_true_iff in H as [H1 H2]. rewrite (ind_eqb_uid _ _ H1), (IH _ H2). reflexivity.
Qed.
Lemma inds_eqb_In_l l r x : inds_eqb l r = true -> In x l -> exists y, In y r /\ ind_eqb x y = true.
Proof.
  unfold inds_eqb. revert r; induction l as [|a l IH]; intros [|b r]; simpl; try discriminate; [intros _ []|].
  intros H [<-|Hx]; apply andb_true_iff in H as [H1 H2].
  - exists b. auto.
  - destruct (IH r H2 Hx) as (y & Hy & E). exists y. auto.
Qed.

Lemma subseq_b_spec l : forall s, subseq_b s l = true ->
  (forall x, In x s -> exists y, In y l /\ ind_eqb x y = true) /\
  (NoDup (map uid l) -> NoDup (map uid s) /\ forall u, In u (map uid s) -> In u (map uid l)).
Proof.
  induction l as [|y l IH]; intros [|x s]; simpl; try discriminate; intros H.
  - split; [intros _ []|intros _; split; [constructor|intros _ []]].
  - split; [intros _ []|intros _; split; [constructor|intros _ []]].
  - destruct (ind_eqb x y) eqn:E.
    + destruct (IH s H) as [I1 I2]. split.
      * intros z [<-|Hz]; [exists y; auto|]. destruct (I1 z Hz) as (w & Hw & Ew). exists w. auto.
      * intros ND. inversion ND as [|? ? Hn ND']; subst. destruct (I2 ND') as [N1 N2]. simpl.
        rewrite (ind_eqb_uid _ _ E). split.
        -- constructor; [intros C; apply Hn, N2, C|exact N1].
        -- intros u [<-|Hu]; [left; reflexivity|right; apply N2, Hu].
    + destruct (IH (x :: s) H) as [I1 I2]. split.
      * intros z Hz. destruct (I1 z Hz) as (w & Hw & Ew). exists w. auto.
      * intros ND. inversion ND as [|? ? Hn ND']; subst. destruct (I2 ND') as [N1 N2].
        split; [exact N1|]. intros u Hu. right. apply N2, Hu.
Qed.

(* an output accepted by the SPEA-2 relation is drawn from the individuals, repeat-free and
   of the requested size *)
Theorem spea2_admits_contract dm inds pop_size out :
  NoDup (map uid inds) -> spea2_admits dm inds pop_size out = true ->
  subset_b out inds = true /\ NoDup (map uid out) /\ length out = pop_size.
Proof.
  intros ND H. unfold spea2_admits in H.
  set (ks := keyed dm inds) in *.
  set (chosen := filter is_front ks) in *. set (rest := filter (fun kp => negb (is_front kp)) ks) in *.
  set (front := map (fun kp => snd (snd kp)) chosen) in *.
  assert (NDk : NoDup (map (fun kp => uid (proj kp)) ks)).
  { rewrite <- (map_map proj uid). unfold ks. rewrite keyed_proj. exact ND. }
  assert (Fi : incl front inds).
  { intros x Hx. subst front. apply in_map_iff in Hx as [kp [<- Hk]]. apply filter_In in Hk as [Hk _].
    rewrite <- (keyed_proj dm inds). apply (in_map proj), Hk. }
  assert (NDf : NoDup (map uid front)).
  { subst front. rewrite map_map. apply (filter_NoDup_map (fun kp => uid (proj kp))). exact NDk. }
  destruct (length front <? pop_size) eqn:E1.
  - apply Nat.ltb_lt in E1.
    apply andb_true_iff in H as [H _]. apply andb_true_iff in H as [H _].
    apply andb_true_iff in H as [H A4]. apply andb_true_iff in H as [H A3].
    apply andb_true_iff in H as [A1 A2]. apply Nat.eqb_eq in A2.
    set (n := length front) in *. set (fill := skipn n out) in *.
    assert (Lh : length (firstn n out) = n).
    { pose proof (f_equal (@length nat) (inds_eqb_uids _ _ A1)) as L. rewrite !map_length in L. exact L. }
    assert (Ffill : forall x, In x fill -> exists kp, In kp rest /\ ind_eqb (proj kp) x = true).
    { intros x Hx. rewrite forallb_forall in A3. specialize (A3 x Hx). unfold raw_of in A3.
      destruct (find (fun kp => ind_eqb (snd (snd kp)) x) rest) as [kp|] eqn:Ef; [|discriminate].
      apply find_some in Ef as [Hk Ek]. exists kp. auto. }
    split; [|split].
    + apply subset_b_iff. intros x Hx. rewrite <- (firstn_skipn n out) in Hx. apply in_app_or in Hx as [Hx|Hx].
      * destruct (inds_eqb_In_l _ _ x A1 Hx) as (y & Hy & E). exists y. split; [apply Fi, Hy|exact E].
      * destruct (Ffill x Hx) as (kp & Hk & E). exists (proj kp). split.
        -- subst rest. apply filter_In in Hk as [Hk _]. rewrite <- (keyed_proj dm inds). apply (in_map proj), Hk.
        -- rewrite ind_eqb_sym. exact E.
    + rewrite <- (firstn_skipn n out), map_app, (inds_eqb_uids _ _ A1). apply NoDup_app_intro.
      * exact NDf.
      * apply nodup_uid_iff, A4.
      * intros u Hu Hu'. apply in_map_iff in Hu' as [x [<- Hx]]. destruct (Ffill x Hx) as (kp & Hk & E).
        subst front. rewrite map_map in Hu. apply in_map_iff in Hu as [kp' [Eu Hk']].
        subst chosen rest. apply filter_In in Hk as [Hk Hnf]. apply filter_In in Hk' as [Hk' Hf].
        assert (kp' = kp).
        { apply (NoDup_map_inj (fun kp => uid (proj kp)) ks); auto. unfold proj. rewrite Eu.
          symmetry. apply ind_eqb_uid, E. }
        subst kp'. rewrite Hf in Hnf. discriminate.
    + rewrite <- (firstn_skipn n out), app_length, Lh. fold fill. lia.
  - apply Nat.ltb_ge in E1. destruct (pop_size <? length front) eqn:E2.
    + apply andb_true_iff in H as [H L]. apply Nat.eqb_eq in L.
      destruct (subseq_b_spec front out H) as [S1 S2]. destruct (S2 NDf) as [N1 _].
      split; [|split; [exact N1|exact L]].
      apply subset_b_iff. intros x Hx. destruct (S1 x Hx) as (y & Hy & E). exists y. split; [apply Fi, Hy|exact E].
    + apply Nat.ltb_ge in E2. split; [|split].
      * apply subset_b_iff. intros x Hx. destruct (inds_eqb_In_l _ _ x H Hx) as (y & Hy & E). exists y. split; [apply Fi, Hy|exact E].
      * rewrite (inds_eqb_uids _ _ H). exact NDf.
      * pose proof (f_equal (@length nat) (inds_eqb_uids _ _ H)) as L. rewrite !map_length in L. lia.
Qed.

(* ------------------------------------------------------------------ admits -> the property's clauses *)
Lemma tour_rounds_perm bt gsize inds tr :
  NoDup (map uid inds) -> tour_rounds bt gsize inds tr -> exists rest, Permutation (map snd tr ++ rest) inds.
Proof.
  intros ND R. induction R as [inds|inds g b tr [rest P] Lg Em R IH].
  - exists inds. apply Permutation_refl.
  - assert (Hb : In b inds) by (eapply Permutation_app_incl; [exact P|eapply py_max_In, Em]).
    pose proof (remove_first_perm b inds ND Hb) as Pb.
    assert (ND' : NoDup (map uid (remove_first b inds))).
    { apply (Permutation_map uid) in Pb. apply Permutation_sym in Pb.
      pose proof (Permutation_NoDup Pb ND) as H. simpl in H. inversion H; assumption. }
    destruct (IH ND') as [r' P']. exists r'. simpl. eapply perm_trans; [apply perm_skip, P'|exact Pb].
Qed.

Theorem tour_admits_contract bt gsize inds out :
  1 <= gsize -> NoDup (map uid inds) -> tour_admits bt gsize inds out = true ->
  subset_b out inds = true /\ NoDup (map uid out).
Proof.
  intros Hg ND H. destruct (tour_admits_sound bt gsize Hg out inds ND H) as (tr & R & E).
  destruct (tour_rounds_perm bt gsize inds tr ND R) as [rest P]. split.
  - apply subset_b_iff. intros x Hx. destruct (inds_eqb_In_l _ _ x E Hx) as (y & Hy & Ey).
    exists y. split; [eapply Permutation_app_incl; eauto|exact Ey].
  - rewrite (inds_eqb_uids _ _ E). eapply Permutation_app_NoDup_map; eauto.
Qed.

Definition consistent (l : list ind) : Prop := forall a b, In a l -> In b l -> uid a = uid b -> a = b.

Lemma dedup_In_rev l x : consistent l -> In x l -> In x (dedup l).
Proof.
  intros C Hx. assert (Hu : In (uid x) (map uid (dedup l))) by (apply dedup_uids, in_map, Hx).
  apply in_map_iff in Hu as [y [E Hy]]. rewrite <- (C y x (dedup_In _ _ Hy) Hx E). exact Hy.
Qed.

Lemma subset_b_trans_incl out a b : subset_b out a = true -> incl a b -> subset_b out b = true.
Proof.
  rewrite !subset_b_iff. intros H I x Hx. destruct (H x Hx) as (y & Hy & E). exists y. split; [apply I, Hy|exact E].
Qed.

Lemma n_distinct_pos l x : In x l -> 1 <= n_distinct l.
Proof.
  intros H. unfold n_distinct.
  assert (In (uid x) (distinct_uids (map uid l))) by (apply distinct_uids_In, in_map, H).
  destruct (distinct_uids (map uid l)); [contradiction|simpl; lia].
Qed.

Lemma nondominated_ext dm l l' x : (forall y, In y l <-> In y l') -> nondominated dm l x = nondominated dm l' x.
Proof.
  intros H. unfold nondominated.
  destruct (forallb (fun y => negb (dm y x)) l) eqn:E1, (forallb (fun y => negb (dm y x)) l') eqn:E2; try reflexivity.
  - rewrite forallb_forall in E1. assert (forallb (fun y => negb (dm y x)) l' = true) by (apply forallb_forall; intros y Hy; apply E1, H, Hy). congruence.
  - rewrite forallb_forall in E2. assert (forallb (fun y => negb (dm y x)) l = true) by (apply forallb_forall; intros y Hy; apply E2, H, Hy). congruence.
Qed.

(* whatever the decidable relation admits satisfies the executable clauses of the property
   (populations in which equal uids mean equal individuals) *)
Theorem sel_admits_holds t population pop_size out :
  consistent population -> sel_admits t population pop_size out = true ->
  sel_holds_b t population pop_size out = true.
Proof.
  intros C H. destruct out as [out|]; [|discriminate]. unfold sel_admits in H. unfold sel_holds_b.
  pose proof (dedup_length population) as L. pose proof (dedup_NoDup population) as ND.
  pose proof (dedup_In population) as I.
  set (inds := dedup population) in *. set (d := n_distinct population) in *.
  assert (Iff : forall y, In y inds <-> In y population) by (intros y; split; [apply I|apply dedup_In_rev, C]).
  (* the three size/containment clauses and the SPEA-2 clause, established per branch *)
  assert (Goal : subset_b out population = true /\
                 (2 <= d -> nodup_uid out = true /\ length out = Nat.min pop_size d) /\
                 (d = 1 -> length out = pop_size) /\
                 (t = Spea2 -> forall y, In y population -> nondominated dom population y = true ->
                    n_distinct (filter (nondominated dom population) population) <= pop_size -> mem_uid y out = true)).
  { destruct (Nat.eqb (length inds) 1) eqn:E1.
    - apply Nat.eqb_eq in E1. destruct inds as [|x [|z r]] eqn:Ei; simpl in E1; try lia.
      rewrite list_times_single in H. assert (Hx : In x population) by (apply I; left; reflexivity).
      pose proof (f_equal (@length nat) (inds_eqb_uids _ _ H)) as Lo. rewrite !map_length, repeat_length in Lo.
      split; [|split; [|split]].
      + apply subset_b_iff. intros y Hy. destruct (inds_eqb_In_l _ _ y H Hy) as (w & Hw & E).
        apply repeat_spec in Hw. subst w. exists x. auto.
      + simpl in L. lia.
      + intros _. exact Lo.
      + intros _ y Hy Hnd Hc.
        assert (1 <= pop_size).
        { eapply Nat.le_trans; [|exact Hc]. apply (n_distinct_pos _ y). apply filter_In. auto. }
        destruct out as [|o0 out]; [simpl in Lo; lia|].
        unfold inds_eqb in H. destruct pop_size; [lia|]. simpl in H. apply andb_true_iff in H as [H _].
        apply Iff in Hy. destruct Hy as [<-|[]]. apply (mem_uid_of_eqb _ o0); [left; reflexivity|exact H].
    - apply Nat.eqb_neq in E1. destruct (length inds <=? pop_size) eqn:E2.
      + apply Nat.leb_le in E2. pose proof (inds_eqb_uids _ _ H) as U.
        pose proof (f_equal (@length nat) U) as Lo. rewrite !map_length in Lo.
        split; [|split; [|split]].
        * apply subset_b_iff. intros y Hy. destruct (inds_eqb_In_l _ _ y H Hy) as (w & Hw & E). exists w. split; [apply I, Hw|exact E].
        * intros _. split; [apply nodup_uid_iff; rewrite U; exact ND|lia].
        * lia.
        * intros _ y Hy _ _. apply mem_uid_iff. rewrite U. apply in_map, Iff, Hy.
      + apply Nat.leb_gt in E2. destruct t.
        * apply andb_true_iff in H as [Lo H]. apply Nat.eqb_eq in Lo.
          assert (Hg : 1 <= group_size (length inds)) by (apply group_size_pos; lia).
          destruct (tour_admits_contract better _ inds out Hg ND H) as [S N].
          split; [eapply subset_b_trans_incl; [exact S|intros y; apply I]|]. split; [|split].
          -- intros _. split; [apply nodup_uid_iff, N|lia].
          -- lia.
          -- discriminate.
        * destruct (spea2_admits_contract dom inds pop_size out ND H) as (S & N & Lo).
          split; [eapply subset_b_trans_incl; [exact S|intros y; apply I]|]. split; [|split].
          -- intros _. split; [apply nodup_uid_iff, N|lia].
          -- lia.
          -- intros _ y Hy Hnd Hc.
             apply (spea2_admits_keeps_front dom inds pop_size out y dom_asym H); [|apply Iff, Hy|].
             ++ eapply Nat.le_trans; [|exact Hc]. unfold n_distinct.
                rewrite <- (map_length uid (filter _ inds)).
                apply NoDup_incl_length; [apply filter_NoDup_map, ND|].
                intros u Hu. apply distinct_uids_In. apply in_map_iff in Hu as [z [<- Hz]].
                apply filter_In in Hz as [Hz Hn]. apply in_map, filter_In. split; [apply Iff, Hz|].
                rewrite <- (nondominated_ext dom inds population z Iff). exact Hn.
             ++ rewrite (nondominated_ext dom inds population y Iff). exact Hnd. }
  destruct Goal as (G1 & G2 & G3 & G4). rewrite G1. cbn [andb].
  assert (A : implb (2 <=? d) (nodup_uid out && Nat.eqb (length out) (Nat.min pop_size d)) = true).
  { unfold implb. destruct (2 <=? d) eqn:D; [|reflexivity]. apply Nat.leb_le in D. destruct (G2 D) as [N Lo].
    rewrite N, Lo, Nat.eqb_refl. reflexivity. }
  assert (B : implb (Nat.eqb d 1) (Nat.eqb (length out) pop_size) = true).
  { unfold implb. destruct (Nat.eqb d 1) eqn:D; [|reflexivity]. apply Nat.eqb_eq in D. rewrite (G3 D), Nat.eqb_refl. reflexivity. }
  rewrite A, B. cbn [andb]. destruct t; [reflexivity|]. unfold implb.
  destruct (n_distinct (filter (nondominated dom population) population) <=? pop_size) eqn:D; [|reflexivity].
  apply Nat.leb_le in D. cbn [negb orb]. apply forallb_forall. intros y Hy. apply filter_In in Hy as [Hy Hn].
  apply G4; auto.
Qed.
