(* C17 - subgraph_crossover (Evo/Crossovers.v): both children are well-formed for all choices. *)
From Coq Require Import List Arith Bool Lia.
From GolemV Require Import Graph.Heap Graph.Ops Graph.OpsSpec Graph.OpsBase Graph.OpsDfs Graph.OpsProofs
  Graph.OpsProofs2 Graph.OpsChar Graph.OpsAcyclic Evo.Mutations Evo.MutationsProofs Evo.Crossovers
  Evo.CrossoversProofs.
Import ListNotations.

(* ------------------------------------------------------------------ disconnect_nodes without clean-up *)
(* total on every pair of references; touches at most the cell of a member *)
Lemma disconnect_total : forall h g p c, WF h g ->
  exists h', disconnect_nodes h g p c false = Ok (h', g) /\ WF h' g /\ length h' = length h /\
    (forall r, ~ In r g -> get h' r = get h r).
Proof.
  intros h g p c W. unfold disconnect_nodes.
  destruct (memb p (pars h c)) eqn:M; cbn [negb]; [|exists h; auto].
  destruct (memb p g) eqn:Mp; cbn [negb orb]; [|exists h; auto].
  destruct (memb c g) eqn:Mc; cbn [negb orb]; [|exists h; auto].
  apply memb_In in M. apply memb_In in Mp. apply memb_In in Mc.
  destruct (disconnect_WF h g p c false W Mp Mc) as [s' [E W']].
  unfold disconnect_nodes in E.
  pose proof M as M'. apply memb_In in M'. rewrite M' in E. cbn [negb] in E.
  pose proof Mp as Mp'. apply memb_In in Mp'. pose proof Mc as Mc'. apply memb_In in Mc'.
  rewrite Mp', Mc' in E. cbn [negb orb] in E.
  destruct (list_remove_ok p (pars h c) M) as [ps Eps]. rewrite Eps in *. cbn [bind] in *.
  inversion E; subst s'. simpl in W'.
  exists (set_pars h c ps). split; [reflexivity|]. split; [exact W'|]. split; [apply length_set_pars|].
  intros r Hr. unfold set_pars. apply get_upd_neq. intros <-. tauto.
Qed.

Lemma cut_all_good : forall cuts h g, WF h g ->
  exists h', cut_all cuts (h, g) = Ok (h', g) /\ WF h' g /\ length h' = length h /\
    (forall r, ~ In r g -> get h' r = get h r).
Proof.
  induction cuts as [|[a b] t IH]; intros h g W; simpl.
  - exists h. auto.
  - unfold cut_pair. cbn [fst snd].
    assert (X : exists h1, (if memb a (pars h b) then disconnect_nodes h g a b false
                            else disconnect_nodes h g b a false) = Ok (h1, g) /\ WF h1 g /\
                           length h1 = length h /\ (forall r, ~ In r g -> get h1 r = get h r)).
    { destruct (memb a (pars h b)); apply disconnect_total; exact W. }
    destruct X as [h1 [E1 [W1 [L1 F1]]]]. rewrite E1. cbn [bind].
    destruct (IH h1 g W1) as [h2 [E2 [W2 [L2 F2]]]].
    exists h2. split; [exact E2|]. split; [exact W2|]. split; [lia|].
    intros r Hr. rewrite (F2 r Hr). apply F1. exact Hr.
Qed.

(* ------------------------------------------------------------------ a parent-closed part of a WF graph *)
Lemma WF_sub : forall h g X, WF h g -> NoDup X -> incl X g ->
  (forall r p, In r X -> In p (pars h r) -> In p X) -> WF h X.
Proof.
  intros h g X W ND I CL. apply (WF_repars h g h X); auto.
  - apply (wf_heap _ _ W).
  - intros r Hr. apply (wf_uniq _ _ W). apply I. exact Hr.
  - intros r Hr. apply (wf_pnodup _ _ W). apply I. exact Hr.
Qed.

Lemma WF_same_members : forall h g g', WF h g -> NoDup g' -> (forall x, In x g' <-> In x g) -> WF h g'.
Proof.
  intros h g g' W ND E. apply (WF_sub h g g' W ND).
  - intros x Hx. apply E. exact Hx.
  - intros r p Hr Hp. apply E. eapply (wf_closed _ _ W); [apply E; exact Hr|exact Hp].
Qed.

(* ------------------------------------------------------------------ undirected components *)
Lemma nbrs_in : forall h g x q, WF h g -> In x g -> In q (nbrs h g x) -> In q g.
Proof.
  intros h g x q W Hx Hq. unfold nbrs in Hq. apply in_app_or in Hq. destruct Hq as [Hq|Hq].
  - eapply (wf_closed _ _ W); eauto.
  - apply node_children_In in Hq. tauto.
Qed.

Lemma nbrs_sym : forall h g x q, In x g -> In q g -> In q (nbrs h g x) -> In x (nbrs h g q).
Proof.
  intros h g x q Hx Hqg Hq. unfold nbrs in *. apply in_app_or in Hq. apply in_or_app. destruct Hq as [Hq|Hq].
  - right. apply node_children_In. split; assumption.
  - left. apply node_children_In in Hq. tauto.
Qed.

Lemma reach_nbrs_in : forall h g a b, WF h g -> reachP (nbrs h g) a b -> In a g -> In b g.
Proof.
  intros h g a b W R. induction R as [a|a p b Hp Hr IH]; intros Ha; [exact Ha|].
  apply IH. eapply nbrs_in; eauto.
Qed.

Lemma reach_nbrs_sym : forall h g a b, WF h g -> reachP (nbrs h g) a b -> In a g -> reachP (nbrs h g) b a.
Proof.
  intros h g a b W R. induction R as [a|a p b Hp Hr IH]; intros Ha; [constructor|].
  assert (Hpg : In p g) by (eapply nbrs_in; eauto).
  eapply reachP_trans; [apply IH; exact Hpg|].
  econstructor; [|constructor]. apply nbrs_sym; assumption.
Qed.

Lemma component_good : forall h g x, WF h g -> In x g ->
  exists c, component h g x = Ok c /\ NoDup c /\ In x c /\
    (forall m, In m c -> reachP (nbrs h g) x m) /\
    (forall m q, In m c -> In q (nbrs h g m) -> In q c).
Proof.
  intros h g x W Hx. unfold component.
  set (U := seq 0 (length h)).
  assert (HU : forall y, In y U -> incl (nbrs h g y) U).
  { intros y Hy q Hq. apply in_seq in Hy. apply in_seq. unfold nbrs in Hq. apply in_app_or in Hq.
    destruct Hq as [Hq|Hq].
    - pose proof (wf_heap _ _ W y q (proj2 Hy) Hq). lia.
    - apply node_children_In in Hq. pose proof (wf_valid _ _ W q (proj1 Hq)). lia. }
  destruct (dfs_add_fuel (nbrs h g) U HU (S (length h)) [] x) as [c [E [ND _]]].
  - constructor.
  - intros y [].
  - apply in_seq. pose proof (wf_valid _ _ W x Hx). lia.
  - unfold U. rewrite seq_length. simpl. lia.
  - exists c. split; [exact E|]. split; [exact ND|].
    destruct (dfs_add_closed _ _ _ _ _ E) as [_ [Hxc CL]].
    split; [exact Hxc|]. split.
    + intros m Hm. destruct (dfs_add_sound _ _ _ _ _ E m Hm) as [[]|R]. exact R.
    + intros m q Hm Hq. destruct (CL m Hm) as [[]|I]. apply I. exact Hq.
Qed.

Lemma in_order_In : forall g c x, In x (in_order g c) <-> In x g /\ In x c.
Proof. intros. unfold in_order. rewrite filter_In, memb_In. tauto. Qed.

(* the listed component is a well-formed graph of its own *)
Lemma component_WF : forall h g x c, WF h g -> In x g -> component h g x = Ok c ->
  WF h (in_order g c) /\ (forall m, In m (in_order g c) <-> In m c) /\ incl (in_order g c) g.
Proof.
  intros h g x c W Hx E.
  destruct (component_good h g x W Hx) as [c' [E' [ND [Hxc [RS CL]]]]]. rewrite E in E'. inversion E'; subst c'.
  assert (CG : forall m, In m c -> In m g).
  { intros m Hm. eapply reach_nbrs_in; [exact W|apply RS; exact Hm|exact Hx]. }
  assert (M : forall m, In m (in_order g c) <-> In m c).
  { intros m. rewrite in_order_In. split; [tauto|]. intros Hm. split; [apply CG; exact Hm|exact Hm]. }
  split; [|split; [exact M|]].
  - apply (WF_sub h g); [exact W|apply NoDup_filter; apply (wf_nodup _ _ W)| |].
    + intros m Hm. apply in_order_In in Hm. tauto.
    + intros r p Hr Hp. apply M. apply M in Hr. apply (CL r p Hr). unfold nbrs. apply in_or_app. left. exact Hp.
  - intros m Hm. apply in_order_In in Hm. tauto.
Qed.

(* two components are equal or disjoint; here: the target is outside the source's component *)
Lemma components_disjoint : forall h g s t cs ct, WF h g -> In s g -> In t g ->
  component h g s = Ok cs -> component h g t = Ok ct -> ~ In t cs ->
  forall m, In m cs -> In m ct -> False.
Proof.
  intros h g s t cs ct W Hs Ht Es Et N m Hms Hmt.
  destruct (component_good h g s W Hs) as [c1 [E1 [_ [_ [_ CL1]]]]]. rewrite Es in E1. inversion E1; subst c1.
  destruct (component_good h g t W Ht) as [c2 [E2 [_ [_ [RS2 _]]]]]. rewrite Et in E2. inversion E2; subst c2.
  pose proof (RS2 m Hmt) as R. apply (reach_nbrs_sym h g t m W) in R; [|exact Ht].
  apply N. clear -R Hms CL1. induction R as [a|a p b Hp Hr IH]; [exact Hms|].
  apply IH. eapply CL1; eauto.
Qed.

(* ------------------------------------------------------------------ a graph without links: the copies *)
Lemma edges_nil_pars : forall h g, edges h g = [] -> forall r, In r g -> pars h r = [].
Proof.
  intros h g E r Hr. destruct (pars h r) as [|p t] eqn:EP; [reflexivity|exfalso].
  assert (X : In (r, p) (edges h g)).
  { unfold edges. apply in_flat_map. exists r. split; [exact Hr|]. rewrite EP. left. reflexivity. }
  rewrite E in X. destruct X.
Qed.

Lemma null_nil : forall {A} (l : list A), null l = true -> l = [].
Proof. intros A [|x t]; simpl; [reflexivity|discriminate]. Qed.

Lemma get_copies : forall h (g : list ref) i, i < length g -> get (h ++ map (get h) g) (length h + i) = get h (nth i g 0).
Proof.
  intros h g i L. rewrite get_app_r. unfold get at 1.
  rewrite nth_indep with (d' := get h 0) by (rewrite map_length; exact L).
  apply (map_nth (get h) g 0 i).
Qed.

Lemma copies_WF : forall h g, WF h g -> edges h g = [] ->
  let h' := h ++ map (get h) g in let C := seq (length h) (length g) in
  heap_ok h' /\ WF h' C /\ (forall r, In r C -> pars h' r = []).
Proof.
  intros h g W E h' C.
  assert (PC : forall r, In r C -> exists i, i < length g /\ r = length h + i /\ get h' r = get h (nth i g 0) /\ In (nth i g 0) g).
  { intros r Hr. unfold C in Hr. apply in_seq in Hr. exists (r - length h).
    assert (L : r - length h < length g) by lia. split; [exact L|]. split; [lia|]. split.
    - replace r with (length h + (r - length h)) at 1 by lia. apply get_copies. exact L.
    - apply nth_In. exact L. }
  assert (P0 : forall r, In r C -> pars h' r = []).
  { intros r Hr. destruct (PC r Hr) as [i [_ [_ [G Hi]]]]. unfold pars. rewrite G.
    apply (edges_nil_pars h g E _ Hi). }
  assert (HK : heap_ok h').
  { intros r p Hr Hp. unfold h' in *. rewrite app_length, map_length in *.
    destruct (Nat.lt_ge_cases r (length h)) as [L|L].
    - rewrite pars_app_l in Hp by exact L. pose proof (wf_heap _ _ W r p L Hp). lia.
    - assert (Hc : In r C) by (unfold C; apply in_seq; lia). rewrite (P0 r Hc) in Hp. destruct Hp. }
  split; [exact HK|]. split; [|exact P0].
  constructor.
  - exact HK.
  - apply seq_NoDup.
  - intros r Hr. unfold C in Hr. apply in_seq in Hr. unfold h'. rewrite app_length, map_length. lia.
  - intros a b Ha Hb EU.
    destruct (PC a Ha) as [i [Li [-> [Ga Hia]]]]. destruct (PC b Hb) as [j [Lj [-> [Gb Hjb]]]].
    rewrite Ga, Gb in EU. pose proof (wf_uid _ _ W _ _ Hia Hjb EU) as X.
    apply (proj1 (NoDup_nth g 0) (wf_nodup _ _ W) i j Li Lj) in X. subst. reflexivity.
  - intros r Hr. rewrite (P0 r Hr). constructor.
  - intros r Hr. destruct (PC r Hr) as [i [_ [_ [G Hi]]]]. rewrite G. apply (wf_uniq _ _ W). exact Hi.
  - intros r p Hr Hp. rewrite (P0 r Hr) in Hp. destruct Hp.
Qed.

(* ------------------------------------------------------------------ uid renewal in connect_subgraphs *)
Lemma renew_two : forall h A B, WF h A -> WF h B -> (forall x, In x A -> In x B -> False) ->
  let h1 := renew_uids (map (fun r => uid (get h r)) A) B h in
  length h1 = length h /\
  (forall r, pars h1 r = pars h r) /\
  (forall r, ~ In r B -> get h1 r = get h r) /\
  WF h1 A /\ WF h1 B /\ WF h1 (A ++ B) /\ (forall T, WF h T -> WF h1 T).
Proof.
  intros h A B WA WB D h1.
  destruct (renew_spec (map (fun r => uid (get h r)) A) B h (wf_nodup _ _ WB) (wf_valid _ _ WB)) as [L [F [NB [FR UI]]]].
  { intros u Hu. apply in_map_iff in Hu. destruct Hu as [x [<- Hx]]. exists x. split; [|reflexivity].
    intros X. eapply D; eauto. }
  fold h1 in L, F, NB, FR, UI.
  assert (P : forall r, pars h1 r = pars h r).
  { intros r. unfold pars. destruct (F r) as [A1 _]. exact A1. }
  assert (Q : forall r, uniq (get h1 r) = uniq (get h r)).
  { intros r. destruct (F r) as [_ [_ A3]]. exact A3. }
  assert (HK : heap_ok h1).
  { intros r p Hr Hp. rewrite L in *. rewrite P in Hp. eapply (wf_heap _ _ WA); eauto. }
  assert (GA : forall r, In r A -> get h1 r = get h r).
  { intros r Hr. apply NB. intros X. eapply D; eauto. }
  assert (WT : forall T, WF h T -> WF h1 T).
  { intros T WT. constructor.
    - exact HK.
    - apply (wf_nodup _ _ WT).
    - intros r Hr. rewrite L. apply (wf_valid _ _ WT). exact Hr.
    - apply UI. apply (wf_uid _ _ WT).
    - intros r Hr. rewrite P. apply (wf_pnodup _ _ WT). exact Hr.
    - intros r Hr. rewrite Q. apply (wf_uniq _ _ WT). exact Hr.
    - intros r p Hr Hp. rewrite P in Hp. eapply (wf_closed _ _ WT); eauto. }
  assert (WA1 : WF h1 A) by (apply WT; exact WA).
  assert (WB1 : WF h1 B) by (apply WT; exact WB).
  split; [exact L|]. split; [exact P|]. split; [exact NB|]. split; [exact WA1|]. split; [exact WB1|].
  split; [|exact WT].
  constructor.
  - exact HK.
  - apply NoDup_app_intro; [apply (wf_nodup _ _ WA)|apply (wf_nodup _ _ WB)|exact D].
  - intros r Hr. apply in_app_or in Hr. destruct Hr as [Hr|Hr]; [apply (wf_valid _ _ WA1)|apply (wf_valid _ _ WB1)]; exact Hr.
  - intros a b Ha Hb E. apply in_app_or in Ha. apply in_app_or in Hb.
    assert (X : forall x y, In x A -> In y B -> uid (get h1 x) = uid (get h1 y) -> False).
    { intros x y Hx Hy EU. apply (FR y Hy). rewrite <- EU, (GA x Hx). apply in_map_iff. exists x. auto. }
    destruct Ha as [Ha|Ha]; destruct Hb as [Hb|Hb].
    + apply (wf_uid _ _ WA1); assumption.
    + exfalso. eapply X; eauto.
    + exfalso. eapply X; eauto.
    + apply (wf_uid _ _ WB1); assumption.
  - intros r Hr. apply in_app_or in Hr. destruct Hr as [Hr|Hr]; [apply (wf_pnodup _ _ WA1)|apply (wf_pnodup _ _ WB1)]; exact Hr.
  - intros r Hr. apply in_app_or in Hr. destruct Hr as [Hr|Hr]; [apply (wf_uniq _ _ WA1)|apply (wf_uniq _ _ WB1)]; exact Hr.
  - intros r p Hr Hp. apply in_app_or in Hr. apply in_or_app. destruct Hr as [Hr|Hr]; [left; eapply (wf_closed _ _ WA1)|right; eapply (wf_closed _ _ WB1)]; eauto.
Qed.

(* ------------------------------------------------------------------ OptGraph([*first, *second]) *)
Lemma add_all_good : forall h L, WF h L -> forall t acc, NoDup acc -> incl acc L -> incl t L ->
  exists g', add_all h t acc = Ok g' /\ NoDup g' /\ incl acc g' /\ incl t g' /\ incl g' L.
Proof.
  intros h L W. induction t as [|n t IH]; intros acc ND IA IT; simpl.
  - exists acc. split; [reflexivity|]. split; [exact ND|]. split; [apply incl_refl|]. split; [intros x []|exact IA].
  - assert (Hn : In n L) by (apply IT; left; reflexivity).
    destruct (add_node_g_ok h acc n (wf_heap _ _ W) ND) as [g1 E1].
    { intros r Hr. apply (wf_valid _ _ W). apply IA. exact Hr. }
    { apply (wf_valid _ _ W). exact Hn. }
    rewrite E1. cbn [bind]. unfold add_node_g in E1.
    pose proof (dfs_add_nodup _ _ _ _ _ E1 ND) as ND1.
    destruct (dfs_add_closed _ _ _ _ _ E1) as [I1 [Hn1 _]].
    assert (IL : incl g1 L).
    { intros m Hm. destruct (dfs_add_sound _ _ _ _ _ E1 m Hm) as [X|R]; [apply IA; exact X|].
      exact (reach_closed_set h (fun x => In x L) n m R Hn (wf_closed _ _ W)). }
    destruct (IH g1 ND1 IL) as [g' [E' [ND' [I' [T' L']]]]].
    { intros x Hx. apply IT. right. exact Hx. }
    exists g'. split; [exact E'|]. split; [exact ND'|]. split; [|split; [|exact L']].
    + intros x Hx. apply I'. apply I1. exact Hx.
    + intros x [<-|Hx]; [apply I'; exact Hn1|apply T'; exact Hx].
Qed.

(* ------------------------------------------------------------------ the random connections *)
Lemma connect_frame : forall h g p c h' g', connect_nodes h g p c = Ok (h', g') ->
  g' = g /\ length h' = length h /\ forall r, r <> c -> get h' r = get h r.
Proof.
  intros h g p c h' g' E. unfold connect_nodes in E.
  destruct (memb c (node_children h g p)); inversion E; subst; [auto|].
  split; [reflexivity|]. split; [apply length_set_pars|]. intros r N. unfold set_pars. apply get_upd_neq. auto.
Qed.

Lemma remove_nth_incl : forall i (l : list ref) x, In x (remove_nth i l) -> In x l.
Proof.
  induction i as [|i IH]; intros [|a t] x Hx; simpl in *; auto. destruct Hx as [<-|Hx]; [auto|right; apply IH; exact Hx].
Qed.

Lemma connect_loop_good : forall num conns fp sp h g, WF h g -> incl fp g -> incl sp g ->
  match connect_loop num conns fp sp (h, g) with
  | Ok s' => WF (fst s') (snd s') /\ snd s' = g /\ length (fst s') = length h /\
             (forall r, ~ In r g -> get (fst s') r = get h r) /\ (num = 0 -> fst s' = h)
  | Raise e => e = Unmodelled
  end.
Proof.
  induction num as [|k IH]; intros conns fp sp h g W If Is; simpl.
  - split; [exact W|]. split; [reflexivity|]. split; [reflexivity|]. split; auto.
  - destruct conns as [|[[i j] coin] rest]; [reflexivity|].
    destruct (nth_error fp i) as [a|] eqn:Ea; [|reflexivity].
    destruct (nth_error sp j) as [b|] eqn:Eb; [|reflexivity].
    assert (Ha : In a g) by (apply If; eapply nth_error_In; eauto).
    assert (Hb : In b g) by (apply Is; eapply nth_error_In; eauto).
    cbn [fst snd].
    assert (X : exists h1, (if coin then connect_nodes h g a b else connect_nodes h g b a) = Ok (h1, g) /\ WF h1 g /\
                length h1 = length h /\ (forall r, ~ In r g -> get h1 r = get h r)).
    { destruct coin.
      - destruct (connect_WF h g a b W Ha Hb) as [h1 [E1 W1]]. exists h1. split; [exact E1|]. split; [exact W1|].
        destruct (connect_frame _ _ _ _ _ _ E1) as [_ [L F]]. split; [exact L|]. intros r Hr. apply F. intros ->. tauto.
      - destruct (connect_WF h g b a W Hb Ha) as [h1 [E1 W1]]. exists h1. split; [exact E1|]. split; [exact W1|].
        destruct (connect_frame _ _ _ _ _ _ E1) as [_ [L F]]. split; [exact L|]. intros r Hr. apply F. intros ->. tauto. }
    destruct X as [h1 [E1 [W1 [L1 F1]]]]. rewrite E1. cbn [bind].
    specialize (IH rest (remove_nth i fp) (remove_nth j sp) h1 g W1).
    destruct (connect_loop k rest (remove_nth i fp) (remove_nth j sp) (h1, g)) as [s'|e].
    + destruct IH as [A [B [C [D _]]]].
      * intros x Hx. apply If. eapply remove_nth_incl; eauto.
      * intros x Hx. apply Is. eapply remove_nth_incl; eauto.
      * split; [exact A|]. split; [exact B|]. split; [lia|]. split; [|discriminate].
        intros r Hr. rewrite (D r Hr). apply F1. exact Hr.
    + apply IH.
      * intros x Hx. apply If. eapply remove_nth_incl; eauto.
      * intros x Hx. apply Is. eapply remove_nth_incl; eauto.
Qed.

(* ------------------------------------------------------------------ connect_subgraphs *)
(* two disjoint well-formed node sets over one heap, whatever their uids *)
Lemma connect_subgraphs_good : forall h A B dA dB conns, WF h A -> WF h B ->
  (forall x, In x A -> In x B -> False) ->
  match connect_subgraphs h A B dA dB conns with
  | Ok s' => WF (fst s') (snd s') /\ (forall x, In x (snd s') <-> In x A \/ In x B) /\
             length (fst s') = length h /\
             (forall r, ~ In r A -> ~ In r B -> get (fst s') r = get h r) /\
             (filter (fun r => memb r dA) A = [] \/ filter (fun r => memb r dB) B = [] ->
                forall T, WF h T -> WF (fst s') T)
  | Raise e => e = Unmodelled
  end.
Proof.
  intros h A B dA dB conns WA WB D. unfold connect_subgraphs.
  destruct (renew_two h A B WA WB D) as [L1 [P1 [NB1 [WA1 [WB1 [WAB WT]]]]]].
  set (h1 := renew_uids (map (fun r => uid (get h r)) A) B h) in *.
  destruct (add_all_good h1 (A ++ B) WAB (A ++ B) [] (NoDup_nil _)) as [g [Eg [NDg [_ [Ig IL]]]]].
  { intros x []. } { apply incl_refl. }
  rewrite Eg. cbn [bind].
  assert (Mg : forall x, In x g <-> In x (A ++ B)) by (intros x; split; [apply IL|apply Ig]).
  assert (Wg : WF h1 g) by (apply (WF_same_members h1 (A ++ B) g WAB NDg Mg)).
  set (fp := filter (fun r => memb r dA) A). set (sp := filter (fun r => memb r dB) B).
  pose proof (connect_loop_good (Nat.min (length fp) (length sp)) conns fp sp h1 g Wg) as X.
  destruct (connect_loop (Nat.min (length fp) (length sp)) conns fp sp (h1, g)) as [s'|e]; [|apply X].
  - destruct X as [W' [G' [L' [F' Z']]]].
    + intros x Hx. apply Mg. apply in_or_app. left. unfold fp in Hx. apply filter_In in Hx. tauto.
    + intros x Hx. apply Mg. apply in_or_app. right. unfold sp in Hx. apply filter_In in Hx. tauto.
    + split; [exact W'|]. split; [|split; [lia|split]].
      * intros x. rewrite G', Mg, in_app_iff. tauto.
      * intros r Ha Hb. rewrite F'; [apply NB1; exact Hb|]. intros Y. apply Mg in Y. apply in_app_or in Y. tauto.
      * intros Hz. assert (N0 : Nat.min (length fp) (length sp) = 0).
        { destruct Hz as [Hz|Hz]; [fold fp in Hz|fold sp in Hz]; rewrite Hz; simpl; lia. }
        rewrite (Z' N0). exact WT.
  - intros x Hx. apply Mg. apply in_or_app. left. unfold fp in Hx. apply filter_In in Hx. tauto.
  - intros x Hx. apply Mg. apply in_or_app. right. unfold sp in Hx. apply filter_In in Hx. tauto.
Qed.

(* ------------------------------------------------------------------ get_subgraphs *)
Lemma get_subgraphs_good : forall h g first cuts, WF h g ->
  (forall ts, first = Some ts -> In (fst ts) g /\ In (snd ts) g) ->
  match get_subgraphs h g first cuts with
  | Ok (h', (P0, P1), d) =>
      heap_ok h' /\ length h <= length h' /\ WF h' P0 /\ WF h' P1 /\
      (forall r, r < length h -> ~ In r g -> get h' r = get h r) /\
      (forall x, In x P0 \/ In x P1 -> In x g \/ length h <= x) /\
      ((P0 = P1 /\ d = []) \/ (forall x, In x P0 -> In x P1 -> False))
  | Raise e => e = Unmodelled
  end.
Proof.
  intros h g first cuts W HF. unfold get_subgraphs.
  destruct (null (edges h g)) eqn:N.
  - apply null_nil in N. destruct (copies_WF h g W N) as [HK [WC _]].
    split; [exact HK|]. split; [rewrite app_length; lia|]. split; [exact WC|]. split; [exact WC|].
    split; [intros r Hr _; apply get_app_l; exact Hr|]. split; [|left; auto].
    intros x [Hx|Hx]; apply in_seq in Hx; right; lia.
  - destruct first as [[tgt src]|]; [|reflexivity]. cbn [fst snd].
    destruct (HF (tgt, src) eq_refl) as [Ht Hs]. cbn [fst snd] in Ht, Hs.
    destruct (disconnect_total h g tgt src W) as [h1 [E1 [W1 [L1 F1]]]]. rewrite E1. cbn [bind].
    destruct (cut_all_good cuts h1 g W1) as [h2 [E2 [W2 [L2 F2]]]]. rewrite E2. cbn [bind fst snd].
    destruct (component_good h2 g src W2 Hs) as [cs [Es _]]. rewrite Es. cbn [bind].
    destruct (memb tgt cs) eqn:M; [reflexivity|]. apply memb_false in M.
    destruct (component_good h2 g tgt W2 Ht) as [ct [Et _]]. rewrite Et. cbn [bind].
    destruct (component_WF h2 g src cs W2 Hs Es) as [Ws [Ms Is]].
    destruct (component_WF h2 g tgt ct W2 Ht Et) as [Wt [Mt It]].
    split; [apply (wf_heap _ _ W2)|]. split; [lia|]. split; [exact Ws|]. split; [exact Wt|].
    split; [|split].
    + intros r _ Hr. rewrite (F2 r Hr). apply F1. exact Hr.
    + intros x [Hx|Hx]; left; [apply Is|apply It]; exact Hx.
    + right. intros x Hx Hy. apply Ms in Hx. apply Mt in Hy.
      exact (components_disjoint h2 g src tgt cs ct W2 Hs Ht Es Et M x Hx Hy).
Qed.

Lemma filter_memb_nil : forall (l : list ref), filter (fun r => memb r []) l = [].
Proof. induction l as [|a t IH]; simpl; [reflexivity|exact IH]. Qed.

(* ------------------------------------------------------------------ subgraph_crossover *)
(* For ALL choices (first link = any pair of members, any cut pairs, any connection indices and
   coins) on two well-formed graphs over one heap without a common node object - whatever their
   uids, relatives included: the model either is not a run of the function (a cut list after which
   the while loop would not have stopped, a missing first link, a connection index out of range:
   Unmodelled) or returns two well-formed children.  No other exception is possible. *)
Theorem subgraph_crossover_wf : forall c h g1 g2, Inv2 h g1 g2 ->
  (forall ts, sc_first1 c = Some ts -> In (fst ts) g1 /\ In (snd ts) g1) ->
  (forall ts, sc_first2 c = Some ts -> In (fst ts) g2 /\ In (snd ts) g2) ->
  match subgraph_crossover c (h, (g1, g2)) with
  | Ok s' => WF (fst s') (fst (snd s')) /\ WF (fst s') (snd (snd s'))
  | Raise e => e = Unmodelled
  end.
Proof.
  intros c h g1 g2 [W1 [W2 D]] H1 H2. unfold subgraph_crossover. cbn [fst snd].
  pose proof (get_subgraphs_good h g1 (sc_first1 c) (sc_cuts1 c) W1 H1) as X1.
  destruct (get_subgraphs h g1 (sc_first1 c) (sc_cuts1 c)) as [[[ha [F0 F1]] d1]|e]; [|exact X1].
  destruct X1 as [HKa [La [WF0 [WF1 [Fa [Ma Ca]]]]]]. cbn [bind fst snd].
  assert (W2a : WF ha g2).
  { apply (WF_frame h g2 ha W2 HKa La). intros r Hr. apply Fa; [apply (wf_valid _ _ W2); exact Hr|].
    intros Y. eapply D; eauto. }
  pose proof (get_subgraphs_good ha g2 (sc_first2 c) (sc_cuts2 c) W2a H2) as X2.
  destruct (get_subgraphs ha g2 (sc_first2 c) (sc_cuts2 c)) as [[[hb [S0 S1]] d2]|e]; [|exact X2].
  destruct X2 as [HKb [Lb [WS0 [WS1 [Fb [Mb Cb]]]]]]. cbn [bind fst snd].
  (* the parts of the first graph are untouched by the second get_subgraphs *)
  assert (FV : forall x, In x F0 \/ In x F1 -> x < length ha /\ ~ In x g2).
  { intros x Hx. split.
    - destruct Hx as [Hx|Hx]; [apply (wf_valid _ _ WF0)|apply (wf_valid _ _ WF1)]; exact Hx.
    - intros Y. destruct (Ma x Hx) as [A|A]; [eapply D; eauto|].
      pose proof (wf_valid _ _ W2 x Y). lia. }
  assert (WF0b : WF hb F0).
  { apply (WF_frame ha F0 hb WF0 HKb Lb). intros r Hr. destruct (FV r (or_introl Hr)). apply Fb; assumption. }
  assert (WF1b : WF hb F1).
  { apply (WF_frame ha F1 hb WF1 HKb Lb). intros r Hr. destruct (FV r (or_intror Hr)). apply Fb; assumption. }
  assert (DFS : forall x y, In x F0 \/ In x F1 -> In y S0 \/ In y S1 -> x <> y).
  { intros x y Hx Hy ->. destruct (FV y Hx) as [A B]. destruct (Mb y Hy) as [C|C]; [tauto|lia]. }
  (* first child *)
  pose proof (connect_subgraphs_good hb F0 S1 d1 d2 (sc_conns1 c) WF0b WS1) as Y1.
  destruct (connect_subgraphs hb F0 S1 d1 d2 (sc_conns1 c)) as [[hc ch1]|e].
  2:{ cbn [bind]. apply Y1. intros x A B. exact (DFS x x (or_introl A) (or_intror B) eq_refl). }
  destruct Y1 as [Wc1 [Mc1 [Lc [Fc Zc]]]].
  { intros x A B. exact (DFS x x (or_introl A) (or_intror B) eq_refl). }
  cbn [fst snd] in *. cbn [bind fst snd].
  (* the inputs of the second call are still well-formed *)
  assert (IN2 : WF hc F1 /\ WF hc S0 /\
                ((d1 = [] \/ d2 = []) \/ ((forall x, In x F0 -> In x F1 -> False) /\ (forall x, In x S0 -> In x S1 -> False)))).
  { destruct Ca as [[EF Ed1]|DF].
    - assert (Z : forall T, WF hb T -> WF hc T) by (apply Zc; left; rewrite Ed1; apply filter_memb_nil).
      split; [apply Z; exact WF1b|]. split; [apply Z; exact WS0|]. left. left. exact Ed1.
    - destruct Cb as [[ES Ed2]|DS].
      + assert (Z : forall T, WF hb T -> WF hc T) by (apply Zc; right; rewrite Ed2; apply filter_memb_nil).
        split; [apply Z; exact WF1b|]. split; [apply Z; exact WS0|]. left. right. exact Ed2.
      + split; [|split; [|right; split; assumption]].
        * apply (WF_frame hb F1 hc WF1b (wf_heap _ _ Wc1)); [lia|]. intros r Hr. apply Fc.
          -- intros Y. eapply DF; eauto.
          -- intros Y. exact (DFS r r (or_intror Hr) (or_intror Y) eq_refl).
        * apply (WF_frame hb S0 hc WS0 (wf_heap _ _ Wc1)); [lia|]. intros r Hr. apply Fc.
          -- intros Y. exact (DFS r r (or_introl Y) (or_introl Hr) eq_refl).
          -- intros Y. eapply DS; eauto. }
  destruct IN2 as [WF1c [WS0c CASE]].
  (* second child *)
  pose proof (connect_subgraphs_good hc F1 S0 d1 d2 (sc_conns2 c) WF1c WS0c) as Y2.
  destruct (connect_subgraphs hc F1 S0 d1 d2 (sc_conns2 c)) as [[hd ch2]|e].
  2:{ cbn [bind]. apply Y2. intros x A B. exact (DFS x x (or_intror A) (or_introl B) eq_refl). }
  destruct Y2 as [Wd2 [Md2 [Ld [Fd Zd]]]].
  { intros x A B. exact (DFS x x (or_intror A) (or_introl B) eq_refl). }
  cbn [fst snd] in *. cbn [bind fst snd]. split; [|exact Wd2].
  (* the first child is still well-formed after the second call *)
  destruct CASE as [[Ed1|Ed2]|[DF DS]].
  - apply Zd; [left; rewrite Ed1; apply filter_memb_nil|exact Wc1].
  - apply Zd; [right; rewrite Ed2; apply filter_memb_nil|exact Wc1].
  - apply (WF_frame hc ch1 hd Wc1 (wf_heap _ _ Wd2)); [lia|]. intros r Hr. apply Mc1 in Hr. apply Fd.
    + intros Y. destruct Hr as [Hr|Hr]; [eapply DF; eauto|exact (DFS r r (or_intror Y) (or_intror Hr) eq_refl)].
    + intros Y. destruct Hr as [Hr|Hr]; [exact (DFS r r (or_introl Hr) (or_introl Y) eq_refl)|eapply DS; eauto].
Qed.
