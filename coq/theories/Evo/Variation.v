(* Model of the variation OPERATORS (the wrappers around the mutation / crossover functions):
     golem/core/optimisers/genetic/operators/mutation.py   Mutation.__call__, _mutation,
                                                            _apply_mutations, _will_mutation_be_applied
     golem/core/optimisers/genetic/operators/crossover.py  Crossover.__call__, _crossover,
                                                            crossover_parents_selection,
                                                            _get_individuals, _will_crossover_be_applied
     golem/core/optimisers/opt_history_objects/parent_operator.py, individual.py
   Definitions only (proofs: VariationProofs.v, statements: Properties/C02.v).

   Object identity is explicit (DESIGN 2.1).  Three kinds of Python objects live in heaps:
     node objects        ref   index into  mn : list node
     graph objects       gref  index into  mg : list (list ref)     (graph._nodes, in order)
     individual objects  iref  index into  ih : list indiv
   `uid` is an ordinary field; copy.deepcopy keeps it.  Allocation appends to a heap, so "the
   objects that existed before a call" are exactly the cells below the old heap sizes.
   The mutation / crossover FUNCTIONS, the verifier and graph equality are parameters of the
   model (Section variables): the theorems quantify over all of them. *)
From Coq Require Import List String Bool Arith.
From GolemV Require Graph.DescId.
Import ListNotations.
Local Open Scope string_scope.
Local Open Scope list_scope.

Definition ref := nat.
Definition gref := nat.
Definition iref := nat.

Record node := mk_node {
  uid : nat;               (* node.uid (canonical number of the uuid string) *)
  label : string;          (* node.name *)
  params : string;         (* str(node.parameters) when truthy, "" otherwise *)
  parents : list ref }.    (* node.nodes_from, in order *)

(* the memory the variation functions and the verifier work on *)
Record mem := mk_mem { mn : list node; mg : list (list ref) }.

(* ParentOperator (frozen dataclass).  po_id is the identity of the object (its own uuid):
   two individuals share one ParentOperator object iff the records are equal *)
Record parent_operator := mk_po {
  po_id : nat;
  po_kind : string;            (* type_ *)
  po_names : list string;      (* operators (a tuple of names) *)
  po_parents : list iref }.    (* parent_individuals, in order *)

(* Individual (frozen dataclass) *)
Record indiv := mk_ind {
  iuid : nat;                          (* uid (fresh uuid) *)
  igraph : gref;                       (* graph *)
  iparent_op : option parent_operator; (* parent_operator *)
  ifit : nat }.                        (* opaque token of (fitness, native_generation); 0 = fresh *)

(* ctr: source of fresh identifiers (uuid4 of new individuals and parent operators) *)
Record store := mk_store { smem : mem; ih : list indiv; ctr : nat }.

Definition dummy_node : node := mk_node 0 "" "" [].
Definition dummy_ind : indiv := mk_ind 0 0 None 0.
Definition get_node (m : mem) (r : ref) : node := nth r (mn m) dummy_node.
Definition get_graph (m : mem) (g : gref) : list ref := nth g (mg m) [].
Definition get_ind (s : store) (i : iref) : indiv := nth i (ih s) dummy_ind.

(* ------------------------------------------------------------------------------------ *)
(* copy.deepcopy(graph)                                                                  *)
(* ------------------------------------------------------------------------------------ *)
Fixpoint index_of (r : ref) (l : list ref) : option nat :=
  match l with
  | [] => None
  | x :: l' => if Nat.eqb x r then Some 0 else option_map S (index_of r l')
  end.

(* the copy of the node listed at position i is allocated at base + i; a reference to an object
   that is not listed in the graph is kept (cannot happen for a closed graph: add_node lists
   every ancestor; population validity in the theorems includes closedness) *)
Definition remap (base : nat) (ns : list ref) (p : ref) : ref :=
  match index_of p ns with Some i => base + i | None => p end.

Definition copy_node (base : nat) (ns : list ref) (nd : node) : node :=
  mk_node (uid nd) (label nd) (params nd) (map (remap base ns) (parents nd)).

(* allocation of an isomorphic fresh sub-heap at the end of the heaps; every field, uid
   included, is preserved; returns the new graph object *)
Definition deepcopy (m : mem) (g : gref) : mem * gref :=
  let ns := get_graph m g in
  let base := List.length (mn m) in
  (mk_mem (mn m ++ map (fun r => copy_node base ns (get_node m r)) ns)
          (mg m ++ [map (remap base ns) ns]),
   List.length (mg m)).

(* ------------------------------------------------------------------------------------ *)
(* parameters, choices, results                                                          *)
(* ------------------------------------------------------------------------------------ *)
(* configured operator types (parameters.mutation_types / crossover_types), in order:
   the name the wrapper records (mutation_type.__name__ / str(crossover_type)) and whether the
   entry is the `none` type *)
Record config := mk_config {
  max_attempts : nat;                 (* parameters.max_num_of_operator_attempts *)
  types : list (string * bool) }.

Definition type_name (P : config) (t : nat) : string := fst (nth t (types P) ("", true)).
Definition type_is_none (P : config) (t : nat) : bool := snd (nth t (types P) ("", true)).

(* what the random sources answered while one individual was mutated *)
Record mchoice := mk_mchoice {
  mc_type : nat;                  (* agent.choose_action: index into the configured types *)
  mc_coin : bool;                 (* random() <= mutation_prob *)
  mc_atts : list (list nat) }.    (* per attempt: one token per application of the mutation
                                     function (_sample_num_of_mutations of them) *)

(* ... while one pair was crossed *)
Record xchoice := mk_xchoice {
  xc_type : nat;                  (* choice(crossover_types) *)
  xc_coin : bool;                 (* not (random() > crossover_prob) *)
  xc_atts : list nat }.           (* per attempt: the token handed to the crossover function *)

Inductive result :=
| RSingle (i : iref)              (* an Individual *)
| RList (l : list iref)           (* a list of individuals *)
| RRaise.                         (* the call raised (never produced by the model; observations only) *)

Definition result_list (r : result) : list iref :=
  match r with RSingle i => [i] | RList l => l | RRaise => [] end.

(* population[::2], population[1::2] *)
Fixpoint evens {A} (l : list A) : list A :=
  match l with
  | [] => []
  | x :: l' => x :: match l' with [] => [] | _ :: l'' => evens l'' end
  end.
Definition odds {A} (l : list A) : list A := match l with [] => [] | _ :: l' => evens l' end.

(* zip *)
Fixpoint zip {A B} (l : list A) (r : list B) : list (A * B) :=
  match l, r with
  | a :: l', b :: r' => (a, b) :: zip l' r'
  | _, _ => []
  end.

Section Model.
  Variable P : config.
  (* graph_generation_params.verifier *)
  Variable verifier : mem -> gref -> bool.
  (* graph == other_graph *)
  Variable geq : mem -> gref -> gref -> bool.
  (* the adapted mutation function of type t, with the token of its random choices: works in
     place on the graph object it is given and returns a graph object *)
  Variable mutfun : nat -> nat -> mem -> gref -> mem * gref.
  (* the adapted crossover function: returns the tuple of new graphs *)
  Variable crossfun : nat -> nat -> mem -> gref -> gref -> mem * list gref.

  (* ---------------------------------------------------------------------------------- *)
  (* Mutation                                                                            *)
  (* ---------------------------------------------------------------------------------- *)
  (* _apply_mutations: the function is applied once per token, each time to the graph
     returned by the previous application *)
  Fixpoint apply_mutations (t : nat) (toks : list nat) (m : mem) (g : gref) : mem * gref :=
    match toks with
    | [] => (m, g)
    | k :: ks => let (m', g') := mutfun t k m g in apply_mutations t ks m' g'
    end.

  (* for _ in range(max_num_of_operator_attempts): deepcopy, mutate the copy, verifier gate.
     Some g' = the loop was left through `break` with the accepted graph *)
  Fixpoint mut_attempts (n : nat) (t : nat) (atts : list (list nat)) (m : mem) (g : gref)
    : mem * option gref :=
    match n with
    | O => (m, None)
    | S n' =>
        let (m1, g1) := deepcopy m g in
        let (m2, g2) := apply_mutations t (hd [] atts) m1 g1 in
        if verifier m2 g2 then (m2, Some g2)
        else mut_attempts n' t (tl atts) m2 g
    end.

  (* Mutation._mutation: returns (individual, is_applied) *)
  Definition mutation_one (c : mchoice) (s : store) (i : iref) : store * (iref * bool) :=
    let applied := mc_coin c && negb (type_is_none P (mc_type c)) in
    if applied then
      match mut_attempts (max_attempts P) (mc_type c) (mc_atts c) (smem s) (igraph (get_ind s i)) with
      | (m', Some g') =>
          let po := mk_po (ctr s) "mutation" [type_name P (mc_type c)] [i] in
          (mk_store m' (ih s ++ [mk_ind (S (ctr s)) g' (Some po) 0]) (S (S (ctr s))),
           (List.length (ih s), true))
      | (m', None) => (mk_store m' (ih s) (ctr s), (i, true))
      end
    else (s, (i, false)).

  (* map(self._mutation, population), consumed completely before the filter runs *)
  Fixpoint mutation_map (cs : list mchoice) (s : store) (pop : list iref)
    : store * list (iref * bool) :=
    match pop with
    | [] => (s, [])
    | i :: pop' =>
        let (s1, r) := mutation_one (hd (mk_mchoice 0 false []) cs) s i in
        let (s2, rs) := mutation_map (tl cs) s1 pop' in
        (s2, r :: rs)
    end.

  (* not(attempt and ind.graph == init_ind.graph) *)
  Definition kept (s : store) (r : iref * bool) (init : iref) : bool :=
    negb (snd r && geq (smem s) (igraph (get_ind s (fst r))) (igraph (get_ind s init))).

  Fixpoint drop_rule (s : store) (rs : list (iref * bool)) (pop : list iref) : list iref :=
    match rs, pop with
    | r :: rs', i :: pop' => if kept s r i then fst r :: drop_rule s rs' pop' else drop_rule s rs' pop'
    | _, _ => []
    end.

  (* Mutation.__call__ on a list (a bare Individual is first wrapped into a one-element list) *)
  Definition mutation_call (cs : list mchoice) (s : store) (pop : list iref) : store * result :=
    match pop with
    | [] => (s, RList [])          (* if not population: return [] *)
    | _ =>
        let (s', rs) := mutation_map cs s pop in
        let final := drop_rule s' rs pop in
        (s', match pop with
             | [_] => match final with x :: _ => RSingle x | [] => RList [] end
             | _ => RList final
             end)
    end.

  (* ---------------------------------------------------------------------------------- *)
  (* Crossover                                                                           *)
  (* ---------------------------------------------------------------------------------- *)
  Fixpoint cross_attempts (n : nat) (t : nat) (atts : list nat) (m : mem) (g1 g2 : gref)
    : mem * option (list gref) :=
    match n with
    | O => (m, None)
    | S n' =>
        let (m1, c1) := deepcopy m g1 in
        let (m2, c2) := deepcopy m1 g2 in
        let (m3, gs) := crossfun t (hd 0 atts) m2 c1 c2 in
        if forallb (verifier m3) gs then (m3, Some gs)
        else cross_attempts n' t (tl atts) m3 g1 g2
    end.

  (* _get_individuals: one ParentOperator object, one new Individual per new graph *)
  Fixpoint fresh_individuals (po : parent_operator) (u : nat) (gs : list gref) : list indiv :=
    match gs with
    | [] => []
    | g :: gs' => mk_ind u g (Some po) 0 :: fresh_individuals po (S u) gs'
    end.

  (* Crossover._crossover *)
  Definition crossover_one (c : xchoice) (s : store) (i1 i2 : iref) : store * list iref :=
    let g1 := igraph (get_ind s i1) in
    let g2 := igraph (get_ind s i2) in
    (* not (graph_first is graph_second or random() > prob or type is none) *)
    let applied := negb (Nat.eqb g1 g2) && xc_coin c && negb (type_is_none P (xc_type c)) in
    if applied then
      match cross_attempts (max_attempts P) (xc_type c) (xc_atts c) (smem s) g1 g2 with
      | (m', Some gs) =>
          let po := mk_po (ctr s) "crossover" [type_name P (xc_type c)] [i1; i2] in
          (mk_store m' (ih s ++ fresh_individuals po (S (ctr s)) gs) (S (ctr s) + List.length gs),
           seq (List.length (ih s)) (List.length gs))
      | (m', None) => (mk_store m' (ih s) (ctr s), [i1; i2])
      end
    else (s, [i1; i2]).

  Fixpoint crossover_pairs (cs : list xchoice) (s : store) (prs : list (iref * iref))
    : store * list iref :=
    match prs with
    | [] => (s, [])
    | (i1, i2) :: prs' =>
        let (s1, o) := crossover_one (hd (mk_xchoice 0 false []) cs) s i1 i2 in
        let (s2, os) := crossover_pairs (tl cs) s1 prs' in
        (s2, o ++ os)
    end.

  (* Crossover.__call__ *)
  Definition crossover_call (cs : list xchoice) (s : store) (pop : list iref) : store * result :=
    match pop with
    | [_] => (s, RList pop)
    | _ => let (s', out) := crossover_pairs cs s (zip (evens pop) (odds pop)) in (s', RList out)
    end.
End Model.

(* ------------------------------------------------------------------------------------ *)
(* Decidable well-formedness of a graph object (what "well-formed" means in C02)         *)
(* ------------------------------------------------------------------------------------ *)
Definition memb (x : nat) (l : list nat) : bool := existsb (Nat.eqb x) l.

Fixpoint nodup_b (l : list nat) : bool :=
  match l with
  | [] => true
  | x :: l' => negb (memb x l') && nodup_b l'
  end.

(* no node object listed twice, every listed object exists, no two listed nodes with one uid,
   no parent linked twice, every parent of a listed node is listed *)
Definition wf_graph_b (m : mem) (g : gref) : bool :=
  Nat.ltb g (List.length (mg m)) &&
  let ns := get_graph m g in
  nodup_b ns &&
  forallb (fun r => Nat.ltb r (List.length (mn m))) ns &&
  nodup_b (map (fun r => uid (get_node m r)) ns) &&
  forallb (fun r => nodup_b (parents (get_node m r)) &&
                    forallb (fun p => memb p ns) (parents (get_node m r))) ns.

(* ------------------------------------------------------------------------------------ *)
(* Graph equality (LinkedGraph.__eq__) through the structural identifier of Graph/DescId  *)
(* ------------------------------------------------------------------------------------ *)
Fixpoint ustr (n : nat) : string := match n with O => "u" | S k => String.append "i" (ustr k) end.

(* the graph as DescId sees it: nodes in listing order, parent links as positions (a parent that
   is not listed gets an out-of-range position, for which DescId answers None) *)
Definition to_dg (m : mem) (g : gref) : DescId.dg :=
  let ns := get_graph m g in
  map (fun r => let nd := get_node m r in
                DescId.mk_node (ustr (uid nd)) (label nd) (params nd)
                  (map (fun p => match index_of p ns with Some i => i | None => List.length ns end)
                       (parents nd))) ns.

Definition desc_geq (m : mem) (a b : gref) : bool :=
  match DescId.graph_eq (to_dg m a) (to_dg m b) with Some v => v | None => false end.

(* ------------------------------------------------------------------------------------ *)
(* Replay instances used by the correspondence check                                     *)
(* ------------------------------------------------------------------------------------ *)
(* position-independent content of a graph: per listed node (uid, name, params, parent positions) *)
Definition cnode := (nat * string * string * list nat)%type.
Definition content (m : mem) (g : gref) : list cnode :=
  let ns := get_graph m g in
  map (fun r => let nd := get_node m r in
                (uid nd, label nd, params nd,
                 map (fun p => match index_of p ns with Some i => i | None => List.length ns end)
                     (parents nd))) ns.

Definition list_eqb {A} (e : A -> A -> bool) : list A -> list A -> bool :=
  fix go l r := match l, r with
                | [], [] => true
                | a :: l', b :: r' => e a b && go l' r'
                | _, _ => false
                end.

Definition cnode_eqb (a b : cnode) : bool :=
  match a, b with
  | (u, l, p, ps), (u', l', p', ps') =>
      Nat.eqb u u' && String.eqb l l' && String.eqb p p' && list_eqb Nat.eqb ps ps'
  end.

(* allocation of a graph with the given content at the end of the memory *)
Definition cnode_to_node (base : nat) (x : cnode) : node :=
  match x with (u, l, p, ps) => mk_node u l p (map (fun i => base + i) ps) end.

Definition alloc_graph (m : mem) (c : list cnode) : mem * gref :=
  let base := List.length (mn m) in
  (mk_mem (mn m ++ map (cnode_to_node base) c) (mg m ++ [seq base (List.length c)]),
   List.length (mg m)).

(* the observed behaviour of the real functions, as functions: token k = "the k-th recorded
   result".  The real function mutates the copy in place; which cell of the copy became which
   cell of the result is not observable from outside, so the replay allocates the result afresh
   (a function with the footprint property: VariationProofs.replay_mut_footprint). *)
Definition replay_mut (tbl : list (list cnode)) (t k : nat) (m : mem) (g : gref) : mem * gref :=
  alloc_graph m (nth k tbl []).

Fixpoint alloc_graphs (m : mem) (cs : list (list cnode)) : mem * list gref :=
  match cs with
  | [] => (m, [])
  | c :: cs' => let (m1, g) := alloc_graph m c in
                let (m2, gs) := alloc_graphs m1 cs' in (m2, g :: gs)
  end.

Definition replay_cross (tbl : list (list (list cnode))) (t k : nat) (m : mem) (g1 g2 : gref)
  : mem * list gref := alloc_graphs m (nth k tbl []).

(* the real verifier restricted to the graphs it was observed on: content -> verdict *)
Definition table_verifier (tbl : list (list cnode * bool)) (m : mem) (g : gref) : bool :=
  match find (fun e => list_eqb cnode_eqb (fst e) (content m g)) tbl with
  | Some e => snd e
  | None => false
  end.

(* ------------------------------------------------------------------------------------ *)
(* Canonical form of an operator's answer (for `agree`)                                  *)
(* ------------------------------------------------------------------------------------ *)
(* an output is an object that existed before the call (its index) or a new individual,
   described by the content of its graph, its parent operator (identity of the operator object
   replaced by the position of the first output carrying the same object) and its fitness token *)
Inductive cout :=
| COld (i : iref)
| CNew (c : list cnode) (op : option (nat * string * list string * list iref)) (fit : nat).

Definition po_id_of (s : store) (i : iref) : option nat :=
  option_map po_id (iparent_op (get_ind s i)).

Definition opt_nat_eqb (a b : option nat) : bool :=
  match a, b with Some x, Some y => Nat.eqb x y | None, None => true | _, _ => false end.

Fixpoint first_with (s : store) (id : option nat) (outs : list iref) (k : nat) : nat :=
  match outs with
  | [] => k
  | o :: outs' => if opt_nat_eqb (po_id_of s o) id then k else first_with s id outs' (S k)
  end.

Definition canon_out (old : nat) (s : store) (outs : list iref) (o : iref) : cout :=
  if Nat.ltb o old then COld o
  else let ind := get_ind s o in
       CNew (content (smem s) (igraph ind))
            (option_map (fun po => (first_with s (Some (po_id po)) outs 0,
                                    po_kind po, po_names po, po_parents po)) (iparent_op ind))
            (ifit ind).

Inductive cresult := CSingle (o : cout) | CList (l : list cout) | CRaise.

Definition canon (old : nat) (s : store) (r : result) : cresult :=
  match r with
  | RSingle i => CSingle (canon_out old s [i] i)
  | RList l => CList (map (canon_out old s l) l)
  | RRaise => CRaise
  end.

Definition opt_eqb {A} (e : A -> A -> bool) (a b : option A) : bool :=
  match a, b with Some x, Some y => e x y | None, None => true | _, _ => false end.

Definition cout_eqb (a b : cout) : bool :=
  match a, b with
  | COld i, COld j => Nat.eqb i j
  | CNew c op f, CNew c' op' f' =>
      list_eqb cnode_eqb c c' &&
      opt_eqb (fun x y => match x, y with
                          | (k, kd, nm, ps), (k', kd', nm', ps') =>
                              Nat.eqb k k' && String.eqb kd kd' && list_eqb String.eqb nm nm' &&
                              list_eqb Nat.eqb ps ps'
                          end) op op' &&
      Nat.eqb f f'
  | _, _ => false
  end.

Definition cresult_eqb (a b : cresult) : bool :=
  match a, b with
  | CSingle x, CSingle y => cout_eqb x y
  | CList l, CList r => list_eqb cout_eqb l r
  | CRaise, CRaise => true
  | _, _ => false
  end.

(* what the harness observed of one operator call *)
Record observation := mk_obs {
  o_before : store;       (* every object reachable from the population, before the call *)
  o_after : store;        (* the same objects (same indices) re-read after the call, followed by
                             the objects that are new *)
  o_pop : list iref;      (* the population handed to the operator *)
  o_result : result;      (* what the operator returned *)
  o_verdicts : list bool; (* the configured verifier re-run on the graph of every output *)
  o_types : list (option nat) (* the operator type drawn for each member (mutation) / each pair
                                 (crossover) where the harness could observe it *)
}.

(* compact encoding of the after-snapshot used by the generated case files: the cells that
   differ from the before-snapshot (index, new content) and the cells of the new objects *)
Fixpoint patch {A} (l : list A) (chs : list (nat * A)) : list A :=
  match chs with
  | [] => l
  | (i, a) :: chs' => patch (firstn i l ++ a :: skipn (S i) l) chs'
  end.

Record delta := mk_delta {
  d_nodes : list (nat * node); d_graphs : list (nat * list ref); d_inds : list (nat * indiv);
  d_new_nodes : list node; d_new_graphs : list (list ref); d_new_inds : list indiv }.

Definition apply_delta (s : store) (d : delta) : store :=
  mk_store (mk_mem (patch (mn (smem s)) (d_nodes d) ++ d_new_nodes d)
                   (patch (mg (smem s)) (d_graphs d) ++ d_new_graphs d))
           (patch (ih s) (d_inds d) ++ d_new_inds d) (ctr s).

Definition obs_of (b : store) (d : delta) (pop : list iref) (r : result) (vs : list bool)
    (ts : list (option nat)) : observation := mk_obs b (apply_delta b d) pop r vs ts.

(* model = implementation: the wrapper model, run on the same population with the inferred
   choices, the recorded function results and the recorded verifier verdicts, returns the same
   answer up to the identity of new objects *)
Definition agree_mut (P : config) (vt : list (list cnode * bool)) (ft : list (list cnode))
    (cs : list mchoice) (o : observation) : bool :=
  let (s', r) := mutation_call P (table_verifier vt) desc_geq (replay_mut ft) cs (o_before o) (o_pop o) in
  cresult_eqb (canon (List.length (ih (o_before o))) s' r)
              (canon (List.length (ih (o_before o))) (o_after o) (o_result o)).

Definition agree_cross (P : config) (vt : list (list cnode * bool)) (ft : list (list (list cnode)))
    (cs : list xchoice) (o : observation) : bool :=
  let (s', r) := crossover_call P (table_verifier vt) (replay_cross ft) cs (o_before o) (o_pop o) in
  cresult_eqb (canon (List.length (ih (o_before o))) s' r)
              (canon (List.length (ih (o_before o))) (o_after o) (o_result o)).

(* ------------------------------------------------------------------------------------ *)
(* holds_b: the clauses of property C02 on the OBSERVED behaviour                         *)
(* ------------------------------------------------------------------------------------ *)
Definition node_eqb (a b : node) : bool :=
  Nat.eqb (uid a) (uid b) && String.eqb (label a) (label b) && String.eqb (params a) (params b) &&
  list_eqb Nat.eqb (parents a) (parents b).

Definition po_eqb (a b : parent_operator) : bool :=
  Nat.eqb (po_id a) (po_id b) && String.eqb (po_kind a) (po_kind b) &&
  list_eqb String.eqb (po_names a) (po_names b) && list_eqb Nat.eqb (po_parents a) (po_parents b).

Definition ind_eqb (a b : indiv) : bool :=
  Nat.eqb (iuid a) (iuid b) && Nat.eqb (igraph a) (igraph b) &&
  opt_eqb po_eqb (iparent_op a) (iparent_op b) && Nat.eqb (ifit a) (ifit b).

(* (1) every object that existed before the call is exactly as it was *)
Definition unchanged_b (s0 s1 : store) : bool :=
  list_eqb node_eqb (firstn (List.length (mn (smem s0))) (mn (smem s1))) (mn (smem s0)) &&
  list_eqb (list_eqb Nat.eqb) (firstn (List.length (mg (smem s0))) (mg (smem s1))) (mg (smem s0)) &&
  list_eqb ind_eqb (firstn (List.length (ih s0)) (ih s1)) (ih s0).

Definition is_new (s0 : store) (o : iref) : bool := negb (Nat.ltb o (List.length (ih s0))).

(* (2) a new output's graph is a new object listing only new node objects whose parents are new *)
Definition fresh_graph_b (s0 s1 : store) (g : gref) : bool :=
  Nat.leb (List.length (mg (smem s0))) g &&
  forallb (fun r => Nat.leb (List.length (mn (smem s0))) r &&
                    forallb (Nat.leb (List.length (mn (smem s0)))) (parents (get_node (smem s1) r)))
          (get_graph (smem s1) g).

(* the parent operator of a new individual: kind, the name of the type that was drawn (of some
   configured type when the draw was not observed; never the `none` type), parents *)
Definition name_ok_b (P : config) (chosen : option nat) (nm : string) : bool :=
  match chosen with
  | Some t => String.eqb (type_name P t) nm && negb (type_is_none P t) && Nat.ltb t (List.length (types P))
  | None => existsb (fun t => String.eqb (fst t) nm && negb (snd t)) (types P)
  end.

Definition op_ok_b (P : config) (kind : string) (chosen : option nat) (ps : list iref)
    (po : parent_operator) : bool :=
  String.eqb (po_kind po) kind &&
  match po_names po with
  | [nm] => name_ok_b P chosen nm
  | _ => false
  end &&
  list_eqb Nat.eqb (po_parents po) ps.

(* a new output: new individual object, fresh + well-formed + verified graph *)
Definition new_ok_b (s0 s1 : store) (o : iref) (verdict : bool) : bool :=
  Nat.ltb o (List.length (ih s1)) &&
  fresh_graph_b s0 s1 (igraph (get_ind s1 o)) &&
  wf_graph_b (smem s1) (igraph (get_ind s1 o)) &&
  verdict.

(* mutation: every output is a member of the population returned as is, or a new verified
   individual whose operator names one member of the population *)
Fixpoint derived_b (P : config) (pop : list iref) (chosen : list (option nat)) (p : iref)
    (po : parent_operator) : bool :=
  match pop with
  | [] => false
  | q :: pop' => (Nat.eqb q p && op_ok_b P "mutation" (hd None chosen) [p] po) ||
                 derived_b P pop' (tl chosen) p po
  end.

Definition mut_out_ok_b (P : config) (s0 s1 : store) (pop : list iref) (chosen : list (option nat))
    (o : iref) (verdict : bool) : bool :=
  if is_new s0 o then
    new_ok_b s0 s1 o verdict &&
    match iparent_op (get_ind s1 o) with
    | Some po => match po_parents po with
                 | [p] => derived_b P pop chosen p po
                 | _ => false
                 end
    | None => false
    end
  else memb o pop.

Fixpoint forallb2 {A B} (f : A -> B -> bool) (l : list A) (r : list B) : bool :=
  match l, r with
  | [], [] => true
  | a :: l', b :: r' => f a b && forallb2 f l' r'
  | _, _ => false
  end.

Definition holds_mut (P : config) (o : observation) : bool :=
  unchanged_b (o_before o) (o_after o) &&
  match o_result o with
  | RRaise => true     (* no output to speak about *)
  | r => forallb2 (mut_out_ok_b P (o_before o) (o_after o) (o_pop o) (o_types o)) (result_list r) (o_verdicts o)
  end.

(* crossover: the outputs are, pair after pair of consecutive members (p0,p1), (p2,p3), ...,
   either the two members as they are, or two new verified individuals that share one operator
   object naming (p_2k, p_2k+1) in this order; one member alone is returned as is *)
Fixpoint cross_pairs_ok_b (P : config) (s0 s1 : store) (pop : list iref) (chosen : list (option nat))
    (outs : list iref) (vs : list bool) : bool :=
  match pop with
  | p1 :: p2 :: pop' =>
      match outs, vs with
      | o1 :: o2 :: outs', v1 :: v2 :: vs' =>
          (if is_new s0 o1 || is_new s0 o2 then
             new_ok_b s0 s1 o1 v1 && new_ok_b s0 s1 o2 v2 && negb (Nat.eqb o1 o2) &&
             match iparent_op (get_ind s1 o1), iparent_op (get_ind s1 o2) with
             | Some po1, Some po2 => po_eqb po1 po2 && op_ok_b P "crossover" (hd None chosen) [p1; p2] po1
             | _, _ => false
             end
           else Nat.eqb o1 p1 && Nat.eqb o2 p2) &&
          cross_pairs_ok_b P s0 s1 pop' (tl chosen) outs' vs'
      | _, _ => false
      end
  | _ => match outs with [] => true | _ => false end
  end.

Definition holds_cross (P : config) (o : observation) : bool :=
  unchanged_b (o_before o) (o_after o) &&
  match o_result o with
  | RList outs =>
      match o_pop o with
      | [p] => list_eqb Nat.eqb outs [p]
      | pop => cross_pairs_ok_b P (o_before o) (o_after o) pop (o_types o) outs (o_verdicts o)
      end
  | RSingle _ => false
  | RRaise => true     (* no output to speak about *)
  end.
