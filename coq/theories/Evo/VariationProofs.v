(* Proofs about the model of the variation operators (Evo/Variation.v).
   Part 1: heap predicates, deepcopy, the footprint hypothesis and its consequences for the
   attempt loops. *)
From Coq Require Import List String Bool Arith Lia.
From GolemV Require Import Evo.Variation.
Import ListNotations.
Local Open Scope list_scope.

(* ------------------------------------------------------------------------------------ *)
(* Predicates on memories                                                                *)
(* ------------------------------------------------------------------------------------ *)
Definition nlen (m : mem) : nat := List.length (mn m).
Definition glen (m : mem) : nat := List.length (mg m).

(* every reference stored in the memory points to an existing node object *)
Definition scoped (m : mem) : Prop :=
  (forall r nd, nth_error (mn m) r = Some nd -> forall p, In p (parents nd) -> p < nlen m) /\
  (forall g ns, nth_error (mg m) g = Some ns -> forall r, In r ns -> r < nlen m).

(* the objects below the limits are exactly as they were *)
Definition frame (nl gl : nat) (m m' : mem) : Prop :=
  (forall r, r < nl -> nth_error (mn m') r = nth_error (mn m) r) /\
  (forall g, g < gl -> nth_error (mg m') g = nth_error (mg m) g).

(* no reference leads from an object at or above the limits to a node object below them *)
Definition fresh_closed (nl gl : nat) (m : mem) : Prop :=
  (forall r nd, nl <= r -> nth_error (mn m) r = Some nd -> forall p, In p (parents nd) -> nl <= p) /\
  (forall g ns, gl <= g -> nth_error (mg m) g = Some ns -> forall r, In r ns -> nl <= r).

Definition grows (m m' : mem) : Prop := nlen m <= nlen m' /\ glen m <= glen m'.

(* what a piece of code that works only above the limits does to the memory *)
Definition safe_step (nl gl : nat) (m m' : mem) : Prop :=
  frame nl gl m m' /\ grows m m' /\ scoped m' /\ fresh_closed nl gl m'.

(* the parents of every listed node are listed (add_node guarantees it) *)
Definition gclosed (m : mem) (g : gref) : Prop :=
  forall r, In r (get_graph m g) -> forall p, In p (parents (get_node m r)) -> In p (get_graph m g).

(* node objects reachable from a graph object: listed, or an ancestor of a reachable one *)
Inductive reach (m : mem) (g : gref) : ref -> Prop :=
| reach_listed : forall r, In r (get_graph m g) -> reach m g r
| reach_parent : forall c p, reach m g c -> In p (parents (get_node m c)) -> reach m g p.

(* ------------------------------------------------------------------------------------ *)
(* The hypotheses about the parameters of the model                                      *)
(* ------------------------------------------------------------------------------------ *)
(* FOOTPRINT: whenever the graph a function is given lives in a region of the memory that no
   reference leaves (the fresh copies do), the function changes nothing outside that region,
   only allocates, keeps the region closed, and returns graphs of the region.  This is what
   "reads and writes only cells of the graphs passed to it and cells it allocates" gives. *)
Definition mut_footprint (f : nat -> nat -> mem -> gref -> mem * gref) : Prop :=
  forall t k m g nl gl,
    nl <= nlen m -> gl <= glen m -> scoped m -> fresh_closed nl gl m -> gl <= g < glen m ->
    safe_step nl gl m (fst (f t k m g)) /\
    gl <= snd (f t k m g) < glen (fst (f t k m g)).

Definition cross_footprint (f : nat -> nat -> mem -> gref -> gref -> mem * list gref) : Prop :=
  forall t k m g1 g2 nl gl,
    nl <= nlen m -> gl <= glen m -> scoped m -> fresh_closed nl gl m ->
    gl <= g1 < glen m -> gl <= g2 < glen m ->
    safe_step nl gl m (fst (f t k m g1 g2)) /\
    forall g, In g (snd (f t k m g1 g2)) -> gl <= g < glen (fst (f t k m g1 g2)).

(* a verdict / an equality test depends only on objects that exist when it is given *)
Definition stable1 (v : mem -> gref -> bool) : Prop :=
  forall m m' g, scoped m -> g < glen m -> frame (nlen m) (glen m) m m' -> v m' g = v m g.

(* ------------------------------------------------------------------------------------ *)
(* Elementary facts                                                                      *)
(* ------------------------------------------------------------------------------------ *)
Lemma index_of_Some : forall r l i, index_of r l = Some i -> i < List.length l /\ nth_error l i = Some r.
Proof.
  induction l as [|x l IH]; intros i H; simpl in H; [discriminate|].
  destruct (Nat.eqb x r) eqn:E.
  - inversion H; subst. apply Nat.eqb_eq in E; subst. simpl. split; [lia|reflexivity].
  - destruct (index_of r l) as [j|] eqn:Ej; simpl in H; [|discriminate].
    inversion H; subst. destruct (IH j eq_refl) as [A B]. simpl. split; [lia|exact B].
Qed.

Lemma index_of_In : forall r l, In r l -> exists i, index_of r l = Some i.
Proof.
  induction l as [|x l IH]; intros H; [destruct H|]. simpl.
  destruct (Nat.eqb x r) eqn:E; [eauto|].
  destruct H as [H|H]; [subst; rewrite Nat.eqb_refl in E; discriminate|].
  destruct (IH H) as [i Hi]. rewrite Hi. simpl. eauto.
Qed.

Lemma index_of_None : forall r l, index_of r l = None -> ~ In r l.
Proof.
  intros r l H Hin. destruct (index_of_In r l Hin) as [i Hi]. congruence.
Qed.

Lemma remap_in : forall base ns p, In p ns -> base <= remap base ns p < base + List.length ns.
Proof.
  intros base ns p H. unfold remap. destruct (index_of_In p ns H) as [i Hi]. rewrite Hi.
  apply index_of_Some in Hi. lia.
Qed.

Lemma get_node_nth : forall m r nd, nth_error (mn m) r = Some nd -> get_node m r = nd.
Proof. intros. unfold get_node. apply nth_error_nth. assumption. Qed.

Lemma get_graph_nth : forall m g ns, nth_error (mg m) g = Some ns -> get_graph m g = ns.
Proof. intros. unfold get_graph. apply nth_error_nth. assumption. Qed.

Lemma get_node_parent_valid : forall m c p, In p (parents (get_node m c)) ->
  nth_error (mn m) c = Some (get_node m c).
Proof.
  intros m c p H. unfold get_node in *. destruct (nth_error (mn m) c) as [nd|] eqn:E.
  - rewrite (nth_error_nth _ _ _ E). reflexivity.
  - rewrite nth_overflow in H by (apply nth_error_None; exact E). destruct H.
Qed.

Lemma get_graph_in_valid : forall m g r, In r (get_graph m g) ->
  nth_error (mg m) g = Some (get_graph m g).
Proof.
  intros m g r H. unfold get_graph in *. destruct (nth_error (mg m) g) as [ns|] eqn:E.
  - rewrite (nth_error_nth _ _ _ E). reflexivity.
  - rewrite nth_overflow in H by (apply nth_error_None; exact E). destruct H.
Qed.

Lemma nth_error_get_node : forall m r, r < nlen m -> nth_error (mn m) r = Some (get_node m r).
Proof.
  intros m r H. unfold get_node, nlen in *. destruct (nth_error (mn m) r) eqn:E.
  - rewrite (nth_error_nth _ _ _ E). reflexivity.
  - apply nth_error_None in E. lia.
Qed.

Lemma nth_error_get_graph : forall m g, g < glen m -> nth_error (mg m) g = Some (get_graph m g).
Proof.
  intros m g H. unfold get_graph, glen in *. destruct (nth_error (mg m) g) eqn:E.
  - rewrite (nth_error_nth _ _ _ E). reflexivity.
  - apply nth_error_None in E. lia.
Qed.

Lemma frame_get_node : forall nl gl m m' r, frame nl gl m m' -> r < nl -> r < nlen m ->
  get_node m' r = get_node m r.
Proof.
  intros nl gl m m' r [F _] H1 H2. apply get_node_nth. rewrite F by assumption.
  apply nth_error_get_node. assumption.
Qed.

Lemma frame_get_graph : forall nl gl m m' g, frame nl gl m m' -> g < gl -> g < glen m ->
  get_graph m' g = get_graph m g.
Proof.
  intros nl gl m m' g [_ F] H1 H2. apply get_graph_nth. rewrite F by assumption.
  apply nth_error_get_graph. assumption.
Qed.

Lemma frame_refl : forall nl gl m, frame nl gl m m.
Proof. intros; split; intros; reflexivity. Qed.

Lemma frame_weaken : forall nl gl nl' gl' m m', frame nl gl m m' -> nl' <= nl -> gl' <= gl -> frame nl' gl' m m'.
Proof. intros nl gl nl' gl' m m' [A B] H1 H2; split; intros; [apply A|apply B]; lia. Qed.

Lemma frame_trans : forall nl gl m m1 m2, frame nl gl m m1 -> frame nl gl m1 m2 -> frame nl gl m m2.
Proof.
  intros nl gl m m1 m2 [A B] [C D]; split; intros.
  - rewrite C, A by assumption. reflexivity.
  - rewrite D, B by assumption. reflexivity.
Qed.

Lemma grows_refl : forall m, grows m m.
Proof. intros; split; lia. Qed.

Lemma grows_trans : forall m m1 m2, grows m m1 -> grows m1 m2 -> grows m m2.
Proof. intros m m1 m2 [A B] [C D]; split; lia. Qed.

Lemma fresh_closed_top : forall m, fresh_closed (nlen m) (glen m) m.
Proof.
  intros m; split; intros.
  - assert (r < nlen m) by (unfold nlen; apply nth_error_Some; congruence). lia.
  - assert (g < glen m) by (unfold glen; apply nth_error_Some; congruence). lia.
Qed.

Lemma safe_step_refl : forall m, scoped m -> safe_step (nlen m) (glen m) m m.
Proof.
  intros m H. repeat split; try apply frame_refl; try lia; try apply H; apply fresh_closed_top.
Qed.

(* a step above (nl, gl) followed by a step above higher limits is a step above (nl, gl) *)
Lemma safe_step_trans : forall nl gl nl1 gl1 m m1 m2,
  safe_step nl gl m m1 -> safe_step nl1 gl1 m1 m2 -> nl <= nl1 -> gl <= gl1 ->
  safe_step nl gl m m2.
Proof.
  intros nl gl nl1 gl1 m m1 m2 (F1 & G1 & S1 & C1) (F2 & G2 & S2 & C2) Hn Hg.
  split; [|split; [|split]].
  - eapply frame_trans; [exact F1|]. eapply frame_weaken; eauto.
  - eapply grows_trans; eauto.
  - exact S2.
  - destruct C1 as [C1n C1g], C2 as [C2n C2g], F2 as [F2n F2g]. split.
    + intros r nd Hr Hnd p Hp. destruct (Nat.lt_ge_cases r nl1) as [Hlt|Hge].
      * rewrite F2n in Hnd by assumption. eapply C1n; eauto.
      * specialize (C2n r nd Hge Hnd p Hp). lia.
    + intros g ns Hg' Hns r Hr. destruct (Nat.lt_ge_cases g gl1) as [Hlt|Hge].
      * rewrite F2g in Hns by assumption. eapply C1g; eauto.
      * specialize (C2g g ns Hge Hns r Hr). lia.
Qed.

(* ------------------------------------------------------------------------------------ *)
(* reachability                                                                          *)
(* ------------------------------------------------------------------------------------ *)
(* from a graph object above the limits only node objects above the limit are reachable *)
Lemma reach_fresh : forall nl gl m g r, fresh_closed nl gl m -> gl <= g -> reach m g r -> nl <= r.
Proof.
  intros nl gl m g r [Cn Cg] Hg H. induction H as [r Hr|c p Hc IH Hp].
  - eapply Cg; eauto. eapply get_graph_in_valid; eauto.
  - eapply Cn; eauto. eapply get_node_parent_valid; eauto.
Qed.

(* from a graph object that existed in a scoped memory m0 only node objects of m0 are reachable,
   in every later memory that kept the objects of m0 as they were *)
Lemma reach_old : forall m0 m g r, scoped m0 -> frame (nlen m0) (glen m0) m0 m -> g < glen m0 ->
  reach m g r -> r < nlen m0.
Proof.
  intros m0 m g r [Sn Sg] F Hg H. induction H as [r Hr|c p Hc IH Hp].
  - rewrite (frame_get_graph _ _ _ _ _ F Hg Hg) in Hr.
    eapply Sg; eauto. apply nth_error_get_graph. assumption.
  - rewrite (frame_get_node _ _ _ _ _ F IH IH) in Hp.
    eapply Sn; eauto. apply nth_error_get_node. assumption.
Qed.

(* ------------------------------------------------------------------------------------ *)
(* deepcopy                                                                              *)
(* ------------------------------------------------------------------------------------ *)
Lemma deepcopy_fst_mn : forall m g, mn (fst (deepcopy m g)) =
  mn m ++ map (fun r => copy_node (nlen m) (get_graph m g) (get_node m r)) (get_graph m g).
Proof. reflexivity. Qed.

Lemma deepcopy_fst_mg : forall m g, mg (fst (deepcopy m g)) =
  mg m ++ [map (remap (nlen m) (get_graph m g)) (get_graph m g)].
Proof. reflexivity. Qed.

Lemma deepcopy_snd : forall m g, snd (deepcopy m g) = glen m.
Proof. reflexivity. Qed.

Lemma deepcopy_nlen : forall m g, nlen (fst (deepcopy m g)) = nlen m + List.length (get_graph m g).
Proof. intros. unfold nlen. rewrite deepcopy_fst_mn, app_length, map_length. reflexivity. Qed.

Lemma deepcopy_glen : forall m g, glen (fst (deepcopy m g)) = S (glen m).
Proof. intros. unfold glen. rewrite deepcopy_fst_mg, app_length. simpl. lia. Qed.

Lemma deepcopy_frame : forall m g, frame (nlen m) (glen m) m (fst (deepcopy m g)).
Proof.
  intros m g; split; intros r Hr.
  - rewrite deepcopy_fst_mn. apply nth_error_app1. exact Hr.
  - rewrite deepcopy_fst_mg. apply nth_error_app1. exact Hr.
Qed.

(* the cells of the copy *)
Lemma deepcopy_new_node : forall m g r nd, nlen m <= r ->
  nth_error (mn (fst (deepcopy m g))) r = Some nd ->
  exists r0, In r0 (get_graph m g) /\ nd = copy_node (nlen m) (get_graph m g) (get_node m r0).
Proof.
  intros m g r nd Hr H. rewrite deepcopy_fst_mn, nth_error_app2 in H by exact Hr.
  apply nth_error_In, in_map_iff in H. destruct H as [r0 [E Hin]]. eauto.
Qed.

Lemma deepcopy_new_graph : forall m g g' ns, glen m <= g' ->
  nth_error (mg (fst (deepcopy m g))) g' = Some ns ->
  ns = map (remap (nlen m) (get_graph m g)) (get_graph m g).
Proof.
  intros m g g' ns Hg H. rewrite deepcopy_fst_mg, nth_error_app2 in H by exact Hg.
  destruct (g' - List.length (mg m)) as [|k]; simpl in H.
  - inversion H; reflexivity.
  - destruct k; discriminate.
Qed.

Lemma deepcopy_safe : forall m g, scoped m -> g < glen m -> gclosed m g ->
  safe_step (nlen m) (glen m) m (fst (deepcopy m g)).
Proof.
  intros m g [Sn Sg] Hg Hc.
  assert (Hvalid : forall r, In r (get_graph m g) -> r < nlen m).
  { intros r Hr. eapply Sg; eauto. apply nth_error_get_graph; assumption. }
  split; [apply deepcopy_frame|]. split; [|split].
  - split; [rewrite deepcopy_nlen|rewrite deepcopy_glen]; lia.
  - split.
    + intros r nd Hnd p Hp. rewrite deepcopy_nlen.
      destruct (Nat.lt_ge_cases r (nlen m)) as [Hlt|Hge].
      * rewrite (proj1 (deepcopy_frame m g)) in Hnd by assumption.
        specialize (Sn r nd Hnd p Hp). lia.
      * destruct (deepcopy_new_node m g r nd Hge Hnd) as [r0 [Hr0 E]]. subst nd. simpl in Hp.
        apply in_map_iff in Hp. destruct Hp as [p0 [E Hp0]]. subst p.
        pose proof (remap_in (nlen m) (get_graph m g) p0 (Hc r0 Hr0 p0 Hp0)). lia.
    + intros g' ns Hns r Hr. rewrite deepcopy_nlen.
      destruct (Nat.lt_ge_cases g' (glen m)) as [Hlt|Hge].
      * rewrite (proj2 (deepcopy_frame m g)) in Hns by assumption.
        specialize (Sg g' ns Hns r Hr). lia.
      * rewrite (deepcopy_new_graph m g g' ns Hge Hns) in Hr.
        apply in_map_iff in Hr. destruct Hr as [r0 [E Hr0]]. subst r.
        pose proof (remap_in (nlen m) (get_graph m g) r0 Hr0). lia.
  - split.
    + intros r nd Hr Hnd p Hp.
      destruct (deepcopy_new_node m g r nd Hr Hnd) as [r0 [Hr0 E]]. subst nd. simpl in Hp.
      apply in_map_iff in Hp. destruct Hp as [p0 [E Hp0]]. subst p.
      pose proof (remap_in (nlen m) (get_graph m g) p0 (Hc r0 Hr0 p0 Hp0)). lia.
    + intros g' ns Hg' Hns r Hr.
      rewrite (deepcopy_new_graph m g g' ns Hg' Hns) in Hr.
      apply in_map_iff in Hr. destruct Hr as [r0 [E Hr0]]. subst r.
      pose proof (remap_in (nlen m) (get_graph m g) r0 Hr0). lia.
Qed.

(* validity of an old graph object survives every step above its memory *)
Lemma gclosed_frame : forall m m' g, scoped m -> g < glen m -> frame (nlen m) (glen m) m m' ->
  gclosed m g -> gclosed m' g.
Proof.
  intros m m' g [Sn Sg] Hg F Hc r Hr p Hp.
  rewrite (frame_get_graph _ _ _ _ _ F Hg Hg) in *.
  assert (r < nlen m) by (eapply Sg; eauto; apply nth_error_get_graph; assumption).
  rewrite (frame_get_node _ _ _ _ _ F H H) in Hp. eapply Hc; eauto.
Qed.

Lemma mut_attempts_S : forall v f n t atts m g,
  mut_attempts v f (S n) t atts m g =
  let (m1, g1) := deepcopy m g in
  let (m2, g2) := apply_mutations f t (hd [] atts) m1 g1 in
  if v m2 g2 then (m2, Some g2) else mut_attempts v f n t (tl atts) m2 g.
Proof. reflexivity. Qed.

Lemma cross_attempts_S : forall v f n t atts m g1 g2,
  cross_attempts v f (S n) t atts m g1 g2 =
  let (m1, c1) := deepcopy m g1 in
  let (m2, c2) := deepcopy m1 g2 in
  let (m3, gs) := f t (hd 0 atts) m2 c1 c2 in
  if forallb (v m3) gs then (m3, Some gs) else cross_attempts v f n t (tl atts) m3 g1 g2.
Proof. reflexivity. Qed.

Section Loops.
  Variable P : config.
  Variable verifier : mem -> gref -> bool.
  Variable geq : mem -> gref -> gref -> bool.
  Variable mutfun : nat -> nat -> mem -> gref -> mem * gref.
  Variable crossfun : nat -> nat -> mem -> gref -> gref -> mem * list gref.
  Hypothesis Hmut : mut_footprint mutfun.
  Hypothesis Hcross : cross_footprint crossfun.

  (* _apply_mutations *)
  Lemma apply_mutations_safe : forall t toks m g nl gl,
    nl <= nlen m -> gl <= glen m -> scoped m -> fresh_closed nl gl m -> gl <= g < glen m ->
    safe_step nl gl m (fst (apply_mutations mutfun t toks m g)) /\
    gl <= snd (apply_mutations mutfun t toks m g) < glen (fst (apply_mutations mutfun t toks m g)).
  Proof.
    induction toks as [|k ks IH]; intros m g nl gl Hn Hg Hs Hc Hgr; simpl.
    - split; [|exact Hgr]. repeat split; try apply frame_refl; try lia; try apply Hs; apply Hc.
    - destruct (Hmut t k m g nl gl Hn Hg Hs Hc Hgr) as [St Hr].
      destruct (mutfun t k m g) as [m' g'] eqn:E. simpl in St, Hr.
      destruct St as (F & G & S' & C').
      assert (Hn' : nl <= nlen m') by (destruct G; lia).
      assert (Hg' : gl <= glen m') by (destruct G; lia).
      destruct (IH m' g' nl gl Hn' Hg' S' C' Hr) as [St2 Hr2].
      split; [|exact Hr2].
      eapply safe_step_trans with (nl1 := nl) (gl1 := gl) (m1 := m'); eauto.
      repeat split; try apply F; try apply G; try apply S'; apply C'.
  Qed.

  (* the attempts loop of Mutation._mutation *)
  Lemma mut_attempts_safe : forall n t atts m g,
    scoped m -> g < glen m -> gclosed m g ->
    let r := mut_attempts verifier mutfun n t atts m g in
    safe_step (nlen m) (glen m) m (fst r) /\
    match snd r with
    | Some g' => glen m <= g' < glen (fst r) /\ verifier (fst r) g' = true
    | None => True
    end.
  Proof.
    induction n as [|n IH]; intros t atts m g Hs Hg Hc.
    - simpl. split; [apply safe_step_refl; exact Hs|exact I].
    - cbv zeta. rewrite mut_attempts_S.
      pose proof (deepcopy_safe m g Hs Hg Hc) as D.
      destruct (deepcopy m g) as [m1 g1] eqn:E1.
      assert (Eg1 : g1 = glen m) by (change g1 with (snd (m1, g1)); rewrite <- E1; apply deepcopy_snd).
      assert (Egl : glen m1 = S (glen m)) by (change m1 with (fst (m1, g1)); rewrite <- E1; apply deepcopy_glen).
      simpl in D. destruct D as (F1 & G1 & S1 & C1).
      assert (A := apply_mutations_safe t (hd [] atts) m1 g1 (nlen m) (glen m)
                     (proj1 G1) (proj2 G1) S1 C1 ltac:(lia)).
      destruct (apply_mutations mutfun t (hd [] atts) m1 g1) as [m2 g2] eqn:E2. simpl in A.
      destruct A as [St2 Hg2].
      assert (St : safe_step (nlen m) (glen m) m m2).
      { eapply safe_step_trans with (m1 := m1) (nl1 := nlen m) (gl1 := glen m); eauto.
        repeat split; try apply F1; try apply G1; try apply S1; apply C1. }
      destruct (verifier m2 g2) eqn:V; simpl.
      + split; [exact St|]. split; [exact Hg2|exact V].
      + destruct St as (F & G & S2 & C2).
        assert (Hg' : g < glen m2) by (destruct G; lia).
        assert (Hc' : gclosed m2 g) by (apply (gclosed_frame m m2 g Hs Hg F Hc)).
        specialize (IH t (tl atts) m2 g S2 Hg' Hc'). simpl in IH. destruct IH as [St3 R].
        split.
        * eapply safe_step_trans with (m1 := m2); eauto; try (destruct G; lia).
          repeat split; try apply F; try apply G; try apply S2; apply C2.
        * destruct (snd (mut_attempts verifier mutfun n t (tl atts) m2 g)) as [g'|]; [|exact I].
          destruct R as [R1 R2]. split; [destruct G; lia|exact R2].
  Qed.

  (* the attempts loop of Crossover._crossover *)
  Lemma cross_attempts_safe : forall n t atts m g1 g2,
    scoped m -> g1 < glen m -> gclosed m g1 -> g2 < glen m -> gclosed m g2 ->
    let r := cross_attempts verifier crossfun n t atts m g1 g2 in
    safe_step (nlen m) (glen m) m (fst r) /\
    match snd r with
    | Some gs => forall g', In g' gs -> glen m <= g' < glen (fst r) /\ verifier (fst r) g' = true
    | None => True
    end.
  Proof.
    induction n as [|n IH]; intros t atts m g1 g2 Hs Hg1 Hc1 Hg2 Hc2.
    - simpl. split; [apply safe_step_refl; exact Hs|exact I].
    - cbv zeta. rewrite cross_attempts_S.
      pose proof (deepcopy_safe m g1 Hs Hg1 Hc1) as D1.
      destruct (deepcopy m g1) as [m1 c1] eqn:E1.
      assert (Ec1 : c1 = glen m) by (change c1 with (snd (m1, c1)); rewrite <- E1; apply deepcopy_snd).
      assert (Egl1 : glen m1 = S (glen m)) by (change m1 with (fst (m1, c1)); rewrite <- E1; apply deepcopy_glen).
      simpl in D1. destruct D1 as (F1 & G1 & S1 & C1).
      assert (Hg2' : g2 < glen m1) by lia.
      assert (Hc2' : gclosed m1 g2) by (apply (gclosed_frame m m1 g2 Hs Hg2 F1 Hc2)).
      pose proof (deepcopy_safe m1 g2 S1 Hg2' Hc2') as D2.
      destruct (deepcopy m1 g2) as [m2 c2] eqn:E2.
      assert (Ec2 : c2 = glen m1) by (change c2 with (snd (m2, c2)); rewrite <- E2; apply deepcopy_snd).
      assert (Egl2 : glen m2 = S (glen m1)) by (change m2 with (fst (m2, c2)); rewrite <- E2; apply deepcopy_glen).
      simpl in D2.
      assert (St12 : safe_step (nlen m) (glen m) m m2).
      { eapply safe_step_trans with (m1 := m1); eauto; try (destruct G1; lia).
        repeat split; try apply F1; try apply G1; try apply S1; apply C1. }
      destruct St12 as (F12 & G12 & S2 & C12).
      destruct (Hcross t (hd 0 atts) m2 c1 c2 (nlen m) (glen m)
                  (proj1 G12) (proj2 G12) S2 C12 ltac:(lia) ltac:(lia)) as [St3 Hgs].
      destruct (crossfun t (hd 0 atts) m2 c1 c2) as [m3 gs] eqn:E3. simpl in St3, Hgs.
      assert (St : safe_step (nlen m) (glen m) m m3).
      { eapply safe_step_trans with (m1 := m2) (nl1 := nlen m) (gl1 := glen m); eauto.
        repeat split; try apply F12; try apply G12; try apply S2; apply C12. }
      destruct (forallb (verifier m3) gs) eqn:V; simpl.
      + split; [exact St|]. intros g' Hg'. split; [apply Hgs; exact Hg'|].
        rewrite forallb_forall in V. apply V; exact Hg'.
      + destruct St as (F & G & S3 & C3).
        assert (Hg1' : g1 < glen m3) by (destruct G; lia).
        assert (Hg2'' : g2 < glen m3) by (destruct G; lia).
        assert (Hc1' : gclosed m3 g1) by (apply (gclosed_frame m m3 g1 Hs Hg1 F Hc1)).
        assert (Hc2'' : gclosed m3 g2) by (apply (gclosed_frame m m3 g2 Hs Hg2 F Hc2)).
        specialize (IH t (tl atts) m3 g1 g2 S3 Hg1' Hc1' Hg2'' Hc2''). simpl in IH.
        destruct IH as [St4 R]. split.
        * eapply safe_step_trans with (m1 := m3); eauto; try (destruct G; lia).
          repeat split; try apply F; try apply G; try apply S3; apply C3.
        * destruct (snd (cross_attempts verifier crossfun n t (tl atts) m3 g1 g2)) as [gs'|]; [|exact I].
          intros g' Hg'. destruct (R g' Hg') as [[R1 R2] R3].
          split; [destruct G; lia|exact R3].
  Qed.
End Loops.

(* ------------------------------------------------------------------------------------ *)
(* Part 2: stores, the two operators                                                     *)
(* ------------------------------------------------------------------------------------ *)
(* s' is s after some operator work: every object of s is as it was, the memory grew by a
   region no reference leaves, individuals were only appended *)
Definition sext (s s' : store) : Prop :=
  safe_step (nlen (smem s)) (glen (smem s)) (smem s) (smem s') /\
  (exists extra, ih s' = ih s ++ extra) /\ ctr s <= ctr s'.

(* a valid individual: it exists, its graph object exists and lists the parents of its nodes *)
Definition valid_ind (s : store) (i : iref) : Prop :=
  i < List.length (ih s) /\ igraph (get_ind s i) < glen (smem s) /\
  gclosed (smem s) (igraph (get_ind s i)).

Lemma sext_refl : forall s, scoped (smem s) -> sext s s.
Proof.
  intros s H. split; [apply safe_step_refl; exact H|]. split; [exists []; rewrite app_nil_r; reflexivity|lia].
Qed.

Lemma sext_trans : forall s s1 s2, sext s s1 -> sext s1 s2 -> sext s s2.
Proof.
  intros s s1 s2 (A & [e1 E1] & C1) (B & [e2 E2] & C2). split; [|split].
  - destruct A as (FA & GA & SA & CA). eapply safe_step_trans; eauto.
    + repeat split; try apply FA; try apply GA; try apply SA; apply CA.
    + apply GA.
    + apply GA.
  - exists (e1 ++ e2). rewrite E2, E1, app_assoc. reflexivity.
  - lia.
Qed.

Lemma sext_scoped : forall s s', sext s s' -> scoped (smem s').
Proof. intros s s' ((_ & _ & S & _) & _). exact S. Qed.

Lemma sext_nth_ind : forall s s' i, sext s s' -> i < List.length (ih s) ->
  nth_error (ih s') i = nth_error (ih s) i.
Proof. intros s s' i (_ & [e E] & _) H. rewrite E. apply nth_error_app1. exact H. Qed.

Lemma sext_get_ind : forall s s' i, sext s s' -> i < List.length (ih s) -> get_ind s' i = get_ind s i.
Proof. intros s s' i (_ & [e E] & _) H. unfold get_ind. rewrite E. apply app_nth1. exact H. Qed.

Lemma sext_ih_len : forall s s', sext s s' -> List.length (ih s) <= List.length (ih s').
Proof. intros s s' (_ & [e E] & _). rewrite E, app_length. lia. Qed.

Lemma valid_ind_sext : forall s s' i, scoped (smem s) -> valid_ind s i -> sext s s' -> valid_ind s' i.
Proof.
  intros s s' i Hs (A & B & C) H. pose proof (sext_get_ind s s' i H A) as E.
  pose proof (sext_ih_len s s' H). destruct H as ((F & G & _ & _) & _ & _).
  unfold valid_ind. rewrite E. split; [lia|]. split; [destruct G; lia|].
  eapply gclosed_frame; eauto.
Qed.

Lemma type_not_none_in_range : forall P t, type_is_none P t = false -> t < List.length (types P).
Proof.
  intros P t H. unfold type_is_none in H. destruct (Nat.lt_ge_cases t (List.length (types P))) as [L|L]; [exact L|].
  rewrite nth_overflow in H by exact L. discriminate.
Qed.

Lemma Forall2_mono : forall A B (R R' : A -> B -> Prop) l r,
  (forall a b, R a b -> R' a b) -> Forall2 R l r -> Forall2 R' l r.
Proof. intros A B R R' l r H F. induction F; constructor; auto. Qed.

(* subsequence *)
Inductive subseq {A} : list A -> list A -> Prop :=
| subseq_nil : subseq [] []
| subseq_skip : forall x l r, subseq l r -> subseq l (x :: r)
| subseq_take : forall x l r, subseq l r -> subseq (x :: l) (x :: r).

Lemma subseq_In : forall A (l r : list A) x, subseq l r -> In x l -> In x r.
Proof. induction 1; intros Hx; simpl in *; intuition. Qed.

(* consecutive pairs of a population: (p0,p1), (p2,p3), ...; a last member without partner is left out *)
Fixpoint pairs_of {A} (l : list A) : list (A * A) :=
  match l with
  | a :: b :: l' => (a, b) :: pairs_of l'
  | _ => []
  end.

Lemma zip_evens_odds : forall A (l : list A), zip (evens l) (odds l) = pairs_of l.
Proof.
  intros A. fix IH 1. intros [|a [|b l]]; try reflexivity.
  change (zip (evens (a :: b :: l)) (odds (a :: b :: l))) with ((a, b) :: zip (evens l) (odds l)).
  simpl pairs_of. f_equal. apply IH.
Qed.

Lemma pairs_of_In : forall A (l : list A) a b, In (a, b) (pairs_of l) -> In a l /\ In b l.
Proof.
  intros A. fix IH 1. intros [|x [|y l]] a b H; simpl in H; try contradiction.
  destruct H as [H|H].
  - inversion H; subst. simpl. auto.
  - destruct (IH l a b H). simpl. auto.
Qed.

Lemma pairs_of_length : forall A (l : list A), List.length (pairs_of l) = Nat.div2 (List.length l).
Proof. intros A. fix IH 1. intros [|x [|y l]]; simpl; try reflexivity. f_equal. apply IH. Qed.

(* an odd last member has no influence *)
Lemma pairs_of_odd_last : forall A (l : list A) x, Nat.even (List.length l) = true ->
  pairs_of (l ++ [x]) = pairs_of l.
Proof.
  intros A. fix IH 1. intros [|a [|b l]] x H; simpl in *; try reflexivity; try discriminate.
  f_equal. apply IH. exact H.
Qed.

Section Operators.
  Variable P : config.
  Variable verifier : mem -> gref -> bool.
  Variable geq : mem -> gref -> gref -> bool.
  Variable mutfun : nat -> nat -> mem -> gref -> mem * gref.
  Variable crossfun : nat -> nat -> mem -> gref -> gref -> mem * list gref.
  Hypothesis Hmut : mut_footprint mutfun.
  Hypothesis Hcross : cross_footprint crossfun.
  Hypothesis Hver : stable1 verifier.

  (* a new individual of the final store sF, created after s0: it carries the operator po, its
     graph object was created after s0 and the verifier accepts it *)
  Definition new_with (s0 sF : store) (po : parent_operator) (o : iref) : Prop :=
    List.length (ih s0) <= o /\
    exists u g', nth_error (ih sF) o = Some (mk_ind u g' (Some po) 0) /\
                 glen (smem s0) <= g' < glen (smem sF) /\ verifier (smem sF) g' = true.

  (* the operator object: kind, name of a configured type that is not `none`, parents in order;
     a new object (its identity was drawn after s0) *)
  Definition op_desc (s0 : store) (kind : string) (ps : list iref) (po : parent_operator) : Prop :=
    po_kind po = kind /\ po_parents po = ps /\ ctr s0 <= po_id po /\
    exists t, po_names po = [type_name P t] /\ type_is_none P t = false /\ t < List.length (types P).

  Lemma new_with_later : forall s0 s1 s2 po o, scoped (smem s1) ->
    new_with s0 s1 po o -> sext s1 s2 -> new_with s0 s2 po o.
  Proof.
    intros s0 s1 s2 po o S1 (A & u & g' & N & B & V) H. split; [exact A|]. exists u, g'.
    assert (Ho : o < List.length (ih s1)) by (apply nth_error_Some; congruence).
    split; [rewrite (sext_nth_ind s1 s2 o H Ho); exact N|].
    destruct H as ((F & G & S & C) & _ & _). split; [destruct G; lia|].
    rewrite (Hver (smem s1) (smem s2) g'); auto. lia.
  Qed.

  Lemma new_with_earlier : forall s0 s1 s2 po o, sext s0 s1 -> new_with s1 s2 po o -> new_with s0 s2 po o.
  Proof.
    intros s0 s1 s2 po o H (A & u & g' & N & B & V). pose proof (sext_ih_len _ _ H).
    destruct H as ((_ & G & _ & _) & _ & _). split; [lia|]. exists u, g'. repeat split; auto; destruct G; lia.
  Qed.

  Lemma op_desc_earlier : forall s0 s1 kind ps po, sext s0 s1 -> op_desc s1 kind ps po -> op_desc s0 kind ps po.
  Proof.
    intros s0 s1 kind ps po (_ & _ & C) (A & B & D & E). repeat split; auto. lia.
  Qed.

  (* ---------------------------------------------------------------------------------- *)
  (* Mutation                                                                            *)
  (* ---------------------------------------------------------------------------------- *)
  Lemma mutation_one_spec : forall c s i, scoped (smem s) -> valid_ind s i ->
    let r := mutation_one P verifier mutfun c s i in
    sext s (fst r) /\
    (fst (snd r) = i \/
     exists po, op_desc s "mutation"%string [i] po /\ new_with s (fst r) po (fst (snd r))).
  Proof.
    intros c s i Hs (Hi & Hg & Hc). unfold mutation_one.
    destruct (mc_coin c && negb (type_is_none P (mc_type c))) eqn:Ap; cbv zeta.
    2: { simpl. split; [apply sext_refl; exact Hs|left; reflexivity]. }
    pose proof (mut_attempts_safe verifier mutfun Hmut (max_attempts P) (mc_type c) (mc_atts c)
                  (smem s) (igraph (get_ind s i)) Hs Hg Hc) as A. cbv zeta in A.
    destruct (mut_attempts verifier mutfun (max_attempts P) (mc_type c) (mc_atts c) (smem s)
                (igraph (get_ind s i))) as [m' [g'|]] eqn:E; simpl in A; destruct A as [St R]; simpl.
    - split.
      + split; [exact St|]. split; [eexists; reflexivity|simpl; lia].
      + right. exists (mk_po (ctr s) "mutation" [type_name P (mc_type c)] [i]). split.
        * apply andb_true_iff in Ap. destruct Ap as [_ Ap]. apply negb_true_iff in Ap.
          split; [reflexivity|]. split; [reflexivity|]. split; [simpl; lia|].
          exists (mc_type c). split; [reflexivity|]. split; [exact Ap|].
          apply type_not_none_in_range; exact Ap.
        * split; [lia|]. exists (S (ctr s)), g'. simpl.
          split; [rewrite nth_error_app2 by lia; rewrite Nat.sub_diag; reflexivity|exact R].
    - split; [|left; reflexivity].
      split; [exact St|]. split; [exists []; simpl; rewrite app_nil_r; reflexivity|simpl; lia].
  Qed.

  Definition mut_rel (s0 sF : store) (p : iref) (r : iref * bool) : Prop :=
    fst r = p \/ exists po, op_desc s0 "mutation"%string [p] po /\ new_with s0 sF po (fst r).

  Lemma mutation_map_spec : forall pop cs s, scoped (smem s) -> (forall i, In i pop -> valid_ind s i) ->
    let r := mutation_map P verifier mutfun cs s pop in
    sext s (fst r) /\ Forall2 (mut_rel s (fst r)) pop (snd r).
  Proof.
    induction pop as [|i pop IH]; intros cs s Hs Hv; simpl.
    - split; [apply sext_refl; exact Hs|constructor].
    - pose proof (mutation_one_spec (hd (mk_mchoice 0 false []) cs) s i Hs (Hv i (or_introl eq_refl))) as A.
      cbv zeta in A.
      destruct (mutation_one P verifier mutfun (hd (mk_mchoice 0 false []) cs) s i) as [s1 r1] eqn:E1.
      simpl in A. destruct A as [X1 R1].
      assert (Hs1 : scoped (smem s1)) by (eapply sext_scoped; eauto).
      assert (Hv1 : forall j, In j pop -> valid_ind s1 j).
      { intros j Hj. apply (valid_ind_sext s s1 j Hs); [apply Hv; right; exact Hj|exact X1]. }
      specialize (IH (tl cs) s1 Hs1 Hv1). cbv zeta in IH.
      destruct (mutation_map P verifier mutfun (tl cs) s1 pop) as [s2 rs] eqn:E2. simpl in IH.
      destruct IH as [X2 R2]. simpl. split; [eapply sext_trans; eauto|].
      constructor.
      + destruct R1 as [R1|[po [D N]]]; [left; exact R1|right].
        exists po. split; [exact D|]. eapply new_with_later; eauto.
      + eapply Forall2_mono; [|exact R2]. intros p r [H|[po [D N]]]; [left; exact H|right].
        exists po. split; [eapply op_desc_earlier; eauto|eapply new_with_earlier; eauto].
  Qed.

  Lemma drop_rule_subseq : forall s rs pop, subseq (drop_rule geq s rs pop) (map fst rs).
  Proof.
    assert (Hnil : forall l : list (iref * bool), subseq [] (map fst l)).
    { induction l; simpl; constructor; auto. }
    induction rs as [|r rs IH]; intros [|i pop].
    - constructor.
    - constructor.
    - apply (Hnil (r :: rs)).
    - simpl. destruct (kept geq s r i); [apply subseq_take|apply subseq_skip]; apply IH.
  Qed.

  Lemma mutation_call_result : forall cs s pop, pop <> [] ->
    let r := mutation_call P verifier geq mutfun cs s pop in
    fst r = fst (mutation_map P verifier mutfun cs s pop) /\
    result_list (snd r) = drop_rule geq (fst r) (snd (mutation_map P verifier mutfun cs s pop)) pop.
  Proof.
    intros cs s pop Hne. unfold mutation_call. destruct pop as [|i pop]; [congruence|].
    destruct (mutation_map P verifier mutfun cs s (i :: pop)) as [s' rs] eqn:E. cbv zeta. simpl fst. simpl snd.
    split; [reflexivity|].
    destruct pop as [|j pop]; [|reflexivity].
    (* one member: at most one individual survives the drop rule *)
    simpl in E. destruct (mutation_one P verifier mutfun (hd (mk_mchoice 0 false []) cs) s i) as [s1 r1].
    inversion E; subst. simpl. destruct (kept geq s' r1 i); reflexivity.
  Qed.

  Lemma mutation_call_spec : forall cs s pop, scoped (smem s) -> (forall i, In i pop -> valid_ind s i) ->
    let r := mutation_call P verifier geq mutfun cs s pop in
    sext s (fst r) /\
    exists rs, Forall2 (mut_rel s (fst r)) pop rs /\ subseq (result_list (snd r)) (map fst rs).
  Proof.
    intros cs s pop Hs Hv. destruct pop as [|i pop].
    - simpl. split; [apply sext_refl; exact Hs|]. exists []. split; constructor.
    - destruct (mutation_call_result cs s (i :: pop) ltac:(discriminate)) as [E1 E2].
      pose proof (mutation_map_spec (i :: pop) cs s Hs Hv) as [X R]. cbv zeta.
      rewrite E1, E2. split; [exact X|].
      exists (snd (mutation_map P verifier mutfun cs s (i :: pop))). split; [exact R|].
      rewrite E1. apply drop_rule_subseq.
  Qed.

  (* ---------------------------------------------------------------------------------- *)
  (* Crossover                                                                           *)
  (* ---------------------------------------------------------------------------------- *)
  Lemma fresh_individuals_nth : forall po gs u k g, nth_error gs k = Some g ->
    nth_error (fresh_individuals po u gs) k = Some (mk_ind (u + k) g (Some po) 0).
  Proof.
    induction gs as [|g0 gs IH]; intros u k g H; destruct k; simpl in *; try discriminate.
    - inversion H; subst. rewrite Nat.add_0_r. reflexivity.
    - rewrite (IH (S u) k g H). f_equal. f_equal. lia.
  Qed.

  (* the answer of _crossover for the pair (p1, p2): the two parents as they are, or new
     distinct individuals that all carry ONE operator object naming (p1, p2) in this order *)
  Definition cross_rel (s0 sF : store) (pr : iref * iref) (os : list iref) : Prop :=
    os = [fst pr; snd pr] \/
    exists po, op_desc s0 "crossover"%string [fst pr; snd pr] po /\
               Forall (new_with s0 sF po) os /\ NoDup os.

  Lemma crossover_one_spec : forall c s i1 i2, scoped (smem s) -> valid_ind s i1 -> valid_ind s i2 ->
    let r := crossover_one P verifier crossfun c s i1 i2 in
    sext s (fst r) /\ cross_rel s (fst r) (i1, i2) (snd r).
  Proof.
    intros c s i1 i2 Hs (Hi1 & Hg1 & Hc1) (Hi2 & Hg2 & Hc2). unfold crossover_one. cbv zeta.
    destruct (negb (igraph (get_ind s i1) =? igraph (get_ind s i2)) && xc_coin c &&
              negb (type_is_none P (xc_type c))) eqn:Ap.
    2: { simpl. split; [apply sext_refl; exact Hs|left; reflexivity]. }
    pose proof (cross_attempts_safe verifier crossfun Hcross (max_attempts P) (xc_type c) (xc_atts c)
                  (smem s) _ _ Hs Hg1 Hc1 Hg2 Hc2) as A. cbv zeta in A.
    destruct (cross_attempts verifier crossfun (max_attempts P) (xc_type c) (xc_atts c) (smem s)
                (igraph (get_ind s i1)) (igraph (get_ind s i2))) as [m' [gs|]] eqn:E;
      simpl in A; destruct A as [St R]; simpl.
    - split.
      + split; [exact St|]. split; [eexists; reflexivity|simpl; lia].
      + right. exists (mk_po (ctr s) "crossover" [type_name P (xc_type c)] [i1; i2]). split; [|split].
        * apply andb_true_iff in Ap. destruct Ap as [_ Ap]. apply negb_true_iff in Ap.
          split; [reflexivity|]. split; [reflexivity|]. split; [simpl; lia|].
          exists (xc_type c). split; [reflexivity|]. split; [exact Ap|].
          apply type_not_none_in_range; exact Ap.
        * apply Forall_forall. intros o Ho. apply in_seq in Ho.
          destruct (nth_error gs (o - List.length (ih s))) as [g|] eqn:Eg.
          2: { apply nth_error_None in Eg. lia. }
          split; [lia|]. exists (S (ctr s) + (o - List.length (ih s))), g. simpl.
          split.
          -- rewrite nth_error_app2 by lia. apply fresh_individuals_nth. exact Eg.
          -- apply R. eapply nth_error_In; eauto.
        * apply seq_NoDup.
    - split; [|left; reflexivity].
      split; [exact St|]. split; [exists []; simpl; rewrite app_nil_r; reflexivity|simpl; lia].
  Qed.

  Lemma cross_rel_later : forall s0 s1 s2 pr os, scoped (smem s1) ->
    cross_rel s0 s1 pr os -> sext s1 s2 -> cross_rel s0 s2 pr os.
  Proof.
    intros s0 s1 s2 pr os S1 [H|[po (D & F & N)]] X; [left; exact H|right].
    exists po. split; [exact D|]. split; [|exact N].
    eapply Forall_impl; [|exact F]. intros o Ho. eapply new_with_later; eauto.
  Qed.

  Lemma cross_rel_earlier : forall s0 s1 s2 pr os, sext s0 s1 -> cross_rel s1 s2 pr os -> cross_rel s0 s2 pr os.
  Proof.
    intros s0 s1 s2 pr os X [H|[po (D & F & N)]]; [left; exact H|right].
    exists po. split; [eapply op_desc_earlier; eauto|]. split; [|exact N].
    eapply Forall_impl; [|exact F]. intros o Ho. eapply new_with_earlier; eauto.
  Qed.

  Lemma crossover_pairs_spec : forall prs cs s, scoped (smem s) ->
    (forall a b, In (a, b) prs -> valid_ind s a /\ valid_ind s b) ->
    let r := crossover_pairs P verifier crossfun cs s prs in
    sext s (fst r) /\
    exists oss, snd r = List.concat oss /\ Forall2 (cross_rel s (fst r)) prs oss.
  Proof.
    induction prs as [|[i1 i2] prs IH]; intros cs s Hs Hv; simpl.
    - split; [apply sext_refl; exact Hs|]. exists []. split; [reflexivity|constructor].
    - destruct (Hv i1 i2 (or_introl eq_refl)) as [V1 V2].
      pose proof (crossover_one_spec (hd (mk_xchoice 0 false []) cs) s i1 i2 Hs V1 V2) as A. cbv zeta in A.
      destruct (crossover_one P verifier crossfun (hd (mk_xchoice 0 false []) cs) s i1 i2) as [s1 o1] eqn:E1.
      simpl in A. destruct A as [X1 R1].
      assert (Hs1 : scoped (smem s1)) by (eapply sext_scoped; eauto).
      assert (Hv1 : forall a b, In (a, b) prs -> valid_ind s1 a /\ valid_ind s1 b).
      { intros a b Hab. destruct (Hv a b (or_intror Hab)) as [Va Vb].
        split; [apply (valid_ind_sext s s1 a Hs Va X1)|apply (valid_ind_sext s s1 b Hs Vb X1)]. }
      specialize (IH (tl cs) s1 Hs1 Hv1). cbv zeta in IH.
      destruct (crossover_pairs P verifier crossfun (tl cs) s1 prs) as [s2 os] eqn:E2. simpl in IH.
      destruct IH as [X2 [oss [Eo R2]]]. simpl. split; [eapply sext_trans; eauto|].
      exists (o1 :: oss). split; [simpl; rewrite Eo; reflexivity|].
      constructor.
      + eapply cross_rel_later; eauto.
      + eapply Forall2_mono; [|exact R2]. intros pr os' H. eapply cross_rel_earlier; eauto.
  Qed.
End Operators.

(* ------------------------------------------------------------------------------------ *)
(* Part 3: well-formedness of offspring                                                  *)
(* ------------------------------------------------------------------------------------ *)
(* a well-formed graph object: it exists; no node object is listed twice; every listed object
   exists; no two listed nodes carry one uid; no parent is linked twice; every parent of a listed
   node is listed *)
Definition wf_graph (m : mem) (g : gref) : Prop :=
  g < glen m /\ NoDup (get_graph m g) /\ (forall r, In r (get_graph m g) -> r < nlen m) /\
  NoDup (map (fun r => uid (get_node m r)) (get_graph m g)) /\
  (forall r, In r (get_graph m g) ->
     NoDup (parents (get_node m r)) /\ forall p, In p (parents (get_node m r)) -> In p (get_graph m g)).

Lemma memb_In : forall x l, memb x l = true <-> In x l.
Proof.
  intros x l. unfold memb. rewrite existsb_exists. split.
  - intros [y [H E]]. apply Nat.eqb_eq in E. subst. exact H.
  - intros H. exists x. split; [exact H|apply Nat.eqb_refl].
Qed.

Lemma nodup_b_NoDup : forall l, nodup_b l = true <-> NoDup l.
Proof.
  induction l as [|x l IH]; simpl.
  - split; [constructor|reflexivity].
  - rewrite andb_true_iff, negb_true_iff, IH. split.
    + intros [A B]. constructor; [|exact B]. intros H. apply memb_In in H. congruence.
    + intros H. inversion H; subst. split; [|assumption].
      destruct (memb x l) eqn:E; [|reflexivity]. apply memb_In in E. contradiction.
Qed.

(* the executable predicate of the oracle decides well-formedness *)
Lemma wf_graph_b_iff : forall m g, wf_graph_b m g = true <-> wf_graph m g.
Proof.
  intros m g. unfold wf_graph_b, wf_graph. cbv zeta.
  rewrite !andb_true_iff, Nat.ltb_lt, !nodup_b_NoDup, !forallb_forall. unfold glen, nlen.
  split.
  - intros (A & (((B & C) & D) & E)). repeat split; auto.
    + intros r Hr. apply Nat.ltb_lt. apply C; exact Hr.
    + specialize (E r H). apply andb_true_iff in E. apply nodup_b_NoDup. apply E.
    + intros p Hp. specialize (E r H). apply andb_true_iff in E. destruct E as [_ E].
      rewrite forallb_forall in E. apply memb_In. apply E; exact Hp.
  - intros (A & B & C & D & E). repeat split; auto.
    + intros r Hr. apply Nat.ltb_lt. apply C; exact Hr.
    + intros r Hr. destruct (E r Hr) as [E1 E2]. apply andb_true_iff. split.
      * apply nodup_b_NoDup; exact E1.
      * apply forallb_forall. intros p Hp. apply memb_In. apply E2; exact Hp.
Qed.

Lemma wf_graph_gclosed : forall m g, wf_graph m g -> gclosed m g.
Proof. intros m g (_ & _ & _ & _ & E) r Hr p Hp. apply (proj2 (E r Hr)); exact Hp. Qed.

(* well-formedness of an existing graph object survives every step above its memory *)
Lemma wf_graph_frame : forall m m' g, frame (nlen m) (glen m) m m' -> wf_graph m g -> wf_graph m' g.
Proof.
  intros m m' g F (A & B & C & D & E).
  assert (Hn : forall r, r < nlen m -> r < nlen m').
  { intros r Hr. unfold nlen. apply nth_error_Some. rewrite (proj1 F) by exact Hr.
    apply nth_error_Some. exact Hr. }
  assert (Hg : g < glen m').
  { unfold glen. apply nth_error_Some. rewrite (proj2 F) by exact A. apply nth_error_Some. exact A. }
  assert (EG : get_graph m' g = get_graph m g) by (eapply frame_get_graph; eauto).
  assert (EN : forall r, In r (get_graph m g) -> get_node m' r = get_node m r).
  { intros r Hr. eapply frame_get_node; eauto. }
  unfold wf_graph. rewrite EG. repeat split; auto.
  - rewrite (map_ext_in _ (fun r => uid (get_node m r))); [exact D|].
    intros r Hr. rewrite EN by exact Hr. reflexivity.
  - rewrite EN by exact H. apply E; exact H.
  - intros p Hp. rewrite EN in Hp by exact H. apply (proj2 (E r H)); exact Hp.
Qed.

Lemma NoDup_map_in : forall A B (f : A -> B) l,
  (forall x y, In x l -> In y l -> f x = f y -> x = y) -> NoDup l -> NoDup (map f l).
Proof.
  intros A B f l Hinj H. induction H as [|x l Hx Hl IH]; simpl; constructor.
  - intros Hin. apply in_map_iff in Hin. destruct Hin as [y [E Hy]].
    assert (y = x) by (apply Hinj; simpl; auto). subst. contradiction.
  - apply IH. intros a b Ha Hb. apply Hinj; simpl; auto.
Qed.

Lemma remap_inj : forall base ns x y, In x ns -> In y ns -> remap base ns x = remap base ns y -> x = y.
Proof.
  intros base ns x y Hx Hy H. unfold remap in H.
  destruct (index_of_In x ns Hx) as [i Hi]. destruct (index_of_In y ns Hy) as [j Hj].
  rewrite Hi, Hj in H. assert (i = j) by lia. subst j.
  apply index_of_Some in Hi. apply index_of_Some in Hj. destruct Hi as [_ Hi], Hj as [_ Hj]. congruence.
Qed.

(* the cell of the copy of a listed node *)
Lemma deepcopy_copy_cell : forall m g r, In r (get_graph m g) ->
  get_node (fst (deepcopy m g)) (remap (nlen m) (get_graph m g) r) =
  copy_node (nlen m) (get_graph m g) (get_node m r).
Proof.
  intros m g r Hr. unfold remap. destruct (index_of_In r _ Hr) as [i Hi]. rewrite Hi.
  apply index_of_Some in Hi. destruct Hi as [Hlt Hn].
  apply get_node_nth. rewrite deepcopy_fst_mn. unfold nlen.
  rewrite nth_error_app2 by lia. replace (List.length (mn m) + i - List.length (mn m)) with i by lia.
  rewrite nth_error_map, Hn. reflexivity.
Qed.

Lemma deepcopy_graph_cell : forall m g,
  get_graph (fst (deepcopy m g)) (glen m) = map (remap (nlen m) (get_graph m g)) (get_graph m g).
Proof.
  intros m g. apply get_graph_nth. rewrite deepcopy_fst_mg. unfold glen.
  rewrite nth_error_app2 by lia. rewrite Nat.sub_diag. reflexivity.
Qed.

(* deepcopy of a well-formed graph is a well-formed graph (with the same uids) *)
Lemma deepcopy_wf : forall m g, wf_graph m g -> wf_graph (fst (deepcopy m g)) (glen m).
Proof.
  intros m g (A & B & C & D & E). unfold wf_graph.
  rewrite deepcopy_graph_cell, deepcopy_glen, deepcopy_nlen.
  set (ns := get_graph m g) in *. set (base := nlen m) in *.
  split; [lia|]. split; [|split; [|split]].
  - apply NoDup_map_in; [|exact B]. intros x y Hx Hy. apply remap_inj; assumption.
  - intros r Hr. apply in_map_iff in Hr. destruct Hr as [r0 [Er Hr0]]. subst r.
    pose proof (remap_in base ns r0 Hr0). lia.
  - rewrite map_map. rewrite (map_ext_in _ (fun r => uid (get_node m r))); [exact D|].
    intros r Hr. unfold ns, base. rewrite deepcopy_copy_cell by exact Hr. reflexivity.
  - intros r Hr. apply in_map_iff in Hr. destruct Hr as [r0 [Er Hr0]]. subst r.
    unfold ns, base. rewrite deepcopy_copy_cell by exact Hr0. simpl. fold ns. fold base.
    destruct (E r0 Hr0) as [E1 E2]. split.
    + apply NoDup_map_in; [|exact E1]. intros x y Hx Hy. apply remap_inj; auto.
    + intros p Hp. apply in_map_iff in Hp. destruct Hp as [p0 [Ep Hp0]]. subst p.
      apply in_map. apply E2; exact Hp0.
Qed.

(* the functions keep the fresh graphs they are given well-formed (for the built-in ones: C17) *)
Definition mut_keeps_wf (f : nat -> nat -> mem -> gref -> mem * gref) : Prop :=
  forall t k m g nl gl,
    nl <= nlen m -> gl <= glen m -> scoped m -> fresh_closed nl gl m -> gl <= g < glen m ->
    wf_graph m g -> wf_graph (fst (f t k m g)) (snd (f t k m g)).

Definition cross_keeps_wf (f : nat -> nat -> mem -> gref -> gref -> mem * list gref) : Prop :=
  forall t k m g1 g2 nl gl,
    nl <= nlen m -> gl <= glen m -> scoped m -> fresh_closed nl gl m ->
    gl <= g1 < glen m -> gl <= g2 < glen m -> wf_graph m g1 -> wf_graph m g2 ->
    forall g, In g (snd (f t k m g1 g2)) -> wf_graph (fst (f t k m g1 g2)) g.

Lemma fresh_individuals_length : forall po gs u, List.length (fresh_individuals po u gs) = List.length gs.
Proof. induction gs; intros; simpl; auto. Qed.

Section Wf.
  Variable P : config.
  Variable verifier : mem -> gref -> bool.
  Variable geq : mem -> gref -> gref -> bool.
  Variable mutfun : nat -> nat -> mem -> gref -> mem * gref.
  Variable crossfun : nat -> nat -> mem -> gref -> gref -> mem * list gref.
  Hypothesis Hmut : mut_footprint mutfun.
  Hypothesis Hcross : cross_footprint crossfun.
  Hypothesis Hver : stable1 verifier.
  Hypothesis Wmut : mut_keeps_wf mutfun.
  Hypothesis Wcross : cross_keeps_wf crossfun.

  Lemma apply_mutations_wf : forall t toks m g nl gl,
    nl <= nlen m -> gl <= glen m -> scoped m -> fresh_closed nl gl m -> gl <= g < glen m ->
    wf_graph m g ->
    wf_graph (fst (apply_mutations mutfun t toks m g)) (snd (apply_mutations mutfun t toks m g)).
  Proof.
    induction toks as [|k ks IH]; intros m g nl gl Hn Hg Hs Hc Hgr W; simpl; [exact W|].
    destruct (Hmut t k m g nl gl Hn Hg Hs Hc Hgr) as [(F & G & S' & C') Hr].
    pose proof (Wmut t k m g nl gl Hn Hg Hs Hc Hgr W) as W'.
    destruct (mutfun t k m g) as [m' g'] eqn:E. simpl in *.
    apply (IH m' g' nl gl); auto; destruct G; lia.
  Qed.

  Lemma mut_attempts_wf : forall n t atts m g,
    scoped m -> wf_graph m g ->
    match snd (mut_attempts verifier mutfun n t atts m g) with
    | Some g' => wf_graph (fst (mut_attempts verifier mutfun n t atts m g)) g'
    | None => True
    end.
  Proof.
    induction n as [|n IH]; intros t atts m g Hs W; [exact I|].
    rewrite mut_attempts_S.
    assert (Hg : g < glen m) by apply W.
    pose proof (deepcopy_safe m g Hs Hg (wf_graph_gclosed m g W)) as D.
    pose proof (deepcopy_wf m g W) as W1.
    destruct (deepcopy m g) as [m1 g1] eqn:E1.
    assert (Eg1 : g1 = glen m) by (change g1 with (snd (m1, g1)); rewrite <- E1; apply deepcopy_snd).
    assert (Egl : glen m1 = S (glen m)) by (change m1 with (fst (m1, g1)); rewrite <- E1; apply deepcopy_glen).
    simpl in D, W1. destruct D as (F1 & G1 & S1 & C1). rewrite <- Eg1 in W1.
    assert (A := apply_mutations_safe mutfun Hmut t (hd [] atts) m1 g1 (nlen m) (glen m)
                   (proj1 G1) (proj2 G1) S1 C1 ltac:(lia)).
    assert (W2 := apply_mutations_wf t (hd [] atts) m1 g1 (nlen m) (glen m)
                   (proj1 G1) (proj2 G1) S1 C1 ltac:(lia) W1).
    destruct (apply_mutations mutfun t (hd [] atts) m1 g1) as [m2 g2] eqn:E2. simpl in A, W2.
    destruct A as [St2 Hg2].
    destruct (verifier m2 g2); simpl; [exact W2|].
    assert (St : safe_step (nlen m) (glen m) m m2).
    { eapply safe_step_trans with (m1 := m1) (nl1 := nlen m) (gl1 := glen m); eauto.
      repeat split; try apply F1; try apply G1; try apply S1; apply C1. }
    destruct St as (F & G & S2 & C2).
    apply IH; [exact S2|]. eapply wf_graph_frame; eauto.
  Qed.

  Lemma cross_attempts_wf : forall n t atts m g1 g2,
    scoped m -> wf_graph m g1 -> wf_graph m g2 ->
    match snd (cross_attempts verifier crossfun n t atts m g1 g2) with
    | Some gs => forall g', In g' gs -> wf_graph (fst (cross_attempts verifier crossfun n t atts m g1 g2)) g'
    | None => True
    end.
  Proof.
    induction n as [|n IH]; intros t atts m g1 g2 Hs W1 W2; [exact I|].
    rewrite cross_attempts_S.
    assert (Hg1 : g1 < glen m) by apply W1. assert (Hg2 : g2 < glen m) by apply W2.
    pose proof (deepcopy_safe m g1 Hs Hg1 (wf_graph_gclosed m g1 W1)) as D1.
    pose proof (deepcopy_wf m g1 W1) as V1.
    destruct (deepcopy m g1) as [m1 c1] eqn:E1.
    assert (Ec1 : c1 = glen m) by (change c1 with (snd (m1, c1)); rewrite <- E1; apply deepcopy_snd).
    assert (Egl1 : glen m1 = S (glen m)) by (change m1 with (fst (m1, c1)); rewrite <- E1; apply deepcopy_glen).
    simpl in D1, V1. destruct D1 as (F1 & G1 & S1 & C1). rewrite <- Ec1 in V1.
    assert (W2' : wf_graph m1 g2) by (eapply wf_graph_frame; eauto).
    assert (Hg2' : g2 < glen m1) by lia.
    pose proof (deepcopy_safe m1 g2 S1 Hg2' (wf_graph_gclosed m1 g2 W2')) as D2.
    pose proof (deepcopy_wf m1 g2 W2') as V2.
    destruct (deepcopy m1 g2) as [m2 c2] eqn:E2.
    assert (Ec2 : c2 = glen m1) by (change c2 with (snd (m2, c2)); rewrite <- E2; apply deepcopy_snd).
    assert (Egl2 : glen m2 = S (glen m1)) by (change m2 with (fst (m2, c2)); rewrite <- E2; apply deepcopy_glen).
    simpl in D2, V2. rewrite <- Ec2 in V2.
    assert (V1' : wf_graph m2 c1) by (eapply wf_graph_frame; [apply D2|exact V1]).
    assert (St12 : safe_step (nlen m) (glen m) m m2).
    { eapply safe_step_trans with (m1 := m1); eauto; try (destruct G1; lia).
      repeat split; try apply F1; try apply G1; try apply S1; apply C1. }
    destruct St12 as (F12 & G12 & S2 & C12).
    destruct (Hcross t (hd 0 atts) m2 c1 c2 (nlen m) (glen m)
                (proj1 G12) (proj2 G12) S2 C12 ltac:(lia) ltac:(lia)) as [St3 Hgs].
    pose proof (Wcross t (hd 0 atts) m2 c1 c2 (nlen m) (glen m)
                (proj1 G12) (proj2 G12) S2 C12 ltac:(lia) ltac:(lia) V1' V2) as W3.
    destruct (crossfun t (hd 0 atts) m2 c1 c2) as [m3 gs] eqn:E3. simpl in St3, Hgs, W3.
    destruct (forallb (verifier m3) gs); simpl; [exact W3|].
    assert (St : safe_step (nlen m) (glen m) m m3).
    { eapply safe_step_trans with (m1 := m2) (nl1 := nlen m) (gl1 := glen m); eauto.
      repeat split; try apply F12; try apply G12; try apply S2; apply C12. }
    destruct St as (F & G & S3 & C3).
    apply IH; [exact S3| |]; eapply wf_graph_frame; eauto.
  Qed.

  (* every individual created between s and s' holds a well-formed graph *)
  Definition all_new_wf (s s' : store) : Prop :=
    forall o, List.length (ih s) <= o < List.length (ih s') -> wf_graph (smem s') (igraph (get_ind s' o)).

  Definition wf_ind (s : store) (i : iref) : Prop :=
    i < List.length (ih s) /\ wf_graph (smem s) (igraph (get_ind s i)).

  Lemma wf_ind_valid : forall s i, wf_ind s i -> valid_ind s i.
  Proof. intros s i [A W]. split; [exact A|]. split; [apply W|apply wf_graph_gclosed; exact W]. Qed.

  Lemma wf_ind_sext : forall s s' i, wf_ind s i -> sext s s' -> wf_ind s' i.
  Proof.
    intros s s' i [A W] X. pose proof (sext_ih_len _ _ X). split; [lia|].
    rewrite (sext_get_ind s s' i X A). destruct X as ((F & _) & _). eapply wf_graph_frame; eauto.
  Qed.

  Lemma all_new_wf_trans : forall s s1 s2, sext s s1 -> sext s1 s2 ->
    all_new_wf s s1 -> all_new_wf s1 s2 -> all_new_wf s s2.
  Proof.
    intros s s1 s2 X1 X2 A B o Ho. destruct (Nat.lt_ge_cases o (List.length (ih s1))) as [L|L].
    - assert (W : wf_ind s1 o) by (split; [exact L|apply A; lia]).
      apply (wf_ind_sext s1 s2 o W X2).
    - apply B. lia.
  Qed.

  Lemma mutation_one_wf : forall c s i, scoped (smem s) -> wf_ind s i ->
    all_new_wf s (fst (mutation_one P verifier mutfun c s i)).
  Proof.
    intros c s i Hs [Hi W]. unfold mutation_one.
    destruct (mc_coin c && negb (type_is_none P (mc_type c))); cbv zeta.
    2: { simpl. intros o Ho. lia. }
    pose proof (mut_attempts_wf (max_attempts P) (mc_type c) (mc_atts c) (smem s) _ Hs W) as A.
    destruct (mut_attempts verifier mutfun (max_attempts P) (mc_type c) (mc_atts c) (smem s)
                (igraph (get_ind s i))) as [m' [g'|]] eqn:E; simpl in A; simpl.
    - intros o Ho. simpl in Ho. rewrite app_length in Ho. simpl in Ho.
      assert (o = List.length (ih s)) by lia. subst o.
      unfold get_ind. simpl. rewrite app_nth2 by lia. rewrite Nat.sub_diag. simpl. exact A.
    - intros o Ho. simpl in Ho. lia.
  Qed.

  Lemma mutation_map_wf : forall pop cs s, scoped (smem s) -> (forall i, In i pop -> wf_ind s i) ->
    all_new_wf s (fst (mutation_map P verifier mutfun cs s pop)).
  Proof.
    induction pop as [|i pop IH]; intros cs s Hs Hv; simpl.
    - intros o Ho. lia.
    - pose proof (mutation_one_spec P verifier mutfun Hmut (hd (mk_mchoice 0 false []) cs) s i Hs
                    (wf_ind_valid s i (Hv i (or_introl eq_refl)))) as [X1 _].
      pose proof (mutation_one_wf (hd (mk_mchoice 0 false []) cs) s i Hs (Hv i (or_introl eq_refl))) as A1.
      destruct (mutation_one P verifier mutfun (hd (mk_mchoice 0 false []) cs) s i) as [s1 r1] eqn:E1.
      simpl in X1, A1.
      assert (Hs1 : scoped (smem s1)) by (eapply sext_scoped; eauto).
      assert (Hv1 : forall j, In j pop -> wf_ind s1 j).
      { intros j Hj. apply (wf_ind_sext s s1 j); [apply Hv; right; exact Hj|exact X1]. }
      pose proof (mutation_map_spec P verifier mutfun Hmut Hver pop (tl cs) s1 Hs1
                    (fun j Hj => wf_ind_valid s1 j (Hv1 j Hj))) as X2.
      specialize (IH (tl cs) s1 Hs1 Hv1).
      destruct (mutation_map P verifier mutfun (tl cs) s1 pop) as [s2 rs] eqn:E2. simpl in *.
      eapply all_new_wf_trans; eauto. apply X2.
  Qed.


  Lemma crossover_one_wf : forall c s i1 i2, scoped (smem s) -> wf_ind s i1 -> wf_ind s i2 ->
    all_new_wf s (fst (crossover_one P verifier crossfun c s i1 i2)).
  Proof.
    intros c s i1 i2 Hs [Hi1 W1] [Hi2 W2]. unfold crossover_one. cbv zeta.
    destruct (negb (igraph (get_ind s i1) =? igraph (get_ind s i2)) && xc_coin c &&
              negb (type_is_none P (xc_type c))).
    2: { simpl. intros o Ho. lia. }
    pose proof (cross_attempts_wf (max_attempts P) (xc_type c) (xc_atts c) (smem s) _ _ Hs W1 W2) as A.
    destruct (cross_attempts verifier crossfun (max_attempts P) (xc_type c) (xc_atts c) (smem s)
                (igraph (get_ind s i1)) (igraph (get_ind s i2))) as [m' [gs|]] eqn:E; simpl in A; simpl.
    - intros o Ho. simpl in Ho. rewrite app_length, fresh_individuals_length in Ho.
      destruct (nth_error gs (o - List.length (ih s))) as [g|] eqn:Eg.
      2: { apply nth_error_None in Eg. lia. }
      unfold get_ind. simpl. rewrite app_nth2 by lia.
      erewrite nth_error_nth; [|apply fresh_individuals_nth; exact Eg]. simpl.
      apply A. eapply nth_error_In; eauto.
    - intros o Ho. simpl in Ho. lia.
  Qed.

  Lemma crossover_pairs_wf : forall prs cs s, scoped (smem s) ->
    (forall a b, In (a, b) prs -> wf_ind s a /\ wf_ind s b) ->
    all_new_wf s (fst (crossover_pairs P verifier crossfun cs s prs)).
  Proof.
    induction prs as [|[i1 i2] prs IH]; intros cs s Hs Hv; simpl.
    - intros o Ho. lia.
    - destruct (Hv i1 i2 (or_introl eq_refl)) as [V1 V2].
      pose proof (crossover_one_spec P verifier crossfun Hcross (hd (mk_xchoice 0 false []) cs) s i1 i2 Hs
                    (wf_ind_valid _ _ V1) (wf_ind_valid _ _ V2)) as [X1 _].
      pose proof (crossover_one_wf (hd (mk_xchoice 0 false []) cs) s i1 i2 Hs V1 V2) as A1.
      destruct (crossover_one P verifier crossfun (hd (mk_xchoice 0 false []) cs) s i1 i2) as [s1 o1] eqn:E1.
      simpl in X1, A1.
      assert (Hs1 : scoped (smem s1)) by (eapply sext_scoped; eauto).
      assert (Hv1 : forall a b, In (a, b) prs -> wf_ind s1 a /\ wf_ind s1 b).
      { intros a b Hab. destruct (Hv a b (or_intror Hab)) as [Va Vb].
        split; [apply (wf_ind_sext s s1 a Va X1)|apply (wf_ind_sext s s1 b Vb X1)]. }
      pose proof (crossover_pairs_spec P verifier crossfun Hcross Hver prs (tl cs) s1 Hs1
                    (fun a b Hab => conj (wf_ind_valid _ _ (proj1 (Hv1 a b Hab)))
                                         (wf_ind_valid _ _ (proj2 (Hv1 a b Hab))))) as X2.
      specialize (IH (tl cs) s1 Hs1 Hv1).
      destruct (crossover_pairs P verifier crossfun (tl cs) s1 prs) as [s2 os] eqn:E2. simpl in *.
      eapply all_new_wf_trans; eauto. apply X2.
  Qed.
End Wf.

(* ------------------------------------------------------------------------------------ *)
(* Frame and freshness of the two operators without any assumption about the verifier     *)
(* ------------------------------------------------------------------------------------ *)
(* every individual created between s and s' holds a graph object created after s *)
Definition created_fresh (s s' : store) : Prop :=
  forall o, List.length (ih s) <= o < List.length (ih s') -> glen (smem s) <= igraph (get_ind s' o).

Definition sext2 (s s' : store) : Prop := sext s s' /\ created_fresh s s'.

Lemma sext2_refl : forall s, scoped (smem s) -> sext2 s s.
Proof. intros s H. split; [apply sext_refl; exact H|]. intros o Ho. lia. Qed.

Lemma sext2_trans : forall s s1 s2, sext2 s s1 -> sext2 s1 s2 -> sext2 s s2.
Proof.
  intros s s1 s2 [X1 C1] [X2 C2]. split; [eapply sext_trans; eauto|].
  intros o Ho. destruct (Nat.lt_ge_cases o (List.length (ih s1))) as [L|L].
  - rewrite (sext_get_ind s1 s2 o X2 L). apply C1. lia.
  - specialize (C2 o ltac:(lia)). destruct X1 as ((_ & G & _) & _). destruct G. lia.
Qed.

Section NoVerifierAssumption.
  Variable P : config.
  Variable verifier : mem -> gref -> bool.
  Variable geq : mem -> gref -> gref -> bool.
  Variable mutfun : nat -> nat -> mem -> gref -> mem * gref.
  Variable crossfun : nat -> nat -> mem -> gref -> gref -> mem * list gref.
  Hypothesis Hmut : mut_footprint mutfun.
  Hypothesis Hcross : cross_footprint crossfun.

  Lemma mutation_one_sext2 : forall c s i, scoped (smem s) -> valid_ind s i ->
    sext2 s (fst (mutation_one P verifier mutfun c s i)).
  Proof.
    intros c s i Hs Hv. split; [apply (mutation_one_spec P verifier mutfun Hmut c s i Hs Hv)|].
    destruct Hv as (Hi & Hg & Hc). unfold mutation_one.
    destruct (mc_coin c && negb (type_is_none P (mc_type c))); cbv zeta.
    2: { simpl. intros o Ho. lia. }
    pose proof (mut_attempts_safe verifier mutfun Hmut (max_attempts P) (mc_type c) (mc_atts c)
                  (smem s) (igraph (get_ind s i)) Hs Hg Hc) as A. cbv zeta in A.
    destruct (mut_attempts verifier mutfun (max_attempts P) (mc_type c) (mc_atts c) (smem s)
                (igraph (get_ind s i))) as [m' [g'|]] eqn:E; simpl in A; destruct A as [St R]; simpl.
    - intros o Ho. simpl in Ho. rewrite app_length in Ho. simpl in Ho.
      assert (o = List.length (ih s)) by lia. subst o.
      unfold get_ind. simpl. rewrite app_nth2 by lia. rewrite Nat.sub_diag. simpl. lia.
    - intros o Ho. simpl in Ho. lia.
  Qed.

  Lemma mutation_map_sext2 : forall pop cs s, scoped (smem s) -> (forall i, In i pop -> valid_ind s i) ->
    sext2 s (fst (mutation_map P verifier mutfun cs s pop)).
  Proof.
    induction pop as [|i pop IH]; intros cs s Hs Hv; simpl.
    - apply sext2_refl; exact Hs.
    - pose proof (mutation_one_sext2 (hd (mk_mchoice 0 false []) cs) s i Hs (Hv i (or_introl eq_refl))) as X1.
      destruct (mutation_one P verifier mutfun (hd (mk_mchoice 0 false []) cs) s i) as [s1 r1] eqn:E1.
      simpl in X1.
      assert (Hs1 : scoped (smem s1)) by (eapply sext_scoped; apply X1).
      assert (Hv1 : forall j, In j pop -> valid_ind s1 j).
      { intros j Hj. apply (valid_ind_sext s s1 j Hs); [apply Hv; right; exact Hj|apply X1]. }
      specialize (IH (tl cs) s1 Hs1 Hv1).
      destruct (mutation_map P verifier mutfun (tl cs) s1 pop) as [s2 rs] eqn:E2. simpl in *.
      eapply sext2_trans; eauto.
  Qed.

  Lemma mutation_call_sext2 : forall cs s pop, scoped (smem s) -> (forall i, In i pop -> valid_ind s i) ->
    sext2 s (fst (mutation_call P verifier geq mutfun cs s pop)).
  Proof.
    intros cs s pop Hs Hv. destruct pop as [|i pop]; [apply sext2_refl; exact Hs|].
    rewrite (proj1 (mutation_call_result P verifier geq mutfun cs s (i :: pop) ltac:(discriminate))).
    apply mutation_map_sext2; assumption.
  Qed.

  Lemma crossover_one_sext2 : forall c s i1 i2, scoped (smem s) -> valid_ind s i1 -> valid_ind s i2 ->
    sext2 s (fst (crossover_one P verifier crossfun c s i1 i2)).
  Proof.
    intros c s i1 i2 Hs V1 V2.
    split; [apply (crossover_one_spec P verifier crossfun Hcross c s i1 i2 Hs V1 V2)|].
    destruct V1 as (Hi1 & Hg1 & Hc1), V2 as (Hi2 & Hg2 & Hc2). unfold crossover_one. cbv zeta.
    destruct (negb (igraph (get_ind s i1) =? igraph (get_ind s i2)) && xc_coin c &&
              negb (type_is_none P (xc_type c))).
    2: { simpl. intros o Ho. lia. }
    pose proof (cross_attempts_safe verifier crossfun Hcross (max_attempts P) (xc_type c) (xc_atts c)
                  (smem s) _ _ Hs Hg1 Hc1 Hg2 Hc2) as A. cbv zeta in A.
    destruct (cross_attempts verifier crossfun (max_attempts P) (xc_type c) (xc_atts c) (smem s)
                (igraph (get_ind s i1)) (igraph (get_ind s i2))) as [m' [gs|]] eqn:E;
      simpl in A; destruct A as [St R]; simpl.
    - intros o Ho. simpl in Ho. rewrite app_length, fresh_individuals_length in Ho.
      destruct (nth_error gs (o - List.length (ih s))) as [g|] eqn:Eg.
      2: { apply nth_error_None in Eg. lia. }
      unfold get_ind. simpl. rewrite app_nth2 by lia.
      erewrite nth_error_nth; [|apply fresh_individuals_nth; exact Eg]. simpl.
      apply (R g). eapply nth_error_In; eauto.
    - intros o Ho. simpl in Ho. lia.
  Qed.

  Lemma crossover_pairs_sext2 : forall prs cs s, scoped (smem s) ->
    (forall a b, In (a, b) prs -> valid_ind s a /\ valid_ind s b) ->
    sext2 s (fst (crossover_pairs P verifier crossfun cs s prs)).
  Proof.
    induction prs as [|[i1 i2] prs IH]; intros cs s Hs Hv; simpl.
    - apply sext2_refl; exact Hs.
    - destruct (Hv i1 i2 (or_introl eq_refl)) as [V1 V2].
      pose proof (crossover_one_sext2 (hd (mk_xchoice 0 false []) cs) s i1 i2 Hs V1 V2) as X1.
      destruct (crossover_one P verifier crossfun (hd (mk_xchoice 0 false []) cs) s i1 i2) as [s1 o1] eqn:E1.
      simpl in X1.
      assert (Hs1 : scoped (smem s1)) by (eapply sext_scoped; apply X1).
      assert (Hv1 : forall a b, In (a, b) prs -> valid_ind s1 a /\ valid_ind s1 b).
      { intros a b Hab. destruct (Hv a b (or_intror Hab)) as [Va Vb].
        split; [apply (valid_ind_sext s s1 a Hs Va)|apply (valid_ind_sext s s1 b Hs Vb)]; apply X1. }
      specialize (IH (tl cs) s1 Hs1 Hv1).
      destruct (crossover_pairs P verifier crossfun (tl cs) s1 prs) as [s2 os] eqn:E2. simpl in *.
      eapply sext2_trans; eauto.
  Qed.

  Lemma crossover_call_sext2 : forall cs s pop, scoped (smem s) -> (forall i, In i pop -> valid_ind s i) ->
    sext2 s (fst (crossover_call P verifier crossfun cs s pop)).
  Proof.
    intros cs s pop Hs Hv. unfold crossover_call.
    assert (Hp : forall a b, In (a, b) (pairs_of pop) -> valid_ind s a /\ valid_ind s b).
    { intros a b H. apply pairs_of_In in H. destruct H. split; apply Hv; assumption. }
    pose proof (crossover_pairs_sext2 (pairs_of pop) cs s Hs Hp) as A.
    rewrite <- zip_evens_odds in A.
    destruct pop as [|p [|q pop]].
    - simpl. apply sext2_refl; exact Hs.
    - simpl. apply sext2_refl; exact Hs.
    - destruct (crossover_pairs P verifier crossfun cs s (zip (evens (p :: q :: pop)) (odds (p :: q :: pop))))
        as [s' out] eqn:E. simpl in *. exact A.
  Qed.
End NoVerifierAssumption.

(* ------------------------------------------------------------------------------------ *)
(* Part 4: the theorems of property C02                                                  *)
(* ------------------------------------------------------------------------------------ *)
Lemma Forall2_In_r : forall A B (R : A -> B -> Prop) l r b, Forall2 R l r -> In b r ->
  exists a, In a l /\ R a b.
Proof.
  intros A B R l r b F. induction F as [|x y l r Hxy F IH]; intros Hb; [destruct Hb|].
  destruct Hb as [Hb|Hb]; [subst; exists x; simpl; auto|].
  destruct (IH Hb) as [a [Ha Ra]]. exists a. simpl. auto.
Qed.

(* every object that existed in s is exactly as it was in s' *)
Definition untouched (s s' : store) : Prop :=
  (forall r, r < nlen (smem s) -> nth_error (mn (smem s')) r = nth_error (mn (smem s)) r) /\
  (forall g, g < glen (smem s) -> nth_error (mg (smem s')) g = nth_error (mg (smem s)) g) /\
  (forall i, i < List.length (ih s) -> nth_error (ih s') i = nth_error (ih s) i).

Lemma sext_untouched : forall s s', sext s s' -> untouched s s'.
Proof.
  intros s s' X. split; [|split].
  - apply X.
  - apply X.
  - intros i Hi. apply sext_nth_ind; assumption.
Qed.

(* objects reachable from a graph that existed in s and from a graph created later are disjoint *)
Lemma sext_no_sharing : forall s s' gi go x, scoped (smem s) -> sext s s' ->
  gi < glen (smem s) -> glen (smem s) <= go ->
  reach (smem s') gi x -> reach (smem s') go x -> False.
Proof.
  intros s s' gi go x Hs ((F & G & S & C) & _) Hgi Hgo R1 R2.
  pose proof (reach_old (smem s) (smem s') gi x Hs F Hgi R1).
  pose proof (reach_fresh _ _ (smem s') go x C Hgo R2). lia.
Qed.

Section Main.
  Variable P : config.
  Variable verifier : mem -> gref -> bool.
  Variable geq : mem -> gref -> gref -> bool.
  Variable mutfun : nat -> nat -> mem -> gref -> mem * gref.
  Variable crossfun : nat -> nat -> mem -> gref -> gref -> mem * list gref.
  Hypothesis Hmut : mut_footprint mutfun.
  Hypothesis Hcross : cross_footprint crossfun.
  Hypothesis Hver : stable1 verifier.

  (* a population of valid individuals in a memory without dangling references *)
  Definition valid_pop (s : store) (pop : list iref) : Prop :=
    scoped (smem s) /\ forall i, In i pop -> valid_ind s i.

  Definition wf_pop (s : store) (pop : list iref) : Prop :=
    scoped (smem s) /\ forall i, In i pop -> wf_ind s i.

  Lemma wf_pop_valid : forall s pop, wf_pop s pop -> valid_pop s pop.
  Proof. intros s pop [A B]. split; [exact A|]. intros i Hi. apply wf_ind_valid. apply B; exact Hi. Qed.

  Definition mcall := mutation_call P verifier geq mutfun.
  Definition xcall := crossover_call P verifier crossfun.

  (* the consecutive pairs Crossover.__call__ forms, and its answer on them *)
  Lemma crossover_call_spec : forall cs s pop, valid_pop s pop ->
    sext s (fst (xcall cs s pop)) /\
    match pop with
    | [p] => xcall cs s pop = (s, RList [p])
    | _ => exists oss, snd (xcall cs s pop) = RList (List.concat oss) /\
                       Forall2 (cross_rel P verifier s (fst (xcall cs s pop))) (pairs_of pop) oss
    end.
  Proof.
    intros cs s pop [Hs Hv]. unfold xcall, crossover_call.
    assert (Hp : forall a b, In (a, b) (pairs_of pop) -> valid_ind s a /\ valid_ind s b).
    { intros a b H. apply pairs_of_In in H. destruct H. split; apply Hv; assumption. }
    pose proof (crossover_pairs_spec P verifier crossfun Hcross Hver (pairs_of pop) cs s Hs Hp) as A.
    cbv zeta in A. rewrite <- zip_evens_odds in A.
    destruct pop as [|p [|q pop]].
    - simpl. split; [apply sext_refl; exact Hs|]. exists []. split; [reflexivity|constructor].
    - simpl. split; [apply sext_refl; exact Hs|reflexivity].
    - rewrite <- zip_evens_odds.
      destruct (crossover_pairs P verifier crossfun cs s (zip (evens (p :: q :: pop)) (odds (p :: q :: pop))))
        as [s' out] eqn:E.
      simpl fst in *. simpl snd in *. destruct A as [X [oss [Eo R]]].
      split; [exact X|]. exists oss. split; [rewrite Eo; reflexivity|exact R].
  Qed.

  (* (1) PARENTS UNTOUCHED *)
  Theorem mutation_parents_untouched : forall cs s pop, valid_pop s pop ->
    untouched s (fst (mcall cs s pop)).
  Proof.
    intros cs s pop [Hs Hv]. apply sext_untouched.
    apply (mutation_call_sext2 P verifier geq mutfun Hmut cs s pop Hs Hv).
  Qed.

  Theorem crossover_parents_untouched : forall cs s pop, valid_pop s pop ->
    untouched s (fst (xcall cs s pop)).
  Proof.
    intros cs s pop [Hs Hv]. apply sext_untouched.
    apply (crossover_call_sext2 P verifier crossfun Hcross cs s pop Hs Hv).
  Qed.

  (* (2) NO SHARING, for every individual the call creates (returned or not): no node object is
     reachable both from its graph and from the graph of a member of the population *)
  Lemma sext2_no_sharing : forall s s' pop o i x, valid_pop s pop -> sext2 s s' ->
    List.length (ih s) <= o < List.length (ih s') -> In i pop ->
    reach (smem s') (igraph (get_ind s' o)) x -> reach (smem s') (igraph (get_ind s' i)) x -> False.
  Proof.
    intros s s' pop o i x [Hs Hv] [X C] Ho Hi R1 R2.
    destruct (Hv i Hi) as (Hi1 & Hi2 & _). rewrite (sext_get_ind _ _ i X Hi1) in R2.
    eapply sext_no_sharing; [exact Hs|exact X|exact Hi2|apply (C o Ho)|exact R2|exact R1].
  Qed.

  Theorem mutation_created_no_sharing : forall cs s pop o i x, valid_pop s pop ->
    List.length (ih s) <= o < List.length (ih (fst (mcall cs s pop))) -> In i pop ->
    reach (smem (fst (mcall cs s pop))) (igraph (get_ind (fst (mcall cs s pop)) o)) x ->
    reach (smem (fst (mcall cs s pop))) (igraph (get_ind (fst (mcall cs s pop)) i)) x -> False.
  Proof.
    intros cs s pop o i x Hvp. apply (sext2_no_sharing s _ pop o i x Hvp).
    apply (mutation_call_sext2 P verifier geq mutfun Hmut cs s pop (proj1 Hvp) (proj2 Hvp)).
  Qed.

  Theorem crossover_created_no_sharing : forall cs s pop o i x, valid_pop s pop ->
    List.length (ih s) <= o < List.length (ih (fst (xcall cs s pop))) -> In i pop ->
    reach (smem (fst (xcall cs s pop))) (igraph (get_ind (fst (xcall cs s pop)) o)) x ->
    reach (smem (fst (xcall cs s pop))) (igraph (get_ind (fst (xcall cs s pop)) i)) x -> False.
  Proof.
    intros cs s pop o i x Hvp. apply (sext2_no_sharing s _ pop o i x Hvp).
    apply (crossover_call_sext2 P verifier crossfun Hcross cs s pop (proj1 Hvp) (proj2 Hvp)).
  Qed.

  (* (3) OUTPUTS CLASSIFIED, mutation: position by position the answer is the member itself or a
     new verified individual whose operator names "mutation", the type applied and [member];
     the returned list is a subsequence of these (the drop rule) *)
  Theorem mutation_outputs_aligned : forall cs s pop, valid_pop s pop ->
    exists rs, Forall2 (mut_rel P verifier s (fst (mcall cs s pop))) pop rs /\
               subseq (result_list (snd (mcall cs s pop))) (map fst rs).
  Proof.
    intros cs s pop [Hs Hv]. apply (mutation_call_spec P verifier geq mutfun Hmut Hver cs s pop Hs Hv).
  Qed.

  Theorem mutation_outputs_classified : forall cs s pop o, valid_pop s pop ->
    In o (result_list (snd (mcall cs s pop))) ->
    (In o pop /\ o < List.length (ih s)) \/
    exists p po, In p pop /\ op_desc P s "mutation"%string [p] po /\
                 new_with verifier s (fst (mcall cs s pop)) po o.
  Proof.
    intros cs s pop o Hvp Ho. destruct (mutation_outputs_aligned cs s pop Hvp) as [rs [F Sub]].
    pose proof (subseq_In _ _ _ o Sub Ho) as Hin. apply in_map_iff in Hin. destruct Hin as [r [Er Hr]].
    destruct (Forall2_In_r _ _ _ _ _ r F Hr) as [p [Hp [Hrel|[po [D N]]]]].
    - left. rewrite <- Er, Hrel. split; [exact Hp|]. apply (proj2 Hvp p Hp).
    - right. exists p, po. rewrite <- Er. auto.
  Qed.

  (* (3)+(4) crossover: the answer is the concatenation, pair after pair of consecutive members,
     of the pair itself or of new verified individuals sharing one operator that names
     "crossover", the type applied and (p_2k, p_2k+1) in this order *)
  Theorem crossover_pairs_thm : forall cs s pop, valid_pop s pop -> List.length pop <> 1 ->
    exists oss, snd (xcall cs s pop) = RList (List.concat oss) /\
                Forall2 (cross_rel P verifier s (fst (xcall cs s pop))) (pairs_of pop) oss.
  Proof.
    intros cs s pop H Hl. destruct (crossover_call_spec cs s pop H) as [_ A].
    destruct pop as [|p [|q pop]]; try exact A. simpl in Hl. congruence.
  Qed.

  Theorem crossover_single : forall cs s p, xcall cs s [p] = (s, RList [p]).
  Proof. reflexivity. Qed.

  Theorem crossover_outputs_classified : forall cs s pop o, valid_pop s pop ->
    In o (result_list (snd (xcall cs s pop))) ->
    (In o pop /\ o < List.length (ih s)) \/
    exists p1 p2 po, In (p1, p2) (pairs_of pop) /\ op_desc P s "crossover"%string [p1; p2] po /\
                     new_with verifier s (fst (xcall cs s pop)) po o.
  Proof.
    intros cs s pop o Hvp Ho. destruct (crossover_call_spec cs s pop Hvp) as [_ A].
    destruct pop as [|p [|q pop]].
    - destruct A as [oss [E F]]. inversion F; subst. rewrite E in Ho. destruct Ho.
    - rewrite A in Ho. simpl in Ho. left. destruct Ho as [Ho|[]]. subst. split; [simpl; auto|].
      apply (proj2 Hvp o). simpl; auto.
    - destruct A as [oss [E F]]. rewrite E in Ho. simpl in Ho.
      apply in_concat in Ho. destruct Ho as [os [Hos Ho]].
      destruct (Forall2_In_r _ _ _ _ _ os F Hos) as [[p1 p2] [Hp [Hrel|[po [D [N _]]]]]].
      + left. pose proof (pairs_of_In _ _ _ _ Hp) as [H1 H2]. simpl in Hrel. subst os.
        destruct Ho as [Ho|[Ho|[]]]; subst o; (split; [assumption|]);
          [apply (proj2 Hvp p1 H1)|apply (proj2 Hvp p2 H2)].
      + right. exists p1, p2, po. split; [exact Hp|]. split; [exact D|].
        rewrite Forall_forall in N. apply N; exact Ho.
  Qed.

  (* (2) NO SHARING: no node object is reachable both from the graph of a new output and from
     the graph of a member of the population *)
  Lemma new_with_igraph : forall s0 sF po o, new_with verifier s0 sF po o ->
    glen (smem s0) <= igraph (get_ind sF o).
  Proof.
    intros s0 sF po o (_ & u & g' & N & B & _). unfold get_ind.
    rewrite (nth_error_nth _ _ _ N). simpl. lia.
  Qed.

  Theorem mutation_no_sharing : forall cs s pop o i x, valid_pop s pop ->
    In o (result_list (snd (mcall cs s pop))) -> List.length (ih s) <= o -> In i pop ->
    reach (smem (fst (mcall cs s pop))) (igraph (get_ind (fst (mcall cs s pop)) o)) x ->
    reach (smem (fst (mcall cs s pop))) (igraph (get_ind (fst (mcall cs s pop)) i)) x -> False.
  Proof.
    intros cs s pop o i x Hvp Ho Hnew Hi R1 R2.
    assert (X : sext s (fst (mcall cs s pop))).
    { destruct Hvp as [Hs Hv]. apply (mutation_call_spec P verifier geq mutfun Hmut Hver cs s pop Hs Hv). }
    destruct (mutation_outputs_classified cs s pop o Hvp Ho) as [[_ Hlt]|[p [po [_ [_ N]]]]]; [lia|].
    destruct (proj2 Hvp i Hi) as (Hi1 & Hi2 & _).
    rewrite (sext_get_ind _ _ i X Hi1) in R2.
    eapply sext_no_sharing; [apply Hvp|exact X|exact Hi2| |exact R2|exact R1].
    eapply new_with_igraph; eauto.
  Qed.

  Theorem crossover_no_sharing : forall cs s pop o i x, valid_pop s pop ->
    In o (result_list (snd (xcall cs s pop))) -> List.length (ih s) <= o -> In i pop ->
    reach (smem (fst (xcall cs s pop))) (igraph (get_ind (fst (xcall cs s pop)) o)) x ->
    reach (smem (fst (xcall cs s pop))) (igraph (get_ind (fst (xcall cs s pop)) i)) x -> False.
  Proof.
    intros cs s pop o i x Hvp Ho Hnew Hi R1 R2.
    assert (X : sext s (fst (xcall cs s pop))) by apply (crossover_call_spec cs s pop Hvp).
    destruct (crossover_outputs_classified cs s pop o Hvp Ho) as [[_ Hlt]|[p1 [p2 [po [_ [_ N]]]]]]; [lia|].
    destruct (proj2 Hvp i Hi) as (Hi1 & Hi2 & _).
    rewrite (sext_get_ind _ _ i X Hi1) in R2.
    eapply sext_no_sharing; [apply Hvp|exact X|exact Hi2| |exact R2|exact R1].
    eapply new_with_igraph; eauto.
  Qed.

  (* (5) OFFSPRING WELL-FORMED: given functions that keep the fresh graphs they work on
     well-formed, every individual the operator creates holds a well-formed graph - in particular
     no two of its nodes share a uid, whatever uids the parents have in common *)
  Hypothesis Wmut : mut_keeps_wf mutfun.
  Hypothesis Wcross : cross_keeps_wf crossfun.

  Theorem mutation_offspring_wf : forall cs s pop, wf_pop s pop ->
    all_new_wf s (fst (mcall cs s pop)).
  Proof.
    intros cs s pop [Hs Hv]. unfold mcall. destruct pop as [|i pop].
    - simpl. intros o Ho. lia.
    - rewrite (proj1 (mutation_call_result P verifier geq mutfun cs s (i :: pop) ltac:(discriminate))).
      apply (mutation_map_wf P verifier mutfun Hmut Hver Wmut); assumption.
  Qed.

  Theorem crossover_offspring_wf : forall cs s pop, wf_pop s pop ->
    all_new_wf s (fst (xcall cs s pop)).
  Proof.
    intros cs s pop [Hs Hv]. unfold xcall, crossover_call.
    assert (Hp : forall a b, In (a, b) (pairs_of pop) -> wf_ind s a /\ wf_ind s b).
    { intros a b H. apply pairs_of_In in H. destruct H. split; apply Hv; assumption. }
    pose proof (crossover_pairs_wf P verifier crossfun Hcross Hver Wcross (pairs_of pop) cs s Hs Hp) as A.
    rewrite <- zip_evens_odds in A.
    destruct pop as [|p [|q pop]].
    - simpl. intros o Ho. lia.
    - simpl. intros o Ho. lia.
    - destruct (crossover_pairs P verifier crossfun cs s (zip (evens (p :: q :: pop)) (odds (p :: q :: pop))))
        as [s' out] eqn:E. simpl in *. exact A.
  Qed.
End Main.

(* ------------------------------------------------------------------------------------ *)
(* Part 5: the oracle decides the stated properties; the hypotheses are satisfiable       *)
(* ------------------------------------------------------------------------------------ *)
Lemma list_eqb_eq : forall A (e : A -> A -> bool), (forall a b, e a b = true -> a = b) ->
  forall l r, list_eqb e l r = true -> l = r.
Proof.
  intros A e He. induction l as [|a l IH]; intros [|b r] H; simpl in H; try discriminate; [reflexivity|].
  apply andb_true_iff in H. destruct H as [H1 H2]. f_equal; [apply He; exact H1|apply IH; exact H2].
Qed.

Lemma nat_list_eqb_eq : forall l r, list_eqb Nat.eqb l r = true -> l = r.
Proof. apply list_eqb_eq. intros a b H. apply Nat.eqb_eq; exact H. Qed.

Lemma string_list_eqb_eq : forall l r, list_eqb String.eqb l r = true -> l = r.
Proof. apply list_eqb_eq. intros a b H. apply String.eqb_eq; exact H. Qed.

Lemma node_eqb_eq : forall a b, node_eqb a b = true -> a = b.
Proof.
  intros [u l p ps] [u' l' p' ps'] H. unfold node_eqb in H. simpl in H.
  repeat (apply andb_true_iff in H; destruct H as [H ?]).
  apply Nat.eqb_eq in H. apply String.eqb_eq in H2, H1. apply nat_list_eqb_eq in H0. subst. reflexivity.
Qed.

Lemma po_eqb_eq : forall a b, po_eqb a b = true -> a = b.
Proof.
  intros [i k n ps] [i' k' n' ps'] H. unfold po_eqb in H. simpl in H.
  repeat (apply andb_true_iff in H; destruct H as [H ?]).
  apply Nat.eqb_eq in H. apply String.eqb_eq in H2. apply string_list_eqb_eq in H1.
  apply nat_list_eqb_eq in H0. subst. reflexivity.
Qed.

Lemma ind_eqb_eq : forall a b, ind_eqb a b = true -> a = b.
Proof.
  intros [u g po f] [u' g' po' f'] H. unfold ind_eqb in H. simpl in H.
  repeat (apply andb_true_iff in H; destruct H as [H ?]).
  apply Nat.eqb_eq in H, H2, H0. subst.
  destruct po as [po|], po' as [po'|]; simpl in H1; try discriminate; [|reflexivity].
  apply po_eqb_eq in H1. subst. reflexivity.
Qed.

Lemma nth_error_firstn_lt : forall A (l : list A) n i, i < n -> nth_error (firstn n l) i = nth_error l i.
Proof.
  induction l as [|a l IH]; intros [|n] [|i] H; simpl; try reflexivity; try lia.
  apply IH. lia.
Qed.

Lemma firstn_prefix_nth : forall A (l l0 : list A), firstn (List.length l0) l = l0 ->
  forall i, i < List.length l0 -> nth_error l i = nth_error l0 i.
Proof.
  intros A l l0 H i Hi. rewrite <- (nth_error_firstn_lt A l (List.length l0) i Hi). rewrite H. reflexivity.
Qed.

(* clause (1) of holds_b is the frame property of the theorems *)
Lemma unchanged_b_sound : forall s0 s1, unchanged_b s0 s1 = true -> untouched s0 s1.
Proof.
  intros s0 s1 H. unfold unchanged_b in H.
  apply andb_true_iff in H. destruct H as [H H3]. apply andb_true_iff in H. destruct H as [H1 H2].
  apply (list_eqb_eq _ _ node_eqb_eq) in H1. apply (list_eqb_eq _ _ nat_list_eqb_eq) in H2.
  apply (list_eqb_eq _ _ ind_eqb_eq) in H3.
  split; [|split]; intros; apply firstn_prefix_nth; assumption.
Qed.

(* clause (2) of holds_b: a graph it calls fresh shares no listed node and no parent of a listed
   node with the memory that existed before *)
Lemma fresh_graph_b_sound : forall s0 s1 g, fresh_graph_b s0 s1 g = true ->
  glen (smem s0) <= g /\
  forall r, In r (get_graph (smem s1) g) ->
    nlen (smem s0) <= r /\ forall p, In p (parents (get_node (smem s1) r)) -> nlen (smem s0) <= p.
Proof.
  intros s0 s1 g H. unfold fresh_graph_b in H. apply andb_true_iff in H. destruct H as [H1 H2].
  apply Nat.leb_le in H1. split; [exact H1|]. intros r Hr. rewrite forallb_forall in H2.
  specialize (H2 r Hr). apply andb_true_iff in H2. destruct H2 as [A B]. apply Nat.leb_le in A.
  split; [exact A|]. intros p Hp. rewrite forallb_forall in B. apply Nat.leb_le. apply B; exact Hp.
Qed.

(* the replay functions of the correspondence check have the footprint property *)
Definition content_ok (c : list cnode) : Prop :=
  forall x, In x c -> forall i, In i (snd x) -> i < List.length c.

Definition content_ok_b (c : list cnode) : bool :=
  forallb (fun x : cnode => forallb (fun i => Nat.ltb i (List.length c)) (snd x)) c.

Lemma content_ok_b_sound : forall c, content_ok_b c = true -> content_ok c.
Proof.
  intros c H x Hx i Hi. unfold content_ok_b in H. rewrite forallb_forall in H.
  specialize (H x Hx). rewrite forallb_forall in H. apply Nat.ltb_lt. apply H; exact Hi.
Qed.

Lemma alloc_graph_safe : forall m c nl gl, content_ok c ->
  nl <= nlen m -> gl <= glen m -> scoped m -> fresh_closed nl gl m ->
  safe_step nl gl m (fst (alloc_graph m c)) /\
  gl <= snd (alloc_graph m c) < glen (fst (alloc_graph m c)).
Proof.
  intros m c nl gl Hc Hn Hg [Sn Sg] [Cn Cg]. unfold alloc_graph. cbv zeta. cbn [fst snd].
  set (newn := map (cnode_to_node (List.length (mn m))) c).
  set (newg := [seq (List.length (mn m)) (List.length c)]).
  assert (Hlen : List.length newn = List.length c) by (unfold newn; apply map_length).
  assert (Hnew : forall r nd, nth_error newn r = Some nd ->
                 forall p, In p (parents nd) -> nlen m <= p < nlen m + List.length c).
  { intros r nd H p Hp. unfold newn in H. apply nth_error_In, in_map_iff in H.
    destruct H as [[[[u l] pp] ps] [E Hin]]. subst nd. simpl in Hp. apply in_map_iff in Hp.
    destruct Hp as [i [Ei Hi]]. subst p. specialize (Hc _ Hin i Hi). unfold nlen. simpl in Hc. lia. }
  assert (Hgnew : forall k ns, nth_error newg k = Some ns ->
                  forall r, In r ns -> nlen m <= r < nlen m + List.length c).
  { intros k ns H r Hr. unfold newg in H. destruct k as [|k]; simpl in H; [|destruct k; discriminate].
    inversion H; subst ns. apply in_seq in Hr. unfold nlen. lia. }
  unfold glen, nlen in *. cbn [mn mg].
  assert (L1 : List.length (mn m ++ newn) = List.length (mn m) + List.length c)
    by (rewrite app_length, Hlen; reflexivity).
  assert (L2 : List.length (mg m ++ newg) = S (List.length (mg m)))
    by (rewrite app_length; unfold newg; simpl; lia).
  split; [|lia].
  split; [|split; [|split]].
  - split; intros r Hr; cbn [mn mg]; apply nth_error_app1; lia.
  - split; unfold nlen, glen; cbn [mn mg]; lia.
  - split; unfold nlen; cbn [mn mg].
    + intros r nd H p Hp. rewrite L1.
      destruct (Nat.lt_ge_cases r (List.length (mn m))) as [L|L].
      * rewrite nth_error_app1 in H by exact L. specialize (Sn r nd H p Hp). lia.
      * rewrite nth_error_app2 in H by exact L. specialize (Hnew _ _ H p Hp). lia.
    + intros g ns H r Hr. rewrite L1.
      destruct (Nat.lt_ge_cases g (List.length (mg m))) as [L|L].
      * rewrite nth_error_app1 in H by exact L. specialize (Sg g ns H r Hr). lia.
      * rewrite nth_error_app2 in H by exact L. specialize (Hgnew _ _ H r Hr). lia.
  - split; cbn [mn mg].
    + intros r nd Hr H p Hp. destruct (Nat.lt_ge_cases r (List.length (mn m))) as [L|L].
      * rewrite nth_error_app1 in H by exact L. eapply Cn; eauto.
      * rewrite nth_error_app2 in H by exact L. specialize (Hnew _ _ H p Hp). lia.
    + intros g ns Hg' H r Hr. destruct (Nat.lt_ge_cases g (List.length (mg m))) as [L|L].
      * rewrite nth_error_app1 in H by exact L. eapply Cg; eauto.
      * rewrite nth_error_app2 in H by exact L. specialize (Hgnew _ _ H r Hr). lia.
Qed.

Lemma replay_mut_footprint : forall tbl, Forall content_ok tbl -> mut_footprint (replay_mut tbl).
Proof.
  intros tbl H t k m g nl gl Hn Hg Hs Hc Hgr. unfold replay_mut.
  apply alloc_graph_safe; auto.
  destruct (nth_in_or_default k tbl []) as [Hin|E].
  - rewrite Forall_forall in H. apply H; exact Hin.
  - rewrite E. intros x [].
Qed.

Lemma stable1_const : forall b, stable1 (fun _ _ => b).
Proof. intros b m m' g _ _ _. reflexivity. Qed.

(* the simplest functions with the footprint property: leave the copies as they are *)
Definition id_mut (t k : nat) (m : mem) (g : gref) : mem * gref := (m, g).
Definition id_cross (t k : nat) (m : mem) (g1 g2 : gref) : mem * list gref := (m, [g1; g2]).

Lemma id_mut_footprint : mut_footprint id_mut.
Proof.
  intros t k m g nl gl Hn Hg Hs Hc Hgr. simpl. split; [|exact Hgr].
  repeat split; try apply frame_refl; try lia; try apply Hs; apply Hc.
Qed.

Lemma id_mut_keeps_wf : mut_keeps_wf id_mut.
Proof. intros t k m g nl gl _ _ _ _ _ W. exact W. Qed.

Lemma id_cross_footprint : cross_footprint id_cross.
Proof.
  intros t k m g1 g2 nl gl Hn Hg Hs Hc H1 H2. simpl. split.
  - repeat split; try apply frame_refl; try lia; try apply Hs; apply Hc.
  - intros g [E|[E|[]]]; subst; assumption.
Qed.

Lemma id_cross_keeps_wf : cross_keeps_wf id_cross.
Proof. intros t k m g1 g2 nl gl _ _ _ _ _ _ W1 W2 g [E|[E|[]]]; subst; assumption. Qed.
