(* Model of golem/core/optimisers/fitness/fitness.py, multi_objective_fitness.py and the
   Comparable mix-in of golem/utilities/data_structures.py.  Definitions only. *)
From Coq Require Import List Bool QArith Qabs Qround.
Import ListNotations.

(* Python values the code branches on: a comparison either yields a boolean or raises
   (numpy broadcasting error inside allclose). *)
(* RaiseValueError stands for any exception (ValueError from numpy broadcasting,
   AttributeError for a missing wvalues attribute) *)
Inductive res (A : Type) := Ok (a : A) | RaiseValueError.
Arguments Ok {A} a.
Arguments RaiseValueError {A}.

Inductive fit :=
| Single (primary : option Q) (supp : list Q)      (* SingleObjFitness(primary, *supp) *)
| Multi (values weights : list Q).                  (* MultiObjFitness(values, weights) *)

Fixpoint map2 {A B C} (f : A -> B -> C) (l : list A) (r : list B) : list C :=
  match l, r with
  | a :: l', b :: r' => f a b :: map2 f l' r'
  | _, _ => []
  end.

Definition wvalues (vs ws : list Q) : list Q := map2 Qmult vs ws.

Definition valid (f : fit) : bool :=
  match f with
  | Single (Some _) _ => true
  | Single None _ => false
  | Multi vs ws => negb (Nat.eqb (length (wvalues vs ws)) 0)
  end.

(* fitness.values of a valid fitness (weighted for the multi-objective class) *)
Definition vals (f : fit) : list Q :=
  match f with
  | Single (Some p) s => p :: s
  | Single None s => s
  | Multi vs ws => wvalues vs ws
  end.

Definition same_class (f g : fit) : bool :=
  match f, g with
  | Single _ _, Single _ _ => true
  | Multi _ _, Multi _ _ => true
  | _, _ => false
  end.

Definition Qlt_b (a b : Q) : bool := negb (Qle_bool b a).

(* Python tuple comparison  l > r  *)
Fixpoint tuple_gt (l r : list Q) : bool :=
  match l, r with
  | [], _ => false
  | _ :: _, [] => true
  | a :: l', b :: r' => if Qeq_bool a b then tuple_gt l' r' else Qlt_b b a
  end.

(* Fitness.__lt__ : "worse than" *)
Definition lt (f g : fit) : bool :=
  if negb (valid f) then true
  else if negb (valid g) then false
  else tuple_gt (vals f) (vals g).

Definition atol : Q := 1 # 10000000000.
Definition rtol : Q := 1 # 100000000.

(* numpy.isclose(a, b): |a - b| <= atol + rtol * |b| *)
Definition close (a b : Q) : bool := Qle_bool (Qabs (a - b)) (atol + rtol * Qabs b).

Fixpoint forallb2 {A B} (p : A -> B -> bool) (l : list A) (r : list B) : bool :=
  match l, r with
  | [], [] => true
  | a :: l', b :: r' => p a b && forallb2 p l' r'
  | _, _ => false
  end.

(* numpy.allclose with broadcasting of length-1 operands; other length mismatches raise *)
Definition allclose (l r : list Q) : res bool :=
  if Nat.eqb (length l) (length r) then Ok (forallb2 close l r)
  else match l, r with
       | [a], _ => Ok (forallb (fun b => close a b) r)
       | _, [b] => Ok (forallb (fun a => close a b) l)
       | _, _ => RaiseValueError
       end.

(* Fitness.__eq__ (python `and` short-circuits, so allclose is reached only for two valid
   fitness objects of one class) *)
Definition eq (f g : fit) : res bool :=
  if same_class f g && valid f && valid g then allclose (vals f) (vals g) else Ok false.

Definition res_map {A B} (h : A -> B) (r : res A) : res B :=
  match r with Ok a => Ok (h a) | RaiseValueError => RaiseValueError end.

(* Comparable: derived operators, with python's short-circuit `or` *)
Definition ne (f g : fit) : res bool := res_map negb (eq f g).
Definition le (f g : fit) : res bool := if lt f g then Ok true else eq f g.
Definition gt (f g : fit) : res bool := res_map negb (le f g).
Definition ge (f g : fit) : res bool := Ok (negb (lt f g)).

(* MultiObjFitness.dominates: the zip loop over weighted values *)
Fixpoint dominates_loop (not_equal : bool) (l r : list Q) : bool :=
  match l, r with
  | a :: l', b :: r' =>
      if Qlt_b a b then dominates_loop true l' r'        (* is_metric_worse(other, self) *)
      else if Qlt_b b a then false                        (* is_metric_worse(self, other) *)
      else dominates_loop not_equal l' r'
  | _, _ => not_equal
  end.

Definition dominates (f g : fit) : res bool :=
  match f, g with
  | Multi _ _, Multi _ _ => Ok (dominates_loop false (vals f) (vals g))
  | Multi _ _, Single _ _ => RaiseValueError             (* AttributeError: no wvalues *)
  | Single _ _, _ => gt f g                               (* Fitness.dominates: self > other *)
  end.

Definition fit_bool (f : fit) : bool := valid f.

(* hashing: the key whose python hash is taken.  Single-objective: values rounded to 8
   decimals (numpy.round, half to even); multi-objective: the weighted values themselves. *)
Definition round8 (q : Q) : Q :=
  let s := q * (100000000 # 1) in
  let fl := Qfloor s in
  let frac := s - (fl # 1) in
  let up := if Qlt_b (1 # 2) frac then true
            else if Qeq_bool frac (1 # 2) then Z.odd fl else false in
  ((if up then fl + 1 else fl)%Z # 100000000).

Inductive hkey := HNone | HNum (q : Q).

Definition hash_key (f : fit) : list hkey :=
  match f with
  | Single p s => (match p with Some q => HNum (round8 q) | None => HNone end)
                    :: map (fun q => HNum (round8 q)) s
  | Multi vs ws => map HNum (wvalues vs ws)
  end.

Definition hkey_eqb (a b : hkey) : bool :=
  match a, b with
  | HNone, HNone => true
  | HNum p, HNum q => Qeq_bool p q
  | _, _ => false
  end.

Definition hash_key_eqb (f g : fit) : bool := forallb2 hkey_eqb (hash_key f) (hash_key g).

(* -------- executable form of the property (evaluated on observed behaviour) -------- *)

(* what the harness observed on the implementation for an ordered pair (f, g); operators
   that raised are reported as None *)
Record obs := {
  o_lt : option bool; o_eq : option bool; o_ne : option bool; o_le : option bool;
  o_gt : option bool; o_ge : option bool; o_dom : option bool;
  o_hash_eq : bool; o_valid_f : bool; o_valid_g : bool; o_bool_f : bool }.

Definition res_to_opt {A} (r : res A) : option A :=
  match r with Ok a => Some a | RaiseValueError => None end.

Definition opt_bool_eqb (a b : option bool) : bool :=
  match a, b with
  | Some x, Some y => Bool.eqb x y
  | None, None => true
  | _, _ => false
  end.

Definition implb (a b : bool) : bool := negb a || b.

Definition agree (f g : fit) (o : obs) : bool :=
  opt_bool_eqb (Some (lt f g)) (o_lt o) && opt_bool_eqb (res_to_opt (eq f g)) (o_eq o) &&
  opt_bool_eqb (res_to_opt (ne f g)) (o_ne o) && opt_bool_eqb (res_to_opt (le f g)) (o_le o) &&
  opt_bool_eqb (res_to_opt (gt f g)) (o_gt o) && opt_bool_eqb (res_to_opt (ge f g)) (o_ge o) &&
  opt_bool_eqb (res_to_opt (dominates f g)) (o_dom o) &&
  implb (hash_key_eqb f g) (o_hash_eq o) &&   (* python hashes may collide, e.g. hash(-1) = hash(-2) *)
  Bool.eqb (valid f) (o_valid_f o) && Bool.eqb (valid g) (o_valid_g o) &&
  Bool.eqb (fit_bool f) (o_bool_f o).

Definition identical (l r : list Q) : bool := forallb2 Qeq_bool l r.

(* componentwise: identical or clearly separated (not close in either direction) *)
Definition sep_b (l r : list Q) : bool :=
  forallb2 (fun a b => Qeq_bool a b || (negb (close a b) && negb (close b a))) l r.

(* lexicographic minimisation: l strictly better than r *)
Fixpoint lex_lt_b (l r : list Q) : bool :=
  match l, r with
  | a :: l', b :: r' => if Qeq_bool a b then lex_lt_b l' r' else Qlt_b a b
  | _, _ => false
  end.

Definition pareto_b (l r : list Q) : bool :=
  forallb2 Qle_bool l r && negb (forallb2 (fun a b => Qle_bool b a) l r).

Definition is_multi (f : fit) : bool := match f with Multi _ _ => true | _ => false end.

(* The clauses of the property that speak about one ordered pair, decided on the OBSERVED
   behaviour of the implementation. *)
Definition holds_b (f g : fit) (o : obs) : bool :=
  let vf := valid f in let vg := valid g in
  let both := same_class f g && vf && vg && Nat.eqb (length (vals f)) (length (vals g)) in
  (* an invalid fitness is never better; a valid one beats an invalid one *)
  implb (negb vf) (opt_bool_eqb (o_gt o) (Some false)) &&
  implb (vf && negb vg) (opt_bool_eqb (o_gt o) (Some true)) &&
  (* separated vectors: == iff identical, > iff lexicographically smaller *)
  implb (both && sep_b (vals f) (vals g))
        (opt_bool_eqb (o_eq o) (Some (identical (vals f) (vals g))) &&
         opt_bool_eqb (o_gt o) (Some (lex_lt_b (vals f) (vals g)))) &&
  (* equal within tolerance (both ways): equal and neither better *)
  implb (both && forallb2 close (vals f) (vals g) && forallb2 close (vals g) (vals f))
        (opt_bool_eqb (o_eq o) (Some true) && opt_bool_eqb (o_gt o) (Some false)) &&
  (* derived comparisons consistent with < and == (when == does not raise) *)
  match o_lt o, o_eq o with
  | Some l, Some e =>
      opt_bool_eqb (o_le o) (Some (l || e)) && opt_bool_eqb (o_gt o) (Some (negb (l || e))) &&
      opt_bool_eqb (o_ge o) (Some (negb l)) && opt_bool_eqb (o_ne o) (Some (negb e))
  | _, _ => true
  end &&
  (* identical values hash equally *)
  implb (same_class f g && identical (vals f) (vals g) &&
         match f, g with Single p _, Single q _ => opt_bool_eqb (option_map (fun _ => true) p) (option_map (fun _ => true) q) | _, _ => true end)
        (o_hash_eq o) &&
  (* Pareto dominance on equal-length multi-objective vectors *)
  implb (is_multi f && is_multi g && Nat.eqb (length (vals f)) (length (vals g)))
        (opt_bool_eqb (o_dom o) (Some (pareto_b (vals f) (vals g)))) &&
  Bool.eqb (o_valid_f o) vf && Bool.eqb (o_bool_f o) vf.
