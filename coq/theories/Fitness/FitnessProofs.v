(* Proofs about the fitness model (property C09). *)
From Coq Require Import List Bool QArith Qabs Qround Lia Lqa.
From GolemV Require Import Fitness.Fitness.
Import ListNotations.

(* ---------- boolean comparisons on Q ---------- *)
Lemma Qeq_bool_sym a b : Qeq_bool a b = Qeq_bool b a.
Proof.
  destruct (Qeq_bool a b) eqn:E; destruct (Qeq_bool b a) eqn:E'; try reflexivity.
  - apply Qeq_bool_iff in E. symmetry in E. apply Qeq_bool_iff in E. congruence.
  - apply Qeq_bool_iff in E'. symmetry in E'. apply Qeq_bool_iff in E'. congruence.
Qed.

Lemma Qlt_b_iff a b : Qlt_b a b = true <-> a < b.
Proof.
  unfold Qlt_b. rewrite negb_true_iff. split.
  - intros H. apply Qnot_le_lt. intros L. apply Qle_bool_iff in L. congruence.
  - intros H. destruct (Qle_bool b a) eqn:E; [|reflexivity].
    apply Qle_bool_iff in E. exfalso. apply (Qlt_not_le _ _ H E).
Qed.

Lemma Qlt_b_false_iff a b : Qlt_b a b = false <-> b <= a.
Proof.
  unfold Qlt_b. rewrite negb_false_iff. apply Qle_bool_iff.
Qed.

Lemma Qeq_bool_false_neq a b : Qeq_bool a b = false -> ~ a == b.
Proof. intros H E. apply Qeq_bool_iff in E. congruence. Qed.

Lemma Q_trichotomy_b a b :
  Qeq_bool a b = false -> Qlt_b a b = negb (Qlt_b b a).
Proof.
  intros N. apply Qeq_bool_false_neq in N.
  destruct (Qlt_b b a) eqn:E; simpl.
  - apply Qlt_b_iff in E. apply Qlt_b_false_iff. apply Qlt_le_weak. exact E.
  - apply Qlt_b_false_iff in E. apply Qlt_b_iff.
    destruct (Qlt_le_dec a b) as [L|L]; [exact L|]. exfalso. apply N. apply Qle_antisym; assumption.
Qed.

(* ---------- closeness ---------- *)
Lemma close_refl_eq a b : a == b -> close a b = true.
Proof.
  intros E. unfold close. apply Qle_bool_iff.
  assert (H : Qabs (a - b) == 0).
  { rewrite E. setoid_replace (b - b) with 0 by ring. reflexivity. }
  rewrite H. unfold atol, rtol.
  pose proof (Qabs_nonneg b) as Hb.
  assert (0 <= (1 # 100000000) * Qabs b) by (apply Qmult_le_0_compat; [discriminate|exact Hb]).
  assert (0 < 1 # 10000000000) by reflexivity.
  lra.
Qed.

(* ---------- lexicographic order on value lists ---------- *)
Lemma identical_refl l : identical l l = true.
Proof.
  unfold identical. induction l as [|a l IH]; simpl; [reflexivity|].
  rewrite IH. assert (Qeq_bool a a = true) as -> by (apply Qeq_bool_iff; reflexivity). reflexivity.
Qed.

Lemma identical_sym l r : identical l r = identical r l.
Proof.
  unfold identical. revert r; induction l as [|a l IH]; intros [|b r]; simpl; try reflexivity.
  rewrite (Qeq_bool_sym a b), IH. reflexivity.
Qed.

Lemma identical_length l r : identical l r = true -> length l = length r.
Proof.
  unfold identical. revert r; induction l as [|a l IH]; intros [|b r]; simpl; intros H; try discriminate; try reflexivity.
  apply andb_true_iff in H as [_ H]. f_equal. apply IH, H.
Qed.

Lemma tuple_gt_lex l r : length l = length r -> tuple_gt l r = lex_lt_b r l.
Proof.
  revert r; induction l as [|a l IH]; intros [|b r]; simpl; intros H; try discriminate; try reflexivity.
  rewrite (Qeq_bool_sym b a). destruct (Qeq_bool a b); [apply IH; lia|reflexivity].
Qed.

Lemma lex_trichotomy l r :
  length l = length r -> lex_lt_b l r = negb (lex_lt_b r l || identical l r).
Proof.
  unfold identical. revert r; induction l as [|a l IH]; intros [|b r]; simpl; intros H; try discriminate; try reflexivity.
  rewrite (Qeq_bool_sym b a). destruct (Qeq_bool a b) eqn:E; simpl.
  - apply IH. lia.
  - rewrite orb_false_r. apply Q_trichotomy_b. exact E.
Qed.

Lemma lex_irrefl l : lex_lt_b l l = false.
Proof.
  induction l as [|a l IH]; simpl; [reflexivity|].
  assert (Qeq_bool a a = true) as -> by (apply Qeq_bool_iff; reflexivity). exact IH.
Qed.

Lemma lex_asym l r : lex_lt_b l r = true -> lex_lt_b r l = false.
Proof.
  revert r; induction l as [|a l IH]; intros [|b r]; simpl; intros H; try discriminate; try reflexivity.
  rewrite (Qeq_bool_sym b a). destruct (Qeq_bool a b) eqn:E.
  - apply IH, H.
  - apply Qlt_b_iff in H. apply Qlt_b_false_iff. apply Qlt_le_weak, H.
Qed.

Lemma lex_trans l m r : lex_lt_b l m = true -> lex_lt_b m r = true -> lex_lt_b l r = true.
Proof.
  revert m r; induction l as [|a l IH]; intros [|b m] [|c r]; simpl; intros H1 H2; try discriminate.
  destruct (Qeq_bool a b) eqn:Eab; destruct (Qeq_bool b c) eqn:Ebc.
  - apply Qeq_bool_iff in Eab. apply Qeq_bool_iff in Ebc.
    assert (Qeq_bool a c = true) as -> by (apply Qeq_bool_iff; rewrite Eab; exact Ebc).
    eapply IH; eassumption.
  - apply Qeq_bool_iff in Eab. apply Qlt_b_iff in H2.
    destruct (Qeq_bool a c) eqn:Eac.
    + apply Qeq_bool_iff in Eac. exfalso. rewrite <- Eab, Eac in H2. apply (Qlt_irrefl _ H2).
    + apply Qlt_b_iff. rewrite Eab. exact H2.
  - apply Qeq_bool_iff in Ebc. apply Qlt_b_iff in H1.
    destruct (Qeq_bool a c) eqn:Eac.
    + apply Qeq_bool_iff in Eac. exfalso. rewrite Eac, <- Ebc in H1. apply (Qlt_irrefl _ H1).
    + apply Qlt_b_iff. rewrite <- Ebc. exact H1.
  - apply Qlt_b_iff in H1. apply Qlt_b_iff in H2.
    assert (a < c) as L by (eapply Qlt_trans; eassumption).
    destruct (Qeq_bool a c) eqn:Eac.
    + apply Qeq_bool_iff in Eac. exfalso. rewrite Eac in L. apply (Qlt_irrefl _ L).
    + apply Qlt_b_iff. exact L.
Qed.

Lemma lex_total l r :
  length l = length r -> identical l r = false -> lex_lt_b l r = true \/ lex_lt_b r l = true.
Proof.
  intros H N. rewrite (lex_trichotomy l r H), N, orb_false_r.
  destruct (lex_lt_b r l); [right|left]; reflexivity.
Qed.

(* lex_lt_b is lexicographic minimisation in the usual sense *)
Inductive lex_lt : list Q -> list Q -> Prop :=
| lex_here a b l r : a < b -> lex_lt (a :: l) (b :: r)
| lex_next a b l r : a == b -> lex_lt l r -> lex_lt (a :: l) (b :: r).

Lemma lex_lt_b_iff l r : lex_lt_b l r = true <-> lex_lt l r.
Proof.
  revert r; induction l as [|a l IH]; intros [|b r]; simpl; split; intros H; try discriminate;
    try (inversion H; fail).
  - destruct (Qeq_bool a b) eqn:E.
    + apply lex_next; [apply Qeq_bool_iff, E|apply IH, H].
    + apply lex_here. apply Qlt_b_iff, H.
  - inversion H as [a' b' l' r' L|a' b' l' r' Eq L]; subst.
    + destruct (Qeq_bool a b) eqn:E.
      * apply Qeq_bool_iff in E. exfalso. rewrite E in L. apply (Qlt_irrefl _ L).
      * apply Qlt_b_iff, L.
    + apply Qeq_bool_iff in Eq. rewrite Eq. apply IH, L.
Qed.

(* ---------- separation ---------- *)
Lemma sep_length l r : sep_b l r = true -> length l = length r.
Proof.
  unfold sep_b. revert r; induction l as [|a l IH]; intros [|b r]; simpl; intros H; try discriminate; try reflexivity.
  apply andb_true_iff in H as [_ H]. f_equal. apply IH, H.
Qed.

Lemma sep_close_identical l r : sep_b l r = true -> forallb2 close l r = identical l r.
Proof.
  unfold sep_b, identical. revert r; induction l as [|a l IH]; intros [|b r]; simpl; intros H; try discriminate; try reflexivity.
  apply andb_true_iff in H as [H1 H2]. rewrite (IH _ H2).
  destruct (Qeq_bool a b) eqn:E; simpl in *.
  - apply Qeq_bool_iff in E. rewrite (close_refl_eq _ _ E). reflexivity.
  - apply andb_true_iff in H1 as [H1 _]. apply negb_true_iff in H1. rewrite H1. reflexivity.
Qed.

(* ---------- the operators ---------- *)
Lemma allclose_same_length l r :
  length l = length r -> allclose l r = Ok (forallb2 close l r).
Proof. intros H. unfold allclose. rewrite H, Nat.eqb_refl. reflexivity. Qed.

Lemma invalid_never_better f g : valid f = false -> gt f g = Ok false.
Proof. intros H. unfold gt, le, lt. rewrite H. reflexivity. Qed.

Lemma valid_beats_invalid f g : valid f = true -> valid g = false -> gt f g = Ok true.
Proof.
  intros Hf Hg. unfold gt, le, lt, eq. rewrite Hf, Hg. simpl.
  rewrite andb_false_r. reflexivity.
Qed.

Section Separated.
  Variables f g : fit.
  Hypothesis Hc : same_class f g = true.
  Hypothesis Hf : valid f = true.
  Hypothesis Hg : valid g = true.
  Hypothesis Hs : sep_b (vals f) (vals g) = true.

  Lemma sep_eq : eq f g = Ok (identical (vals f) (vals g)).
  Proof.
    unfold eq. rewrite Hc, Hf, Hg. simpl.
    rewrite (allclose_same_length _ _ (sep_length _ _ Hs)), (sep_close_identical _ _ Hs). reflexivity.
  Qed.

  Lemma sep_gt : gt f g = Ok (lex_lt_b (vals f) (vals g)).
  Proof.
    unfold gt, le. rewrite sep_eq. unfold lt. rewrite Hf, Hg. simpl.
    pose proof (sep_length _ _ Hs) as L.
    rewrite (tuple_gt_lex _ _ L), (lex_trichotomy _ _ L).
    destruct (lex_lt_b (vals g) (vals f)); reflexivity.
  Qed.
End Separated.

Lemma same_class_sym f g : same_class f g = same_class g f.
Proof. destruct f, g; reflexivity. Qed.

Lemma same_class_trans f g h : same_class f g = true -> same_class g h = true -> same_class f h = true.
Proof. destruct f, g, h; simpl; congruence. Qed.

Lemma sep_b_sym l r : sep_b l r = sep_b r l.
Proof.
  unfold sep_b. revert r; induction l as [|a l IH]; intros [|b r]; simpl; try reflexivity.
  rewrite IH, (Qeq_bool_sym a b), (andb_comm (negb (close a b))). reflexivity.
Qed.

Lemma close_refl_list l : forallb2 close l l = true.
Proof.
  induction l as [|a l IH]; simpl; [reflexivity|].
  rewrite IH, (close_refl_eq a a); reflexivity.
Qed.

Lemma gt_irrefl f : gt f f = Ok false.
Proof.
  destruct (valid f) eqn:V; [|apply invalid_never_better, V].
  unfold gt, le, lt, eq. rewrite V. simpl.
  assert (same_class f f = true) as -> by (destruct f; reflexivity). simpl.
  rewrite (tuple_gt_lex _ _ eq_refl), lex_irrefl.
  rewrite (allclose_same_length _ _ eq_refl), close_refl_list. reflexivity.
Qed.

Lemma gt_asym f g :
  same_class f g = true -> valid f = true -> valid g = true -> sep_b (vals f) (vals g) = true ->
  gt f g = Ok true -> gt g f = Ok false.
Proof.
  intros Hc Hf Hg Hs H.
  rewrite (sep_gt f g Hc Hf Hg Hs) in H. injection H as H.
  rewrite (sep_gt g f); try assumption.
  - f_equal. apply lex_asym, H.
  - rewrite same_class_sym. exact Hc.
  - rewrite sep_b_sym. exact Hs.
Qed.

Lemma gt_trans f g h :
  same_class f g = true -> same_class g h = true ->
  valid f = true -> valid g = true -> valid h = true ->
  sep_b (vals f) (vals g) = true -> sep_b (vals g) (vals h) = true -> sep_b (vals f) (vals h) = true ->
  gt f g = Ok true -> gt g h = Ok true -> gt f h = Ok true.
Proof.
  intros C1 C2 Vf Vg Vh S1 S2 S3 H1 H2.
  rewrite (sep_gt f g C1 Vf Vg S1) in H1. rewrite (sep_gt g h C2 Vg Vh S2) in H2.
  injection H1 as H1. injection H2 as H2.
  rewrite (sep_gt f h (same_class_trans _ _ _ C1 C2) Vf Vh S3). f_equal.
  eapply lex_trans; eassumption.
Qed.

Lemma gt_total f g :
  same_class f g = true -> valid f = true -> valid g = true -> sep_b (vals f) (vals g) = true ->
  identical (vals f) (vals g) = false -> gt f g = Ok true \/ gt g f = Ok true.
Proof.
  intros Hc Hf Hg Hs N.
  rewrite (sep_gt f g Hc Hf Hg Hs).
  rewrite (sep_gt g f); try assumption.
  - destruct (lex_total _ _ (sep_length _ _ Hs) N) as [H|H]; rewrite H; auto.
  - rewrite same_class_sym. exact Hc.
  - rewrite sep_b_sym. exact Hs.
Qed.

Lemma close_length l r : forallb2 close l r = true -> length l = length r.
Proof.
  revert r; induction l as [|a l IH]; intros [|b r]; simpl; intros H; try discriminate; try reflexivity.
  apply andb_true_iff in H as [_ H]. f_equal. apply IH, H.
Qed.

Lemma within_tolerance f g :
  same_class f g = true -> valid f = true -> valid g = true ->
  forallb2 close (vals f) (vals g) = true ->
  eq f g = Ok true /\ gt f g = Ok false.
Proof.
  intros Hc Hf Hg H.
  assert (E : eq f g = Ok true).
  { unfold eq. rewrite Hc, Hf, Hg. simpl.
    rewrite (allclose_same_length _ _ (close_length _ _ H)), H. reflexivity. }
  split; [exact E|]. unfold gt, le. rewrite E. destruct (lt f g); reflexivity.
Qed.

Lemma derived_consistent f g e :
  eq f g = Ok e ->
  le f g = Ok (lt f g || e) /\ gt f g = Ok (negb (lt f g || e)) /\
  ge f g = Ok (negb (lt f g)) /\ ne f g = Ok (negb e).
Proof.
  intros E. unfold gt, le, ge, ne. rewrite E. destruct (lt f g); simpl; auto.
Qed.

(* ---------- hashing ---------- *)
Lemma Qlt_b_comp a a' b b' : a == a' -> b == b' -> Qlt_b a b = Qlt_b a' b'.
Proof.
  intros Ea Eb. destruct (Qlt_b a b) eqn:E; symmetry.
  - apply Qlt_b_iff. apply Qlt_b_iff in E. rewrite <- Ea, <- Eb. exact E.
  - apply Qlt_b_false_iff. apply Qlt_b_false_iff in E. rewrite <- Ea, <- Eb. exact E.
Qed.

Lemma Qeq_bool_comp a a' b b' : a == a' -> b == b' -> Qeq_bool a b = Qeq_bool a' b'.
Proof.
  intros Ea Eb. destruct (Qeq_bool a b) eqn:E; symmetry.
  - apply Qeq_bool_iff. apply Qeq_bool_iff in E. rewrite <- Ea, <- Eb. exact E.
  - destruct (Qeq_bool a' b') eqn:E'; [|reflexivity].
    apply Qeq_bool_iff in E'. rewrite <- Ea, <- Eb in E'. apply Qeq_bool_iff in E'. congruence.
Qed.

Lemma round8_comp q q' : q == q' -> round8 q = round8 q'.
Proof.
  intros E. unfold round8.
  assert (Es : q * (100000000 # 1) == q' * (100000000 # 1)) by (rewrite E; reflexivity).
  assert (Ef : Qfloor (q * (100000000 # 1)) = Qfloor (q' * (100000000 # 1))) by (rewrite Es; reflexivity).
  rewrite <- Ef.
  set (fl := Qfloor (q * (100000000 # 1))).
  assert (Efr : q * (100000000 # 1) - (fl # 1) == q' * (100000000 # 1) - (fl # 1)) by (rewrite Es; reflexivity).
  rewrite (Qlt_b_comp _ _ _ _ (Qeq_refl (1 # 2)) Efr).
  rewrite (Qeq_bool_comp _ _ _ _ Efr (Qeq_refl (1 # 2))).
  reflexivity.
Qed.

Lemma hkey_eqb_refl k : hkey_eqb k k = true.
Proof. destruct k; simpl; [reflexivity|apply Qeq_bool_iff; reflexivity]. Qed.

(* two fitness objects hold identical values: same class, same validity shape, pointwise equal *)
Definition same_values (f g : fit) : Prop :=
  match f, g with
  | Single (Some p) s, Single (Some q) t => p == q /\ Forall2 Qeq s t
  | Single None s, Single None t => Forall2 Qeq s t
  | Multi vs ws, Multi vs' ws' => Forall2 Qeq (wvalues vs ws) (wvalues vs' ws')
  | _, _ => False
  end.

Lemma hash_supp s t :
  Forall2 Qeq s t ->
  forallb2 hkey_eqb (map (fun q => HNum (round8 q)) s) (map (fun q => HNum (round8 q)) t) = true.
Proof.
  induction 1 as [|a b s t E _ IH]; simpl; [reflexivity|].
  rewrite (round8_comp _ _ E), IH.
  assert (Qeq_bool (round8 b) (round8 b) = true) as -> by (apply Qeq_bool_iff; reflexivity). reflexivity.
Qed.

Lemma hash_respects_values f g : same_values f g -> hash_key_eqb f g = true.
Proof.
  unfold hash_key_eqb. destruct f as [[p|] s|vs ws], g as [[q|] t|vs' ws']; simpl; try tauto.
  - intros [E H]. rewrite (round8_comp _ _ E), (hash_supp _ _ H).
    assert (Qeq_bool (round8 q) (round8 q) = true) as -> by (apply Qeq_bool_iff; reflexivity). reflexivity.
  - intros H. apply (hash_supp _ _ H).
  - intros H. induction H as [|a b l r E _ IH]; simpl; [reflexivity|].
    rewrite IH. assert (Qeq_bool a b = true) as -> by (apply Qeq_bool_iff, E). reflexivity.
Qed.

(* ---------- Pareto dominance ---------- *)
Inductive Exists2 {A B} (P : A -> B -> Prop) : list A -> list B -> Prop :=
| Ex2_here a b l r : P a b -> Exists2 P (a :: l) (b :: r)
| Ex2_next a b l r : Exists2 P l r -> Exists2 P (a :: l) (b :: r).

(* f dominates g: no worse in every objective, strictly better in at least one (minimisation) *)
Definition pareto (l r : list Q) : Prop := Forall2 Qle l r /\ Exists2 Qlt l r.

Lemma dominates_loop_true l r :
  length l = length r -> dominates_loop true l r = true <-> Forall2 Qle l r.
Proof.
  revert r; induction l as [|a l IH]; intros [|b r]; simpl; intros H; try discriminate.
  - split; [constructor|reflexivity].
  - destruct (Qlt_b a b) eqn:E1.
    + rewrite IH by lia. apply Qlt_b_iff in E1. split; intros F.
      * constructor; [apply Qlt_le_weak, E1|exact F].
      * inversion F; assumption.
    + destruct (Qlt_b b a) eqn:E2.
      * apply Qlt_b_iff in E2. split; [discriminate|]. intros F. inversion F as [|? ? ? ? L _]; subst.
        exfalso. apply (Qlt_not_le _ _ E2 L).
      * rewrite IH by lia. apply Qlt_b_false_iff in E2. split; intros F.
        -- constructor; assumption.
        -- inversion F; assumption.
Qed.

Lemma dominates_loop_false l r :
  length l = length r -> dominates_loop false l r = true <-> pareto l r.
Proof.
  unfold pareto. revert r; induction l as [|a l IH]; intros [|b r]; simpl; intros H; try discriminate.
  - split; [discriminate|]. intros [_ E]. inversion E.
  - destruct (Qlt_b a b) eqn:E1.
    + rewrite dominates_loop_true by lia. apply Qlt_b_iff in E1. split.
      * intros F. split; [constructor; [apply Qlt_le_weak, E1|exact F]|apply Ex2_here, E1].
      * intros [F _]. inversion F; assumption.
    + destruct (Qlt_b b a) eqn:E2.
      * apply Qlt_b_iff in E2. split; [discriminate|]. intros [F _]. inversion F as [|? ? ? ? L _]; subst.
        exfalso. apply (Qlt_not_le _ _ E2 L).
      * rewrite IH by lia. apply Qlt_b_false_iff in E1. apply Qlt_b_false_iff in E2. split.
        -- intros [F E]. split; [constructor; assumption|apply Ex2_next, E].
        -- intros [F E]. inversion F; subst. split; [assumption|].
           inversion E as [? ? ? ? L|]; subst; [|assumption].
           exfalso. apply (Qlt_not_le _ _ L E1).
Qed.

Lemma dominates_iff vs ws vs' ws' :
  length (wvalues vs ws) = length (wvalues vs' ws') ->
  dominates (Multi vs ws) (Multi vs' ws') = Ok true <-> pareto (wvalues vs ws) (wvalues vs' ws').
Proof.
  intros H. simpl. rewrite <- (dominates_loop_false _ _ H). split; [intros E; injection E; auto|intros ->; reflexivity].
Qed.

Lemma pareto_irrefl l : ~ pareto l l.
Proof.
  intros [_ E]. induction l as [|a l IH]; inversion E as [? ? ? ? L|]; subst.
  - apply (Qlt_irrefl _ L).
  - apply IH; assumption.
Qed.

Lemma pareto_trans l m r : pareto l m -> pareto m r -> pareto l r.
Proof.
  intros [F1 E1] [F2 E2]. split.
  - clear E1 E2. revert r F2. induction F1 as [|a b l m L _ IH]; intros r F2; inversion F2; subst; constructor.
    + eapply Qle_trans; eassumption.
    + apply IH; assumption.
  - clear E2. revert r F2. induction E1 as [a b l m L|a b l m E IH]; intros r F2;
      inversion F2 as [|? c ? r' L2 F2']; subst.
    + apply Ex2_here. eapply Qlt_le_trans; eassumption.
    + inversion F1; subst. apply Ex2_next. apply IH; assumption.
Qed.

Lemma pareto_asym l r : pareto l r -> ~ pareto r l.
Proof. intros H1 H2. apply (pareto_irrefl l). eapply pareto_trans; eassumption. Qed.

Lemma pareto_b_iff l r : pareto_b l r = true <-> pareto l r.
Proof.
  unfold pareto_b, pareto. revert r; induction l as [|a l IH]; intros [|b r]; simpl.
  - split; [discriminate|]. intros [_ E]. inversion E.
  - split; [discriminate|]. intros [F _]. inversion F.
  - split; [discriminate|]. intros [F _]. inversion F.
  - specialize (IH r). split.
    + intros H. apply andb_true_iff in H as [H1 H2]. apply andb_true_iff in H1 as [L F].
      apply Qle_bool_iff in L. apply negb_true_iff in H2.
      destruct (Qle_bool b a) eqn:E; simpl in H2.
      * assert (Hr : Forall2 Qle l r /\ Exists2 Qlt l r) by (apply IH; rewrite F, H2; reflexivity).
        destruct Hr as [Fr Er]. split; [constructor; assumption|apply Ex2_next, Er].
      * assert (a < b) as Lt by (apply Qnot_le_lt; intros L'; apply Qle_bool_iff in L'; congruence).
        split; [|apply Ex2_here, Lt]. constructor; [exact L|].
        clear -F. revert r F. induction l as [|x l IHl]; intros [|y r]; simpl; intros F; try discriminate; constructor.
        -- apply andb_true_iff in F as [F _]. apply Qle_bool_iff, F.
        -- apply andb_true_iff in F as [_ F]. apply IHl, F.
    + intros [F E]. inversion F as [|? ? ? ? L Fr]; subst.
      apply Qle_bool_iff in L. rewrite L. simpl.
      inversion E as [? ? ? ? Lt|? ? ? ? Er]; subst.
      * assert (Qle_bool b a = false) as ->.
        { destruct (Qle_bool b a) eqn:E'; [|reflexivity]. apply Qle_bool_iff in E'. exfalso. apply (Qlt_not_le _ _ Lt E'). }
        simpl. rewrite andb_true_r.
        clear -Fr. induction Fr as [|x y l r Lxy _ IHf]; simpl; [reflexivity|].
        apply Qle_bool_iff in Lxy. rewrite Lxy, IHf. reflexivity.
      * assert (Hr : forallb2 Qle_bool l r && negb (forallb2 (fun a0 b0 => Qle_bool b0 a0) l r) = true)
          by (apply IH; split; assumption).
        apply andb_true_iff in Hr as [H1 H2]. rewrite H1. simpl.
        apply negb_true_iff in H2. rewrite H2, andb_false_r. reflexivity.
Qed.

(* ---------- the separation hypothesis is necessary ---------- *)
Definition wa := Single (Some 0) [0].
Definition wb := Single (Some (1 # 2199023255552)) [5].
Definition wc := Single (Some (1 # 1099511627776)) [0].

Lemma gt_trans_needs_sep :
  gt wa wb = Ok true /\ gt wb wc = Ok true /\ gt wa wc = Ok false /\ eq wa wc = Ok true.
Proof. vm_compute. repeat split. Qed.
