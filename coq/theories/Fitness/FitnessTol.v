(* C09 - the same model and the same executable property clauses as Fitness/Fitness.v with the closeness test as a
   parameter: a user subclass may override the tolerance hook `Fitness.allclose`, and "equal within the numeric
   tolerance" then means that subclass's own test.  For the stock test the definitions coincide with those of
   Fitness.v (lemmas at the end), so the theorems of Properties/C09.v speak about this instance.  Definitions and
   two reflexivity lemmas only. *)
From Coq Require Import List Bool Arith QArith Qabs.
From GolemV Require Import Fitness.Fitness.
Import ListNotations.

Section WithCloseness.
  Variable cl : Q -> Q -> bool.

  Definition allclose_c (l r : list Q) : res bool :=
    if Nat.eqb (length l) (length r) then Ok (forallb2 cl l r)
    else match l, r with
         | [a], _ => Ok (forallb (fun b => cl a b) r)
         | _, [b] => Ok (forallb (fun a => cl a b) l)
         | _, _ => RaiseValueError
         end.

  Definition eq_c (f g : fit) : res bool :=
    if same_class f g && valid f && valid g then allclose_c (vals f) (vals g) else Ok false.
  Definition ne_c (f g : fit) : res bool := res_map negb (eq_c f g).
  Definition le_c (f g : fit) : res bool := if lt f g then Ok true else eq_c f g.
  Definition gt_c (f g : fit) : res bool := res_map negb (le_c f g).
  Definition ge_c (f g : fit) : res bool := Ok (negb (lt f g)).

  Definition dominates_c (f g : fit) : res bool :=
    match f, g with
    | Multi _ _, Multi _ _ => Ok (dominates_loop false (vals f) (vals g))
    | Multi _ _, Single _ _ => RaiseValueError
    | Single _ _, _ => gt_c f g
    end.

  Definition agree_c (f g : fit) (o : obs) : bool :=
    opt_bool_eqb (Some (lt f g)) (o_lt o) && opt_bool_eqb (res_to_opt (eq_c f g)) (o_eq o) &&
    opt_bool_eqb (res_to_opt (ne_c f g)) (o_ne o) && opt_bool_eqb (res_to_opt (le_c f g)) (o_le o) &&
    opt_bool_eqb (res_to_opt (gt_c f g)) (o_gt o) && opt_bool_eqb (res_to_opt (ge_c f g)) (o_ge o) &&
    opt_bool_eqb (res_to_opt (dominates_c f g)) (o_dom o) &&
    implb (hash_key_eqb f g) (o_hash_eq o) &&
    Bool.eqb (valid f) (o_valid_f o) && Bool.eqb (valid g) (o_valid_g o) &&
    Bool.eqb (fit_bool f) (o_bool_f o).

  Definition sep_c (l r : list Q) : bool :=
    forallb2 (fun a b => Qeq_bool a b || (negb (cl a b) && negb (cl b a))) l r.

  Definition holds_c (f g : fit) (o : obs) : bool :=
    let vf := valid f in let vg := valid g in
    let both := same_class f g && vf && vg && Nat.eqb (length (vals f)) (length (vals g)) in
    implb (negb vf) (opt_bool_eqb (o_gt o) (Some false)) &&
    implb (vf && negb vg) (opt_bool_eqb (o_gt o) (Some true)) &&
    implb (both && sep_c (vals f) (vals g))
          (opt_bool_eqb (o_eq o) (Some (identical (vals f) (vals g))) &&
           opt_bool_eqb (o_gt o) (Some (lex_lt_b (vals f) (vals g)))) &&
    implb (both && forallb2 cl (vals f) (vals g) && forallb2 cl (vals g) (vals f))
          (opt_bool_eqb (o_eq o) (Some true) && opt_bool_eqb (o_gt o) (Some false)) &&
    match o_lt o, o_eq o with
    | Some l, Some e =>
        opt_bool_eqb (o_le o) (Some (l || e)) && opt_bool_eqb (o_gt o) (Some (negb (l || e))) &&
        opt_bool_eqb (o_ge o) (Some (negb l)) && opt_bool_eqb (o_ne o) (Some (negb e))
    | _, _ => true
    end &&
    implb (same_class f g && identical (vals f) (vals g) &&
           match f, g with Single p _, Single q _ => opt_bool_eqb (option_map (fun _ => true) p) (option_map (fun _ => true) q) | _, _ => true end)
          (o_hash_eq o) &&
    implb (is_multi f && is_multi g && Nat.eqb (length (vals f)) (length (vals g)))
          (opt_bool_eqb (o_dom o) (Some (pareto_b (vals f) (vals g)))) &&
    Bool.eqb (o_valid_f o) vf && Bool.eqb (o_bool_f o) vf.
End WithCloseness.

(* an absolute tolerance of one half: the override used by the driver's user subclass *)
Definition cl_half (a b : Q) : bool := Qle_bool (Qabs (a - b)) (1 # 2).

(* the stock closeness test gives back the model and the oracle of Fitness.v *)
Lemma agree_c_stock : forall f g o, agree_c close f g o = agree f g o.
Proof. reflexivity. Qed.

Lemma holds_c_stock : forall f g o, holds_c close f g o = holds_b f g o.
Proof. reflexivity. Qed.
