(* Model of golem/core/optimisers/opt_graph_builder.py (OptGraphBuilder, merge_opt_graph_builders)
   and of the GraphBuilder base class (graph_builder.py).  Definitions only; proofs are in
   BuilderProofs.v.

   Modelling choices
   - Node objects are cells of an explicit heap (list node); a reference is an index.  Identity
     is the index, `uid` is an ordinary field (the creation address) that deepcopy keeps.
   - Every operation returns the new heap, also the ones documented as pure (to_nodes, build,
     merge); purity / independence are theorems.
   - Exceptions are values (res).  Fuel recursion returns OutOfFuel, never a default.
   - Several builder objects live in a builder heap (list of heads lists) because merge returns
     either a new builder or one of its arguments (aliasing).
   - Branch / node indices are integers (Z): in-range negative indices follow Python indexing,
     everything else is "out of bounds".
   - Operations are None | str | (name, params) like OperationType; params is a code: 0 stands for
     a falsy params value (None, {}), k > 0 for a non-empty dict.
   - copy.deepcopy is modelled by its meaning (fresh isomorphic sub-heap of everything reachable,
     every field kept incl. uid), not by its recursion.  LinkedGraph.sort_nodes (a reordering of
     the private node list that cannot change the set of root nodes) is not modelled. *)
From Coq Require Import String List Arith Bool ZArith.
Import ListNotations.

Notation ref := nat (only parsing).

Inductive exn := ValueError | IndexError | TypeError | OutOfFuel.
Inductive res (A : Type) := Ok (a : A) | Raise (e : exn).
Arguments Ok {A} a.
Arguments Raise {A} e.

Record node := mkNode { n_name : option string; n_params : nat; n_uid : nat; n_parents : list ref }.
Definition dummy : node := mkNode None 0 0 [].
Definition heap := list node.
Definition get (h : heap) (r : ref) : node := nth r h dummy.
Definition parents (h : heap) (r : ref) : list ref := n_parents (get h r).

(* ---------------------------------------------------------------- list helpers *)
Fixpoint mem (r : nat) (l : list nat) : bool :=
  match l with [] => false | x :: l' => Nat.eqb r x || mem r l' end.

(* UniqueList.append *)
Definition uappend (l : list nat) (x : nat) : list nat := if mem x l then l else l ++ [x].
(* UniqueList.extend (also filters duplicates inside the argument) *)
Definition uextend (l xs : list nat) : list nat := fold_left uappend xs l.
(* UniqueList(iterable): first occurrences, order kept *)
Definition uniq (xs : list nat) : list nat := uextend [] xs.

Fixpoint set_nth {A} (i : nat) (x : A) (l : list A) : list A :=
  match l, i with
  | [], _ => []
  | _ :: l', 0 => x :: l'
  | y :: l', S i' => y :: set_nth i' x l'
  end.
(* list.insert: positions beyond the end append *)
Fixpoint insert_at {A} (i : nat) (x : A) (l : list A) : list A :=
  match i, l with
  | 0, _ => x :: l
  | S _, [] => [x]
  | S i', y :: l' => y :: insert_at i' x l'
  end.
Fixpoint remove_at {A} (i : nat) (l : list A) : list A :=
  match l, i with
  | [], _ => []
  | _ :: l', 0 => l'
  | y :: l', S i' => y :: remove_at i' l'
  end.
(* position of the first occurrence, length when absent *)
Fixpoint index_of (r : nat) (l : list nat) : nat :=
  match l with [] => 0 | x :: l' => if Nat.eqb r x then 0 else S (index_of r l') end.
Fixpoint remove_first (r : nat) (l : list nat) : list nat :=
  match l with [] => [] | x :: l' => if Nat.eqb r x then l' else x :: remove_first r l' end.
(* UniqueList.__setitem__ *)
Definition usetitem (l : list nat) (i v : nat) : list nat := if mem v l then l else set_nth i v l.

Definition set_parents (h : heap) (r : ref) (ps : list ref) : heap :=
  let nd := get h r in set_nth r (mkNode (n_name nd) (n_params nd) (n_uid nd) ps) h.

(* uuid4(): the cell at address a is given uid 2a when it is created and uid 2a+1 if merge renews
   its uid; every other uid is a copy made by deepcopy.  So generated uids never repeat. *)
Definition fresh_uid (a : ref) : nat := 2 * a.
Definition renewed_uid (a : ref) : nat := 2 * a + 1.

(* OptNode(content, nodes_from): a new cell with a fresh uid *)
Definition alloc (h : heap) (name : option string) (params : nat) (ps : list ref) : heap * ref :=
  (h ++ [mkNode name params (fresh_uid (length h)) (uniq ps)], length h).

Definition set_uid (h : heap) (r : ref) (u : nat) : heap :=
  let nd := get h r in set_nth r (mkNode (n_name nd) (n_params nd) u (n_parents nd)) h.

(* Python index: 0 <= i < n, or -n <= i < 0 counted from the end; None = out of bounds *)
Definition norm_idx (n : nat) (i : Z) : option nat :=
  if (0 <=? i)%Z then (if (i <? Z.of_nat n)%Z then Some (Z.to_nat i) else None)
  else if (- Z.of_nat n <=? i)%Z then Some (Z.to_nat (Z.of_nat n + i)) else None.

(* list.insert(i, x): negative positions count from the end, everything is clamped *)
Definition insert_z {A} (i : Z) (x : A) (l : list A) : list A :=
  let n := Z.of_nat (length l) in
  let p := if (i <? 0)%Z then Z.max 0 (n + i) else Z.min i n in
  insert_at (Z.to_nat p) x l.

(* ---------------------------------------------------------------- LinkedGraph(nodes) *)
(* LinkedGraph.add_node: if node not in _nodes: append; recurse into nodes_from *)
Fixpoint lg_loop (rec : list ref -> ref -> res (list ref)) (ps : list ref) (acc : list ref)
  : res (list ref) :=
  match ps with
  | [] => Ok acc
  | p :: ps' => match rec acc p with Ok acc' => lg_loop rec ps' acc' | Raise e => Raise e end
  end.
Fixpoint lg_add (fuel : nat) (h : heap) (acc : list ref) (r : ref) : res (list ref) :=
  if mem r acc then Ok acc
  else match fuel with
       | 0 => Raise OutOfFuel
       | S k => lg_loop (lg_add k h) (parents h r) (acc ++ [r])
       end.
(* the node list of LinkedGraph(roots) / OptGraph(roots) *)
Definition lg_nodes (fuel : nat) (h : heap) (roots : list ref) : res (list ref) :=
  lg_loop (lg_add fuel h) roots [].

Definition fuel_of (h : heap) : nat := S (length h).

(* ---------------------------------------------------------------- ordered_subnodes_hierarchy *)
(* state: started (list), visited (list); result: nodes in first-visit order *)
Definition osh_st := (list ref * list ref)%type.
Fixpoint osh_loop (rec : list ref -> list ref -> ref -> res (list ref * osh_st))
         (ps : list ref) (st : list ref) (vis : list ref) (acc : list ref)
  : res (list ref * osh_st) :=
  match ps with
  | [] => Ok (acc, (st, vis))
  | p :: ps' =>
      if mem p vis then osh_loop rec ps' st vis acc
      else if mem p st then Raise ValueError            (* graph has cycle *)
      else match rec (st ++ [p]) vis p with
           | Ok (l, (st', vis')) => osh_loop rec ps' st' (vis' ++ [p]) (acc ++ l)
           | Raise e => Raise e
           end
  end.
Fixpoint osh_go (fuel : nat) (h : heap) (st vis : list ref) (n : ref) : res (list ref * osh_st) :=
  match fuel with
  | 0 => Raise OutOfFuel
  | S k => osh_loop (osh_go k h) (parents h n) st vis [n]
  end.
Definition osh (fuel : nat) (h : heap) (n : ref) : res (list ref) :=
  match osh_go fuel h [n] [] n with Ok (l, _) => Ok l | Raise e => Raise e end.

(* ---------------------------------------------------------------- copy.deepcopy(list of nodes) *)
Definition copy_cells (h : heap) (rs : list ref) : list node :=
  map (fun r => let nd := get h r in
                mkNode (n_name nd) (n_params nd) (n_uid nd)
                       (map (fun p => length h + index_of p rs) (n_parents nd))) rs.
Definition deepcopy (h : heap) (roots : list ref) : res (heap * list ref) :=
  match lg_nodes (fuel_of h) h roots with
  | Ok rs => Ok (h ++ copy_cells h rs, map (fun r => length h + index_of r rs) roots)
  | Raise e => Raise e
  end.

(* ---------------------------------------------------------------- operations *)
Inductive opv := OStr (s : string) | OTup (name : option string) (params : nat).
Definition operation := option opv.
(* GraphBuilder._unpack_operation *)
Definition unpack (o : operation) : option string * nat :=
  match o with None => (None, 0) | Some (OStr s) => (Some s, 0) | Some (OTup n p) => (n, p) end.
(* truth value used by filter(None, ...) *)
Definition truthy (o : operation) : bool :=
  match o with None => false | Some (OStr s) => negb (String.eqb s ""%string) | Some (OTup _ _) => true end.

(* one builder: heap and heads list *)
Definition bstate := (heap * list ref)%type.

Definition add_node_f (op : option string) (idx : Z) (params : nat) (s : bstate) : bstate :=
  let '(h, hs) := s in
  match op with
  | None => s
  | Some nm =>
      match norm_idx (length hs) idx with
      | Some i => let '(h', r) := alloc h (Some nm) params [nth i hs 0] in (h', set_nth i r hs)
      | None => let '(h', r) := alloc h (Some nm) params [] in (h', hs ++ [r])
      end
  end.

Definition add_op_f (o : operation) (idx : Z) (s : bstate) : bstate :=
  let '(nm, p) := unpack o in add_node_f nm idx p s.

Definition add_sequence_f (ops : list operation) (idx : Z) (s : bstate) : bstate :=
  fold_left (fun s o => add_op_f o idx s) ops s.

Fixpoint grow_from (i : nat) (ops : list operation) (s : bstate) : bstate :=
  match ops with [] => s | o :: ops' => grow_from (S i) ops' (add_op_f o (Z.of_nat i) s) end.
Definition grow_branches_f (ops : list operation) (s : bstate) : bstate := grow_from 0 ops s.

Fixpoint add_branch_ins (ops : list operation) (input : ref) (pos : Z) (s : bstate) : bstate :=
  match ops with
  | [] => s
  | o :: ops' =>
      let '(nm, p) := unpack o in
      let '(h, hs) := s in
      let '(h', r) := alloc h nm p [input] in
      add_branch_ins ops' input (pos + 1)%Z (h', insert_z pos r hs)
  end.
Definition add_branch_f (ops : list operation) (idx : Z) (s : bstate) : bstate :=
  match filter truthy ops with
  | [] => s
  | ops' =>
      let '(h, hs) := s in
      match norm_idx (length hs) idx with
      | Some i => add_branch_ins ops' (nth i hs 0) idx (h, remove_at i hs)    (* heads.pop(idx) *)
      | None => fold_left (fun s o => add_op_f o (Z.of_nat (length (snd s))) s) ops' s
      end
  end.

(* _get_node_from_branch_with_idx: OptGraph(head).nodes[idx], None when idx is not a position *)
Definition node_from_branch (h : heap) (hs : list ref) (bidx : nat) (nidx : Z) : res (option ref) :=
  match lg_nodes (fuel_of h) h [nth bidx hs 0] with
  | Ok ns => Ok (match norm_idx (length ns) nidx with Some j => Some (nth j ns 0) | None => None end)
  | Raise e => Raise e
  end.

Definition add_skip_f (b1 b2 n1 n2 : Z) (s : bstate) : res bstate :=
  let '(h, hs) := s in
  match norm_idx (length hs) b1, norm_idx (length hs) b2 with
  | Some i1, Some i2 =>
       match node_from_branch h hs i1 n1 with
       | Raise e => Raise e
       | Ok fo =>
           match node_from_branch h hs i2 n2 with
           | Raise e => Raise e
           | Ok so =>
               match fo, so with
               | Some f, Some sn =>
                   match osh (fuel_of h) h f with
                   | Raise e => Raise e
                   | Ok anc =>
                       if negb (mem sn anc) && negb (mem f (parents h sn))
                       then Ok (set_parents h sn (uappend (parents h sn) f), hs)
                       else Ok s
                   end
               | _, _ => Ok s
               end
           end
       end
  | _, _ => Ok s
  end.

Definition join_f (op : option string) (params : nat) (s : bstate) : bstate :=
  let '(h, hs) := s in
  match hs, op with
  | _ :: _, Some nm =>
      if String.eqb nm ""%string then s
      else let '(h', r) := alloc h (Some nm) params hs in (h', [r])
  | _, _ => s
  end.

(* build(): to_nodes() twice (the first copy only for the emptiness test), OptGraph(copies) *)
Definition build_f (s : bstate) : res (heap * option (list ref)) :=
  let '(h, hs) := s in
  match deepcopy h hs with
  | Raise e => Raise e
  | Ok (h1, ns1) =>
      match ns1 with
      | [] => Ok (h1, None)
      | _ =>
          match deepcopy h1 hs with
          | Raise e => Raise e
          | Ok (h2, ns2) =>
              match lg_nodes (fuel_of h2) h2 ns2 with
              | Ok g => Ok (h2, Some g)
              | Raise e => Raise e
              end
          end
      end
  end.

(* ---------------------------------------------------------------- merge *)
(* LinkedGraph.node_children over the node list g *)
Definition children_in (h : heap) (g : list ref) (r : ref) : list ref :=
  filter (fun c => mem r (parents h c)) g.

(* LinkedGraph.update_node(old, new) without sort_nodes; g is the private node list *)
Definition update_node (h : heap) (g : list ref) (old new : ref) : res (heap * list ref) :=
  let h1 := fold_left (fun h c => let ps := parents h c in
                                  set_parents h c (usetitem ps (index_of old ps) new))
                      (children_in h g old) h in
  let h2 := set_parents h1 new (uextend (parents h1 new) (parents h1 old)) in
  if mem old g then
    match lg_add (fuel_of h2) h2 (remove_first old g) new with
    | Ok g' => Ok (h2, g')
    | Raise e => Raise e
    end
  else Raise ValueError.

(* node.name : str(name) or '' *)
Definition name_str (h : heap) (r : ref) : option string :=
  match n_name (get h r) with Some s => Some s | None => Some ""%string end.

Fixpoint merge_updates (h : heap) (g : list ref) (initial : list ref) (new_parents : list ref)
  : res (heap * list ref) :=
  match initial with
  | [] => Ok (h, g)
  | i :: rest =>
      let '(h', nw) := alloc h (name_str h i) 0 new_parents in
      match update_node h' g i nw with
      | Ok (h'', g') => merge_updates h'' g' rest new_parents
      | Raise e => Raise e
      end
  end.

Inductive merge_result := MPrev | MFoll | MNone | MNew (heads : list ref).

Definition is_nil {A} (l : list A) : bool := match l with [] => true | _ => false end.

(* merge_opt_graph_builders(previous, following), both without adapter *)
Definition merge_f (h : heap) (prev foll : list ref) : res (heap * merge_result) :=
  if is_nil foll then Ok (h, MPrev)
  else if is_nil prev then Ok (h, MFoll)
  else
    match deepcopy h prev with
    | Raise e => Raise e
    | Ok (h1, lhs) =>
        match deepcopy h1 foll with
        | Raise e => Raise e
        | Ok (h2, rhs) =>
            match lg_nodes (fuel_of h2) h2 rhs, lg_nodes (fuel_of h2) h2 lhs with
            | Raise e, _ | _, Raise e => Raise e
            | Ok g, Ok lg =>
                (* lhs copies whose uid also occurs among the rhs copies get a fresh uid *)
                let rhs_uids := map (fun r => n_uid (get h2 r)) g in
                let h2 := fold_left (fun h x => if mem (n_uid (get h x)) rhs_uids
                                                then set_uid h x (renewed_uid x) else h) lg h2 in
                let initial := filter (fun r => is_nil (parents h2 r)) g in
                let upd :=
                  if length lhs =? 1 then Some (merge_updates h2 g initial [nth 0 lhs 0])
                  else if length initial =? 1 then Some (merge_updates h2 g initial lhs)
                  else None in
                match upd with
                | None => Ok (h2, MNone)
                | Some (Raise e) => Raise e
                | Some (Ok (h3, g3)) =>
                    Ok (h3, MNew (filter (fun r => is_nil (children_in h3 g3 r)) g3))
                end
            end
        end
    end.

(* ---------------------------------------------------------------- the call alphabet *)
Record state := mkState { s_heap : heap; s_bs : list (list ref) }.

Inductive call :=
| AddNode (b : nat) (op : option string) (idx : Z) (params : nat)
| AddSequence (b : nat) (ops : list operation) (idx : Z)
| GrowBranches (b : nat) (ops : list operation)
| AddBranch (b : nat) (ops : list operation) (idx : Z)
| AddSkip (b : nat) (b1 b2 n1 n2 : Z)
| JoinBranches (b : nat) (op : option string) (params : nat)
| Reset (b : nat)
| ToNodes (b : nat)
| Build (b : nat)
| Merge (b1 b2 : nat).

Inductive retv :=
| RSelf                               (* the method returned the builder it was called on *)
| RNone                               (* None (reset, build of an empty builder, undefined merge) *)
| RNodes (ns : list ref)              (* to_nodes() *)
| RGraph (g : list ref)               (* build(): node list of the OptGraph *)
| RBuilder (b : nat).                 (* merge: index of the returned builder object *)

Definition heads_of (st : state) (b : nat) : list ref := nth b (s_bs st) [].
Definition valid_b (st : state) (b : nat) : bool := b <? length (s_bs st).
Definition put (st : state) (b : nat) (s : bstate) : state :=
  mkState (fst s) (set_nth b (snd s) (s_bs st)).
Definition on_builder (st : state) (b : nat) (f : bstate -> bstate) : res (state * retv) :=
  if valid_b st b then Ok (put st b (f (s_heap st, heads_of st b)), RSelf) else Ok (st, RNone).

Definition step (st : state) (c : call) : res (state * retv) :=
  match c with
  | AddNode b op idx p => on_builder st b (add_node_f op idx p)
  | AddSequence b ops idx => on_builder st b (add_sequence_f ops idx)
  | GrowBranches b ops => on_builder st b (grow_branches_f ops)
  | AddBranch b ops idx => on_builder st b (add_branch_f ops idx)
  | JoinBranches b op p => on_builder st b (join_f op p)
  | Reset b => if valid_b st b then Ok (put st b (s_heap st, []), RNone) else Ok (st, RNone)
  | AddSkip b b1 b2 n1 n2 =>
      if valid_b st b then
        match add_skip_f b1 b2 n1 n2 (s_heap st, heads_of st b) with
        | Ok s => Ok (put st b s, RSelf)
        | Raise e => Raise e
        end
      else Ok (st, RNone)
  | ToNodes b =>
      if valid_b st b then
        match deepcopy (s_heap st) (heads_of st b) with
        | Ok (h', ns) => Ok (mkState h' (s_bs st), RNodes ns)
        | Raise e => Raise e
        end
      else Ok (st, RNone)
  | Build b =>
      if valid_b st b then
        match build_f (s_heap st, heads_of st b) with
        | Ok (h', Some g) => Ok (mkState h' (s_bs st), RGraph g)
        | Ok (h', None) => Ok (mkState h' (s_bs st), RNone)
        | Raise e => Raise e
        end
      else Ok (st, RNone)
  | Merge b1 b2 =>
      if valid_b st b1 && valid_b st b2 then
        match merge_f (s_heap st) (heads_of st b1) (heads_of st b2) with
        | Ok (h', MPrev) => Ok (mkState h' (s_bs st), RBuilder b1)
        | Ok (h', MFoll) => Ok (mkState h' (s_bs st), RBuilder b2)
        | Ok (h', MNone) => Ok (mkState h' (s_bs st), RNone)
        | Ok (h', MNew hs) => Ok (mkState h' (s_bs st ++ [hs]), RBuilder (length (s_bs st)))
        | Raise e => Raise e
        end
      else Ok (st, RNone)
  end.

(* a call sequence; the returned values are collected (last call last) *)
Fixpoint run (st : state) (cs : list call) : res (state * list retv) :=
  match cs with
  | [] => Ok (st, [])
  | c :: cs' =>
      match step st c with
      | Raise e => Raise e
      | Ok (st', r) =>
          match run st' cs' with
          | Ok (st'', rs) => Ok (st'', r :: rs)
          | Raise e => Raise e
          end
      end
  end.

(* k empty builders: OptGraphBuilder() k times *)
Definition init (k : nat) : state := mkState [] (repeat [] k).

(* ---------------------------------------------------------------- canonical observation *)
(* (name, params, canonical uid, parents as positions) per node, nodes in a DFS preorder *)
Definition cnode := (option string * nat * nat * list nat)%type.

Fixpoint index_where (p : nat -> bool) (l : list nat) : nat :=
  match l with [] => 0 | x :: l' => if p x then 0 else S (index_where p l') end.

Definition canon_refs (h : heap) (order : list ref) : list cnode :=
  map (fun r => let nd := get h r in
                (n_name nd, n_params nd,
                 index_where (fun x => Nat.eqb (n_uid (get h x)) (n_uid nd)) order,
                 map (fun p => index_of p order) (n_parents nd))) order.

(* all builders at once: numbering by DFS from every head of every builder, in order *)
Definition canon_state (st : state) : option (list cnode * list (list nat)) :=
  match lg_nodes (fuel_of (s_heap st)) (s_heap st) (concat (s_bs st)) with
  | Ok order => Some (canon_refs (s_heap st) order, map (map (fun r => index_of r order)) (s_bs st))
  | Raise _ => None
  end.

(* a built graph (or a to_nodes list): numbering = position in the given node list *)
Definition canon_graph (h : heap) (g : list ref) : list cnode := canon_refs h g.

Definition disjoint_b (l r : list nat) : bool := forallb (fun x => negb (mem x r)) l.

(* ---------------------------------------------------------------- decidable checks on canonical graphs *)
Definition cparents (c : cnode) : list nat := snd c.
Definition cuid (c : cnode) : nat := snd (fst c).

Fixpoint nodup_b (l : list nat) : bool :=
  match l with [] => true | x :: l' => negb (mem x l') && nodup_b l' end.

(* closed (every parent position exists) and no parent listed twice *)
Definition wf_b (g : list cnode) : bool :=
  forallb (fun c => forallb (fun p => p <? length g) (cparents c) && nodup_b (cparents c)) g.

(* longest-path heights by iteration: one round recomputes every height from the parents' *)
Definition height_round (g : list cnode) (hs : list nat) : list nat :=
  map (fun c => fold_right (fun p m => Nat.max (S (nth p hs 0)) m) 0 (cparents c)) g.
Fixpoint height_iter (n : nat) (g : list cnode) (hs : list nat) : list nat :=
  match n with 0 => hs | S k => height_iter k g (height_round g hs) end.
Fixpoint list_eqb (l r : list nat) : bool :=
  match l, r with
  | [], [] => true
  | x :: l', y :: r' => Nat.eqb x y && list_eqb l' r'
  | _, _ => false
  end.
(* acyclic iff the heights are stable after |g| rounds *)
Definition acyclic_b (g : list cnode) : bool :=
  let hs := height_iter (length g) g (map (fun _ => 0) g) in
  list_eqb hs (height_round g hs).

Definition uids_distinct_b (g : list cnode) : bool := nodup_b (map cuid g).

(* ---------------------------------------------------------------- observations of the real builder *)
Definition opt_eqb {A} (eqb : A -> A -> bool) (x y : option A) : bool :=
  match x, y with Some a, Some b => eqb a b | None, None => true | _, _ => false end.
Definition cnode_eqb (a b : cnode) : bool :=
  let '(n1, p1, u1, ps1) := a in let '(n2, p2, u2, ps2) := b in
  opt_eqb String.eqb n1 n2 && Nat.eqb p1 p2 && Nat.eqb u1 u2 && list_eqb ps1 ps2.
Fixpoint all2 {A} (p : A -> A -> bool) (l r : list A) : bool :=
  match l, r with
  | [], [] => true
  | a :: l', b :: r' => p a b && all2 p l' r'
  | _, _ => false
  end.
Definition cgraph_eqb (a b : list cnode) : bool := all2 cnode_eqb a b.
Definition cstate := (list cnode * list (list nat))%type.
Definition cstate_eqb (a b : cstate) : bool :=
  cgraph_eqb (fst a) (fst b) && all2 list_eqb (snd a) (snd b).

(* what the harness observed for the value returned by one call *)
Inductive oret :=
| ORSelf | ORNone
| ORNodes (g : list cnode) (fresh : bool)
    (* to_nodes(): canonical closure of the returned nodes; fresh = shares no node object with
       any builder *)
| ORGraph (g1 g2 : list cnode) (eq didsame disjoint fresh : bool)
    (* the harness calls build() twice: both graphs, g1 == g2, equal descriptive_id, no common
       node object, no node object of a builder inside *)
| ORBuilder (b : nat).

Record ostep := mkOStep {
  o_raised : bool;               (* the call raised an exception *)
  o_ret : oret;
  o_state : cstate;              (* canonical form of all builders after the call *)
  o_same_objects : bool;         (* every builder existing before the call still reaches
                                    exactly the same node objects in the same order *)
  o_others_same : bool           (* deep snapshot (node objects, names, params, uid values, parent
                                    objects, heads) of every builder existing before the call other
                                    than the one the method was called on - of every builder for
                                    to_nodes / build / merge - is unchanged *)
}.

(* model side of one observed step; Build is performed twice like the harness does *)
Definition model_ret (st : state) (c : call) (st1 : state) (r : retv) : option (state * oret) :=
  match r with
  | RSelf => Some (st1, ORSelf)
  | RNone =>
      match c with
      | Build _ => (* the harness builds twice also when the answer is None *)
          match step st1 c with Ok (st2, RNone) => Some (st2, ORNone) | _ => None end
      | _ => Some (st1, ORNone)
      end
  | RBuilder b => Some (st1, ORBuilder b)
  | RNodes ns =>
      match lg_nodes (fuel_of (s_heap st1)) (s_heap st1) ns,
            lg_nodes (fuel_of (s_heap st1)) (s_heap st1) (concat (s_bs st1)) with
      | Ok cl, Ok reach => Some (st1, ORNodes (canon_graph (s_heap st1) cl) (disjoint_b cl reach))
      | _, _ => None
      end
  | RGraph g1 =>
      match step st1 c with
      | Ok (st2, RGraph g2) =>
          match lg_nodes (fuel_of (s_heap st2)) (s_heap st2) (concat (s_bs st2)) with
          | Ok reach =>
              let c1 := canon_graph (s_heap st2) g1 in
              let c2 := canon_graph (s_heap st2) g2 in
              Some (st2, ORGraph c1 c2 (cgraph_eqb c1 c2) (cgraph_eqb c1 c2) (disjoint_b g1 g2)
                                 (disjoint_b g1 reach && disjoint_b g2 reach))
          | Raise _ => None
          end
      | _ => None
      end
  end.

Definition oret_eqb (a b : oret) : bool :=
  match a, b with
  | ORSelf, ORSelf | ORNone, ORNone => true
  | ORNodes g f, ORNodes g' f' => cgraph_eqb g g' && Bool.eqb f f'
  | ORGraph a1 a2 e d j f, ORGraph b1 b2 e' d' j' f' =>
      cgraph_eqb a1 b1 && cgraph_eqb a2 b2 && Bool.eqb e e' && Bool.eqb d d' && Bool.eqb j j' && Bool.eqb f f'
  | ORBuilder x, ORBuilder y => Nat.eqb x y
  | _, _ => false
  end.

(* the model never changes the cells reachable from existing builders on a pure call, and
   never replaces them on a mutating call either (heads lists may change): the flag the model
   predicts for o_same_objects is computed from the reachable reference lists *)
Definition reach_lists (st : state) : list (option (list ref)) :=
  map (fun hs => match lg_nodes (fuel_of (s_heap st)) (s_heap st) hs with Ok l => Some l | Raise _ => None end)
      (s_bs st).
Definition same_objects_b (before after : state) : bool :=
  all2 (opt_eqb list_eqb) (reach_lists before) (firstn (length (s_bs before)) (reach_lists after)).

Fixpoint agree_from (st : state) (cs : list call) (obs : list ostep) : bool :=
  match cs, obs with
  | [], [] => true
  | c :: cs', o :: obs' =>
      match step st c with
      | Raise _ => false          (* the theorem says this cannot happen; the code did not raise either *)
      | Ok (st1, r) =>
          match model_ret st c st1 r with
          | None => false
          | Some (st2, mr) =>
              negb (o_raised o) && oret_eqb mr (o_ret o) &&
              match canon_state st2 with Some cs2 => cstate_eqb cs2 (o_state o) | None => false end &&
              Bool.eqb (same_objects_b st st2) (o_same_objects o) &&
              o_others_same o &&      (* theorems: pure calls touch nothing, builders share no node *)
              agree_from st2 cs' obs'
          end
      end
  | _, _ => false
  end.

(* model = implementation on a whole observed call sequence starting from k empty builders *)
Definition agree (k : nat) (cs : list call) (obs : list ostep) : bool := agree_from (init k) cs obs.

(* ---- the property's clauses on the OBSERVED behaviour (independent of the model's answer) *)
Definition pure_call (c : call) : bool :=
  match c with ToNodes _ | Build _ | Merge _ _ => true | _ => false end.

(* the builder object a chainable method was called on (these methods document `:return: self`) *)
Definition chain_target (c : call) : option nat :=
  match c with
  | AddNode b _ _ _ | AddSequence b _ _ | GrowBranches b _ | AddBranch b _ _
  | AddSkip b _ _ _ _ | JoinBranches b _ _ => Some b
  | _ => None
  end.
Definition is_self (r : oret) : bool := match r with ORSelf => true | _ => false end.

Definition graph_ok (g : list cnode) : bool := wf_b g && acyclic_b g.

Definition ret_ok (r : oret) : bool :=
  match r with
  | ORGraph g1 g2 e d j f => graph_ok g1 && graph_ok g2 && e && d && j && f
  | ORNodes g f => graph_ok g && f
  | _ => true
  end.

(* prefix of the canonical state that concerns the first n builders: since numbering is by DFS
   over builders in order, an unchanged prefix of builders has an unchanged prefix numbering *)
Definition heads_prefix (n : nat) (s : cstate) : list (list nat) := firstn n (snd s).
Definition nodes_used (hs : list (list nat)) : nat := fold_right (fun l m => fold_right (fun x m' => Nat.max (S x) m') m l) 0 hs.

Fixpoint holds_from (prev : cstate) (cs : list call) (obs : list ostep) : bool :=
  match cs, obs with
  | [], [] => true
  | c :: cs', o :: obs' =>
      negb (o_raised o) &&
      graph_ok (fst (o_state o)) &&
      ret_ok (o_ret o) &&
      o_others_same o &&
      (* a chainable method returns the builder, else the next chained call would raise *)
      match chain_target c with
      | Some b => if b <? length (snd prev) then is_self (o_ret o) else true
      | None => true
      end &&
      (if pure_call c
       then o_same_objects o &&
            all2 list_eqb (snd prev) (heads_prefix (length (snd prev)) (o_state o)) &&
            cgraph_eqb (fst prev) (firstn (length (fst prev)) (fst (o_state o)))
       else true) &&
      holds_from (o_state o) cs' obs'
  | _, _ => false
  end.

Definition holds_b (k : nat) (cs : list call) (obs : list ostep) : bool :=
  holds_from ([], repeat [] k) cs obs.

(* node uids pairwise distinct inside every built graph (kept separate from holds_b so that the
   driver can name the failing clause) *)
Definition builder_graphs (s : cstate) : list cnode := fst s.
Definition uids_ok_b (obs : list ostep) : bool :=
  forallb (fun o => match o_ret o with
                    | ORGraph g1 g2 _ _ _ _ => uids_distinct_b g1 && uids_distinct_b g2
                    | _ => true end) obs.
