(* deepcopy of a list of nodes: the copy is a fresh, isomorphic, parent-closed region; the old
   cells are untouched; the heap invariants survive; traversals commute with the copy. *)
From Coq Require Import String List Arith Bool Lia.
From GolemV Require Import Gen.Builder Gen.BuilderLemmas Gen.BuilderDfs.
Import ListNotations.

Definition shift_node (f : nat -> nat) (nd : node) : node :=
  mkNode (n_name nd) (n_params nd) (n_uid nd) (map f (n_parents nd)).

Definition copy_map (h : heap) (rs : list ref) (r : ref) : ref := length h + index_of r rs.

Lemma copy_map_inj : forall h rs x y, In x rs -> copy_map h rs x = copy_map h rs y -> x = y.
Proof. unfold copy_map. intros h rs x y Hx E. apply (index_of_inj x y rs Hx). lia. Qed.

Lemma copy_cells_length : forall h rs, length (copy_cells h rs) = length rs.
Proof. intros. unfold copy_cells. apply map_length. Qed.

Lemma nth_map_lt : forall A B (g : A -> B) l i d d', i < length l -> nth i (map g l) d = g (nth i l d').
Proof.
  intros A B g l i d d' Hi. rewrite nth_indep with (d' := g d') by (rewrite map_length; auto). apply map_nth.
Qed.

Lemma copy_cells_nth : forall h rs i, i < length rs ->
  nth i (copy_cells h rs) dummy = shift_node (copy_map h rs) (get h (nth i rs 0)).
Proof.
  intros h rs i Hi. unfold copy_cells. rewrite nth_map_lt with (d' := 0) by auto. reflexivity.
Qed.

(* facts about h' = h ++ copy_cells h rs for a parent-closed duplicate-free list rs of valid cells *)
Section Copy.
  Variable h : heap.
  Variable rs : list ref.
  Hypothesis Hinv : hinv h.
  Hypothesis Hnd : NoDup rs.
  Hypothesis Hvalid : forall x, In x rs -> x < length h.
  Hypothesis Hcl : forall x p, In x rs -> edge h x p -> In p rs.

  Let h' := h ++ copy_cells h rs.
  Let f := copy_map h rs.

  Lemma copy_length : length h' = length h + length rs.
  Proof. unfold h'. rewrite app_length, copy_cells_length. auto. Qed.

  Lemma copy_old : forall x, x < length h -> get h' x = get h x.
  Proof. intros. unfold h'. apply get_app_old. auto. Qed.

  Lemma copy_old_parents : forall x, x < length h -> parents h' x = parents h x.
  Proof. intros. unfold parents. rewrite copy_old; auto. Qed.

  Lemma copy_new : forall r, In r rs -> get h' (f r) = shift_node f (get h r).
  Proof.
    intros r Hr. unfold h', f, copy_map. rewrite get_app_new.
    rewrite copy_cells_nth by (apply index_of_lt; auto). rewrite nth_index_of; auto.
  Qed.

  Lemma copy_new_parents : forall r, In r rs -> parents h' (f r) = map f (parents h r).
  Proof. intros. unfold parents. rewrite copy_new; auto. Qed.

  Lemma copy_f_range : forall r, In r rs -> length h <= f r < length h'.
  Proof.
    intros r Hr. rewrite copy_length. unfold f, copy_map. pose proof (index_of_lt r rs Hr). lia.
  Qed.

  (* every new address is the image of a member of rs *)
  Lemma copy_new_addr : forall a, length h <= a < length h' -> exists r, In r rs /\ a = f r.
  Proof.
    intros a Ha. rewrite copy_length in Ha. exists (nth (a - length h) rs 0). split.
    - apply nth_In. lia.
    - unfold f, copy_map. rewrite index_of_nth; auto; lia.
  Qed.

  Lemma copy_new_edge : forall r p, In r rs -> edge h' (f r) p -> exists q, In q rs /\ edge h r q /\ p = f q.
  Proof.
    intros r p Hr He. unfold edge in He. rewrite copy_new_parents in He; auto.
    apply in_map_iff in He. destruct He as (q & <- & Hq). exists q. repeat split; auto. eapply Hcl; eauto.
  Qed.

  Lemma copy_reach_new : forall r y, In r rs -> reach h' (f r) y ->
    exists r', In r' rs /\ y = f r' /\ reach h r r'.
  Proof.
    intros r y Hr H. remember (f r) as a eqn:Ea. induction H.
    - exists r. subst. repeat split; auto. apply reach_refl.
    - destruct (IHreach Ea) as (r1 & Hr1 & -> & Hre).
      destruct (copy_new_edge r1 z Hr1 H0) as (q & Hq & He & ->).
      exists q. repeat split; auto. eapply reach_step; eauto.
  Qed.

  Lemma copy_hinv : hinv h'.
  Proof.
    destruct Hinv as (Hc & Hn & Ha). split; [|split].
    - intros c p He. assert (Hv := edge_src_valid _ _ _ He).
      destruct (Nat.lt_ge_cases c (length h)) as [Hlt|Hge].
      + unfold edge in He. rewrite copy_old_parents in He; auto. apply Hc in He. rewrite copy_length. lia.
      + destruct (copy_new_addr c (conj Hge Hv)) as (r & Hr & ->).
        destruct (copy_new_edge r p Hr He) as (q & Hq & _ & ->). apply copy_f_range. auto.
    - intros c. destruct (Nat.lt_ge_cases c (length h)) as [Hlt|Hge].
      + rewrite copy_old_parents; auto.
      + destruct (Nat.lt_ge_cases c (length h')) as [Hlt'|Hge']; [|rewrite parents_beyond; auto; constructor].
        destruct (copy_new_addr c (conj Hge Hlt')) as (r & Hr & ->). rewrite copy_new_parents; auto.
        apply NoDup_map_inj_on; auto. intros x y Hx Hy E.
        apply (copy_map_inj h rs x y); auto. eapply Hcl; eauto.
    - intros x (y & He & Hre). assert (Hv := edge_src_valid _ _ _ He).
      destruct (Nat.lt_ge_cases x (length h)) as [Hlt|Hge].
      + apply (Ha x). exists y. split.
        * unfold edge in *. rewrite copy_old_parents in He; auto.
        * assert (Hy : y < length h).
          { unfold edge in He. rewrite copy_old_parents in He; auto. eapply Hc; eauto. }
          apply (reach_transfer h' h (fun z => z < length h)); auto.
          -- intros a b Ha' Hb. unfold edge in Hb. rewrite copy_old_parents in Hb; auto. eapply Hc; eauto.
          -- intros z Hz. symmetry. apply copy_old_parents. auto.
      + destruct (copy_new_addr x (conj Hge Hv)) as (r & Hr & ->).
        destruct (copy_new_edge r y Hr He) as (q & Hq & Heq & ->).
        destruct (copy_reach_new q (f r) Hq Hre) as (r' & Hr' & E & Hre').
        apply copy_map_inj in E; auto. subst r'.
        apply (Ha r). exists q. auto.
  Qed.

  (* the copy is a parent-closed region of new addresses *)
  Lemma copy_region_closed : forall c p, length h <= c -> edge h' c p -> length h <= p < length h'.
  Proof.
    intros c p Hge He. assert (Hv := edge_src_valid _ _ _ He).
    destruct (copy_new_addr c (conj Hge Hv)) as (r & Hr & ->).
    destruct (copy_new_edge r p Hr He) as (q & Hq & _ & ->). apply copy_f_range. auto.
  Qed.

  (* traversals commute with the copy *)
  Definition res_map (r : res (list ref)) : res (list ref) :=
    match r with Ok a => Ok (map f a) | Raise e => Raise e end.

  Lemma mem_map_f : forall r acc, In r rs -> incl acc rs -> mem (f r) (map f acc) = mem r acc.
  Proof.
    intros r acc Hr Hi. destruct (mem r acc) eqn:E.
    - apply mem_In. apply mem_In in E. apply in_map. auto.
    - apply mem_false. apply mem_false in E. intros Hin. apply in_map_iff in Hin.
      destruct Hin as (y & Ey & Hy). apply E. apply copy_map_inj in Ey; auto. subst. auto.
  Qed.

  Lemma lg_add_incl_rs : forall fuel acc r acc', In r rs -> incl acc rs ->
    lg_add fuel h acc r = Ok acc' -> incl acc' rs.
  Proof.
    intros fuel acc r acc' Hr Hi H x Hx. apply lg_add_post in H. destruct H as (_ & _ & _ & Hre & _).
    destruct (Hre x Hx) as [H|(s & [<-|[]] & H)]; auto.
    apply (reach_pclosed h (fun z => In z rs) r x); auto.
  Qed.

  Lemma lg_loop_copy : forall k,
    (forall acc r, In r rs -> incl acc rs -> lg_add k h' (map f acc) (f r) = res_map (lg_add k h acc r)) ->
    forall ps acc, incl ps rs -> incl acc rs ->
    lg_loop (lg_add k h') (map f ps) (map f acc) = res_map (lg_loop (lg_add k h) ps acc).
  Proof.
    intros k Hrec. induction ps as [|p ps IH]; simpl; intros acc Hps Hacc; auto.
    assert (Hp : In p rs) by (apply Hps; left; auto).
    rewrite Hrec; auto. destruct (lg_add k h acc p) eqn:E; simpl; auto.
    apply IH.
    - intros x Hx. apply Hps. right. auto.
    - eapply lg_add_incl_rs; eauto.
  Qed.

  Lemma lg_add_copy : forall fuel acc r, In r rs -> incl acc rs ->
    lg_add fuel h' (map f acc) (f r) = res_map (lg_add fuel h acc r).
  Proof.
    induction fuel as [|k IH]; intros acc r Hr Hi; simpl; rewrite mem_map_f by auto;
      destruct (mem r acc) eqn:E; auto.
    rewrite copy_new_parents by auto.
    replace (map f acc ++ [f r]) with (map f (acc ++ [r])) by (rewrite map_app; auto).
    apply lg_loop_copy; auto.
    - intros p Hp. eapply Hcl; eauto.
    - intros x Hx. apply in_app_or in Hx. destruct Hx as [Hx|[<-|[]]]; auto.
  Qed.

  Lemma lg_nodes_copy : forall fuel roots, incl roots rs ->
    lg_nodes fuel h' (map f roots) = res_map (lg_nodes fuel h roots).
  Proof.
    intros fuel roots Hi. unfold lg_nodes. apply (lg_loop_copy fuel) with (acc := []); auto.
    - intros. apply lg_add_copy; auto.
    - intros x [].
  Qed.
End Copy.

(* ------------------------------------------------------------------ deepcopy *)
Lemma deepcopy_total : forall h roots, hinv h -> (forall r, In r roots -> r < length h) ->
  exists h' ns, deepcopy h roots = Ok (h', ns).
Proof.
  intros h roots (Hc & _) Hv. unfold deepcopy.
  destruct (lg_nodes_total h roots Hc Hv) as (rs & ->). eauto.
Qed.

(* the list of copied cells *)
Lemma deepcopy_inv : forall h roots h' ns, deepcopy h roots = Ok (h', ns) ->
  exists rs, lg_nodes (fuel_of h) h roots = Ok rs /\ h' = h ++ copy_cells h rs /\ ns = map (copy_map h rs) roots.
Proof.
  intros h roots h' ns H. unfold deepcopy in H.
  destruct (lg_nodes (fuel_of h) h roots) as [rs|] eqn:E; [|discriminate].
  inversion H; subst. exists rs. auto.
Qed.

Lemma deepcopy_hinv : forall h roots h' ns, hinv h -> (forall r, In r roots -> r < length h) ->
  deepcopy h roots = Ok (h', ns) ->
  hinv h' /\ length h <= length h' /\ (forall x, x < length h -> get h' x = get h x) /\
  (forall r, In r ns -> length h <= r < length h') /\
  (forall c p, length h <= c -> edge h' c p -> length h <= p < length h').
Proof.
  intros h roots h' ns Hinv Hv H. destruct (deepcopy_inv _ _ _ _ H) as (rs & E & -> & ->).
  pose proof (lg_nodes_facts _ _ _ _ E) as (Hi & Hnd & _ & Hcl).
  assert (Hval : forall x, In x rs -> x < length h).
  { destruct Hinv as (Hc & _). eapply lg_nodes_valid; eauto. }
  split; [|split; [|split; [|split]]].
  - apply copy_hinv; auto.
  - rewrite app_length. lia.
  - apply copy_old.
  - intros r Hr. apply in_map_iff in Hr. destruct Hr as (q & <- & Hq). apply (copy_f_range h rs); auto.
  - intros c p Hge He. eapply (copy_region_closed h rs); eauto.
Qed.
