(* The two traversals used by the builder: LinkedGraph.add_node (lg_add / lg_nodes) and
   ordered_subnodes_hierarchy (osh): result specifications, termination within the fuel the
   model supplies, independence of the fuel and of unrelated heap cells. *)
From Coq Require Import String List Arith Bool Lia.
From GolemV Require Import Gen.Builder Gen.BuilderLemmas.
Import ListNotations.

(* ------------------------------------------------------------------ the termination measure *)
Definition unseen (h : heap) (acc : list ref) : nat :=
  length (filter (fun r => negb (mem r acc)) (seq 0 (length h))).

Lemma filter_len_le : forall (f g : nat -> bool) l,
  (forall x, In x l -> f x = true -> g x = true) -> length (filter f l) <= length (filter g l).
Proof.
  induction l; simpl; intros H; auto.
  assert (IH : length (filter f l) <= length (filter g l)) by (apply IHl; intros; apply H; auto).
  destruct (f a) eqn:Ef.
  - rewrite (H a (or_introl eq_refl) Ef). simpl. lia.
  - destruct (g a); simpl; lia.
Qed.

Lemma filter_len_lt : forall (f g : nat -> bool) l x,
  (forall y, In y l -> f y = true -> g y = true) -> In x l -> g x = true -> f x = false ->
  length (filter f l) < length (filter g l).
Proof.
  induction l; simpl; intros x H Hx Hg Hf; [tauto|].
  assert (IH : length (filter f l) <= length (filter g l)) by (apply filter_len_le; intros; apply H; auto).
  destruct Hx as [->|Hx].
  - rewrite Hg, Hf. simpl. lia.
  - assert (length (filter f l) < length (filter g l)) by (eapply IHl; eauto).
    destruct (f a) eqn:Ef.
    + rewrite (H a (or_introl eq_refl) Ef). simpl. lia.
    + destruct (g a); simpl; lia.
Qed.

Lemma unseen_le : forall h acc, unseen h acc <= length h.
Proof.
  intros. unfold unseen. rewrite <- (seq_length (length h) 0) at 2.
  generalize (seq 0 (length h)). induction l; simpl; auto. destruct (negb (mem a acc)); simpl; lia.
Qed.

Lemma unseen_mono : forall h acc acc', incl acc acc' -> unseen h acc' <= unseen h acc.
Proof.
  intros h acc acc' Hi. unfold unseen. apply filter_len_le. intros x _ Hx.
  apply negb_true_iff in Hx. apply negb_true_iff. apply mem_false in Hx. apply mem_false. auto.
Qed.

Lemma unseen_add : forall h acc r, r < length h -> ~ In r acc -> unseen h (acc ++ [r]) < unseen h acc.
Proof.
  intros h acc r Hr Hn. unfold unseen. apply filter_len_lt with (x := r).
  - intros y _ Hy. apply negb_true_iff in Hy. apply negb_true_iff. apply mem_false in Hy. apply mem_false.
    intros Hi. apply Hy. apply in_or_app. auto.
  - apply in_seq. lia.
  - apply negb_true_iff, mem_false. auto.
  - apply negb_false_iff, mem_In, in_or_app. right. left. auto.
Qed.

(* ------------------------------------------------------------------ lg_add : what it returns *)
Definition lg_post (h : heap) (acc srcs acc' : list ref) : Prop :=
  (exists ext, acc' = acc ++ ext) /\ incl srcs acc' /\ (NoDup acc -> NoDup acc') /\
  (forall x, In x acc' -> In x acc \/ exists s, In s srcs /\ reach h s x) /\
  (forall x, In x acc' -> In x acc \/ incl (parents h x) acc').

Lemma lg_loop_post : forall h (rec : list ref -> ref -> res (list ref)),
  (forall acc r acc', rec acc r = Ok acc' -> lg_post h acc [r] acc') ->
  forall ps acc acc', lg_loop rec ps acc = Ok acc' -> lg_post h acc ps acc'.
Proof.
  intros h rec Hrec. induction ps as [|p ps IH]; simpl; intros acc acc' H.
  - inversion H; subst. repeat split; auto.
    + exists []. rewrite app_nil_r. auto.
    + intros x [].
  - destruct (rec acc p) as [acc1|] eqn:E; [|discriminate].
    apply Hrec in E. apply IH in H.
    destruct E as ((e1 & ->) & Hi1 & Hn1 & Hr1 & Hc1).
    destruct H as ((e2 & ->) & Hi2 & Hn2 & Hr2 & Hc2).
    repeat split.
    + exists (e1 ++ e2). rewrite app_assoc. auto.
    + intros x [<-|Hx]; [|auto]. apply in_or_app. left. apply Hi1. left. auto.
    + auto.
    + intros x Hx. destruct (Hr2 x Hx) as [H|(s & Hs & Hre)].
      * destruct (Hr1 x H) as [H'|(s & [<-|[]] & Hre)]; auto. right. exists p. split; [left|]; auto.
      * right. exists s. split; [right|]; auto.
    + intros x Hx. destruct (Hc2 x Hx) as [H|H]; auto.
      destruct (Hc1 x H) as [H'|H']; auto. right. intros y Hy. apply in_or_app. left. auto.
Qed.

Lemma lg_add_post : forall fuel h acc r acc', lg_add fuel h acc r = Ok acc' -> lg_post h acc [r] acc'.
Proof.
  induction fuel as [|k IH]; intros h acc r acc' H; simpl in H; destruct (mem r acc) eqn:Em.
  - inversion H; subst. apply mem_In in Em. repeat split; auto.
    + exists []. rewrite app_nil_r. auto.
    + intros x [<-|[]]. auto.
  - discriminate.
  - inversion H; subst. apply mem_In in Em. repeat split; auto.
    + exists []. rewrite app_nil_r. auto.
    + intros x [<-|[]]. auto.
  - apply mem_false in Em.
    apply (lg_loop_post h (lg_add k h)) in H; [|intros; eapply IH; eauto].
    destruct H as ((e & ->) & Hi & Hn & Hr & Hc). repeat split.
    + exists ([r] ++ e). rewrite app_assoc. auto.
    + intros x [<-|[]]. apply in_or_app. left. apply in_or_app. right. left. auto.
    + intros Hnd. apply Hn. apply NoDup_snoc; auto.
    + intros x Hx. destruct (Hr x Hx) as [H|(s & Hs & Hre)].
      * apply in_app_or in H. destruct H as [H|[<-|[]]]; auto.
        right. exists r. split; [left; auto|apply reach_refl].
      * right. exists r. split; [left; auto|]. eapply reach_left; eauto.
    + intros x Hx. destruct (Hc x Hx) as [H|H]; auto.
      apply in_app_or in H. destruct H as [H|[<-|[]]]; auto.
Qed.

Lemma lg_nodes_post : forall fuel h roots rs, lg_nodes fuel h roots = Ok rs -> lg_post h [] roots rs.
Proof.
  intros fuel h roots rs H. unfold lg_nodes in H.
  eapply lg_loop_post in H; eauto. intros. eapply lg_add_post; eauto.
Qed.

(* consequences for the node list of LinkedGraph(roots) *)
Lemma lg_nodes_facts : forall fuel h roots rs, lg_nodes fuel h roots = Ok rs ->
  incl roots rs /\ NoDup rs /\
  (forall x, In x rs -> exists s, In s roots /\ reach h s x) /\
  (forall x p, In x rs -> edge h x p -> In p rs).
Proof.
  intros fuel h roots rs H. apply lg_nodes_post in H. destruct H as (_ & Hi & Hn & Hr & Hc).
  repeat split; auto.
  - apply Hn. constructor.
  - intros x Hx. destruct (Hr x Hx) as [[]|H]. auto.
  - intros x p Hx Hp. destruct (Hc x Hx) as [[]|H]. apply H. auto.
Qed.

Lemma lg_nodes_valid : forall fuel h roots rs, closed h -> (forall r, In r roots -> r < length h) ->
  lg_nodes fuel h roots = Ok rs -> forall x, In x rs -> x < length h.
Proof.
  intros fuel h roots rs Hc Hv H x Hx. apply lg_nodes_facts in H. destruct H as (_ & _ & Hr & _).
  destruct (Hr x Hx) as (s & Hs & Hre). eapply reach_valid; eauto.
Qed.

(* every node reachable from a root is listed *)
Lemma lg_nodes_complete : forall fuel h roots rs, lg_nodes fuel h roots = Ok rs ->
  forall s x, In s roots -> reach h s x -> In x rs.
Proof.
  intros fuel h roots rs H s x Hs Hr. apply lg_nodes_facts in H. destruct H as (Hi & _ & _ & Hc).
  induction Hr; auto. apply (Hc y z); auto.
Qed.

(* ------------------------------------------------------------------ lg_add : termination *)
Lemma lg_loop_total : forall h k (rec : list ref -> ref -> res (list ref)),
  (forall acc r, r < length h -> unseen h acc <= k -> exists acc', rec acc r = Ok acc' /\ lg_post h acc [r] acc') ->
  forall ps acc, (forall p, In p ps -> p < length h) -> unseen h acc <= k ->
  exists acc', lg_loop rec ps acc = Ok acc'.
Proof.
  intros h k rec Hrec. induction ps as [|p ps IH]; simpl; intros acc Hv Hu; [eauto|].
  destruct (Hrec acc p) as (acc1 & E & ((e & ->) & _)); auto. rewrite E.
  apply IH; auto. etransitivity; [|exact Hu]. apply unseen_mono. intros x Hx. apply in_or_app. auto.
Qed.

Lemma lg_add_total : forall fuel h acc r, closed h -> r < length h -> unseen h acc <= fuel ->
  exists acc', lg_add fuel h acc r = Ok acc'.
Proof.
  induction fuel as [|k IH]; intros h acc r Hc Hr Hu; simpl; destruct (mem r acc) eqn:Em; eauto.
  - apply mem_false in Em. pose proof (unseen_add h acc r Hr Em). lia.
  - apply mem_false in Em. pose proof (unseen_add h acc r Hr Em).
    apply (lg_loop_total h k).
    + intros acc0 r0 Hr0 Hu0. destruct (IH h acc0 r0 Hc Hr0 Hu0) as (a & E). exists a. split; auto.
      eapply lg_add_post; eauto.
    + intros p Hp. apply (Hc r p Hp).
    + lia.
Qed.

Lemma lg_nodes_total : forall h roots, closed h -> (forall r, In r roots -> r < length h) ->
  exists rs, lg_nodes (fuel_of h) h roots = Ok rs.
Proof.
  intros h roots Hc Hv. unfold lg_nodes. apply (lg_loop_total h (fuel_of h)); auto.
  - intros acc r Hr Hu. destruct (lg_add_total (fuel_of h) h acc r Hc Hr Hu) as (a & E).
    exists a. split; auto. eapply lg_add_post; eauto.
  - pose proof (unseen_le h []). unfold fuel_of. lia.
Qed.

(* ------------------------------------------------------------------ lg_add : more fuel, other heap *)
Lemma lg_loop_mono : forall (rec rec' : list ref -> ref -> res (list ref)),
  (forall acc r a, rec acc r = Ok a -> rec' acc r = Ok a) ->
  forall ps acc a, lg_loop rec ps acc = Ok a -> lg_loop rec' ps acc = Ok a.
Proof.
  intros rec rec' H. induction ps; simpl; intros acc a0 E; auto.
  destruct (rec acc a) eqn:E1; [|discriminate]. rewrite (H _ _ _ E1). auto.
Qed.

Lemma lg_add_mono : forall fuel fuel' h acc r a, fuel <= fuel' ->
  lg_add fuel h acc r = Ok a -> lg_add fuel' h acc r = Ok a.
Proof.
  induction fuel as [|k IH]; intros fuel' h acc r a Hle H; simpl in H.
  - destruct (mem r acc) eqn:Em; [|discriminate]. destruct fuel'; simpl; rewrite Em; auto.
  - destruct fuel' as [|k']; [lia|]. simpl. destruct (mem r acc); auto.
    eapply lg_loop_mono; [|exact H]. intros. eapply IH; [|eauto]. lia.
Qed.

Lemma lg_nodes_mono : forall fuel fuel' h roots a, fuel <= fuel' ->
  lg_nodes fuel h roots = Ok a -> lg_nodes fuel' h roots = Ok a.
Proof.
  unfold lg_nodes. intros. eapply lg_loop_mono; [|eauto]. intros. eapply lg_add_mono; eauto.
Qed.

Lemma lg_loop_ext : forall (P : ref -> Prop) (rec rec' : list ref -> ref -> res (list ref)),
  (forall acc r, P r -> rec' acc r = rec acc r) ->
  forall ps acc, (forall p, In p ps -> P p) -> lg_loop rec' ps acc = lg_loop rec ps acc.
Proof.
  intros P rec rec' H. induction ps; simpl; intros acc Hp; auto.
  rewrite H by auto. destruct (rec acc a); auto.
Qed.

(* the traversal only reads the cells of a parent-closed set containing its start *)
Lemma lg_add_ext : forall (P : ref -> Prop) fuel h h' acc r,
  pclosed h P -> (forall z, P z -> parents h' z = parents h z) -> P r ->
  lg_add fuel h' acc r = lg_add fuel h acc r.
Proof.
  intros P. induction fuel as [|k IH]; intros h h' acc r Hc He Hr; simpl; destruct (mem r acc); auto.
  rewrite He by auto. apply (lg_loop_ext P).
  - intros. apply IH; auto.
  - intros p Hp. apply (Hc r p Hr Hp).
Qed.

Lemma lg_nodes_ext : forall (P : ref -> Prop) fuel h h' roots,
  pclosed h P -> (forall z, P z -> parents h' z = parents h z) -> (forall r, In r roots -> P r) ->
  lg_nodes fuel h' roots = lg_nodes fuel h roots.
Proof.
  intros. unfold lg_nodes. apply (lg_loop_ext P); auto. intros. apply lg_add_ext with (P := P); auto.
Qed.

(* the answer does not depend on the fuel once there is enough of it *)
Lemma lg_nodes_fuel_of : forall fuel h roots rs, closed h -> (forall r, In r roots -> r < length h) ->
  lg_nodes fuel h roots = Ok rs -> lg_nodes (fuel_of h) h roots = Ok rs.
Proof.
  intros fuel h roots rs Hc Hv H. destruct (lg_nodes_total h roots Hc Hv) as (rs' & E).
  destruct (Nat.le_ge_cases fuel (fuel_of h)).
  - eapply lg_nodes_mono; eauto.
  - rewrite (lg_nodes_mono _ _ _ _ _ H0 E) in H. inversion H; subst. auto.
Qed.

(* ------------------------------------------------------------------ osh : what it returns *)
Definition vclosed (h : heap) (vis : list ref) : Prop := forall v, In v vis -> incl (parents h v) vis.

Definition osh_post (h : heap) (st vis : list ref) (acc : list ref) (srcs : list ref)
           (r : list ref * osh_st) : Prop :=
  let '(l, (st', vis')) := r in
  (exists t, l = acc ++ t /\ st' = st ++ t /\ (forall x, In x vis' <-> In x vis \/ In x t)) /\
  (vclosed h vis -> vclosed h vis' /\ incl srcs vis').

Lemma osh_loop_post : forall h (rec : list ref -> list ref -> ref -> res (list ref * osh_st)),
  (forall st vis n r, rec st vis n = Ok r -> osh_post h st vis [n] (parents h n) r) ->
  forall ps st vis acc r, osh_loop rec ps st vis acc = Ok r -> osh_post h st vis acc ps r.
Proof.
  intros h rec Hrec. induction ps as [|p ps IH]; simpl; intros st vis acc r H.
  - inversion H; subst. simpl. split.
    + exists []. rewrite !app_nil_r. repeat split; auto. intros [?|[]]; auto.
    + intros Hv. split; auto. intros x [].
  - destruct (mem p vis) eqn:Ev.
    + apply mem_In in Ev. apply IH in H. destruct r as (l & st' & vis'). simpl in *.
      destruct H as ((t & -> & -> & Hvis) & Hcl). split; [exists t; auto|].
      intros Hv. destruct (Hcl Hv) as (H1 & H2). split; auto.
      intros x [<-|Hx]; auto. apply Hvis. auto.
    + destruct (mem p st) eqn:Es; [discriminate|].
      destruct (rec (st ++ [p]) vis p) as [(lp & st1 & vis1)|] eqn:E; [|discriminate].
      apply Hrec in E. apply IH in H. destruct r as (l & st' & vis'). simpl in *.
      destruct E as ((tp & -> & -> & Hvis1) & Hcl1).
      destruct H as ((t & -> & -> & Hvis) & Hcl). split.
      * exists (([p] ++ tp) ++ t). rewrite <- !app_assoc. repeat split; auto.
        -- intros Hx. apply Hvis in Hx. rewrite in_app_iff in Hx. simpl in Hx. rewrite Hvis1 in Hx.
           rewrite !in_app_iff. simpl. intuition.
        -- intros Hx. apply Hvis. rewrite !in_app_iff in *. simpl in *. rewrite Hvis1. intuition.
      * intros Hv. destruct (Hcl1 Hv) as (Hv1 & Hp1).
        assert (Hv2 : vclosed h (vis1 ++ [p])).
        { intros v Hin y Hy. apply in_or_app. apply in_app_or in Hin. destruct Hin as [Hin|[<-|[]]].
          - left. eapply Hv1; eauto.
          - left. apply Hp1. auto. }
        destruct (Hcl Hv2) as (H1 & H2). split; auto.
        intros x [<-|Hx]; auto. apply Hvis. left. apply in_or_app. right. left. auto.
Qed.

Lemma osh_go_post : forall fuel h st vis n r,
  osh_go fuel h st vis n = Ok r -> osh_post h st vis [n] (parents h n) r.
Proof.
  induction fuel as [|k IH]; simpl; intros h st vis n r H; [discriminate|].
  eapply osh_loop_post; eauto.
Qed.

(* completeness: everything reachable from n is listed; n comes first *)
Lemma osh_complete : forall fuel h n l, osh fuel h n = Ok l ->
  (exists t, l = n :: t) /\ forall x, reach h n x -> In x l.
Proof.
  intros fuel h n l H. unfold osh in H.
  destruct (osh_go fuel h [n] [] n) as [(l0 & st' & vis')|] eqn:E; [|discriminate].
  inversion H; subst. apply osh_go_post in E. simpl in E.
  destruct E as ((t & -> & _ & Hvis) & Hcl). split; [exists t; auto|].
  destruct Hcl as (Hv & Hp); [intros v []|].
  intros x Hr. destruct (reach_inv_left _ _ _ Hr) as [<-|(y & He & Hr')]; [left; auto|].
  right. assert (Hin : In x vis').
  { apply (reach_pclosed h (fun z => In z vis') y x); auto.
    intros a b Ha Hb. eapply Hv; eauto. }
  apply Hvis in Hin. destruct Hin as [[]|Hin]. auto.
Qed.

(* ------------------------------------------------------------------ osh : never raises on a DAG *)
Definition grey_ok (h : heap) (st vis : list ref) (n : ref) : Prop :=
  forall g, In g st -> ~ In g vis -> reach h g n.

Lemma osh_loop_total : forall h k (rec : list ref -> list ref -> ref -> res (list ref * osh_st)),
  closed h -> acyclic h ->
  (forall st vis n, n < length h -> grey_ok h st vis n -> unseen h st < k ->
     exists r, rec st vis n = Ok r /\ osh_post h st vis [n] (parents h n) r) ->
  forall n ps st vis acc, incl ps (parents h n) -> grey_ok h st vis n -> unseen h st <= k ->
  exists r, osh_loop rec ps st vis acc = Ok r.
Proof.
  intros h k rec Hc Ha Hrec n. induction ps as [|p ps IH]; simpl; intros st vis acc Hps Hg Hu; [eauto|].
  assert (Hep : edge h n p) by (apply Hps; left; auto).
  assert (Hps' : incl ps (parents h n)) by (intros x Hx; apply Hps; right; auto).
  destruct (mem p vis) eqn:Ev; [apply IH; auto|]. apply mem_false in Ev.
  destruct (mem p st) eqn:Es.
  - apply mem_In in Es. exfalso. apply (Ha n). exists p. split; auto.
  - apply mem_false in Es.
    assert (Hpv : p < length h) by (eapply Hc; eauto).
    destruct (Hrec (st ++ [p]) vis p) as ((lp & st1 & vis1) & E & Hpost); auto.
    + intros g Hin Hnv. apply in_app_or in Hin. destruct Hin as [Hin|[<-|[]]]; [|apply reach_refl].
      eapply reach_step; eauto.
    + pose proof (unseen_add h st p Hpv Es). lia.
    + rewrite E. simpl in Hpost. destruct Hpost as ((tp & -> & -> & Hvis1) & _).
      apply IH; auto.
      * intros g Hin Hnv. rewrite in_app_iff in Hnv. simpl in Hnv. rewrite Hvis1 in Hnv.
        rewrite <- app_assoc in Hin. apply in_app_or in Hin. destruct Hin as [Hin|Hin].
        -- apply Hg; [auto|tauto].
        -- simpl in Hin. destruct Hin as [<-|Hin]; tauto.
      * etransitivity; [|exact Hu]. apply unseen_mono. intros x Hx. rewrite <- app_assoc. apply in_or_app. auto.
Qed.

Lemma osh_go_total : forall fuel h st vis n, closed h -> acyclic h ->
  n < length h -> grey_ok h st vis n -> unseen h st < fuel ->
  exists r, osh_go fuel h st vis n = Ok r.
Proof.
  induction fuel as [|k IH]; intros h st vis n Hc Ha Hn Hg Hu; [lia|]. simpl.
  apply (osh_loop_total h k (osh_go k h) Hc Ha) with (n := n); auto.
  - intros st0 vis0 n0 Hn0 Hg0 Hu0. destruct (IH h st0 vis0 n0) as (r & E); auto.
    exists r. split; auto. eapply osh_go_post; eauto.
  - apply incl_refl.
  - lia.
Qed.

Lemma osh_total : forall h n, closed h -> acyclic h -> n < length h ->
  exists l, osh (fuel_of h) h n = Ok l.
Proof.
  intros h n Hc Ha Hn. unfold osh.
  destruct (osh_go_total (fuel_of h) h [n] [] n) as ((l & s) & E); auto.
  - intros g [<-|[]] _. apply reach_refl.
  - pose proof (unseen_le h [n]). unfold fuel_of. lia.
  - rewrite E. eauto.
Qed.
