(* Basic facts used by the proofs about the builder model: list helpers, heap cells,
   reachability along parent edges, acyclicity under allocation and under adding one edge. *)
From Coq Require Import String List Arith Bool Lia.
From GolemV Require Import Gen.Builder.
Import ListNotations.

(* ------------------------------------------------------------------ mem / uappend / uniq *)
Lemma mem_In : forall r l, mem r l = true <-> In r l.
Proof.
  induction l as [|x l IH]; simpl; [split; [discriminate|tauto]|].
  rewrite orb_true_iff, IH, Nat.eqb_eq. split; intros [H|H]; auto.
Qed.

Lemma mem_false : forall r l, mem r l = false <-> ~ In r l.
Proof.
  intros r l. rewrite <- mem_In. destruct (mem r l); split; congruence.
Qed.

Lemma uappend_In : forall l x y, In y (uappend l x) <-> In y l \/ y = x.
Proof.
  intros l x y. unfold uappend. destruct (mem x l) eqn:E.
  - apply mem_In in E. split; [auto|]. intros [H| ->]; auto.
  - rewrite in_app_iff. simpl. intuition.
Qed.


Lemma NoDup_snoc : forall (l : list nat) x, NoDup l -> ~ In x l -> NoDup (l ++ [x]).
Proof.
  induction l as [|y l IH]; simpl; intros x H Hn.
  - constructor; [tauto|constructor].
  - inversion H; subst. constructor.
    + rewrite in_app_iff. simpl. intros [H1|[H1|[]]]; [auto|subst; tauto].
    + apply IH; auto.
Qed.

Lemma uappend_NoDup : forall l x, NoDup l -> NoDup (uappend l x).
Proof.
  intros l x H. unfold uappend. destruct (mem x l) eqn:E; [exact H|].
  apply mem_false in E. apply NoDup_snoc; auto.
Qed.

Lemma uextend_In : forall xs l y, In y (uextend l xs) <-> In y l \/ In y xs.
Proof.
  unfold uextend. induction xs as [|x xs IH]; simpl; intros l y; [tauto|].
  rewrite IH, uappend_In. intuition.
Qed.

Lemma uextend_NoDup : forall xs l, NoDup l -> NoDup (uextend l xs).
Proof.
  unfold uextend. induction xs as [|x xs IH]; simpl; intros l H; [exact H|].
  apply IH, uappend_NoDup, H.
Qed.

Lemma uextend_nil : forall l, uextend l [] = l.
Proof. reflexivity. Qed.

Lemma uniq_In : forall xs y, In y (uniq xs) <-> In y xs.
Proof. intros. unfold uniq. rewrite uextend_In. simpl. tauto. Qed.

Lemma uniq_NoDup : forall xs, NoDup (uniq xs).
Proof. intros. apply uextend_NoDup. constructor. Qed.

(* ------------------------------------------------------------------ set_nth & co *)
Lemma set_nth_length : forall A i (x : A) l, length (set_nth i x l) = length l.
Proof. induction i; destruct l; simpl; auto. Qed.

Lemma set_nth_same : forall A i (x d : A) l, i < length l -> nth i (set_nth i x l) d = x.
Proof. induction i; destruct l; simpl; intros; try lia; auto. apply IHi. lia. Qed.

Lemma set_nth_other : forall A i j (x d : A) l, i <> j -> nth j (set_nth i x l) d = nth j l d.
Proof.
  induction i; destruct l; simpl; intros; auto.
  - destruct j; [lia|reflexivity].
  - destruct j; [reflexivity|]. apply IHi. lia.
Qed.

Lemma set_nth_In : forall A i (x y : A) l, In y (set_nth i x l) -> y = x \/ In y l.
Proof.
  induction i; destruct l; simpl; intros; auto.
  - destruct H; auto.
  - destruct H; auto. apply IHi in H. tauto.
Qed.

Lemma set_nth_id : forall A i (d : A) l, set_nth i (nth i l d) l = l.
Proof.
  intros A i d l. revert i. induction l; destruct i; simpl; auto. f_equal. apply IHl.
Qed.

Lemma insert_at_In : forall A i (x y : A) l, In y (insert_at i x l) <-> y = x \/ In y l.
Proof.
  induction i; destruct l; simpl; intros; try (intuition congruence).
  rewrite IHi. intuition.
Qed.

Lemma remove_at_In : forall A i (y : A) l, In y (remove_at i l) -> In y l.
Proof.
  intros A i y l. revert i. induction l; destruct i; simpl; intros; auto.
  destruct H; auto. right. eapply IHl; eauto.
Qed.

Lemma remove_first_In : forall r x l, In x (remove_first r l) -> In x l.
Proof.
  induction l; simpl; auto. destruct (Nat.eqb r a); simpl; intuition.
Qed.

Lemma remove_first_In_neq : forall r x l, In x l -> x <> r -> In x (remove_first r l).
Proof.
  induction l; simpl; auto. intros [H|H] Hn.
  - subst. destruct (Nat.eqb r x) eqn:E; [apply Nat.eqb_eq in E; congruence|left; auto].
  - destruct (Nat.eqb r a); [auto|right; auto].
Qed.

Lemma remove_first_NoDup : forall r l, NoDup l -> NoDup (remove_first r l).
Proof.
  induction l; simpl; intros H; auto. inversion H; subst.
  destruct (Nat.eqb r a); auto. constructor; auto. intros Hi. apply remove_first_In in Hi. auto.
Qed.

(* ------------------------------------------------------------------ index_of *)
Lemma index_of_lt : forall r l, In r l -> index_of r l < length l.
Proof.
  induction l; simpl; [tauto|]. intros H. destruct (Nat.eqb r a) eqn:E; [lia|].
  apply Nat.eqb_neq in E. destruct H; [congruence|]. apply IHl in H. lia.
Qed.

Lemma index_of_notin : forall r l, ~ In r l -> index_of r l = length l.
Proof.
  induction l; simpl; auto. intros H. destruct (Nat.eqb r a) eqn:E.
  - apply Nat.eqb_eq in E. subst. tauto.
  - f_equal. apply IHl. tauto.
Qed.

Lemma nth_index_of : forall r l d, In r l -> nth (index_of r l) l d = r.
Proof.
  induction l; simpl; [tauto|]. intros d H. destruct (Nat.eqb r a) eqn:E.
  - apply Nat.eqb_eq in E. auto.
  - apply Nat.eqb_neq in E. destruct H; [congruence|]. auto.
Qed.

Lemma index_of_inj : forall x y l, In x l -> index_of x l = index_of y l -> x = y.
Proof.
  intros x y l Hx E. destruct (in_dec Nat.eq_dec y l) as [Hy|Hy].
  - rewrite <- (nth_index_of x l 0 Hx), E. apply nth_index_of, Hy.
  - rewrite (index_of_notin y l Hy) in E. apply index_of_lt in Hx. lia.
Qed.

Lemma index_of_nth : forall l i d, NoDup l -> i < length l -> index_of (nth i l d) l = i.
Proof.
  induction l; simpl; intros i d H Hi; [lia|]. inversion H; subst. destruct i.
  - rewrite Nat.eqb_refl. reflexivity.
  - destruct (Nat.eqb (nth i l d) a) eqn:E.
    + apply Nat.eqb_eq in E. exfalso. apply H2. rewrite <- E. apply nth_In. lia.
    + f_equal. apply IHl; auto. lia.
Qed.

Lemma NoDup_map_inj_on : forall (f : nat -> nat) l,
  NoDup l -> (forall x y, In x l -> In y l -> f x = f y -> x = y) -> NoDup (map f l).
Proof.
  induction l; simpl; intros H Hf; [constructor|]. inversion H; subst. constructor.
  - rewrite in_map_iff. intros [y [E Hy]]. apply Hf in E; auto. subst. auto.
  - apply IHl; auto.
Qed.

(* ------------------------------------------------------------------ heap cells *)
Lemma get_app_old : forall h x r, r < length h -> get (h ++ x) r = get h r.
Proof. intros. unfold get. apply app_nth1. auto. Qed.

Lemma get_app_new : forall h x i, get (h ++ x) (length h + i) = nth i x dummy.
Proof. intros. unfold get. rewrite app_nth2 by lia. f_equal. lia. Qed.

Lemma get_app_here : forall h n, get (h ++ [n]) (length h) = n.
Proof. intros. unfold get. rewrite app_nth2 by lia. rewrite Nat.sub_diag. reflexivity. Qed.

Lemma get_beyond : forall h r, length h <= r -> get h r = dummy.
Proof. intros. unfold get. apply nth_overflow. auto. Qed.

Lemma parents_beyond : forall h r, length h <= r -> parents h r = [].
Proof. intros. unfold parents. rewrite get_beyond; auto. Qed.

Lemma set_parents_length : forall h r ps, length (set_parents h r ps) = length h.
Proof. intros. unfold set_parents. apply set_nth_length. Qed.

Lemma parents_set_same : forall h r ps, r < length h -> parents (set_parents h r ps) r = ps.
Proof. intros. unfold parents, set_parents, get. rewrite set_nth_same; auto. Qed.

Lemma get_set_other : forall h r ps x, x <> r -> get (set_parents h r ps) x = get h x.
Proof. intros. unfold set_parents, get. rewrite set_nth_other; auto. Qed.

Lemma parents_set_other : forall h r ps x, x <> r -> parents (set_parents h r ps) x = parents h x.
Proof. intros. unfold parents. rewrite get_set_other; auto. Qed.

Lemma set_parents_id : forall h r, set_parents h r (parents h r) = h.
Proof.
  intros. unfold set_parents, parents. destruct (get h r) eqn:E. simpl. rewrite <- E.
  unfold get. apply set_nth_id.
Qed.

Lemma set_parents_beyond : forall h r ps, length h <= r -> set_parents h r ps = h.
Proof.
  intros h r ps H. unfold set_parents. generalize (mkNode (n_name (get h r)) (n_params (get h r)) (n_uid (get h r)) ps).
  intros n. revert r H. induction h; destruct r; simpl; intros; auto; try lia. f_equal. apply IHh. lia.
Qed.

(* ------------------------------------------------------------------ edges, reachability *)
Definition edge (h : heap) (c p : ref) : Prop := In p (parents h c).

Inductive reach (h : heap) : ref -> ref -> Prop :=
| reach_refl : forall x, reach h x x
| reach_step : forall x y z, reach h x y -> edge h y z -> reach h x z.

(* at least one edge *)
Definition reachp (h : heap) (x z : ref) : Prop := exists y, edge h x y /\ reach h y z.

Definition acyclic (h : heap) : Prop := forall x, ~ reachp h x x.
Definition closed (h : heap) : Prop := forall c p, edge h c p -> p < length h.
Definition nodup_parents (h : heap) : Prop := forall r, NoDup (parents h r).

(* the three heap invariants of the builder *)
Definition hinv (h : heap) : Prop := closed h /\ nodup_parents h /\ acyclic h.

Lemma edge_src_valid : forall h c p, edge h c p -> c < length h.
Proof.
  intros h c p H. destruct (Nat.lt_ge_cases c (length h)); auto.
  unfold edge in H. rewrite parents_beyond in H; auto. destruct H.
Qed.

Lemma reach_trans : forall h x y z, reach h x y -> reach h y z -> reach h x z.
Proof. intros h x y z H1 H2. revert H1. induction H2; intros; auto. apply reach_step with y; auto. Qed.

Lemma reach_left : forall h x y z, edge h x y -> reach h y z -> reach h x z.
Proof.
  intros. eapply reach_trans; [|eauto]. eapply reach_step; [apply reach_refl|auto].
Qed.

Lemma reach_inv_left : forall h x z, reach h x z -> x = z \/ reachp h x z.
Proof.
  intros h x z H. induction H; auto. right. destruct IHreach as [->|[w [H1 H2]]].
  - exists z. split; auto. apply reach_refl.
  - exists w. split; auto. eapply reach_step; eauto.
Qed.

Lemma reachp_reach : forall h x z, reachp h x z -> reach h x z.
Proof. intros h x z [y [H1 H2]]. eapply reach_left; eauto. Qed.

Lemma reach_valid : forall h x y, closed h -> x < length h -> reach h x y -> y < length h.
Proof. intros h x y Hc Hx H. induction H; auto. apply (Hc y z); auto. Qed.

(* a set of cells closed under parents *)
Definition pclosed (h : heap) (P : ref -> Prop) : Prop := forall x p, P x -> edge h x p -> P p.

Lemma reach_pclosed : forall h P x y, pclosed h P -> P x -> reach h x y -> P y.
Proof. intros h P x y Hc Hx H. induction H; auto. apply (Hc y z); auto. Qed.

(* two heaps with the same parents on a parent-closed set have the same paths from it *)
Lemma reach_transfer : forall h h' (P : ref -> Prop) x y,
  pclosed h P -> (forall z, P z -> parents h' z = parents h z) -> P x ->
  reach h x y -> reach h' x y.
Proof.
  intros h h' P x y Hc He Hx H. induction H; [apply reach_refl|].
  apply reach_step with y; [auto|]. unfold edge. rewrite He; auto. apply (reach_pclosed h P x y); auto.
Qed.

Lemma pclosed_transfer : forall h h' (P : ref -> Prop),
  pclosed h P -> (forall z, P z -> parents h' z = parents h z) -> pclosed h' P.
Proof. intros h h' P Hc He x p Hx Hp. unfold edge in Hp. rewrite He in Hp; auto. eapply Hc; eauto. Qed.

(* ------------------------------------------------------------------ acyclicity: allocation *)
Lemma below_pclosed : forall h, closed h -> pclosed h (fun x => x < length h).
Proof. intros h Hc x p _ Hp. eapply Hc; eauto. Qed.

Lemma hinv_alloc : forall h nm pr u ps,
  hinv h -> (forall p, In p ps -> p < length h) -> NoDup ps ->
  hinv (h ++ [mkNode nm pr u ps]).
Proof.
  intros h nm pr u ps (Hc & Hn & Ha) Hps Hnd.
  set (h' := h ++ [mkNode nm pr u ps]).
  assert (Hold : forall z, z < length h -> parents h' z = parents h z).
  { intros z Hz. unfold parents, h'. rewrite get_app_old; auto. }
  assert (Hnew : parents h' (length h) = ps).
  { unfold parents, h'. rewrite get_app_here. reflexivity. }
  assert (Hlen : length h' = S (length h)).
  { unfold h'. rewrite app_length. simpl. lia. }
  assert (Htgt : forall c p, edge h' c p -> p < length h).
  { intros c p He. assert (Hv := edge_src_valid _ _ _ He). rewrite Hlen in Hv.
    unfold edge in He. destruct (Nat.eq_dec c (length h)) as [->|Hne].
    - rewrite Hnew in He. auto.
    - rewrite Hold in He by lia. eapply Hc; eauto. }
  split; [|split].
  - intros c p He. apply Htgt in He. lia.
  - intros r. destruct (Nat.lt_trichotomy r (length h)) as [H|[->|H]].
    + rewrite Hold; auto.
    + rewrite Hnew. auto.
    + rewrite parents_beyond; [constructor|lia].
  - intros x [y [H1 H2]].
    assert (Hy : y < length h) by (eapply Htgt; eauto).
    assert (Hback : forall a b, a < length h -> reach h' a b -> reach h a b).
    { intros a b Ha' Hr. eapply reach_transfer with (h := h') (P := fun z => z < length h); eauto.
      - intros z p Hz Hp. eapply Htgt; eauto.
      - intros z Hz. symmetry. apply Hold. auto. }
    assert (Hx : x < length h).
    { apply Hback in H2; auto. eapply reach_valid; eauto. }
    apply (Ha x). exists y. split; [|auto]. unfold edge in *. rewrite <- Hold; auto.
Qed.

(* ------------------------------------------------------------------ acyclicity: one more edge *)
(* every edge of h' is an edge of h or the edge c -> n *)
Definition edges_plus (h h' : heap) (c n : ref) : Prop :=
  forall x y, edge h' x y -> edge h x y \/ (x = c /\ y = n).

Lemma reach_plus : forall h h' c n x y,
  edges_plus h h' c n -> ~ reach h n c ->
  reach h' x y -> reach h x y \/ (reach h x c /\ reach h n y).
Proof.
  intros h h' c n x y He Hn H. induction H; [left; apply reach_refl|].
  destruct (He _ _ H0) as [Ho|[-> ->]].
  - destruct IHreach as [H1|[H1 H2]]; [left|right; split; auto]; eapply reach_step; eauto.
  - destruct IHreach as [H1|[H1 H2]].
    + right. split; [auto|apply reach_refl].
    + contradiction.
Qed.

Lemma acyclic_plus : forall h h' c n,
  edges_plus h h' c n -> ~ reach h n c -> acyclic h -> acyclic h'.
Proof.
  intros h h' c n He Hn Ha x [y [H1 H2]].
  destruct (reach_plus _ _ _ _ _ _ He Hn H2) as [H3|[H3 H4]]; destruct (He _ _ H1) as [Ho|[-> ->]].
  - apply (Ha x). exists y. auto.
  - apply Hn. auto.
  - apply Hn. eapply reach_trans; [exact H4|]. eapply reach_left; eauto.
  - apply Hn. auto.
Qed.

(* changing the parent list of one cell: closedness and NoDup *)
Lemma set_parents_closed : forall h c ps,
  closed h -> (forall p, In p ps -> p < length h) -> closed (set_parents h c ps).
Proof.
  intros h c ps Hc Hps x p He. rewrite set_parents_length. unfold edge in He.
  destruct (Nat.eq_dec x c) as [->|Hne].
  - destruct (Nat.lt_ge_cases c (length h)).
    + rewrite parents_set_same in He; auto.
    + rewrite set_parents_beyond in He; auto. eapply Hc; eauto.
  - rewrite parents_set_other in He; auto. eapply Hc; eauto.
Qed.

Lemma set_parents_nodup : forall h c ps,
  nodup_parents h -> NoDup ps -> nodup_parents (set_parents h c ps).
Proof.
  intros h c ps Hn Hps x. destruct (Nat.eq_dec x c) as [->|Hne].
  - destruct (Nat.lt_ge_cases c (length h)).
    + rewrite parents_set_same; auto.
    + rewrite set_parents_beyond; auto.
  - rewrite parents_set_other; auto.
Qed.

(* replacing the parents of c by a list whose members are old parents or n *)
Lemma hinv_set_parents_plus : forall h c n ps,
  hinv h -> n < length h -> NoDup ps ->
  (forall p, In p ps -> In p (parents h c) \/ p = n) ->
  ~ reach h n c -> hinv (set_parents h c ps).
Proof.
  intros h c n ps (Hc & Hn & Ha) Hlt Hnd Hps Hnr. split; [|split].
  - apply set_parents_closed; auto. intros p Hp. destruct (Hps p Hp) as [H| ->]; auto. eapply Hc; eauto.
  - apply set_parents_nodup; auto.
  - eapply acyclic_plus with (c := c) (n := n); eauto.
    intros x y He. unfold edge in He. destruct (Nat.eq_dec x c) as [->|Hne].
    + destruct (Nat.lt_ge_cases c (length h)).
      * rewrite parents_set_same in He; auto. destruct (Hps y He); auto.
      * rewrite set_parents_beyond in He; auto.
    + rewrite parents_set_other in He; auto.
Qed.
