(* merge_opt_graph_builders: returns Ok, keeps the heap invariants, touches no cell that
   existed before the call, and the heads of the merged builder are valid references. *)
From Coq Require Import String List Arith Bool Lia ZArith.
From GolemV Require Import Gen.Builder Gen.BuilderLemmas Gen.BuilderDfs Gen.BuilderCopy Gen.BuilderOps.
Import ListNotations.

(* ------------------------------------------------------------------ heaps of the same shape *)
Definition same_shape (h h' : heap) : Prop :=
  length h' = length h /\ forall y, parents h' y = parents h y.

Lemma same_shape_reach : forall h h' x y, same_shape h h' -> reach h' x y -> reach h x y.
Proof.
  intros h h' x y (_ & Hp) H. induction H; [apply reach_refl|].
  apply reach_step with y; auto. unfold edge in *. rewrite <- Hp. auto.
Qed.

Lemma hinv_same_shape : forall h h', hinv h -> same_shape h h' -> hinv h'.
Proof.
  intros h h' (Hc & Hn & Ha) Hs. assert (Hs' := Hs). destruct Hs as (Hl & Hp). split; [|split].
  - intros c p He. unfold edge in He. rewrite Hp in He. rewrite Hl. eapply Hc; eauto.
  - intros r. rewrite Hp. auto.
  - intros x (y & He & Hre). apply (Ha x). exists y. split.
    + unfold edge in *. rewrite <- Hp. auto.
    + eapply same_shape_reach; eauto.
Qed.

Lemma set_uid_shape : forall h x u, same_shape h (set_uid h x u).
Proof.
  intros h x u. unfold set_uid. split; [apply set_nth_length|].
  intros y. unfold parents, get. destruct (Nat.eq_dec x y) as [->|Hne].
  - destruct (Nat.lt_ge_cases y (length h)).
    + rewrite set_nth_same; auto.
    + rewrite !nth_overflow; auto. rewrite set_nth_length. auto.
  - rewrite set_nth_other; auto.
Qed.

Lemma set_uid_other : forall h x u y, y <> x -> get (set_uid h x u) y = get h y.
Proof. intros. unfold set_uid, get. rewrite set_nth_other; auto. Qed.

Definition renew_step (uids : list nat) (h : heap) (x : ref) : heap :=
  if mem (n_uid (get h x)) uids then set_uid h x (renewed_uid x) else h.

Lemma renew_fold_shape : forall uids l h,
  same_shape h (fold_left (renew_step uids) l h) /\
  forall y, ~ In y l -> get (fold_left (renew_step uids) l h) y = get h y.
Proof.
  intros uids. induction l as [|x l IH]; simpl; intros h.
  - split; [split; auto|auto].
  - destruct (IH (renew_step uids h x)) as ((Hl & Hp) & Hf).
    assert (Hs : same_shape h (renew_step uids h x)).
    { unfold renew_step. destruct (mem _ uids); [apply set_uid_shape|split; auto]. }
    destruct Hs as (Hl1 & Hp1). split; [split|].
    + rewrite Hl. auto.
    + intros y. rewrite Hp. auto.
    + intros y Hy. rewrite Hf by tauto. unfold renew_step.
      destruct (mem _ uids); auto. apply set_uid_other. intros ->. tauto.
Qed.

(* ------------------------------------------------------------------ UniqueList.__setitem__ *)
Lemma set_nth_NoDup : forall (l : list nat) i v, NoDup l -> ~ In v l -> NoDup (set_nth i v l).
Proof.
  induction l as [|x l IH]; intros i v Hn Hv; destruct i; simpl; try constructor; inversion Hn; subst; auto.
  - intros Hin. apply Hv. right. auto.
  - intros Hin. apply set_nth_In in Hin. destruct Hin as [->|Hin]; [apply Hv; left; auto|auto].
  - apply IH; auto. intros Hin. apply Hv. right. auto.
Qed.

Lemma usetitem_NoDup : forall l i v, NoDup l -> NoDup (usetitem l i v).
Proof.
  intros l i v H. unfold usetitem. destruct (mem v l) eqn:E; auto.
  apply set_nth_NoDup; auto. apply mem_false. auto.
Qed.

Lemma usetitem_In : forall l i v p, In p (usetitem l i v) -> In p l \/ p = v.
Proof.
  intros l i v p H. unfold usetitem in H. destruct (mem v l); auto.
  apply set_nth_In in H. tauto.
Qed.

(* ------------------------------------------------------------------ update_node: redirecting the children *)
Definition repl_step (old nw : ref) (h : heap) (c : ref) : heap :=
  let ps := parents h c in set_parents h c (usetitem ps (index_of old ps) nw).

Lemma reach_low : forall h a1 nw x,
  (forall y p, y < a1 -> edge h y p -> p < a1) -> (forall p, edge h nw p -> p < a1) ->
  reach h nw x -> x = nw \/ x < a1.
Proof.
  intros h a1 nw x Hlow Hnw H. destruct (reach_inv_left _ _ _ H) as [->|(y & He & Hre)]; auto.
  right. apply (reach_pclosed h (fun z => z < a1) y x); auto.
Qed.

Lemma repl_fold_ok : forall old nw a1 cs h,
  hinv h -> nw < length h ->
  (forall y p, y < a1 -> edge h y p -> p < a1) -> (forall p, edge h nw p -> p < a1) ->
  (forall c, In c cs -> a1 <= c /\ c <> nw) ->
  let h1 := fold_left (repl_step old nw) cs h in
  hinv h1 /\ length h1 = length h /\ forall x, ~ In x cs -> get h1 x = get h x.
Proof.
  intros old nw a1. induction cs as [|c cs IH]; simpl; intros h Hi Hnw Hlow Hpn Hcs; [auto|].
  destruct (Hcs c (or_introl eq_refl)) as (Hc1 & Hc2).
  set (h' := repl_step old nw h c).
  assert (Hl' : length h' = length h) by (unfold h', repl_step; apply set_parents_length).
  assert (Hoth : forall x, x <> c -> get h' x = get h x).
  { intros x Hx. unfold h', repl_step. apply get_set_other. auto. }
  assert (Hi' : hinv h').
  { unfold h', repl_step. apply hinv_set_parents_plus with (n := nw); auto.
    - apply usetitem_NoDup. apply Hi.
    - intros p Hp. apply usetitem_In in Hp. auto.
    - intros Hre. destruct (reach_low h a1 nw c Hlow Hpn Hre); [congruence|lia]. }
  destruct (IH h') as (H1 & H2 & H3); auto.
  - lia.
  - intros y p Hy He. unfold edge, parents in He. rewrite Hoth in He by lia. eapply Hlow; eauto.
  - intros p He. unfold edge, parents in He. rewrite Hoth in He by auto. apply Hpn. auto.
  - split; auto. split; [lia|]. intros x Hx. assert (Hx1 : ~ In x cs) by tauto.
    assert (Hx2 : x <> c) by (intros ->; tauto). rewrite H3 by auto. apply Hoth. auto.
Qed.

(* ------------------------------------------------------------------ the loop over the initial nodes *)
Definition minv (a1 : nat) (h : heap) (g initial nps : list ref) : Prop :=
  hinv h /\ a1 <= length h /\
  (forall x p, x < a1 -> edge h x p -> p < a1) /\
  refs_ok h g /\
  NoDup initial /\ (forall i, In i initial -> In i g /\ a1 <= i /\ parents h i = []) /\
  (forall p, In p nps -> p < a1).

Local Opaque alloc.

Lemma update_node_ok : forall a1 h g i rest nps h' nw,
  minv a1 h g (i :: rest) nps -> alloc h (name_str h i) 0 nps = (h', nw) ->
  exists h1 g', update_node h' g i nw = Ok (h1, g') /\ minv a1 h1 g' rest nps /\
    length h <= length h1 /\ forall x, x < a1 -> get h1 x = get h x.
Proof.
  intros a1 h g i rest nps h' nw (Hi & Ha1 & Hlow & Hg & Hnd & Hini & Hnps) Ea.
  assert (Hnps' : refs_ok h nps) by (intros p Hp; apply Hnps in Hp; lia).
  destruct (alloc_ok _ _ _ _ _ _ Hi Hnps' Ea) as (Hi' & Hl' & -> & Hold & Hpn).
  destruct (Hini i (or_introl eq_refl)) as (Hig & Hia & Hip).
  assert (Hparents_old : forall x, x < length h -> parents h' x = parents h x).
  { intros x Hx. unfold parents. rewrite Hold; auto. }
  set (cs := children_in h' g i).
  assert (Hcs : forall c, In c cs -> a1 <= c /\ c <> length h).
  { intros c Hc. unfold cs, children_in in Hc. apply filter_In in Hc. destruct Hc as (Hcg & Hm).
    apply mem_In in Hm. assert (Hcv := Hg c Hcg). split; [|lia].
    destruct (Nat.lt_ge_cases c a1) as [Hlt|]; auto.
    rewrite Hparents_old in Hm by auto. apply (Hlow c i Hlt) in Hm. lia. }
  assert (Hlow' : forall y p, y < a1 -> edge h' y p -> p < a1).
  { intros y p Hy He. unfold edge in He. rewrite Hparents_old in He by lia. eapply Hlow; eauto. }
  assert (Hpn' : forall p, edge h' (length h) p -> p < a1).
  { intros p He. unfold edge in He. rewrite Hpn in He. apply (proj1 (uniq_In _ _)) in He. auto. }
  destruct (repl_fold_ok i (length h) a1 cs h' Hi' ltac:(lia) Hlow' Hpn' Hcs) as (Hi1 & Hl1 & Hfr).
  set (h1 := fold_left (repl_step i (length h)) cs h') in *.
  assert (Hnotcs : forall j, j < length h -> parents h j = [] -> ~ In j cs).
  { intros j Hj Hp Hin. unfold cs, children_in in Hin. apply filter_In in Hin. destruct Hin as (_ & Hm).
    apply mem_In in Hm. rewrite Hparents_old in Hm by auto. rewrite Hp in Hm. destruct Hm. }
  assert (Hiv : i < length h) by auto.
  assert (Hpi1 : parents h1 i = []).
  { unfold parents. rewrite Hfr by (apply Hnotcs; auto). fold (parents h' i). rewrite Hparents_old; auto. }
  unfold update_node. fold cs. fold (repl_step i (length h)). fold h1.
  rewrite Hpi1, uextend_nil, set_parents_id.
  assert (Hm : mem i g = true) by (apply mem_In; auto). rewrite Hm.
  assert (Hc1 : closed h1) by apply Hi1.
  destruct (lg_add_total (fuel_of h1) h1 (remove_first i g) (length h) Hc1) as (g' & Eg).
  { lia. }
  { pose proof (unseen_le h1 (remove_first i g)). unfold fuel_of. lia. }
  rewrite Eg. exists h1, g'. split; [reflexivity|].
  pose proof (lg_add_post _ _ _ _ _ Eg) as ((ext & Eext) & _ & _ & Hre & _).
  assert (Hfr_low : forall x, x < a1 -> get h1 x = get h x).
  { intros x Hx. rewrite Hfr; [apply Hold; lia|]. intros Hin. apply Hcs in Hin. lia. }
  split; [|split; [lia|auto]].
  split; [auto|]. split; [lia|]. split; [|split; [|split; [|split]]].
  - intros x p Hx He. unfold edge, parents in He. rewrite Hfr_low in He by auto. eapply Hlow; eauto.
  - intros x Hx. destruct (Hre x Hx) as [Hin|(s & [<-|[]] & Hr)].
    + apply remove_first_In in Hin. apply Hg in Hin. lia.
    + apply (reach_valid h1 (length h) x); auto. lia.
  - inversion Hnd; auto.
  - intros j Hj. assert (Hji : j <> i) by (intros ->; inversion Hnd; auto).
    destruct (Hini j (or_intror Hj)) as (Hjg & Hja & Hjp).
    assert (Hjv := Hg j Hjg). split; [|split; auto].
    + rewrite Eext. apply in_or_app. left. apply remove_first_In_neq; auto.
    + unfold parents. rewrite Hfr by (apply Hnotcs; auto). fold (parents h' j). rewrite Hparents_old; auto.
  - auto.
Qed.

Lemma merge_updates_ok : forall a1 initial h g nps, minv a1 h g initial nps ->
  exists h' g', merge_updates h g initial nps = Ok (h', g') /\ hinv h' /\ length h <= length h' /\
    refs_ok h' g' /\ forall x, x < a1 -> get h' x = get h x.
Proof.
  intros a1. induction initial as [|i rest IH]; intros h g nps Hm; simpl.
  - destruct Hm as (Hi & _ & _ & Hg & _). exists h, g. repeat split; auto; apply Hi.
  - destruct (alloc h (name_str h i) 0 nps) as (h', nw) eqn:Ea.
    destruct (update_node_ok _ _ _ _ _ _ _ _ Hm Ea) as (h1 & g' & -> & Hm1 & Hl & Hf).
    destruct (IH h1 g' nps Hm1) as (h2 & g2 & -> & Hi2 & Hl2 & Hg2 & Hf2).
    exists h2, g2. split; [reflexivity|]. split; [auto|]. split; [lia|]. split; [auto|].
    intros x Hx. rewrite Hf2, Hf; auto.
Qed.

(* ------------------------------------------------------------------ merge_f *)
Lemma merge_ok : forall h prev foll, hinv h -> refs_ok h prev -> refs_ok h foll ->
  exists h' r, merge_f h prev foll = Ok (h', r) /\ hinv h' /\ length h <= length h' /\
    (forall x, x < length h -> get h' x = get h x) /\
    (forall hs, r = MNew hs -> refs_ok h' hs).
Proof.
  intros h prev foll Hi Hp Hf. unfold merge_f.
  destruct (is_nil foll).
  { exists h, MPrev. repeat split; auto; try apply Hi; discriminate. }
  destruct (is_nil prev).
  { exists h, MFoll. repeat split; auto; try apply Hi; discriminate. }
  destruct (deepcopy_total h prev Hi Hp) as (h1 & lhs & E1). rewrite E1.
  destruct (deepcopy_hinv _ _ _ _ Hi Hp E1) as (Hi1 & L1 & F1 & R1 & C1).
  assert (Hf1 : refs_ok h1 foll) by (eapply refs_ok_mono; eauto).
  destruct (deepcopy_total h1 foll Hi1 Hf1) as (h2 & rhs & E2). rewrite E2.
  destruct (deepcopy_hinv _ _ _ _ Hi1 Hf1 E2) as (Hi2 & L2 & F2 & R2 & C2).
  assert (Hc2 : closed h2) by apply Hi2.
  assert (Hrhs : refs_ok h2 rhs) by (intros r Hr; apply R2 in Hr; lia).
  assert (Hlhs : refs_ok h2 lhs) by (intros r Hr; apply R1 in Hr; lia).
  destruct (lg_nodes_total h2 rhs Hc2 Hrhs) as (g & Eg). rewrite Eg.
  destruct (lg_nodes_total h2 lhs Hc2 Hlhs) as (lg & Elg). rewrite Elg.
  set (uids := map (fun r => n_uid (get h2 r)) g).
  fold (renew_step uids).
  destruct (renew_fold_shape uids lg h2) as (Hshape & Hfr).
  set (h2' := fold_left (renew_step uids) lg h2) in *.
  assert (Hi2' : hinv h2') by (eapply hinv_same_shape; eauto).
  destruct Hshape as (Hl2' & Hp2').
  (* the lhs closure lies in the first copy region, the rhs closure in the second *)
  assert (Hlg : forall x, In x lg -> length h <= x).
  { intros x Hx. pose proof (lg_nodes_facts _ _ _ _ Elg) as (_ & _ & Hre & _).
    destruct (Hre x Hx) as (s & Hs & Hreach).
    apply (reach_pclosed h2 (fun z => length h <= z) s x); auto.
    - intros a b Ha Hb. destruct (Nat.lt_ge_cases a (length h1)).
      + unfold edge, parents in Hb. rewrite F2 in Hb by auto. apply (C1 a b Ha Hb).
      + apply (C2 a b) in Hb; lia.
    - apply R1 in Hs. lia. }
  assert (Hgreg : forall x, In x g -> length h1 <= x < length h2).
  { intros x Hx. pose proof (lg_nodes_facts _ _ _ _ Eg) as (_ & _ & Hre & _).
    destruct (Hre x Hx) as (s & Hs & Hreach). split.
    - apply (reach_pclosed h2 (fun z => length h1 <= z) s x); auto.
      + intros a b Ha Hb. apply (C2 a b Ha Hb).
      + apply R2 in Hs. lia.
    - apply (lg_nodes_valid _ _ _ _ Hc2 Hrhs Eg x Hx). }
  assert (Hfr0 : forall x, x < length h -> get h2' x = get h x).
  { intros x Hx. rewrite Hfr; [rewrite F2 by lia; auto|]. intros Hin. apply Hlg in Hin. lia. }
  assert (Hlow : forall x p, x < length h1 -> edge h2' x p -> p < length h1).
  { intros x p Hx He. unfold edge in He. rewrite Hp2' in He. unfold parents in He. rewrite F2 in He by auto.
    destruct Hi1 as (Hc1 & _). eapply Hc1; eauto. }
  set (initial := filter (fun r => is_nil (parents h2' r)) g).
  assert (Hminv : forall nps, (forall p, In p nps -> p < length h1) -> minv (length h1) h2' g initial nps).
  { intros nps Hnps. split; [auto|]. split; [lia|]. split; [auto|]. split; [|split; [|split]]; auto.
    - intros x Hx. apply Hgreg in Hx. lia.
    - apply NoDup_filter. apply (lg_nodes_facts _ _ _ _ Eg).
    - intros i Hin. unfold initial in Hin. apply filter_In in Hin. destruct Hin as (Hig & Hn).
      split; auto. split; [apply Hgreg; auto|]. destruct (parents h2' i); [auto|discriminate]. }
  assert (Hfinish : forall nps, (forall p, In p nps -> p < length h1) ->
    exists h' r, match merge_updates h2' g initial nps with
                 | Raise e => Raise e
                 | Ok (h3, g3) => Ok (h3, MNew (filter (fun r => is_nil (children_in h3 g3 r)) g3))
                 end = Ok (h', r) /\ hinv h' /\ length h <= length h' /\
      (forall x, x < length h -> get h' x = get h x) /\
      (forall hs, r = MNew hs -> refs_ok h' hs)).
  { intros nps Hnps. destruct (merge_updates_ok _ _ _ _ _ (Hminv nps Hnps)) as (h3 & g3 & -> & Hi3 & Hl3 & Hg3 & Hf3).
    eexists. eexists. split; [reflexivity|]. split; [auto|]. split; [lia|]. split.
    - intros x Hx. rewrite Hf3 by lia. auto.
    - intros hs Hhs. inversion Hhs; subst hs.
      intros x Hx. apply filter_In in Hx. apply Hg3. apply Hx. }
  fold initial.
  destruct (length lhs =? 1) eqn:El1.
  - apply Hfinish. intros p [<-|[]]. apply Nat.eqb_eq in El1.
    assert (Hin : In (nth 0 lhs 0) lhs) by (apply nth_In; lia). apply R1 in Hin. lia.
  - destruct (length initial =? 1).
    + apply Hfinish. intros p Hin. apply R1 in Hin. lia.
    + exists h2', MNone. split; [reflexivity|]. split; [auto|]. split; [lia|]. split; [auto|]. discriminate.
Qed.
