(* Every builder operation except merge keeps the heap invariants (closed, parent lists without
   duplicates, acyclic), keeps the heads valid, never shrinks the heap, and returns Ok. *)
From Coq Require Import String List Arith Bool Lia ZArith.
From GolemV Require Import Gen.Builder Gen.BuilderLemmas Gen.BuilderDfs Gen.BuilderCopy.
Import ListNotations.

Definition refs_ok (h : heap) (l : list ref) : Prop := forall r, In r l -> r < length h.
Definition bok (s : bstate) : Prop := hinv (fst s) /\ refs_ok (fst s) (snd s).
(* f keeps a builder in good shape and only grows the heap *)
Definition pres (f : bstate -> bstate) : Prop :=
  forall s, bok s -> bok (f s) /\ length (fst s) <= length (fst (f s)).

Lemma refs_ok_mono : forall h h' l, length h <= length h' -> refs_ok h l -> refs_ok h' l.
Proof. intros h h' l Hle H r Hr. apply H in Hr. lia. Qed.

Lemma pres_id : pres (fun s => s).
Proof. intros s H. auto. Qed.

Lemma pres_comp : forall f g, pres f -> pres g -> pres (fun s => g (f s)).
Proof.
  intros f g Hf Hg s H. destruct (Hf s H) as (H1 & L1). destruct (Hg (f s) H1) as (H2 & L2).
  split; auto. lia.
Qed.

Lemma pres_fold : forall A (F : bstate -> A -> bstate) (l : list A),
  (forall a, pres (fun s => F s a)) -> pres (fun s => fold_left F l s).
Proof.
  intros A F l HF. induction l as [|a l IH]; simpl; [apply pres_id|].
  intros s H. destruct (HF a s H) as (H1 & L1). destruct (IH _ H1) as (H2 & L2). split; auto. lia.
Qed.

Lemma norm_idx_lt : forall n i j, norm_idx n i = Some j -> j < n.
Proof.
  unfold norm_idx. intros n i j H.
  destruct (0 <=? i)%Z eqn:E0.
  - destruct (i <? Z.of_nat n)%Z eqn:E1; inversion H; subst. lia.
  - destruct (- Z.of_nat n <=? i)%Z eqn:E2; inversion H; subst. lia.
Qed.

Lemma alloc_ok : forall h nm pr ps h' r, hinv h -> refs_ok h ps -> alloc h nm pr ps = (h', r) ->
  hinv h' /\ length h' = S (length h) /\ r = length h /\
  (forall x, x < length h -> get h' x = get h x) /\ parents h' r = uniq ps.
Proof.
  intros h nm pr ps h' r Hi Hps H. unfold alloc in H. inversion H; subst. split; [|split; [|split; [|split]]].
  - apply hinv_alloc; auto.
    + intros p Hp. apply (proj1 (uniq_In _ _)) in Hp. auto.
    + apply uniq_NoDup.
  - rewrite app_length. simpl. lia.
  - reflexivity.
  - intros. apply get_app_old. auto.
  - unfold parents. rewrite get_app_here. reflexivity.
Qed.

Local Opaque alloc.

Lemma pres_add_node : forall op idx pr, pres (add_node_f op idx pr).
Proof.
  intros op idx pr (h, hs) Hb. assert (Hid := pres_id (h, hs) Hb). destruct Hb as (Hi & Hr).
  simpl in *. destruct op as [nm|]; [|auto].
  destruct (norm_idx (length hs) idx) as [i|] eqn:En.
  - apply norm_idx_lt in En.
    destruct (alloc h (Some nm) pr [nth i hs 0]) as (h', r) eqn:Ea.
    apply alloc_ok in Ea; auto.
    + destruct Ea as (Hi' & Hl & -> & _). simpl. split; [split; auto|lia].
      intros x Hx. simpl in *. apply set_nth_In in Hx. destruct Hx as [->|Hx]; [lia|]. apply Hr in Hx. lia.
    + intros x [<-|[]]. apply Hr. apply nth_In. auto.
  - destruct (alloc h (Some nm) pr []) as (h', r) eqn:Ea.
    apply alloc_ok in Ea; auto.
    + destruct Ea as (Hi' & Hl & -> & _). simpl. split; [split; auto|lia].
      intros x Hx. simpl in *. apply in_app_or in Hx. destruct Hx as [Hx|[<-|[]]]; [|lia]. apply Hr in Hx. lia.
    + intros x [].
Qed.

Lemma pres_add_op : forall o idx, pres (add_op_f o idx).
Proof. intros o idx. unfold add_op_f. destruct (unpack o). apply pres_add_node. Qed.

Lemma pres_add_sequence : forall ops idx, pres (add_sequence_f ops idx).
Proof. intros. unfold add_sequence_f. apply pres_fold. intros. apply pres_add_op. Qed.

Lemma pres_grow_from : forall ops i, pres (grow_from i ops).
Proof.
  induction ops as [|o ops IH]; simpl; intros i; [apply pres_id|].
  apply (pres_comp (add_op_f o (Z.of_nat i)) (grow_from (S i) ops)); auto. apply pres_add_op.
Qed.

Lemma pres_grow_branches : forall ops, pres (grow_branches_f ops).
Proof. intros. apply pres_grow_from. Qed.

Lemma insert_z_In : forall A (i : Z) (x y : A) l, In y (insert_z i x l) <-> y = x \/ In y l.
Proof. intros. unfold insert_z. apply insert_at_In. Qed.

Lemma add_branch_ins_ok : forall ops input pos s, bok s -> input < length (fst s) ->
  bok (add_branch_ins ops input pos s) /\ length (fst s) <= length (fst (add_branch_ins ops input pos s)).
Proof.
  induction ops as [|o ops IH]; simpl; intros input pos (h, hs) Hb Hin; [auto|].
  destruct (unpack o) as (nm, p). destruct Hb as (Hi & Hr). simpl in *.
  destruct (alloc h nm p [input]) as (h', r) eqn:Ea. apply alloc_ok in Ea; auto.
  - destruct Ea as (Hi' & Hl & -> & _).
    destruct (IH input (pos + 1)%Z (h', insert_z pos (length h) hs)) as (H1 & H2); simpl; try lia.
    + split; auto. simpl. intros x Hx. apply insert_z_In in Hx. destruct Hx as [->|Hx]; [lia|]. apply Hr in Hx. lia.
    + split; auto. simpl in H2. lia.
  - intros x [<-|[]]. auto.
Qed.

Lemma pres_add_branch : forall ops idx, pres (add_branch_f ops idx).
Proof.
  intros ops idx (h, hs) Hb. assert (Hid := pres_id (h, hs) Hb).
  unfold add_branch_f. destruct (filter truthy ops) as [|o ops'] eqn:Ef; [auto|].
  destruct (norm_idx (length hs) idx) as [i|] eqn:En.
  - apply norm_idx_lt in En. destruct Hb as (Hi & Hr). cbn [fst snd] in *.
    apply (add_branch_ins_ok (o :: ops')); cbn [fst snd].
    + split; auto. intros x Hx. apply remove_at_In in Hx. auto.
    + apply Hr. apply nth_In. auto.
  - apply (pres_fold operation (fun s o => add_op_f o (Z.of_nat (length (snd s))) s) (o :: ops')); auto.
    intros a s Hs. apply pres_add_op. auto.
Qed.

Lemma pres_join : forall op pr, pres (join_f op pr).
Proof.
  intros op pr (h, hs) Hb. assert (Hid := pres_id (h, hs) Hb). destruct Hb as (Hi & Hr).
  simpl in *. destruct hs as [|x hs]; [auto|]. destruct op as [nm|]; [|auto].
  destruct (String.eqb nm ""); [auto|].
  destruct (alloc h (Some nm) pr (x :: hs)) as (h', r) eqn:Ea. apply alloc_ok in Ea; auto.
  destruct Ea as (Hi' & Hl & -> & _). simpl. split; [split; auto|lia].
  intros y [<-|[]]. simpl. lia.
Qed.

(* ------------------------------------------------------------------ skip connection *)
Lemma node_from_branch_ok : forall h hs i n, hinv h -> refs_ok h hs -> i < length hs ->
  exists o, node_from_branch h hs i n = Ok o /\ (forall r, o = Some r -> r < length h).
Proof.
  intros h hs i n (Hc & _) Hr Hi. unfold node_from_branch.
  assert (Hv : forall r, In r [nth i hs 0] -> r < length h).
  { intros r [<-|[]]. apply Hr. apply nth_In. auto. }
  destruct (lg_nodes_total h [nth i hs 0] Hc Hv) as (ns & E). rewrite E.
  eexists. split; [reflexivity|]. intros r Hs.
  destruct (norm_idx (length ns) n) as [j|] eqn:En; inversion Hs; subst.
  apply norm_idx_lt in En. eapply lg_nodes_valid; eauto. apply nth_In. auto.
Qed.

Lemma add_skip_ok : forall b1 b2 n1 n2 s, bok s ->
  exists s', add_skip_f b1 b2 n1 n2 s = Ok s' /\ bok s' /\ length (fst s') = length (fst s) /\ snd s' = snd s.
Proof.
  intros b1 b2 n1 n2 (h, hs) Hb. assert (Hb' := Hb). destruct Hb as (Hi & Hr). simpl in *.
  destruct (norm_idx (length hs) b1) as [i1|] eqn:E1; [|eauto].
  destruct (norm_idx (length hs) b2) as [i2|] eqn:E2; [|eauto].
  apply norm_idx_lt in E1. apply norm_idx_lt in E2.
  destruct (node_from_branch_ok h hs i1 n1 Hi Hr E1) as (fo & -> & Hf).
  destruct (node_from_branch_ok h hs i2 n2 Hi Hr E2) as (so & -> & Hs).
  destruct fo as [f|]; [|eauto]. destruct so as [sn|]; [|eauto].
  assert (Hfv : f < length h) by auto. assert (Hsv : sn < length h) by auto.
  destruct Hi as (Hc & Hn & Ha).
  destruct (osh_total h f Hc Ha Hfv) as (anc & Eo). rewrite Eo.
  destruct (negb (mem sn anc) && negb (mem f (parents h sn))) eqn:Eg; [|eauto].
  apply andb_true_iff in Eg. destruct Eg as (Eg & _). apply negb_true_iff, mem_false in Eg.
  eexists. split; [reflexivity|]. simpl. rewrite set_parents_length. split; [split|auto]; simpl.
  - apply hinv_set_parents_plus with (n := f); auto.
    + split; auto.
    + apply uappend_NoDup. apply Hn.
    + intros p Hp. apply uappend_In in Hp. auto.
    + intros Hre. apply Eg. apply (osh_complete _ _ _ _ Eo). auto.
  - intros r Hin. rewrite set_parents_length. auto.
Qed.

(* ------------------------------------------------------------------ build *)
Lemma build_ok : forall s, bok s ->
  exists h' og, build_f s = Ok (h', og) /\ hinv h' /\ length (fst s) <= length h' /\
    (forall x, x < length (fst s) -> get h' x = get (fst s) x) /\
    (forall g, og = Some g -> forall r, In r g -> length (fst s) <= r < length h').
Proof.
  intros (h, hs) (Hi & Hr). simpl in *.
  destruct (deepcopy_total h hs Hi Hr) as (h1 & ns1 & E1). rewrite E1.
  destruct (deepcopy_hinv _ _ _ _ Hi Hr E1) as (Hi1 & L1 & F1 & R1 & C1).
  destruct ns1 as [|n1 ns1'].
  - exists h1, None. split; [reflexivity|]. split; [auto|]. split; [auto|]. split; [auto|]. intros g Hg. discriminate.
  - assert (Hr1 : refs_ok h1 hs) by (eapply refs_ok_mono; eauto).
    destruct (deepcopy_total h1 hs Hi1 Hr1) as (h2 & ns2 & E2). rewrite E2.
    destruct (deepcopy_hinv _ _ _ _ Hi1 Hr1 E2) as (Hi2 & L2 & F2 & R2 & C2).
    assert (Hv2 : forall r, In r ns2 -> r < length h2) by (intros r Hin; apply R2 in Hin; lia).
    assert (Hc2 : closed h2) by apply Hi2.
    destruct (lg_nodes_total h2 ns2 Hc2 Hv2) as (g & Eg). rewrite Eg.
    exists h2, (Some g). split; [reflexivity|]. split; [auto|]. split; [lia|]. split.
    + intros x Hx. rewrite F2 by lia. auto.
    + intros g0 Hg r Hin. inversion Hg; subst g0. split.
      * pose proof (lg_nodes_facts _ _ _ _ Eg) as (_ & _ & Hre & _).
        destruct (Hre r Hin) as (s & Hs & Hreach).
        assert (length h1 <= r); [|lia].
        apply (reach_pclosed h2 (fun z => length h1 <= z) s r); auto.
        -- intros a b Ha Hb. apply (C2 a b Ha Hb).
        -- apply R2 in Hs. lia.
      * eapply lg_nodes_valid; eauto.
Qed.
