(* Soundness of the executable checks that holds_b applies to the canonical graphs observed on the
   real builder: when graph_ok answers true, the graph is closed, has duplicate-free parent lists
   and is acyclic.  (So a cyclic or malformed observed graph is never accepted.) *)
From Coq Require Import String List Arith Bool Lia.
From GolemV Require Import Gen.Builder Gen.BuilderLemmas Gen.BuilderCopy.
Import ListNotations.

Definition cdummy : cnode := (None, 0, 0, []).
Definition cedge (g : list cnode) (i p : nat) : Prop := In p (cparents (nth i g cdummy)).
(* a path with at least one edge *)
Inductive cpath (g : list cnode) : nat -> nat -> Prop :=
| cpath_one : forall i j, cedge g i j -> cpath g i j
| cpath_step : forall i k j, cedge g i k -> cpath g k j -> cpath g i j.

Lemma nodup_b_sound : forall l, nodup_b l = true -> NoDup l.
Proof.
  induction l; simpl; intros H; [constructor|]. apply andb_true_iff in H. destruct H as (H1 & H2).
  constructor; auto. apply negb_true_iff, mem_false in H1. auto.
Qed.

Lemma list_eqb_eq : forall l r, Builder.list_eqb l r = true -> l = r.
Proof.
  induction l; destruct r; simpl; intros H; try discriminate; auto.
  apply andb_true_iff in H. destruct H as (H1 & H2). apply Nat.eqb_eq in H1. f_equal; auto.
Qed.

Lemma wf_b_sound : forall g, wf_b g = true ->
  (forall i p, cedge g i p -> p < length g) /\ (forall i, NoDup (cparents (nth i g cdummy))).
Proof.
  intros g H. unfold wf_b in H. rewrite forallb_forall in H.
  assert (Hi : forall i, i < length g ->
     forallb (fun p => p <? length g) (cparents (nth i g cdummy)) = true /\
     nodup_b (cparents (nth i g cdummy)) = true).
  { intros i Hlt. specialize (H (nth i g cdummy) (nth_In _ _ Hlt)). apply andb_true_iff in H. auto. }
  split.
  - intros i p He. destruct (Nat.lt_ge_cases i (length g)) as [Hlt|Hge].
    + destruct (Hi i Hlt) as (H1 & _). rewrite forallb_forall in H1. apply Nat.ltb_lt. apply H1. auto.
    + unfold cedge in He. rewrite nth_overflow in He by auto. destruct He.
  - intros i. destruct (Nat.lt_ge_cases i (length g)) as [Hlt|Hge].
    + apply nodup_b_sound. apply Hi. auto.
    + rewrite nth_overflow by auto. constructor.
Qed.

Lemma round_ge : forall hs l p, In p l ->
  S (nth p hs 0) <= fold_right (fun p m => Nat.max (S (nth p hs 0)) m) 0 l.
Proof.
  induction l; cbn [fold_right In]; intros p H; [tauto|]. destruct H as [->|H]; [lia|].
  apply IHl in H. lia.
Qed.

Lemma acyclic_b_sound : forall g, acyclic_b g = true -> forall i, ~ cpath g i i.
Proof.
  intros g H. unfold acyclic_b in H. apply list_eqb_eq in H.
  set (hs := height_iter (length g) g (map (fun _ => 0) g)) in *.
  assert (Hrank : forall i p, cedge g i p -> nth p hs 0 < nth i hs 0).
  { intros i p He. destruct (Nat.lt_ge_cases i (length g)) as [Hlt|Hge].
    - rewrite H at 2. unfold height_round. rewrite nth_map_lt with (d' := cdummy) by auto.
      apply round_ge. auto.
    - unfold cedge in He. rewrite nth_overflow in He by auto. destruct He. }
  assert (Hpath : forall i j, cpath g i j -> nth j hs 0 < nth i hs 0).
  { intros i j Hp. induction Hp.
    - apply Hrank. auto.
    - apply Hrank in H0. lia. }
  intros i Hp. apply Hpath in Hp. lia.
Qed.

Theorem graph_ok_sound : forall g, graph_ok g = true ->
  (forall i p, In p (cparents (nth i g cdummy)) -> p < length g) /\
  (forall i, NoDup (cparents (nth i g cdummy))) /\
  (forall i, ~ cpath g i i).
Proof.
  intros g H. unfold graph_ok in H. apply andb_true_iff in H. destruct H as (H1 & H2).
  destruct (wf_b_sound g H1). split; [|split]; auto. apply acyclic_b_sound. auto.
Qed.
