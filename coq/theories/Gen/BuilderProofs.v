(* Main theorems about the builder model: totality of every call sequence, the heap invariants
   (closed, duplicate-free parent lists, acyclic) after every call sequence, purity of
   to_nodes / build / merge on everything that existed before, and the shape of repeated builds. *)
From Coq Require Import String List Arith Bool Lia ZArith.
From GolemV Require Import Gen.Builder Gen.BuilderLemmas Gen.BuilderDfs Gen.BuilderCopy Gen.BuilderOps
  Gen.BuilderMerge.
Import ListNotations.

Definition heads_ok (h : heap) (bs : list (list ref)) : Prop := forall hs, In hs bs -> refs_ok h hs.
Definition inv (st : state) : Prop := hinv (s_heap st) /\ heads_ok (s_heap st) (s_bs st).

Lemma inv_init : forall k, inv (init k).
Proof.
  intros k. split.
  - split; [|split].
    + intros c p H. unfold edge, parents, get in H. simpl in H. destruct c; destruct H.
    + intros r. unfold parents, get. simpl. destruct r; constructor.
    + intros x (y & H & _). unfold edge, parents, get in H. simpl in H. destruct x; destruct H.
  - intros hs Hin. simpl in Hin. apply repeat_spec in Hin. subst. intros r [].
Qed.

Lemma heads_ok_mono : forall h h' bs, length h <= length h' -> heads_ok h bs -> heads_ok h' bs.
Proof. intros h h' bs Hl H hs Hin. eapply refs_ok_mono; eauto. Qed.

Lemma heads_of_ok : forall st b, inv st -> refs_ok (s_heap st) (heads_of st b).
Proof.
  intros st b (_ & Hh). unfold heads_of. destruct (Nat.lt_ge_cases b (length (s_bs st))).
  - apply Hh. apply nth_In. auto.
  - rewrite nth_overflow by auto. intros r [].
Qed.

Lemma put_inv : forall st b s, inv st -> bok s -> length (s_heap st) <= length (fst s) -> inv (put st b s).
Proof.
  intros st b s (_ & Hh) (Hi & Hr) Hl. split; simpl; auto.
  intros hs Hin. apply set_nth_In in Hin. destruct Hin as [->|Hin]; auto.
  eapply refs_ok_mono; eauto.
Qed.

Definition grows (st st' : state) : Prop := length (s_heap st) <= length (s_heap st').

Lemma stay_ok : forall st, inv st ->
  exists st' r, @Ok (state * retv) (st, RNone) = Ok (st', r) /\ inv st' /\ grows st st'.
Proof. intros st H. exists st, RNone. split; [reflexivity|]. split; [auto|]. unfold grows. auto. Qed.

Lemma on_builder_ok : forall st b f, pres f -> inv st ->
  exists st' r, on_builder st b f = Ok (st', r) /\ inv st' /\ grows st st'.
Proof.
  intros st b f Hf Hinv. unfold on_builder. destruct (valid_b st b).
  - assert (Hb : bok (s_heap st, heads_of st b)).
    { split; [apply Hinv|apply heads_of_ok; auto]. }
    destruct (Hf _ Hb) as (Hb' & Hl). eexists. eexists. split; [reflexivity|].
    split; [apply put_inv; auto|]. unfold grows. simpl in *. auto.
  - apply stay_ok; auto.
Qed.

Lemma same_bs_inv : forall st h', inv st -> hinv h' -> length (s_heap st) <= length h' ->
  inv (mkState h' (s_bs st)).
Proof. intros st h' (_ & Hh) Hi Hl. split; simpl; auto. eapply heads_ok_mono; eauto. Qed.

(* one call: never an exception, invariants kept, heap only grows *)
Lemma step_ok : forall st c, inv st ->
  exists st' r, step st c = Ok (st', r) /\ inv st' /\ grows st st'.
Proof.
  intros st c Hinv. assert (Hinv' := Hinv). destruct Hinv' as (Hi & Hh).
  destruct c; cbn [step].
  - apply on_builder_ok; auto. apply pres_add_node.
  - apply on_builder_ok; auto. apply pres_add_sequence.
  - apply on_builder_ok; auto. apply pres_grow_branches.
  - apply on_builder_ok; auto. apply pres_add_branch.
  - destruct (valid_b st b).
    + assert (Hb : bok (s_heap st, heads_of st b)) by (split; [auto|apply heads_of_ok; auto]).
      destruct (add_skip_ok b1 b2 n1 n2 _ Hb) as (s' & -> & Hb' & Hl & _).
      eexists. eexists. split; [reflexivity|]. simpl in Hl.
      split; [apply put_inv; auto; lia|]. unfold grows. simpl. lia.
    + apply stay_ok; auto.
  - apply on_builder_ok; auto. apply pres_join.
  - destruct (valid_b st b).
    + eexists. eexists. split; [reflexivity|]. split.
      * apply put_inv; auto. split; simpl; auto. intros r [].
      * unfold grows. simpl. auto.
    + apply stay_ok; auto.
  - destruct (valid_b st b).
    + pose proof (heads_of_ok st b Hinv) as Hr.
      destruct (deepcopy_total _ _ Hi Hr) as (h' & ns & E). rewrite E.
      destruct (deepcopy_hinv _ _ _ _ Hi Hr E) as (Hi' & Hl & _).
      eexists. eexists. split; [reflexivity|]. split; [apply same_bs_inv; auto|]. unfold grows. simpl. auto.
    + apply stay_ok; auto.
  - destruct (valid_b st b).
    + assert (Hb : bok (s_heap st, heads_of st b)) by (split; [auto|apply heads_of_ok; auto]).
      destruct (build_ok _ Hb) as (h' & og & -> & Hi' & Hl & _). simpl in Hl.
      destruct og; eexists; eexists; (split; [reflexivity|]); (split; [apply same_bs_inv; auto|]);
        unfold grows; simpl; auto.
    + apply stay_ok; auto.
  - destruct (valid_b st b1 && valid_b st b2).
    + destruct (merge_ok _ _ _ Hi (heads_of_ok st b1 Hinv) (heads_of_ok st b2 Hinv))
        as (h' & r & -> & Hi' & Hl & _ & Hnew).
      destruct r; eexists; eexists; (split; [reflexivity|]);
        try (split; [apply same_bs_inv; auto|unfold grows; simpl; auto]).
      split; [|unfold grows; simpl; auto].
      split; simpl; auto. intros hs Hin. apply in_app_or in Hin. destruct Hin as [Hin|[<-|[]]].
      * eapply refs_ok_mono; eauto.
      * apply Hnew. auto.
    + apply stay_ok; auto.
Qed.

(* ------------------------------------------------------------------ (1) builder_total, (2) invariants *)
Theorem run_ok : forall cs st, inv st -> exists st' rs, run st cs = Ok (st', rs) /\ inv st'.
Proof.
  induction cs as [|c cs IH]; intros st Hinv; simpl.
  - exists st, []. auto.
  - destruct (step_ok st c Hinv) as (st1 & r & -> & Hinv1 & _).
    destruct (IH st1 Hinv1) as (st2 & rs & -> & Hinv2). eauto.
Qed.

Theorem builder_total : forall k cs, exists st' rs, run (init k) cs = Ok (st', rs).
Proof. intros k cs. destruct (run_ok cs (init k) (inv_init k)) as (st' & rs & H & _). eauto. Qed.

(* the cells a builder can reach *)
Definition reachable (st : state) (b : nat) (x : ref) : Prop :=
  exists r, In r (heads_of st b) /\ reach (s_heap st) r x.

(* well-formed: references valid, the reachable part is closed under parents by definition of
   reach, no parent listed twice; acyclic: no cell reaches itself along parent edges *)
Definition wf_acyclic (st : state) : Prop :=
  forall b x, reachable st b x ->
    x < length (s_heap st) /\
    NoDup (parents (s_heap st) x) /\
    (forall p, edge (s_heap st) x p -> reachable st b p /\ p < length (s_heap st)) /\
    ~ reachp (s_heap st) x x.

Lemma inv_wf_acyclic : forall st, inv st -> wf_acyclic st.
Proof.
  intros st Hinv b x (r & Hr & Hre). assert (Hv := heads_of_ok st b Hinv r Hr).
  destruct Hinv as ((Hc & Hn & Ha) & _). split; [|split; [|split]]; auto.
  - eapply reach_valid; eauto.
  - intros p He. split; [|eapply Hc; eauto]. exists r. split; auto. eapply reach_step; eauto.
Qed.

Theorem builder_wf_acyclic : forall k cs st' rs, run (init k) cs = Ok (st', rs) -> wf_acyclic st'.
Proof.
  intros k cs st' rs H. destruct (run_ok cs (init k) (inv_init k)) as (st2 & rs2 & H2 & Hinv).
  rewrite H in H2. inversion H2; subst. apply inv_wf_acyclic. auto.
Qed.

(* ------------------------------------------------------------------ pure calls do not touch what existed *)
Definition untouched (st st' : state) : Prop :=
  (forall x, x < length (s_heap st) -> get (s_heap st') x = get (s_heap st) x) /\
  (exists extra, s_bs st' = s_bs st ++ extra).

Lemma step_pure_untouched : forall st c st' r, inv st -> pure_call c = true ->
  step st c = Ok (st', r) -> untouched st st'.
Proof.
  intros st c st' r Hinv Hp H. assert (Hinv' := Hinv). destruct Hinv' as (Hi & Hh).
  assert (Hid : untouched st st) by (split; [auto|exists []; rewrite app_nil_r; auto]).
  destruct c; simpl in Hp; try discriminate; cbn [step] in H.
  - destruct (valid_b st b); [|inversion H; subst; auto].
    pose proof (heads_of_ok st b Hinv) as Hr.
    destruct (deepcopy (s_heap st) (heads_of st b)) as [(h' & ns)|] eqn:E; [|discriminate].
    destruct (deepcopy_hinv _ _ _ _ Hi Hr E) as (_ & _ & Hf & _).
    inversion H; subst. split; simpl; auto. exists []. rewrite app_nil_r. auto.
  - destruct (valid_b st b); [|inversion H; subst; auto].
    assert (Hb : bok (s_heap st, heads_of st b)) by (split; [auto|apply heads_of_ok; auto]).
    destruct (build_ok _ Hb) as (h' & og & E & _ & _ & Hf & _). rewrite E in H.
    destruct og; inversion H; subst; (split; simpl; auto; exists []; rewrite app_nil_r; auto).
  - destruct (valid_b st b1 && valid_b st b2); [|inversion H; subst; auto].
    destruct (merge_ok _ _ _ Hi (heads_of_ok st b1 Hinv) (heads_of_ok st b2 Hinv))
      as (h' & mr & E & _ & _ & Hf & _). rewrite E in H.
    destruct mr; inversion H; subst; split; simpl; auto.
    + exists []. rewrite app_nil_r. auto.
    + exists []. rewrite app_nil_r. auto.
    + exists []. rewrite app_nil_r. auto.
    + exists [heads]. auto.
Qed.

(* consequence: every builder that existed keeps its heads and every cell it could reach *)
Lemma untouched_reachable : forall st st' b x, inv st -> untouched st st' -> b < length (s_bs st) ->
  heads_of st' b = heads_of st b /\
  (reachable st b x -> reachable st' b x /\ get (s_heap st') x = get (s_heap st) x).
Proof.
  intros st st' b x Hinv (Hf & extra & Hbs) Hb.
  assert (Hh : heads_of st' b = heads_of st b).
  { unfold heads_of. rewrite Hbs. apply app_nth1. auto. }
  split; auto. intros (r & Hr & Hre).
  assert (Hrv := heads_of_ok st b Hinv r Hr). destruct Hinv as ((Hc & _) & _).
  assert (Hxv : x < length (s_heap st)) by (eapply reach_valid; eauto).
  split; auto. exists r. rewrite Hh. split; auto.
  apply (reach_transfer (s_heap st) (s_heap st') (fun z => z < length (s_heap st))); auto.
  - apply below_pclosed. auto.
  - intros z Hz. unfold parents. rewrite Hf; auto.
Qed.

(* merging two builders leaves both inputs unchanged *)
Theorem merge_inputs_unchanged : forall st b1 b2 st' r x,
  inv st -> b1 < length (s_bs st) -> b2 < length (s_bs st) ->
  step st (Merge b1 b2) = Ok (st', r) ->
  (heads_of st' b1 = heads_of st b1 /\ heads_of st' b2 = heads_of st b2) /\
  (reachable st b1 x \/ reachable st b2 x ->
   get (s_heap st') x = get (s_heap st) x /\ (reachable st b1 x -> reachable st' b1 x) /\
   (reachable st b2 x -> reachable st' b2 x)).
Proof.
  intros st b1 b2 st' r x Hinv H1 H2 H.
  pose proof (step_pure_untouched st (Merge b1 b2) st' r Hinv eq_refl H) as Hu.
  destruct (untouched_reachable st st' b1 x Hinv Hu H1) as (Hh1 & Hr1).
  destruct (untouched_reachable st st' b2 x Hinv Hu H2) as (Hh2 & Hr2).
  split; auto. intros Hor. split; [destruct Hor as [Ho|Ho]; [apply Hr1|apply Hr2]; auto|].
  split; intros Hre; [apply Hr1|apply Hr2]; auto.
Qed.

(* ------------------------------------------------------------------ (3) repeated builds *)
(* the shape of one build: the graph is the image of the closure rs of the heads under the
   second copy map; cells of the image are the relabelled originals *)
Lemma build_shape : forall h hs h2 g, hinv h -> refs_ok h hs -> build_f (h, hs) = Ok (h2, Some g) ->
  exists rs, lg_nodes (fuel_of h) h hs = Ok rs /\ rs <> [] /\
    length h2 = length h + 2 * length rs /\
    let f := fun r => length h + length rs + index_of r rs in
    g = map f rs /\ (forall r, In r rs -> get h2 (f r) = shift_node f (get h r)) /\
    (forall x, x < length h -> get h2 x = get h x).
Proof.
  intros h hs h2 g Hi Hr H. simpl in H.
  destruct (deepcopy h hs) as [(h1 & ns1)|] eqn:E1; [|discriminate].
  destruct (deepcopy_inv _ _ _ _ E1) as (rs & Ers & -> & ->).
  destruct (deepcopy_hinv _ _ _ _ Hi Hr E1) as (Hi1 & L1 & F1 & R1 & C1).
  set (h1 := h ++ copy_cells h rs) in *.
  destruct (map (copy_map h rs) hs) eqn:Ens; [discriminate|]. clear Ens.
  assert (Hr1 : refs_ok h1 hs) by (eapply refs_ok_mono; eauto).
  destruct (deepcopy h1 hs) as [(h2' & ns2)|] eqn:E2; [|discriminate].
  destruct (deepcopy_inv _ _ _ _ E2) as (rs' & Ers' & -> & ->).
  destruct Hi as (Hc & Hn & Ha).
  (* the closure computed in h1 is the one computed in h *)
  assert (Hext : forall fuel, lg_nodes fuel h1 hs = lg_nodes fuel h hs).
  { intros fuel. apply lg_nodes_ext with (P := fun z => z < length h); auto.
    - apply below_pclosed. auto.
    - intros z Hz. unfold parents. rewrite F1; auto. }
  assert (Efuel : forall fuel, fuel_of h <= fuel -> lg_nodes fuel h hs = Ok rs).
  { intros fuel Hle. eapply lg_nodes_mono; eauto. }
  assert (Hl1 : length h1 = length h + length rs).
  { unfold h1. rewrite app_length, copy_cells_length. auto. }
  assert (rs' = rs).
  { rewrite Hext, Efuel in Ers' by (unfold fuel_of; lia). inversion Ers'. auto. }
  subst rs'.
  pose proof (lg_nodes_facts _ _ _ _ Ers) as (Hincl & Hnd & _ & Hcl).
  assert (Hval : forall x, In x rs -> x < length h) by (eapply lg_nodes_valid; eauto).
  assert (Hval1 : forall x, In x rs -> x < length h1) by (intros x Hx; apply Hval in Hx; lia).
  assert (Hcl1 : forall x p, In x rs -> edge h1 x p -> In p rs).
  { intros x p Hx He. unfold edge, parents in He. rewrite F1 in He by auto. eapply Hcl; eauto. }
  set (k2 := h1 ++ copy_cells h1 rs) in *.
  assert (Hl2 : length k2 = length h1 + length rs).
  { unfold k2. rewrite app_length, copy_cells_length. auto. }
  unfold k2 in H. rewrite (lg_nodes_copy h1 rs Hcl1) in H by auto.
  rewrite Hext, Efuel in H by (fold k2; unfold fuel_of; lia). simpl in H. inversion H; subst h2 g. clear H.
  fold k2. exists rs. split; [auto|]. split.
  { intros ->. destruct hs; [|specialize (Hincl n0 (or_introl eq_refl)); destruct Hincl].
    simpl in E2. discriminate. }
  split; [lia|].
  assert (Hf : forall r, copy_map h1 rs r = length h + length rs + index_of r rs).
  { intros r. unfold copy_map. lia. }
  split; [apply map_ext; auto|]. split.
  - intros r Hin. rewrite <- Hf. unfold k2. rewrite (copy_new h1 rs) by auto. rewrite F1 by auto.
    unfold shift_node. f_equal. apply map_ext. auto.
  - intros x Hx. unfold k2. rewrite get_app_old by lia. auto.
Qed.

(* two builds in a row *)
Theorem build_twice : forall st b st1 g1 st2 g2, inv st ->
  step st (Build b) = Ok (st1, RGraph g1) -> step st1 (Build b) = Ok (st2, RGraph g2) ->
  let h := s_heap st in let h1 := s_heap st1 in let h2 := s_heap st2 in
  (* the builders are untouched *)
  s_bs st2 = s_bs st /\ (forall x, x < length h -> get h2 x = get h x) /\
  (* fresh: both graphs consist of cells allocated by their own build *)
  (forall x, In x g1 -> length h <= x < length h1) /\
  (forall x, In x g2 -> length h1 <= x < length h2) /\
  (* the first graph is not touched by the second build *)
  (forall x, x < length h1 -> get h2 x = get h1 x) /\
  (* equal: the second graph is the first one moved by a constant offset d, cell by cell *)
  exists d, 0 < d /\ g2 = map (fun a => a + d) g1 /\
    forall a, In a g1 -> get h2 (a + d) = shift_node (fun p => p + d) (get h2 a).
Proof.
  intros st b st1 g1 st2 g2 Hinv H1 H2. simpl.
  assert (Hinv' := Hinv). destruct Hinv' as (Hi & Hh).
  cbn [step] in H1. destruct (valid_b st b) eqn:Eb; [|discriminate].
  assert (Hr := heads_of_ok st b Hinv).
  assert (Hb : bok (s_heap st, heads_of st b)) by (split; auto).
  destruct (build_ok _ Hb) as (h1 & og & E1 & Hi1 & L1 & F1 & R1). rewrite E1 in H1.
  destruct og as [g|]; inversion H1; subst st1 g. clear H1.
  cbn [step] in H2. unfold valid_b in H2, Eb. cbn [s_bs s_heap] in H2. rewrite Eb in H2.
  unfold heads_of in H2. cbn [s_bs s_heap] in H2. fold (heads_of st b) in H2.
  assert (Hr1 : refs_ok h1 (heads_of st b)) by (eapply refs_ok_mono; eauto).
  assert (Hb1 : bok (h1, heads_of st b)) by (split; auto).
  destruct (build_ok _ Hb1) as (h2 & og & E2 & Hi2 & L2 & F2 & R2). rewrite E2 in H2.
  destruct og as [g|]; inversion H2; subst st2 g. clear H2. simpl in *.
  destruct (build_shape _ _ _ _ Hi Hr E1) as (rs & Ers & Hne & Hl1 & Eg1 & Hc1 & _).
  destruct (build_shape _ _ _ _ Hi1 Hr1 E2) as (rs' & Ers' & _ & Hl2 & Eg2 & Hc2 & _).
  assert (rs' = rs).
  { destruct Hi as (Hc & _).
    assert (Hext : lg_nodes (fuel_of h1) h1 (heads_of st b) = lg_nodes (fuel_of h1) (s_heap st) (heads_of st b)).
    { apply lg_nodes_ext with (P := fun z => z < length (s_heap st)); auto.
      - apply below_pclosed. auto.
      - intros z Hz. unfold parents. rewrite F1; auto. }
    rewrite Hext in Ers'.
    rewrite (lg_nodes_mono (fuel_of (s_heap st)) (fuel_of h1) _ _ _ ltac:(unfold fuel_of; lia) Ers) in Ers'.
    inversion Ers'. auto. }
  subst rs'.
  assert (Hval : forall x, In x rs -> x < length (s_heap st)).
  { destruct Hi as (Hc & _). eapply lg_nodes_valid; eauto. }
  split; [auto|]. split; [intros x Hx; rewrite F2 by lia; auto|].
  split; [apply R1; auto|]. split; [apply R2; auto|]. split; [auto|].
  exists (2 * length rs). split.
  { destruct rs; [congruence|simpl; lia]. }
  split.
  - rewrite Eg2, Eg1, map_map. apply map_ext. intros a. lia.
  - intros a Ha. rewrite Eg1 in Ha. apply in_map_iff in Ha. destruct Ha as (r & <- & Hin).
    replace (length (s_heap st) + length rs + index_of r rs + 2 * length rs)
      with (length h1 + length rs + index_of r rs) by lia.
    rewrite Hc2 by auto. rewrite F2 by (rewrite Hl1; pose proof (index_of_lt r rs Hin); lia).
    rewrite Hc1 by auto. rewrite F1 by auto.
    unfold shift_node. simpl. f_equal. rewrite map_map. apply map_ext. intros p. lia.
Qed.
