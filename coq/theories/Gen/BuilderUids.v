(* Node uids are pairwise distinct inside everything one builder reaches - after every call
   sequence, merges (also of a builder with itself) included - and distinct builders never
   share a cell. *)
From Coq Require Import String List Arith Bool Lia ZArith.
From GolemV Require Import Gen.Builder Gen.BuilderLemmas Gen.BuilderDfs Gen.BuilderCopy Gen.BuilderOps
  Gen.BuilderMerge Gen.BuilderProofs.
Import ListNotations.

Definition uid_of (h : heap) (x : ref) : nat := n_uid (get h x).
Definition uid_bound (h : heap) : Prop := forall x, x < length h -> uid_of h x < 2 * length h.
Definition uid_inj (h : heap) (P : ref -> Prop) : Prop :=
  forall x y, P x -> P y -> uid_of h x = uid_of h y -> x = y.

Lemma uid_set_parents : forall h c ps x, uid_of (set_parents h c ps) x = uid_of h x.
Proof.
  intros. unfold uid_of. destruct (Nat.eq_dec x c) as [->|Hne]; [|rewrite get_set_other; auto].
  unfold set_parents, get. destruct (Nat.lt_ge_cases c (length h)).
  - rewrite set_nth_same; auto.
  - rewrite !nth_overflow; auto. rewrite set_nth_length. auto.
Qed.

(* ------------------------------------------------------------------ one builder, allocating operations *)
Definition good (U : ref -> Prop) (s : bstate) : Prop :=
  (forall r, In r (snd s) -> U r) /\ pclosed (fst s) U /\ (forall x, U x -> x < length (fst s)) /\
  uid_inj (fst s) U /\ uid_bound (fst s).

Definition lpres (f : bstate -> bstate) : Prop :=
  forall s U, bok s -> good U s ->
    exists U', good U' (f s) /\ (forall x, U' x -> U x \/ length (fst s) <= x) /\ (forall x, U x -> U' x) /\
      (forall x, x < length (fst s) -> get (fst (f s)) x = get (fst s) x).

Lemma lpres_id : lpres (fun s => s).
Proof. intros s U Hb Hg. exists U. repeat split; auto; apply Hg. Qed.

Lemma lpres_comp : forall f g, pres f -> lpres f -> lpres g -> lpres (fun s => g (f s)).
Proof.
  intros f g Hpf Hf Hg s U Hb Hgood.
  destruct (Hf s U Hb Hgood) as (U1 & G1 & S1 & M1 & F1).
  destruct (Hpf s Hb) as (Hb1 & L1).
  destruct (Hg (f s) U1 Hb1 G1) as (U2 & G2 & S2 & M2 & F2).
  exists U2. split; auto. split; [|split].
  - intros x Hx. destruct (S2 x Hx) as [H|H]; [|right; lia]. apply S1. auto.
  - auto.
  - intros x Hx. rewrite F2 by lia. auto.
Qed.

Lemma lpres_fold : forall A (F : bstate -> A -> bstate) (l : list A),
  (forall a, pres (fun s => F s a)) -> (forall a, lpres (fun s => F s a)) -> lpres (fun s => fold_left F l s).
Proof.
  intros A F l HP HF. induction l as [|a l IH]; simpl; [apply lpres_id|].
  apply (lpres_comp (fun s => F s a) (fun s => fold_left F l s)); auto.
Qed.

Local Opaque alloc.

(* a new cell whose parents lie in U *)
Lemma good_alloc : forall U h hs nm pr ps h' r hs',
  hinv h -> good U (h, hs) -> (forall p, In p ps -> U p) -> alloc h nm pr ps = (h', r) ->
  (forall x, In x hs' -> U x \/ x = r) ->
  good (fun x => U x \/ x = length h) (h', hs') /\ r = length h /\
  (forall x, x < length h -> get h' x = get h x) /\ length h' = S (length h).
Proof.
  intros U h hs nm pr ps h' r hs' Hi (Hh & Hc & Hv & Hinj & Hb) Hps Ea Hhs'. simpl in *.
  assert (Hps' : refs_ok h ps) by (intros p Hp; apply Hv; auto).
  destruct (alloc_ok _ _ _ _ _ _ Hi Hps' Ea) as (_ & Hl & -> & Hold & Hpn).
  assert (Huid_new : uid_of h' (length h) = 2 * length h).
  { Local Transparent alloc. unfold alloc in Ea. inversion Ea; subst h'. unfold uid_of.
    rewrite get_app_here. reflexivity. }
  Local Opaque alloc.
  assert (Huid_old : forall x, x < length h -> uid_of h' x = uid_of h x).
  { intros x Hx. unfold uid_of. rewrite Hold; auto. }
  split; [|auto]. split; [|split; [|split; [|split]]]; simpl.
  - intros x Hx. destruct (Hhs' x Hx); auto.
  - intros x p [Hx| ->] He.
    + left. unfold edge, parents in He. rewrite Hold in He by auto. apply (Hc x p Hx He).
    + left. unfold edge in He. rewrite Hpn in He. apply (proj1 (uniq_In _ _)) in He. auto.
  - intros x [Hx| ->]; [apply Hv in Hx|]; lia.
  - intros x y [Hx| ->] [Hy| ->] E; auto.
    + rewrite !Huid_old in E by auto. auto.
    + rewrite Huid_new in E. rewrite (Huid_old x) in E by auto. pose proof (Hb x (Hv x Hx)). lia.
    + rewrite Huid_new in E. rewrite (Huid_old y) in E by auto. pose proof (Hb y (Hv y Hy)). lia.
  - intros x Hx. rewrite Hl in *. destruct (Nat.eq_dec x (length h)) as [->|Hne].
    + rewrite Huid_new. lia.
    + rewrite Huid_old by lia. pose proof (Hb x ltac:(lia)). lia.
Qed.

Lemma lpres_add_node : forall op idx pr, lpres (add_node_f op idx pr).
Proof.
  intros op idx pr (h, hs) U Hb Hg. destruct op as [nm|]; [|apply (lpres_id (h, hs)); auto].
  assert (Hb' := Hb). destruct Hb' as (Hi & Hr). assert (Hg' := Hg). destruct Hg' as (Hh & _). simpl in *.
  destruct (norm_idx (length hs) idx) as [i|] eqn:En.
  - apply norm_idx_lt in En.
    destruct (alloc h (Some nm) pr [nth i hs 0]) as (h', r) eqn:Ea.
    destruct (good_alloc U h hs (Some nm) pr [nth i hs 0] h' r (set_nth i r hs) Hi Hg) as (G & -> & F & L).
    + intros p [<-|[]]. apply Hh. apply nth_In. auto.
    + exact Ea.
    + intros x Hx. apply set_nth_In in Hx. destruct Hx; auto.
    + exists (fun x => U x \/ x = length h). simpl. repeat split; auto; try apply G.
      intros x [Hx| ->]; auto.
  - destruct (alloc h (Some nm) pr []) as (h', r) eqn:Ea.
    destruct (good_alloc U h hs (Some nm) pr [] h' r (hs ++ [r]) Hi Hg) as (G & -> & F & L).
    + intros p [].
    + exact Ea.
    + intros x Hx. apply in_app_or in Hx. destruct Hx as [Hx|[<-|[]]]; auto.
    + exists (fun x => U x \/ x = length h). simpl. repeat split; auto; try apply G.
      intros x [Hx| ->]; auto.
Qed.

Lemma lpres_add_op : forall o idx, lpres (add_op_f o idx).
Proof. intros o idx. unfold add_op_f. destruct (unpack o). apply lpres_add_node. Qed.

Lemma lpres_add_sequence : forall ops idx, lpres (add_sequence_f ops idx).
Proof.
  intros. unfold add_sequence_f. apply lpres_fold; intros; [apply pres_add_op|apply lpres_add_op].
Qed.

Lemma lpres_grow_from : forall ops i, lpres (grow_from i ops).
Proof.
  induction ops as [|o ops IH]; simpl; intros i; [apply lpres_id|].
  apply (lpres_comp (add_op_f o (Z.of_nat i)) (grow_from (S i) ops)); auto.
  - apply pres_add_op.
  - apply lpres_add_op.
Qed.

Lemma add_branch_ins_good : forall ops input pos s U, bok s -> good U s -> U input ->
  exists U', good U' (add_branch_ins ops input pos s) /\
    (forall x, U' x -> U x \/ length (fst s) <= x) /\ (forall x, U x -> U' x) /\
    (forall x, x < length (fst s) -> get (fst (add_branch_ins ops input pos s)) x = get (fst s) x).
Proof.
  induction ops as [|o ops IH]; simpl; intros input pos (h, hs) U Hb Hg Hin.
  - exists U. repeat split; auto; apply Hg.
  - destruct (unpack o) as (nm, p). assert (Hb' := Hb). destruct Hb' as (Hi & Hr). simpl in *.
    destruct (alloc h nm p [input]) as (h', r) eqn:Ea.
    destruct (good_alloc U h hs nm p [input] h' r (insert_z pos r hs) Hi Hg) as (G & -> & F & L).
    + intros q [<-|[]]. auto.
    + exact Ea.
    + intros x Hx. apply insert_z_In in Hx. destruct Hx as [->|Hx]; auto. left. apply Hg. auto.
    + assert (Hb1 : bok (h', insert_z pos (length h) hs)).
      { assert (Hv : refs_ok h [input]) by (intros q [<-|[]]; apply Hg; auto).
        destruct (alloc_ok _ _ _ _ _ _ Hi Hv Ea) as (Hi' & _). split; auto. simpl.
        intros x Hx. apply insert_z_In in Hx. rewrite L. destruct Hx as [->|Hx]; [lia|]. apply Hr in Hx. lia. }
      destruct (IH input (pos + 1)%Z _ _ Hb1 G (or_introl Hin)) as (U2 & G2 & S2 & M2 & F2).
      exists U2. split; auto. simpl in *. split; [|split].
      * intros x Hx. destruct (S2 x Hx) as [[H| ->]|H]; auto; right; lia.
      * intros x Hx. apply M2. auto.
      * intros x Hx. rewrite F2 by lia. auto.
Qed.

Lemma lpres_add_branch : forall ops idx, lpres (add_branch_f ops idx).
Proof.
  intros ops idx (h, hs) U Hb Hg. unfold add_branch_f.
  destruct (filter truthy ops) as [|o ops'] eqn:Ef; [apply (lpres_id (h, hs)); auto|].
  destruct (norm_idx (length hs) idx) as [i|] eqn:En.
  - apply norm_idx_lt in En. destruct Hb as (Hi & Hr). cbn [fst snd] in *.
    destruct (add_branch_ins_good (o :: ops') (nth i hs 0) idx (h, remove_at i hs) U) as (U' & HU); auto.
    + split; auto. intros x Hx. apply remove_at_In in Hx. auto.
    + destruct Hg as (Hh & Hrest). split; auto. intros x Hx. apply remove_at_In in Hx. apply Hh. auto.
    + apply Hg. apply nth_In. auto.
    + exists U'. exact HU.
  - apply (lpres_fold operation (fun s o => add_op_f o (Z.of_nat (length (snd s))) s) (o :: ops')); auto.
    + intros a s Hs. apply pres_add_op. auto.
    + intros a s U0 Hs HG. apply lpres_add_op; auto.
Qed.

Lemma lpres_join : forall op pr, lpres (join_f op pr).
Proof.
  intros op pr (h, hs) U Hb Hg. assert (Hid := lpres_id (h, hs) U Hb Hg).
  assert (Hb' := Hb). destruct Hb' as (Hi & Hr). simpl in *.
  destruct hs as [|x hs]; [auto|]. destruct op as [nm|]; [|auto]. destruct (String.eqb nm ""); [auto|].
  destruct (alloc h (Some nm) pr (x :: hs)) as (h', r) eqn:Ea.
  destruct (good_alloc U h (x :: hs) (Some nm) pr (x :: hs) h' r [r] Hi Hg) as (G & -> & F & L).
  - intros p Hp. apply Hg. auto.
  - exact Ea.
  - intros y [<-|[]]. auto.
  - exists (fun y => U y \/ y = length h). simpl. repeat split; auto; try apply G.
    intros y [Hy| ->]; auto.
Qed.

(* ------------------------------------------------------------------ the state invariant *)
Definition uinv (st : state) : Prop :=
  uid_bound (s_heap st) /\
  (forall b, uid_inj (s_heap st) (reachable st b)) /\
  (forall b b' x, b <> b' -> reachable st b x -> reachable st b' x -> False).

Lemma uinv_init : forall k, uinv (init k).
Proof.
  intros k.
  assert (Hno : forall b x, ~ reachable (init k) b x).
  { intros b x (r & Hr & _). unfold heads_of, init in Hr. simpl in Hr.
    destruct (Nat.lt_ge_cases b k).
    - assert (In (nth b (repeat (@nil nat) k) []) (repeat [] k)) by (apply nth_In; rewrite repeat_length; auto).
      apply repeat_spec in H0. rewrite H0 in Hr. destruct Hr.
    - rewrite nth_overflow in Hr by (rewrite repeat_length; auto). destruct Hr. }
  split; [|split].
  - intros x Hx. simpl in Hx. lia.
  - intros b x y Hx. exfalso. eapply Hno; eauto.
  - intros b b' x _ Hx. eapply Hno; eauto.
Qed.

Lemma reachable_valid : forall st b x, inv st -> reachable st b x -> x < length (s_heap st).
Proof.
  intros st b x Hinv (r & Hr & Hre). assert (Hv := heads_of_ok st b Hinv r Hr).
  destruct Hinv as ((Hc & _) & _). eapply reach_valid; eauto.
Qed.

(* cells below the old heap length unchanged: paths from old cells are the old paths *)
Lemma reach_frame : forall h h' r x, closed h -> length h <= length h' ->
  (forall z, z < length h -> get h' z = get h z) -> r < length h ->
  (reach h' r x <-> reach h r x).
Proof.
  intros h h' r x Hc Hl Hf Hr.
  assert (Hp : forall z, z < length h -> parents h' z = parents h z) by (intros; unfold parents; rewrite Hf; auto).
  split; intros H.
  - apply (reach_transfer h' h (fun z => z < length h)); auto.
    + intros a b Ha Hb. unfold edge in Hb. rewrite Hp in Hb by auto. apply (Hc a b Hb).
    + intros z Hz. symmetry. auto.
  - apply (reach_transfer h h' (fun z => z < length h)); auto. apply below_pclosed. auto.
Qed.

(* a builder whose heads did not change and whose heap only grew reaches what it reached *)
Lemma reachable_frame : forall st st' b x, inv st -> length (s_heap st) <= length (s_heap st') ->
  (forall z, z < length (s_heap st) -> get (s_heap st') z = get (s_heap st) z) ->
  heads_of st' b = heads_of st b -> (reachable st' b x <-> reachable st b x).
Proof.
  intros st st' b x Hinv Hl Hf Hh. assert (Hc : closed (s_heap st)) by apply Hinv.
  split; intros (r & Hr & Hre).
  - rewrite Hh in Hr. exists r. split; auto.
    apply (reach_frame (s_heap st) (s_heap st') r x Hc Hl Hf); auto. eapply heads_of_ok; eauto.
  - exists r. rewrite Hh. split; auto.
    apply (reach_frame (s_heap st) (s_heap st') r x Hc Hl Hf); auto. eapply heads_of_ok; eauto.
Qed.

Lemma heads_of_put_same : forall st b s, valid_b st b = true -> heads_of (put st b s) b = snd s.
Proof.
  intros st b s Hv. unfold heads_of, put. simpl. apply set_nth_same. apply Nat.ltb_lt. auto.
Qed.

Lemma heads_of_put_other : forall st b s b', b' <> b -> heads_of (put st b s) b' = heads_of st b'.
Proof. intros. unfold heads_of, put. simpl. apply set_nth_other. auto. Qed.

(* the allocating operations on one builder *)
Lemma on_builder_uinv : forall st b f, pres f -> lpres f -> inv st -> uinv st -> valid_b st b = true ->
  uinv (put st b (f (s_heap st, heads_of st b))).
Proof.
  intros st b f Hp Hlp Hinv (Hub & Hinj & Hdis) Hvb.
  set (s := (s_heap st, heads_of st b)).
  assert (Hb : bok s) by (split; [apply Hinv|apply heads_of_ok; auto]).
  assert (Hc : closed (s_heap st)) by apply Hinv.
  assert (Hg : good (reachable st b) s).
  { split; [|split; [|split; [|split]]]; simpl; auto.
    - intros r Hr. exists r. split; auto. apply reach_refl.
    - intros x p (r & Hr & Hre) He. exists r. split; auto. eapply reach_step; eauto.
    - intros x Hx. eapply reachable_valid; eauto. }
  destruct (Hlp s _ Hb Hg) as (U' & (Hh' & Hc' & Hv' & Hinj' & Hb') & Hsub & _ & Hfr).
  destruct (Hp s Hb) as (_ & Hlen). simpl in Hlen, Hfr, Hsub.
  set (st' := put st b (f s)).
  assert (HU : forall x, reachable st' b x -> U' x).
  { intros x (r & Hr & Hre). unfold st' in Hr. rewrite heads_of_put_same in Hr by auto.
    apply (reach_pclosed (fst (f s)) U' r x); auto. }
  assert (Hother : forall b' x, b' <> b -> (reachable st' b' x <-> reachable st b' x)).
  { intros b' x Hne. apply reachable_frame; auto. unfold st'. apply heads_of_put_other. auto. }
  assert (Huid : forall x, x < length (s_heap st) -> uid_of (s_heap st') x = uid_of (s_heap st) x).
  { intros x Hx. unfold uid_of, st', put. simpl. rewrite Hfr; auto. }
  split; [exact Hb'|]. split.
  - intros b0 x y Hx Hy E. destruct (Nat.eq_dec b0 b) as [->|Hne].
    + apply (Hinj' x y); auto.
    + apply Hother in Hx; auto. apply Hother in Hy; auto.
      rewrite !Huid in E by (eapply reachable_valid; eauto). apply (Hinj b0 x y); auto.
  - intros b1 b2 x Hne H1 H2.
    assert (Hcase : forall c c', c <> b -> c' = b -> reachable st' c x -> reachable st' c' x -> False).
    { intros c c' Hc1 -> Hr1 Hr2. apply Hother in Hr1; auto. apply HU in Hr2.
      assert (Hxv := reachable_valid st c x Hinv Hr1).
      destruct (Hsub x Hr2) as [Hu|Hu]; [|lia]. apply (Hdis c b x); auto. }
    destruct (Nat.eq_dec b1 b) as [E1|E1]; destruct (Nat.eq_dec b2 b) as [E2|E2].
    + congruence.
    + apply (Hcase b2 b1); auto.
    + apply (Hcase b1 b2); auto.
    + apply Hother in H1; auto. apply Hother in H2; auto. apply (Hdis b1 b2 x); auto.
Qed.

(* the heap only grows and no builder changes (to_nodes, build, undefined merge) *)
Lemma uinv_extend : forall st h', inv st -> uinv st -> length (s_heap st) <= length h' ->
  (forall z, z < length (s_heap st) -> get h' z = get (s_heap st) z) -> uid_bound h' ->
  uinv (mkState h' (s_bs st)).
Proof.
  intros st h' Hinv (Hub & Hinj & Hdis) Hl Hf Hb'.
  assert (Hsame : forall b x, reachable (mkState h' (s_bs st)) b x <-> reachable st b x).
  { intros b x. apply reachable_frame; auto. }
  split; auto. split.
  - intros b x y Hx Hy E. apply Hsame in Hx. apply Hsame in Hy.
    unfold uid_of in E. simpl in E. rewrite !Hf in E by (eapply reachable_valid; eauto). apply (Hinj b x y); auto.
  - intros b b' x Hne H1 H2. apply Hsame in H1. apply Hsame in H2. apply (Hdis b b' x); auto.
Qed.

(* deepcopy keeps uids: the new cells carry uids of old cells *)
Lemma deepcopy_uid_bound : forall h roots h' ns, hinv h -> refs_ok h roots -> uid_bound h ->
  deepcopy h roots = Ok (h', ns) -> uid_bound h'.
Proof.
  intros h roots h' ns Hi Hr Hb H. destruct (deepcopy_inv _ _ _ _ H) as (rs & E & -> & ->).
  pose proof (lg_nodes_facts _ _ _ _ E) as (_ & Hnd & _ & _).
  assert (Hval : forall x, In x rs -> x < length h) by (destruct Hi as (Hc & _); eapply lg_nodes_valid; eauto).
  intros x Hx. rewrite app_length, copy_cells_length in *.
  destruct (Nat.lt_ge_cases x (length h)) as [Hlt|Hge].
  - unfold uid_of. rewrite get_app_old by auto. pose proof (Hb x Hlt). unfold uid_of in *. lia.
  - destruct (copy_new_addr h rs Hnd x) as (r & Hr' & ->).
    { rewrite app_length, copy_cells_length. lia. }
    unfold uid_of. rewrite (copy_new h rs) by auto. simpl. pose proof (Hb r (Hval r Hr')). unfold uid_of in *. lia.
Qed.

(* ------------------------------------------------------------------ calls that do not allocate *)
(* same uids, same heap size, every builder reaches a subset of what it reached *)
Lemma uinv_shrink : forall st st', uinv st ->
  length (s_heap st') = length (s_heap st) ->
  (forall x, uid_of (s_heap st') x = uid_of (s_heap st) x) ->
  (forall c x, reachable st' c x -> reachable st c x) -> uinv st'.
Proof.
  intros st st' (Hub & Hinj & Hdis) Hl Hu Hsub. split; [|split].
  - intros x Hx. rewrite Hu, Hl in *. auto.
  - intros b x y Hx Hy E. rewrite !Hu in E. apply (Hinj b x y); auto.
  - intros b b' x Hne H1 H2. apply (Hdis b b' x); auto.
Qed.

(* what a skip connection does: nothing, or one more parent f for a cell sn, both reachable *)
Lemma add_skip_shape : forall b1 b2 n1 n2 h hs s', hinv h -> refs_ok h hs ->
  add_skip_f b1 b2 n1 n2 (h, hs) = Ok s' ->
  s' = (h, hs) \/
  exists f sn, s' = (set_parents h sn (uappend (parents h sn) f), hs) /\
    (exists r, In r hs /\ reach h r f) /\ (exists r, In r hs /\ reach h r sn).
Proof.
  intros b1 b2 n1 n2 h hs s' Hi Hr H. unfold add_skip_f in H.
  destruct (norm_idx (length hs) b1) as [i1|] eqn:E1; [|inversion H; auto].
  destruct (norm_idx (length hs) b2) as [i2|] eqn:E2; [|inversion H; auto].
  apply norm_idx_lt in E1. apply norm_idx_lt in E2.
  assert (Hfrom : forall i n o, i < length hs -> node_from_branch h hs i n = Ok (Some o) ->
                                exists r, In r hs /\ reach h r o).
  { intros i n o Hi' Hn. unfold node_from_branch in Hn.
    destruct (lg_nodes (fuel_of h) h [nth i hs 0]) as [ns|] eqn:En; [|discriminate].
    destruct (norm_idx (length ns) n) as [j|] eqn:Ej; inversion Hn; subst o.
    apply norm_idx_lt in Ej. pose proof (lg_nodes_facts _ _ _ _ En) as (_ & _ & Hre & _).
    destruct (Hre (nth j ns 0) (nth_In _ _ Ej)) as (s & [<-|[]] & Hreach).
    exists (nth i hs 0). split; auto. apply nth_In. auto. }
  destruct (node_from_branch h hs i1 n1) as [fo|] eqn:F1; [|discriminate].
  destruct (node_from_branch h hs i2 n2) as [so|] eqn:F2; [|discriminate].
  destruct fo as [f|]; [|inversion H; auto]. destruct so as [sn|]; [|inversion H; auto].
  destruct (osh (fuel_of h) h f) as [anc|]; [|discriminate].
  destruct (negb (mem sn anc) && negb (mem f (parents h sn))); inversion H; auto.
  right. exists f, sn. split; auto. split; eauto.
Qed.

Lemma step_skip_uinv : forall st b b1 b2 n1 n2 st' r, inv st -> uinv st ->
  step st (AddSkip b b1 b2 n1 n2) = Ok (st', r) -> uinv st'.
Proof.
  intros st b b1 b2 n1 n2 st' r Hinv Hu H. cbn [step] in H.
  destruct (valid_b st b) eqn:Evb; [|inversion H; subst; auto].
  destruct (add_skip_f b1 b2 n1 n2 (s_heap st, heads_of st b)) as [s'|] eqn:E; [|discriminate].
  inversion H; subst st' r. clear H.
  assert (Hput_heads : forall c, heads_of (put st b (s_heap st, heads_of st b)) c = heads_of st c).
  { intros c. destruct (Nat.eq_dec c b) as [->|Hne].
    - rewrite heads_of_put_same; auto.
    - apply heads_of_put_other. auto. }
  destruct (add_skip_shape _ _ _ _ _ _ _ (proj1 Hinv) (heads_of_ok st b Hinv) E)
    as [->|(f & sn & -> & (rf & Hrf & Hreachf) & (rs & Hrs & Hreachs))].
  - apply (uinv_shrink st); auto. intros c x (r0 & Hr0 & Hre). rewrite Hput_heads in Hr0. exists r0. auto.
  - assert (Hf : reachable st b f) by (exists rf; auto).
    assert (Hs : reachable st b sn) by (exists rs; auto).
    apply (uinv_shrink st); auto.
    + simpl. apply set_parents_length.
    + intros x. simpl. apply uid_set_parents.
    + intros c x (r0 & Hr0 & Hre).
      assert (Hr0' : In r0 (heads_of st c)).
      { destruct (Nat.eq_dec c b) as [->|Hne].
        - rewrite heads_of_put_same in Hr0; auto.
        - rewrite heads_of_put_other in Hr0; auto. }
      simpl in Hre. clear Hr0. induction Hre.
      * exists x. split; auto. apply reach_refl.
      * specialize (IHHre Hr0'). unfold edge in H.
        destruct (Nat.eq_dec y sn) as [->|Hne].
        -- destruct (Nat.lt_ge_cases sn (length (s_heap st))) as [Hlt|Hge].
           ++ rewrite parents_set_same in H by auto. apply uappend_In in H. destruct H as [H| ->].
              ** destruct IHHre as (r1 & Hr1 & Hre1). exists r1. split; auto. eapply reach_step; eauto.
              ** destruct (Nat.eq_dec c b) as [->|Hcb]; auto.
                 exfalso. destruct Hu as (_ & _ & Hdis). apply (Hdis c b sn); auto.
           ++ rewrite set_parents_beyond in H by auto.
              destruct IHHre as (r1 & Hr1 & Hre1). exists r1. split; auto. eapply reach_step; eauto.
        -- rewrite parents_set_other in H by auto.
           destruct IHHre as (r1 & Hr1 & Hre1). exists r1. split; auto. eapply reach_step; eauto.
Qed.

Lemma build_uid_bound : forall h hs h' og, hinv h -> refs_ok h hs -> uid_bound h ->
  build_f (h, hs) = Ok (h', og) -> uid_bound h'.
Proof.
  intros h hs h' og Hi Hr Hb H. simpl in H.
  destruct (deepcopy h hs) as [(h1 & ns1)|] eqn:E1; [|discriminate].
  pose proof (deepcopy_uid_bound _ _ _ _ Hi Hr Hb E1) as Hb1.
  destruct (deepcopy_hinv _ _ _ _ Hi Hr E1) as (Hi1 & L1 & _).
  destruct ns1; [inversion H; subst; auto|].
  assert (Hr1 : refs_ok h1 hs) by (eapply refs_ok_mono; eauto).
  destruct (deepcopy h1 hs) as [(h2 & ns2)|] eqn:E2; [|discriminate].
  pose proof (deepcopy_uid_bound _ _ _ _ Hi1 Hr1 Hb1 E2) as Hb2.
  destruct (lg_nodes (fuel_of h2) h2 ns2); inversion H; subst; auto.
Qed.

(* ------------------------------------------------------------------ merge: uid renewal *)
Lemma uid_set_uid_same : forall h x u, x < length h -> uid_of (set_uid h x u) x = u.
Proof. intros. unfold uid_of, set_uid, get. rewrite set_nth_same; auto. Qed.

Lemma uid_set_uid_other : forall h x u y, y <> x -> uid_of (set_uid h x u) y = uid_of h y.
Proof. intros. unfold uid_of. rewrite set_uid_other; auto. Qed.

Lemma renew_fold_uid : forall uids l h, NoDup l -> (forall x, In x l -> x < length h) ->
  forall x, uid_of (fold_left (renew_step uids) l h) x =
            if mem x l && mem (uid_of h x) uids then renewed_uid x else uid_of h x.
Proof.
  intros uids. induction l as [|a l IH]; intros h Hnd Hv x; simpl; auto.
  inversion Hnd as [|? ? Hna Hnd']; subst.
  assert (Hlen : length (renew_step uids h a) = length h).
  { unfold renew_step. destruct (mem _ uids); auto. apply (set_uid_shape h a _). }
  rewrite IH; auto; [|intros y Hy; rewrite Hlen; apply Hv; right; auto].
  destruct (Nat.eqb x a) eqn:Exa.
  - apply Nat.eqb_eq in Exa. subst x. apply mem_false in Hna. rewrite Hna. simpl.
    unfold renew_step. fold (uid_of h a). destruct (mem (uid_of h a) uids) eqn:Em; auto.
    apply uid_set_uid_same. apply Hv. left. auto.
  - apply Nat.eqb_neq in Exa. simpl.
    assert (Hsame : uid_of (renew_step uids h a) x = uid_of h x).
    { unfold renew_step. destruct (mem _ uids); auto. apply uid_set_uid_other. auto. }
    rewrite Hsame. auto.
Qed.

(* the cells a traversal finds in (an extension of) a deep copy are images of cells reachable
   from the copied roots and carry their uids *)
Lemma copy_elem : forall h roots h1 ns h2 fuel l, hinv h -> refs_ok h roots ->
  deepcopy h roots = Ok (h1, ns) -> length h1 <= length h2 ->
  (forall z, z < length h1 -> get h2 z = get h1 z) ->
  lg_nodes fuel h2 ns = Ok l ->
  exists f, (forall r r', (exists s, In s roots /\ reach h s r) -> f r = f r' -> r = r') /\
    forall x, In x l -> exists r, x = f r /\ (exists s, In s roots /\ reach h s r) /\
                                  uid_of h2 x = uid_of h r /\ length h <= x < length h1.
Proof.
  intros h roots h1 ns h2 fuel l Hi Hr Hd Hl Hf Hlg.
  destruct (deepcopy_inv _ _ _ _ Hd) as (rs & Ers & -> & ->).
  destruct (deepcopy_hinv _ _ _ _ Hi Hr Hd) as (Hi1 & L1 & F1 & R1 & C1).
  set (h1 := h ++ copy_cells h rs) in *.
  pose proof (lg_nodes_facts _ _ _ _ Ers) as (Hincl & Hnd & Hre_rs & Hcl).
  assert (Hval : forall x, In x rs -> x < length h) by (destruct Hi as (Hc & _); eapply lg_nodes_valid; eauto).
  exists (copy_map h rs). split.
  - intros r r' (s & Hs & Hre) E. apply (copy_map_inj h rs r r'); auto.
    eapply lg_nodes_complete; eauto.
  - intros x Hx. pose proof (lg_nodes_facts _ _ _ _ Hlg) as (_ & _ & Hre & _).
    destruct (Hre x Hx) as (s & Hs & Hreach). apply in_map_iff in Hs. destruct Hs as (r0 & <- & Hr0).
    assert (Hc1 : closed h1) by apply Hi1.
    assert (Hr0v : copy_map h rs r0 < length h1) by (apply (copy_f_range h rs); auto).
    apply (reach_frame h1 h2 _ x Hc1 Hl Hf Hr0v) in Hreach.
    destruct (copy_reach_new h rs Hcl r0 x (Hincl r0 Hr0) Hreach) as (r' & Hr' & -> & Hre').
    exists r'. split; auto. split; [exists r0; auto|]. split.
    + unfold uid_of. rewrite Hf by (apply (copy_f_range h rs); auto).
      unfold h1. rewrite (copy_new h rs) by auto. reflexivity.
    + apply (copy_f_range h rs). auto.
Qed.

(* ------------------------------------------------------------------ merge: the update loop *)
Lemma repl_fold_edges : forall old nw cs h,
  let h1 := fold_left (repl_step old nw) cs h in
  length h1 = length h /\ (forall x, uid_of h1 x = uid_of h x) /\
  (forall x p, edge h1 x p -> edge h x p \/ p = nw).
Proof.
  intros old nw. induction cs as [|c cs IH]; simpl; intros h; [auto|].
  destruct (IH (repl_step old nw h c)) as (H1 & H2 & H3). split; [|split].
  - rewrite H1. unfold repl_step. apply set_parents_length.
  - intros x. rewrite H2. unfold repl_step. apply uid_set_parents.
  - intros x p He. destruct (H3 x p He) as [H|H]; auto. unfold repl_step, edge in H.
    destruct (Nat.eq_dec x c) as [->|Hne].
    + destruct (Nat.lt_ge_cases c (length h)).
      * rewrite parents_set_same in H by auto. apply usetitem_In in H. auto.
      * rewrite set_parents_beyond in H by auto. auto.
    + rewrite parents_set_other in H by auto. auto.
Qed.

Section MergeLoop.
  Variables (a2 : nat) (lg g0 : list ref) (hstart : heap) (nps : list ref).
  Hypothesis Hlow : forall x, In x lg \/ In x g0 -> x < a2.
  Hypothesis Hnps : forall p, In p nps -> In p lg.

  Definition inS (h : heap) (x : ref) : Prop := In x lg \/ In x g0 \/ (a2 <= x < length h).

  Definition loopinv (h : heap) (g : list ref) : Prop :=
    a2 <= length h /\ pclosed h (inS h) /\ (forall x, In x g -> inS h x) /\
    (forall x, x < a2 -> uid_of h x = uid_of hstart x) /\
    (forall x, a2 <= x < length h -> uid_of h x = 2 * x).

  Lemma inS_valid : forall h x, a2 <= length h -> inS h x -> x < length h.
  Proof. intros h x Ha [H|[H|H]]; [| |lia]; assert (x < a2) by (apply Hlow; auto); lia. Qed.

  Lemma update_step_uids : forall h g i h' nw hh g',
    loopinv h g -> alloc h (name_str h i) 0 nps = (h', nw) -> update_node h' g i nw = Ok (hh, g') ->
    loopinv hh g'.
  Proof.
    intros h g i h' nw hh g' (La & Lc & Lg & Lu & Ln) Ea Hun.
    Local Transparent alloc. unfold alloc in Ea. Local Opaque alloc. inversion Ea; subst h' nw. clear Ea.
    set (h' := h ++ [mkNode (name_str h i) 0 (fresh_uid (length h)) (uniq nps)]) in *.
    assert (Hl' : length h' = S (length h)) by (unfold h'; rewrite app_length; simpl; lia).
    assert (Hold : forall x, x < length h -> get h' x = get h x) by (intros; unfold h'; apply get_app_old; auto).
    assert (Hnew : get h' (length h) = mkNode (name_str h i) 0 (fresh_uid (length h)) (uniq nps))
      by (unfold h'; apply get_app_here).
    unfold update_node in Hun. fold (repl_step i (length h)) in Hun.
    destruct (repl_fold_edges i (length h) (children_in h' g i) h') as (H1l & H1u & H1e).
    set (h1 := fold_left (repl_step i (length h)) (children_in h' g i) h') in *.
    destruct (mem i g) eqn:Emi; [|discriminate]. apply mem_In in Emi.
    set (h2 := set_parents h1 (length h) (uextend (parents h1 (length h)) (parents h1 i))) in *.
    destruct (lg_add (fuel_of h2) h2 (remove_first i g) (length h)) as [gg|] eqn:Eg; [|discriminate].
    inversion Hun; subst hh g'. clear Hun.
    assert (Hl2 : length h2 = S (length h)) by (unfold h2; rewrite set_parents_length; lia).
    assert (Hu2 : forall x, uid_of h2 x = uid_of h' x) by (intros; unfold h2; rewrite uid_set_parents; auto).
    (* every edge of h2: an old edge of h, or it points to nw, or it leaves nw *)
    assert (He' : forall x p, edge h' x p -> (x < length h /\ edge h x p) \/ (x = length h /\ In p nps)).
    { intros x p He. assert (Hv := edge_src_valid _ _ _ He). rewrite Hl' in Hv.
      unfold edge, parents in He. destruct (Nat.eq_dec x (length h)) as [->|Hne].
      - right. rewrite Hnew in He. simpl in He. apply (proj1 (uniq_In _ _)) in He. auto.
      - left. rewrite Hold in He by lia. split; [lia|auto]. }
    assert (He2 : forall x p, edge h2 x p -> p = length h \/ (x < length h /\ edge h x p) \/
                                          (x = length h /\ (In p nps \/ edge h i p))).
    { intros x p He. unfold edge, h2 in He. destruct (Nat.eq_dec x (length h)) as [->|Hne].
      - rewrite parents_set_same in He by lia. apply uextend_In in He. destruct He as [He|He].
        + destruct (H1e _ _ He) as [H|H]; auto. destruct (He' _ _ H) as [(Hc & _)|(_ & Hp)]; [lia|auto].
        + destruct (H1e _ _ He) as [H|H]; auto. destruct (He' _ _ H) as [(_ & Hp)|(Hc & _)]; auto.
          assert (i < length h) by (apply (inS_valid h i La); auto). lia.
      - rewrite parents_set_other in He by auto.
        destruct (H1e _ _ He) as [H|H]; auto. destruct (He' _ _ H) as [Hp|(Hc & _)]; [auto|lia]. }
    assert (HinS : forall x, inS h2 x <-> inS h x \/ x = length h).
    { intros x. unfold inS. rewrite Hl2. split.
      - intros [H|[H|H]]; auto. destruct (Nat.eq_dec x (length h)); auto. left. right. right. lia.
      - intros [[H|[H|H]]| ->]; auto; right; right; lia. }
    assert (Hc2 : pclosed h2 (inS h2)).
    { intros x p Hx He. apply HinS. apply HinS in Hx.
      destruct (He2 x p He) as [->|[(Hxl & Hep)|(-> & [Hp|Hp])]]; auto.
      - left. destruct Hx as [Hx| ->]; [|lia]. apply (Lc x p Hx Hep).
      - left. left. auto.
      - left. apply (Lc i p (Lg i Emi) Hp). }
    split; [lia|]. split; [auto|]. split; [|split].
    - intros x Hx. pose proof (lg_add_post _ _ _ _ _ Eg) as (_ & _ & _ & Hre & _).
      destruct (Hre x Hx) as [Hin|(s & [<-|[]] & Hreach)].
      + apply HinS. left. apply Lg. eapply remove_first_In; eauto.
      + apply (reach_pclosed h2 (inS h2) (length h) x); auto. apply HinS. auto.
    - intros x Hx. rewrite Hu2. unfold uid_of. rewrite Hold by lia. apply Lu. auto.
    - intros x Hx. rewrite Hu2. rewrite Hl2 in Hx. destruct (Nat.eq_dec x (length h)) as [->|Hne].
      + unfold uid_of. rewrite Hnew. reflexivity.
      + unfold uid_of. rewrite Hold by lia. apply Ln. lia.
  Qed.

  Lemma merge_updates_uids : forall initial h g h' g',
    loopinv h g -> merge_updates h g initial nps = Ok (h', g') -> loopinv h' g'.
  Proof.
    induction initial as [|i rest IH]; simpl; intros h g h' g' Hl H.
    - inversion H; subst; auto.
    - destruct (alloc h (name_str h i) 0 nps) as (ha, nw) eqn:Ea.
      destruct (update_node ha g i nw) as [(hh, gg)|] eqn:Eu; [|discriminate].
      eapply IH; [|eauto]. eapply update_step_uids; eauto.
  Qed.
End MergeLoop.

(* ------------------------------------------------------------------ merge: the whole function *)
Definition reach_from (h : heap) (roots : list ref) (x : ref) : Prop := exists r, In r roots /\ reach h r x.

Lemma merge_uids : forall h prev foll h' r,
  hinv h -> refs_ok h prev -> refs_ok h foll -> uid_bound h ->
  uid_inj h (reach_from h prev) -> uid_inj h (reach_from h foll) ->
  merge_f h prev foll = Ok (h', r) ->
  uid_bound h' /\
  forall hs, r = MNew hs ->
    exists S : ref -> Prop, (forall x, In x hs -> S x) /\ pclosed h' S /\ (forall x, S x -> length h <= x) /\
                            uid_inj h' S.
Proof.
  intros h prev foll h' r Hi Hp Hf Hb Ip If H. unfold merge_f in H.
  destruct (is_nil foll); [inversion H; subst; split; auto; discriminate|].
  destruct (is_nil prev); [inversion H; subst; split; auto; discriminate|].
  destruct (deepcopy h prev) as [(h1 & lhs)|] eqn:E1; [|discriminate].
  destruct (deepcopy_hinv _ _ _ _ Hi Hp E1) as (Hi1 & L1 & F1 & R1 & C1).
  pose proof (deepcopy_uid_bound _ _ _ _ Hi Hp Hb E1) as Hb1.
  assert (Hf1 : refs_ok h1 foll) by (eapply refs_ok_mono; eauto).
  destruct (deepcopy h1 foll) as [(h2 & rhs)|] eqn:E2; [|discriminate].
  destruct (deepcopy_hinv _ _ _ _ Hi1 Hf1 E2) as (Hi2 & L2 & F2 & R2 & C2).
  pose proof (deepcopy_uid_bound _ _ _ _ Hi1 Hf1 Hb1 E2) as Hb2.
  destruct (lg_nodes (fuel_of h2) h2 rhs) as [g|] eqn:Eg; [|discriminate].
  destruct (lg_nodes (fuel_of h2) h2 lhs) as [lg|] eqn:Elg; [|destruct (lg_nodes (fuel_of h2) h2 rhs); discriminate].
  set (uids := map (fun r => n_uid (get h2 r)) g) in *.
  fold (renew_step uids) in H.
  destruct (copy_elem h prev h1 lhs h2 _ lg Hi Hp E1 L2 F2 Elg) as (f1 & Hf1inj & Hlgel).
  destruct (copy_elem h1 foll h2 rhs h2 _ g Hi1 Hf1 E2 (le_n _) (fun z _ => eq_refl) Eg) as (f2 & Hf2inj & Hgel).
  pose proof (lg_nodes_facts _ _ _ _ Elg) as (Hlhs_in & Hnd_lg & _ & Hcl_lg).
  pose proof (lg_nodes_facts _ _ _ _ Eg) as (_ & _ & _ & Hcl_g).
  assert (Hc : closed h) by apply Hi.
  (* uids of the copies before the renewal *)
  assert (Hlg2 : forall x, In x lg -> uid_of h2 x < 2 * length h /\ length h <= x < length h1).
  { intros x Hx. destruct (Hlgel x Hx) as (r0 & -> & (s & Hs & Hre) & Hu & Hrg). rewrite Hu. split; auto.
    apply Hb. eapply reach_valid; eauto. }
  assert (Hfollreach : forall s r0, In s foll -> reach h1 s r0 -> reach h s r0 /\ r0 < length h).
  { intros s r0 Hs Hre. assert (Hsv := Hf s Hs).
    apply (reach_frame h h1 s r0 Hc L1 F1 Hsv) in Hre. split; auto. eapply reach_valid; eauto. }
  assert (Hg2 : forall x, In x g -> uid_of h2 x < 2 * length h /\ length h1 <= x < length h2).
  { intros x Hx. destruct (Hgel x Hx) as (r0 & -> & (s & Hs & Hre) & Hu & Hrg). rewrite Hu. split; auto.
    destruct (Hfollreach s r0 Hs Hre) as (_ & Hv). unfold uid_of. rewrite F1 by auto. apply Hb. auto. }
  assert (Hlgv : forall x, In x lg -> x < length h2) by (intros x Hx; apply Hlg2 in Hx; lia).
  pose proof (renew_fold_uid uids lg h2 Hnd_lg Hlgv) as Hren.
  destruct (renew_fold_shape uids lg h2) as ((Hl2' & Hp2') & Hfr2').
  set (h2' := fold_left (renew_step uids) lg h2) in *.
  assert (Huids_in : forall y, In y g -> mem (uid_of h2 y) uids = true).
  { intros y Hy. apply mem_In. unfold uids. apply in_map_iff. exists y. auto. }
  assert (Hnotlg : forall y, In y g -> mem y lg = false).
  { intros y Hy. apply mem_false. intros Hin. apply Hlg2 in Hin. apply Hg2 in Hy. lia. }
  assert (Hug : forall y, In y g -> uid_of h2' y = uid_of h2 y).
  { intros y Hy. rewrite Hren, (Hnotlg y Hy). auto. }
  assert (Hulg : forall x, In x lg -> uid_of h2' x = if mem (uid_of h2 x) uids then 2 * x + 1 else uid_of h2 x).
  { intros x Hx. rewrite Hren. apply mem_In in Hx. rewrite Hx. reflexivity. }
  (* distinct uids on the two closures after the renewal *)
  assert (A3 : uid_inj h2' (fun x => In x lg \/ In x g)).
  { intros x y [Hx|Hx] [Hy|Hy] E.
    - rewrite (Hulg x Hx), (Hulg y Hy) in E.
      destruct (Hlg2 x Hx) as (Hux & Hrx). destruct (Hlg2 y Hy) as (Huy & Hry).
      destruct (mem (uid_of h2 x) uids); destruct (mem (uid_of h2 y) uids); try lia.
      destruct (Hlgel x Hx) as (rx & -> & Hsx & Hux' & _). destruct (Hlgel y Hy) as (ry & -> & Hsy & Huy' & _).
      rewrite Hux', Huy' in E. f_equal. apply (Ip rx ry); auto.
    - rewrite (Hulg x Hx), (Hug y Hy) in E. destruct (Hlg2 x Hx) as (Hux & Hrx). destruct (Hg2 y Hy) as (Huy & _).
      destruct (mem (uid_of h2 x) uids) eqn:Em; [lia|]. rewrite E, (Huids_in y Hy) in Em. discriminate.
    - rewrite (Hug x Hx), (Hulg y Hy) in E. destruct (Hlg2 y Hy) as (Huy & Hry). destruct (Hg2 x Hx) as (Hux & _).
      destruct (mem (uid_of h2 y) uids) eqn:Em; [lia|]. rewrite <- E, (Huids_in x Hx) in Em. discriminate.
    - rewrite (Hug x Hx), (Hug y Hy) in E.
      destruct (Hgel x Hx) as (rx & -> & (sx & Hsx & Hrex) & Hux' & _).
      destruct (Hgel y Hy) as (ry & -> & (sy & Hsy & Hrey) & Huy' & _).
      rewrite Hux', Huy' in E. destruct (Hfollreach sx rx Hsx Hrex) as (Hrx & Hvx).
      destruct (Hfollreach sy ry Hsy Hrey) as (Hry & Hvy).
      unfold uid_of in E. rewrite !F1 in E by auto. f_equal. apply (If rx ry); [exists sx|exists sy|]; auto. }
  assert (A4 : forall x, In x lg \/ In x g -> uid_of h2' x < 2 * length h \/ exists k, uid_of h2' x = 2 * k + 1).
  { intros x [Hx|Hx].
    - rewrite (Hulg x Hx). destruct (mem (uid_of h2 x) uids); [right; eauto|left; apply Hlg2; auto].
    - rewrite (Hug x Hx). left. apply Hg2. auto. }
  assert (Hb2' : uid_bound h2').
  { intros x Hx. rewrite Hl2' in *. rewrite Hren. destruct (mem x lg && mem (uid_of h2 x) uids).
    - unfold renewed_uid. lia.
    - apply Hb2. auto. }
  assert (Hlow : forall x, In x lg \/ In x g -> x < length h2).
  { intros x [Hx|Hx]; [apply Hlg2 in Hx|apply Hg2 in Hx]; lia. }
  (* the loop *)
  assert (Hstart : loopinv (length h2) lg g h2' h2' g).
  { split; [lia|]. split; [|split; [|split]]; auto.
    - intros x p [Hx|[Hx|Hx]] He; [| |lia]; unfold edge in He; rewrite Hp2' in He.
      + left. eapply Hcl_lg; eauto.
      + right. left. eapply Hcl_g; eauto.
    - intros x Hx. right. left. auto.
    - intros x Hx. lia. }
  set (initial := filter (fun r => is_nil (parents h2' r)) g) in *.
  assert (Hfinish : forall nps h3 g3, (forall p, In p nps -> In p lg) ->
    merge_updates h2' g initial nps = Ok (h3, g3) ->
    uid_bound h3 /\ exists S : ref -> Prop,
      (forall x, In x (filter (fun r => is_nil (children_in h3 g3 r)) g3) -> S x) /\ pclosed h3 S /\
      (forall x, S x -> length h <= x) /\ uid_inj h3 S).
  { intros nps h3 g3 Hnps Hmu.
    destruct (merge_updates_uids (length h2) lg g h2' nps Hlow Hnps initial h2' g h3 g3 Hstart Hmu)
      as (La & Lc & Lg & Lu & Ln).
    split.
    - intros x Hx. destruct (Nat.lt_ge_cases x (length h2)) as [Hlt|Hge].
      + rewrite Lu by auto. pose proof (Hb2' x ltac:(lia)). lia.
      + rewrite Ln by lia. lia.
    - exists (inS (length h2) lg g h3). split; [|split; [|split]]; auto.
      + intros x Hx. apply filter_In in Hx. apply Lg. apply Hx.
      + intros x [Hx|[Hx|Hx]]; [apply Hlg2 in Hx|apply Hg2 in Hx|]; lia.
      + intros x y Hx Hy E.
        assert (Hcase : forall z, inS (length h2) lg g h3 z ->
                  ((In z lg \/ In z g) /\ uid_of h3 z = uid_of h2' z) \/
                  (length h2 <= z /\ uid_of h3 z = 2 * z)).
        { intros z [Hz|[Hz|Hz]].
          - left. split; [auto|]. apply Lu. apply Hlow. auto.
          - left. split; [auto|]. apply Lu. apply Hlow. auto.
          - right. split; [lia|apply Ln; auto]. }
        destruct (Hcase x Hx) as [(Hx1 & Hx2)|(Hx1 & Hx2)]; destruct (Hcase y Hy) as [(Hy1 & Hy2)|(Hy1 & Hy2)];
          rewrite Hx2, Hy2 in E.
        * apply (A3 x y); auto.
        * destruct (A4 x Hx1) as [Hlt|(k & Hk)]; lia.
        * destruct (A4 y Hy1) as [Hlt|(k & Hk)]; lia.
        * lia. }
  fold initial in H.
  assert (Hlhs_lg : forall p, In p lhs -> In p lg) by (intros p Hpin; apply Hlhs_in; auto).
  destruct (length lhs =? 1) eqn:El1.
  - destruct (merge_updates h2' g initial [nth 0 lhs 0]) as [(h3 & g3)|] eqn:Emu; [|discriminate].
    inversion H; subst h' r. clear H.
    destruct (Hfinish [nth 0 lhs 0] h3 g3) as (Hb3 & S & HS); auto.
    + intros p [<-|[]]. apply Hlhs_lg. apply nth_In. apply Nat.eqb_eq in El1. lia.
    + split; auto. intros hs Hhs. inversion Hhs; subst hs. exists S. auto.
  - destruct (length initial =? 1).
    + destruct (merge_updates h2' g initial lhs) as [(h3 & g3)|] eqn:Emu; [|discriminate].
      inversion H; subst h' r. clear H.
      destruct (Hfinish lhs h3 g3) as (Hb3 & S & HS); auto.
      split; auto. intros hs Hhs. inversion Hhs; subst hs. exists S. auto.
    + inversion H; subst. split; auto. discriminate.
Qed.

(* ------------------------------------------------------------------ every call keeps the uid invariant *)
Lemma step_uinv : forall st c st' r, inv st -> uinv st -> step st c = Ok (st', r) -> uinv st'.
Proof.
  intros st c st' r Hinv Hu H. assert (Hi : hinv (s_heap st)) by apply Hinv.
  assert (Hob : forall b f, pres f -> lpres f -> on_builder st b f = Ok (st', r) -> uinv st').
  { intros b f Hp Hl Ho. unfold on_builder in Ho. destruct (valid_b st b) eqn:Ev; inversion Ho; subst; auto.
    apply on_builder_uinv; auto. }
  destruct c; cbn [step] in H.
  - eapply Hob; eauto; [apply pres_add_node|apply lpres_add_node].
  - eapply Hob; eauto; [apply pres_add_sequence|apply lpres_add_sequence].
  - eapply Hob; eauto; [apply pres_grow_branches|apply lpres_grow_from].
  - eapply Hob; eauto; [apply pres_add_branch|apply lpres_add_branch].
  - eapply step_skip_uinv; eauto.
  - eapply Hob; eauto; [apply pres_join|apply lpres_join].
  - destruct (valid_b st b) eqn:Ev; inversion H; subst; auto.
    apply (uinv_shrink st); auto. intros c x (r0 & Hr0 & Hre).
    destruct (Nat.eq_dec c b) as [->|Hne].
    + rewrite heads_of_put_same in Hr0 by auto. destruct Hr0.
    + rewrite heads_of_put_other in Hr0 by auto. exists r0. auto.
  - destruct (valid_b st b) eqn:Ev; [|inversion H; subst; auto].
    pose proof (heads_of_ok st b Hinv) as Hr.
    destruct (deepcopy (s_heap st) (heads_of st b)) as [(h' & ns)|] eqn:E; [|discriminate].
    destruct (deepcopy_hinv _ _ _ _ Hi Hr E) as (_ & Hl & Hf & _).
    inversion H; subst. apply uinv_extend; auto. eapply deepcopy_uid_bound; eauto. apply Hu.
  - destruct (valid_b st b) eqn:Ev; [|inversion H; subst; auto].
    assert (Hb : bok (s_heap st, heads_of st b)) by (split; [auto|apply heads_of_ok; auto]).
    destruct (build_ok _ Hb) as (h' & og & E & _ & Hl & Hf & _). rewrite E in H.
    assert (Hub : uid_bound h') by (eapply build_uid_bound; eauto; [apply heads_of_ok; auto|apply Hu]).
    destruct og; inversion H; subst; apply uinv_extend; auto.
  - destruct (valid_b st b1 && valid_b st b2) eqn:Ev; [|inversion H; subst; auto].
    destruct (merge_ok _ _ _ Hi (heads_of_ok st b1 Hinv) (heads_of_ok st b2 Hinv))
      as (h' & mr & E & Hi' & Hl & Hf & Hnew). rewrite E in H.
    destruct Hu as (Hub & Hinj & Hdis).
    destruct (merge_uids _ _ _ _ _ Hi (heads_of_ok st b1 Hinv) (heads_of_ok st b2 Hinv) Hub (Hinj b1) (Hinj b2) E)
      as (Hub' & HS).
    assert (Hu : uinv st) by (split; auto).
    destruct mr; inversion H; subst st' r; try (apply uinv_extend; auto).
    destruct (HS heads eq_refl) as (S & HSh & HSc & HSlo & HSinj).
    set (st' := mkState h' (s_bs st ++ [heads])).
    assert (Hold : forall b x, b < length (s_bs st) -> (reachable st' b x <-> reachable st b x)).
    { intros b x Hb. apply reachable_frame; auto. unfold heads_of, st'. simpl. apply app_nth1. auto. }
    assert (Hnewb : forall x, reachable st' (length (s_bs st)) x -> S x).
    { intros x (r0 & Hr0 & Hre). unfold heads_of, st' in Hr0. simpl in Hr0.
      rewrite app_nth2 in Hr0 by lia. rewrite Nat.sub_diag in Hr0. simpl in Hr0.
      apply (reach_pclosed h' S r0 x); auto. }
    assert (Hbeyond : forall b x, length (s_bs st) < b -> ~ reachable st' b x).
    { intros b x Hb (r0 & Hr0 & _). unfold heads_of, st' in Hr0. simpl in Hr0.
      rewrite nth_overflow in Hr0; [destruct Hr0|]. rewrite app_length. simpl. lia. }
    assert (Huid_old : forall b x, reachable st b x -> uid_of h' x = uid_of (s_heap st) x).
    { intros b x Hx. unfold uid_of. rewrite Hf; auto. eapply reachable_valid; eauto. }
    split; [auto|]. split.
    + intros b x y Hx Hy Euid. destruct (Nat.lt_trichotomy b (length (s_bs st))) as [Hb|[->|Hb]].
      * apply Hold in Hx; auto. apply Hold in Hy; auto. simpl in Euid.
        rewrite (Huid_old b x Hx), (Huid_old b y Hy) in Euid. apply (Hinj b x y); auto.
      * apply (HSinj x y); auto.
      * exfalso. eapply Hbeyond; eauto.
    + intros b b' x Hne Hx Hy.
      assert (Hcase : forall c c', c < length (s_bs st) -> c' = length (s_bs st) ->
                                   reachable st' c x -> reachable st' c' x -> False).
      { intros c c' Hc -> Hr1 Hr2. apply Hold in Hr1; auto. apply Hnewb in Hr2. apply HSlo in Hr2.
        pose proof (reachable_valid st c x Hinv Hr1). lia. }
      destruct (Nat.lt_trichotomy b (length (s_bs st))) as [Hb|[Hb|Hb]];
        destruct (Nat.lt_trichotomy b' (length (s_bs st))) as [Hb'|[Hb'|Hb']];
        try (eapply Hbeyond; eauto; fail).
      * apply Hold in Hx; auto. apply Hold in Hy; auto. apply (Hdis b b' x); auto.
      * apply (Hcase b b'); auto.
      * apply (Hcase b' b); auto.
      * lia.
Qed.

Theorem run_uinv : forall cs st st' rs, inv st -> uinv st -> run st cs = Ok (st', rs) -> uinv st'.
Proof.
  induction cs as [|c cs IH]; intros st st' rs Hinv Hu H; simpl in H.
  - inversion H; subst; auto.
  - destruct (step_ok st c Hinv) as (st1 & r & E & Hinv1 & _). rewrite E in H.
    destruct (run st1 cs) as [(st2 & rs2)|] eqn:E2; [|discriminate]. inversion H; subst st2 rs.
    apply (IH st1 st' rs2 Hinv1); auto. apply (step_uinv st c st1 r); auto.
Qed.

Theorem builder_uids_distinct : forall k cs st' rs, run (init k) cs = Ok (st', rs) ->
  forall b x y, reachable st' b x -> reachable st' b y ->
    n_uid (get (s_heap st') x) = n_uid (get (s_heap st') y) -> x = y.
Proof.
  intros k cs st' rs H b x y Hx Hy E.
  destruct (run_uinv cs (init k) st' rs (inv_init k) (uinv_init k) H) as (_ & Hinj & _).
  apply (Hinj b x y); auto.
Qed.

(* distinct builder objects never share a node *)
Theorem builders_disjoint : forall k cs st' rs, run (init k) cs = Ok (st', rs) ->
  forall b b' x, b <> b' -> reachable st' b x -> reachable st' b' x -> False.
Proof.
  intros k cs st' rs H. destruct (run_uinv cs (init k) st' rs (inv_init k) (uinv_init k) H) as (_ & _ & Hdis).
  exact Hdis.
Qed.
