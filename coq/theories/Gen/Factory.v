(* Model of golem/core/optimisers/random_graph_factory.py (random_graph, graph_growth),
   opt_node_factory.py (DefaultOptNodeFactory.get_node as a choice) and
   initial_graphs_generator.py (InitialPopulationGenerator.__call__).  Definitions only.

   Randomness is explicit: every attempt of random_graph consumes a list of naturals (missing
   choices read as 0): a draw per node_factory.get_node() call (index into the available node
   types; a `partial` factory answers None for the draw 0 - the attempt is lost when that is the
   root, the offspring slot is skipped otherwise), an arity
   draw per grown node (randint(min_arity, max_arity) = min + c mod (max - min + 1); ValueError
   when the range is empty) and a growth coin per node that is allowed to grow.
   The produced graph is a tree (every node is fresh): children = nodes_from in creation order.
   height = distance_to_root_level(graph, node) is the recursion depth on such trees; the model
   tracks it as a counter (the correspondence check compares whole attempt trees).
   The verifier and graph equality are arbitrary boolean functions. *)
From Coq Require Import List Arith Bool.
Import ListNotations.

Inductive exn := ValueError | OutOfFuel.
Inductive res (A : Type) := Ok (a : A) | Raise (e : exn).
Arguments Ok {A} a.
Arguments Raise {A} e.

Inductive tree := T (name : nat) (children : list tree).

Definition tname (t : tree) : nat := match t with T n _ => n end.
Definition tkids (t : tree) : list tree := match t with T _ k => k end.

Fixpoint tdepth (t : tree) : nat :=
  match t with T _ kids => S (fold_right Nat.max 0 (map tdepth kids)) end.
Fixpoint tsize (t : tree) : nat :=
  match t with T _ kids => S (fold_right Nat.add 0 (map tsize kids)) end.
(* P holds for (name, children) of every node *)
Fixpoint tree_all (P : nat -> list tree -> bool) (t : tree) : bool :=
  match t with T n kids => P n kids && forallb (tree_all P) kids end.
(* creation order = graph.nodes order *)
Fixpoint preorder (t : tree) : list nat :=
  match t with T n kids => n :: concat (map preorder kids) end.

Record req := mkReq { max_depth : nat; min_arity : nat; max_arity : nat }.

Definition is_nil {A} (l : list A) : bool := match l with [] => true | _ => false end.

(* non-leaf nodes have between min_arity and max_arity parents *)
Definition arity_ok (rq : req) (t : tree) : bool :=
  tree_all (fun _ kids => is_nil kids ||
                          ((min_arity rq <=? length kids) && (length kids <=? max_arity rq))) t.

Definition draw (cs : list nat) : nat * list nat :=
  match cs with [] => (0, []) | c :: cs' => (c, cs') end.

(* node_factory.get_node() as a function of the draw *)
Definition get_node (partial : bool) (ntypes c : nat) : option nat :=
  if partial then match c with 0 => None | S c' => Some (c' mod ntypes) end
  else Some (c mod ntypes).

(* only the upper arity bound (what remains true for a partial node factory) *)
Definition arity_upper_ok (rq : req) (t : tree) : bool :=
  tree_all (fun _ kids => length kids <=? max_arity rq) t.

(* the loop `for offspring_node in range(offspring_size)` of graph_growth: n new nodes at a
   height where growing further is allowed or not; rec = graph_growth on the new node *)
Fixpoint offspring (rec : list nat -> res (list tree * list nat)) (may_grow partial : bool)
         (ntypes n : nat) (cs : list nat) : res (list tree * list nat) :=
  match n with
  | 0 => Ok ([], cs)
  | S n' =>
      let '(c, cs1) := draw cs in
      match get_node partial ntypes c with
      | None => offspring rec may_grow partial ntypes n' cs1          (* if node is None: continue *)
      | Some nm =>
          let sub := if may_grow
                     then (let '(coin, cs2) := draw cs1 in
                           if coin =? 0 then Ok ([], cs2) else rec cs2)
                     else Ok ([], cs1) in
          match sub with
          | Raise e => Raise e
          | Ok (kids, cs3) =>
              match offspring rec may_grow partial ntypes n' cs3 with
              | Raise e => Raise e
              | Ok (rest, cs4) => Ok (T nm kids :: rest, cs4)
              end
          end
      end
  end.

(* graph_growth(graph, node_parent at `height`, ...): the parents (children in the tree) it adds *)
Fixpoint growth (fuel : nat) (rq : req) (md : nat) (partial : bool) (ntypes height : nat) (cs : list nat)
  : res (list tree * list nat) :=
  match fuel with
  | 0 => Raise OutOfFuel
  | S k =>
      if max_arity rq <? min_arity rq then Raise ValueError       (* randint: empty range *)
      else
        let '(a, cs1) := draw cs in
        let n := min_arity rq + a mod (max_arity rq - min_arity rq + 1) in
        (* is_max_depth_exceeded = height(child) >= max_depth - 1 *)
        offspring (growth k rq md partial ntypes (S height)) (negb (md - 1 <=? S height)) partial ntypes n cs1
  end.

(* max_depth = max_depth if max_depth else requirements.max_depth *)
Definition eff_depth (rq : req) (arg : option nat) : nat :=
  match arg with Some (S m) => S m | _ => max_depth rq end.

(* one iteration of the while loop: a root and, if the effective max_depth md > 1, its growth;
   None = the node factory gave no root *)
Definition attempt (rq : req) (md : nat) (partial : bool) (ntypes : nat) (cs : list nat) : res (option tree) :=
  let '(c, cs1) := draw cs in
  match get_node partial ntypes c with
  | None => Ok None
  | Some nm =>
      if 1 <? md then
        match growth (S md) rq md partial ntypes 0 cs1 with
        | Ok (kids, _) => Ok (Some (T nm kids))
        | Raise e => Raise e
        end
      else Ok (Some (T nm []))
  end.

(* the while loop; returns the outcome and the number of attempts made (n_iter) *)
Fixpoint rg_loop (fuel : nat) (V : tree -> bool) (rq : req) (md : nat) (partial : bool)
         (ntypes max_attempts n_iter : nat) (attempts : list (list nat)) : res tree * nat :=
  match fuel with
  | 0 => (Raise OutOfFuel, n_iter)
  | S k =>
      match attempt rq md partial ntypes (hd [] attempts) with
      | Raise e => (Raise e, n_iter)
      | Ok ot =>
          (* is_correct_graph = graph_root is not None and verifier(graph) *)
          let n := S n_iter in
          if max_attempts <? n then (Raise ValueError, n)
          else match ot with
               | Some t => if V t then (Ok t, n)
                           else rg_loop k V rq md partial ntypes max_attempts n (tl attempts)
               | None => rg_loop k V rq md partial ntypes max_attempts n (tl attempts)
               end
      end
  end.

Definition random_graph (V : tree -> bool) (rq : req) (arg : option nat) (partial : bool)
           (ntypes max_attempts : nat) (attempts : list (list nat)) : res tree * nat :=
  rg_loop (S (S max_attempts)) V rq (eff_depth rq arg) partial ntypes max_attempts 0 attempts.

Definition MAX_GRAPH_GEN_ATTEMPTS : nat := 1000.

(* the depth bound: the effective max_depth (a single node has depth 1 also when that is 0) *)
Definition depth_bound (rq : req) (arg : option nat) : nat := Nat.max (eff_depth rq arg) 1.

(* ------------------------------------------------------------------ InitialPopulationGenerator *)
Section Population.
  Variable G : Type.
  Variable eqg : G -> G -> bool.          (* graph == graph *)
  Variable V : G -> bool.                 (* graph_generation_params.verifier *)
  Variable gen : nat -> res G.            (* the i-th call of generation_function *)
  Variable pop_size : nat.

  (* for iter_num in range(MAX): ... ; returns the population and the number of generator calls *)
  Fixpoint pop_loop (iters i : nat) (pop : list G) : res (list G) * nat :=
    match iters with
    | 0 => (Ok pop, i)
    | S k =>
        if length pop =? pop_size then (Ok pop, i)
        else match gen i with
             | Raise e => (Raise e, S i)
             | Ok g =>
                 if negb (existsb (fun p => eqg p g) pop) && V g
                 then pop_loop k (S i) (pop ++ [g])
                 else pop_loop k (S i) pop
             end
    end.

  Definition initial_population (max_attempts : nat) (given : list G) : res (list G) * nat :=
    match given with
    | _ :: _ => (Ok (firstn pop_size given), 0)
    | [] => pop_loop max_attempts 0 []
    end.
End Population.

(* ------------------------------------------------------------------ graph equality on trees *)
(* LinkedGraph.__eq__ compares descriptive ids: label and the sorted ids of the parents.  The same
   canonical code over naturals: name+1, the sorted codes of the children, 0 *)
Fixpoint lex_leb (a b : list nat) : bool :=
  match a, b with
  | [], _ => true
  | _ :: _, [] => false
  | x :: a', y :: b' => if x <? y then true else if y <? x then false else lex_leb a' b'
  end.
Fixpoint insert_sorted (x : list nat) (l : list (list nat)) : list (list nat) :=
  match l with
  | [] => [x]
  | y :: l' => if lex_leb x y then x :: l else y :: insert_sorted x l'
  end.
Definition sort_codes (l : list (list nat)) : list (list nat) := fold_right insert_sorted [] l.
Fixpoint code (t : tree) : list nat :=
  match t with T n kids => S n :: concat (sort_codes (map code kids)) ++ [0] end.
Fixpoint list_eqb (l r : list nat) : bool :=
  match l, r with
  | [], [] => true
  | x :: l', y :: r' => (x =? y) && list_eqb l' r'
  | _, _ => false
  end.
Definition tree_eqb (a b : tree) : bool := list_eqb (code a) (code b).
(* identical incl. the order of children *)
Fixpoint tree_same (a b : tree) : bool :=
  match a, b with
  | T n ka, T m kb =>
      (n =? m) && (fix go (l r : list tree) : bool :=
                     match l, r with
                     | [], [] => true
                     | x :: l', y :: r' => tree_same x y && go l' r'
                     | _, _ => false
                     end) ka kb
  end.

(* ------------------------------------------------------------------ verifiers used by the driver *)
Inductive vkind :=
| VAll                      (* DEFAULT_DAG_RULES: every tree passes *)
| VMinSize (k : nat)        (* custom rule: graph.length >= k *)
| VRootNot (n : nat)        (* custom rule: root node type is not n *)
| VMinDepth (k : nat)       (* custom rule: graph.depth >= k *)
| VNever.                   (* custom rule: always False *)
Definition veval (v : vkind) (t : tree) : bool :=
  match v with
  | VAll => true
  | VMinSize k => k <=? tsize t
  | VRootNot n => negb (tname t =? n)
  | VMinDepth k => k <=? tdepth t
  | VNever => false
  end.

(* ------------------------------------------------------------------ observations: random_graph *)
Record fobs := mkFObs {
  f_attempts : list (option tree); (* every attempt in order: the graph the verifier was shown, or
                                      None when the node factory gave no root *)
  f_choices : list (list nat);     (* partial factory only: choices explaining every attempt, found
                                      by the harness from the factory's call log *)
  f_result : option tree;          (* the returned graph; None = ValueError *)
  f_accepted : bool;               (* verifier(returned graph), evaluated again by the harness *)
  f_depth : nat;                   (* returned graph.depth *)
  f_nodes : list nat               (* node types in graph.nodes order *)
}.

(* choices that make the model build exactly this tree (inverse of `attempt`) *)
Fixpoint infer_kids (fuel : nat) (rq : req) (md height : nat) (kids : list tree) : list nat :=
  match fuel with
  | 0 => []
  | S k =>
      (length kids - min_arity rq) ::
      concat (map (fun c => tname c ::
                            if negb (md - 1 <=? S height)
                            then (if is_nil (tkids c) then [0]
                                  else 1 :: infer_kids k rq md (S height) (tkids c))
                            else []) kids)
  end.
Definition infer (rq : req) (md : nat) (t : tree) : list nat :=
  tname t :: (if 1 <? md then infer_kids (S (tdepth t)) rq md 0 (tkids t) else []).

Fixpoint all2 {A B} (p : A -> B -> bool) (l : list A) (r : list B) : bool :=
  match l, r with
  | [], [] => true
  | a :: l', b :: r' => p a b && all2 p l' r'
  | _, _ => false
  end.

Definition opt_tree_same (a b : option tree) : bool :=
  match a, b with Some x, Some y => tree_same x y | None, None => true | _, _ => false end.

(* model = implementation: replaying the choices of every observed attempt (inferred here for a
   total factory, supplied for a partial one) gives the same attempt trees, the same outcome
   after the same number of attempts *)
Definition f_agree (v : vkind) (rq : req) (arg : option nat) (partial : bool) (ntypes : nat) (o : fobs) : bool :=
  let md := eff_depth rq arg in
  let cs := if partial then f_choices o
            else map (fun ot => match ot with Some t => infer rq md t | None => [] end) (f_attempts o) in
  (length cs =? length (f_attempts o)) &&
  all2 (fun ot c => match attempt rq md partial ntypes c with
                    | Ok ot' => opt_tree_same ot ot' | Raise _ => false end) (f_attempts o) cs &&
  match random_graph (veval v) rq arg partial ntypes MAX_GRAPH_GEN_ATTEMPTS cs with
  | (Ok t, n) => opt_tree_same (Some t) (f_result o) && (n =? length (f_attempts o)) &&
                 (tdepth t =? f_depth o) && list_eqb (preorder t) (f_nodes o) && f_accepted o
  | (Raise ValueError, n) => opt_tree_same None (f_result o) && (n =? length (f_attempts o))
  | (Raise OutOfFuel, _) => false
  end.

(* the property on the observed outcome: a returned graph is accepted by the verifier, within
   the depth bound (both the depth GOLEM reports and the depth of the observed structure) and
   within the arity bounds; a ValueError only after the attempt limit *)
Definition f_holds (rq : req) (arg : option nat) (partial : bool) (o : fobs) : bool :=
  match f_result o with
  | Some t => f_accepted o && (f_depth o <=? depth_bound rq arg) && (tdepth t <=? depth_bound rq arg) &&
              (if partial then arity_upper_ok rq t else arity_ok rq t) &&
              (length (f_attempts o) <=? MAX_GRAPH_GEN_ATTEMPTS)
  | None => (max_arity rq <? min_arity rq) || (MAX_GRAPH_GEN_ATTEMPTS <? length (f_attempts o))
  end.

(* ------------------------------------------------------------------ observations: initial population *)
Record pobs := mkPObs {
  p_generated : list tree;         (* every graph the generation function returned, in order *)
  p_raised : bool;                 (* the last generator call raised ValueError instead *)
  p_result : option (list tree);   (* the returned population; None = the exception propagated *)
  p_accepted : list bool;          (* verifier(g) for every returned graph *)
  p_equal_pairs : list bool;       (* g_i == g_j for all i < j of the returned population *)
  p_depths : list nat              (* graph.depth of every returned graph *)
}.

Definition gen_of (l : list tree) (i : nat) : res tree :=
  match nth_error l i with Some t => Ok t | None => Raise ValueError end.

Fixpoint pairs_eq (l : list tree) : list bool :=
  match l with
  | [] => []
  | x :: l' => map (fun y => tree_eqb x y) l' ++ pairs_eq l'
  end.
Fixpoint bools_eqb (l r : list bool) : bool :=
  match l, r with
  | [], [] => true
  | a :: l', b :: r' => Bool.eqb a b && bools_eqb l' r'
  | _, _ => false
  end.

Definition p_agree (v : vkind) (pop_size : nat) (o : pobs) : bool :=
  match pop_loop tree tree_eqb (veval v) (gen_of (p_generated o)) pop_size MAX_GRAPH_GEN_ATTEMPTS 0 [],
        p_result o with
  | (Ok pop, n), Some obs =>
      all2 tree_same pop obs && (n =? length (p_generated o)) && negb (p_raised o) &&
      bools_eqb (pairs_eq obs) (p_equal_pairs o) && forallb (fun b => b) (p_accepted o) &&
      all2 Nat.eqb (map tdepth obs) (p_depths o)
  | (Raise ValueError, n), None => (n =? S (length (p_generated o))) && p_raised o
  | _, _ => false
  end.

(* the property on the observed population: all accepted, pairwise not equal, at most pop_size
   many, every graph within the depth and arity bounds *)
Definition p_holds (rq : req) (partial : bool) (pop_size : nat) (o : pobs) : bool :=
  match p_result o with
  | Some pop =>
      (length pop <=? pop_size) && (length (p_accepted o) =? length pop) &&
      forallb (fun b => b) (p_accepted o) &&
      (length (p_equal_pairs o) =? length pop * (length pop - 1) / 2) &&
      forallb negb (p_equal_pairs o) &&
      forallb negb (pairs_eq pop) &&      (* structural equality, independent of the implementation's == *)
      forallb (fun d => d <=? depth_bound rq None) (p_depths o) && (length (p_depths o) =? length pop) &&
      forallb (fun t => (tdepth t <=? depth_bound rq None) &&
                        (if partial then arity_upper_ok rq t else arity_ok rq t)) pop
  | None => p_raised o
  end.

(* ------------------------------------------------------------------ populations from a scripted graph stream *)
(* A custom generation function may return any graph, also with several sinks.  LinkedGraph.__eq__
   compares the SETS of the sinks' descriptive ids, so for equality a graph is the list of its
   sinks unfolded into trees (a shared ancestor is unfolded once per path), and two graphs are
   equal when every sink code of one occurs among the sink codes of the other.  The verifier is
   an arbitrary predicate: its answer travels with the graph. *)
Definition forest := list tree.
Definition forest_eqb (a b : forest) : bool :=
  let ca := map code a in let cb := map code b in
  forallb (fun c => existsb (list_eqb c) cb) ca && forallb (fun c => existsb (list_eqb c) ca) cb.
Definition forest_same (a b : forest) : bool := all2 tree_same a b.
Definition sgraph := (bool * forest)%type.          (* (verifier(graph), sinks) *)

Record sobs := mkSObs {
  s_generated : list sgraph;       (* every graph the generation function returned, in order *)
  s_result : list forest;          (* the returned population *)
  s_accepted : list bool;          (* verifier(g) for every returned graph *)
  s_equal_pairs : list bool        (* g_i == g_j (the implementation's ==) for all i < j returned *)
}.

Definition sgen_of (l : list sgraph) (i : nat) : res sgraph :=
  match nth_error l i with Some g => Ok g | None => Raise ValueError end.
Fixpoint fpairs_eq (l : list forest) : list bool :=
  match l with [] => [] | x :: l' => map (fun y => forest_eqb x y) l' ++ fpairs_eq l' end.

Definition s_agree (pop_size : nat) (o : sobs) : bool :=
  match pop_loop sgraph (fun a b => forest_eqb (snd a) (snd b)) fst (sgen_of (s_generated o)) pop_size
                 MAX_GRAPH_GEN_ATTEMPTS 0 [] with
  | (Ok pop, n) =>
      all2 forest_same (map snd pop) (s_result o) && (n =? length (s_generated o)) &&
      bools_eqb (fpairs_eq (s_result o)) (s_equal_pairs o) && forallb (fun b => b) (s_accepted o)
  | _ => false
  end.

(* the property on the observed population.  "No two equal graphs" is judged twice: with the
   implementation's own == answers, and - independently of that operator - with graph equality as
   it is defined on the unchanged tree (C13): equal sets of sink descriptive ids, computed here
   from the observed structure (forest_eqb).  So a changed __eq__ cannot hide a duplicate. *)
Definition s_holds (pop_size : nat) (o : sobs) : bool :=
  let n := length (s_result o) in
  (n <=? pop_size) && (length (s_accepted o) =? n) && forallb (fun b => b) (s_accepted o) &&
  (length (s_equal_pairs o) =? n * (n - 1) / 2) && forallb negb (s_equal_pairs o) &&
  forallb negb (fpairs_eq (s_result o)).

(* ------------------------------------------------------------------ populations from given initial graphs *)
(* with_initial_graphs(...) and one or more calls of the same generator object: every call answers
   the first pop_size given graphs (the stored list is truncated once, the adapter maps domain
   graphs to optimisation graphs of the same structure) *)
Record eobs := mkEObs {
  e_given : list forest;             (* the initial graphs handed to with_initial_graphs *)
  e_results : list (list forest)     (* what each successive call returned *)
}.

Definition e_agree (pop_size : nat) (o : eobs) : bool :=
  match initial_population forest forest_eqb (fun _ => true) (fun _ => Raise ValueError) pop_size
                           MAX_GRAPH_GEN_ATTEMPTS (e_given o) with
  | (Ok pop, _) => negb (is_nil (e_given o)) && forallb (fun r => all2 forest_same r pop) (e_results o)
  | _ => false
  end.

(* never more graphs than requested *)
Definition e_holds (pop_size : nat) (o : eobs) : bool :=
  forallb (fun r => length r <=? pop_size) (e_results o).
