(* Contracts of the random graph factory and of the initial population generator, for every
   choice stream, verifier, equality and generator. *)
From Coq Require Import List Arith Bool Lia.
From GolemV Require Import Gen.Factory.
Import ListNotations.

(* ------------------------------------------------------------------ trees *)
Lemma max_list_le : forall (l : list tree) d,
  (forall k, In k l -> tdepth k <= d) -> fold_right Nat.max 0 (map tdepth l) <= d.
Proof.
  induction l as [|x l IH]; simpl; intros d H; [lia|].
  assert (tdepth x <= d) by (apply H; auto).
  assert (fold_right Nat.max 0 (map tdepth l) <= d) by (apply IH; intros; apply H; auto). lia.
Qed.

Lemma tdepth_node : forall n kids d, (forall k, In k kids -> tdepth k <= d) -> tdepth (T n kids) <= S d.
Proof. intros. simpl. apply le_n_S. apply max_list_le. auto. Qed.

Lemma arity_ok_node : forall rq n kids,
  arity_ok rq (T n kids) =
  (is_nil kids || ((min_arity rq <=? length kids) && (length kids <=? max_arity rq))) &&
  forallb (arity_ok rq) kids.
Proof. reflexivity. Qed.

(* depth allowed for a node at height hc *)
Definition dmax (md hc : nat) : nat := Nat.max 1 (md - hc).

(* what graph_growth adds below a node whose children sit at height hc *)
Definition node_ok (rq : req) (partial : bool) (t : tree) : Prop :=
  arity_upper_ok rq t = true /\ (partial = false -> arity_ok rq t = true).

Definition kids_ok (rq : req) (partial : bool) (md hc : nat) (kids : list tree) : Prop :=
  length kids <= max_arity rq /\ (partial = false -> min_arity rq <= length kids) /\
  forall k, In k kids -> tdepth k <= dmax md hc /\ node_ok rq partial k.

Lemma arity_upper_node : forall rq n kids,
  arity_upper_ok rq (T n kids) = (length kids <=? max_arity rq) && forallb (arity_upper_ok rq) kids.
Proof. reflexivity. Qed.

Lemma node_ok_intro : forall rq partial n kids,
  length kids <= max_arity rq -> (partial = false -> min_arity rq <= length kids) ->
  (forall k, In k kids -> node_ok rq partial k) -> node_ok rq partial (T n kids).
Proof.
  intros rq partial n kids Hhi Hlo Hk. split.
  - rewrite arity_upper_node. apply andb_true_iff. split; [apply Nat.leb_le; auto|].
    apply forallb_forall. intros k Hin. apply Hk. auto.
  - intros Hp. rewrite arity_ok_node. apply andb_true_iff. split.
    + apply orb_true_iff. right. apply andb_true_iff. split; apply Nat.leb_le; auto.
    + apply forallb_forall. intros k Hin. apply Hk; auto.
Qed.

Lemma node_ok_leaf : forall rq partial n, node_ok rq partial (T n []).
Proof. intros. split; [reflexivity|intros; reflexivity]. Qed.

Lemma offspring_spec : forall rq partial md hc ntypes (rec : list nat -> res (list tree * list nat)) may_grow,
  (forall cs kids cs', rec cs = Ok (kids, cs') -> kids_ok rq partial md (S hc) kids) ->
  may_grow = negb (md - 1 <=? hc) ->
  forall n cs l cs', offspring rec may_grow partial ntypes n cs = Ok (l, cs') ->
  length l <= n /\ (partial = false -> length l = n) /\
  forall t, In t l -> tdepth t <= dmax md hc /\ node_ok rq partial t.
Proof.
  intros rq partial md hc ntypes rec may_grow Hrec Hm. induction n as [|n IH]; simpl; intros cs l cs' H.
  - inversion H; subst. split; auto. split; auto. intros t [].
  - destruct (draw cs) as (c, cs1). destruct (get_node partial ntypes c) as [nm|] eqn:Eg.
    + destruct (if may_grow then let '(coin, cs2) := draw cs1 in if coin =? 0 then Ok ([], cs2) else rec cs2
                else Ok ([], cs1)) as [(kids, cs3)|] eqn:Esub; [|discriminate].
      destruct (offspring rec may_grow partial ntypes n cs3) as [(rest, cs4)|] eqn:Erest; [|discriminate].
      inversion H; subst l cs4. destruct (IH _ _ _ Erest) as (Hl & Hl' & Hall).
      split; [simpl; lia|]. split; [intros Hp; simpl; rewrite Hl'; auto|].
      intros t [<-|Hin]; [|auto].
      assert (Hleaf : tdepth (T nm []) <= dmax md hc /\ node_ok rq partial (T nm [])).
      { split; [simpl; unfold dmax; lia|apply node_ok_leaf]. }
      destruct may_grow.
      * destruct (draw cs1) as (coin, cs2). destruct (coin =? 0).
        -- inversion Esub; subst. auto.
        -- apply Hrec in Esub. destruct Esub as (Hhi & Hlo & Hk).
           symmetry in Hm. apply negb_true_iff, Nat.leb_gt in Hm. split.
           ++ replace (dmax md hc) with (S (dmax md (S hc))) by (unfold dmax; lia).
              apply tdepth_node. intros k Hk'. apply Hk. auto.
           ++ apply node_ok_intro; auto. intros k Hk'. apply Hk. auto.
      * inversion Esub; subst. auto.
    + destruct (IH _ _ _ H) as (Hl & Hl' & Hall). split; [lia|]. split; auto.
      intros Hp. subst partial. simpl in Eg. discriminate.
Qed.

Lemma growth_spec : forall fuel rq md partial ntypes h cs kids cs',
  growth fuel rq md partial ntypes h cs = Ok (kids, cs') -> kids_ok rq partial md (S h) kids.
Proof.
  induction fuel as [|k IH]; simpl; intros rq md partial ntypes h cs kids cs' H; [discriminate|].
  destruct (max_arity rq <? min_arity rq) eqn:Er; [discriminate|]. apply Nat.ltb_ge in Er.
  destruct (draw cs) as (a, cs1).
  apply (offspring_spec rq partial md (S h) ntypes _ _
           (fun cs kids cs' => IH rq md partial ntypes (S h) cs kids cs') eq_refl) in H.
  destruct H as (Hl & Hl' & Hall).
  pose proof (Nat.mod_upper_bound a (max_arity rq - min_arity rq + 1)).
  split; [lia|]. split; auto. intros Hp. rewrite Hl' by auto. lia.
Qed.

(* growth never runs out of fuel; the only exception is randint's for an empty range *)
Lemma offspring_total : forall (rec : list nat -> res (list tree * list nat)) may_grow partial ntypes,
  (may_grow = true -> forall cs, exists r, rec cs = Ok r) ->
  forall n cs, exists r, offspring rec may_grow partial ntypes n cs = Ok r.
Proof.
  intros rec may_grow partial ntypes Hrec. induction n as [|n IH]; simpl; intros cs; [eauto|].
  destruct (draw cs) as (c, cs1). destruct (get_node partial ntypes c) as [nm|]; [|apply IH].
  assert (Hsub : exists r, (if may_grow then let '(coin, cs2) := draw cs1 in if coin =? 0 then Ok ([], cs2) else rec cs2
                            else Ok ([], cs1)) = Ok r).
  { destruct may_grow; [|eauto]. destruct (draw cs1) as (coin, cs2). destruct (coin =? 0); eauto. }
  destruct Hsub as ((kids, cs3) & ->). destruct (IH cs3) as ((rest, cs4) & ->). eauto.
Qed.

Lemma growth_total : forall fuel rq md partial ntypes h cs, min_arity rq <= max_arity rq ->
  1 <= fuel -> md <= fuel + S h -> exists r, growth fuel rq md partial ntypes h cs = Ok r.
Proof.
  induction fuel as [|k IH]; intros rq md partial ntypes h cs Hr Hf Hm; [lia|]. simpl.
  destruct (max_arity rq <? min_arity rq) eqn:Er; [apply Nat.ltb_lt in Er; lia|].
  destruct (draw cs) as (a, cs1). apply offspring_total.
  intros Hg cs'. apply negb_true_iff, Nat.leb_gt in Hg. apply IH; auto; lia.
Qed.

Lemma growth_raise : forall fuel rq md partial ntypes h cs e, 1 <= fuel -> md <= fuel + S h ->
  growth fuel rq md partial ntypes h cs = Raise e -> e = ValueError /\ max_arity rq < min_arity rq.
Proof.
  intros fuel rq md partial ntypes h cs e Hf Hm H.
  destruct (Nat.lt_ge_cases (max_arity rq) (min_arity rq)) as [Hlt|Hge].
  - destruct fuel; [lia|]. simpl in H. apply Nat.ltb_lt in Hlt. rewrite Hlt in H. inversion H. auto.
    split; auto. apply Nat.ltb_lt. auto.
  - destruct (growth_total fuel rq md partial ntypes h cs Hge Hf Hm) as (r & E). congruence.
Qed.

(* ------------------------------------------------------------------ one attempt *)
Lemma attempt_spec : forall rq arg partial ntypes cs t,
  attempt rq (eff_depth rq arg) partial ntypes cs = Ok (Some t) ->
  tdepth t <= depth_bound rq arg /\ node_ok rq partial t.
Proof.
  intros rq arg partial ntypes cs t H. unfold attempt in H. destruct (draw cs) as (c, cs1).
  destruct (get_node partial ntypes c) as [nm|]; [|discriminate].
  unfold depth_bound. destruct (1 <? eff_depth rq arg) eqn:Ed.
  - apply Nat.ltb_lt in Ed.
    destruct (growth (S (eff_depth rq arg)) rq (eff_depth rq arg) partial ntypes 0 cs1) as [(kids, cs2)|] eqn:E; [|discriminate].
    inversion H; subst. apply growth_spec in E. destruct E as (Hhi & Hlo & Hk). split.
    + replace (Nat.max (eff_depth rq arg) 1) with (S (dmax (eff_depth rq arg) 1)) by (unfold dmax; lia).
      apply tdepth_node. intros k Hin. apply Hk. auto.
    + apply node_ok_intro; auto. intros k Hin. apply Hk. auto.
  - inversion H; subst. split; [simpl; lia|apply node_ok_leaf].
Qed.

Lemma attempt_raise : forall rq md partial ntypes cs e,
  attempt rq md partial ntypes cs = Raise e -> e = ValueError /\ max_arity rq < min_arity rq.
Proof.
  intros rq md partial ntypes cs e H. unfold attempt in H. destruct (draw cs) as (c, cs1).
  destruct (get_node partial ntypes c) as [nm|]; [|discriminate].
  destruct (1 <? md); [|discriminate].
  destruct (growth (S md) rq md partial ntypes 0 cs1) as [(kids, cs2)|e'] eqn:E; [discriminate|].
  inversion H; subst. apply growth_raise in E; auto; lia.
Qed.

(* ------------------------------------------------------------------ (4) random_graph *)
Lemma rg_loop_spec : forall V rq arg partial ntypes max_attempts fuel n_iter attempts,
  n_iter <= max_attempts -> max_attempts + 2 <= fuel + n_iter ->
  match rg_loop fuel V rq (eff_depth rq arg) partial ntypes max_attempts n_iter attempts with
  | (Ok t, n) => V t = true /\ tdepth t <= depth_bound rq arg /\ node_ok rq partial t /\
                 n_iter < n <= max_attempts
  | (Raise e, n) => e = ValueError /\ (max_arity rq < min_arity rq \/ n = S max_attempts)
  end.
Proof.
  intros V rq arg partial ntypes max_attempts. induction fuel as [|k IH]; intros n_iter attempts Hn Hf; [lia|].
  simpl. destruct (attempt rq (eff_depth rq arg) partial ntypes (hd [] attempts)) as [ot|e] eqn:Ea.
  - destruct (max_attempts <? S n_iter) eqn:El.
    + apply Nat.ltb_lt in El. split; auto. right. lia.
    + apply Nat.ltb_ge in El.
      assert (Hrec : match rg_loop k V rq (eff_depth rq arg) partial ntypes max_attempts (S n_iter) (tl attempts) with
                     | (Ok t, n) => V t = true /\ tdepth t <= depth_bound rq arg /\ node_ok rq partial t /\
                                    n_iter < n <= max_attempts
                     | (Raise e, n) => e = ValueError /\ (max_arity rq < min_arity rq \/ n = S max_attempts)
                     end).
      { specialize (IH (S n_iter) (tl attempts) El ltac:(lia)).
        destruct (rg_loop k V rq (eff_depth rq arg) partial ntypes max_attempts (S n_iter) (tl attempts)) as ([t'|e'], n); auto.
        destruct IH as (H1 & H2 & H3 & H4). split; [auto|split; [auto|split; [auto|lia]]]. }
      destruct ot as [t|]; auto. destruct (V t) eqn:Ev; auto.
      apply attempt_spec in Ea. destruct Ea. split; [auto|split; [auto|split; [auto|lia]]].
  - apply attempt_raise in Ea. destruct Ea. split; auto.
Qed.

Theorem random_graph_contract : forall V rq arg partial ntypes max_attempts attempts,
  match random_graph V rq arg partial ntypes max_attempts attempts with
  | (Ok t, n) => V t = true /\ tdepth t <= depth_bound rq arg /\ arity_upper_ok rq t = true /\
                 (partial = false -> arity_ok rq t = true) /\ 1 <= n <= max_attempts
  | (Raise e, n) => e = ValueError /\ (max_arity rq < min_arity rq \/ n = S max_attempts)
  end.
Proof.
  intros. unfold random_graph.
  pose proof (rg_loop_spec V rq arg partial ntypes max_attempts (S (S max_attempts)) 0 attempts ltac:(lia) ltac:(lia)) as H.
  destruct (rg_loop (S (S max_attempts)) V rq (eff_depth rq arg) partial ntypes max_attempts 0 attempts) as ([t|e], n); auto.
  destruct H as (H1 & H2 & (H3 & H3') & H4). repeat split; auto; lia.
Qed.

(* the bound is the effective max_depth: requirements.max_depth without an override, the override
   argument when it is at least 1 (an override of 0 is falsy and falls back) *)
Lemma depth_bound_plain : forall rq, 1 <= max_depth rq -> depth_bound rq None = max_depth rq.
Proof. intros rq H. unfold depth_bound, eff_depth. lia. Qed.

Lemma depth_bound_override : forall rq m, 1 <= m -> depth_bound rq (Some m) = m.
Proof. intros rq m H. unfold depth_bound, eff_depth. destruct m; lia. Qed.

Lemma depth_bound_zero_override : forall rq, depth_bound rq (Some 0) = depth_bound rq None.
Proof. reflexivity. Qed.

(* ------------------------------------------------------------------ (5) initial population *)
Section Population.
  Variable G : Type.
  Variable eqg : G -> G -> bool.
  Variable V : G -> bool.
  Variable gen : nat -> res G.
  Variable pop_size : nat.

  (* later members differ from all earlier ones *)
  Inductive distinct : list G -> Prop :=
  | d_nil : distinct []
  | d_snoc : forall l g, distinct l -> (forall p, In p l -> eqg p g = false) -> distinct (l ++ [g]).

  Lemma distinct_nth : forall l, distinct l -> forall i j d, i < j < length l ->
    eqg (nth i l d) (nth j l d) = false.
  Proof.
    intros l H. induction H; intros i j d Hij; [simpl in Hij; lia|].
    rewrite app_length in Hij. simpl in Hij.
    destruct (Nat.lt_ge_cases j (length l)) as [Hj|Hj].
    - rewrite !app_nth1 by lia. apply IHdistinct. lia.
    - assert (j = length l) by lia. subst j. rewrite (app_nth1 l [g] d) by lia.
      rewrite app_nth2 by lia. rewrite Nat.sub_diag. simpl. apply H0. apply nth_In. lia.
  Qed.

  Definition pop_ok (pop : list G) : Prop :=
    length pop <= pop_size /\ Forall (fun g => V g = true) pop /\ distinct pop.

  Lemma pop_loop_spec : forall iters i pop, pop_ok pop ->
    match pop_loop G eqg V gen pop_size iters i pop with
    | (Ok pop', n) => pop_ok pop' /\ i <= n <= i + iters
    | (Raise e, n) => exists j, gen j = Raise e /\ S j = n /\ i <= j < i + iters
    end.
  Proof.
    induction iters as [|k IH]; intros i pop Hok; simpl.
    - split; auto. lia.
    - destruct (length pop =? pop_size) eqn:El; [split; auto; lia|]. apply Nat.eqb_neq in El.
      destruct (gen i) as [g|e] eqn:Eg.
      + destruct (negb (existsb (fun p => eqg p g) pop) && V g) eqn:Ec.
        * apply andb_true_iff in Ec. destruct Ec as (Ex & Ev). apply negb_true_iff in Ex.
          assert (Hok' : pop_ok (pop ++ [g])).
          { destruct Hok as (Hl & Hv & Hd). split; [|split].
            - rewrite app_length. simpl. lia.
            - apply Forall_app. split; auto.
            - apply d_snoc; auto. intros p Hp. destruct (eqg p g) eqn:E; auto.
              assert (existsb (fun p => eqg p g) pop = true) by (apply existsb_exists; eauto). congruence. }
          specialize (IH (S i) _ Hok').
          destruct (pop_loop G eqg V gen pop_size k (S i) (pop ++ [g])) as ([p'|e'], n).
          -- destruct IH. split; auto. lia.
          -- destruct IH as (j & H1 & H2 & H3). exists j. repeat split; auto; lia.
        * specialize (IH (S i) _ Hok).
          destruct (pop_loop G eqg V gen pop_size k (S i) pop) as ([p'|e'], n).
          -- destruct IH. split; auto. lia.
          -- destruct IH as (j & H1 & H2 & H3). exists j. repeat split; auto; lia.
      + exists i. repeat split; auto; lia.
  Qed.

  Theorem initial_population_contract : forall max_attempts given,
    match initial_population G eqg V gen pop_size max_attempts given with
    | (Ok pop, n) =>
        length pop <= pop_size /\
        match given with
        | [] => Forall (fun g => V g = true) pop /\ distinct pop /\ n <= max_attempts
        | _ => pop = firstn pop_size given
        end
    | (Raise e, n) => given = [] /\ exists j, gen j = Raise e /\ j < max_attempts
    end.
  Proof.
    intros max_attempts given. unfold initial_population. destruct given as [|g0 given].
    - assert (H0 : pop_ok []) by (split; [simpl; lia|split; [constructor|constructor]]).
      pose proof (pop_loop_spec max_attempts 0 [] H0) as H.
      destruct (pop_loop G eqg V gen pop_size max_attempts 0 []) as ([pop|e], n).
      + destruct H as ((H1 & H2 & H3) & H4). repeat split; auto. lia.
      + destruct H as (j & H1 & H2 & H3). split; auto. exists j. split; auto. lia.
    - split; auto. apply firstn_le_length.
  Qed.
End Population.
