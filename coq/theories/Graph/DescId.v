(* Model of the structural identifier and of graph equality:
     golem/core/dag/graph_node.py        descriptive_id_recursive
     golem/core/dag/linked_graph_node.py description()
     golem/core/dag/linked_graph.py      root_nodes, node_children, __eq__, descriptive_id
   Definitions only (proofs: DescIdProofs.v).

   Representation.  A graph is the list of its node objects in listing order (graph.nodes);
   a node identity is its index in that list, parent links are indices (the graph is closed:
   every parent is listed, which add_node guarantees).  uid is an ordinary field. *)
From Coq Require Import List String Ascii Bool Arith Permutation.
Import ListNotations.
Local Open Scope string_scope.

Record node := mk_node {
  n_uid : string;            (* node.uid *)
  n_name : string;           (* node.name  = str(content['name']) or '' when None *)
  n_params : string;         (* str(node.parameters) when truthy, "" when {} / None *)
  n_parents : list nat }.    (* node.nodes_from *)

Definition dg := list node.

(* LinkedGraphNode.description() for a string name:
     label = self.name or self.uid
     f'n_{label}' if not self.parameters else f'n_{label}_{self.parameters}' *)
Definition label (nd : node) : string :=
  let l := if String.eqb (n_name nd) "" then n_uid nd else n_name nd in
  if String.eqb (n_params nd) "" then "n_" ++ l else "n_" ++ l ++ "_" ++ n_params nd.

(* list.sort() on str: code-point order, shorter prefix first = String.leb.
   (The result of sorting is unique for a total order, so the algorithm is immaterial;
   insertion sort is used.) *)
Fixpoint insert (a : string) (l : list string) : list string :=
  match l with
  | [] => [a]
  | b :: l' => if String.leb a b then a :: l else b :: insert a l'
  end.

Fixpoint sort (l : list string) : list string :=
  match l with
  | [] => []
  | a :: l' => insert a (sort l')
  end.

Fixpoint map_opt {A B} (f : A -> option B) (l : list A) : option (list B) :=
  match l with
  | [] => Some []
  | a :: l' => match f a, map_opt f l' with
               | Some b, Some bs => Some (b :: bs)
               | _, _ => None
               end
  end.

Definition mem (v : nat) (l : list nat) : bool := existsb (Nat.eqb v) l.

(* descriptive_id_recursive(current_node, visited_nodes).  Every parent receives its own
   copy of visited_nodes (after current_node was appended), so `visited` is exactly the
   path from the start node to the current one.  None = out of fuel. *)
Fixpoint descr_fuel (g : dg) (fuel : nat) (visited : list nat) (v : nat) : option string :=
  match fuel with
  | O => None
  | S k =>
      match nth_error g v with
      | None => None
      | Some nd =>
          if mem v visited then Some "ID_CYCLED"
          else
            match n_parents nd with
            | [] => Some ("/" ++ label nd)
            | ps =>
                match map_opt (fun p => option_map (fun s => s ++ ";")
                                           (descr_fuel g k (visited ++ [v]) p)) ps with
                | None => None
                | Some items =>
                    Some ("(" ++ String.concat ";" (sort items) ++ ")" ++ "/" ++ label nd)
                end
            end
      end
  end.

(* node.descriptive_id; length g + 1 levels always suffice (DescIdProofs.descr_total) *)
Definition descr (g : dg) (v : nat) : option string := descr_fuel g (S (List.length g)) [] v.

(* node_children(node) is non-empty *)
Definition has_child (g : dg) (v : nat) : bool :=
  existsb (fun nd => mem v (n_parents nd)) g.

(* root_nodes(): nodes without children, in listing order *)
Definition sinks (g : dg) : list nat :=
  filter (fun v => negb (has_child g v)) (seq 0 (List.length g)).

Definition sink_ids (g : dg) : option (list string) := map_opt (descr g) (sinks g).

Definition incl_b (l r : list string) : bool :=
  forallb (fun s => existsb (String.eqb s) r) l.

(* set(a) == set(b) *)
Definition set_eq_b (a b : list string) : bool := incl_b a b && incl_b b a.

(* LinkedGraph.__eq__ *)
Definition graph_eq_ids (a b : option (list string)) : option bool :=
  match a, b with
  | Some a, Some b => Some (set_eq_b a b)
  | _, _ => None
  end.

Definition graph_eq (g1 g2 : dg) : option bool := graph_eq_ids (sink_ids g1) (sink_ids g2).

(* sorted(self.nodes, key=lambda x: x.uid)[0] : first node carrying the least uid *)
Fixpoint min_uid_from (best : nat) (bu : string) (i : nat) (rest : list node) : nat :=
  match rest with
  | [] => best
  | nd :: r => if String.ltb (n_uid nd) bu then min_uid_from i (n_uid nd) (S i) r
               else min_uid_from best bu (S i) r
  end.

Definition min_uid_index (g : dg) : nat :=
  match g with
  | [] => 0
  | nd :: r => min_uid_from 0 (n_uid nd) 1 r
  end.

(* LinkedGraph.descriptive_id (after the fix: the ids of the root nodes are sorted) *)
Definition graph_id (g : dg) : option string :=
  match g with
  | [] => Some "EMPTY"
  | _ => match sinks g with
         | [] => descr g (min_uid_index g)
         | _ => option_map (fun ids => String.concat "" (sort ids)) (sink_ids g)
         end
  end.

(* well-formedness of the representation: parent links point to listed nodes *)
Definition wf_b (g : dg) : bool :=
  forallb (fun nd => forallb (fun p => Nat.ltb p (List.length g)) (n_parents nd)) g.

(* ------------------------------------------------------------------------------------ *)
(* Isomorphism candidates, decidable form: fl lists the image of every node index       *)
(* ------------------------------------------------------------------------------------ *)
Definition ap (fl : list nat) (v : nat) : nat := nth v fl 0.

Fixpoint remove1 (x : nat) (l : list nat) : option (list nat) :=
  match l with
  | [] => None
  | y :: l' => if Nat.eqb x y then Some l' else option_map (cons y) (remove1 x l')
  end.

(* same multiset of naturals *)
Fixpoint perm_b (l r : list nat) : bool :=
  match l with
  | [] => match r with [] => true | _ => false end
  | x :: l' => match remove1 x r with Some r' => perm_b l' r' | None => false end
  end.

Fixpoint nodup_b (l : list nat) : bool :=
  match l with
  | [] => true
  | x :: l' => negb (mem x l') && nodup_b l'
  end.

(* fl is a bijection between the node indices of g and g' that preserves description()
   and maps every parent list to a rearrangement of the image parent list *)
Definition iso_b (g g' : dg) (fl : list nat) : bool :=
  Nat.eqb (List.length g) (List.length g') && Nat.eqb (List.length fl) (List.length g) &&
  forallb (fun x => Nat.ltb x (List.length g')) fl && nodup_b fl &&
  wf_b g && wf_b g' &&
  forallb (fun v => match nth_error g v, nth_error g' (ap fl v) with
                    | Some nd, Some nd' =>
                        String.eqb (label nd') (label nd) &&
                        perm_b (n_parents nd') (map (ap fl) (n_parents nd))
                    | _, _ => false
                    end) (seq 0 (List.length g)).

(* ------------------------------------------------------------------------------------ *)
(* Rooted trees as mathematical objects                                                  *)
(* ------------------------------------------------------------------------------------ *)
(* a node label (the description() string) and the subtrees hanging below it
   (GOLEM's edges point from the leaves to the root: the children here are nodes_from) *)
Inductive tree := T (l : string) (cs : list tree).

Definition t_label (t : tree) : string := match t with T l _ => l end.
Definition t_children (t : tree) : list tree := match t with T _ cs => cs end.

Fixpoint t_size (t : tree) : nat :=
  match t with T _ cs => S (fold_right (fun c n => t_size c + n) 0 cs) end.

(* the bracket encoding descriptive_id_recursive produces on a tree *)
Fixpoint enc (t : tree) : string :=
  match t with
  | T l [] => "/" ++ l
  | T l cs => "(" ++ String.concat ";" (sort (map (fun c => enc c ++ ";") cs)) ++ ")" ++ "/" ++ l
  end.

(* the tree obtained by unfolding a graph from node v (None: out of fuel, i.e. a cycle
   or a dangling link was met) *)
Fixpoint unfold (g : dg) (fuel : nat) (v : nat) : option tree :=
  match fuel with
  | O => None
  | S k => match nth_error g v with
           | None => None
           | Some nd => option_map (T (label nd)) (map_opt (unfold g k) (n_parents nd))
           end
  end.

(* label- (hence name- and parameter-) preserving isomorphism of rooted unordered trees *)
Inductive tiso : tree -> tree -> Prop :=
| tiso_node : forall l cs cs' cs'',
    Permutation cs' cs'' -> Forall2 tiso cs cs'' -> tiso (T l cs) (T l cs').

(* the graph of a tree whose labels are given as (name, params) through `mk`:
   preorder numbering, the root is node `base` *)
Fixpoint child_roots (base : nat) (cs : list tree) : list nat :=
  match cs with
  | [] => []
  | c :: cs' => base :: child_roots (base + t_size c) cs'
  end.

(* nodes carry name = the tree label, no params, uid "u" (never used: names are non-empty) *)
Fixpoint flat (base : nat) (t : tree) : list node :=
  match t with
  | T l cs => mk_node "u" l "" (child_roots (S base) cs) ::
              (fix go (b : nat) (cs : list tree) : list node :=
                 match cs with
                 | [] => []
                 | c :: cs' => (flat b c ++ go (b + t_size c) cs')%list
                 end) (S base) cs
  end.

Definition dg_of_tree (t : tree) : dg := flat 0 t.

(* ------------------------------------------------------------------------------------ *)
(* Independent canonical form of a rooted unordered labelled tree (AHU style): children  *)
(* are canonicalised recursively and sorted by a structural order on trees; no use of    *)
(* the bracket strings.                                                                  *)
(* ------------------------------------------------------------------------------------ *)
Fixpoint tcmp (a b : tree) : comparison :=
  match a, b with
  | T la ca, T lb cb =>
      match String.compare la lb with
      | Eq => (fix lcmp (x y : list tree) : comparison :=
                 match x, y with
                 | [], [] => Eq
                 | [], _ :: _ => Lt
                 | _ :: _, [] => Gt
                 | a' :: x', b' :: y' =>
                     match tcmp a' b' with
                     | Eq => lcmp x' y'
                     | c => c
                     end
                 end) ca cb
      | c => c
      end
  end.

Fixpoint tinsert (a : tree) (l : list tree) : list tree :=
  match l with
  | [] => [a]
  | b :: l' => match tcmp a b with Gt => b :: tinsert a l' | _ => a :: l end
  end.

Fixpoint tsort (l : list tree) : list tree :=
  match l with
  | [] => []
  | a :: l' => tinsert a (tsort l')
  end.

Fixpoint canon (t : tree) : tree :=
  match t with T l cs => T l (tsort (map canon cs)) end.

Definition canon_eqb (a b : tree) : bool :=
  match tcmp a b with Eq => true | _ => false end.

(* ------------------------------------------------------------------------------------ *)
(* Executable forms used by the correspondence check                                     *)
(* ------------------------------------------------------------------------------------ *)
Definition opt_str_eqb (a : option string) (b : string) : bool :=
  match a with Some s => String.eqb s b | None => false end.

Definition opt_bool_eqb (a : option bool) (b : bool) : bool :=
  match a with Some x => Bool.eqb x b | None => false end.

Fixpoint list_str_eqb (a b : list string) : bool :=
  match a, b with
  | [], [] => true
  | x :: a', y :: b' => String.eqb x y && list_str_eqb a' b'
  | _, _ => false
  end.

Fixpoint list_nat_eqb (a b : list nat) : bool :=
  match a, b with
  | [], [] => true
  | x :: a', y :: b' => Nat.eqb x y && list_nat_eqb a' b'
  | _, _ => false
  end.

Definition implb (a b : bool) : bool := negb a || b.

(* What was observed on the implementation for one graph: graph.descriptive_id, the
   descriptive_id of every node in listing order, g == g, and for c = deepcopy(g):
   g == c, c == g, c.descriptive_id *)
Record gobs := {
  o_gid : string; o_nids : list string; o_refl : bool;
  o_copy_eq : bool; o_copy_eq' : bool; o_copy_gid : string }.

Definition all_descr (g : dg) : list (option string) := map (descr g) (seq 0 (List.length g)).

Fixpoint list_opt_str_eqb (a : list (option string)) (b : list string) : bool :=
  match a, b with
  | [], [] => true
  | x :: a', y :: b' => opt_str_eqb x y && list_opt_str_eqb a' b'
  | _, _ => false
  end.

(* model = implementation on one graph (s = sink_ids g, computed once) *)
Definition agree_g (g : dg) (s : option (list string)) (o : gobs) : bool :=
  let gid := graph_id g in
  let self := graph_eq_ids s s in        (* = graph_eq g g; a deep copy is the same value *)
  opt_str_eqb gid (o_gid o) && list_opt_str_eqb (all_descr g) (o_nids o) &&
  opt_bool_eqb self (o_refl o) &&
  opt_bool_eqb self (o_copy_eq o) && opt_bool_eqb self (o_copy_eq' o) &&
  opt_str_eqb gid (o_copy_gid o).

(* the single-graph clauses of the property on the observed behaviour: equality is
   reflexive, a deep copy equals its original (both ways) and has the same identifier *)
Definition holds_g (o : gobs) : bool :=
  o_refl o && o_copy_eq o && o_copy_eq' o && String.eqb (o_copy_gid o) (o_gid o).

(* A case of the permuted-DAG group: three graphs with their observations, a claimed
   isomorphism g1 -> g2 (or none), and the observed == between them. *)
Record triple_obs := {
  eq12 : bool; eq21 : bool; eq23 : bool; eq32 : bool; eq13 : bool; eq31 : bool }.

Definition agree_t (g1 g2 g3 : dg) (o1 o2 o3 : gobs) (t : triple_obs) : bool :=
  let s1 := sink_ids g1 in let s2 := sink_ids g2 in let s3 := sink_ids g3 in
  agree_g g1 s1 o1 && agree_g g2 s2 o2 && agree_g g3 s3 o3 &&
  (* graph_eq gi gj = graph_eq_ids si sj by definition *)
  opt_bool_eqb (graph_eq_ids s1 s2) (eq12 t) && opt_bool_eqb (graph_eq_ids s2 s1) (eq21 t) &&
  opt_bool_eqb (graph_eq_ids s2 s3) (eq23 t) && opt_bool_eqb (graph_eq_ids s3 s2) (eq32 t) &&
  opt_bool_eqb (graph_eq_ids s1 s3) (eq13 t) && opt_bool_eqb (graph_eq_ids s3 s1) (eq31 t).

(* the graph has a root node or is empty (true of every acyclic graph) *)
Definition has_root_b (g : dg) : bool :=
  match g with
  | [] => true
  | _ => match sinks g with [] => false | _ => true end
  end.

(* isomorphic graphs compare equal both ways, corresponding nodes have the same identifier,
   and the graphs have the same identifier (graphs in which every node has a child - they
   are cyclic, outside the property - take the identifier of the least-uid node and are
   exempt from the last clause) *)
Definition holds_iso (g1 g2 : dg) (fl : list nat) (o1 o2 : gobs) (e12 e21 : bool) : bool :=
  implb (iso_b g1 g2 fl)
        (e12 && e21 && implb (has_root_b g1) (String.eqb (o_gid o1) (o_gid o2)) &&
         list_str_eqb (o_nids o1) (map (fun v => nth (ap fl v) (o_nids o2) "") (seq 0 (List.length g1)))).

Definition holds_t (g1 g2 g3 : dg) (f12 f23 : list nat) (o1 o2 o3 : gobs) (t : triple_obs) : bool :=
  holds_g o1 && holds_g o2 && holds_g o3 &&
  holds_iso g1 g2 f12 o1 o2 (eq12 t) (eq21 t) &&
  holds_iso g2 g3 f23 o2 o3 (eq23 t) (eq32 t) &&
  (* symmetric *)
  Bool.eqb (eq12 t) (eq21 t) && Bool.eqb (eq23 t) (eq32 t) && Bool.eqb (eq13 t) (eq31 t) &&
  (* transitive *)
  implb (eq12 t && eq23 t) (eq13 t) && implb (eq13 t && eq32 t) (eq12 t) &&
  implb (eq21 t && eq13 t) (eq23 t).

(* The all-pairs tree group.  For tree number i of the pool the implementation reported
   its identifier and the list of pool positions j with  g_i == g_j  resp. with
   id_i = id_j.  `positions` turns a row of booleans into that list. *)
Fixpoint positions_from (i : nat) (row : list bool) : list nat :=
  match row with
  | [] => []
  | b :: r => if b then i :: positions_from (S i) r else positions_from (S i) r
  end.

Definition descr_tree (t : tree) : option string := descr (dg_of_tree t) 0.

(* model: identifier string and the row of == (graph_eq through the precomputed sink ids) *)
Definition agree_tree (model_sinks : list (option (list string))) (t : tree)
           (obs_id : string) (obs_eq_row : list nat) : bool :=
  let g := dg_of_tree t in
  let s := sink_ids g in
  opt_str_eqb (graph_id g) obs_id && opt_str_eqb (descr g 0) obs_id &&
  list_nat_eqb obs_eq_row
    (positions_from 0 (map (fun s' => match graph_eq_ids s s' with Some b => b | None => false end)
                           model_sinks)).

(* property (both directions, for trees): == holds exactly for the pairs with the same
   canonical form, and so does equality of the identifiers *)
Definition holds_tree (canons : list tree) (t : tree) (obs_eq_row obs_id_row : list nat) : bool :=
  let expected := positions_from 0 (map (canon_eqb (canon t)) canons) in
  list_nat_eqb obs_eq_row expected && list_nat_eqb obs_id_row expected.
