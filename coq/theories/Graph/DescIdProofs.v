(* Proofs about the model Graph/DescId.v (property C13). *)
From Coq Require Import List String Ascii Bool Arith Permutation Lia NArith.
From GolemV Require Import Graph.DescId.
Import ListNotations.
Local Open Scope string_scope.

Notation llen := List.length.

(* ==================================================================================== *)
(* 1. the order on strings and the sort                                                  *)
(* ==================================================================================== *)

Lemma leb_trans a b c : String.leb a b = true -> String.leb b c = true -> String.leb a c = true.
Proof.
  unfold String.leb. revert b c.
  induction a as [|x a IH]; intros [|y b] [|z c]; simpl; auto; try discriminate.
  unfold Ascii.compare.
  destruct (N.compare_spec (N_of_ascii x) (N_of_ascii y)) as [E1|E1|E1];
    destruct (N.compare_spec (N_of_ascii y) (N_of_ascii z)) as [E2|E2|E2];
    destruct (N.compare_spec (N_of_ascii x) (N_of_ascii z)) as [E3|E3|E3];
    try lia; auto; try discriminate.
  apply IH.
Qed.

Lemma insert_comm a b l : insert a (insert b l) = insert b (insert a l).
Proof.
  induction l as [|c l IH]; simpl.
  - destruct (String.leb a b) eqn:E1, (String.leb b a) eqn:E2; auto.
    + rewrite (String.leb_antisym _ _ E1 E2). reflexivity.
    + destruct (String.leb_total a b); congruence.
  - destruct (String.leb b c) eqn:Ebc, (String.leb a c) eqn:Eac; simpl;
      rewrite ?Ebc, ?Eac.
    + destruct (String.leb a b) eqn:E1, (String.leb b a) eqn:E2; auto.
      * rewrite (String.leb_antisym _ _ E1 E2). reflexivity.
      * destruct (String.leb_total a b); congruence.
    + destruct (String.leb a b) eqn:E1.
      * rewrite (leb_trans _ _ _ E1 Ebc) in Eac. discriminate.
      * reflexivity.
    + destruct (String.leb b a) eqn:E1.
      * rewrite (leb_trans _ _ _ E1 Eac) in Ebc. discriminate.
      * reflexivity.
    + rewrite IH. reflexivity.
Qed.

(* the sorted result does not depend on the order of the input *)
Lemma sort_perm l l' : Permutation l l' -> sort l = sort l'.
Proof.
  induction 1; simpl; try congruence.
  apply insert_comm.
Qed.

Lemma insert_perm a l : Permutation (insert a l) (a :: l).
Proof.
  induction l as [|b l IH]; simpl; auto.
  destruct (String.leb a b); auto.
  rewrite IH. apply perm_swap.
Qed.

Lemma sort_permutation l : Permutation (sort l) l.
Proof.
  induction l as [|a l IH]; simpl; auto.
  rewrite insert_perm. auto.
Qed.

Lemma sort_nil_iff l : sort l = [] <-> l = [].
Proof.
  split; intros H.
  - apply Permutation_nil. rewrite <- H. apply sort_permutation.
  - subst. reflexivity.
Qed.

Inductive sorted : list string -> Prop :=
| sorted_nil : sorted []
| sorted_one : forall a, sorted [a]
| sorted_cons : forall a b l, String.leb a b = true -> sorted (b :: l) -> sorted (a :: b :: l).

Lemma insert_sorted a l : sorted l -> sorted (insert a l).
Proof.
  induction 1; simpl.
  - constructor.
  - destruct (String.leb a a0) eqn:E; constructor; auto; try constructor.
    destruct (String.leb_total a a0); congruence.
  - simpl in IHsorted. destruct (String.leb a a0) eqn:E.
    + constructor; auto. constructor; auto.
    + destruct (String.leb a b) eqn:E2.
      * constructor; [destruct (String.leb_total a a0); congruence|]. constructor; auto.
      * constructor; auto.
Qed.

(* sort really sorts (code-point order) *)
Lemma sort_sorted l : sorted (sort l).
Proof. induction l; simpl; [constructor|apply insert_sorted; auto]. Qed.

(* ==================================================================================== *)
(* 2. map_opt                                                                            *)
(* ==================================================================================== *)

Lemma map_opt_ext {A B} (f h : A -> option B) l :
  (forall a, In a l -> f a = h a) -> map_opt f l = map_opt h l.
Proof.
  induction l as [|a l IH]; simpl; intros H; auto.
  rewrite (H a), IH; auto.
Qed.

Lemma map_opt_map {A B C} (f : B -> option C) (h : A -> B) l :
  map_opt f (map h l) = map_opt (fun a => f (h a)) l.
Proof. induction l as [|a l IH]; simpl; auto. rewrite IH. reflexivity. Qed.

Lemma map_opt_total {A B} (f : A -> option B) l :
  (forall a, In a l -> exists b, f a = Some b) -> exists bs, map_opt f l = Some bs.
Proof.
  induction l as [|a l IH]; simpl; intros H; eauto.
  destruct (H a) as [b Hb]; auto. destruct IH as [bs Hbs]; auto.
  rewrite Hb, Hbs. eauto.
Qed.

Lemma map_opt_Some {A B} (f : A -> option B) l bs :
  map_opt f l = Some bs -> Forall2 (fun a b => f a = Some b) l bs.
Proof.
  revert bs. induction l as [|a l IH]; simpl; intros bs H.
  - inversion H. constructor.
  - destruct (f a) eqn:E; try discriminate. destruct (map_opt f l) eqn:E2; try discriminate.
    inversion H; subst. constructor; auto.
Qed.

Lemma Forall2_map_opt {A B} (f : A -> option B) l bs :
  Forall2 (fun a b => f a = Some b) l bs -> map_opt f l = Some bs.
Proof. induction 1; simpl; auto. rewrite H, IHForall2. reflexivity. Qed.

Lemma map_opt_length {A B} (f : A -> option B) l bs : map_opt f l = Some bs -> llen bs = llen l.
Proof. intros H. apply map_opt_Some in H. induction H; simpl; auto. Qed.

Lemma map_opt_In {A B} (f : A -> option B) l bs a :
  map_opt f l = Some bs -> In a l -> exists b, f a = Some b /\ In b bs.
Proof.
  intros H. apply map_opt_Some in H. induction H; simpl; intros [].
  - subst. eauto.
  - destruct IHForall2 as [b [? ?]]; eauto.
Qed.

(* permuting the argument list permutes the results (or both fail) *)
Lemma map_opt_perm {A B} (f : A -> option B) l l' :
  Permutation l l' ->
  match map_opt f l, map_opt f l' with
  | Some a, Some b => Permutation a b
  | None, None => True
  | _, _ => False
  end.
Proof.
  induction 1; simpl.
  - auto.
  - destruct (f x); [|destruct (map_opt f l), (map_opt f l'); tauto].
    destruct (map_opt f l), (map_opt f l'); auto.
  - destruct (f x), (f y), (map_opt f l); auto. apply perm_swap.
  - destruct (map_opt f l), (map_opt f l'), (map_opt f l''); try tauto.
    eapply perm_trans; eauto.
Qed.

Lemma sorted_items_perm {A} (f : A -> option string) l l' :
  Permutation l l' -> option_map sort (map_opt f l) = option_map sort (map_opt f l').
Proof.
  intros H. pose proof (map_opt_perm f l l' H) as P.
  destruct (map_opt f l), (map_opt f l'); simpl; try tauto.
  rewrite (sort_perm _ _ P). reflexivity.
Qed.

(* ==================================================================================== *)
(* 3. unfolding of descr_fuel                                                            *)
(* ==================================================================================== *)

Definition node_str (lab : string) (items : option (list string)) : option string :=
  match items with
  | None => None
  | Some its => Some ("(" ++ String.concat ";" its ++ ")" ++ "/" ++ lab)
  end.

Definition is_nil {A} (l : list A) : bool := match l with [] => true | _ => false end.

Definition item (g : dg) (k : nat) (vis : list nat) (p : nat) : option string :=
  option_map (fun s => s ++ ";") (descr_fuel g k vis p).

Lemma descr_fuel_S g k vis v :
  descr_fuel g (S k) vis v =
  match nth_error g v with
  | None => None
  | Some nd =>
      if mem v vis then Some "ID_CYCLED"
      else if is_nil (n_parents nd) then Some ("/" ++ label nd)
           else node_str (label nd) (option_map sort (map_opt (item g k (vis ++ [v])) (n_parents nd)))
  end.
Proof.
  cbn [descr_fuel]. destruct (nth_error g v) as [nd|]; auto.
  destruct (mem v vis); auto.
  destruct (n_parents nd) as [|p ps]; auto.
  cbn [is_nil]. fold (item g k (vis ++ [v])).
  destruct (map_opt (item g k (vis ++ [v])) (p :: ps)); reflexivity.
Qed.

Lemma mem_In v l : mem v l = true <-> In v l.
Proof.
  unfold mem. rewrite existsb_exists. split.
  - intros [x [H E]]. apply Nat.eqb_eq in E. subst. auto.
  - intros H. exists v. split; auto. apply Nat.eqb_refl.
Qed.

(* ==================================================================================== *)
(* 4. isomorphisms                                                                       *)
(* ==================================================================================== *)

(* parent links point to listed nodes *)
Definition wf (g : dg) : Prop :=
  forall v nd p, nth_error g v = Some nd -> In p (n_parents nd) -> p < llen g.

(* f renames the node identities of g into those of g': a bijection between the index
   ranges that preserves description() and maps each parent list to a rearrangement *)
Record iso (g g' : dg) (f : nat -> nat) : Prop := {
  iso_len : llen g = llen g';
  iso_ran : forall v, v < llen g -> f v < llen g';
  iso_inj : forall u v, u < llen g -> v < llen g -> f u = f v -> u = v;
  iso_node : forall v nd, nth_error g v = Some nd ->
      exists nd', nth_error g' (f v) = Some nd' /\ label nd' = label nd /\
                  Permutation (n_parents nd') (map f (n_parents nd)) }.

Lemma mem_iso g g' f vis v :
  iso g g' f -> v < llen g -> (forall u, In u vis -> u < llen g) ->
  mem (f v) (map f vis) = mem v vis.
Proof.
  intros I Hv Hvis.
  destruct (mem v vis) eqn:E.
  - apply mem_In. apply in_map. apply mem_In. exact E.
  - destruct (mem (f v) (map f vis)) eqn:E'; auto.
    apply mem_In in E'. apply in_map_iff in E'. destruct E' as [u [Hu Hin]].
    apply (iso_inj _ _ _ I) in Hu; auto. subst.
    apply mem_In in Hin. congruence.
Qed.

(* T1.1 (any fuel, any visited path, cycles allowed) *)
Lemma descr_fuel_iso g g' f :
  iso g g' f -> wf g ->
  forall k vis v, v < llen g -> (forall u, In u vis -> u < llen g) ->
  descr_fuel g k vis v = descr_fuel g' k (map f vis) (f v).
Proof.
  intros I W. induction k as [|k IH]; intros vis v Hv Hvis; [reflexivity|].
  rewrite !descr_fuel_S.
  destruct (nth_error g v) as [nd|] eqn:En.
  2:{ apply nth_error_None in En. lia. }
  destruct (iso_node _ _ _ I v nd En) as [nd' [En' [Hl Hp]]].
  rewrite En', Hl, (mem_iso g g' f vis v I Hv Hvis).
  destruct (mem v vis); auto.
  assert (Hnil : is_nil (n_parents nd') = is_nil (n_parents nd)).
  { destruct (n_parents nd) as [|p ps].
    - simpl in Hp. apply Permutation_sym, Permutation_nil in Hp. rewrite Hp. reflexivity.
    - destruct (n_parents nd'); auto. apply Permutation_nil in Hp. discriminate. }
  rewrite Hnil. destruct (is_nil (n_parents nd)); auto.
  f_equal.
  rewrite (sorted_items_perm _ _ _ Hp), map_opt_map.
  f_equal. apply map_opt_ext. intros p Hin.
  unfold item. rewrite IH.
  - rewrite map_app. reflexivity.
  - eapply W; eauto.
  - intros u Hu. apply in_app_or in Hu. destruct Hu as [Hu|[Hu|[]]]; auto. subst; auto.
Qed.

Theorem descr_iso g g' f :
  iso g g' f -> wf g -> forall v, v < llen g -> descr g v = descr g' (f v).
Proof.
  intros I W v Hv. unfold descr. rewrite <- (iso_len _ _ _ I).
  apply (descr_fuel_iso g g' f I W (S (llen g)) [] v Hv). intros u [].
Qed.

(* ------------------------------------------------------------------------------------ *)
(* fuel                                                                                  *)
(* ------------------------------------------------------------------------------------ *)

Lemma bounded_nodup_length n (l : list nat) :
  NoDup l -> (forall u, In u l -> u < n) -> llen l <= n.
Proof.
  intros ND B. rewrite <- (seq_length n 0). apply NoDup_incl_length; auto.
  intros u Hu. apply in_seq. specialize (B u Hu). lia.
Qed.

Lemma NoDup_snoc (l : list nat) v : NoDup l -> ~ In v l -> NoDup (l ++ [v]).
Proof.
  induction l as [|a l IH]; simpl; intros ND H.
  - constructor; auto.
  - inversion ND; subst. constructor.
    + intros Hin. apply in_app_or in Hin. destruct Hin as [Hin|[Hin|[]]]; auto.
    + apply IH; auto.
Qed.

(* the recursion never runs out of fuel when started with length g + 1 *)
Lemma descr_fuel_total g : wf g ->
  forall k vis v, NoDup vis -> (forall u, In u vis -> u < llen g) -> v < llen g ->
  llen g + 1 <= k + llen vis -> exists s, descr_fuel g k vis v = Some s.
Proof.
  intros W. induction k as [|k IH]; intros vis v ND B Hv Hk.
  - pose proof (bounded_nodup_length _ _ ND B). lia.
  - rewrite descr_fuel_S. destruct (nth_error g v) as [nd|] eqn:En.
    2:{ apply nth_error_None in En. lia. }
    destruct (mem v vis) eqn:Em; eauto.
    destruct (is_nil (n_parents nd)); eauto.
    destruct (map_opt_total (item g k (vis ++ [v])) (n_parents nd)) as [bs Hbs].
    + intros p Hp. unfold item.
      destruct (IH (vis ++ [v])%list p) as [s Hs].
      * apply NoDup_snoc; auto. intros Hin. apply mem_In in Hin. congruence.
      * intros u Hu. apply in_app_or in Hu. destruct Hu as [Hu|[Hu|[]]]; auto. subst; auto.
      * eapply W; eauto.
      * rewrite app_length. simpl. lia.
      * rewrite Hs. simpl. eauto.
    + rewrite Hbs. simpl. eauto.
Qed.
