(* Proofs about the model Graph/DescId.v (property C13). *)
From Coq Require Import List String Ascii Bool Arith Permutation Lia NArith.
From GolemV Require Import Graph.DescId.
Import ListNotations.
Local Open Scope string_scope.

Notation llen := List.length.

(* ==================================================================================== *)
(* 1. the order on strings and the sort                                                  *)
(* ==================================================================================== *)

Lemma leb_trans a b c : String.leb a b = true -> String.leb b c = true -> String.leb a c = true.
Proof.
  unfold String.leb. revert b c.
  induction a as [|x a IH]; intros [|y b] [|z c]; simpl; auto; try discriminate.
  unfold Ascii.compare.
  destruct (N.compare_spec (N_of_ascii x) (N_of_ascii y)) as [E1|E1|E1];
    destruct (N.compare_spec (N_of_ascii y) (N_of_ascii z)) as [E2|E2|E2];
    destruct (N.compare_spec (N_of_ascii x) (N_of_ascii z)) as [E3|E3|E3];
    try lia; auto; try discriminate.
  apply IH.
Qed.

Lemma insert_comm a b l : insert a (insert b l) = insert b (insert a l).
Proof.
  induction l as [|c l IH]; simpl.
  - destruct (String.leb a b) eqn:E1, (String.leb b a) eqn:E2; auto.
    + rewrite (String.leb_antisym _ _ E1 E2). reflexivity.
    + destruct (String.leb_total a b); congruence.
  - destruct (String.leb b c) eqn:Ebc, (String.leb a c) eqn:Eac; simpl;
      rewrite ?Ebc, ?Eac.
    + destruct (String.leb a b) eqn:E1, (String.leb b a) eqn:E2; auto.
      * rewrite (String.leb_antisym _ _ E1 E2). reflexivity.
      * destruct (String.leb_total a b); congruence.
    + destruct (String.leb a b) eqn:E1.
      * rewrite (leb_trans _ _ _ E1 Ebc) in Eac. discriminate.
      * reflexivity.
    + destruct (String.leb b a) eqn:E1.
      * rewrite (leb_trans _ _ _ E1 Eac) in Ebc. discriminate.
      * reflexivity.
    + rewrite IH. reflexivity.
Qed.

(* the sorted result does not depend on the order of the input *)
Lemma sort_perm l l' : Permutation l l' -> sort l = sort l'.
Proof.
  induction 1; simpl; try congruence.
  apply insert_comm.
Qed.

Lemma insert_perm a l : Permutation (insert a l) (a :: l).
Proof.
  induction l as [|b l IH]; simpl; auto.
  destruct (String.leb a b); auto.
  rewrite IH. apply perm_swap.
Qed.

Lemma sort_permutation l : Permutation (sort l) l.
Proof.
  induction l as [|a l IH]; simpl; auto.
  rewrite insert_perm. auto.
Qed.

Lemma sort_nil_iff l : sort l = [] <-> l = [].
Proof.
  split; intros H.
  - apply Permutation_nil. rewrite <- H. apply sort_permutation.
  - subst. reflexivity.
Qed.

Inductive sorted : list string -> Prop :=
| sorted_nil : sorted []
| sorted_one : forall a, sorted [a]
| sorted_cons : forall a b l, String.leb a b = true -> sorted (b :: l) -> sorted (a :: b :: l).

Lemma insert_sorted a l : sorted l -> sorted (insert a l).
Proof.
  induction 1; simpl.
  - constructor.
  - destruct (String.leb a a0) eqn:E; constructor; auto; try constructor.
    destruct (String.leb_total a a0); congruence.
  - simpl in IHsorted. destruct (String.leb a a0) eqn:E.
    + constructor; auto. constructor; auto.
    + destruct (String.leb a b) eqn:E2.
      * constructor; [destruct (String.leb_total a a0); congruence|]. constructor; auto.
      * constructor; auto.
Qed.

(* sort really sorts (code-point order) *)
Lemma sort_sorted l : sorted (sort l).
Proof. induction l; simpl; [constructor|apply insert_sorted; auto]. Qed.

(* ==================================================================================== *)
(* 2. map_opt                                                                            *)
(* ==================================================================================== *)

Lemma map_opt_ext {A B} (f h : A -> option B) l :
  (forall a, In a l -> f a = h a) -> map_opt f l = map_opt h l.
Proof.
  induction l as [|a l IH]; simpl; intros H; auto.
  rewrite (H a), IH; auto.
Qed.

Lemma map_opt_map {A B C} (f : B -> option C) (h : A -> B) l :
  map_opt f (map h l) = map_opt (fun a => f (h a)) l.
Proof. induction l as [|a l IH]; simpl; auto. rewrite IH. reflexivity. Qed.

Lemma map_opt_total {A B} (f : A -> option B) l :
  (forall a, In a l -> exists b, f a = Some b) -> exists bs, map_opt f l = Some bs.
Proof.
  induction l as [|a l IH]; simpl; intros H; eauto.
  destruct (H a) as [b Hb]; auto. destruct IH as [bs Hbs]; auto.
  rewrite Hb, Hbs. eauto.
Qed.

Lemma map_opt_Some {A B} (f : A -> option B) l bs :
  map_opt f l = Some bs -> Forall2 (fun a b => f a = Some b) l bs.
Proof.
  revert bs. induction l as [|a l IH]; simpl; intros bs H.
  - inversion H. constructor.
  - destruct (f a) eqn:E; try discriminate. destruct (map_opt f l) eqn:E2; try discriminate.
    inversion H; subst. constructor; auto.
Qed.

Lemma Forall2_map_opt {A B} (f : A -> option B) l bs :
  Forall2 (fun a b => f a = Some b) l bs -> map_opt f l = Some bs.
Proof. induction 1; simpl; auto. rewrite H, IHForall2. reflexivity. Qed.

Lemma map_opt_length {A B} (f : A -> option B) l bs : map_opt f l = Some bs -> llen bs = llen l.
Proof. intros H. apply map_opt_Some in H. induction H; simpl; auto. Qed.

Lemma map_opt_In {A B} (f : A -> option B) l bs a :
  map_opt f l = Some bs -> In a l -> exists b, f a = Some b /\ In b bs.
Proof.
  intros H. apply map_opt_Some in H. induction H; simpl; intros [].
  - subst. eauto.
  - destruct IHForall2 as [b [? ?]]; eauto.
Qed.

(* permuting the argument list permutes the results (or both fail) *)
Lemma map_opt_perm {A B} (f : A -> option B) l l' :
  Permutation l l' ->
  match map_opt f l, map_opt f l' with
  | Some a, Some b => Permutation a b
  | None, None => True
  | _, _ => False
  end.
Proof.
  induction 1; simpl.
  - auto.
  - destruct (f x); [|destruct (map_opt f l), (map_opt f l'); tauto].
    destruct (map_opt f l), (map_opt f l'); auto.
  - destruct (f x), (f y), (map_opt f l); auto. apply perm_swap.
  - destruct (map_opt f l), (map_opt f l'), (map_opt f l''); try tauto.
    eapply perm_trans; eauto.
Qed.

Lemma sorted_items_perm {A} (f : A -> option string) l l' :
  Permutation l l' -> option_map sort (map_opt f l) = option_map sort (map_opt f l').
Proof.
  intros H. pose proof (map_opt_perm f l l' H) as P.
  destruct (map_opt f l), (map_opt f l'); simpl; try tauto.
  rewrite (sort_perm _ _ P). reflexivity.
Qed.

(* ==================================================================================== *)
(* 3. unfolding of descr_fuel                                                            *)
(* ==================================================================================== *)

Definition node_str (lab : string) (items : option (list string)) : option string :=
  match items with
  | None => None
  | Some its => Some ("(" ++ String.concat ";" its ++ ")" ++ "/" ++ lab)
  end.

Definition is_nil {A} (l : list A) : bool := match l with [] => true | _ => false end.

Definition item (g : dg) (k : nat) (vis : list nat) (p : nat) : option string :=
  option_map (fun s => s ++ ";") (descr_fuel g k vis p).

Lemma descr_fuel_S g k vis v :
  descr_fuel g (S k) vis v =
  match nth_error g v with
  | None => None
  | Some nd =>
      if mem v vis then Some "ID_CYCLED"
      else if is_nil (n_parents nd) then Some ("/" ++ label nd)
           else node_str (label nd) (option_map sort (map_opt (item g k (vis ++ [v])) (n_parents nd)))
  end.
Proof.
  cbn [descr_fuel]. destruct (nth_error g v) as [nd|]; auto.
  destruct (mem v vis); auto.
  destruct (n_parents nd) as [|p ps]; auto.
  cbn [is_nil]. fold (item g k (vis ++ [v])).
  destruct (map_opt (item g k (vis ++ [v])) (p :: ps)); reflexivity.
Qed.

Lemma mem_In v l : mem v l = true <-> In v l.
Proof.
  unfold mem. rewrite existsb_exists. split.
  - intros [x [H E]]. apply Nat.eqb_eq in E. subst. auto.
  - intros H. exists v. split; auto. apply Nat.eqb_refl.
Qed.

(* ==================================================================================== *)
(* 4. isomorphisms                                                                       *)
(* ==================================================================================== *)

(* parent links point to listed nodes *)
Definition wf (g : dg) : Prop :=
  forall v nd p, nth_error g v = Some nd -> In p (n_parents nd) -> p < llen g.

(* f renames the node identities of g into those of g': a bijection between the index
   ranges that preserves description() and maps each parent list to a rearrangement *)
Record iso (g g' : dg) (f : nat -> nat) : Prop := {
  iso_len : llen g = llen g';
  iso_ran : forall v, v < llen g -> f v < llen g';
  iso_inj : forall u v, u < llen g -> v < llen g -> f u = f v -> u = v;
  iso_node : forall v nd, nth_error g v = Some nd ->
      exists nd', nth_error g' (f v) = Some nd' /\ label nd' = label nd /\
                  Permutation (n_parents nd') (map f (n_parents nd)) }.

Lemma mem_iso g g' f vis v :
  iso g g' f -> v < llen g -> (forall u, In u vis -> u < llen g) ->
  mem (f v) (map f vis) = mem v vis.
Proof.
  intros I Hv Hvis.
  destruct (mem v vis) eqn:E.
  - apply mem_In. apply in_map. apply mem_In. exact E.
  - destruct (mem (f v) (map f vis)) eqn:E'; auto.
    apply mem_In in E'. apply in_map_iff in E'. destruct E' as [u [Hu Hin]].
    apply (iso_inj _ _ _ I) in Hu; auto. subst.
    apply mem_In in Hin. congruence.
Qed.

(* T1.1 (any fuel, any visited path, cycles allowed) *)
Lemma descr_fuel_iso g g' f :
  iso g g' f -> wf g ->
  forall k vis v, v < llen g -> (forall u, In u vis -> u < llen g) ->
  descr_fuel g k vis v = descr_fuel g' k (map f vis) (f v).
Proof.
  intros I W. induction k as [|k IH]; intros vis v Hv Hvis; [reflexivity|].
  rewrite !descr_fuel_S.
  destruct (nth_error g v) as [nd|] eqn:En.
  2:{ apply nth_error_None in En. lia. }
  destruct (iso_node _ _ _ I v nd En) as [nd' [En' [Hl Hp]]].
  rewrite En', Hl, (mem_iso g g' f vis v I Hv Hvis).
  destruct (mem v vis); auto.
  assert (Hnil : is_nil (n_parents nd') = is_nil (n_parents nd)).
  { destruct (n_parents nd) as [|p ps].
    - simpl in Hp. apply Permutation_sym, Permutation_nil in Hp. rewrite Hp. reflexivity.
    - destruct (n_parents nd'); auto. apply Permutation_nil in Hp. discriminate. }
  rewrite Hnil. destruct (is_nil (n_parents nd)); auto.
  f_equal.
  rewrite (sorted_items_perm _ _ _ Hp), map_opt_map.
  f_equal. apply map_opt_ext. intros p Hin.
  unfold item. rewrite IH.
  - rewrite map_app. reflexivity.
  - eapply W; eauto.
  - intros u Hu. apply in_app_or in Hu. destruct Hu as [Hu|[Hu|[]]]; auto. subst; auto.
Qed.

Theorem descr_iso g g' f :
  iso g g' f -> wf g -> forall v, v < llen g -> descr g v = descr g' (f v).
Proof.
  intros I W v Hv. unfold descr. rewrite <- (iso_len _ _ _ I).
  apply (descr_fuel_iso g g' f I W (S (llen g)) [] v Hv). intros u [].
Qed.

(* ------------------------------------------------------------------------------------ *)
(* fuel                                                                                  *)
(* ------------------------------------------------------------------------------------ *)

Lemma bounded_nodup_length n (l : list nat) :
  NoDup l -> (forall u, In u l -> u < n) -> llen l <= n.
Proof.
  intros ND B. rewrite <- (seq_length n 0). apply NoDup_incl_length; auto.
  intros u Hu. apply in_seq. specialize (B u Hu). lia.
Qed.

Lemma NoDup_snoc (l : list nat) v : NoDup l -> ~ In v l -> NoDup (l ++ [v]).
Proof.
  induction l as [|a l IH]; simpl; intros ND H.
  - constructor; auto.
  - inversion ND; subst. constructor.
    + intros Hin. apply in_app_or in Hin. destruct Hin as [Hin|[Hin|[]]]; auto.
    + apply IH; auto.
Qed.

(* the recursion never runs out of fuel when started with length g + 1 *)
Lemma descr_fuel_total g : wf g ->
  forall k vis v, NoDup vis -> (forall u, In u vis -> u < llen g) -> v < llen g ->
  llen g + 1 <= k + llen vis -> exists s, descr_fuel g k vis v = Some s.
Proof.
  intros W. induction k as [|k IH]; intros vis v ND B Hv Hk.
  - pose proof (bounded_nodup_length _ _ ND B). lia.
  - rewrite descr_fuel_S. destruct (nth_error g v) as [nd|] eqn:En.
    2:{ apply nth_error_None in En. lia. }
    destruct (mem v vis) eqn:Em; eauto.
    destruct (is_nil (n_parents nd)); eauto.
    destruct (map_opt_total (item g k (vis ++ [v])) (n_parents nd)) as [bs Hbs].
    + intros p Hp. unfold item.
      destruct (IH (vis ++ [v])%list p) as [s Hs].
      * apply NoDup_snoc; auto. intros Hin. apply mem_In in Hin. congruence.
      * intros u Hu. apply in_app_or in Hu. destruct Hu as [Hu|[Hu|[]]]; auto. subst; auto.
      * eapply W; eauto.
      * rewrite app_length. simpl. lia.
      * rewrite Hs. simpl. eauto.
    + rewrite Hbs. simpl. eauto.
Qed.

Lemma Forall2_impl' {A B} (R1 R2 : A -> B -> Prop) l l' :
  (forall a b, R1 a b -> R2 a b) -> Forall2 R1 l l' -> Forall2 R2 l l'.
Proof. intros H. induction 1; constructor; auto. Qed.

Theorem descr_total g v : wf g -> v < llen g -> exists s, descr g v = Some s.
Proof.
  intros W Hv. apply descr_fuel_total; auto.
  - constructor.
  - intros u [].
  - simpl. lia.
Qed.

(* more fuel never changes a result *)
Lemma descr_fuel_mono1 g k : forall vis v s,
  descr_fuel g k vis v = Some s -> descr_fuel g (S k) vis v = Some s.
Proof.
  induction k as [|k IH]; intros vis v s H; [discriminate|].
  rewrite descr_fuel_S in H. rewrite descr_fuel_S.
  destruct (nth_error g v) as [nd|]; auto.
  destruct (mem v vis); auto.
  destruct (is_nil (n_parents nd)); auto.
  destruct (map_opt (item g k (vis ++ [v])) (n_parents nd)) as [its|] eqn:E; [|discriminate].
  assert (E' : map_opt (item g (S k) (vis ++ [v])) (n_parents nd) = Some its).
  { apply Forall2_map_opt. apply map_opt_Some in E.
    eapply Forall2_impl'; [|exact E]. intros p b Hb. unfold item in *.
    destruct (descr_fuel g k (vis ++ [v]) p) eqn:Ed; [|discriminate].
    rewrite (IH _ _ _ Ed). exact Hb. }
  rewrite E'. exact H.
Qed.

Lemma descr_fuel_mono g k k' vis v s :
  k <= k' -> descr_fuel g k vis v = Some s -> descr_fuel g k' vis v = Some s.
Proof. induction 1; auto. intros H0. apply descr_fuel_mono1. auto. Qed.

(* ==================================================================================== *)
(* 5. graph level                                                                        *)
(* ==================================================================================== *)

Lemma NoDup_map_inj_on (f : nat -> nat) l :
  NoDup l -> (forall u v, In u l -> In v l -> f u = f v -> u = v) -> NoDup (map f l).
Proof.
  induction 1 as [|a l Ha ND IH]; simpl; intros Inj; constructor.
  - intros Hin. apply in_map_iff in Hin. destruct Hin as [u [E Hu]].
    apply Inj in E; auto. subst. auto.
  - apply IH. intros; apply Inj; auto.
Qed.

Lemma iso_image_nodup g g' f : iso g g' f -> NoDup (map f (seq 0 (llen g))).
Proof.
  intros I. apply NoDup_map_inj_on; [apply seq_NoDup|].
  intros u v Hu Hv. apply in_seq in Hu, Hv. apply (iso_inj _ _ _ I); lia.
Qed.

Lemma iso_surj g g' f : iso g g' f ->
  forall v', v' < llen g' -> exists v, v < llen g /\ f v = v'.
Proof.
  intros I v' Hv'.
  assert (Hincl : incl (seq 0 (llen g')) (map f (seq 0 (llen g)))).
  { apply NoDup_length_incl.
    - eapply iso_image_nodup; eauto.
    - rewrite map_length, !seq_length, (iso_len _ _ _ I). auto.
    - intros x Hx. apply in_map_iff in Hx. destruct Hx as [u [E Hu]]. subst.
      apply in_seq in Hu. apply in_seq. pose proof (iso_ran _ _ _ I u). lia. }
  assert (Hin : In v' (seq 0 (llen g'))) by (apply in_seq; lia).
  apply Hincl, in_map_iff in Hin. destruct Hin as [v [E Hv]].
  apply in_seq in Hv. exists v. split; [lia|auto].
Qed.

Lemma has_child_spec g v :
  has_child g v = true <-> exists u nd, nth_error g u = Some nd /\ In v (n_parents nd).
Proof.
  unfold has_child. rewrite existsb_exists. split.
  - intros [nd [Hin Hm]]. apply In_nth_error in Hin. destruct Hin as [u Hu].
    exists u, nd. split; auto. apply mem_In. exact Hm.
  - intros [u [nd [Hu Hin]]]. exists nd. split; [eapply nth_error_In; eauto|apply mem_In; auto].
Qed.

Lemma has_child_iso g g' f : iso g g' f -> wf g ->
  forall v, v < llen g -> has_child g' (f v) = has_child g v.
Proof.
  intros I W v Hv.
  destruct (has_child g v) eqn:E.
  - apply has_child_spec in E. destruct E as [u [nd [Hu Hin]]].
    apply has_child_spec. destruct (iso_node _ _ _ I u nd Hu) as [nd' [Hu' [_ Hp]]].
    exists (f u), nd'. split; auto.
    eapply Permutation_in; [apply Permutation_sym; exact Hp|]. apply in_map. exact Hin.
  - destruct (has_child g' (f v)) eqn:E'; auto.
    apply has_child_spec in E'. destruct E' as [u' [nd' [Hu' Hin']]].
    assert (Hlt : u' < llen g') by (apply nth_error_Some; congruence).
    destruct (iso_surj _ _ _ I u' Hlt) as [u [Hu Efu]]. subst u'.
    destruct (nth_error g u) as [nd|] eqn:En.
    2:{ apply nth_error_None in En. lia. }
    destruct (iso_node _ _ _ I u nd En) as [nd'' [Hu'' [_ Hp]]].
    rewrite Hu' in Hu''. inversion Hu''; subst nd''.
    eapply Permutation_in in Hin'; [|exact Hp].
    apply in_map_iff in Hin'. destruct Hin' as [p [Efp Hp']].
    apply (iso_inj _ _ _ I) in Efp; auto; [|eapply W; eauto]. subst p.
    assert (has_child g v = true) by (apply has_child_spec; eauto). congruence.
Qed.

Lemma filter_map_comm {A B} (f : A -> B) (p : A -> bool) (q : B -> bool) l :
  (forall a, In a l -> q (f a) = p a) -> map f (filter p l) = filter q (map f l).
Proof.
  induction l as [|a l IH]; simpl; intros H; auto.
  rewrite (H a); auto. destruct (p a); simpl; rewrite IH; auto.
Qed.

Lemma Permutation_filter' {A} (p : A -> bool) l l' :
  Permutation l l' -> Permutation (filter p l) (filter p l').
Proof.
  induction 1; simpl; auto.
  - destruct (p x); auto.
  - destruct (p x), (p y); auto. apply perm_swap.
  - eapply perm_trans; eauto.
Qed.

Lemma sinks_lt g v : In v (sinks g) -> v < llen g.
Proof. unfold sinks. rewrite filter_In, in_seq. lia. Qed.

Lemma sinks_iso g g' f : iso g g' f -> wf g -> Permutation (sinks g') (map f (sinks g)).
Proof.
  intros I W. unfold sinks. rewrite <- (iso_len _ _ _ I).
  rewrite (filter_map_comm f _ (fun v => negb (has_child g' v))).
  2:{ intros v Hv. apply in_seq in Hv. rewrite (has_child_iso g g' f I W); auto. lia. }
  apply Permutation_filter'.
  apply NoDup_Permutation; [apply seq_NoDup|eapply iso_image_nodup; eauto|].
  intros x. rewrite in_seq, in_map_iff. split.
  - intros Hx. destruct (iso_surj _ _ _ I x) as [v [Hv E]]; [rewrite <- (iso_len _ _ _ I); lia|].
    exists v. split; auto. apply in_seq. lia.
  - intros [v [E Hv]]. apply in_seq in Hv. subst x.
    pose proof (iso_ran _ _ _ I v). rewrite (iso_len _ _ _ I). lia.
Qed.

Lemma sink_ids_total g : wf g -> exists a, sink_ids g = Some a.
Proof.
  intros W. apply map_opt_total. intros v Hv. apply descr_total; auto. apply sinks_lt; auto.
Qed.

Lemma sink_ids_iso g g' f : iso g g' f -> wf g ->
  exists a b, sink_ids g = Some a /\ sink_ids g' = Some b /\ Permutation a b.
Proof.
  intros I W. destruct (sink_ids_total g W) as [a Ha]. exists a.
  assert (E : map_opt (descr g') (map f (sinks g)) = Some a).
  { rewrite map_opt_map. rewrite <- Ha. unfold sink_ids. apply map_opt_ext.
    intros v Hv. symmetry. apply descr_iso; auto. apply sinks_lt; auto. }
  pose proof (map_opt_perm (descr g') _ _ (sinks_iso g g' f I W)) as P.
  rewrite E in P. unfold sink_ids.
  destruct (map_opt (descr g') (sinks g')) as [b|]; [|tauto].
  exists b. repeat split; auto. apply Permutation_sym; auto.
Qed.

Lemma incl_b_spec l r : incl_b l r = true <-> incl l r.
Proof.
  unfold incl_b. rewrite forallb_forall. split; intros H s Hs.
  - apply H in Hs. apply existsb_exists in Hs. destruct Hs as [x [Hx E]].
    apply String.eqb_eq in E. subst. auto.
  - apply existsb_exists. exists s. split; auto. apply String.eqb_refl.
Qed.

Lemma set_eq_b_spec a b : set_eq_b a b = true <-> (forall s, In s a <-> In s b).
Proof.
  unfold set_eq_b. rewrite andb_true_iff, !incl_b_spec. unfold incl. firstorder.
Qed.

(* T1.2 *)
Theorem graph_eq_iso g g' f : iso g g' f -> wf g -> graph_eq g g' = Some true.
Proof.
  intros I W. destruct (sink_ids_iso g g' f I W) as [a [b [Ha [Hb P]]]].
  unfold graph_eq, graph_eq_ids. rewrite Ha, Hb. f_equal. apply set_eq_b_spec.
  intros s. split; apply Permutation_in; auto. apply Permutation_sym; auto.
Qed.

Lemma sinks_nil : sinks [] = [].
Proof. reflexivity. Qed.

Theorem graph_id_iso g g' f : iso g g' f -> wf g -> (sinks g <> [] \/ g = []) ->
  graph_id g = graph_id g'.
Proof.
  intros I W H.
  destruct g as [|nd g0].
  - pose proof (iso_len _ _ _ I) as L. destruct g'; [reflexivity|discriminate].
  - destruct H as [H|H]; [|discriminate].
    pose proof (iso_len _ _ _ I) as L. destruct g' as [|nd' g0']; [discriminate|].
    destruct (sink_ids_iso _ _ f I W) as [a [b [Ha [Hb P]]]].
    pose proof (sinks_iso _ _ f I W) as PS.
    unfold graph_id. rewrite Ha, Hb.
    destruct (sinks (nd :: g0)) eqn:Es; [congruence|].
    destruct (sinks (nd' :: g0')) eqn:Es'.
    + apply Permutation_nil in PS. discriminate.
    + simpl. rewrite (sort_perm _ _ P). reflexivity.
Qed.

(* acyclicity: a topological rank exists *)
Definition dag (g : dg) : Prop :=
  exists rank : nat -> nat,
    forall v nd p, nth_error g v = Some nd -> In p (n_parents nd) -> rank p < rank v.

Lemma argmax (rank : nat -> nat) n : 0 < n -> exists v, v < n /\ forall u, u < n -> rank u <= rank v.
Proof.
  induction n as [|n IH]; [lia|]. intros _.
  destruct n as [|n].
  - exists 0. split; [lia|]. intros u Hu. replace u with 0 by lia. auto.
  - destruct IH as [v [Hv Hm]]; [lia|].
    destruct (le_lt_dec (rank (S n)) (rank v)).
    + exists v. split; [lia|]. intros u Hu. destruct (Nat.eq_dec u (S n)); [subst; auto|apply Hm; lia].
    + exists (S n). split; [lia|]. intros u Hu.
      destruct (Nat.eq_dec u (S n)); [subst; auto|]. specialize (Hm u). lia.
Qed.

(* a non-empty acyclic graph has a node without children *)
Lemma dag_has_sink g : dag g -> g <> [] -> sinks g <> [].
Proof.
  intros [rank R] Hne.
  destruct (argmax rank (llen g)) as [v [Hv Hm]].
  { destruct g; [congruence|simpl; lia]. }
  assert (Hin : In v (sinks g)).
  { unfold sinks. apply filter_In. split; [apply in_seq; lia|].
    destruct (has_child g v) eqn:E; auto.
    apply has_child_spec in E. destruct E as [u [nd [Hu Hp]]].
    assert (u < llen g) by (apply nth_error_Some; congruence).
    specialize (R u nd v Hu Hp). specialize (Hm u). lia. }
  intros E. rewrite E in Hin. destruct Hin.
Qed.

Theorem graph_id_iso_dag g g' f : iso g g' f -> wf g -> dag g -> graph_id g = graph_id g'.
Proof.
  intros I W D. apply (graph_id_iso g g' f I W).
  destruct g; [right; reflexivity|left]. apply dag_has_sink; auto. discriminate.
Qed.

(* T1.3 *)
Theorem graph_eq_refl g : wf g -> graph_eq g g = Some true.
Proof.
  intros W. destruct (sink_ids_total g W) as [a Ha]. unfold graph_eq, graph_eq_ids. rewrite Ha.
  f_equal. apply set_eq_b_spec. tauto.
Qed.

Theorem graph_eq_sym g1 g2 : graph_eq g1 g2 = graph_eq g2 g1.
Proof.
  unfold graph_eq, graph_eq_ids. destruct (sink_ids g1), (sink_ids g2); auto.
  unfold set_eq_b. rewrite andb_comm. reflexivity.
Qed.

Theorem graph_eq_trans g1 g2 g3 :
  graph_eq g1 g2 = Some true -> graph_eq g2 g3 = Some true -> graph_eq g1 g3 = Some true.
Proof.
  unfold graph_eq, graph_eq_ids. destruct (sink_ids g1), (sink_ids g2), (sink_ids g3); try discriminate.
  intros H1 H2. injection H1 as E1. injection H2 as E2. f_equal.
  rewrite set_eq_b_spec in *. intros s. rewrite E1. apply E2.
Qed.

(* graph_eq g1 g2 = Some true means exactly: the root nodes carry the same set of ids *)
Theorem graph_eq_spec g1 g2 :
  graph_eq g1 g2 = Some true <->
  exists a b, sink_ids g1 = Some a /\ sink_ids g2 = Some b /\ (forall s, In s a <-> In s b).
Proof.
  unfold graph_eq, graph_eq_ids. split.
  - destruct (sink_ids g1) as [a|], (sink_ids g2) as [b|]; try discriminate.
    intros H. injection H as E. rewrite set_eq_b_spec in E. exists a, b. repeat split; auto; apply E.
  - intros [a [b [Ha [Hb H]]]]. rewrite Ha, Hb. f_equal. apply set_eq_b_spec. auto.
Qed.

(* deepcopy: fresh node objects carrying the same fields (uid included), linked the same
   way and listed in the same order.  In the index representation the copy is described by
   a field-wise equal list. *)
Definition same_fields (a b : node) : Prop :=
  n_uid a = n_uid b /\ n_name a = n_name b /\ n_params a = n_params b /\ n_parents a = n_parents b.

Definition deep_copy (g g' : dg) : Prop := Forall2 same_fields g g'.

Lemma deep_copy_eq g g' : deep_copy g g' -> g = g'.
Proof.
  induction 1 as [|a b l l' [H1 [H2 [H3 H4]]] _ IH]; auto.
  destruct a, b; simpl in *; subst. reflexivity.
Qed.

Theorem deepcopy_eq g g' : wf g -> deep_copy g g' ->
  graph_eq g g' = Some true /\ graph_eq g' g = Some true /\ graph_id g' = graph_id g /\
  forall v, descr g' v = descr g v.
Proof.
  intros W C. apply deep_copy_eq in C. subst g'.
  repeat split; auto using graph_eq_refl.
Qed.

(* ==================================================================================== *)
(* 6. the executable isomorphism test of the correspondence check is sound               *)
(* ==================================================================================== *)

Lemma remove1_perm x l r : remove1 x l = Some r -> Permutation l (x :: r).
Proof.
  revert r. induction l as [|y l IH]; simpl; intros r H; [discriminate|].
  destruct (Nat.eqb x y) eqn:E.
  - apply Nat.eqb_eq in E. inversion H; subst. auto.
  - destruct (remove1 x l) as [r'|]; [|discriminate]. inversion H; subst.
    rewrite (IH r' eq_refl). apply perm_swap.
Qed.

Lemma perm_b_sound l r : perm_b l r = true -> Permutation l r.
Proof.
  revert r. induction l as [|x l IH]; simpl; intros r H.
  - destruct r; [auto|discriminate].
  - destruct (remove1 x r) as [r'|] eqn:E; [|discriminate].
    apply remove1_perm in E. rewrite E. constructor. auto.
Qed.

Lemma nodup_b_sound l : nodup_b l = true -> NoDup l.
Proof.
  induction l as [|x l IH]; simpl; intros H; constructor; apply andb_true_iff in H; destruct H as [H1 H2]; auto.
  intros Hin. apply mem_In in Hin. rewrite Hin in H1. discriminate.
Qed.

Lemma wf_b_spec g : wf_b g = true <-> wf g.
Proof.
  unfold wf_b, wf. rewrite forallb_forall. split.
  - intros H v nd p Hv Hp. apply nth_error_In in Hv. apply H in Hv.
    rewrite forallb_forall in Hv. apply Hv in Hp. apply Nat.ltb_lt in Hp. exact Hp.
  - intros H nd Hin. apply forallb_forall. intros p Hp. apply Nat.ltb_lt.
    apply In_nth_error in Hin. destruct Hin as [v Hv]. eapply H; eauto.
Qed.

Theorem iso_b_sound g g' fl : iso_b g g' fl = true -> iso g g' (ap fl) /\ wf g /\ wf g'.
Proof.
  unfold iso_b. rewrite !andb_true_iff.
  intros [[[[[[H1 H2] H3] H4] H5] H6] H7].
  apply Nat.eqb_eq in H1, H2. apply nodup_b_sound in H4.
  apply wf_b_spec in H5, H6. rewrite forallb_forall in H3, H7.
  split; [|split]; auto.
  constructor; auto.
  - intros v Hv. apply Nat.ltb_lt. apply H3. apply nth_In. lia.
  - intros u v Hu Hv E. unfold ap in E.
    rewrite (NoDup_nth fl 0) in H4. apply (H4 u v); auto; lia.
  - intros v nd Hv.
    assert (Hlt : v < llen g) by (apply nth_error_Some; congruence).
    specialize (H7 v). rewrite Hv in H7.
    destruct (nth_error g' (ap fl v)) as [nd'|]; [|discriminate H7; apply in_seq; lia].
    exists nd'. assert (Hin : In v (seq 0 (llen g))) by (apply in_seq; lia).
    apply H7 in Hin. apply andb_true_iff in Hin. destruct Hin as [Hl Hp].
    apply String.eqb_eq in Hl. apply perm_b_sound in Hp. auto.
Qed.

(* description() depends only on name and params when the name is not empty; so a
   renaming that preserves names and params (and arbitrary uids) preserves the label *)
Lemma label_name_params a b :
  n_name a = n_name b -> n_params a = n_params b -> n_name a <> "" -> label a = label b.
Proof.
  intros Hn Hp Hne. unfold label. rewrite <- Hn, <- Hp.
  destruct (String.eqb_spec (n_name a) ""); [contradiction|reflexivity].
Qed.

(* the same with fresh identities made explicit: uids are unconstrained *)
Record iso_np (g g' : dg) (f : nat -> nat) : Prop := {
  np_len : llen g = llen g';
  np_ran : forall v, v < llen g -> f v < llen g';
  np_inj : forall u v, u < llen g -> v < llen g -> f u = f v -> u = v;
  np_node : forall v nd, nth_error g v = Some nd ->
      n_name nd <> "" /\
      exists nd', nth_error g' (f v) = Some nd' /\ n_name nd' = n_name nd /\
                  n_params nd' = n_params nd /\
                  Permutation (n_parents nd') (map f (n_parents nd)) }.

Lemma iso_np_iso g g' f : iso_np g g' f -> iso g g' f.
Proof.
  intros [L R J N]. constructor; auto.
  intros v nd Hv. destruct (N v nd Hv) as [Hne [nd' [Hv' [Hn [Hp Hperm]]]]].
  exists nd'. repeat split; auto. symmetry. apply label_name_params; auto.
Qed.

(* a graph without a root node (every node lies on or feeds a cycle) gets the id of the
   node with the least uid: that is NOT invariant under fresh identities *)
Definition cyc1 : dg := [mk_node "u0" "x" "" [1]; mk_node "u1" "y" "" [0]].
Definition cyc2 : dg := [mk_node "u1" "x" "" [1]; mk_node "u0" "y" "" [0]].

Lemma graph_id_sinkless_depends_on_uid :
  iso_np cyc1 cyc2 (fun v => v) /\ graph_eq cyc1 cyc2 = Some true /\ graph_id cyc1 <> graph_id cyc2.
Proof.
  split; [|split].
  - constructor; auto.
    intros v nd Hv. destruct v as [|[|v]]; simpl in Hv; inversion Hv; subst; simpl.
    + split; [discriminate|]. eexists; repeat split; simpl; auto.
    + split; [discriminate|]. eexists; repeat split; simpl; auto.
    + destruct v; discriminate.
  - reflexivity.
  - vm_compute. discriminate.
Qed.

(* ==================================================================================== *)
(* 7. rooted trees: the bracket encoding is uniquely readable                            *)
(* ==================================================================================== *)

Definition is_delim (c : ascii) : bool :=
  Ascii.eqb c "("%char || Ascii.eqb c ")"%char || Ascii.eqb c "/"%char || Ascii.eqb c ";"%char.

(* the string contains none of ( ) / ; *)
Fixpoint clean (s : string) : bool :=
  match s with
  | EmptyString => true
  | String c s' => negb (is_delim c) && clean s'
  end.

Fixpoint clean_tree_b (t : tree) : bool :=
  match t with T l cs => clean l && forallb clean_tree_b cs end.

(* empty, or starting with a delimiter *)
Definition sde (r : string) : Prop :=
  match r with EmptyString => True | String c _ => is_delim c = true end.

Lemma tree_ind' (P : tree -> Prop) :
  (forall l cs, Forall P cs -> P (T l cs)) -> forall t, P t.
Proof.
  intros H. fix IH 1. intros [l cs]. apply H.
  induction cs as [|c cs IHcs]; constructor; auto.
Qed.

Lemma append_assoc (a b c : string) : (a ++ b) ++ c = a ++ (b ++ c).
Proof. induction a as [|x a IH]; simpl; auto. rewrite IH. reflexivity. Qed.

Lemma append_nil_r (a : string) : a ++ "" = a.
Proof. induction a as [|x a IH]; simpl; auto. rewrite IH. reflexivity. Qed.

Lemma clean_split l1 : forall l2 r1 r2,
  clean l1 = true -> clean l2 = true -> sde r1 -> sde r2 ->
  l1 ++ r1 = l2 ++ r2 -> l1 = l2 /\ r1 = r2.
Proof.
  induction l1 as [|a l1 IH]; intros [|b l2] r1 r2 C1 C2 S1 S2 H; simpl in *.
  - auto.
  - subst r1. simpl in S1. rewrite S1 in C2. discriminate.
  - subst r2. simpl in S2. rewrite S2 in C1. discriminate.
  - injection H as E1 E2. subst b.
    apply andb_true_iff in C1, C2. destruct C1 as [_ C1], C2 as [_ C2].
    destruct (IH l2 r1 r2 C1 C2 S1 S2 E2). subst. auto.
Qed.

Definition items (cs : list tree) : list string := sort (map (fun c => enc c ++ ";") cs).

Lemma enc_eq l cs :
  enc (T l cs) = if is_nil cs then "/" ++ l
                 else "(" ++ String.concat ";" (items cs) ++ ")" ++ "/" ++ l.
Proof. destruct cs; reflexivity. Qed.

Lemma items_nil_iff cs : items cs = [] <-> cs = [].
Proof.
  unfold items. rewrite sort_nil_iff. split; intros H.
  - destruct cs; [auto|discriminate].
  - subst. reflexivity.
Qed.

Lemma items_In cs e : In e (items cs) -> exists c, In c cs /\ e = enc c ++ ";".
Proof.
  unfold items. intros H. eapply Permutation_in in H; [|apply sort_permutation].
  apply in_map_iff in H. destruct H as [c [E Hc]]. eauto.
Qed.

Lemma concat_cons2 sep x y l :
  String.concat sep (x :: y :: l) = x ++ sep ++ String.concat sep (y :: l).
Proof. reflexivity. Qed.

(* prefix-freeness of the encoding of one tree (weak form used inside bodies) *)
Definition PF (c : tree) : Prop :=
  forall t2 r1 r2, clean_tree_b t2 = true -> sde r1 -> sde r2 ->
                   enc c ++ r1 = enc t2 ++ r2 -> enc c = enc t2 /\ r1 = r2.

Lemma sde_semi r : sde (";" ++ r).
Proof. reflexivity. Qed.

Lemma body_inj : forall L1 L2 tail1 tail2,
  (forall e, In e L1 -> exists c, e = enc c ++ ";" /\ PF c) ->
  (forall e, In e L2 -> exists c, e = enc c ++ ";" /\ clean_tree_b c = true) ->
  L1 <> [] -> L2 <> [] ->
  String.concat ";" L1 ++ ")" ++ tail1 = String.concat ";" L2 ++ ")" ++ tail2 ->
  L1 = L2 /\ tail1 = tail2.
Proof.
  induction L1 as [|e1 L1 IH]; intros L2 tail1 tail2 H1 H2 N1 N2 H; [congruence|].
  destruct L2 as [|e2 L2]; [congruence|].
  destruct (H1 e1 (or_introl eq_refl)) as [c1 [E1 P1]].
  destruct (H2 e2 (or_introl eq_refl)) as [c2 [E2 C2]].
  subst e1 e2.
  destruct L1 as [|e1' L1], L2 as [|e2' L2].
  - cbn [String.concat] in H. rewrite !append_assoc in H.
    destruct (P1 c2 _ _ C2 (sde_semi _) (sde_semi _) H) as [Ee Er].
    injection Er as Er. rewrite Ee. auto.
  - rewrite concat_cons2 in H. cbn [String.concat] in H. rewrite !append_assoc in H.
    destruct (P1 c2 _ _ C2 (sde_semi _) (sde_semi _) H) as [Ee Er].
    cbn [append] in Er. discriminate.
  - rewrite concat_cons2 in H. cbn [String.concat] in H. rewrite !append_assoc in H.
    destruct (P1 c2 _ _ C2 (sde_semi _) (sde_semi _) H) as [Ee Er].
    cbn [append] in Er. discriminate.
  - rewrite !concat_cons2 in H. rewrite !append_assoc in H.
    destruct (P1 c2 _ _ C2 (sde_semi _) (sde_semi _) H) as [Ee Er].
    assert (Er' : String.concat ";" (e1' :: L1) ++ ")" ++ tail1 =
                  String.concat ";" (e2' :: L2) ++ ")" ++ tail2).
    { cbn [append] in Er. injection Er as Er. exact Er. }
    destruct (IH (e2' :: L2) tail1 tail2) as [EL Et];
      [ intros e He; apply H1; right; exact He
      | intros e He; apply H2; right; exact He
      | discriminate | discriminate | exact Er' | ].
    rewrite Ee, EL. auto.
Qed.

Lemma clean_tree_children l cs c : clean_tree_b (T l cs) = true -> In c cs -> clean_tree_b c = true.
Proof.
  simpl. intros H Hc. apply andb_true_iff in H. destruct H as [_ H].
  rewrite forallb_forall in H. auto.
Qed.

Lemma clean_tree_label l cs : clean_tree_b (T l cs) = true -> clean l = true.
Proof. simpl. intros H. apply andb_true_iff in H. tauto. Qed.

(* unique readability: after the encoding of a tree nothing but its own label end can follow *)
Lemma enc_prefix_free : forall t1, clean_tree_b t1 = true ->
  forall t2 r1 r2, clean_tree_b t2 = true -> sde r1 -> sde r2 ->
  enc t1 ++ r1 = enc t2 ++ r2 ->
  (t_label t1 = t_label t2 /\ items (t_children t1) = items (t_children t2)) /\ r1 = r2.
Proof.
  induction t1 as [l1 cs1 IH] using tree_ind'. intros C1 [l2 cs2] r1 r2 C2 S1 S2 H.
  rewrite !enc_eq in H. cbn [t_label t_children].
  assert (IHpf : forall c, In c cs1 -> PF c).
  { intros c Hc t2 s1 s2 Ct2 Ss1 Ss2 Hs.
    rewrite Forall_forall in IH.
    destruct (IH c Hc (clean_tree_children _ _ _ C1 Hc) t2 s1 s2 Ct2 Ss1 Ss2 Hs) as [[El Ei] Er].
    split; auto. destruct c as [lc cc], t2 as [lt ct]. cbn [t_label t_children] in *.
    rewrite !enc_eq. subst lt. rewrite Ei.
    replace (is_nil ct) with (is_nil cc); auto.
    destruct cc, ct; auto.
    - symmetry in Ei. apply items_nil_iff in Ei. discriminate.
    - apply items_nil_iff in Ei. discriminate. }
  destruct cs1 as [|c1 cs1], cs2 as [|c2 cs2]; cbn [is_nil] in H.
  - simpl in H. injection H as H.
    destruct (clean_split l1 l2 r1 r2 (clean_tree_label _ _ C1) (clean_tree_label _ _ C2) S1 S2 H).
    auto.
  - simpl in H. discriminate.
  - simpl in H. discriminate.
  - rewrite !append_assoc in H. cbn [append] in H. injection H as H.
    assert (Ha : forall e, In e (items (c1 :: cs1)) -> exists c, e = enc c ++ ";" /\ PF c).
    { intros e He. apply items_In in He. destruct He as [c [Hc E]]. exists c. split; auto. }
    assert (Hb : forall e, In e (items (c2 :: cs2)) -> exists c, e = enc c ++ ";" /\ clean_tree_b c = true).
    { intros e He. apply items_In in He. destruct He as [c [Hc E]]. exists c. split; auto.
      eapply clean_tree_children; eauto. }
    assert (Hc : items (c1 :: cs1) <> []) by (intros E; apply items_nil_iff in E; discriminate).
    assert (Hd : items (c2 :: cs2) <> []) by (intros E; apply items_nil_iff in E; discriminate).
    destruct (body_inj _ _ ("/" ++ l1 ++ r1) ("/" ++ l2 ++ r2) Ha Hb Hc Hd H) as [EL Et].
    cbn [append] in Et. injection Et as Et.
    destruct (clean_split l1 l2 r1 r2 (clean_tree_label _ _ C1) (clean_tree_label _ _ C2) S1 S2 Et).
    auto.
Qed.

Lemma enc_inj_parts l1 cs1 l2 cs2 :
  clean_tree_b (T l1 cs1) = true -> clean_tree_b (T l2 cs2) = true ->
  enc (T l1 cs1) = enc (T l2 cs2) -> l1 = l2 /\ items cs1 = items cs2.
Proof.
  intros C1 C2 H.
  destruct (enc_prefix_free _ C1 _ "" "" C2 I I) as [[E1 E2] _]; auto.
  rewrite !append_nil_r. exact H.
Qed.

(* custom induction principle for the nested inductive tiso *)
Fixpoint tiso_ind' (P : tree -> tree -> Prop)
  (H : forall l cs cs' cs'', Permutation cs' cs'' -> Forall2 tiso cs cs'' -> Forall2 P cs cs'' ->
                            P (T l cs) (T l cs'))
  (t t' : tree) (h : tiso t t') {struct h} : P t t' :=
  match h with
  | tiso_node l cs cs' cs'' p f =>
      H l cs cs' cs'' p f
        ((fix go (a b : list tree) (f : Forall2 tiso a b) {struct f} : Forall2 P a b :=
            match f with
            | Forall2_nil _ => Forall2_nil _
            | Forall2_cons x y h1 f1 => Forall2_cons x y (tiso_ind' P H x y h1) (go _ _ f1)
            end) cs cs'' f)
  end.

Lemma Forall2_enc_map l l' :
  Forall2 (fun a b => enc a = enc b) l l' ->
  map (fun c => enc c ++ ";") l = map (fun c => enc c ++ ";") l'.
Proof. induction 1; simpl; auto. rewrite H, IHForall2. reflexivity. Qed.

(* isomorphic trees have the same encoding (labels arbitrary) *)
Lemma tiso_enc t t' : tiso t t' -> enc t = enc t'.
Proof.
  intros h. induction h as [l cs cs' cs'' P F IH] using tiso_ind'.
  rewrite !enc_eq.
  assert (Em : map (fun c => enc c ++ ";") cs = map (fun c => enc c ++ ";") cs'').
  { apply Forall2_enc_map. exact IH. }
  assert (Ei : items cs = items cs').
  { unfold items. rewrite Em. apply sort_perm. apply Permutation_map. apply Permutation_sym. exact P. }
  rewrite Ei. replace (is_nil cs') with (is_nil cs); auto.
  destruct cs, cs'; auto.
  - symmetry in Ei. apply items_nil_iff in Ei. discriminate.
  - apply items_nil_iff in Ei. discriminate.
Qed.

(* T2 core: on trees whose labels avoid the delimiters the encoding determines the tree up
   to isomorphism *)
Lemma enc_tiso : forall t1, clean_tree_b t1 = true -> forall t2, clean_tree_b t2 = true ->
  enc t1 = enc t2 -> tiso t1 t2.
Proof.
  induction t1 as [l1 cs1 IH] using tree_ind'. intros C1 [l2 cs2] C2 H.
  destruct (enc_inj_parts _ _ _ _ C1 C2 H) as [El Ei]. subst l2.
  unfold items in Ei.
  assert (P : Permutation (map (fun c => enc c ++ ";") cs1) (map (fun c => enc c ++ ";") cs2)).
  { eapply perm_trans; [apply Permutation_sym, sort_permutation|].
    rewrite Ei. apply sort_permutation. }
  apply Permutation_map_inv in P. destruct P as [cs2' [Em P2]].
  apply (tiso_node l1 cs1 cs2 cs2' P2).
  assert (C2' : forall c, In c cs2' -> clean_tree_b c = true).
  { intros c Hc. eapply clean_tree_children; eauto. eapply Permutation_in; [apply Permutation_sym; eauto|auto]. }
  clear P2 Ei H. revert cs2' Em C2'.
  induction cs1 as [|c cs1 IHcs]; intros [|c' cs2'] Em C2'; simpl in Em; try discriminate; constructor.
  - injection Em as E1 E2.
    assert (Cc : clean_tree_b c = true) by (eapply clean_tree_children; [exact C1|left; reflexivity]).
    assert (Cc' : clean_tree_b c' = true) by (apply C2'; left; reflexivity).
    inversion IH as [|? ? Hc Hrest]; subst. apply Hc; auto.
    destruct (enc_prefix_free c Cc c' ";" ";" Cc' eq_refl eq_refl E1) as [[El Ei] _].
    destruct c as [lc cc], c' as [lc' cc']. cbn [t_label t_children] in *. subst lc'.
    rewrite !enc_eq, Ei. replace (is_nil cc') with (is_nil cc); auto.
    destruct cc, cc'; auto.
    + symmetry in Ei. apply items_nil_iff in Ei. discriminate.
    + apply items_nil_iff in Ei. discriminate.
  - injection Em as E1 E2. inversion IH as [|? ? Hc Hrest]; subst. apply IHcs; auto.
    + simpl in C1. simpl. apply andb_true_iff in C1. destruct C1 as [Cl Cc].
      simpl in Cc. apply andb_true_iff in Cc. rewrite Cl. tauto.
    + intros x Hx. apply C2'. right; auto.
Qed.

Theorem tree_enc_iff_tiso t1 t2 :
  clean_tree_b t1 = true -> clean_tree_b t2 = true -> (enc t1 = enc t2 <-> tiso t1 t2).
Proof. intros C1 C2. split; [apply enc_tiso; auto|apply tiso_enc]. Qed.

(* ==================================================================================== *)
(* 8. acyclic graphs: the identifier of a node is the encoding of its unfolding          *)
(* ==================================================================================== *)

Definition ranked (g : dg) (rank : nat -> nat) : Prop :=
  forall v nd p, nth_error g v = Some nd -> In p (n_parents nd) -> rank p < rank v.

Lemma unfold_S g k v :
  unfold g (S k) v = match nth_error g v with
                     | None => None
                     | Some nd => option_map (T (label nd)) (map_opt (unfold g k) (n_parents nd))
                     end.
Proof. reflexivity. Qed.

Lemma unfold_mono1 g k : forall v t, unfold g k v = Some t -> unfold g (S k) v = Some t.
Proof.
  induction k as [|k IH]; intros v t H; [discriminate|].
  rewrite unfold_S in H. rewrite unfold_S.
  destruct (nth_error g v) as [nd|]; auto.
  destruct (map_opt (unfold g k) (n_parents nd)) as [cs|] eqn:E; [|discriminate].
  assert (E' : map_opt (unfold g (S k)) (n_parents nd) = Some cs).
  { apply Forall2_map_opt. apply map_opt_Some in E. eapply Forall2_impl'; [|exact E]. auto. }
  rewrite E'. exact H.
Qed.

Lemma unfold_mono g k k' v t : k <= k' -> unfold g k v = Some t -> unfold g k' v = Some t.
Proof. induction 1; auto. intros H0. apply unfold_mono1. auto. Qed.

Lemma unfold_unique g k k' v t t' : unfold g k v = Some t -> unfold g k' v = Some t' -> t = t'.
Proof.
  intros H H'. destruct (le_ge_dec k k') as [L|L].
  - apply (unfold_mono _ _ _ _ _ L) in H. congruence.
  - apply (unfold_mono _ _ _ _ _ L) in H'. congruence.
Qed.

Lemma unfold_total g rank : ranked g rank -> wf g ->
  forall k v, v < llen g -> rank v < k -> exists t, unfold g k v = Some t.
Proof.
  intros R W. induction k as [|k IH]; intros v Hv Hk; [lia|].
  rewrite unfold_S. destruct (nth_error g v) as [nd|] eqn:En.
  2:{ apply nth_error_None in En. lia. }
  destruct (map_opt_total (unfold g k) (n_parents nd)) as [cs Hcs].
  - intros p Hp. apply IH; [eapply W; eauto|]. specialize (R v nd p En Hp). lia.
  - rewrite Hcs. simpl. eauto.
Qed.

Lemma is_nil_length {A B} (l : list A) (l' : list B) : llen l = llen l' -> is_nil l = is_nil l'.
Proof. destruct l, l'; simpl; auto; discriminate. Qed.

Lemma descr_fuel_unfold g rank : ranked g rank ->
  forall k vis v t, unfold g k v = Some t -> (forall u, In u vis -> rank v < rank u) ->
  descr_fuel g k vis v = Some (enc t).
Proof.
  intros R. induction k as [|k IH]; intros vis v t H Hvis; [discriminate|].
  rewrite unfold_S in H. rewrite descr_fuel_S.
  destruct (nth_error g v) as [nd|] eqn:En; [|discriminate].
  destruct (mem v vis) eqn:Em.
  { apply mem_In in Em. apply Hvis in Em. lia. }
  destruct (map_opt (unfold g k) (n_parents nd)) as [cs|] eqn:E; [|discriminate].
  simpl in H. injection H as H. subst t. rewrite enc_eq.
  rewrite (is_nil_length (n_parents nd) cs) by (symmetry; eapply map_opt_length; eauto).
  destruct (is_nil cs); auto.
  assert (E' : map_opt (item g k (vis ++ [v])) (n_parents nd) = Some (map (fun c => enc c ++ ";") cs)).
  { apply Forall2_map_opt. apply map_opt_Some in E.
    assert (Hp : forall p, In p (n_parents nd) -> rank p < rank v) by (intros p Hp; eapply R; eauto).
    clear En. induction E as [|p c ps cs' Hpc _ IHE]; simpl; constructor.
    - unfold item. rewrite (IH _ _ _ Hpc); auto.
      intros u Hu. apply in_app_or in Hu. destruct Hu as [Hu|[Hu|[]]].
      + specialize (Hvis u Hu). specialize (Hp p (or_introl eq_refl)). lia.
      + subst. apply Hp. left; auto.
    - apply IHE. intros q Hq. apply Hp. right; auto. }
  rewrite E'. reflexivity.
Qed.

(* on an acyclic graph every node's identifier is the bracket encoding of its unfolding *)
Theorem descr_dag g : dag g -> wf g -> forall v, v < llen g ->
  exists t k, unfold g k v = Some t /\ descr g v = Some (enc t).
Proof.
  intros [rank R] W v Hv.
  destruct (unfold_total g rank R W (S (rank v)) v Hv) as [t Ht]; [lia|].
  exists t, (S (rank v)). split; auto.
  pose proof (descr_fuel_unfold g rank R _ [] v t Ht) as Hd.
  destruct (descr_total g v W Hv) as [s Hs].
  unfold descr in *.
  destruct (le_ge_dec (S (rank v)) (S (llen g))) as [L|L].
  - apply (descr_fuel_mono _ _ _ _ _ _ L) in Hd; [auto|]. intros u [].
  - rewrite Hs. apply (descr_fuel_mono _ _ _ _ _ _ L) in Hs. rewrite Hd in Hs; [congruence|].
    intros u [].
Qed.

Definition clean_labels (g : dg) : Prop := forall nd, In nd g -> clean (label nd) = true.

Lemma unfold_clean g : clean_labels g -> forall k v t, unfold g k v = Some t -> clean_tree_b t = true.
Proof.
  intros C. induction k as [|k IH]; intros v t H; [discriminate|].
  rewrite unfold_S in H. destruct (nth_error g v) as [nd|] eqn:En; [|discriminate].
  destruct (map_opt (unfold g k) (n_parents nd)) as [cs|] eqn:E; [|discriminate].
  simpl in H. injection H as H. subst t. simpl.
  rewrite (C nd (nth_error_In _ _ En)). simpl.
  apply forallb_forall. intros c Hc. apply map_opt_Some in E.
  clear En. induction E; simpl in Hc; [contradiction|]. destruct Hc; [subst; eauto|auto].
Qed.

(* T2 (as far as proved): two single-rooted acyclic graphs whose labels avoid the delimiters
   compare equal exactly when the unfoldings of their roots are isomorphic as rooted
   unordered labelled trees. *)
Theorem dag_eq_iff_unfold_iso g1 g2 r1 r2 :
  wf g1 -> wf g2 -> dag g1 -> dag g2 -> clean_labels g1 -> clean_labels g2 ->
  sinks g1 = [r1] -> sinks g2 = [r2] ->
  (graph_eq g1 g2 = Some true <->
   exists t1 t2 k1 k2, unfold g1 k1 r1 = Some t1 /\ unfold g2 k2 r2 = Some t2 /\ tiso t1 t2).
Proof.
  intros W1 W2 D1 D2 C1 C2 S1 S2.
  assert (L1 : r1 < llen g1) by (apply sinks_lt; rewrite S1; left; auto).
  assert (L2 : r2 < llen g2) by (apply sinks_lt; rewrite S2; left; auto).
  destruct (descr_dag g1 D1 W1 r1 L1) as [t1 [k1 [U1 E1]]].
  destruct (descr_dag g2 D2 W2 r2 L2) as [t2 [k2 [U2 E2]]].
  assert (G : graph_eq g1 g2 = Some (set_eq_b [enc t1] [enc t2])).
  { unfold graph_eq, sink_ids. rewrite S1, S2. simpl. rewrite E1, E2. reflexivity. }
  rewrite G. split.
  - intros H. injection H as H. pose proof (proj1 (set_eq_b_spec _ _) H) as H0. clear H. rename H0 into H.
    assert (E : enc t1 = enc t2).
    { destruct (H (enc t1)) as [H' _]. destruct H' as [H'|[]]; [left; auto|auto]. }
    exists t1, t2, k1, k2. split; [exact U1|]. split; [exact U2|].
    apply enc_tiso; auto.
    + eapply unfold_clean; [exact C1|exact U1].
    + eapply unfold_clean; [exact C2|exact U2].
  - intros [t1' [t2' [k1' [k2' [U1' [U2' I]]]]]].
    rewrite (unfold_unique _ _ _ _ _ _ U1 U1'), (unfold_unique _ _ _ _ _ _ U2 U2').
    rewrite (tiso_enc _ _ I). f_equal. apply set_eq_b_spec. tauto.
Qed.

(* ==================================================================================== *)
(* 9. the graph of a rooted tree (dg_of_tree: preorder numbering)                         *)
(* ==================================================================================== *)

Fixpoint flats (b : nat) (cs : list tree) : list node :=
  match cs with
  | [] => []
  | c :: cs' => (flat b c ++ flats (b + t_size c) cs')%list
  end.

Fixpoint sizes (cs : list tree) : nat :=
  match cs with [] => 0 | c :: cs' => t_size c + sizes cs' end.

Lemma flat_eq base l cs :
  flat base (T l cs) = mk_node "u" l "" (child_roots (S base) cs) :: flats (S base) cs.
Proof.
  reflexivity.
Qed.

Lemma t_size_eq l cs : t_size (T l cs) = S (sizes cs).
Proof. reflexivity. Qed.

Lemma t_size_pos t : 0 < t_size t.
Proof. destruct t. rewrite t_size_eq. lia. Qed.

Lemma flat_length : forall t base, llen (flat base t) = t_size t.
Proof.
  induction t as [l cs IH] using tree_ind'. intros base. rewrite flat_eq, t_size_eq. simpl. f_equal.
  generalize (S base). induction cs as [|c cs IHcs]; intros b; simpl; auto.
  inversion IH; subst. rewrite app_length, H1, IHcs; auto.
Qed.

Lemma flats_length cs : forall b, llen (flats b cs) = sizes cs.
Proof. induction cs as [|c cs IH]; intros b; simpl; auto. rewrite app_length, flat_length, IH. auto. Qed.

Lemma child_roots_range cs : forall b p, In p (child_roots b cs) -> b <= p < b + sizes cs.
Proof.
  induction cs as [|c cs IH]; intros b p H; simpl in *; [contradiction|].
  pose proof (t_size_pos c). destruct H as [H|H]; [lia|]. apply IH in H. lia.
Qed.

(* every parent link of the node at offset i points strictly behind it, inside the block *)
Lemma flat_parents : forall t base i nd p,
  nth_error (flat base t) i = Some nd -> In p (n_parents nd) -> base + i < p < base + t_size t.
Proof.
  induction t as [l cs IH] using tree_ind'. intros base i nd p Hn Hp.
  rewrite flat_eq in Hn. rewrite t_size_eq. destruct i as [|i]; simpl in Hn.
  - injection Hn as Hn. subst nd. simpl in Hp. apply child_roots_range in Hp. lia.
  - assert (G : forall cs', Forall (fun t => forall base i nd p,
                 nth_error (flat base t) i = Some nd -> In p (n_parents nd) ->
                 base + i < p < base + t_size t) cs' ->
               forall b i, nth_error (flats b cs') i = Some nd -> b + i < p < b + sizes cs').
    { clear IH Hn. induction cs' as [|c cs' IHc]; intros F b j Hj; simpl in Hj.
      - destruct j; discriminate.
      - inversion F; subst. simpl.
        destruct (lt_dec j (t_size c)) as [L|L].
        + rewrite nth_error_app1 in Hj by (rewrite flat_length; auto).
          specialize (H1 b j nd p Hj Hp). lia.
        + rewrite nth_error_app2 in Hj by (rewrite flat_length; lia).
          rewrite flat_length in Hj. specialize (IHc H2 _ _ Hj). lia. }
    specialize (G cs IH (S base) i Hn). lia.
Qed.

Lemma dg_of_tree_wf t : wf (dg_of_tree t).
Proof.
  intros v nd p Hv Hp. unfold dg_of_tree in *. rewrite flat_length.
  pose proof (flat_parents t 0 v nd p Hv Hp). lia.
Qed.

Lemma dg_of_tree_ranked t : ranked (dg_of_tree t) (fun v => t_size t - v).
Proof.
  intros v nd p Hv Hp. unfold dg_of_tree in *.
  pose proof (flat_parents t 0 v nd p Hv Hp). lia.
Qed.

Lemma dg_of_tree_dag t : dag (dg_of_tree t).
Proof. eexists. apply dg_of_tree_ranked. Qed.

(* the set of all parent links of the block is exactly the block without its first index *)
Definition parents_all (g : dg) : list nat := List.concat (map n_parents g).

Lemma has_child_parents_all g v : has_child g v = true <-> In v (parents_all g).
Proof.
  unfold has_child, parents_all. rewrite existsb_exists, in_concat. split.
  - intros [nd [Hin Hm]]. exists (n_parents nd). split; [apply in_map; auto|apply mem_In; auto].
  - intros [ps [Hps Hv]]. apply in_map_iff in Hps. destruct Hps as [nd [E Hnd]]. subst.
    exists nd. split; auto. apply mem_In; auto.
Qed.

Lemma parents_all_app (a b : dg) : parents_all (a ++ b)%list = (parents_all a ++ parents_all b)%list.
Proof. unfold parents_all. rewrite map_app, concat_app. reflexivity. Qed.

Lemma flat_parents_all : forall t base j,
  In j (parents_all (flat base t)) <-> base < j < base + t_size t.
Proof.
  induction t as [l cs IH] using tree_ind'. intros base j.
  rewrite flat_eq, t_size_eq.
  change (parents_all (mk_node "u" l "" (child_roots (S base) cs) :: flats (S base) cs))
    with (child_roots (S base) cs ++ parents_all (flats (S base) cs))%list.
  assert (G : forall b, In j (child_roots b cs ++ parents_all (flats b cs))%list <-> b <= j < b + sizes cs).
  { clear base. induction cs as [|c cs IHc]; intros b.
    - cbn. split; [intros []|lia].
    - inversion IH; subst. specialize (IHc H2).
      cbn [child_roots flats sizes]. rewrite parents_all_app.
      pose proof (t_size_pos c). specialize (H1 b j). specialize (IHc (b + t_size c)).
      rewrite in_app_iff in *. simpl. rewrite in_app_iff. rewrite H1.
      set (A := In j (child_roots (b + t_size c) cs)) in *.
      set (B := In j (parents_all (flats (b + t_size c) cs))) in *.
      assert (R : (b = j \/ A) \/ b < j < b + t_size c \/ B <->
                  (b = j \/ b < j < b + t_size c) \/ (A \/ B)) by tauto.
      rewrite R, IHc. lia. }
  rewrite G. lia.
Qed.

Lemma dg_of_tree_sinks t : sinks (dg_of_tree t) = [0].
Proof.
  unfold sinks, dg_of_tree. rewrite flat_length.
  pose proof (t_size_pos t) as Hp. destruct (t_size t) as [|n] eqn:E; [lia|].
  cbn [seq filter].
  assert (H0 : has_child (flat 0 t) 0 = false).
  { destruct (has_child (flat 0 t) 0) eqn:Eh; auto.
    apply has_child_parents_all, flat_parents_all in Eh. lia. }
  rewrite H0. cbn [negb]. f_equal.
  assert (G : forall l, (forall x, In x l -> 0 < x < S n) ->
                        filter (fun v => negb (has_child (flat 0 t) v)) l = []).
  { induction l as [|x l IH]; intros B; simpl; auto.
    assert (Hx : has_child (flat 0 t) x = true).
    { apply has_child_parents_all, flat_parents_all. rewrite E. specialize (B x (or_introl eq_refl)). lia. }
    rewrite Hx. simpl. apply IH. intros y Hy. apply B. right; auto. }
  apply G. intros x Hx. apply in_seq in Hx. lia.
Qed.

(* the unfolding of the tree graph is the tree itself, labels rendered by description() *)
Definition tlabel (l : string) : string := label (mk_node "u" l "" []).

Fixpoint relabel (t : tree) : tree :=
  match t with T l cs => T (tlabel l) (map relabel cs) end.

(* l sits in g at offset base *)
Definition seg (g : dg) (base : nat) (l : list node) : Prop :=
  forall i nd, nth_error l i = Some nd -> nth_error g (base + i) = Some nd.

Lemma seg_app_l g base (a b : list node) : seg g base (a ++ b)%list -> seg g base a.
Proof.
  intros S i nd H. apply S. rewrite nth_error_app1; auto. apply nth_error_Some. congruence.
Qed.

Lemma seg_app_r g base (a b : list node) : seg g base (a ++ b)%list -> seg g (base + llen a) b.
Proof.
  intros S i nd H. rewrite <- Nat.add_assoc. apply S.
  rewrite nth_error_app2 by lia. replace (llen a + i - llen a) with i by lia. auto.
Qed.

Lemma unfold_flat : forall t g base, seg g base (flat base t) ->
  unfold g (t_size t) base = Some (relabel t).
Proof.
  induction t as [l cs IH] using tree_ind'. intros g base S.
  rewrite flat_eq in S. rewrite t_size_eq, unfold_S.
  assert (H0 := S 0 _ eq_refl). rewrite Nat.add_0_r in H0. rewrite H0. cbn [n_parents relabel].
  assert (S' : seg g (base + 1) (flats (Datatypes.S base) cs)).
  { intros i nd H. replace (base + 1 + i) with (base + Datatypes.S i) by lia. apply S. exact H. }
  replace (base + 1) with (Datatypes.S base) in S' by lia.
  assert (G : forall k b, sizes cs <= k -> seg g b (flats b cs) ->
                          map_opt (unfold g k) (child_roots b cs) = Some (map relabel cs)).
  { clear S S' H0. intros k. induction cs as [|c cs IHc]; intros b Hk Sg; simpl; auto.
    inversion IH; subst. simpl in Hk, Sg.
    assert (Sc := seg_app_l _ _ _ _ Sg). apply seg_app_r in Sg. rewrite flat_length in Sg.
    rewrite (unfold_mono g (t_size c) k b (relabel c)); [|lia|apply H1; auto].
    rewrite IHc; auto. lia. }
  rewrite (G (sizes cs) (Datatypes.S base)); auto.
Qed.

Lemma seg_self g : seg g 0 g.
Proof. intros i nd H. exact H. Qed.

Theorem descr_dg_of_tree t : descr (dg_of_tree t) 0 = Some (enc (relabel t)).
Proof.
  pose proof (unfold_flat t (dg_of_tree t) 0 (seg_self _)) as U.
  pose proof (descr_fuel_unfold _ _ (dg_of_tree_ranked t) _ [] 0 _ U) as D.
  unfold descr. eapply descr_fuel_mono; [|apply D; intros u []].
  unfold dg_of_tree. rewrite flat_length. lia.
Qed.

(* T2 on rooted trees as mathematical objects: the graphs of two trees compare equal
   exactly when the trees are isomorphic *)
Theorem tree_eq_iff_iso t1 t2 :
  clean_tree_b (relabel t1) = true -> clean_tree_b (relabel t2) = true ->
  (graph_eq (dg_of_tree t1) (dg_of_tree t2) = Some true <-> tiso (relabel t1) (relabel t2)).
Proof.
  intros C1 C2.
  assert (G : graph_eq (dg_of_tree t1) (dg_of_tree t2)
              = Some (set_eq_b [enc (relabel t1)] [enc (relabel t2)])).
  { unfold graph_eq, sink_ids. rewrite !dg_of_tree_sinks. simpl.
    rewrite !descr_dg_of_tree. reflexivity. }
  rewrite G. split.
  - intros H. injection H as H. pose proof (proj1 (set_eq_b_spec _ _) H) as H0.
    apply enc_tiso; auto.
    destruct (H0 (enc (relabel t1))) as [H' _]. destruct H' as [H'|[]]; [left; auto|auto].
  - intros I. rewrite (tiso_enc _ _ I). f_equal. apply set_eq_b_spec. tauto.
Qed.

(* node names are non-empty and avoid the delimiter characters *)
Fixpoint names_ok_b (t : tree) : bool :=
  match t with T l cs => negb (String.eqb l "") && clean l && forallb names_ok_b cs end.

Lemma tlabel_nonempty l : l <> "" -> tlabel l = "n_" ++ l.
Proof. intros H. unfold tlabel, label. simpl. destruct (String.eqb_spec l ""); [contradiction|reflexivity]. Qed.

Lemma names_ok_unfold l cs :
  names_ok_b (T l cs) = true -> l <> "" /\ clean l = true /\ forall c, In c cs -> names_ok_b c = true.
Proof.
  simpl. rewrite !andb_true_iff. intros [[H1 H2] H3]. repeat split; auto.
  - intros E. subst. discriminate.
  - apply forallb_forall. exact H3.
Qed.

Lemma names_ok_clean : forall t, names_ok_b t = true -> clean_tree_b (relabel t) = true.
Proof.
  induction t as [l cs IH] using tree_ind'. intros H.
  destruct (names_ok_unfold _ _ H) as [Hne [Hc Hcs]].
  cbn [relabel clean_tree_b]. rewrite (tlabel_nonempty l Hne).
  change (clean ("n_" ++ l)) with (clean l). rewrite Hc. cbn [andb].
  rewrite forallb_forall. intros c' Hc'. apply in_map_iff in Hc'. destruct Hc' as [c [E Hin]]. subst.
  rewrite Forall_forall in IH. apply IH; auto.
Qed.

Lemma Forall2_map_both {A B} (R : B -> B -> Prop) (f : A -> B) l l' :
  Forall2 R (map f l) (map f l') <-> Forall2 (fun a b => R (f a) (f b)) l l'.
Proof.
  split.
  - revert l'. induction l as [|a l IH]; intros [|b l'] H; simpl in H; inversion H; subst; constructor; auto.
  - induction 1; simpl; constructor; auto.
Qed.

Lemma tiso_relabel_l : forall t1 t2, tiso t1 t2 -> tiso (relabel t1) (relabel t2).
Proof.
  intros t1 t2 h. induction h as [l cs cs' cs'' P F IH] using tiso_ind'.
  simpl. apply (tiso_node _ _ _ (map relabel cs'')).
  - apply Permutation_map. exact P.
  - apply Forall2_map_both. exact IH.
Qed.

Lemma tiso_relabel_r : forall t1, names_ok_b t1 = true -> forall t2, names_ok_b t2 = true ->
  tiso (relabel t1) (relabel t2) -> tiso t1 t2.
Proof.
  induction t1 as [l1 cs1 IH] using tree_ind'. intros N1 [l2 cs2] N2 H.
  destruct (names_ok_unfold _ _ N1) as [Hne1 [_ Hcs1]].
  destruct (names_ok_unfold _ _ N2) as [Hne2 [_ Hcs2]].
  cbn [relabel] in H. rewrite (tlabel_nonempty _ Hne1), (tlabel_nonempty _ Hne2) in H.
  inversion H as [l cs cs' cs'' P F]. subst.
  apply Permutation_sym, Permutation_map_inv in P. destruct P as [cs2' [E P]]. subst cs''.
  apply (tiso_node _ cs1 cs2 cs2' P).
  apply (proj1 (Forall2_map_both tiso relabel cs1 cs2')) in F.
  assert (N2' : forall c, In c cs2' -> names_ok_b c = true).
  { intros c Hc. apply Hcs2. eapply Permutation_in; [apply Permutation_sym; exact P|exact Hc]. }
  clear H P Hcs2 N1 N2. revert cs2' F N2'.
  induction cs1 as [|c cs1 IHc]; intros cs2' F N2'; inversion F as [|a b la lb Hab Hrest]; subst; constructor.
  - inversion IH as [|? ? Hc Hr]; subst. apply Hc; auto.
    + apply Hcs1. left; auto.
    + apply N2'. left; auto.
  - inversion IH as [|? ? Hc Hr]; subst. apply IHc; auto.
    + intros x Hx. apply Hcs1. right; auto.
    + intros x Hx. apply N2'. right; auto.
Qed.

(* T2 for rooted trees whose node names are non-empty and avoid ( ) / ; *)
Theorem tree_eq_iff_iso_names t1 t2 :
  names_ok_b t1 = true -> names_ok_b t2 = true ->
  (graph_eq (dg_of_tree t1) (dg_of_tree t2) = Some true <-> tiso t1 t2).
Proof.
  intros N1 N2.
  rewrite (tree_eq_iff_iso t1 t2 (names_ok_clean _ N1) (names_ok_clean _ N2)).
  split; [apply tiso_relabel_r; auto|apply tiso_relabel_l].
Qed.

(* ------------------------------------------------------------------------------------ *)
(* the independent canonical form used by the check: equal canonical forms imply          *)
(* isomorphism                                                                            *)
(* ------------------------------------------------------------------------------------ *)

Lemma tinsert_perm a l : Permutation (tinsert a l) (a :: l).
Proof.
  induction l as [|b l IH]; simpl; auto.
  destruct (tcmp a b); auto. rewrite IH. apply perm_swap.
Qed.

Lemma tsort_perm l : Permutation (tsort l) l.
Proof. induction l as [|a l IH]; simpl; auto. rewrite tinsert_perm. auto. Qed.

Lemma tiso_canon : forall t, tiso t (canon t).
Proof.
  induction t as [l cs IH] using tree_ind'. simpl.
  apply (tiso_node l cs _ (map canon cs)).
  - apply tsort_perm.
  - induction IH; simpl; constructor; auto.
Qed.

Lemma tcmp_eq : forall a b, tcmp a b = Eq -> a = b.
Proof.
  induction a as [la ca IH] using tree_ind'. intros [lb cb] H. cbn [tcmp] in H.
  destruct (String.compare la lb) eqn:E; try discriminate.
  apply String.compare_eq_iff in E. subst lb. f_equal.
  revert cb H. induction ca as [|x ca IHc]; intros [|y cb] H; try discriminate; auto.
  inversion IH; subst.
  destruct (tcmp x y) eqn:Exy; try discriminate.
  apply H2 in Exy. subst y. f_equal. apply IHc; auto.
Qed.

Theorem canon_eqb_sound t1 t2 :
  clean_tree_b t1 = true -> clean_tree_b t2 = true ->
  canon_eqb (canon t1) (canon t2) = true -> tiso t1 t2.
Proof.
  intros C1 C2 H. unfold canon_eqb in H.
  destruct (tcmp (canon t1) (canon t2)) eqn:E; try discriminate.
  apply tcmp_eq in E.
  apply enc_tiso; auto.
  rewrite (tiso_enc _ _ (tiso_canon t1)), (tiso_enc _ _ (tiso_canon t2)), E. reflexivity.
Qed.

(* ------------------------------------------------------------------------------------ *)
(* ... and isomorphic trees have equal canonical forms: the structural comparison tcmp   *)
(* is a total order, so sorting by it is insensitive to the order of the children         *)
(* ------------------------------------------------------------------------------------ *)

Fixpoint lcmp (x y : list tree) : comparison :=
  match x, y with
  | [], [] => Eq
  | [], _ :: _ => Lt
  | _ :: _, [] => Gt
  | a :: x', b :: y' => match tcmp a b with Eq => lcmp x' y' | c => c end
  end.

Lemma tcmp_unfold la ca lb cb :
  tcmp (T la ca) (T lb cb) = match String.compare la lb with Eq => lcmp ca cb | c => c end.
Proof. cbn [tcmp]. destruct (String.compare la lb); reflexivity. Qed.

Lemma scmp_refl s : String.compare s s = Eq.
Proof.
  pose proof (String.compare_antisym s s) as H. destruct (String.compare s s); auto; discriminate.
Qed.

Lemma scmp_lt_trans a : forall b c,
  String.compare a b = Lt -> String.compare b c = Lt -> String.compare a c = Lt.
Proof.
  induction a as [|x a IH]; intros [|y b] [|z c]; simpl; auto; try discriminate.
  unfold Ascii.compare.
  destruct (N.compare_spec (N_of_ascii x) (N_of_ascii y)) as [E1|E1|E1];
    destruct (N.compare_spec (N_of_ascii y) (N_of_ascii z)) as [E2|E2|E2];
    destruct (N.compare_spec (N_of_ascii x) (N_of_ascii z)) as [E3|E3|E3];
    try lia; auto; try discriminate.
  apply IH.
Qed.

Lemma tcmp_refl : forall a, tcmp a a = Eq.
Proof.
  induction a as [l cs IH] using tree_ind'. rewrite tcmp_unfold, scmp_refl.
  induction IH as [|c cs Hc _ IHcs]; simpl; auto. rewrite Hc. exact IHcs.
Qed.

Lemma tcmp_antisym : forall a b, tcmp a b = CompOpp (tcmp b a).
Proof.
  induction a as [la ca IH] using tree_ind'. intros [lb cb]. rewrite !tcmp_unfold.
  rewrite (String.compare_antisym la lb). destruct (String.compare lb la); simpl; auto.
  revert cb. induction IH as [|x ca Hx _ IHca]; intros [|y cb]; simpl; auto.
  rewrite (Hx y). destruct (tcmp y x); simpl; auto.
Qed.

Lemma lcmp_lt_trans ca :
  Forall (fun a => forall b c, tcmp a b = Lt -> tcmp b c = Lt -> tcmp a c = Lt) ca ->
  forall cb cc, lcmp ca cb = Lt -> lcmp cb cc = Lt -> lcmp ca cc = Lt.
Proof.
  induction 1 as [|x ca Hx _ IH]; intros [|y cb] [|z cc]; simpl; auto; try discriminate.
  destruct (tcmp x y) eqn:E1; destruct (tcmp y z) eqn:E2; try discriminate; intros H1 H2.
  - apply tcmp_eq in E1, E2. subst. rewrite tcmp_refl. eapply IH; eauto.
  - apply tcmp_eq in E1. subst. rewrite E2. reflexivity.
  - apply tcmp_eq in E2. subst. rewrite E1. reflexivity.
  - rewrite (Hx y z E1 E2). reflexivity.
Qed.

Lemma tcmp_lt_trans : forall a b c, tcmp a b = Lt -> tcmp b c = Lt -> tcmp a c = Lt.
Proof.
  induction a as [la ca IH] using tree_ind'. intros [lb cb] [lc cc]. rewrite !tcmp_unfold.
  destruct (String.compare la lb) eqn:E1; destruct (String.compare lb lc) eqn:E2;
    try discriminate; intros H1 H2.
  - apply String.compare_eq_iff in E1, E2. subst. rewrite scmp_refl. eapply lcmp_lt_trans; eauto.
  - apply String.compare_eq_iff in E1. subst. rewrite E2. reflexivity.
  - apply String.compare_eq_iff in E2. subst. rewrite E1. reflexivity.
  - rewrite (scmp_lt_trans _ _ _ E1 E2). reflexivity.
Qed.

Definition leb_t (a b : tree) : bool := match tcmp a b with Gt => false | _ => true end.

Lemma tinsert_cons a b l : tinsert a (b :: l) = if leb_t a b then a :: b :: l else b :: tinsert a l.
Proof. unfold leb_t. simpl. destruct (tcmp a b); reflexivity. Qed.

Lemma leb_t_total a b : leb_t a b = true \/ leb_t b a = true.
Proof. unfold leb_t. rewrite (tcmp_antisym a b). destruct (tcmp b a); simpl; auto. Qed.

Lemma leb_t_antisym a b : leb_t a b = true -> leb_t b a = true -> a = b.
Proof.
  unfold leb_t. rewrite (tcmp_antisym b a). destruct (tcmp a b) eqn:E; simpl; try discriminate.
  intros _ _. apply tcmp_eq. exact E.
Qed.

Lemma leb_t_trans a b c : leb_t a b = true -> leb_t b c = true -> leb_t a c = true.
Proof.
  unfold leb_t. destruct (tcmp a b) eqn:E1; destruct (tcmp b c) eqn:E2; try discriminate; intros _ _.
  - apply tcmp_eq in E1, E2. subst. rewrite tcmp_refl. reflexivity.
  - apply tcmp_eq in E1. subst. rewrite E2. reflexivity.
  - apply tcmp_eq in E2. subst. rewrite E1. reflexivity.
  - rewrite (tcmp_lt_trans _ _ _ E1 E2). reflexivity.
Qed.

Lemma tinsert_comm a b l : tinsert a (tinsert b l) = tinsert b (tinsert a l).
Proof.
  induction l as [|c l IH].
  - change (tinsert b []) with [b]. change (tinsert a []) with [a]. rewrite !tinsert_cons.
    change (tinsert b []) with [b]. change (tinsert a []) with [a].
    destruct (leb_t a b) eqn:E1, (leb_t b a) eqn:E2; auto.
    + rewrite (leb_t_antisym _ _ E1 E2). reflexivity.
    + destruct (leb_t_total a b); congruence.
  - rewrite !(tinsert_cons _ c).
    destruct (leb_t b c) eqn:Ebc, (leb_t a c) eqn:Eac; rewrite !tinsert_cons, ?Ebc, ?Eac.
    + destruct (leb_t a b) eqn:E1, (leb_t b a) eqn:E2; auto.
      * rewrite (leb_t_antisym _ _ E1 E2). reflexivity.
      * destruct (leb_t_total a b); congruence.
    + destruct (leb_t a b) eqn:E1.
      * rewrite (leb_t_trans _ _ _ E1 Ebc) in Eac. discriminate.
      * reflexivity.
    + destruct (leb_t b a) eqn:E1.
      * rewrite (leb_t_trans _ _ _ E1 Eac) in Ebc. discriminate.
      * reflexivity.
    + rewrite IH. reflexivity.
Qed.

Lemma tsort_perm_eq l l' : Permutation l l' -> tsort l = tsort l'.
Proof. induction 1; simpl; try congruence. apply tinsert_comm. Qed.

Lemma tiso_canon_eq t t' : tiso t t' -> canon t = canon t'.
Proof.
  intros h. induction h as [l cs cs' cs'' P F IH] using tiso_ind'.
  simpl. f_equal.
  assert (Em : map canon cs = map canon cs'').
  { clear P F. induction IH; simpl; auto. rewrite H, IHIH. reflexivity. }
  rewrite Em. apply tsort_perm_eq. apply Permutation_map. apply Permutation_sym. exact P.
Qed.

(* the canonical-form oracle of the check decides tree isomorphism *)
Theorem canon_eqb_iff t1 t2 :
  clean_tree_b t1 = true -> clean_tree_b t2 = true ->
  (canon_eqb (canon t1) (canon t2) = true <-> tiso t1 t2).
Proof.
  intros C1 C2. split; [apply canon_eqb_sound; auto|].
  intros H. unfold canon_eqb. rewrite (tiso_canon_eq _ _ H), tcmp_refl. reflexivity.
Qed.
