(* C13, converse clause at full strength: on tree-shaped graphs (arbitrary node numbering)
   graph_eq g1 g2 = Some true  <->  exists f, iso g1 g2 f.
   Route: unfold a graph into a tree of node INDICES (itree); on a tree-shaped graph that
   tree lists every node exactly once; a tiso derivation between the label trees lets the
   children of the second index tree be rearranged so that the two label trees become equal;
   two index trees with equal label trees are matched position by position (preorder), and
   that matching is the index bijection. *)
From Coq Require Import List String Bool Arith Permutation Lia.
From GolemV Require Import Graph.DescId Graph.DescIdProofs.
Import ListNotations.

(* ==================================================================================== *)
(* 1. index trees                                                                        *)
(* ==================================================================================== *)

Inductive itree := IT (v : nat) (cs : list itree).

Definition iroot (i : itree) : nat := match i with IT v _ => v end.
Definition ikids (i : itree) : list itree := match i with IT _ cs => cs end.

Lemma itree_ind' (P : itree -> Prop) :
  (forall v cs, Forall P cs -> P (IT v cs)) -> forall i, P i.
Proof.
  intros H. fix IH 1. intros [v cs]. apply H.
  induction cs as [|c cs IHcs]; constructor; auto.
Qed.

(* all subtrees, preorder *)
Fixpoint isubs (i : itree) : list itree :=
  match i with IT v cs => IT v cs :: flat_map isubs cs end.

Definition inodes (i : itree) : list nat := map iroot (isubs i).

Lemma isubs_head i : exists r, isubs i = i :: r.
Proof. destruct i as [v cs]. simpl. eauto. Qed.

Lemma isubs_self i : In i (isubs i).
Proof. destruct (isubs_head i) as [r E]. rewrite E. left; auto. Qed.

Lemma isubs_kid : forall i s c, In s (isubs i) -> In c (ikids s) -> In c (isubs i).
Proof.
  induction i as [v cs IH] using itree_ind'. intros s c Hs Hc. simpl in Hs.
  destruct Hs as [Hs|Hs].
  - subst s. simpl in Hc. right. apply in_flat_map. exists c. split; auto. apply isubs_self.
  - right. apply in_flat_map in Hs. destruct Hs as [c0 [Hc0 Hs]].
    apply in_flat_map. exists c0. split; auto.
    rewrite Forall_forall in IH. eapply IH; eauto.
Qed.

Definition lab (g : dg) (v : nat) : string :=
  match nth_error g v with Some nd => label nd | None => EmptyString end.

Definition par (g : dg) (v : nat) : list nat :=
  match nth_error g v with Some nd => n_parents nd | None => [] end.

(* the label tree of an index tree *)
Fixpoint ilab (g : dg) (i : itree) : tree :=
  match i with IT v cs => T (lab g v) (map (ilab g) cs) end.

Fixpoint iunfold (g : dg) (fuel : nat) (v : nat) : option itree :=
  match fuel with
  | O => None
  | S k => match nth_error g v with
           | None => None
           | Some nd => option_map (IT v) (map_opt (iunfold g k) (n_parents nd))
           end
  end.

Lemma map_opt_option_map {A B C} (f : A -> option C) (f' : A -> option B) (h : B -> C) l :
  (forall a, f a = option_map h (f' a)) -> map_opt f l = option_map (map h) (map_opt f' l).
Proof.
  intros H. induction l as [|a l IH]; simpl; auto.
  rewrite H, IH. destruct (f' a), (map_opt f' l); reflexivity.
Qed.

Lemma unfold_iunfold g : forall k v, unfold g k v = option_map (ilab g) (iunfold g k v).
Proof.
  induction k as [|k IH]; intros v; simpl; auto.
  destruct (nth_error g v) as [nd|] eqn:E; auto.
  rewrite (map_opt_option_map _ (iunfold g k) (ilab g) _ IH).
  destruct (map_opt (iunfold g k) (n_parents nd)); simpl; auto.
  unfold lab. rewrite E. reflexivity.
Qed.

(* an index tree is consistent with g: the children of every subtree are the parents of
   its root, up to order *)
Definition local_ok (g : dg) (s : itree) : Prop :=
  iroot s < llen g /\ Permutation (par g (iroot s)) (map iroot (ikids s)).

Definition iok (g : dg) (i : itree) : Prop := Forall (local_ok g) (isubs i).

Lemma iok_unfold g v cs : iok g (IT v cs) <-> local_ok g (IT v cs) /\ Forall (iok g) cs.
Proof.
  unfold iok. cbn [isubs]. split.
  - intros H. inversion H; subst. split; auto. apply Forall_flat_map; auto.
  - intros [H1 H2]. constructor; auto. apply Forall_flat_map; auto.
Qed.

Lemma iunfold_ok g : forall k v i, iunfold g k v = Some i -> iok g i /\ iroot i = v.
Proof.
  induction k as [|k IH]; intros v i H; [discriminate|]. simpl in H.
  destruct (nth_error g v) as [nd|] eqn:E; [|discriminate].
  destruct (map_opt (iunfold g k) (n_parents nd)) as [cs|] eqn:Ec; [|discriminate].
  simpl in H. injection H as H. subst i. split; auto.
  apply map_opt_Some in Ec.
  assert (Hcs : Forall (iok g) cs /\ map iroot cs = n_parents nd).
  { clear E. induction Ec as [|p c ps cs' Hpc _ IHc]; simpl; auto.
    destruct (IH _ _ Hpc) as [Hok Hr]. destruct IHc as [I1 I2]. split; [constructor; auto|].
    rewrite Hr, I2. reflexivity. }
  destruct Hcs as [Hok Hr]. apply iok_unfold. split; auto.
  split; simpl.
  - apply nth_error_Some. congruence.
  - unfold par. rewrite E, Hr. apply Permutation_refl.
Qed.

(* ==================================================================================== *)
(* 2. index trees with equal label trees correspond position by position                 *)
(* ==================================================================================== *)

Lemma map_eq_Forall2 {A B C} (f : A -> C) (f' : B -> C) l l' :
  map f l = map f' l' -> Forall2 (fun a b => f a = f' b) l l'.
Proof.
  revert l'. induction l as [|a l IH]; intros [|b l'] H; simpl in H; try discriminate; constructor.
  - injection H; auto.
  - apply IH. injection H; auto.
Qed.

Lemma combine_app {A B} (a b : list A) (a' b' : list B) :
  llen a = llen a' -> combine (a ++ b) (a' ++ b') = combine a a' ++ combine b b'.
Proof.
  revert a'. induction a as [|x a IH]; intros [|y a'] H; simpl in *; try discriminate; auto.
  rewrite IH; auto.
Qed.

Lemma combine_map {A B A' B'} (f : A -> A') (h : B -> B') l l' :
  combine (map f l) (map h l') = map (fun p => (f (fst p), h (snd p))) (combine l l').
Proof.
  revert l'. induction l as [|a l IH]; intros [|b l']; simpl; auto. rewrite IH. reflexivity.
Qed.

Lemma in_combine_ex_l {A B} (l : list A) (l' : list B) x :
  llen l = llen l' -> In x l -> exists y, In (x, y) (combine l l').
Proof.
  revert l'. induction l as [|a l IH]; intros [|b l'] H Hin; simpl in *; try discriminate; try contradiction.
  destruct Hin as [Hin|Hin].
  - subst. eauto.
  - destruct (IH l') as [y Hy]; auto. eauto.
Qed.

Lemma map_fst_combine {A B} (l : list A) (l' : list B) :
  llen l = llen l' -> map fst (combine l l') = l.
Proof.
  revert l'. induction l as [|a l IH]; intros [|b l'] H; simpl in *; try discriminate; auto.
  rewrite IH; auto.
Qed.

Lemma map_snd_combine {A B} (l : list A) (l' : list B) :
  llen l = llen l' -> map snd (combine l l') = l'.
Proof.
  revert l'. induction l as [|a l IH]; intros [|b l'] H; simpl in *; try discriminate; auto.
  rewrite IH; auto.
Qed.

Lemma Forall2_combine {A B} (R Q : A -> B -> Prop) l l' :
  Forall2 R l l' -> (forall a b, In (a, b) (combine l l') -> R a b -> Q a b) -> Forall2 Q l l'.
Proof.
  induction 1 as [|a b l l' Hab _ IH]; intros H; constructor.
  - apply H; auto. left; auto.
  - apply IH. intros x y Hin. apply H. right; auto.
Qed.

Lemma Forall2_In_combine {A B} (R : A -> B -> Prop) l l' a b :
  Forall2 R l l' -> In (a, b) (combine l l') -> R a b.
Proof.
  induction 1 as [|x y l l' Hxy _ IH]; simpl; intros H; [contradiction|].
  destruct H as [H|H]; [injection H as -> ->; auto|auto].
Qed.

Lemma Forall2_weaken {A B} (R Q : A -> B -> Prop) l l' :
  (forall a b, R a b -> Q a b) -> Forall2 R l l' -> Forall2 Q l l'.
Proof. intros H. induction 1; constructor; auto. Qed.

Section Match.
  Variables g1 g2 : dg.

  Definition zp (i1 i2 : itree) : list (itree * itree) := combine (isubs i1) (isubs i2).

  Lemma ilab_size : forall a b, ilab g1 a = ilab g2 b -> llen (isubs a) = llen (isubs b).
  Proof.
    induction a as [v cs IH] using itree_ind'. intros [v' cs'] E. simpl in E.
    injection E as _ Em. apply map_eq_Forall2 in Em. simpl. f_equal.
    induction Em as [|c c' cs cs' Hc _ IHm]; simpl; auto.
    inversion IH; subst. rewrite !app_length. rewrite (H1 c' Hc), IHm; auto.
  Qed.

  Lemma zp_kids cs cs' :
    Forall2 (fun a b => ilab g1 a = ilab g2 b) cs cs' ->
    (forall c c', In (c, c') (combine cs cs') ->
                  incl (zp c c') (combine (flat_map isubs cs) (flat_map isubs cs'))) /\
    (forall p, In p (combine (flat_map isubs cs) (flat_map isubs cs')) ->
               exists c c', In (c, c') (combine cs cs') /\ In p (zp c c')).
  Proof.
    induction 1 as [|c c' cs cs' Hc _ [IH1 IH2]]; simpl.
    - split; [intros ? ? []|intros ? []].
    - rewrite (combine_app _ _ _ _ (ilab_size _ _ Hc)). split.
      + intros x x' [H|H] p Hp; apply in_or_app.
        * injection H as -> ->. left. exact Hp.
        * right. eapply IH1; eauto.
      + intros p Hp. apply in_app_or in Hp. destruct Hp as [Hp|Hp].
        * exists c, c'. split; auto.
        * destruct (IH2 p Hp) as [x [x' [H1 H2]]]. exists x, x'. split; auto.
  Qed.

  (* K: corresponding subtrees have equal label trees, and their children correspond *)
  Lemma zp_spec : forall i1 i2, ilab g1 i1 = ilab g2 i2 ->
    forall s1 s2, In (s1, s2) (zp i1 i2) ->
    ilab g1 s1 = ilab g2 s2 /\
    Forall2 (fun c1 c2 => In (c1, c2) (zp i1 i2)) (ikids s1) (ikids s2).
  Proof.
    induction i1 as [v cs IH] using itree_ind'. intros [v' cs'] E s1 s2 Hin.
    assert (E' := E). simpl in E'. injection E' as _ Em. apply map_eq_Forall2 in Em.
    destruct (zp_kids cs cs' Em) as [K1 K2].
    unfold zp in *. cbn [isubs combine] in *.
    destruct Hin as [Hin|Hin].
    - injection Hin as <- <-. split; auto. cbn [ikids].
      eapply Forall2_combine; [exact Em|]. intros a b Hab _. right.
      apply (K1 a b Hab). destruct (isubs_head a) as [ra Ea], (isubs_head b) as [rb Eb].
      unfold zp. rewrite Ea, Eb. left; auto.
    - destruct (K2 _ Hin) as [c [c' [Hcc Hp]]].
      rewrite Forall_forall in IH.
      destruct (IH c (in_combine_l _ _ _ _ Hcc) c' (Forall2_In_combine _ _ _ _ _ Em Hcc) s1 s2 Hp)
        as [H1 H2].
      split; auto. eapply Forall2_weaken; [|exact H2].
      intros a b Hab. right. eapply K1; eauto.
  Qed.

  Fixpoint assoc (ps : list (nat * nat)) (a : nat) : nat :=
    match ps with
    | [] => 0
    | (x, y) :: r => if Nat.eqb a x then y else assoc r a
    end.

  Lemma assoc_In (ps : list (nat * nat)) a b : NoDup (map fst ps) -> In (a, b) ps -> assoc ps a = b.
  Proof.
    induction ps as [|[x y] ps IH]; simpl; intros ND H; [contradiction|].
    inversion ND; subst. destruct H as [H|H].
    - injection H as -> ->. rewrite Nat.eqb_refl. reflexivity.
    - destruct (Nat.eqb_spec a x).
      + subst. exfalso. apply H2. change x with (fst (x, b)). apply in_map. exact H.
      + auto.
  Qed.

  Lemma snd_inj (ps : list (nat * nat)) a a' b : NoDup (map snd ps) -> In (a, b) ps -> In (a', b) ps -> a = a'.
  Proof.
    induction ps as [|[x y] ps IH]; simpl; intros ND H H'; [contradiction|].
    inversion ND; subst.
    destruct H as [H|H], H' as [H'|H'].
    - congruence.
    - injection H as -> ->. exfalso. apply H2. change b with (snd (a', b)). apply in_map. exact H'.
    - injection H' as -> ->. exfalso. apply H2. change b with (snd (a, b)). apply in_map. exact H.
    - auto.
  Qed.

  (* M: two consistent index trees that list every node exactly once and have equal label
     trees yield an isomorphism: match the nodes position by position *)
  Lemma match_iso i1 i2 :
    iok g1 i1 -> iok g2 i2 ->
    Permutation (inodes i1) (seq 0 (llen g1)) -> Permutation (inodes i2) (seq 0 (llen g2)) ->
    ilab g1 i1 = ilab g2 i2 ->
    iso g1 g2 (assoc (combine (inodes i1) (inodes i2))).
  Proof.
    intros O1 O2 P1 P2 E.
    assert (Ls : llen (isubs i1) = llen (isubs i2)) by (apply ilab_size; auto).
    assert (Ln : llen (inodes i1) = llen (inodes i2)) by (unfold inodes; rewrite !map_length; auto).
    assert (Lg : llen g1 = llen g2).
    { apply Permutation_length in P1, P2. rewrite seq_length in *. congruence. }
    assert (ND1 : NoDup (inodes i1)).
    { eapply Permutation_NoDup; [apply Permutation_sym; exact P1|apply seq_NoDup]. }
    assert (ND2 : NoDup (inodes i2)).
    { eapply Permutation_NoDup; [apply Permutation_sym; exact P2|apply seq_NoDup]. }
    set (ps := combine (inodes i1) (inodes i2)).
    assert (Eps : ps = map (fun p => (iroot (fst p), iroot (snd p))) (zp i1 i2)).
    { unfold ps, inodes, zp. apply combine_map. }
    assert (NDf : NoDup (map fst ps)) by (unfold ps; rewrite map_fst_combine; auto).
    assert (NDs : NoDup (map snd ps)) by (unfold ps; rewrite map_snd_combine; auto).
    (* every node of g1 heads a subtree that has a partner *)
    assert (Hpair : forall v, v < llen g1 ->
              exists s1 s2, In (s1, s2) (zp i1 i2) /\ iroot s1 = v /\ assoc ps v = iroot s2).
    { intros v Hv.
      assert (Hin : In v (inodes i1)).
      { eapply Permutation_in; [apply Permutation_sym; exact P1|]. apply in_seq. lia. }
      unfold inodes in Hin. apply in_map_iff in Hin. destruct Hin as [s1 [Hr Hs1]].
      destruct (in_combine_ex_l _ (isubs i2) s1 Ls Hs1) as [s2 Hs2].
      exists s1, s2. repeat split; auto.
      apply assoc_In; auto. rewrite Eps. apply in_map_iff. exists (s1, s2). simpl. rewrite Hr. auto. }
    assert (Hlok1 : forall s1 s2, In (s1, s2) (zp i1 i2) -> local_ok g1 s1).
    { intros s1 s2 H. unfold iok in O1. rewrite Forall_forall in O1. apply O1.
      eapply in_combine_l; eauto. }
    assert (Hlok2 : forall s1 s2, In (s1, s2) (zp i1 i2) -> local_ok g2 s2).
    { intros s1 s2 H. unfold iok in O2. rewrite Forall_forall in O2. apply O2.
      eapply in_combine_r; eauto. }
    constructor; auto.
    - intros v Hv. destruct (Hpair v Hv) as [s1 [s2 [Hin [Hr Hf]]]]. rewrite Hf.
      apply (Hlok2 _ _ Hin).
    - intros u v Hu Hv Ef.
      destruct (Hpair u Hu) as [s1 [s2 [Hin [Hr Hf]]]].
      destruct (Hpair v Hv) as [s1' [s2' [Hin' [Hr' Hf']]]].
      apply (snd_inj ps u v (iroot s2)); auto.
      + rewrite Eps. apply in_map_iff. exists (s1, s2). simpl. rewrite Hr. auto.
      + rewrite Eps. apply in_map_iff. exists (s1', s2'). simpl. rewrite Hr'. split; auto.
        f_equal. congruence.
    - intros v nd Hv.
      assert (Hlt : v < llen g1) by (apply nth_error_Some; congruence).
      destruct (Hpair v Hlt) as [s1 [s2 [Hin [Hr Hf]]]].
      destruct (Hlok1 _ _ Hin) as [_ Q1]. destruct (Hlok2 _ _ Hin) as [B2 Q2].
      destruct (zp_spec i1 i2 E s1 s2 Hin) as [El Ek].
      destruct (nth_error g2 (iroot s2)) as [nd'|] eqn:E2.
      2:{ apply nth_error_None in E2. lia. }
      rewrite Hf. exists nd'. split; auto. split.
      + destruct s1 as [v1 c1], s2 as [v2 c2]. simpl in *. injection El as El _.
        unfold lab in El. subst v1. rewrite Hv, E2 in El. auto.
      + unfold par in Q1, Q2. rewrite Hr, Hv in Q1. rewrite E2 in Q2.
        eapply perm_trans; [exact Q2|].
        eapply perm_trans; [|apply Permutation_map; apply Permutation_sym; exact Q1].
        rewrite map_map.
        assert (Em : map iroot (ikids s2) = map (fun x => assoc ps (iroot x)) (ikids s1)).
        { clear Q1 Q2. induction Ek as [|c1 c2 k1 k2 Hc _ IHk]; simpl; auto.
          rewrite IHk. f_equal. symmetry. apply assoc_In; auto.
          rewrite Eps. apply in_map_iff. exists (c1, c2). auto. }
        rewrite Em. apply Permutation_refl.
  Qed.
End Match.

(* ==================================================================================== *)
(* 3. a tiso derivation rearranges the second index tree until the label trees are equal  *)
(* ==================================================================================== *)

Lemma inodes_eq v cs : inodes (IT v cs) = v :: flat_map inodes cs.
Proof.
  unfold inodes. cbn [isubs map iroot]. f_equal.
  induction cs as [|c cs IH]; simpl; auto. rewrite map_app, IH. reflexivity.
Qed.

Lemma Forall2_map_r {A B C} (R : A -> C -> Prop) (f : B -> C) l l' :
  Forall2 R l (map f l') -> Forall2 (fun a b => R a (f b)) l l'.
Proof.
  revert l'. induction l as [|a l IH]; intros [|b l'] H; simpl in H; inversion H; subst; constructor; auto.
Qed.

Lemma flat_map_perm2 {A B} (f : A -> list B) l l' :
  Forall2 (fun a b => Permutation (f a) (f b)) l l' -> Permutation (flat_map f l) (flat_map f l').
Proof. induction 1; simpl; auto. apply Permutation_app; auto. Qed.

Lemma realign g : forall t t2, tiso t t2 -> forall i, iok g i -> ilab g i = t2 ->
  exists i', iok g i' /\ Permutation (inodes i) (inodes i') /\ iroot i' = iroot i /\ ilab g i' = t.
Proof.
  intros t t2 h. induction h as [l cs cs' cs'' P F IH] using tiso_ind'.
  intros [v ics] O E. simpl in E. injection E as El Em. subst cs'.
  apply Permutation_sym, Permutation_map_inv in P. destruct P as [ics'' [E'' P]]. subst cs''.
  apply iok_unfold in O. destruct O as [[Bv Pv] Ok].
  assert (Ok'' : Forall (iok g) ics'') by (eapply Permutation_Forall; eauto).
  apply Forall2_map_r in IH.
  assert (Hex : exists ics''',
            Forall2 (fun a b => iok g b /\ Permutation (inodes a) (inodes b) /\ iroot b = iroot a) ics'' ics'''
            /\ map (ilab g) ics''' = cs).
  { clear P Pv F. revert Ok''. induction IH as [|c a cs0 as0 Hca _ IHf]; intros Ok''.
    - exists []. split; constructor.
    - inversion Ok''; subst. destruct (Hca a H1 eq_refl) as [b [B1 [B2 [B3 B4]]]].
      destruct (IHf H2) as [bs [C1 C2]]. exists (b :: bs). split.
      + constructor; auto.
      + simpl. rewrite B4, C2. reflexivity. }
  destruct Hex as [ics''' [H3 H4]].
  exists (IT v ics'''). repeat split.
  - apply iok_unfold. split.
    + split; auto. simpl in *. eapply perm_trans; [exact Pv|].
      eapply perm_trans; [apply Permutation_map; exact P|].
      assert (Er : map iroot ics'' = map iroot ics''').
      { clear -H3. induction H3 as [|a b la lb [_ [_ Hr]] _ IHh]; simpl; auto. rewrite Hr, IHh. reflexivity. }
      rewrite Er. apply Permutation_refl.
    + clear -H3. induction H3 as [|a b la lb [Hb _] _ IHh]; constructor; auto.
  - rewrite !inodes_eq. apply perm_skip.
    eapply perm_trans; [apply Permutation_flat_map; exact P|].
    apply flat_map_perm2. eapply Forall2_weaken; [|exact H3]. intros a b [_ [Hp _]]. exact Hp.
  - simpl. rewrite H4, El. reflexivity.
Qed.

(* ==================================================================================== *)
(* 4. the converse clause on tree-shaped graphs                                          *)
(* ==================================================================================== *)

(* g is a tree rooted at r: closed, acyclic, r the only root, and unfolding g from r lists
   every node exactly once *)
Definition tree_at (g : dg) (r : nat) : Prop :=
  wf g /\ dag g /\ sinks g = [r] /\
  exists k i, iunfold g k r = Some i /\ Permutation (inodes i) (seq 0 (llen g)).

Theorem tree_eq_iff_iso_at g1 g2 r1 r2 :
  tree_at g1 r1 -> tree_at g2 r2 -> clean_labels g1 -> clean_labels g2 ->
  (graph_eq g1 g2 = Some true <-> exists f, iso g1 g2 f).
Proof.
  intros [W1 [D1 [S1 [k1 [i1 [U1 P1]]]]]] [W2 [D2 [S2 [k2 [i2 [U2 P2]]]]]] C1 C2. split.
  2:{ intros [f I]. eapply graph_eq_iso; eauto. }
  intros H.
  apply (dag_eq_iff_unfold_iso g1 g2 r1 r2 W1 W2 D1 D2 C1 C2 S1 S2) in H.
  destruct H as [t1 [t2 [k1' [k2' [V1 [V2 I]]]]]].
  assert (E1 : unfold g1 k1 r1 = Some (ilab g1 i1)) by (rewrite unfold_iunfold, U1; reflexivity).
  assert (E2 : unfold g2 k2 r2 = Some (ilab g2 i2)) by (rewrite unfold_iunfold, U2; reflexivity).
  rewrite (unfold_unique _ _ _ _ _ _ V1 E1), (unfold_unique _ _ _ _ _ _ V2 E2) in I.
  destruct (iunfold_ok _ _ _ _ U1) as [O1 _]. destruct (iunfold_ok _ _ _ _ U2) as [O2 _].
  destruct (realign g2 _ _ I i2 O2 eq_refl) as [i2' [O2' [Pn [_ El]]]].
  eexists. apply (match_iso g1 g2 i1 i2'); auto.
  eapply perm_trans; [apply Permutation_sym; exact Pn|exact P2].
Qed.

(* ==================================================================================== *)
(* 5. the local description of a tree: one root, acyclic, every node has at most one      *)
(*    child (no node occurs twice among all parent links)                                 *)
(* ==================================================================================== *)

Definition tree_shaped (g : dg) : Prop :=
  wf g /\ dag g /\ (exists r, sinks g = [r]) /\ NoDup (parents_all g).

Notation cnt := (count_occ Nat.eq_dec).

(* the index tree produced by iunfold is exact: children in the order of the parent list *)
Definition exact (g : dg) (i : itree) : Prop :=
  Forall (fun s => iroot s < llen g /\ map iroot (ikids s) = par g (iroot s)) (isubs i).

Lemma exact_unfold g v cs :
  exact g (IT v cs) <-> (v < llen g /\ map iroot cs = par g v) /\ Forall (exact g) cs.
Proof.
  unfold exact. cbn [isubs]. split.
  - intros H. inversion H; subst. split; auto. apply Forall_flat_map; auto.
  - intros [H1 H2]. constructor; auto. apply Forall_flat_map; auto.
Qed.

Lemma iunfold_exact g : forall k v i, iunfold g k v = Some i -> exact g i /\ iroot i = v.
Proof.
  induction k as [|k IH]; intros v i H; [discriminate|]. simpl in H.
  destruct (nth_error g v) as [nd|] eqn:E; [|discriminate].
  destruct (map_opt (iunfold g k) (n_parents nd)) as [cs|] eqn:Ec; [|discriminate].
  simpl in H. injection H as H. subst i. split; auto.
  apply map_opt_Some in Ec.
  assert (Hcs : Forall (exact g) cs /\ map iroot cs = n_parents nd).
  { clear E. induction Ec as [|p c ps cs' Hpc _ IHc]; simpl; auto.
    destruct (IH _ _ Hpc) as [Hok Hr]. destruct IHc as [I1 I2]. split; [constructor; auto|].
    rewrite Hr, I2. reflexivity. }
  destruct Hcs as [Hok Hr]. apply exact_unfold. split; auto. split.
  - apply nth_error_Some. congruence.
  - unfold par. rewrite E. exact Hr.
Qed.

Lemma flat_map_flat_map {A B C} (f : A -> list B) (h : B -> list C) l :
  flat_map h (flat_map f l) = flat_map (fun a => flat_map h (f a)) l.
Proof. induction l as [|a l IH]; simpl; auto. rewrite flat_map_app, IH. reflexivity. Qed.

(* every occurrence of u in the node list is the root or a parent link of a listed node *)
Lemma count_identity g : forall i, exact g i -> forall u,
  cnt (inodes i) u = (if Nat.eq_dec (iroot i) u then 1 else 0) + cnt (flat_map (par g) (inodes i)) u.
Proof.
  induction i as [v cs IH] using itree_ind'. intros X u.
  apply exact_unfold in X. destruct X as [[_ Ep] Xc].
  rewrite inodes_eq. cbn [iroot flat_map]. rewrite count_occ_app, <- Ep.
  assert (G : cnt (flat_map inodes cs) u
              = cnt (map iroot cs) u + cnt (flat_map (par g) (flat_map inodes cs)) u).
  { clear Ep. induction cs as [|c cs IHc]; simpl; auto.
    inversion IH; subst. inversion Xc; subst.
    rewrite flat_map_app, !count_occ_app, (H1 H3 u), (IHc H2 H4).
    destruct (Nat.eq_dec (iroot c) u); lia. }
  simpl. destruct (Nat.eq_dec v u); lia.
Qed.

Lemma count_flat_map_single (f : nat -> list nat) u w N :
  (forall w', cnt (f w') u = if Nat.eq_dec w' w then 1 else 0) ->
  cnt (flat_map f N) u = cnt N w.
Proof.
  intros H. induction N as [|x N IH]; simpl; auto.
  rewrite count_occ_app, H, IH. destruct (Nat.eq_dec x w); lia.
Qed.

Lemma NoDup_app_disjoint {A} (a b : list A) x : NoDup (a ++ b) -> In x a -> In x b -> False.
Proof.
  induction a as [|y a IH]; simpl; intros ND Ha Hb; [contradiction|].
  inversion ND; subst. destruct Ha as [Ha|Ha].
  - subst. apply H1. apply in_or_app. right; auto.
  - eauto.
Qed.

Lemma NoDup_app_both {A} (a b : list A) : NoDup (a ++ b) -> NoDup a /\ NoDup b.
Proof.
  induction a as [|x a IH]; simpl; intros ND; [split; [constructor|auto]|].
  inversion ND; subst. destruct (IH H2) as [Ha Hb]. split; auto.
  constructor; auto. intros Hin. apply H1. apply in_or_app. left; auto.
Qed.

(* no node occurs twice among the parent links: u is a parent link of at most one node, once *)
Lemma unique_child g u w :
  NoDup (parents_all g) -> In u (par g w) ->
  forall w', cnt (par g w') u = if Nat.eq_dec w' w then 1 else 0.
Proof.
  unfold parents_all, par. revert w. induction g as [|nd g IH]; intros w ND Hu w'.
  - destruct w; simpl in Hu; contradiction.
  - simpl in ND.
    destruct (NoDup_app_both _ _ ND) as [NDh NDt].
    assert (Hin_tail : forall x, In u (match nth_error g x with Some n => n_parents n | None => [] end) ->
                                 In u (List.concat (map n_parents g))).
    { intros x Hx. destruct (nth_error g x) as [n|] eqn:En; [|contradiction].
      apply in_concat. exists (n_parents n). split; auto. apply in_map. eapply nth_error_In; eauto. }
    destruct w as [|w], w' as [|w']; simpl in *.
    + apply NoDup_count_occ'; auto.
    + apply count_occ_not_In. intros Hx. eapply NoDup_app_disjoint; eauto.
    + apply count_occ_not_In. intros Hx. eapply NoDup_app_disjoint; eauto.
    + rewrite (IH w NDt Hu w'). destruct (Nat.eq_dec w' w), (Nat.eq_dec (S w') (S w)); auto; lia.
Qed.

Lemma tree_shaped_at g r :
  wf g -> dag g -> sinks g = [r] -> NoDup (parents_all g) -> tree_at g r.
Proof.
  intros W D S ND. split; [|split; [|split]]; auto.
  assert (Lr : r < llen g) by (apply sinks_lt; rewrite S; left; auto).
  destruct (descr_dag g D W r Lr) as [t [k [U _]]].
  rewrite unfold_iunfold in U. destruct (iunfold g k r) as [i|] eqn:Ui; [|discriminate].
  exists k, i. split; auto.
  destruct (iunfold_exact _ _ _ _ Ui) as [X Er].
  destruct D as [rank R].
  (* the root is a parent of nobody *)
  assert (Hroot : forall w, ~ In r (par g w)).
  { intros w Hin. unfold par in Hin. destruct (nth_error g w) as [nd|] eqn:En; [|contradiction].
    assert (Hc : has_child g r = true) by (apply has_child_spec; eauto).
    assert (Hs : In r (sinks g)) by (rewrite S; left; auto).
    unfold sinks in Hs. apply filter_In in Hs. destruct Hs as [_ Hs]. rewrite Hc in Hs. discriminate. }
  (* every other node has a child *)
  assert (Hchild : forall u, u < llen g -> u <> r -> exists w, w < llen g /\ In u (par g w) /\ rank u < rank w).
  { intros u Hu Hne. destruct (has_child g u) eqn:Hc.
    - apply has_child_spec in Hc. destruct Hc as [w [nd [En Hin]]].
      exists w. split; [apply nth_error_Some; congruence|]. unfold par. rewrite En. split; auto.
      eapply R; eauto.
    - assert (Hs : In u (sinks g)).
      { unfold sinks. apply filter_In. split; [apply in_seq; lia|]. rewrite Hc. reflexivity. }
      rewrite S in Hs. destruct Hs as [Hs|[]]. congruence. }
  (* every node occurs exactly once *)
  set (B := list_max (map rank (seq 0 (llen g)))).
  assert (HB : forall w, w < llen g -> rank w <= B).
  { intros w Hw. assert (HF : Forall (fun k => k <= B) (map rank (seq 0 (llen g)))) by (apply list_max_le; auto).
    rewrite Forall_forall in HF. apply HF. apply in_map. apply in_seq. lia. }
  assert (Hone : forall d u, u < llen g -> B - rank u < d -> cnt (inodes i) u = 1).
  { induction d as [|d IHd]; intros u Hu Hd; [lia|].
    rewrite (count_identity g i X u), Er.
    destruct (Nat.eq_dec r u) as [->|Hne].
    - assert (Z : cnt (flat_map (par g) (inodes i)) u = 0).
      { apply count_occ_not_In. intros Hin. apply in_flat_map in Hin. destruct Hin as [w [_ Hw]].
        eapply Hroot; eauto. }
      rewrite Z. reflexivity.
    - destruct (Hchild u Hu (fun E => Hne (eq_sym E))) as [w [Hw [Hin Hr]]].
      rewrite (count_flat_map_single (par g) u w _ (unique_child g u w ND Hin)).
      rewrite (IHd w Hw); auto. specialize (HB w Hw). lia. }
  assert (Hin_lt : forall u, In u (inodes i) -> u < llen g).
  { intros u Hin. unfold inodes in Hin. apply in_map_iff in Hin. destruct Hin as [s [Es Hs]].
    unfold exact in X. rewrite Forall_forall in X. destruct (X s Hs) as [Hlt _]. subst. exact Hlt. }
  apply NoDup_Permutation.
  - apply (NoDup_count_occ' Nat.eq_dec). intros u Hin. apply (Hone (B + 1) u); auto. lia.
  - apply seq_NoDup.
  - intros u. rewrite in_seq. split.
    + intros Hin. specialize (Hin_lt u Hin). lia.
    + intros Hu. apply (count_occ_In Nat.eq_dec). rewrite (Hone (B + 1) u); lia.
Qed.

(* the converse clause at full strength *)
Theorem tree_eq_iff_iso g1 g2 :
  tree_shaped g1 -> tree_shaped g2 -> clean_labels g1 -> clean_labels g2 ->
  (graph_eq g1 g2 = Some true <-> exists f, iso g1 g2 f).
Proof.
  intros [W1 [D1 [[r1 S1] N1]]] [W2 [D2 [[r2 S2] N2]]] C1 C2.
  apply (tree_eq_iff_iso_at g1 g2 r1 r2); auto using tree_shaped_at.
Qed.
