(* Node heap for the LinkedGraph model (property C04).  Definitions only.

   A Python node object is a reference (index into the heap); `uid` is an ordinary field
   (deepcopy copies it, update_subtree may renew it).  A graph is the `_nodes` list of
   references.  The parent container of a node is a list of references plus the container
   kind (`uniq = true` : golem.utilities.data_structures.UniqueList, `false` : plain list). *)
From Coq Require Import List Arith Bool.
Import ListNotations.

Definition ref := nat.

Record node := mkNode {
  uid : nat;              (* identifier string, abstracted to a number (only equality matters) *)
  label : nat;            (* content['name'], abstracted to a number *)
  parents : list ref;     (* nodes_from, in order *)
  uniq : bool             (* container kind of nodes_from *)
}.

Definition heap := list node.
Definition graph := list ref.
Definition state := (heap * graph)%type.

Definition dummy : node := mkNode 0 0 [] true.

Definition get (h : heap) (r : ref) : node := nth r h dummy.
Definition pars (h : heap) (r : ref) : list ref := parents (get h r).

(* replace the object stored at index r *)
Fixpoint upd (h : heap) (r : ref) (nd : node) : heap :=
  match h, r with
  | [], _ => []
  | _ :: t, O => nd :: t
  | x :: t, S r' => x :: upd t r' nd
  end.

Definition with_parents (nd : node) (ps : list ref) : node :=
  mkNode (uid nd) (label nd) ps (uniq nd).
Definition with_uid (nd : node) (u : nat) : node :=
  mkNode u (label nd) (parents nd) (uniq nd).

Definition set_pars (h : heap) (r : ref) (ps : list ref) : heap :=
  upd h r (with_parents (get h r) ps).
(* the nodes_from setter builds a new UniqueList *)
Definition set_pars_uniq (h : heap) (r : ref) (ps : list ref) : heap :=
  upd h r (mkNode (uid (get h r)) (label (get h r)) ps true).
Definition set_uid (h : heap) (r : ref) (u : nat) : heap :=
  upd h r (with_uid (get h r) u).

(* ---------------------------------------------------------------- membership, duplicates *)
Definition memb (x : nat) (l : list nat) : bool := existsb (Nat.eqb x) l.

Fixpoint nodup_b (l : list nat) : bool :=
  match l with
  | [] => true
  | x :: t => negb (memb x t) && nodup_b t
  end.

(* ---------------------------------------------------------------- exceptions as values *)
Inductive exn := ValueError | KeyError | IndexError | OutOfFuel | OtherError | Unmodelled.
Inductive res (A : Type) := Ok (a : A) | Raise (e : exn).
Arguments Ok {A} a.
Arguments Raise {A} e.

Definition bind {A B} (x : res A) (f : A -> res B) : res B :=
  match x with Ok a => f a | Raise e => Raise e end.

Definition is_ok {A} (x : res A) : bool := match x with Ok _ => true | Raise _ => false end.

Definition exn_eqb (a b : exn) : bool :=
  match a, b with
  | ValueError, ValueError | KeyError, KeyError | IndexError, IndexError
  | OutOfFuel, OutOfFuel | OtherError, OtherError | Unmodelled, Unmodelled => true
  | _, _ => false
  end.

(* ---------------------------------------------------------------- well-formedness *)
(* no dangling reference anywhere in the heap (every parent is an object) *)
Definition heap_ok (h : heap) : Prop :=
  forall r p, r < length h -> In p (pars h r) -> p < length h.

Definition uid_inj (h : heap) (g : list ref) : Prop :=
  forall a b, In a g -> In b g -> uid (get h a) = uid (get h b) -> a = b.

Record WF (h : heap) (g : graph) : Prop := mkWF {
  wf_heap : heap_ok h;
  wf_nodup : NoDup g;                                              (* no node listed twice *)
  wf_valid : forall r, In r g -> r < length h;
  wf_uid : uid_inj h g;                                            (* no two nodes with one uid *)
  wf_pnodup : forall r, In r g -> NoDup (pars h r);                (* no parent linked twice *)
  wf_uniq : forall r, In r g -> uniq (get h r) = true;             (* parent lists are UniqueLists *)
  wf_closed : forall r p, In r g -> In p (pars h r) -> In p g      (* parents of members are members *)
}.

Definition heap_ok_b (h : heap) : bool :=
  forallb (fun nd => forallb (fun p => p <? length h) (parents nd)) h.

Definition uid_inj_b (h : heap) (g : list ref) : bool :=
  forallb (fun a => forallb (fun b => negb (uid (get h a) =? uid (get h b)) || (a =? b)) g) g.

Definition wf_b (h : heap) (g : graph) : bool :=
  heap_ok_b h && nodup_b g && forallb (fun r => r <? length h) g && uid_inj_b h g &&
  forallb (fun r => nodup_b (pars h r)) g && forallb (fun r => uniq (get h r)) g &&
  forallb (fun r => forallb (fun p => memb p g) (pars h r)) g.

(* ---------------------------------------------------------------- graph-theoretic notions *)
(* p is a parent of c *)
Definition edge (h : heap) (c p : ref) : Prop := In p (pars h c).

(* reachP par a b : b is reached from a by following `par` links (b is an ancestor-or-self of a) *)
Inductive reachP (par : ref -> list ref) : ref -> ref -> Prop :=
| reach_refl : forall a, reachP par a a
| reach_step : forall a p b, In p (par a) -> reachP par p b -> reachP par a b.

Definition reach (h : heap) : ref -> ref -> Prop := reachP (pars h).

(* a cycle is reachable from r *)
Definition on_cycle (h : heap) (x : ref) : Prop := exists p, edge h x p /\ reach h p x.
Definition acyclic_from (h : heap) (r : ref) : Prop := forall x, reach h r x -> ~ on_cycle h x.
Definition acyclic (h : heap) (g : graph) : Prop := forall r, In r g -> acyclic_from h r.
