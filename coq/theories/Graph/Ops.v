(* Executable model of golem/core/dag/linked_graph.py (LinkedGraph editing methods), of the
   UniqueList methods / remove_items of golem/utilities/data_structures.py they use, of
   graph_utils.ordered_subnodes_hierarchy and of copy.deepcopy on node objects.
   GraphDelegate forwards every call unchanged (gd_* below).  Definitions only.

   Every operation maps (heap, _nodes list) to `res (heap * _nodes list)`; exceptions are values.
   Loops over `node.nodes_from` / `self._nodes` are folds in list order. *)
From Coq Require Import List Arith Bool.
From GolemV Require Import Graph.Heap.
Import ListNotations.

(* ------------------------------------------------------------------ python list primitives *)
(* list.remove(x): first occurrence, ValueError when absent *)
Fixpoint list_remove (x : nat) (l : list nat) : res (list nat) :=
  match l with
  | [] => Raise ValueError
  | y :: t => if x =? y then Ok t
              else match list_remove x t with Ok t' => Ok (y :: t') | Raise e => Raise e end
  end.

(* list.index(x): ValueError when absent *)
Fixpoint list_index (x : nat) (l : list nat) : res nat :=
  match l with
  | [] => Raise ValueError
  | y :: t => if x =? y then Ok 0
              else match list_index x t with Ok i => Ok (S i) | Raise e => Raise e end
  end.

(* l[i] = v for an index in range *)
Fixpoint set_nth (i : nat) (v : nat) (l : list nat) : list nat :=
  match l, i with
  | [], _ => []
  | _ :: t, O => v :: t
  | y :: t, S i' => y :: set_nth i' v t
  end.

(* ------------------------------------------------------------------ UniqueList / plain list *)
Definition pl_append (u : bool) (l : list ref) (v : ref) : list ref :=
  if u && memb v l then l else l ++ [v].
(* extend consumes a lazy generator: every element is tested against the list as it is then *)
Definition pl_extend (u : bool) (l vs : list ref) : list ref := fold_left (pl_append u) vs l.
(* __setitem__(int, v): ignored when v is already present *)
Definition pl_setitem (u : bool) (l : list ref) (i : nat) (v : ref) : list ref :=
  if u && memb v l then l else set_nth i v l.
(* UniqueList(iterable): first occurrences, order kept *)
Definition dedupe (l : list ref) : list ref := fold_left (pl_append true) l [].
(* remove_items(collection, items) *)
Definition remove_items (l rm : list ref) : list ref := filter (fun x => negb (memb x rm)) l.

Definition null {A} (l : list A) : bool := match l with [] => true | _ => false end.

(* ------------------------------------------------------------------ queries *)
(* LinkedGraph.node_children *)
Definition node_children (h : heap) (g : graph) (n : ref) : list ref :=
  filter (fun c => memb n (pars h c)) g.

(* LinkedGraph.root_nodes: members without children *)
Definition root_nodes (h : heap) (g : graph) : list ref :=
  filter (fun r => null (node_children h g r)) g.

(* ordered_subnodes_hierarchy: recursive pre-order walk with the two sets `started`, `visited`;
   raises ValueError on a parent that is started but not finished *)
Fixpoint subtree_impl (fuel : nat) (h : heap) (n : ref) (st vi : list ref)
  : res (list ref * (list ref * list ref)) :=
  match fuel with
  | O => Raise OutOfFuel
  | S k =>
    fold_left (fun acc p =>
      match acc with
      | Ok (nodes, (st1, vi1)) =>
          if memb p vi1 then acc
          else if memb p st1 then Raise ValueError
          else match subtree_impl k h p (p :: st1) vi1 with
               | Ok (sub, (st2, vi2)) => Ok (nodes ++ sub, (st2, p :: vi2))
               | Raise e => Raise e
               end
      | Raise e => Raise e
      end) (pars h n) (Ok ([n], (st, vi)))
  end.

Definition hierarchy (h : heap) (n : ref) : res (list ref) :=
  match subtree_impl (S (length h)) h n [n] [] with
  | Ok (l, _) => Ok l
  | Raise e => Raise e
  end.

(* graph_has_cycle (golem/core/dag/graph_utils.py, anchored in property C12) is modelled by its
   meaning on graphs closed under parents: some member's ancestor walk meets a back edge *)
Definition has_cycle (h : heap) (g : graph) : bool :=
  existsb (fun r => negb (is_ok (hierarchy h r))) g.

(* ------------------------------------------------------------------ loops over node objects *)
(* for c in l: c.nodes_from = f(c)   (f may raise) *)
Fixpoint loop_nodes (f : node -> res (list ref)) (l : list ref) (h : heap) : res heap :=
  match l with
  | [] => Ok h
  | c :: t => match f (get h c) with
              | Ok ps => loop_nodes f t (set_pars h c ps)
              | Raise e => Raise e
              end
  end.

(* ------------------------------------------------------------------ add_node *)
(* if node not in nodes: nodes.append(node); for p in node.nodes_from: add_node(p)
   (generic in the parent function: the specification layer reuses it on abstract graphs) *)
Fixpoint dfs_add (par : ref -> list ref) (fuel : nat) (g : list ref) (n : ref) : res (list ref) :=
  match fuel with
  | O => Raise OutOfFuel
  | S k =>
    if memb n g then Ok g
    else fold_left (fun acc p => match acc with Ok g1 => dfs_add par k g1 p | Raise e => Raise e end)
                   (par n) (Ok (g ++ [n]))
  end.

Definition add_node_g (h : heap) (g : graph) (n : ref) : res graph :=
  dfs_add (pars h) (S (length h)) g n.

Definition add_node (h : heap) (g : graph) (n : ref) : res state :=
  bind (add_node_g h g n) (fun g' => Ok (h, g')).

(* ------------------------------------------------------------------ delete_node *)
Inductive mode := RNone | RSingle | RAll.

Definition extend_by (ps : list ref) (nd : node) : res (list ref) :=
  Ok (pl_extend (uniq nd) (parents nd) ps).

(* `node.nodes_from` is read once after the removal loop: it cannot change during the
   reconnection loop (the only child that is `node` itself extends its list by itself) *)
Definition delete_node (h : heap) (g : graph) (n : ref) (m : mode) : res state :=
  let ch := node_children h g n in
  bind (list_remove n g) (fun g1 =>
  bind (loop_nodes (fun nd => list_remove n (parents nd)) ch h) (fun h1 =>
  let ps := pars h1 n in
  match m with
  | RSingle =>
      match ps, ch with
      | _ :: _, [c] => bind (loop_nodes (extend_by ps) [c] h1) (fun h2 => Ok (h2, g1))
      | _, _ => Ok (h1, g1)
      end
  | RAll =>
      match ps with
      | [] => Ok (h1, g1)
      | _ :: _ => bind (loop_nodes (extend_by ps) ch h1) (fun h2 => Ok (h2, g1))
      end
  | RNone => Ok (h1, g1)
  end)).

(* ------------------------------------------------------------------ delete_subtree *)
(* subtree.nodes_from = remove_items(subtree.nodes_from, removed): the setter builds a UniqueList *)
Definition prune (sub : list ref) (h : heap) (m : ref) : heap :=
  set_pars_uniq h m (dedupe (remove_items (pars h m) sub)).

Definition delete_subtree (h : heap) (g : graph) (n : ref) : res state :=
  bind (hierarchy h n) (fun sub =>
  let g1 := remove_items g sub in
  Ok (fold_left (prune sub) g1 h, g1)).

(* ------------------------------------------------------------------ update_node *)
(* actualise_old_node_children *)
Definition repoint (old new : ref) (nd : node) : res (list ref) :=
  bind (list_index old (parents nd)) (fun i => Ok (pl_setitem (uniq nd) (parents nd) i new)).

Definition actualise (h : heap) (g : graph) (old new : ref) : res heap :=
  loop_nodes (repoint old new) (node_children h g old) h.

(* sort_nodes: only with a single childless member and no cycle.
   graph_has_cycle (anchored in C12) is modelled by its meaning on parent-closed graphs; on a
   graph that is not parent-closed (its uid dictionary lookup may raise KeyError or may find a
   cycle first) the model declines to predict.  Inside the domain of the theorems the graph is
   parent-closed at this point (add_node has just run). *)
Definition closed_b (h : heap) (g : graph) : bool :=
  forallb (fun r => forallb (fun p => memb p g) (pars h r)) g.

Definition sort_nodes (h : heap) (g : graph) : res graph :=
  match root_nodes h g with
  | [r] => if negb (closed_b h g) then Raise Unmodelled
           else if has_cycle h g then Ok g else hierarchy h r
  | _ => Ok g
  end.

Definition update_node (h : heap) (g : graph) (old new : ref) : res state :=
  bind (actualise h g old new) (fun h1 =>
  bind (loop_nodes (extend_by (pars h1 old)) [new] h1) (fun h2 =>
  bind (list_remove old g) (fun g1 =>
  bind (add_node_g h2 g1 new) (fun g2 =>
  bind (sort_nodes h2 g2) (fun g3 => Ok (h2, g3)))))).

(* ------------------------------------------------------------------ update_subtree *)
Fixpoint index_of (x : nat) (l : list nat) : option nat :=
  match l with
  | [] => None
  | y :: t => if x =? y then Some 0 else match index_of x t with Some i => Some (S i) | None => None end
  end.

(* objects reachable from n in the order the copier meets them (pre-order, memoised) *)
Definition closure (h : heap) (n : ref) : res (list ref) := add_node_g h [] n.

Definition rename (R : list ref) (base : nat) (x : ref) : ref :=
  match index_of x R with Some i => base + i | None => x end.

Definition copy_node (R : list ref) (base : nat) (nd : node) : node :=
  let ps := map (rename R base) (parents nd) in
  mkNode (uid nd) (label nd) (if uniq nd then dedupe ps else ps) (uniq nd).

(* copy.deepcopy(node): an isomorphic fresh sub-heap appended to the heap, every field kept;
   the i-th object met gets reference length h + i (n itself is met first) *)
Definition deepcopy (h : heap) (n : ref) : res (heap * ref) :=
  bind (closure h n) (fun R =>
  Ok (h ++ map (fun r => copy_node R (length h) (get h r)) R, rename R (length h) n)).

(* str(uuid4()): a uid that occurs nowhere in the heap *)
Definition fresh_uid (h : heap) : nat := S (fold_right (fun nd m => Nat.max (uid nd) m) 0 h).

Definition renew_uids (rem : list nat) (l : list ref) (h : heap) : heap :=
  fold_left (fun hh r => if memb (uid (get hh r)) rem then set_uid hh r (fresh_uid hh) else hh) l h.

Definition update_subtree (h : heap) (g : graph) (old new : ref) : res state :=
  bind (deepcopy h new) (fun hc =>
  let h1 := fst hc in let nw := snd hc in
  bind (actualise h1 g old nw) (fun h2 =>
  bind (delete_subtree h2 g old) (fun s3 =>
  let h3 := fst s3 in let g1 := snd s3 in
  let rem := map (fun r => uid (get h3 r)) g1 in
  bind (hierarchy h3 nw) (fun sub =>
  let h4 := renew_uids rem sub h3 in
  bind (add_node_g h4 g1 nw) (fun g2 =>
  bind (sort_nodes h4 g2) (fun g3 => Ok (h4, g3))))))).

(* ------------------------------------------------------------------ connect / disconnect *)
Definition connect_nodes (h : heap) (g : graph) (p c : ref) : res state :=
  if memb c (node_children h g p) then Ok (h, g)
  else Ok (set_pars h c (pl_append (uniq (get h c)) (pars h c) p), g).

(* _clean_up_leftovers *)
Fixpoint clean_up (fuel : nat) (h : heap) (g : graph) (n : ref) : res graph :=
  match fuel with
  | O => Raise OutOfFuel
  | S k =>
    if memb n g && null (node_children h g n) then
      bind (list_remove n g) (fun g1 =>
      fold_left (fun acc q => match acc with Ok gg => clean_up k h gg q | Raise e => Raise e end)
                (pars h n) (Ok g1))
    else Ok g
  end.

Definition disconnect_nodes (h : heap) (g : graph) (p c : ref) (cl : bool) : res state :=
  if negb (memb p (pars h c)) then Ok (h, g)
  else if negb (memb p g) || negb (memb c g) then Ok (h, g)
  else bind (list_remove p (pars h c)) (fun ps =>
       let h1 := set_pars h c ps in
       if cl then bind (clean_up (S (length g)) h1 g p) (fun g1 => Ok (h1, g1))
       else Ok (h1, g)).

(* ------------------------------------------------------------------ operations as data *)
Inductive op :=
| OAlloc (ns : list node)            (* the caller constructs new node objects *)
| OAdd (n : ref)
| ODelete (n : ref) (m : mode)
| ODelSub (n : ref)
| OUpdNode (old new : ref)
| OUpdSub (old new : ref)
| OConnect (p c : ref)
| ODisconnect (p c : ref) (cl : bool).

Definition run_op (s : state) (o : op) : res state :=
  let h := fst s in let g := snd s in
  match o with
  | OAlloc ns => Ok (h ++ ns, g)
  | OAdd n => add_node h g n
  | ODelete n m => delete_node h g n m
  | ODelSub n => delete_subtree h g n
  | OUpdNode a b => update_node h g a b
  | OUpdSub a b => update_subtree h g a b
  | OConnect p c => connect_nodes h g p c
  | ODisconnect p c cl => disconnect_nodes h g p c cl
  end.

Fixpoint run_ops (s : state) (os : list op) : res state :=
  match os with
  | [] => Ok s
  | o :: t => bind (run_op s o) (fun s' => run_ops s' t)
  end.

(* GraphDelegate: every method forwards to self.operator *)
Definition gd_run_op (s : state) (o : op) : res state := run_op s o.
