(* Acyclic graphs stay acyclic under the editing operations unless an edge closing a cycle is
   explicitly added (property C04, part 3). *)
From Coq Require Import List Arith Bool Lia.
From GolemV Require Import Graph.Heap Graph.Ops Graph.OpsSpec Graph.OpsBase Graph.OpsDfs Graph.OpsProofs
  Graph.OpsProofs2 Graph.OpsChar.
Import ListNotations.

(* a path with at least one edge *)
Definition tc (h : heap) (a b : ref) : Prop := exists p, In p (pars h a) /\ reach h p b.

Lemma tc_edge : forall h a p, In p (pars h a) -> tc h a p.
Proof. intros. exists p. split; [assumption|constructor]. Qed.

Lemma tc_reach : forall h a b, tc h a b -> reach h a b.
Proof. intros h a b [p [A B]]. econstructor; eauto. Qed.

Lemma tc_then_reach : forall h a b c, tc h a b -> reach h b c -> tc h a c.
Proof. intros h a b c [p [A B]] R. exists p. split; [exact A|]. eapply reachP_trans; eauto. Qed.

Lemma reach_then_tc : forall h a b c, reach h a b -> tc h b c -> tc h a c.
Proof.
  intros h a b c R. unfold reach in R. induction R as [a|a p b Hp Hr IHr]; intros T; [exact T|].
  exists p. split; [exact Hp|]. apply tc_reach. apply IHr. exact T.
Qed.

Lemma on_cycle_tc : forall h x, on_cycle h x <-> tc h x x.
Proof. intros. unfold on_cycle, tc, edge. tauto. Qed.

(* ------------------------------------------------------------------ the general argument *)
(* The new member list splits into A (old members, possibly renamed by phi) and B (inserted
   material): B is closed under parents and has no cycle of its own; every edge that starts in
   A ends in B or corresponds to a non-empty path of the old graph. *)
Section TwoPart.
  Variables (h h' : heap) (g g' : graph) (A B : ref -> Prop) (phi : ref -> ref).
  Hypothesis cover : forall x, In x g' -> A x \/ B x.
  Hypothesis A_g : forall x, A x -> In (phi x) g.
  Hypothesis disj : forall x, A x -> B x -> False.
  Hypothesis B_closed : forall x p, B x -> In p (pars h' x) -> B p.
  Hypothesis B_acyc : forall x, B x -> ~ on_cycle h' x.
  Hypothesis A_edges : forall x p, A x -> In p (pars h' x) -> B p \/ (A p /\ tc h (phi x) (phi p)).
  Hypothesis AC : acyclic h g.

  Lemma tp_B : forall a b, reach h' a b -> B a -> B b.
  Proof. intros a b R. unfold reach in R. induction R; intros; eauto. Qed.

  Lemma tp_A : forall a b, reach h' a b -> A a -> B b \/ (A b /\ reach h (phi a) (phi b)).
  Proof.
    intros a b R. unfold reach in R. induction R as [a|a p b Hp Hr IHr]; intros Aa.
    - right. split; [exact Aa|constructor].
    - destruct (A_edges a p Aa Hp) as [Bp|[Ap T]].
      + left. eapply tp_B; eauto.
      + destruct (IHr Ap) as [Bb|[Ab Rb]]; [left; exact Bb|right]. split; [exact Ab|].
        eapply reachP_trans; [apply tc_reach; exact T|exact Rb].
  Qed.

  Lemma two_part_acyclic : acyclic h' g'.
  Proof.
    intros r Hr x Rx OC.
    assert (Ax : A x).
    { destruct (cover r Hr) as [Ar|Br].
      - destruct (tp_A r x Rx Ar) as [Bx|[Ax _]]; [exfalso; eapply B_acyc; eauto|exact Ax].
      - exfalso. eapply B_acyc; [eapply tp_B; eauto|exact OC]. }
    destruct OC as [p [Hp Rp]]. unfold edge in Hp.
    destruct (A_edges x p Ax Hp) as [Bp|[Ap T]].
    - eapply disj; [exact Ax|eapply tp_B; eauto].
    - destruct (tp_A p x Rp Ap) as [Bx|[_ Rpx]]; [eapply disj; eauto|].
      apply (AC (phi x) (A_g x Ax) (phi x) (reach_refl _ _)). apply on_cycle_tc.
      eapply tc_then_reach; eauto.
  Qed.
End TwoPart.

(* special case: no inserted material, no renaming *)
Lemma acyclic_sim : forall h h' g g',
  (forall x, In x g' -> In x g) ->
  (forall x p, In x g' -> In p (pars h' x) -> In p g' /\ tc h x p) ->
  acyclic h g -> acyclic h' g'.
Proof.
  intros h h' g g' I E AC.
  apply (two_part_acyclic h h' g g' (fun x => In x g') (fun _ => False) (fun x => x)).
  - intros x Hx. left. exact Hx.
  - intros x Hx. apply I. exact Hx.
  - intros x _ [].
  - intros x p [].
  - intros x [].
  - intros x p Hx Hp. right. apply E; assumption.
  - exact AC.
Qed.

(* ------------------------------------------------------------------ reflection of acyclic_b *)
Theorem acyclic_b_iff : forall h g, WF h g -> (acyclic_b h g = true <-> acyclic h g).
Proof.
  intros h g W. unfold acyclic_b, has_cycle. rewrite negb_true_iff. split.
  - intros H r Hr. apply hierarchy_ok_iff; [apply (wf_heap _ _ W)|apply (wf_valid _ _ W); exact Hr|].
    destruct (is_ok (hierarchy h r)) eqn:E; [reflexivity|].
    assert (X : existsb (fun r => negb (is_ok (hierarchy h r))) g = true).
    { apply existsb_exists. exists r. split; [exact Hr|]. rewrite E. reflexivity. }
    congruence.
  - intros AC. destruct (existsb _ g) eqn:E; [|reflexivity].
    apply existsb_exists in E. destruct E as [r [Hr E]]. apply negb_true_iff in E.
    assert (X : is_ok (hierarchy h r) = true).
    { apply hierarchy_ok_iff; [apply (wf_heap _ _ W)|apply (wf_valid _ _ W); exact Hr|apply AC; exact Hr]. }
    congruence.
Qed.

(* ------------------------------------------------------------------ the operations *)
Theorem delete_node_acyclic : forall h g n m h' g', WF h g -> In n g ->
  delete_node h g n m = Ok (h', g') -> acyclic h g -> acyclic h' g'.
Proof.
  intros h g n m h' g' W Hn E AC.
  destruct (delete_node_WF h g n m W Hn) as [s' [E' W']]. rewrite E in E'. inversion E'; subst s'. simpl in W'.
  destruct (delete_node_char h g n m h' g' W Hn E) as [_ [MG PG]].
  apply (acyclic_sim h h' g g'); auto.
  - intros x Hx. apply MG in Hx. tauto.
  - intros x p Hx Hp. split; [eapply (wf_closed _ _ W'); eauto|].
    apply (PG x Hx) in Hp. destruct Hp as [[A _]|[_ [A [B _]]]].
    + apply tc_edge. exact A.
    + exists n. split; [exact A|]. econstructor; [exact B|constructor].
Qed.

Theorem disconnect_acyclic : forall h g p c cl h' g', WF h g -> In p g -> In c g ->
  disconnect_nodes h g p c cl = Ok (h', g') -> acyclic h g -> acyclic h' g'.
Proof.
  intros h g p c cl h' g' W Hp Hc E AC.
  destruct (disconnect_WF h g p c cl W Hp Hc) as [s' [E' W']]. rewrite E in E'. inversion E'; subst s'. simpl in W'.
  destruct (disconnect_char h g p c cl h' g' W Hp Hc E) as [_ [PG [_ I]]].
  apply (acyclic_sim h h' g g'); auto.
  intros x q Hx Hq. split; [eapply (wf_closed _ _ W'); eauto|]. apply tc_edge. apply PG in Hq. tauto.
Qed.

Theorem delete_subtree_acyclic : forall h g n h' g', WF h g -> In n g ->
  delete_subtree h g n = Ok (h', g') -> acyclic h g -> acyclic h' g'.
Proof.
  intros h g n h' g' W Hn E AC.
  assert (K : is_ok (hierarchy h n) = true).
  { unfold delete_subtree in E. destruct (hierarchy h n); [reflexivity|discriminate]. }
  destruct (delete_subtree_WF h g n W Hn K) as [s' [E' W']]. rewrite E in E'. inversion E'; subst s'. simpl in W'.
  destruct (delete_subtree_char h g n h' g' W Hn E) as [_ [_ [MG PG]]].
  apply (acyclic_sim h h' g g'); auto.
  - intros x Hx. apply MG in Hx. tauto.
  - intros x q Hx Hq. split; [eapply (wf_closed _ _ W'); eauto|]. apply tc_edge. apply (PG x Hx) in Hq. tauto.
Qed.

Theorem add_node_acyclic : forall h g n h' g', WF h g -> n < length h -> acyclic_from h n ->
  add_node h g n = Ok (h', g') -> acyclic h g -> acyclic h' g'.
Proof.
  intros h g n h' g' W Vn ACn E AC.
  destruct (add_node_char h g n h' g' (wf_heap _ _ W) Vn E) as [-> [M _]].
  intros r Hr. destruct (M r Hr) as [A|A]; [apply AC; exact A|].
  intros x Rx. apply ACn. eapply reachP_trans; eauto.
Qed.

(* connect_nodes(parent p, child c) when c is not an ancestor-or-self of p *)
Lemma connect_reach : forall h h' p c, (forall r q, In q (pars h' r) <-> In q (pars h r) \/ (r = c /\ q = p)) ->
  forall a b, reach h' a b -> reach h a b \/ (reach h a c /\ reach h' p b).
Proof.
  intros h h' p c P a b R. unfold reach in R. induction R as [a|a q b Hq Hr IHr].
  - left. constructor.
  - apply P in Hq. destruct Hq as [Hq|[-> ->]].
    + destruct IHr as [A|[A B]]; [left; econstructor; eauto|right]. split; [econstructor; eauto|exact B].
    + right. split; [constructor|exact Hr].
Qed.

Theorem connect_acyclic : forall h g p c h' g', WF h g -> In p g -> In c g -> ~ reach h p c ->
  connect_nodes h g p c = Ok (h', g') -> acyclic h g -> acyclic h' g'.
Proof.
  intros h g p c h' g' W Hp Hc NR E AC.
  destruct (connect_WF h g p c W Hp Hc) as [h2 [E' W']]. rewrite E in E'. inversion E'; subst h2 g'.
  destruct (connect_char h g p c h' g W Hp Hc E) as [_ [_ P]].
  intros r Hr x Rx [q [Hq Rq]].
  assert (Hx : In x g).
  { apply (reach_closed_set h' (fun y => In y g) r x Rx Hr). intros y z Hy Hz. eapply (wf_closed _ _ W'); eauto. }
  unfold edge in Hq. apply P in Hq. destruct Hq as [Hq|[-> ->]].
  - destruct (connect_reach h h' p c P q x Rq) as [A|[A B]].
    + apply (AC x Hx x (reach_refl _ _)). exists q. split; [exact Hq|exact A].
    + destruct (connect_reach h h' p c P p x B) as [C|[C _]]; [|tauto].
      apply NR. eapply reachP_trans; [exact C|]. econstructor; [exact Hq|exact A].
  - destruct (connect_reach h h' p c P p c Rq) as [A|[A _]]; tauto.
Qed.

(* update_subtree: the inserted copy is cycle-free and nothing points from it into the old part *)
Theorem update_subtree_acyclic : forall h g old new h' g', WF h g ->
  guard_b (h, g) (OUpdSub old new) = true ->
  update_subtree h g old new = Ok (h', g') -> acyclic h g -> acyclic h' g'.
Proof.
  intros h g old new h' g' W G E AC.
  destruct (update_subtree_facts h g old new W G) as [h4 [g3 [Bs [E' [W' [M [BN [BC [BA AE]]]]]]]]].
  rewrite E in E'. inversion E'; subst h4 g3. clear E'.
  apply (two_part_acyclic h h' g g' (fun x => In x g /\ In x g') Bs (fun x => x)).
  - intros x Hx. destruct (M x Hx) as [A|A]; [left; split; assumption|right; exact A].
  - intros x [A _]. exact A.
  - intros x [A _] B. apply BN in B. pose proof (wf_valid _ _ W x A). lia.
  - exact BC.
  - exact BA.
  - intros x p [Hxg Hx'] Hp. destruct (AE x Hxg Hx' p Hp) as [A|A]; [left; exact A|right].
    split; [split|].
    + eapply (wf_closed _ _ W); eauto.
    + eapply (wf_closed _ _ W'); eauto.
    + apply tc_edge. exact A.
  - exact AC.
Qed.

(* update_node with a new node whose own ancestors are all new objects and form no cycle *)
Theorem update_node_acyclic : forall h g old new h' g', WF h g ->
  guard_b (h, g) (OUpdNode old new) = true -> acyc_guard_b (h, g) (OUpdNode old new) = true ->
  update_node h g old new = Ok (h', g') -> acyclic h g -> acyclic h' g'.
Proof.
  intros h g old new h' g' W G AG E AC.
  destruct (update_node_facts h g old new W G) as [h2 [g3 [E' [W' [_ [FG [FN [FO FM]]]]]]]].
  rewrite E in E'. inversion E'; subst h2 g3. clear E'.
  simpl in G. repeat rewrite andb_true_iff in G. destruct G as [[[G1 G2] G3] _].
  apply memb_In in G1. apply Nat.ltb_lt in G2. apply negb_true_iff in G3. apply memb_false in G3.
  simpl in AG. apply andb_true_iff in AG. destruct AG as [AG1 AG2].
  destruct (closure h new) as [R|e] eqn:EC; [|discriminate].
  destruct (closure_spec _ _ _ EC) as [_ [HnR [RC RS]]].
  assert (DJ : forall x, In x R -> ~ In x g).
  { intros x Hx. rewrite forallb_forall in AG2. specialize (AG2 x Hx). apply negb_true_iff in AG2.
    apply memb_false. exact AG2. }
  assert (ACn : acyclic_from h new).
  { apply hierarchy_ok_iff; [apply (wf_heap _ _ W)|exact G2|exact AG1]. }
  assert (NoSelf : ~ In old (pars h old)).
  { intros X. apply (AC old G1 old (reach_refl _ _)). exists old. split; [exact X|constructor]. }
  (* inside R nothing points back to new *)
  assert (RN : forall x, In x R -> ~ In new (pars h x)).
  { intros x Hx X. apply RS in Hx. apply (ACn x Hx). exists new. split; [exact X|exact Hx]. }
  set (A := fun x => (In x g /\ x <> old) \/ x = new).
  set (B := fun x => In x R /\ x <> new).
  set (phi := fun x => if x =? new then old else x).
  assert (PHI : forall x, x <> new -> phi x = x).
  { intros x N. unfold phi. apply Nat.eqb_neq in N. rewrite N. reflexivity. }
  assert (PHIn : phi new = old) by (unfold phi; rewrite Nat.eqb_refl; reflexivity).
  assert (Gn : forall x, In x g -> x <> new) by (intros x Hx ->; tauto).
  assert (BCL : forall x p, B x -> In p (pars h x) -> B p).
  { intros x p [Hx Nx] Hp. split; [eapply RC; eauto|]. intros ->. eapply RN; eauto. }
  assert (BEQ : forall x, B x -> pars h' x = pars h x).
  { intros x [Hx Nx]. apply FO; [apply DJ; exact Hx|exact Nx]. }
  assert (AE : forall x p, A x -> In p (pars h' x) -> B p \/ (A p /\ tc h (phi x) (phi p))).
  { intros x p [[Hx Nx]| ->] Hp.
    - apply (FG x Hx) in Hp. destruct Hp as [[-> Ho]|[Hp Np]].
      + right. split; [right; reflexivity|]. rewrite PHIn, (PHI x (Gn x Hx)). apply tc_edge. exact Ho.
      + right. assert (Hpg : In p g) by (eapply (wf_closed _ _ W); eauto).
        split; [left; split; assumption|]. rewrite (PHI x (Gn x Hx)), (PHI p (Gn p Hpg)). apply tc_edge. exact Hp.
    - apply FN in Hp. destruct Hp as [Hp|[[_ Hp]|[Hp Np]]].
      + left. split; [eapply RC; eauto|]. intros ->. eapply RN; eauto.
      + tauto.
      + right. assert (Hpg : In p g) by (eapply (wf_closed _ _ W); eauto).
        split; [left; split; assumption|]. rewrite PHIn, (PHI p (Gn p Hpg)). apply tc_edge. exact Hp. }
  apply (two_part_acyclic h h' g g' A B phi).
  - intros x Hx. destruct (FM x Hx) as [X|X]; [left; left; exact X|].
    apply (reach_closed_set h' (fun y => A y \/ B y) new x X); [left; right; reflexivity|].
    intros y p [Ay|By] Hp.
    + destruct (AE y p Ay Hp) as [Z|[Z _]]; auto.
    + right. rewrite (BEQ y By) in Hp. eapply BCL; eauto.
  - intros x [[Hx _]| ->]; [rewrite (PHI x (Gn x Hx)); exact Hx|rewrite PHIn; exact G1].
  - intros x [[Hx _]| ->] [Bx Nx]; [eapply DJ; eauto|congruence].
  - intros x p Bx Hp. rewrite (BEQ x Bx) in Hp. eapply BCL; eauto.
  - intros x Bx [p [Hp Rp]]. unfold edge in Hp. rewrite (BEQ x Bx) in Hp.
    destruct (reach_local h h' B BCL BEQ p x Rp (BCL x p Bx Hp)) as [R1 _].
    destruct Bx as [Hx _]. apply RS in Hx. apply (ACn x Hx). exists p. split; [exact Hp|exact R1].
  - exact AE.
  - exact AC.
Qed.

(* ------------------------------------------------------------------ all operations *)
(* T1.4: an operation applied inside its domain to an acyclic graph yields an acyclic graph,
   unless it is a connect that closes a cycle or it inserts cyclic material (acyc_guard_b) *)
Theorem op_preserves_acyclic : forall s o s', WF (fst s) (snd s) -> guard_b s o = true ->
  acyc_guard_b s o = true -> acyclic (fst s) (snd s) -> run_op s o = Ok s' -> acyclic (fst s') (snd s').
Proof.
  intros [h g] o [h' g'] W G AG AC E. simpl in W, AC |- *.
  destruct o as [ns|n|n m|n|old new|old new|p c|p c cl]; simpl run_op in E.
  - injection E as Eh Eg. subst h' g'. simpl in G.
    intros r Hr x Rx [q [Hq Rq]].
    assert (L : forall y, In y g -> forall z, reach (h ++ ns) y z -> reach h y z /\ In z g).
    { intros y Hy z Rz. destruct (reach_local h (h ++ ns) (fun v => In v g)) with (a := y) (b := z); auto.
      - intros v w Hv Hw. eapply (wf_closed _ _ W); eauto.
      - intros v Hv. apply pars_app_l. apply (wf_valid _ _ W). exact Hv. }
    destruct (L r Hr x Rx) as [R1 Hx].
    unfold edge in Hq. rewrite pars_app_l in Hq by (apply (wf_valid _ _ W); exact Hx).
    destruct (L q (wf_closed _ _ W x q Hx Hq) x Rq) as [R2 _].
    apply (AC r Hr x R1). exists q. split; [exact Hq|exact R2].
  - simpl in G, AG. apply andb_true_iff in G. destruct G as [G1 _]. apply Nat.ltb_lt in G1.
    eapply add_node_acyclic; eauto. apply hierarchy_ok_iff; [apply (wf_heap _ _ W)|exact G1|exact AG].
  - simpl in G. apply memb_In in G. eapply delete_node_acyclic; eauto.
  - simpl in G. apply andb_true_iff in G. destruct G as [G1 _]. apply memb_In in G1.
    eapply delete_subtree_acyclic; eauto.
  - eapply update_node_acyclic; eauto.
  - eapply update_subtree_acyclic; eauto.
  - simpl in G, AG. apply andb_true_iff in G. destruct G as [G1 G2]. apply memb_In in G1. apply memb_In in G2.
    destruct (closure h p) as [R|e] eqn:EC; [|discriminate]. apply negb_true_iff in AG. apply memb_false in AG.
    destruct (closure_spec _ _ _ EC) as [_ [_ [_ RS]]].
    apply (connect_acyclic h g p c h' g' W G1 G2); auto. intros X. apply AG. apply RS. exact X.
  - simpl in G. apply andb_true_iff in G. destruct G as [G1 G2]. apply memb_In in G1. apply memb_In in G2.
    apply (disconnect_acyclic h g p c cl h' g' W G1 G2 E AC).
Qed.

(* every state reached from an acyclic well-formed graph by operations applied inside their
   domains, none of which closes a cycle, is well-formed and acyclic *)
Theorem ops_preserve_acyclic : forall os s, WF (fst s) (snd s) -> acyclic (fst s) (snd s) ->
  aguards_ok s os = true ->
  exists s', run_ops s os = Ok s' /\ WF (fst s') (snd s') /\ acyclic (fst s') (snd s').
Proof.
  induction os as [|o t IH]; intros s W AC G; simpl.
  - exists s. auto.
  - simpl in G. repeat rewrite andb_true_iff in G. destruct G as [[G1 G2] G3].
    destruct (op_preserves_WF s o W G1) as [s1 [E W1]]. rewrite E in *. simpl.
    apply IH; [exact W1| |exact G3]. apply (op_preserves_acyclic s o s1 W G1 G2 AC E).
Qed.
