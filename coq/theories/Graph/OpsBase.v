(* Basic lemmas about the heap, the python list primitives and UniqueList (property C04). *)
From Coq Require Import List Arith Bool Lia.
From GolemV Require Import Graph.Heap Graph.Ops.
Import ListNotations.

(* ------------------------------------------------------------------ membership / duplicates *)
Lemma memb_In : forall x l, memb x l = true <-> In x l.
Proof.
  unfold memb. intros x l. rewrite existsb_exists. split.
  - intros [y [Hy E]]. apply Nat.eqb_eq in E. subst. exact Hy.
  - intros H. exists x. split; [exact H|apply Nat.eqb_refl].
Qed.

Lemma memb_false : forall x l, memb x l = false <-> ~ In x l.
Proof.
  intros x l. rewrite <- memb_In. destruct (memb x l); split; congruence.
Qed.

Lemma nodup_b_iff : forall l, nodup_b l = true <-> NoDup l.
Proof.
  induction l as [|x t IH]; simpl.
  - split; [constructor|reflexivity].
  - rewrite andb_true_iff, negb_true_iff, memb_false, IH. split.
    + intros [A B]. constructor; assumption.
    + intros H. inversion H. split; assumption.
Qed.

Lemma forallb_In : forall {A} (f : A -> bool) l, forallb f l = true <-> (forall x, In x l -> f x = true).
Proof. intros. apply forallb_forall. Qed.

(* ------------------------------------------------------------------ heap access *)
Lemma length_upd : forall h r nd, length (upd h r nd) = length h.
Proof. induction h as [|x t IH]; intros [|r] nd; simpl; auto. Qed.

Lemma get_upd_eq : forall h r nd, r < length h -> get (upd h r nd) r = nd.
Proof.
  unfold get. induction h as [|x t IH]; intros [|r] nd H; simpl in *; try lia; auto.
  apply IH. lia.
Qed.

Lemma get_upd_neq : forall h r r' nd, r <> r' -> get (upd h r nd) r' = get h r'.
Proof.
  unfold get. induction h as [|x t IH]; intros [|r] [|r'] nd H; simpl in *; try congruence; auto.
Qed.

Lemma get_upd : forall h r r' nd,
  get (upd h r nd) r' = if (r =? r') && (r <? length h) then nd else get h r'.
Proof.
  intros. destruct (Nat.eqb_spec r r') as [->|N]; simpl.
  - destruct (Nat.ltb_spec r' (length h)) as [L|L].
    + apply get_upd_eq; assumption.
    + unfold get. clear -L. revert r' L. induction h as [|x t IH]; intros [|r'] L; simpl in *; auto; try lia.
      apply IH. lia.
  - apply get_upd_neq; assumption.
Qed.

Lemma get_app_l : forall h h2 r, r < length h -> get (h ++ h2) r = get h r.
Proof. unfold get. intros. apply app_nth1. assumption. Qed.

Lemma get_app_r : forall h h2 i, get (h ++ h2) (length h + i) = get h2 i.
Proof. unfold get. intros. rewrite app_nth2 by lia. f_equal. lia. Qed.

Lemma get_out : forall h r, length h <= r -> get h r = dummy.
Proof. unfold get. intros. apply nth_overflow. assumption. Qed.

Lemma pars_out : forall h r, length h <= r -> pars h r = [].
Proof. unfold pars. intros. rewrite get_out by assumption. reflexivity. Qed.

Lemma length_set_pars : forall h r ps, length (set_pars h r ps) = length h.
Proof. intros. apply length_upd. Qed.

Lemma pars_set_pars : forall h c ps r, c < length h ->
  pars (set_pars h c ps) r = if c =? r then ps else pars h r.
Proof.
  intros. unfold pars, set_pars. rewrite get_upd.
  destruct (Nat.eqb_spec c r) as [->|N]; simpl; auto.
  destruct (Nat.ltb_spec r (length h)); [reflexivity|lia].
Qed.

(* ------------------------------------------------------------------ list.remove / list.index *)
Lemma list_remove_ok : forall x l, In x l -> exists l', list_remove x l = Ok l'.
Proof.
  induction l as [|y t IH]; simpl; intros H; [contradiction|].
  destruct (Nat.eqb_spec x y) as [->|N]; [eexists; reflexivity|].
  destruct H as [H|H]; [congruence|]. destruct (IH H) as [l' E]. rewrite E. eexists; reflexivity.
Qed.

Lemma list_remove_raise : forall x l, ~ In x l -> list_remove x l = Raise ValueError.
Proof.
  induction l as [|y t IH]; simpl; intros H; [reflexivity|].
  destruct (Nat.eqb_spec x y) as [->|N]; [tauto|]. rewrite IH; tauto.
Qed.

Lemma list_remove_incl : forall x l l', list_remove x l = Ok l' -> forall y, In y l' -> In y l.
Proof.
  induction l as [|z t IH]; simpl; intros l' E y Hy; [discriminate|].
  destruct (x =? z); [inversion E; subst; auto|].
  destruct (list_remove x t) eqn:E'; [|discriminate]. inversion E; subst.
  destruct Hy; [auto|right; eapply IH; eauto].
Qed.

Lemma list_remove_other : forall x l l', list_remove x l = Ok l' -> forall y, In y l -> y <> x -> In y l'.
Proof.
  induction l as [|z t IH]; simpl; intros l' E y Hy N; [discriminate|].
  destruct (Nat.eqb_spec x z) as [->|Nz].
  - inversion E; subst. destruct Hy; [congruence|assumption].
  - destruct (list_remove x t) eqn:E'; [|discriminate]. inversion E; subst.
    destruct Hy; [left; assumption|right; eapply IH; eauto].
Qed.

Lemma list_remove_nodup : forall x l l', list_remove x l = Ok l' -> NoDup l -> NoDup l' /\ ~ In x l'.
Proof.
  induction l as [|z t IH]; simpl; intros l' E ND; [discriminate|].
  inversion ND as [|? ? Hz NDt]; subst.
  destruct (Nat.eqb_spec x z) as [->|Nz].
  - inversion E; subst. split; assumption.
  - destruct (list_remove x t) eqn:E'; [|discriminate]. inversion E; subst.
    destruct (IH _ eq_refl NDt) as [A B]. split.
    + constructor; [|assumption]. intros C. apply Hz. eapply list_remove_incl; eauto.
    + intros [C|C]; [congruence|tauto].
Qed.

Lemma list_remove_length : forall x l l', list_remove x l = Ok l' -> length l = S (length l').
Proof.
  induction l as [|z t IH]; simpl; intros l' E; [discriminate|].
  destruct (x =? z); [inversion E; reflexivity|].
  destruct (list_remove x t) eqn:E'; [|discriminate]. inversion E; subst. simpl. f_equal. apply IH. reflexivity.
Qed.

(* the total counterpart used to describe results *)
Fixpoint remove1 (x : nat) (l : list nat) : list nat :=
  match l with
  | [] => []
  | y :: t => if x =? y then t else y :: remove1 x t
  end.

Lemma list_remove_remove1 : forall x l, In x l -> list_remove x l = Ok (remove1 x l).
Proof.
  induction l as [|y t IH]; simpl; intros H; [contradiction|].
  destruct (Nat.eqb_spec x y) as [->|N]; [reflexivity|].
  destruct H; [congruence|]. rewrite IH by assumption. reflexivity.
Qed.

Lemma list_index_ok : forall x l, In x l -> exists i, list_index x l = Ok i.
Proof.
  induction l as [|y t IH]; simpl; intros H; [contradiction|].
  destruct (Nat.eqb_spec x y) as [->|N]; [eexists; reflexivity|].
  destruct H as [H|H]; [congruence|]. destruct (IH H) as [i E]. rewrite E. eexists; reflexivity.
Qed.

(* replacing the first occurrence of old by a value that is not in the list *)
Lemma set_nth_index_In : forall old new l i, list_index old l = Ok i ->
  forall y, In y (set_nth i new l) -> y = new \/ In y l.
Proof.
  induction l as [|z t IH]; simpl; intros i E y Hy; [discriminate|].
  destruct (Nat.eqb_spec old z) as [->|Nz].
  - inversion E; subst. simpl in Hy. destruct Hy; auto.
  - destruct (list_index old t) eqn:E'; [|discriminate]. inversion E; subst. simpl in Hy.
    destruct Hy as [Hy|Hy]; [auto|]. destruct (IH _ eq_refl y Hy); auto.
Qed.

Lemma set_nth_index_spec : forall old new l i, list_index old l = Ok i -> NoDup l -> ~ In new l ->
  NoDup (set_nth i new l) /\
  (forall y, In y (set_nth i new l) <-> (y = new \/ (In y l /\ y <> old))).
Proof.
  induction l as [|z t IH]; simpl; intros i E ND Hn; [discriminate|].
  inversion ND as [|? ? Hz NDt]; subst.
  destruct (Nat.eqb_spec old z) as [->|Nz].
  - inversion E; subst. simpl. split.
    + constructor; tauto.
    + intros y. split.
      * intros [A|A]; [auto|]. right. split; [auto|]. intros ->. tauto.
      * intros [A|[[A|A] B]]; [auto|congruence|auto].
  - destruct (list_index old t) eqn:E'; [|discriminate]. inversion E; subst. simpl.
    destruct (IH _ eq_refl NDt) as [A B]; [tauto|]. split.
    + constructor; [|assumption]. rewrite B. intros [C|[C D]]; [subst; tauto|tauto].
    + intros y. rewrite B. split.
      * intros [C|[C|[C D]]]; [subst; right; split; [auto|congruence]|auto|tauto].
      * intros [C|[[C|C] D]]; tauto.
Qed.

(* ------------------------------------------------------------------ UniqueList *)
Lemma NoDup_snoc : forall (l : list nat) v, NoDup l -> ~ In v l -> NoDup (l ++ [v]).
Proof.
  induction l as [|x t IH]; simpl; intros v ND H.
  - constructor; [auto|constructor].
  - inversion ND; subst. constructor.
    + rewrite in_app_iff. simpl. intros [A|[A|[]]]; [auto|subst; tauto].
    + apply IH; tauto.
Qed.

Lemma pl_append_In : forall u l v y, In y (pl_append u l v) <-> In y l \/ y = v.
Proof.
  unfold pl_append. intros. destruct (u && memb v l) eqn:E.
  - apply andb_true_iff in E. destruct E as [_ E]. apply memb_In in E. split; [auto|].
    intros [A|A]; subst; assumption.
  - rewrite in_app_iff. simpl. split; intros [A|A]; auto. destruct A; [auto|contradiction].
Qed.

Lemma pl_append_nodup : forall l v, NoDup l -> NoDup (pl_append true l v).
Proof.
  unfold pl_append. intros. simpl. destruct (memb v l) eqn:E; [assumption|].
  apply memb_false in E. apply NoDup_snoc; assumption.
Qed.

Lemma pl_extend_In : forall u vs l y, In y (pl_extend u l vs) <-> In y l \/ In y vs.
Proof.
  unfold pl_extend. induction vs as [|v t IH]; simpl; intros l y.
  - tauto.
  - rewrite IH, pl_append_In. intuition.
Qed.

Lemma pl_extend_nodup : forall vs l, NoDup l -> NoDup (pl_extend true l vs).
Proof.
  unfold pl_extend. induction vs as [|v t IH]; simpl; intros l ND; [assumption|].
  apply IH. apply pl_append_nodup. assumption.
Qed.

Lemma dedupe_In : forall l y, In y (dedupe l) <-> In y l.
Proof. intros. unfold dedupe. change (fold_left (pl_append true) l []) with (pl_extend true [] l).
  rewrite pl_extend_In. simpl. tauto. Qed.

Lemma dedupe_nodup : forall l, NoDup (dedupe l).
Proof. intros. unfold dedupe. change (fold_left (pl_append true) l []) with (pl_extend true [] l).
  apply pl_extend_nodup. constructor. Qed.

Lemma pl_extend_nodup_id : forall vs l, NoDup (l ++ vs) -> pl_extend true l vs = l ++ vs.
Proof.
  unfold pl_extend. induction vs as [|v t IH]; simpl; intros l ND.
  - rewrite app_nil_r. reflexivity.
  - assert (Hv : ~ In v l).
    { intros C. apply NoDup_remove_2 in ND. apply ND. rewrite in_app_iff. auto. }
    unfold pl_append at 2. simpl. apply memb_false in Hv. rewrite Hv.
    rewrite IH; rewrite <- app_assoc; simpl; auto.
Qed.

Lemma dedupe_nodup_id : forall l, NoDup l -> dedupe l = l.
Proof. intros. unfold dedupe. change (fold_left (pl_append true) l []) with (pl_extend true [] l).
  rewrite pl_extend_nodup_id; auto. Qed.

Lemma remove_items_In : forall l rm y, In y (remove_items l rm) <-> In y l /\ ~ In y rm.
Proof.
  unfold remove_items. intros. rewrite filter_In, negb_true_iff, memb_false. tauto.
Qed.

Lemma remove_items_nodup : forall l rm, NoDup l -> NoDup (remove_items l rm).
Proof. intros. apply NoDup_filter. assumption. Qed.

(* ------------------------------------------------------------------ node_children *)
Lemma node_children_In : forall h g n c, In c (node_children h g n) <-> In c g /\ In n (pars h c).
Proof. unfold node_children. intros. rewrite filter_In, memb_In. tauto. Qed.

Lemma node_children_nodup : forall h g n, NoDup g -> NoDup (node_children h g n).
Proof. intros. apply NoDup_filter. assumption. Qed.

(* ------------------------------------------------------------------ loops over node objects *)
(* a loop whose body cannot raise on the nodes it visits, over distinct valid nodes *)
Lemma loop_nodes_ok : forall f f' l h,
  NoDup l -> (forall c, In c l -> c < length h) ->
  (forall c, In c l -> f (get h c) = Ok (f' (get h c))) ->
  exists h', loop_nodes f l h = Ok h' /\ length h' = length h /\
    forall r, get h' r = if memb r l then with_parents (get h r) (f' (get h r)) else get h r.
Proof.
  induction l as [|c t IH]; simpl; intros h ND V F.
  - exists h. auto.
  - inversion ND as [|? ? Hc NDt]; subst.
    rewrite (F c (or_introl eq_refl)).
    assert (Hlen : length (set_pars h c (f' (get h c))) = length h) by apply length_set_pars.
    destruct (IH (set_pars h c (f' (get h c))) NDt) as [h' [E [L G]]].
    + intros x Hx. rewrite Hlen. auto.
    + intros x Hx. unfold set_pars. rewrite get_upd_neq; [auto|]. intros ->. tauto.
    + exists h'. split; [exact E|]. split; [congruence|].
      intros r. rewrite G. unfold set_pars.
      destruct (Nat.eqb_spec r c) as [->|N].
      * simpl. apply memb_false in Hc. rewrite Hc. rewrite get_upd_eq by auto. reflexivity.
      * simpl. rewrite get_upd_neq by congruence. reflexivity.
Qed.

(* ------------------------------------------------------------------ heap_ok helpers *)
Lemma heap_ok_b_iff : forall h, heap_ok_b h = true <-> heap_ok h.
Proof.
  unfold heap_ok_b, heap_ok, pars, get. intros h. rewrite forallb_forall. split.
  - intros H r p Hr Hp. specialize (H (nth r h dummy) (nth_In h dummy Hr)).
    rewrite forallb_forall in H. apply Nat.ltb_lt. apply H. exact Hp.
  - intros H nd Hnd. apply forallb_forall. intros p Hp. apply Nat.ltb_lt.
    destruct (In_nth h nd dummy Hnd) as [r [Hr E]]. apply (H r p Hr). rewrite E. exact Hp.
Qed.

Lemma heap_ok_change : forall h h', heap_ok h -> length h' = length h ->
  (forall r p, r < length h -> In p (pars h' r) -> In p (pars h r) \/ p < length h) -> heap_ok h'.
Proof.
  intros h h' H L C r p Hr Hp. rewrite L in *. destruct (C r p Hr Hp) as [A|A]; [eapply H; eauto|exact A].
Qed.

Lemma NoDup_app_intro : forall (l1 l2 : list nat),
  NoDup l1 -> NoDup l2 -> (forall x, In x l1 -> In x l2 -> False) -> NoDup (l1 ++ l2).
Proof.
  induction l1 as [|x t IH]; simpl; intros l2 N1 N2 D; [assumption|].
  inversion N1; subst. constructor.
  - rewrite in_app_iff. intros [A|A]; [tauto|]. eapply D; eauto.
  - apply IH; auto. intros y A B. eapply D; eauto.
Qed.

Lemma NoDup_app_inv : forall (l1 l2 : list nat), NoDup (l1 ++ l2) ->
  NoDup l1 /\ NoDup l2 /\ (forall x, In x l1 -> In x l2 -> False).
Proof.
  induction l1 as [|x t IH]; simpl; intros l2 N.
  - split; [constructor|]. split; [assumption|]. intros x [].
  - inversion N as [|? ? Hx Nt]; subst. destruct (IH _ Nt) as [A [B C]].
    rewrite in_app_iff in Hx. split; [constructor; tauto|]. split; [assumption|].
    intros y [<-|Hy] Hy2; [tauto|eapply C; eauto].
Qed.
