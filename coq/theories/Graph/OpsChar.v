(* Exact description of the result of the editing operations: member set, parent set of every
   member, untouched fields (property C04; used for acyclicity and for the refinement of the
   set-level specification). *)
From Coq Require Import List Arith Bool Lia.
From GolemV Require Import Graph.Heap Graph.Ops Graph.OpsSpec Graph.OpsBase Graph.OpsDfs Graph.OpsProofs.
Import ListNotations.

(* uid, label and container kind of every object are the same in both heaps *)
Definition same_fields (h h' : heap) : Prop :=
  length h' = length h /\
  forall r, uid (get h' r) = uid (get h r) /\ label (get h' r) = label (get h r) /\ uniq (get h' r) = uniq (get h r).

Lemma same_fields_refl : forall h, same_fields h h.
Proof. intros. split; auto. Qed.

Lemma same_fields_trans : forall a b c, same_fields a b -> same_fields b c -> same_fields a c.
Proof.
  intros a b c [L1 F1] [L2 F2]. split; [congruence|]. intros r.
  destruct (F1 r) as [A1 [A2 A3]]. destruct (F2 r) as [B1 [B2 B3]]. repeat split; congruence.
Qed.

Lemma same_fields_set_pars : forall h c ps, same_fields h (set_pars h c ps).
Proof.
  intros h c ps. split; [apply length_set_pars|]. intros r. unfold set_pars. rewrite get_upd.
  destruct ((c =? r) && (c <? length h)) eqn:E; [|auto].
  apply andb_true_iff in E. destruct E as [E _]. apply Nat.eqb_eq in E. subst. auto.
Qed.

Lemma same_fields_loop : forall f f' l h h', NoDup l -> (forall c, In c l -> c < length h) ->
  (forall c, In c l -> f (get h c) = Ok (f' (get h c))) -> loop_nodes f l h = Ok h' ->
  same_fields h h' /\ forall r, pars h' r = if memb r l then f' (get h r) else pars h r.
Proof.
  intros f f' l h h' ND V F E. destruct (loop_nodes_ok f f' l h ND V F) as [h2 [E2 [L G]]].
  rewrite E in E2. inversion E2; subst h2. split.
  - split; [exact L|]. intros r. rewrite G. destruct (memb r l); auto.
  - intros r. unfold pars. rewrite G. destruct (memb r l); reflexivity.
Qed.

(* ------------------------------------------------------------------ connect / disconnect *)
Theorem connect_char : forall h g p c h' g', WF h g -> In p g -> In c g ->
  connect_nodes h g p c = Ok (h', g') ->
  g' = g /\ same_fields h h' /\
  forall r q, In q (pars h' r) <-> In q (pars h r) \/ (r = c /\ q = p).
Proof.
  intros h g p c h' g' W Hp Hc E. unfold connect_nodes in E.
  assert (Vc : c < length h) by (apply (wf_valid _ _ W); exact Hc).
  destruct (memb c (node_children h g p)) eqn:M; inversion E; subst; clear E.
  - split; [reflexivity|]. split; [apply same_fields_refl|].
    apply memb_In in M. apply node_children_In in M. intros r q. split; [auto|].
    intros [A|[-> ->]]; tauto.
  - split; [reflexivity|]. split; [apply same_fields_set_pars|].
    intros r q. rewrite pars_set_pars by exact Vc. destruct (Nat.eqb_spec c r) as [->|N].
    + rewrite pl_append_In. split; [intros [A|A]; [left; exact A|right; split; [reflexivity|exact A]]|intros [A|[_ A]]; [left|right]; exact A].
    + split; [auto|]. intros [A|[-> _]]; [exact A|congruence].
Qed.

Lemma remove1_iff : forall x l y, NoDup l -> (In y (remove1 x l) <-> In y l /\ y <> x).
Proof.
  intros x l y ND. split.
  - intros H. split; [eapply remove1_In; eauto|]. intros ->. apply (remove1_nodup x l ND). exact H.
  - intros [A B]. apply remove1_other; assumption.
Qed.

(* the heap part of disconnect_nodes (the same with and without clean-up) *)
Theorem disconnect_char : forall h g p c cl h' g', WF h g -> In p g -> In c g ->
  disconnect_nodes h g p c cl = Ok (h', g') ->
  same_fields h h' /\
  (forall r q, In q (pars h' r) <-> In q (pars h r) /\ ~ (r = c /\ q = p)) /\
  (cl = false -> g' = g) /\ incl g' g.
Proof.
  intros h g p c cl h' g' W Hp Hc E. unfold disconnect_nodes in E.
  assert (Vc : c < length h) by (apply (wf_valid _ _ W); exact Hc).
  destruct (memb p (pars h c)) eqn:M; cbn [negb] in E.
  - pose proof Hp as Hp'. pose proof Hc as Hc'. apply memb_In in Hp'. apply memb_In in Hc'.
    rewrite Hp', Hc' in E. cbn [negb orb] in E. apply memb_In in M.
    rewrite (list_remove_remove1 _ _ M) in E. cbn [bind] in E.
    assert (P : forall r q, In q (pars (set_pars h c (remove1 p (pars h c))) r) <-> In q (pars h r) /\ ~ (r = c /\ q = p)).
    { intros r q. rewrite pars_set_pars by exact Vc. destruct (Nat.eqb_spec c r) as [->|N].
      - rewrite remove1_iff by (apply (wf_pnodup _ _ W); exact Hc). split; intros [A B]; split; auto; tauto.
      - split; [intros A; split; [exact A|intros [X _]; congruence]|tauto]. }
    destruct cl.
    + destruct (clean_up _ _ g p) as [g1|e] eqn:EC; [|discriminate]. cbn [bind] in E. inversion E; subst.
      split; [apply same_fields_set_pars|]. split; [exact P|]. split; [discriminate|].
      assert (W1 : WF (set_pars h c (remove1 p (pars h c))) g).
      { apply WF_set_pars; auto.
        - apply remove1_nodup. apply (wf_pnodup _ _ W). exact Hc.
        - intros q Hq. eapply (wf_closed _ _ W); [exact Hc|]. eapply remove1_In; eauto. }
      match type of EC with clean_up ?f ?hh ?gg ?pp = _ =>
        destruct (clean_up_WF f hh gg pp W1) as [g2 [E2 [_ I2]]]; [unfold graph, ref in *; lia|] end.
      rewrite EC in E2. inversion E2; subst. exact I2.
    + inversion E; subst. split; [apply same_fields_set_pars|]. split; [exact P|]. split; [auto|apply incl_refl].
  - inversion E; subst. apply memb_false in M. split; [apply same_fields_refl|]. split.
    + intros r q. split; [|tauto]. intros A. split; [exact A|]. intros [-> ->]. tauto.
    + split; [auto|apply incl_refl].
Qed.

(* ------------------------------------------------------------------ delete_node *)
(* does this reconnect mode link the parents of n to its children? *)
Definition reconnects (h : heap) (g : graph) (n : ref) (m : mode) : Prop :=
  match m with
  | RNone => False
  | RSingle => length (node_children h g n) = 1
  | RAll => True
  end.

Theorem delete_node_char : forall h g n m h' g', WF h g -> In n g ->
  delete_node h g n m = Ok (h', g') ->
  same_fields h h' /\
  (forall r, In r g' <-> In r g /\ r <> n) /\
  (forall r, In r g' -> forall p, In p (pars h' r) <->
      (In p (pars h r) /\ p <> n) \/
      (reconnects h g n m /\ In n (pars h r) /\ In p (pars h n) /\ p <> n)).
Proof.
  intros h g n m h' g' W Hn E. unfold delete_node in E.
  set (ch := node_children h g n) in *.
  assert (NDc : NoDup ch) by (apply node_children_nodup; apply (wf_nodup _ _ W)).
  assert (Vc : forall c, In c ch -> c < length h).
  { intros c Hc. apply node_children_In in Hc. apply (wf_valid _ _ W). tauto. }
  rewrite (list_remove_remove1 _ _ Hn) in E. cbn [bind] in E.
  destruct (loop_nodes (fun nd => list_remove n (parents nd)) ch h) as [h1|e] eqn:E1; [|discriminate].
  cbn [bind] in E.
  destruct (same_fields_loop (fun nd => list_remove n (parents nd)) (fun nd => remove1 n (parents nd)) ch h h1 NDc Vc) as [SF1 P1]; auto.
  { intros c Hc. apply node_children_In in Hc. apply list_remove_remove1. tauto. }
  assert (MG : forall r, In r (remove1 n g) <-> In r g /\ r <> n) by (intros r; apply remove1_iff; apply (wf_nodup _ _ W)).
  (* parents after the unlink loop, for every old member *)
  assert (Q1 : forall r, In r g -> forall p, In p (pars h1 r) <-> In p (pars h r) /\ p <> n).
  { intros r Hr p. rewrite P1. destruct (memb r ch) eqn:M.
    - apply remove1_iff. apply (wf_pnodup _ _ W). exact Hr.
    - apply memb_false in M. split; [|tauto]. intros A. split; [exact A|]. intros ->.
      apply M. apply node_children_In. auto. }
  assert (L1 : length h1 = length h) by apply SF1.
  assert (Vc1 : forall c, In c ch -> c < length h1) by (intros c Hc; rewrite L1; auto).
  (* the reconnection loop over a list l of children *)
  assert (EXT : forall l h2, NoDup l -> (forall c, In c l -> In c ch) ->
     loop_nodes (extend_by (pars h1 n)) l h1 = Ok h2 ->
     same_fields h h2 /\ forall r, In r g -> forall p, In p (pars h2 r) <->
        (In p (pars h r) /\ p <> n) \/ (In r l /\ In p (pars h n) /\ p <> n)).
  { intros l h2 NDl Il E2.
    destruct (same_fields_loop (extend_by (pars h1 n)) (fun nd => pl_extend (uniq nd) (parents nd) (pars h1 n)) l h1 h2 NDl) as [SF2 P2]; auto.
    split; [eapply same_fields_trans; eauto|].
    intros r Hr p. rewrite P2. destruct (memb r l) eqn:M.
    - apply memb_In in M. fold (pars h1 r). rewrite pl_extend_In, (Q1 r Hr), (Q1 n Hn). tauto.
    - apply memb_false in M. rewrite (Q1 r Hr). tauto. }
  assert (NOEXT : same_fields h h1 /\ forall r, In r g -> forall p, In p (pars h1 r) <->
        (In p (pars h r) /\ p <> n) \/ (False /\ In n (pars h r) /\ In p (pars h n) /\ p <> n)).
  { split; [exact SF1|]. intros r Hr p. rewrite (Q1 r Hr). tauto. }
  assert (CH : forall r, In r g -> (In r ch <-> In n (pars h r))).
  { intros r Hr. unfold ch. rewrite node_children_In. tauto. }
  destruct m.
  - inversion E; subst. destruct NOEXT as [A B]. split; [exact A|]. split; [exact MG|].
    intros r Hr p. apply MG in Hr. destruct Hr as [Hr _]. rewrite (B r Hr). simpl. tauto.
  - destruct (pars h1 n) as [|q qs] eqn:Eq.
    + inversion E; subst. destruct NOEXT as [A B]. split; [exact A|]. split; [exact MG|].
      intros r Hr p. apply MG in Hr. destruct Hr as [Hr _]. rewrite (B r Hr).
      assert (X : forall p, ~ (In p (pars h n) /\ p <> n)).
      { intros p' Y. apply (Q1 n Hn) in Y. rewrite Eq in Y. exact Y. }
      specialize (X p). tauto.
    + destruct ch as [|c [|c2 cs]] eqn:Ec.
      * inversion E; subst. destruct NOEXT as [A B]. split; [exact A|]. split; [exact MG|].
        intros r Hr p. apply MG in Hr. destruct Hr as [Hr _]. rewrite (B r Hr).
        assert (X : ~ In n (pars h r)) by (rewrite <- (CH r Hr); intros []). tauto.
      * destruct (loop_nodes (extend_by (q :: qs)) [c] h1) as [h2|e] eqn:E2; [|discriminate].
        cbn [bind] in E. inversion E; subst.
        destruct (EXT [c] h' NDc (fun x H => H) E2) as [A B]. split; [exact A|]. split; [exact MG|].
        intros r Hr p. apply MG in Hr. destruct Hr as [Hr _]. rewrite (B r Hr), <- (CH r Hr).
        assert (X : reconnects h g n RSingle) by (unfold reconnects; change (node_children h g n) with ch; rewrite Ec; reflexivity).
        tauto.
      * inversion E; subst. destruct NOEXT as [A B]. split; [exact A|]. split; [exact MG|].
        intros r Hr p. apply MG in Hr. destruct Hr as [Hr _]. rewrite (B r Hr).
        assert (X : ~ reconnects h g n RSingle) by (unfold reconnects; change (node_children h g n) with ch; rewrite Ec; simpl; discriminate).
        tauto.
  - destruct (pars h1 n) as [|q qs] eqn:Eq.
    + inversion E; subst. destruct NOEXT as [A B]. split; [exact A|]. split; [exact MG|].
      intros r Hr p. apply MG in Hr. destruct Hr as [Hr _]. rewrite (B r Hr).
      assert (X : forall p, ~ (In p (pars h n) /\ p <> n)).
      { intros p' Y. apply (Q1 n Hn) in Y. rewrite Eq in Y. exact Y. }
      specialize (X p). tauto.
    + destruct (loop_nodes (extend_by (q :: qs)) ch h1) as [h2|e] eqn:E2; [|discriminate].
      cbn [bind] in E. inversion E; subst.
      destruct (EXT ch h' NDc (fun x H => H) E2) as [A B]. split; [exact A|]. split; [exact MG|].
      intros r Hr p. apply MG in Hr. destruct Hr as [Hr _]. rewrite (B r Hr), (CH r Hr). simpl. tauto.
Qed.

(* ------------------------------------------------------------------ delete_subtree *)
Theorem delete_subtree_char : forall h g n h' g', WF h g -> In n g ->
  delete_subtree h g n = Ok (h', g') ->
  length h' = length h /\
  (forall r, uid (get h' r) = uid (get h r) /\ label (get h' r) = label (get h r)) /\
  (forall r, In r g' <-> In r g /\ ~ reach h n r) /\
  (forall r, In r g' -> forall p, In p (pars h' r) <-> In p (pars h r) /\ ~ reach h n p).
Proof.
  intros h g n h' g' W Hn E. unfold delete_subtree in E.
  destruct (hierarchy h n) as [sub|e] eqn:EH; [|discriminate]. cbn [bind] in E. inversion E; subst. clear E.
  destruct (hierarchy_spec _ _ _ EH) as [_ [_ [_ RS]]].
  set (g1 := remove_items g sub).
  assert (ND1 : NoDup g1) by (apply remove_items_nodup; apply (wf_nodup _ _ W)).
  destruct (fold_prune_spec sub g1 h ND1) as [L G].
  { intros c Hc. apply remove_items_In in Hc. apply (wf_valid _ _ W). tauto. }
  split; [exact L|]. split; [|split].
  - intros r. rewrite G. destruct (memb r g1); auto.
  - intros r. unfold g1. rewrite remove_items_In, RS. tauto.
  - intros r Hr p. unfold pars at 1. rewrite G. apply memb_In in Hr. rewrite Hr. simpl.
    rewrite dedupe_In, remove_items_In, RS. tauto.
Qed.

(* ------------------------------------------------------------------ add_node *)
Theorem add_node_char : forall h g n h' g', heap_ok h -> n < length h ->
  add_node h g n = Ok (h', g') ->
  h' = h /\ (forall r, In r g' -> In r g \/ reach h n r) /\ incl g g' /\
  ((forall x p, In x g -> In p (pars h x) -> In p g) -> forall r, reach h n r -> In r g').
Proof.
  intros h g n h' g' HK Hn E. unfold add_node in E.
  destruct (add_node_g h g n) as [g2|e] eqn:E2; [|discriminate]. cbn [bind] in E. injection E as Eh Eg. subst h' g2.
  unfold add_node_g in E2.
  pose proof (dfs_add_closed _ _ _ _ _ E2) as [I [Hn' C]].
  pose proof (dfs_add_sound _ _ _ _ _ E2) as S.
  split; [reflexivity|]. split; [exact S|]. split; [exact I|].
  intros CL r Rr.
  apply (reachP_closed (pars h) (fun x => In x g') n r Rr Hn').
  intros x p Hx Hp. destruct (C x Hx) as [A|A]; [apply I; eapply CL; eauto|apply A; exact Hp].
Qed.
