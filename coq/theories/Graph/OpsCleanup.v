(* _clean_up_leftovers removes exactly the least set of nodes closed under "the former parent, or
   a parent of a removed node, all of whose children are removed"; disconnect_nodes with
   clean-up refines its set-level specification (property C04, part 4 continued). *)
From Coq Require Import List Arith Bool Lia.
From GolemV Require Import Graph.Heap Graph.Ops Graph.OpsSpec Graph.OpsBase Graph.OpsDfs Graph.OpsProofs
  Graph.OpsChar Graph.OpsRefine.
Import ListNotations.

(* ------------------------------------------------------------------ the removed set, inductively *)
Inductive removed (h : heap) (g0 : graph) (p : ref) : ref -> Prop :=
| rem_p : In p g0 -> (forall c, In c g0 -> In p (pars h c) -> removed h g0 p c) -> removed h g0 p p
| rem_step : forall x y, removed h g0 p y -> In x (pars h y) -> In x g0 ->
    (forall c, In c g0 -> In x (pars h c) -> removed h g0 p c) -> removed h g0 p x.

Definition cstep (k : nat) (h : heap) :=
  fun (acc : res graph) (q : ref) => match acc with Ok gg => clean_up k h gg q | Raise e => Raise e end.

Lemma clean_up_S : forall k h g n,
  clean_up (S k) h g n =
  if memb n g && null (node_children h g n) then
    bind (list_remove n g) (fun g1 => fold_left (cstep k h) (pars h n) (Ok g1))
  else Ok g.
Proof. reflexivity. Qed.

Lemma fold_cstep_raise : forall k h ps e, fold_left (cstep k h) ps (Raise e) = Raise e.
Proof. induction ps; simpl; auto. Qed.

Lemma childless_iff : forall h g n, null (node_children h g n) = true <-> (forall c, In c g -> ~ In n (pars h c)).
Proof.
  intros h g n. split.
  - intros H c Hc Hn. assert (X : In c (node_children h g n)) by (apply node_children_In; auto).
    destruct (node_children h g n); [exact X|discriminate].
  - intros H. destruct (node_children h g n) as [|c t] eqn:E; [reflexivity|].
    exfalso. assert (X : In c (node_children h g n)) by (rewrite E; left; reflexivity).
    apply node_children_In in X. destruct X as [A B]. apply (H c A B).
Qed.

(* what one call guarantees about the nodes it leaves *)
Definition has_child (h : heap) (g : graph) (q : ref) : Prop := exists c, In c g /\ In q (pars h c).

Lemma clean_up_post : forall k h g n g', clean_up k h g n = Ok g' -> NoDup g ->
  incl g' g /\ NoDup g' /\
  (forall y, In y g -> ~ In y g' -> forall q, In q (pars h y) -> In q g' -> has_child h g' q) /\
  (In n g -> In n g' -> has_child h g' n).
Proof.
  induction k as [|k IH]; intros h g n g' E ND; [discriminate|].
  rewrite clean_up_S in E.
  destruct (memb n g && null (node_children h g n)) eqn:C.
  - apply andb_true_iff in C. destruct C as [C1 C2]. apply memb_In in C1.
    rewrite (list_remove_remove1 _ _ C1) in E. cbn [bind] in E.
    pose proof (remove1_iff n g) as M1.
    assert (ND1 : NoDup (remove1 n g)) by (apply remove1_nodup; exact ND).
    assert (F : forall ps g1 g2, fold_left (cstep k h) ps (Ok g1) = Ok g2 -> NoDup g1 ->
      incl g2 g1 /\ NoDup g2 /\
      (forall y, In y g1 -> ~ In y g2 -> forall q, In q (pars h y) -> In q g2 -> has_child h g2 q) /\
      (forall q, In q ps -> In q g1 -> In q g2 -> has_child h g2 q)).
    { induction ps as [|q0 t IHt]; intros g1 g2 EF N1.
      - simpl in EF. inversion EF; subst. split; [apply incl_refl|]. split; [exact N1|].
        split; [intros y A B; contradiction|intros q []].
      - simpl in EF. destruct (clean_up k h g1 q0) as [gm|e] eqn:Eq; [|rewrite fold_cstep_raise in EF; discriminate].
        destruct (IH _ _ _ _ Eq N1) as [Ia [Na [Ba Ca]]].
        destruct (IHt _ _ EF Na) as [Ib [Nb [Bb Cb]]].
        assert (LIFT : forall q, In q g2 -> has_child h gm q -> has_child h g2 q).
        { intros q Hq [c [Hc1 Hc2]]. destruct (in_dec Nat.eq_dec c g2) as [X|X]; [exists c; auto|].
          apply (Bb c Hc1 X q Hc2 Hq). }
        split; [eapply incl_tran; eauto|]. split; [exact Nb|]. split.
        + intros y Hy Ny q Hq Hq2. destruct (in_dec Nat.eq_dec y gm) as [X|X].
          * apply (Bb y X Ny q Hq Hq2).
          * apply LIFT; [exact Hq2|]. apply (Ba y Hy X q Hq). apply Ib. exact Hq2.
        + intros q [<-|Hq] Hq1 Hq2.
          * apply LIFT; [exact Hq2|]. apply Ca; [exact Hq1|apply Ib; exact Hq2].
          * apply Cb; [exact Hq|apply Ib; exact Hq2|exact Hq2]. }
    destruct (F _ _ _ E ND1) as [I2 [N2 [B2 C2']]].
    assert (Nn : ~ In n g').
    { intros X. apply I2 in X. apply (M1 n ND) in X. tauto. }
    split; [|split; [exact N2|split]].
    + intros x Hx. apply I2 in Hx. apply (M1 x ND) in Hx. tauto.
    + intros y Hy Ny q Hq Hq2. destruct (Nat.eq_dec y n) as [->|Nyn].
      * apply C2'; [exact Hq|apply I2; exact Hq2|exact Hq2].
      * apply (B2 y); auto. apply (M1 y ND). tauto.
    + intros _ X. contradiction.
  - inversion E; subst. split; [apply incl_refl|]. split; [exact ND|]. split; [intros y A B; contradiction|].
    intros Hn _. apply memb_In in Hn. rewrite Hn in C. simpl in C.
    destruct (node_children h g' n) as [|c t] eqn:Ec; [discriminate|].
    assert (X : In c (node_children h g' n)) by (rewrite Ec; left; reflexivity).
    apply node_children_In in X. exists c. exact X.
Qed.

(* every node that disappears is in the inductively defined set *)
Lemma clean_up_sound : forall h g0 p k g n g', clean_up k h g n = Ok g' -> NoDup g -> incl g g0 ->
  (forall y, In y g0 -> ~ In y g -> removed h g0 p y) ->
  ((n = p /\ forall y, In y g0 -> In y g) \/ exists y, removed h g0 p y /\ In n (pars h y)) ->
  forall y, In y g0 -> ~ In y g' -> removed h g0 p y.
Proof.
  intros h g0 p. induction k as [|k IH]; intros g n g' E ND I0 R0 Hn; [discriminate|].
  rewrite clean_up_S in E.
  destruct (memb n g && null (node_children h g n)) eqn:C.
  - apply andb_true_iff in C. destruct C as [C1 C2]. apply memb_In in C1.
    rewrite childless_iff in C2.
    rewrite (list_remove_remove1 _ _ C1) in E. cbn [bind] in E.
    pose proof (remove1_iff n g) as M1.
    assert (Rn : removed h g0 p n).
    { assert (CH : forall c, In c g0 -> In n (pars h c) -> removed h g0 p c).
      { intros c Hc Hp. destruct (in_dec Nat.eq_dec c g) as [X|X]; [exfalso; eapply C2; eauto|auto]. }
      destruct Hn as [[-> _]|[y [Ry Hy]]].
      - apply rem_p; [apply I0; exact C1|exact CH].
      - eapply rem_step; eauto. }
    assert (F : forall ps g1 g2, fold_left (cstep k h) ps (Ok g1) = Ok g2 -> NoDup g1 -> incl g1 g0 ->
      (forall q, In q ps -> In q (pars h n)) ->
      (forall y, In y g0 -> ~ In y g1 -> removed h g0 p y) ->
      forall y, In y g0 -> ~ In y g2 -> removed h g0 p y).
    { induction ps as [|q0 t IHt]; intros g1 g2 EF N1 I1 Hps R1.
      - simpl in EF. inversion EF; subst. exact R1.
      - simpl in EF. destruct (clean_up k h g1 q0) as [gm|e] eqn:Eq; [|rewrite fold_cstep_raise in EF; discriminate].
        destruct (clean_up_post _ _ _ _ _ Eq N1) as [Ia [Na _]].
        apply (IHt gm g2 EF Na).
        + eapply incl_tran; eauto.
        + intros q Hq. apply Hps. right. exact Hq.
        + apply (IH g1 q0 gm Eq N1 I1 R1). right. exists n. split; [exact Rn|apply Hps; left; reflexivity]. }
    apply (F _ _ _ E).
    + apply remove1_nodup. exact ND.
    + intros x Hx. apply I0. apply (M1 x ND) in Hx. tauto.
    + auto.
    + intros y Hy Ny. destruct (Nat.eq_dec y n) as [->|Nyn]; [exact Rn|].
      apply R0; [exact Hy|]. intros X. apply Ny. apply (M1 y ND). tauto.
  - inversion E; subst. exact R0.
Qed.

(* the clean-up started at p on the member list g0 leaves exactly the non-removed members *)
Theorem clean_up_exact : forall h g0 p k g', clean_up k h g0 p = Ok g' -> NoDup g0 ->
  forall x, In x g' <-> In x g0 /\ ~ removed h g0 p x.
Proof.
  intros h g0 p k g' E ND.
  destruct (clean_up_post _ _ _ _ _ E ND) as [I [N' [B C]]].
  assert (COMPLETE : forall x, removed h g0 p x -> ~ In x g').
  { intros x R. induction R as [Hp Hc IHc|x y Ry IHy Hxy Hx Hc IHc].
    - intros X. destruct (C Hp X) as [c [Hc1 Hc2]]. apply (IHc c (I c Hc1) Hc2). exact Hc1.
    - intros X. destruct (in_dec Nat.eq_dec y g0) as [Yg|Yg].
      + destruct (B y Yg IHy x Hxy X) as [c [Hc1 Hc2]]. apply (IHc c (I c Hc1) Hc2). exact Hc1.
      + (* a removed node is always a member *)
        inversion Ry; subst; tauto. }
  intros x. split.
  - intros Hx. split; [apply I; exact Hx|]. intros R. apply (COMPLETE x R). exact Hx.
  - intros [Hx NR]. destruct (in_dec Nat.eq_dec x g') as [X|X]; [exact X|exfalso].
    apply NR. apply (clean_up_sound h g0 p k g0 p g' E ND (incl_refl _)); auto.
    intros y A B'. contradiction.
Qed.

(* ------------------------------------------------------------------ the round-based specification *)
Inductive aremoved (A : agraph) (p : ref) : ref -> Prop :=
| ar_p : In p (an A) -> (forall c, In c (a_children A p) -> aremoved A p c) -> aremoved A p p
| ar_step : forall x y, aremoved A p y -> In x (a_parents A y) -> In x (an A) ->
    (forall c, In c (a_children A x) -> aremoved A p c) -> aremoved A p x.

Definition new_part (A : agraph) (p : ref) (X : list ref) : list ref :=
  filter (fun x => negb (memb x X) &&
                   ((x =? p) || existsb (fun y => memb x (a_parents A y)) X) &&
                   incl_b (a_children A x) X) (an A).

Lemma cleanup_round_eq : forall A p X, cleanup_round A p X = X ++ new_part A p X.
Proof. reflexivity. Qed.

Lemma new_part_In : forall A p X x, In x (new_part A p X) <->
  In x (an A) /\ ~ In x X /\ (x = p \/ exists y, In y X /\ In x (a_parents A y)) /\ incl (a_children A x) X.
Proof.
  intros A p X x. unfold new_part. rewrite filter_In, !andb_true_iff, negb_true_iff, memb_false,
    orb_true_iff, Nat.eqb_eq, existsb_exists, incl_b_iff.
  split.
  - intros [A1 [[A2 [A3|[y [Hy A3]]]] A4]]; repeat split; auto. right. exists y. split; [exact Hy|apply memb_In; exact A3].
  - intros [A1 [A2 [[A3|[y [Hy A3]]] A4]]]; repeat split; auto. right. exists y. split; [exact Hy|apply memb_In; exact A3].
Qed.

Lemma iter_S_out : forall {T} k (f : T -> T) x, iter (S k) f x = f (iter k f x).
Proof. intros T k f. induction k as [|k IH]; intros x; [reflexivity|]. simpl in *. rewrite <- IH. reflexivity. Qed.

Section Rounds.
  Variables (A : agraph) (p : ref).
  Hypothesis NDA : NoDup (an A).
  Let X (k : nat) := iter k (cleanup_round A p) [].

  Lemma rounds_inv : forall k, NoDup (X k) /\ incl (X k) (an A) /\ (forall x, In x (X k) -> aremoved A p x).
  Proof.
    induction k as [|k [N [I R]]].
    - split; [constructor|]. split; intros x [].
    - unfold X. rewrite iter_S_out. fold (X k). rewrite cleanup_round_eq. split; [|split].
      + apply NoDup_app_intro; [exact N|apply NoDup_filter; exact NDA|].
        intros x A1 A2. apply new_part_In in A2. tauto.
      + intros x Hx. apply in_app_or in Hx. destruct Hx as [Hx|Hx]; [auto|]. apply new_part_In in Hx. tauto.
      + intros x Hx. apply in_app_or in Hx. destruct Hx as [Hx|Hx]; [auto|].
        apply new_part_In in Hx. destruct Hx as [A1 [_ [[->|[y [Hy A3]]] A4]]].
        * apply ar_p; [exact A1|]. intros c Hc. apply R. apply A4. exact Hc.
        * apply (ar_step A p x y); auto; intros c Hc; apply R; apply A4; exact Hc.
  Qed.

  Lemma rounds_progress : forall k, new_part A p (X k) = [] \/ k <= length (X k).
  Proof.
    induction k as [|k [Z|G]].
    - right. simpl. lia.
    - left. unfold X in *. rewrite iter_S_out, cleanup_round_eq, Z, app_nil_r. exact Z.
    - destruct (new_part A p (X k)) as [|a t] eqn:E.
      + left. unfold X in *. rewrite iter_S_out, cleanup_round_eq, E, app_nil_r. exact E.
      + right. unfold X in *. rewrite iter_S_out, cleanup_round_eq, E, app_length. simpl. lia.
  Qed.

  Lemma rounds_closed : new_part A p (cleanup_set A p) = [].
  Proof.
    unfold cleanup_set. fold (X (S (length (an A)))).
    destruct (rounds_progress (S (length (an A)))) as [Z|G]; [exact Z|exfalso].
    destruct (rounds_inv (S (length (an A)))) as [N [I _]].
    pose proof (NoDup_incl_length N I). lia.
  Qed.

  Theorem cleanup_set_spec : forall x, In x (cleanup_set A p) <-> aremoved A p x.
  Proof.
    intros x. split.
    - unfold cleanup_set. apply (rounds_inv (S (length (an A)))).
    - intros R. induction R as [Hp Hc IHc|x y Ry IHy Hxy Hx Hc IHc].
      + destruct (in_dec Nat.eq_dec p (cleanup_set A p)) as [Y|Y]; [exact Y|exfalso].
        assert (Z : In p (new_part A p (cleanup_set A p))).
        { apply new_part_In. repeat split; auto. }
        rewrite rounds_closed in Z. exact Z.
      + destruct (in_dec Nat.eq_dec x (cleanup_set A p)) as [Y|Y]; [exact Y|exfalso].
        assert (Z : In x (new_part A p (cleanup_set A p))).
        { apply new_part_In. repeat split; auto. right. exists y. auto. }
        rewrite rounds_closed in Z. exact Z.
  Qed.
End Rounds.

(* the two inductive descriptions agree when the abstract graph denotes (h, g) *)
Lemma removed_aremoved : forall h g A p, an A = g ->
  (forall q r, In (q, r) (ae A) <-> In r g /\ In q (pars h r)) ->
  (forall r q, In r g -> In q (pars h r) -> In q g) ->
  forall x, removed h g p x <-> aremoved A p x.
Proof.
  intros h g A p EN EE CL x. split.
  - intros R. induction R as [Hp Hc IHc|x y Ry IHy Hxy Hx Hc IHc].
    + apply ar_p; [rewrite EN; exact Hp|]. intros c Hc'. apply a_children_In, EE in Hc'. apply IHc; tauto.
    + apply (ar_step A p x y); auto.
      * apply a_parents_In, EE. split; [|exact Hxy]. inversion Ry; subst; auto.
      * rewrite EN. exact Hx.
      * intros c Hc'. apply a_children_In, EE in Hc'. apply IHc; tauto.
  - intros R. induction R as [Hp Hc IHc|x y Ry IHy Hxy Hx Hc IHc].
    + apply rem_p; [rewrite <- EN; exact Hp|]. intros c Hc1 Hc2. apply IHc. apply a_children_In, EE. auto.
    + apply a_parents_In, EE in Hxy. apply (rem_step h g p x y); auto; [tauto|rewrite <- EN; exact Hx|].
      intros c Hc1 Hc2. apply IHc. apply a_children_In, EE. auto.
Qed.

(* ------------------------------------------------------------------ disconnect_nodes with clean-up *)
Theorem disconnect_cleanup_refines : forall h g p c h' g', WF h g -> In p g -> In c g ->
  disconnect_nodes h g p c true = Ok (h', g') ->
  a_equiv (abs h' g') (spec_disconnect_cleanup (abs h g) p c).
Proof.
  intros h g p c h' g' W Hp Hc E.
  destruct (disconnect_WF h g p c true W Hp Hc) as [s' [E' W']]. rewrite E in E'. inversion E'; subst s'. simpl in W'.
  destruct (disconnect_char _ _ _ _ _ _ _ W Hp Hc E) as [SF [P [_ I]]].
  unfold spec_disconnect_cleanup.
  destruct (mem2 (p, c) (ae (abs h g))) eqn:M.
  - apply mem2_In in M. simpl in M. apply edges_of_In in M. destruct M as [_ M].
    (* the member list is the result of the clean-up on the heap without the edge *)
    unfold disconnect_nodes in E. apply memb_In in M. rewrite M in E. cbn [negb] in E.
    pose proof Hp as Hp'. pose proof Hc as Hc'. apply memb_In in Hp'. apply memb_In in Hc'.
    rewrite Hp', Hc' in E. cbn [negb orb] in E. apply memb_In in M.
    rewrite (list_remove_remove1 _ _ M) in E. cbn [bind] in E.
    destruct (clean_up _ _ g p) as [g1|e] eqn:EC; [|discriminate]. cbn [bind] in E. inversion E; subst h' g1. clear E.
    set (h1 := set_pars h c (remove1 p (pars h c))) in *.
    pose proof (clean_up_exact _ _ _ _ _ EC (wf_nodup _ _ W)) as MG.
    set (A1 := spec_disconnect (abs h g) p c).
    assert (EE : forall q r, In (q, r) (ae A1) <-> In r g /\ In q (pars h1 r)).
    { intros q r. unfold A1, spec_disconnect. simpl. rewrite filter_In, edges_of_In, negb_true_iff, P. split.
      - intros [[A B] C]. split; [exact A|]. split; [exact B|]. intros [-> ->].
        assert (X : eqb2 (p, c) (p, c) = true) by (apply eqb2_iff; reflexivity). congruence.
      - intros [A [B C]]. split; [auto|]. destruct (eqb2 (q, r) (p, c)) eqn:X; [|reflexivity].
        apply eqb2_iff in X. inversion X; subst. tauto. }
    assert (CL1 : forall r q, In r g -> In q (pars h1 r) -> In q g).
    { intros r q Hr Hq. apply P in Hq. eapply (wf_closed _ _ W); [exact Hr|tauto]. }
    assert (CS : forall x, In x (cleanup_set A1 p) <-> removed h1 g p x).
    { intros x. rewrite (cleanup_set_spec A1 p (wf_nodup _ _ W)).
      symmetry. apply (removed_aremoved h1 g A1 p); auto. }
    split; [|split]; simpl.
    + intros x. rewrite MG, filter_In, negb_true_iff, memb_false, CS. tauto.
    + intros [q r]. rewrite filter_In, edges_of_In. simpl.
      rewrite andb_true_iff, !negb_true_iff, !memb_false, !CS.
      change (filter (fun e => negb (eqb2 e (p, c))) (edges_of h g)) with (ae A1). rewrite EE. split.
      * intros [A B]. pose proof (wf_closed _ _ W' r q A B) as Q. apply MG in A. apply MG in Q. tauto.
      * intros [[A B] [C D]]. split; [apply MG; tauto|exact B].
    + intros [r l]. rewrite filter_In, !labels_of_In, MG, negb_true_iff, memb_false, CS. simpl.
      rewrite (same_fields_label h h1 r SF). tauto.
  - assert (N : ~ In p (pars h c)).
    { intros X. assert (Y : mem2 (p, c) (ae (abs h g)) = true) by (apply mem2_In; simpl; apply edges_of_In; auto).
      congruence. }
    unfold disconnect_nodes in E. apply memb_false in N. rewrite N in E. cbn [negb] in E. inversion E; subst.
    split; [|split]; intros; tauto.
Qed.
