(* The two recursive walks over parent links: dfs_add (add_node / closure) and subtree_impl
   (ordered_subnodes_hierarchy).  Results: what the returned list contains, fuel sufficiency,
   no ValueError on acyclic input. *)
From Coq Require Import List Arith Bool Lia.
From GolemV Require Import Graph.Heap Graph.Ops Graph.OpsBase.
Import ListNotations.

(* ------------------------------------------------------------------ reachability *)
Lemma reachP_trans : forall par a b c, reachP par a b -> reachP par b c -> reachP par a c.
Proof. intros par a b c H. induction H; intros; auto. econstructor; eauto. Qed.

Lemma reachP_closed : forall par (S : ref -> Prop) a b,
  reachP par a b -> S a -> (forall x p, S x -> In p (par x) -> S p) -> S b.
Proof. intros par S a b H. induction H; intros; eauto. Qed.

(* ------------------------------------------------------------------ dfs_add *)
Definition dstep (par : ref -> list ref) (k : nat) :=
  fun (acc : res (list ref)) (p : ref) => match acc with Ok g1 => dfs_add par k g1 p | Raise e => Raise e end.

Lemma dfs_add_S : forall par k g n,
  dfs_add par (S k) g n = if memb n g then Ok g else fold_left (dstep par k) (par n) (Ok (g ++ [n])).
Proof. reflexivity. Qed.

Lemma fold_dstep_raise : forall par k ps e, fold_left (dstep par k) ps (Raise e) = Raise e.
Proof. induction ps; simpl; auto. Qed.

(* induction principle: P for a call, Q for the loop over a parent list *)
Section DfsInd.
  Variable par : ref -> list ref.
  Variable P : list ref -> ref -> list ref -> Prop.
  Variable Q : list ref -> list ref -> list ref -> Prop.
  Hypothesis Hmem : forall g n, In n g -> P g n g.
  Hypothesis Hnew : forall g n g', ~ In n g -> Q (g ++ [n]) (par n) g' -> P g n g'.
  Hypothesis Qnil : forall g, Q g [] g.
  Hypothesis Qcons : forall g p ps g1 g', P g p g1 -> Q g1 ps g' -> Q g (p :: ps) g'.

  Lemma dfs_add_ind : forall fuel g n g', dfs_add par fuel g n = Ok g' -> P g n g'.
  Proof.
    induction fuel as [|k IH]; intros g n g' E; [discriminate|].
    rewrite dfs_add_S in E. destruct (memb n g) eqn:M.
    - inversion E; subst. apply Hmem. apply memb_In. exact M.
    - apply Hnew; [apply memb_false; exact M|].
      remember (par n) as ps eqn:Eps. clear Eps M.
      remember (g ++ [n]) as g0 eqn:Eg. clear Eg.
      revert g0 E. induction ps as [|p t IHt]; simpl; intros g0 E.
      + inversion E; subst. apply Qnil.
      + destruct (dfs_add par k g0 p) as [g1|e] eqn:E1.
        * eapply Qcons; [apply IH; exact E1|apply IHt; exact E].
        * rewrite fold_dstep_raise in E. discriminate.
  Qed.
End DfsInd.

Lemma dfs_add_ext : forall par fuel g n g', dfs_add par fuel g n = Ok g' -> exists l, g' = g ++ l.
Proof.
  intros par fuel g n g'.
  refine (dfs_add_ind par (fun g _ g' => exists l, g' = g ++ l) (fun g _ g' => exists l, g' = g ++ l) _ _ _ _ fuel g n g');
    clear fuel g n g'.
  - intros. exists []. rewrite app_nil_r. reflexivity.
  - intros g n g' _ [l ->]. exists ([n] ++ l). rewrite app_assoc. reflexivity.
  - intros. exists []. rewrite app_nil_r. reflexivity.
  - intros g p ps g1 g' [l1 ->] [l2 ->]. exists (l1 ++ l2). rewrite app_assoc. reflexivity.
Qed.

Lemma dfs_add_nodup : forall par fuel g n g', dfs_add par fuel g n = Ok g' -> NoDup g -> NoDup g'.
Proof.
  intros par fuel g n g'.
  refine (dfs_add_ind par (fun g _ g' => NoDup g -> NoDup g') (fun g _ g' => NoDup g -> NoDup g') _ _ _ _ fuel g n g');
    clear fuel g n g'; auto.
  intros g n g' H Q ND. apply Q. apply NoDup_snoc; assumption.
Qed.

(* the result extends g, contains n, and every node that was added has all its parents in it *)
Lemma dfs_add_closed : forall par fuel g n g', dfs_add par fuel g n = Ok g' ->
  incl g g' /\ In n g' /\ (forall m, In m g' -> In m g \/ incl (par m) g').
Proof.
  intros par fuel g n g'.
  refine (dfs_add_ind par (fun g n g' => incl g g' /\ In n g' /\ (forall m, In m g' -> In m g \/ incl (par m) g'))
    (fun g ps g' => incl g g' /\ incl ps g' /\ (forall m, In m g' -> In m g \/ incl (par m) g')) _ _ _ _ fuel g n g');
    clear fuel g n g'.
  - intros g n H. split; [apply incl_refl|]. split; auto.
  - intros g n g' Hn [A [B C]]. split; [|split].
    + intros x Hx. apply A. apply in_or_app. auto.
    + apply A. apply in_or_app. right. left. reflexivity.
    + intros m Hm. destruct (C m Hm) as [D|D]; [|auto].
      apply in_app_or in D. destruct D as [D|[D|[]]]; [auto|subst; auto].
  - intros g. split; [apply incl_refl|]. split; [intros x []|auto].
  - intros g p ps g1 g' [A [B C]] [A' [B' C']]. split; [|split].
    + eapply incl_tran; eauto.
    + intros x [->|Hx]; auto.
    + intros m Hm. destruct (C' m Hm) as [D|D]; [|auto].
      destruct (C m D) as [F|F]; [auto|]. right. eapply incl_tran; eauto.
Qed.

(* every node that was added is reachable from n *)
Lemma dfs_add_sound : forall par fuel g n g', dfs_add par fuel g n = Ok g' ->
  forall m, In m g' -> In m g \/ reachP par n m.
Proof.
  intros par fuel g n g'.
  refine (dfs_add_ind par (fun g n g' => forall m, In m g' -> In m g \/ reachP par n m)
    (fun g ps g' => forall m, In m g' -> In m g \/ exists p, In p ps /\ reachP par p m) _ _ _ _ fuel g n g');
    clear fuel g n g'.
  - auto.
  - intros g n g' Hn C m Hm. destruct (C m Hm) as [D|[p [D1 D2]]].
    + apply in_app_or in D. destruct D as [D|[D|[]]]; [auto|subst; right; constructor].
    + right. econstructor; eauto.
  - auto.
  - intros g p ps g1 g' C C' m Hm. destruct (C' m Hm) as [D|[q [D1 D2]]].
    + destruct (C m D) as [F|F]; [auto|]. right. exists p. split; [left; reflexivity|exact F].
    + right. exists q. split; [right; exact D1|exact D2].
Qed.

(* enough fuel: the recursion depth is bounded by the number of objects not yet listed *)
Lemma dfs_add_fuel : forall par U, (forall x, In x U -> incl (par x) U) ->
  forall fuel g n, NoDup g -> incl g U -> In n U -> length U < fuel + length g ->
  exists g', dfs_add par fuel g n = Ok g' /\ NoDup g' /\ incl g' U /\ length g <= length g'.
Proof.
  intros par U HU. induction fuel as [|k IH]; intros g n ND HI Hn HL.
  - exfalso. pose proof (NoDup_incl_length ND HI). lia.
  - rewrite dfs_add_S. destruct (memb n g) eqn:M.
    + exists g. auto.
    + apply memb_false in M.
      assert (ND0 : NoDup (g ++ [n])) by (apply NoDup_snoc; assumption).
      assert (HI0 : incl (g ++ [n]) U).
      { intros x Hx. apply in_app_or in Hx. destruct Hx as [Hx|[<-|[]]]; auto. }
      assert (HL0 : length U < k + length (g ++ [n])) by (rewrite app_length; simpl; lia).
      assert (HG : length g <= length (g ++ [n])) by (rewrite app_length; lia).
      pose proof (HU n Hn) as Hps.
      remember (par n) as ps eqn:Eps. clear Eps.
      remember (g ++ [n]) as g0 eqn:Eg. clear Eg ND HI M.
      revert g0 ND0 HI0 HL0 HG. induction ps as [|p t IHt]; simpl; intros g0 ND0 HI0 HL0 HG.
      * exists g0. auto.
      * destruct (IH g0 p ND0 HI0) as [g1 [E1 [ND1 [HI1 HL1]]]]; [apply Hps; left; reflexivity|exact HL0|].
        rewrite E1. apply IHt; auto; try lia.
        intros x Hx. apply Hps. right. exact Hx.
Qed.

(* ------------------------------------------------------------------ the heap instance *)
Lemma seq_universe : forall h, heap_ok h -> forall x, In x (seq 0 (length h)) -> incl (pars h x) (seq 0 (length h)).
Proof.
  intros h H x Hx p Hp. apply in_seq in Hx. apply in_seq. split; [lia|]. simpl. eapply H; eauto. lia.
Qed.

Lemma add_node_g_ok : forall h g n, heap_ok h -> NoDup g -> (forall r, In r g -> r < length h) -> n < length h ->
  exists g', add_node_g h g n = Ok g'.
Proof.
  intros h g n H ND V Hn. unfold add_node_g.
  destruct (dfs_add_fuel (pars h) (seq 0 (length h)) (seq_universe h H) (S (length h)) g n) as [g' [E _]]; auto.
  - intros x Hx. apply in_seq. specialize (V x Hx). lia.
  - apply in_seq. lia.
  - rewrite seq_length. lia.
  - exists g'. exact E.
Qed.

Lemma closure_ok : forall h n, heap_ok h -> n < length h -> exists R, closure h n = Ok R.
Proof.
  intros. unfold closure. apply add_node_g_ok; auto; [constructor|intros r []].
Qed.

(* closure h n lists exactly the ancestors-or-self of n, without repetition *)
Lemma closure_spec : forall h n R, closure h n = Ok R ->
  NoDup R /\ In n R /\ (forall m p, In m R -> In p (pars h m) -> In p R) /\
  (forall m, In m R <-> reach h n m).
Proof.
  unfold closure, add_node_g. intros h n R E.
  pose proof (dfs_add_closed _ _ _ _ _ E) as [_ [Hn C]].
  pose proof (dfs_add_sound _ _ _ _ _ E) as S.
  pose proof (dfs_add_nodup _ _ _ _ _ E (NoDup_nil _)) as ND.
  assert (CL : forall m p, In m R -> In p (pars h m) -> In p R).
  { intros m p Hm Hp. destruct (C m Hm) as [[]|D]. apply D. exact Hp. }
  split; [exact ND|]. split; [exact Hn|]. split; [exact CL|].
  intros m. split.
  - intros Hm. destruct (S m Hm) as [[]|D]. exact D.
  - intros Hr. apply (reachP_closed (pars h) (fun x => In x R) n m Hr Hn). intros x p Hx Hp. eapply CL; eauto.
Qed.

Lemma closure_valid : forall h n R, heap_ok h -> n < length h -> closure h n = Ok R ->
  forall m, In m R -> m < length h.
Proof.
  intros h n R H Hn E m Hm. apply closure_spec in E. destruct E as [_ [_ [_ S]]].
  apply S in Hm. unfold reach in Hm. clear S. induction Hm as [a|a p b Hp Hr IHr]; [exact Hn|].
  apply IHr. eapply H; eauto.
Qed.

(* ------------------------------------------------------------------ subtree_impl *)
Definition hstate := (list ref * (list ref * list ref))%type.

Definition hstep (k : nat) (h : heap) :=
  fun (acc : res hstate) (p : ref) =>
    match acc with
    | Ok (nodes, (st1, vi1)) =>
        if memb p vi1 then acc
        else if memb p st1 then Raise ValueError
        else match subtree_impl k h p (p :: st1) vi1 with
             | Ok (sub, (st2, vi2)) => Ok (nodes ++ sub, (st2, p :: vi2))
             | Raise e => Raise e
             end
    | Raise e => Raise e
    end.

Lemma subtree_impl_S : forall k h n st vi,
  subtree_impl (S k) h n st vi = fold_left (hstep k h) (pars h n) (Ok ([n], (st, vi))).
Proof. reflexivity. Qed.

Lemma fold_hstep_raise : forall k h ps e, fold_left (hstep k h) ps (Raise e) = Raise e.
Proof. induction ps; simpl; auto. Qed.

(* what a loop over a parent list has done: `rest` are the newly started nodes *)
Definition loop_spec (h : heap) (ps : list ref) (nodes st vi nodes' st' vi' : list ref) : Prop :=
  exists rest, nodes' = nodes ++ rest /\
    (forall x, In x st' <-> In x st \/ In x rest) /\
    (forall x, In x vi' <-> In x vi \/ In x rest) /\
    NoDup rest /\ (forall x, In x rest -> ~ In x st) /\
    (forall m, In m rest -> incl (pars h m) vi') /\
    incl ps vi' /\
    (forall m, In m rest -> exists p, In p ps /\ reach h p m).

Definition call_spec (h : heap) (n : ref) (st vi ns st' vi' : list ref) : Prop :=
  exists rest, ns = n :: rest /\
    (forall x, In x st' <-> In x st \/ In x rest) /\
    (forall x, In x vi' <-> In x vi \/ In x rest) /\
    NoDup rest /\ (forall x, In x rest -> ~ In x st) /\
    (forall m, In m ns -> incl (pars h m) vi') /\
    (forall m, In m rest -> reach h n m).

Lemma subtree_impl_spec : forall k h n st vi ns st' vi',
  subtree_impl k h n st vi = Ok (ns, (st', vi')) -> call_spec h n st vi ns st' vi'.
Proof.
  induction k as [|k IH]; intros h n st vi ns st' vi' E; [discriminate|].
  rewrite subtree_impl_S in E.
  assert (L : loop_spec h (pars h n) [n] st vi ns st' vi').
  { remember (pars h n) as ps eqn:Eps. clear Eps.
    remember [n] as nodes eqn:En. clear En.
    revert nodes st vi E. induction ps as [|p t IHt]; intros nodes st vi E.
    - simpl in E. inversion E; subst. exists []. rewrite app_nil_r.
      repeat split; auto; try tauto; try (intros [A|[]]; exact A); try constructor;
        try (intros x []); try (intros m []).
    - simpl in E. destruct (memb p vi) eqn:Mv.
      + apply memb_In in Mv. destruct (IHt _ _ _ E) as [rest [A [B [C [D [F [G [I J]]]]]]]].
        exists rest. repeat split; auto; try apply B; try apply C.
        * intros x [<-|Hx]; [apply C; auto|apply I; exact Hx].
        * intros m Hm. destruct (J m Hm) as [q [Q1 Q2]]. exists q. split; [right; exact Q1|exact Q2].
      + destruct (memb p st) eqn:Ms; [rewrite fold_hstep_raise in E; discriminate|].
        destruct (subtree_impl k h p (p :: st) vi) as [[sub [st2 vi2]]|e] eqn:Ep;
          [|rewrite fold_hstep_raise in E; discriminate].
        apply memb_false in Mv. apply memb_false in Ms.
        destruct (IH _ _ _ _ _ _ _ Ep) as [rp [A1 [B1 [C1 [D1 [F1 [G1 J1]]]]]]].
        destruct (IHt _ _ _ E) as [rt [A2 [B2 [C2 [D2 [F2 [G2 [I2 J2]]]]]]]].
        exists (sub ++ rt). subst sub.
        assert (Hp_rp : ~ In p rp) by (intros X; apply (F1 p X); left; reflexivity).
        repeat split.
        * rewrite A2. rewrite app_assoc. reflexivity.
        * intros X. apply B2 in X. destruct X as [X|X]; [|right; apply in_or_app; auto].
          apply B1 in X. destruct X as [[X|X]|X]; [subst; right; left; reflexivity|auto|].
          right. apply in_or_app. left. right. exact X.
        * intros [X|X]; apply B2; [left; apply B1; left; right; exact X|].
          apply in_app_or in X. destruct X as [[X|X]|X]; [subst; left; apply B1; left; left; reflexivity| |auto].
          left. apply B1. auto.
        * intros X. apply C2 in X. destruct X as [[X|X]|X]; [subst; right; left; reflexivity| |right; apply in_or_app; auto].
          apply C1 in X. destruct X as [X|X]; [auto|]. right. apply in_or_app. left. right. exact X.
        * intros [X|X]; apply C2; [left; right; apply C1; auto|].
          apply in_app_or in X. destruct X as [[X|X]|X]; [subst; left; left; reflexivity| |auto].
          left. right. apply C1. auto.
        * apply NoDup_app_intro; [constructor; assumption|assumption|].
          intros x X Y. apply (F2 x Y). apply B1. destruct X as [X|X]; [subst; left; left; reflexivity|auto].
        * intros x X. apply in_app_or in X. destruct X as [[X|X]|X].
          -- subst. exact Ms.
          -- intros Y. apply (F1 x X). right. exact Y.
          -- intros Y. apply (F2 x X). apply B1. left. right. exact Y.
        * intros m X. apply in_app_or in X. destruct X as [X|X].
          -- intros q Hq. apply C2. left. right. apply (G1 m X q Hq).
          -- apply G2. exact X.
        * intros x [<-|X]; [apply C2; left; left; reflexivity|apply I2; exact X].
        * intros m X. apply in_app_or in X. destruct X as [[X|X]|X].
          -- subst. exists m. split; [left; reflexivity|constructor].
          -- exists p. split; [left; reflexivity|apply J1; exact X].
          -- destruct (J2 m X) as [q [Q1 Q2]]. exists q. split; [right; exact Q1|exact Q2]. }
  destruct L as [rest [A [B [C [D [F [G [I J]]]]]]]].
  subst ns. simpl. exists rest. split; [reflexivity|]. split; [exact B|]. split; [exact C|]. split; [exact D|].
  split; [exact F|]. split.
  - intros m [<-|X]; [exact I|apply G; exact X].
  - intros m X. destruct (J m X) as [q [Q1 Q2]]. econstructor; eauto.
Qed.

Lemma subtree_impl_nodup_st : forall k h n st vi ns st' vi',
  subtree_impl k h n st vi = Ok (ns, (st', vi')) -> NoDup st -> NoDup st'.
Proof.
  induction k as [|k IH]; intros h n st vi ns st' vi' E; [discriminate|].
  rewrite subtree_impl_S in E.
  remember (pars h n) as ps eqn:Eps. clear Eps.
  remember [n] as nodes eqn:En. clear En.
  revert nodes st vi E. induction ps as [|p t IHt]; intros nodes st vi E ND.
  - simpl in E. inversion E; subst. exact ND.
  - simpl in E. destruct (memb p vi) eqn:Mv; [eapply IHt; eauto|].
    destruct (memb p st) eqn:Ms; [rewrite fold_hstep_raise in E; discriminate|].
    destruct (subtree_impl k h p (p :: st) vi) as [[sub [st2 vi2]]|e] eqn:Ep;
      [|rewrite fold_hstep_raise in E; discriminate].
    eapply IHt; [exact E|]. eapply IH; [exact Ep|]. constructor; [apply memb_false; exact Ms|exact ND].
Qed.

Lemma reach_valid : forall h a b, heap_ok h -> a < length h -> reach h a b -> b < length h.
Proof.
  intros h a b H Ha R. unfold reach in R. induction R as [a|a p b Hp Hr IHr]; [exact Ha|].
  apply IHr. eapply H; eauto.
Qed.

(* no ValueError (and enough fuel) when no cycle is reachable from n *)
Lemma subtree_impl_ok : forall k h, heap_ok h -> forall n st vi,
  NoDup st -> (forall x, In x st -> x < length h) -> In n st ->
  (forall s, In s st -> ~ In s vi -> reach h s n) ->
  acyclic_from h n -> length h < k + length st ->
  exists r, subtree_impl k h n st vi = Ok r.
Proof.
  intros k h HK. induction k as [|k IH]; intros n st vi ND V Hn SI AC FU.
  - exfalso. assert (incl st (seq 0 (length h))).
    { intros x Hx. apply in_seq. specialize (V x Hx). lia. }
    pose proof (NoDup_incl_length ND H) as L. rewrite seq_length in L. lia.
  - rewrite subtree_impl_S.
    assert (FU' : length h < S k + length st) by exact FU. clear FU.
    assert (G : forall ps, (forall p, In p ps -> In p (pars h n)) -> forall (nodes : list ref) st vi,
      NoDup st -> (forall x, In x st -> x < length h) -> In n st ->
      (forall s, In s st -> ~ In s vi -> reach h s n) -> length h < S k + length st ->
      exists r, fold_left (hstep k h) ps (Ok (nodes, (st, vi))) = Ok r);
      [|apply G; auto].
    clear st vi ND V Hn SI FU'.
    induction ps as [|p t IHt]; intros Hps nodes st vi ND V Hn SI FU.
    + simpl. eexists; reflexivity.
    + simpl. destruct (memb p vi) eqn:Mv.
      * apply IHt; auto. intros q Hq. apply Hps. right. exact Hq.
      * apply memb_false in Mv.
        assert (Ep : In p (pars h n)) by (apply Hps; left; reflexivity).
        destruct (memb p st) eqn:Ms.
        { exfalso. apply memb_In in Ms. apply (AC n (reach_refl _ n)). exists p. split; [exact Ep|].
          apply SI; assumption. }
        apply memb_false in Ms.
        assert (Vp : p < length h) by (eapply HK; [apply V; exact Hn|exact Ep]).
        destruct (IH p (p :: st) vi) as [[sub [st2 vi2]] Es].
        { constructor; assumption. }
        { intros x [<-|Hx]; auto. }
        { left; reflexivity. }
        { intros s [<-|Hs] Hv; [constructor|].
          eapply reachP_trans; [apply SI; eauto|]. econstructor; [exact Ep|constructor]. }
        { intros x Hx. apply AC. econstructor; [exact Ep|exact Hx]. }
        { simpl. lia. }
        rewrite Es.
        pose proof (subtree_impl_spec _ _ _ _ _ _ _ _ Es) as [rp [A1 [B1 [C1 [D1 [F1 [G1 J1]]]]]]].
        assert (ND2 : NoDup st2).
        { eapply subtree_impl_nodup_st; [exact Es|]. constructor; assumption. }
        apply IHt.
        -- intros q Hq. apply Hps. right. exact Hq.
        -- exact ND2.
        -- intros x Hx. apply B1 in Hx. destruct Hx as [[<-|Hx]|Hx]; auto.
           eapply reach_valid; [exact HK|exact Vp|apply J1; exact Hx].
        -- apply B1. left. right. exact Hn.
        -- intros s Hs Hv. apply B1 in Hs. destruct Hs as [[<-|Hs]|Hs].
           ++ exfalso. apply Hv. left. reflexivity.
           ++ apply SI; [exact Hs|]. intros X. apply Hv. right. apply C1. left. exact X.
           ++ exfalso. apply Hv. right. apply C1. right. exact Hs.
        -- assert (incl st st2) by (intros x Hx; apply B1; left; right; exact Hx).
           pose proof (NoDup_incl_length ND H). lia.
Qed.

Lemma hierarchy_ok : forall h n, heap_ok h -> n < length h -> acyclic_from h n ->
  exists l, hierarchy h n = Ok l.
Proof.
  intros h n H Hn AC. unfold hierarchy.
  destruct (subtree_impl_ok (S (length h)) h H n [n] []) as [[l [st vi]] E].
  - constructor; [intros []|constructor].
  - intros x [<-|[]]. exact Hn.
  - left. reflexivity.
  - intros s [<-|[]] _. constructor.
  - exact AC.
  - simpl. lia.
  - exists l.
    match goal with |- match ?x with _ => _ end = _ => replace x with (@Ok hstate (l, (st, vi))) by (symmetry; exact E) end.
    reflexivity.
Qed.

(* ordered_subnodes_hierarchy lists exactly the ancestors-or-self of n, without repetition *)
Lemma hierarchy_spec : forall h n l, hierarchy h n = Ok l ->
  NoDup l /\ In n l /\ (forall m p, In m l -> In p (pars h m) -> In p l) /\
  (forall m, In m l <-> reach h n m).
Proof.
  unfold hierarchy. intros h n l E.
  destruct (subtree_impl (S (length h)) h n [n] []) as [[ns [st vi]]|e] eqn:Es; [|discriminate].
  inversion E; subst ns. clear E.
  destruct (subtree_impl_spec _ _ _ _ _ _ _ _ Es) as [rest [A [B [C [D [F [G J]]]]]]].
  subst l.
  assert (CL : forall m p, In m (n :: rest) -> In p (pars h m) -> In p (n :: rest)).
  { intros m p Hm Hp. right. specialize (G m Hm p Hp). apply C in G. destruct G as [[]|G]. exact G. }
  split; [|split; [|split]].
  - constructor; [|exact D]. intros X. apply (F n X). left. reflexivity.
  - left. reflexivity.
  - exact CL.
  - intros m. split.
    + intros [<-|X]; [constructor|apply J; exact X].
    + intros R. apply (reachP_closed (pars h) (fun x => In x (n :: rest)) n m R); [left; reflexivity|].
      intros x p Hx Hp. eapply CL; eauto.
Qed.

(* a successful walk and the closure list the same set *)
Lemma hierarchy_closure_same : forall h n l R, hierarchy h n = Ok l -> closure h n = Ok R ->
  forall m, In m l <-> In m R.
Proof.
  intros h n l R E1 E2 m. apply hierarchy_spec in E1. apply closure_spec in E2.
  destruct E1 as [_ [_ [_ S1]]]. destruct E2 as [_ [_ [_ S2]]]. rewrite S1, S2. tauto.
Qed.

(* ------------------------------------------------------------------ a successful walk means: no cycle *)
(* the visited list is in reverse finishing order: every node's parents finished before it *)
Fixpoint topo (h : heap) (l : list ref) : Prop :=
  match l with
  | [] => True
  | m :: t => incl (pars h m) t /\ topo h t
  end.

Lemma topo_closed : forall h l, topo h l -> forall x y, In x l -> reach h x y -> In y l.
Proof.
  induction l as [|m t IH]; simpl; intros T x y Hx R; [contradiction|]. destruct T as [A B].
  unfold reach in R. induction R as [a|a p b Hp Hr IHr]; [exact Hx|].
  apply IHr. destruct Hx as [<-|Hx].
  - right. apply A. exact Hp.
  - right. apply (IH B a p Hx). econstructor; [exact Hp|constructor].
Qed.

Lemma topo_acyclic : forall h l, NoDup l -> topo h l -> forall x, In x l -> ~ on_cycle h x.
Proof.
  induction l as [|m t IH]; simpl; intros ND T x Hx; [contradiction|]. destruct T as [A B].
  inversion ND as [|? ? Hm NDt]; subst.
  destruct Hx as [<-|Hx].
  - intros [p [Hp Hr]]. apply Hm. apply (topo_closed h t B p m); [apply A; exact Hp|exact Hr].
  - apply IH; assumption.
Qed.

Lemma subtree_impl_topo : forall k h n st vi ns st' vi',
  subtree_impl k h n st vi = Ok (ns, (st', vi')) -> NoDup vi -> topo h vi -> NoDup vi' /\ topo h vi'.
Proof.
  induction k as [|k IH]; intros h n st vi ns st' vi' E; [discriminate|].
  rewrite subtree_impl_S in E.
  remember (pars h n) as ps eqn:Eps. clear Eps.
  remember [n] as nodes eqn:En. clear En.
  revert nodes st vi E. induction ps as [|p t IHt]; intros nodes st vi E ND T.
  - simpl in E. inversion E; subst. auto.
  - simpl in E. destruct (memb p vi) eqn:Mv; [eapply IHt; eauto|].
    destruct (memb p st) eqn:Ms; [rewrite fold_hstep_raise in E; discriminate|].
    destruct (subtree_impl k h p (p :: st) vi) as [[sub [st2 vi2]]|e] eqn:Ep;
      [|rewrite fold_hstep_raise in E; discriminate].
    destruct (IH _ _ _ _ _ _ _ Ep ND T) as [ND2 T2].
    destruct (subtree_impl_spec _ _ _ _ _ _ _ _ Ep) as [rp [A1 [B1 [C1 [D1 [F1 [G1 J1]]]]]]].
    eapply IHt; [exact E| |].
    + constructor; [|exact ND2]. intros X. apply C1 in X. apply memb_false in Mv.
      destruct X as [X|X]; [tauto|]. apply (F1 p X). left. reflexivity.
    + simpl. split; [|exact T2]. apply G1. subst sub. left. reflexivity.
Qed.

Lemma hierarchy_acyclic : forall h n l, hierarchy h n = Ok l -> acyclic_from h n.
Proof.
  unfold hierarchy. intros h n l E.
  destruct (subtree_impl (S (length h)) h n [n] []) as [[ns [st vi]]|e] eqn:Es; [|discriminate].
  destruct (subtree_impl_topo _ _ _ _ _ _ _ _ Es (NoDup_nil _) I) as [ND T].
  destruct (subtree_impl_spec _ _ _ _ _ _ _ _ Es) as [rest [A [B [C [D [F [G J]]]]]]].
  assert (Hn : ~ In n vi).
  { intros X. apply C in X. destruct X as [[]|X]. apply (F n X). left. reflexivity. }
  assert (Hp : incl (pars h n) vi) by (apply G; subst ns; left; reflexivity).
  intros x R. assert (R' : x = n \/ exists p, In p (pars h n) /\ reach h p x).
  { unfold reach in *. inversion R; subst; [left; reflexivity|right; eauto]. }
  destruct R' as [->|[p [Hpa Hr]]].
  - intros [p [Hpp Hr]]. apply Hn. apply (topo_closed h vi T p n); [apply Hp; exact Hpp|exact Hr].
  - apply (topo_acyclic h vi ND T). apply (topo_closed h vi T p x); [apply Hp; exact Hpa|exact Hr].
Qed.

(* the walk succeeds exactly on the nodes from which no cycle is reachable *)
Theorem hierarchy_ok_iff : forall h n, heap_ok h -> n < length h ->
  (is_ok (hierarchy h n) = true <-> acyclic_from h n).
Proof.
  intros h n H Hn. split.
  - destruct (hierarchy h n) as [l|e] eqn:E; [intros _; eapply hierarchy_acyclic; eauto|discriminate].
  - intros AC. destruct (hierarchy_ok h n H Hn AC) as [l E]. rewrite E. reflexivity.
Qed.
