(* Every node owns its parent container: the heap model has no sharing between the parent lists
   of two objects.  A node constructed from (or assigned) another node's parent list gets a copy,
   and connecting / disconnecting / re-pointing one node never changes another object
   (property C04, modelling fact made explicit). *)
From Coq Require Import List Arith Bool Lia.
From GolemV Require Import Graph.Heap Graph.Ops Graph.OpsSpec Graph.OpsBase.
Import ListNotations.

Lemma connect_frame : forall h g p c h' g', connect_nodes h g p c = Ok (h', g') ->
  forall r, r <> c -> get h' r = get h r.
Proof.
  intros h g p c h' g' E r N. unfold connect_nodes in E.
  destruct (memb c (node_children h g p)); inversion E; subst; [reflexivity|].
  unfold set_pars. apply get_upd_neq. congruence.
Qed.

Lemma disconnect_frame : forall h g p c cl h' g', disconnect_nodes h g p c cl = Ok (h', g') ->
  forall r, r <> c -> get h' r = get h r.
Proof.
  intros h g p c cl h' g' E r N. unfold disconnect_nodes in E.
  destruct (negb (memb p (pars h c))); [inversion E; reflexivity|].
  destruct (negb (memb p g) || negb (memb c g)); [inversion E; reflexivity|].
  destruct (list_remove p (pars h c)) as [ps|e]; [|discriminate]. cbn [bind] in E.
  assert (X : get (set_pars h c ps) r = get h r) by (unfold set_pars; apply get_upd_neq; congruence).
  destruct cl.
  - destruct (clean_up _ _ g p); [|discriminate]. cbn [bind] in E. inversion E; subst. exact X.
  - inversion E; subst. exact X.
Qed.

(* OptNode(.., nodes_from=a.nodes_from) / b.nodes_from = a.nodes_from: the new object b = length h
   holds a copy of a's parent list; editing a's edges afterwards leaves b's parents as they were *)
Theorem containers_not_shared : forall h g a u l p cl h' g',
  a < length h ->
  (connect_nodes (h ++ [mkNode u l (pars h a) true]) g p a = Ok (h', g') \/
   disconnect_nodes (h ++ [mkNode u l (pars h a) true]) g p a cl = Ok (h', g')) ->
  pars h' (length h) = pars h a.
Proof.
  intros h g a u l p cl h' g' Va E.
  assert (N : length h <> a) by lia.
  assert (X : get h' (length h) = get (h ++ [mkNode u l (pars h a) true]) (length h)).
  { destruct E as [E|E]; [eapply connect_frame; eauto|eapply disconnect_frame; eauto]. }
  unfold pars at 1. rewrite X. replace (length h) with (length h + 0) at 1 by lia.
  rewrite get_app_r. reflexivity.
Qed.
