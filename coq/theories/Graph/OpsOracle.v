(* The executable property oracle holds_b is consistent with the theorems: evaluated on the
   model's own result it is true for every operation whose refinement is proved, and its
   well-formedness / acyclicity clauses are true for every operation (property C04). *)
From Coq Require Import List Arith Bool.
From GolemV Require Import Graph.Heap Graph.Ops Graph.OpsSpec Graph.OpsBase Graph.OpsProofs Graph.OpsProofs2
  Graph.OpsAcyclic Graph.OpsRefine.
Import ListNotations.

Lemma model_wf_acyclic : forall s o s', in_domain s o = true -> run_op s o = Ok s' ->
  holds_wf (fst s') (snd s') = true /\ holds_acyclic s o (fst s') (snd s') = true.
Proof.
  intros s o s' D E. unfold in_domain in D. apply andb_true_iff in D. destruct D as [D1 D2].
  apply wf_b_iff in D1.
  destruct (op_preserves_WF s o D1 D2) as [s1 [E1 W1]]. rewrite E in E1. inversion E1; subst s1.
  split.
  - unfold holds_wf. apply wf_b_iff. exact W1.
  - unfold holds_acyclic. destruct (acyclic_b (fst s) (snd s) && acyc_guard_b s o) eqn:X; [|reflexivity].
    apply andb_true_iff in X. destruct X as [X1 X2]. apply (acyclic_b_iff _ _ W1).
    apply (op_preserves_acyclic s o s' D1 D2 X2); [|exact E]. apply (acyclic_b_iff _ _ D1). exact X1.
Qed.

Theorem model_holds : forall s o s', refined_op o = true -> run_op s o = Ok s' ->
  holds_b s o (OOk (fst s') (snd s')) = true.
Proof.
  intros s o s' R E. unfold holds_b. destruct (in_domain s o) eqn:D; [|reflexivity].
  destruct (model_wf_acyclic s o s' D E) as [A B]. rewrite A, B. simpl. rewrite andb_true_r.
  unfold holds_spec. apply orb_true_iff. right.
  unfold in_domain in D. apply andb_true_iff in D. destruct D as [D1 D2]. apply wf_b_iff in D1.
  apply (op_refines_spec s o s' D1 D2 R E).
Qed.

(* inside the domain the model never raises, so an observed exception that agrees with the model
   cannot occur there *)
Theorem model_never_raises_in_domain : forall s o e, in_domain s o = true -> run_op s o <> Raise e.
Proof.
  intros s o e D. unfold in_domain in D. apply andb_true_iff in D. destruct D as [D1 D2].
  apply wf_b_iff in D1. destruct (op_preserves_WF s o D1 D2) as [s1 [E1 _]]. rewrite E1. discriminate.
Qed.
