(* Well-formedness is preserved by every editing operation inside its domain, and the operation
   does not raise there (property C04, part 1).  update_subtree is in OpsProofs2.v. *)
From Coq Require Import List Arith Bool Lia.
From GolemV Require Import Graph.Heap Graph.Ops Graph.OpsSpec Graph.OpsBase Graph.OpsDfs.
Import ListNotations.

(* ------------------------------------------------------------------ reflection of wf_b *)
Lemma uid_inj_b_iff : forall h g, uid_inj_b h g = true <-> uid_inj h g.
Proof.
  unfold uid_inj_b, uid_inj. intros h g. rewrite forallb_forall. split.
  - intros H a b Ha Hb E. specialize (H a Ha). rewrite forallb_forall in H. specialize (H b Hb).
    apply orb_true_iff in H. destruct H as [H|H].
    + apply negb_true_iff in H. apply Nat.eqb_neq in H. congruence.
    + apply Nat.eqb_eq. exact H.
  - intros H a Ha. apply forallb_forall. intros b Hb. apply orb_true_iff.
    destruct (Nat.eqb_spec (uid (get h a)) (uid (get h b))) as [E|N]; [right|left; reflexivity].
    apply Nat.eqb_eq. apply H; assumption.
Qed.

Lemma closed_b_iff : forall h g, closed_b h g = true <-> (forall r p, In r g -> In p (pars h r) -> In p g).
Proof.
  unfold closed_b. intros h g. rewrite forallb_forall. split.
  - intros H r p Hr Hp. specialize (H r Hr). rewrite forallb_forall in H. apply memb_In. apply H. exact Hp.
  - intros H r Hr. apply forallb_forall. intros p Hp. apply memb_In. eapply H; eauto.
Qed.

Theorem wf_b_iff : forall h g, wf_b h g = true <-> WF h g.
Proof.
  intros h g. unfold wf_b. fold (closed_b h g). repeat rewrite andb_true_iff.
  rewrite heap_ok_b_iff, nodup_b_iff, uid_inj_b_iff, closed_b_iff. repeat rewrite forallb_forall.
  split.
  - intros [[[[[[A B] C] D] E] F] G]. constructor; auto.
    + intros r Hr. apply Nat.ltb_lt. apply C. exact Hr.
    + intros r Hr. apply nodup_b_iff. apply E. exact Hr.
  - intros [A B C D E F G]. repeat split; auto.
    + intros r Hr. apply Nat.ltb_lt. apply C. exact Hr.
    + intros r Hr. apply nodup_b_iff. apply E. exact Hr.
Qed.

(* ------------------------------------------------------------------ generic WF builders *)
Lemma get_set_pars : forall h c ps r, c < length h ->
  get (set_pars h c ps) r = if c =? r then with_parents (get h c) ps else get h r.
Proof.
  intros. unfold set_pars. rewrite get_upd. destruct (Nat.eqb_spec c r) as [->|N]; simpl; auto.
  destruct (Nat.ltb_spec r (length h)); [reflexivity|lia].
Qed.

Lemma WF_par_valid : forall h g r p, WF h g -> In r g -> In p (pars h r) -> p < length h.
Proof. intros h g r p W Hr Hp. apply (wf_valid _ _ W). eapply wf_closed; eauto. Qed.

(* the parent lists change, everything else (uids, container kinds, size) stays; the member
   list shrinks *)
Lemma WF_repars : forall h g h' g', WF h g -> heap_ok h' -> length h' = length h ->
  (forall r, uid (get h' r) = uid (get h r)) ->
  (forall r, In r g' -> uniq (get h' r) = true) ->
  NoDup g' -> incl g' g ->
  (forall r, In r g' -> NoDup (pars h' r)) ->
  (forall r p, In r g' -> In p (pars h' r) -> In p g') ->
  WF h' g'.
Proof.
  intros h g h' g' W HK L U Q ND I PN CL. constructor; auto.
  - intros r Hr. rewrite L. apply (wf_valid _ _ W). apply I. exact Hr.
  - intros a b Ha Hb E. rewrite !U in E. apply (wf_uid _ _ W); auto.
Qed.

Lemma WF_set_pars : forall h g c ps, WF h g -> In c g -> NoDup ps -> (forall p, In p ps -> In p g) ->
  WF (set_pars h c ps) g.
Proof.
  intros h g c ps W Hc ND I.
  assert (Vc : c < length h) by (apply (wf_valid _ _ W); exact Hc).
  apply WF_repars with (h := h) (g := g); auto.
  - apply heap_ok_change with (h := h); [apply (wf_heap _ _ W)|apply length_set_pars|].
    intros r p Hr Hp. rewrite pars_set_pars in Hp by exact Vc.
    destruct (c =? r); [right; apply (wf_valid _ _ W); apply I; exact Hp|left; exact Hp].
  - apply length_set_pars.
  - intros r. rewrite get_set_pars by exact Vc. destruct (Nat.eqb_spec c r) as [->|N]; reflexivity.
  - intros r Hr. rewrite get_set_pars by exact Vc. destruct (Nat.eqb_spec c r) as [->|N]; simpl;
      apply (wf_uniq _ _ W); assumption.
  - apply (wf_nodup _ _ W).
  - apply incl_refl.
  - intros r Hr. rewrite pars_set_pars by exact Vc. destruct (c =? r); [exact ND|apply (wf_pnodup _ _ W); exact Hr].
  - intros r p Hr Hp. rewrite pars_set_pars in Hp by exact Vc.
    destruct (c =? r); [apply I; exact Hp|eapply (wf_closed _ _ W); eauto].
Qed.

(* ------------------------------------------------------------------ connect_nodes *)
Theorem connect_WF : forall h g p c, WF h g -> In p g -> In c g ->
  exists h', connect_nodes h g p c = Ok (h', g) /\ WF h' g.
Proof.
  intros h g p c W Hp Hc. unfold connect_nodes.
  destruct (memb c (node_children h g p)) eqn:M.
  - exists h. auto.
  - eexists. split; [reflexivity|].
    apply memb_false in M. rewrite node_children_In in M.
    assert (Np : ~ In p (pars h c)) by tauto.
    rewrite (wf_uniq _ _ W c Hc). apply WF_set_pars; auto.
    + apply pl_append_nodup. apply (wf_pnodup _ _ W). exact Hc.
    + intros q Hq. apply pl_append_In in Hq. destruct Hq as [Hq| ->]; [eapply (wf_closed _ _ W); eauto|exact Hp].
Qed.

(* ------------------------------------------------------------------ disconnect_nodes *)
Lemma WF_remove_childless : forall h g n g1, WF h g -> In n g -> node_children h g n = [] ->
  list_remove n g = Ok g1 -> WF h g1.
Proof.
  intros h g n g1 W Hn Hc E.
  destruct (list_remove_nodup _ _ _ E (wf_nodup _ _ W)) as [ND Nn].
  apply WF_repars with (h := h) (g := g); auto.
  - apply (wf_heap _ _ W).
  - intros r Hr. apply (wf_uniq _ _ W). eapply list_remove_incl; eauto.
  - intros r Hr. eapply list_remove_incl; eauto.
  - intros r Hr. apply (wf_pnodup _ _ W). eapply list_remove_incl; eauto.
  - intros r p Hr Hp. assert (Hrg : In r g) by (eapply list_remove_incl; eauto).
    eapply list_remove_other; [exact E|eapply (wf_closed _ _ W); eauto|].
    intros ->. assert (X : In r (node_children h g n)) by (apply node_children_In; auto).
    rewrite Hc in X. exact X.
Qed.

Lemma clean_up_WF : forall fuel h g n, WF h g -> length g < fuel ->
  exists g', clean_up fuel h g n = Ok g' /\ WF h g' /\ incl g' g.
Proof.
  induction fuel as [|k IH]; intros h g n W L; [lia|]. simpl.
  destruct (memb n g && null (node_children h g n)) eqn:C.
  - apply andb_true_iff in C. destruct C as [C1 C2]. apply memb_In in C1.
    assert (C3 : node_children h g n = []) by (destruct (node_children h g n); [reflexivity|discriminate]).
    destruct (list_remove_ok n g C1) as [g1 E]. rewrite E. simpl.
    pose proof (WF_remove_childless _ _ _ _ W C1 C3 E) as W1.
    pose proof (list_remove_length _ _ _ E) as L1.
    assert (I1 : incl g1 g) by (intros x Hx; eapply list_remove_incl; eauto).
    assert (L2 : length g1 < k) by (unfold graph, ref in *; lia).
    clear E C1 C2 C3 L1 L.
    remember (pars h n) as ps eqn:Eps. clear Eps.
    revert g1 W1 I1 L2. induction ps as [|q t IHt]; simpl; intros g1 W1 I1 L2.
    + exists g1. auto.
    + destruct (IH h g1 q W1 L2) as [g2 [E2 [W2 I2]]]. rewrite E2.
      apply IHt; auto.
      * eapply incl_tran; eauto.
      * pose proof (NoDup_incl_length (wf_nodup _ _ W2) I2). unfold graph, ref in *; lia.
  - exists g. split; [reflexivity|]. split; [exact W|apply incl_refl].
Qed.

Theorem disconnect_WF : forall h g p c cl, WF h g -> In p g -> In c g ->
  exists s', disconnect_nodes h g p c cl = Ok s' /\ WF (fst s') (snd s').
Proof.
  intros h g p c cl W Hp Hc. unfold disconnect_nodes.
  destruct (memb p (pars h c)) eqn:M; cbn [negb]; [|exists (h, g); auto].
  apply memb_In in Hp. apply memb_In in Hc. rewrite Hp, Hc. cbn [negb orb].
  apply memb_In in Hp. apply memb_In in Hc. apply memb_In in M.
  destruct (list_remove_ok p _ M) as [ps E]. rewrite E. cbn [bind].
  assert (W1 : WF (set_pars h c ps) g).
  { apply WF_set_pars; auto.
    - apply (list_remove_nodup _ _ _ E). apply (wf_pnodup _ _ W). exact Hc.
    - intros q Hq. eapply (wf_closed _ _ W); [exact Hc|]. eapply list_remove_incl; eauto. }
  destruct cl.
  - match goal with |- context [clean_up ?f ?hh ?gg ?pp] =>
      destruct (clean_up_WF f hh gg pp W1) as [g' [E' [W' _]]]; [unfold graph, ref in *; lia|] end.
    rewrite E'. simpl. eexists. split; [reflexivity|exact W'].
  - eexists. split; [reflexivity|exact W1].
Qed.

(* ------------------------------------------------------------------ loops that extend parent lists *)
Lemma loop_extend_WF : forall h g ps l, WF h g -> NoDup l -> (forall c, In c l -> c < length h) ->
  (forall p, In p ps -> In p g) ->
  exists h', loop_nodes (extend_by ps) l h = Ok h' /\ WF h' g.
Proof.
  intros h g ps l W ND V I.
  destruct (loop_nodes_ok (extend_by ps) (fun nd => pl_extend (uniq nd) (parents nd) ps) l h ND V) as [h' [E [L G]]];
    [reflexivity|].
  exists h'. split; [exact E|].
  assert (P : forall r, pars h' r = if memb r l then pl_extend (uniq (get h r)) (pars h r) ps else pars h r).
  { intros r. unfold pars. rewrite G. destruct (memb r l); reflexivity. }
  apply WF_repars with (h := h) (g := g); auto.
  - apply heap_ok_change with (h := h); [apply (wf_heap _ _ W)|exact L|].
    intros r p Hr Hp. rewrite P in Hp. destruct (memb r l); [|auto].
    apply pl_extend_In in Hp. destruct Hp as [Hp|Hp]; [auto|right]. apply (wf_valid _ _ W). auto.
  - intros r. rewrite G. destruct (memb r l); reflexivity.
  - intros r Hr. rewrite G. destruct (memb r l); simpl; apply (wf_uniq _ _ W); exact Hr.
  - apply (wf_nodup _ _ W).
  - apply incl_refl.
  - intros r Hr. rewrite P. destruct (memb r l); [|apply (wf_pnodup _ _ W); exact Hr].
    rewrite (wf_uniq _ _ W r Hr). apply pl_extend_nodup. apply (wf_pnodup _ _ W). exact Hr.
  - intros r p Hr Hp. rewrite P in Hp. destruct (memb r l); [|eapply (wf_closed _ _ W); eauto].
    apply pl_extend_In in Hp. destruct Hp as [Hp|Hp]; [eapply (wf_closed _ _ W); eauto|auto].
Qed.

(* ------------------------------------------------------------------ delete_node *)
Lemma remove1_In : forall x l y, In y (remove1 x l) -> In y l.
Proof.
  induction l as [|z t IH]; simpl; intros y H; [contradiction|].
  destruct (x =? z); [auto|]. destruct H; [auto|right; apply IH; assumption].
Qed.

Lemma remove1_nodup : forall x l, NoDup l -> NoDup (remove1 x l) /\ ~ In x (remove1 x l).
Proof.
  induction l as [|z t IH]; simpl; intros ND; [split; [constructor|tauto]|].
  inversion ND as [|? ? Hz NDt]; subst. destruct (Nat.eqb_spec x z) as [->|N]; [split; assumption|].
  destruct (IH NDt) as [A B]. split.
  - constructor; [|exact A]. intros C. apply Hz. eapply remove1_In; eauto.
  - intros [C|C]; [congruence|tauto].
Qed.

Lemma remove1_other : forall x l y, In y l -> y <> x -> In y (remove1 x l).
Proof.
  induction l as [|z t IH]; simpl; intros y H N; [contradiction|].
  destruct (Nat.eqb_spec x z) as [->|Nz]; [destruct H; [congruence|assumption]|].
  destruct H; [left; assumption|right; apply IH; assumption].
Qed.

(* state after `self._nodes.remove(node)` and the loop that unlinks node from its children:
   well-formed, and the removed node's own parents are all remaining members *)
Lemma delete_unlink : forall h g n, WF h g -> In n g ->
  exists g1 h1, list_remove n g = Ok g1 /\
    loop_nodes (fun nd => list_remove n (parents nd)) (node_children h g n) h = Ok h1 /\
    WF h1 g1 /\ length h1 = length h /\ (forall p, In p (pars h1 n) -> In p g1) /\
    (forall r, In r g1 -> In r g).
Proof.
  intros h g n W Hn.
  destruct (list_remove_ok n g Hn) as [g1 E1]. exists g1.
  set (ch := node_children h g n).
  assert (NDc : NoDup ch) by (apply node_children_nodup; apply (wf_nodup _ _ W)).
  assert (Vc : forall c, In c ch -> c < length h).
  { intros c Hc. apply node_children_In in Hc. apply (wf_valid _ _ W). tauto. }
  destruct (loop_nodes_ok (fun nd => list_remove n (parents nd)) (fun nd => remove1 n (parents nd)) ch h NDc Vc)
    as [h1 [E2 [L G]]].
  { intros c Hc. apply node_children_In in Hc. apply list_remove_remove1. tauto. }
  exists h1. split; [exact E1|]. split; [exact E2|].
  destruct (list_remove_nodup _ _ _ E1 (wf_nodup _ _ W)) as [ND1 Nn].
  assert (I1 : forall r, In r g1 -> In r g) by (intros r Hr; eapply list_remove_incl; eauto).
  assert (P : forall r, pars h1 r = if memb r ch then remove1 n (pars h r) else pars h r).
  { intros r. unfold pars. rewrite G. destruct (memb r ch); reflexivity. }
  (* parents of any old member, after the loop: old parents other than n *)
  assert (Q : forall r p, In r g -> In p (pars h1 r) -> In p (pars h r) /\ p <> n).
  { intros r p Hr Hp. rewrite P in Hp. destruct (memb r ch) eqn:M.
    - split; [eapply remove1_In; eauto|]. intros ->.
      apply (remove1_nodup n (pars h r)); [apply (wf_pnodup _ _ W); exact Hr|exact Hp].
    - split; [exact Hp|]. intros ->. apply memb_false in M. apply M. apply node_children_In. auto. }
  assert (CL : forall r p, In r g -> In p (pars h1 r) -> In p g1).
  { intros r p Hr Hp. destruct (Q r p Hr Hp) as [A B].
    eapply list_remove_other; [exact E1|eapply (wf_closed _ _ W); eauto|exact B]. }
  split; [|split; [exact L|split; [|exact I1]]].
  - apply WF_repars with (h := h) (g := g); auto.
    + apply heap_ok_change with (h := h); [apply (wf_heap _ _ W)|exact L|].
      intros r p Hr Hp. left. rewrite P in Hp. destruct (memb r ch); [eapply remove1_In; eauto|exact Hp].
    + intros r. rewrite G. destruct (memb r ch); reflexivity.
    + intros r Hr. rewrite G. destruct (memb r ch); simpl; apply (wf_uniq _ _ W); auto.
    + intros r Hr. rewrite P. destruct (memb r ch).
      * apply remove1_nodup. apply (wf_pnodup _ _ W). auto.
      * apply (wf_pnodup _ _ W). auto.
    + intros r p Hr Hp. eapply CL; [apply I1; exact Hr|exact Hp].
  - intros p Hp. eapply CL; eauto.
Qed.

Theorem delete_node_WF : forall h g n m, WF h g -> In n g ->
  exists s', delete_node h g n m = Ok s' /\ WF (fst s') (snd s').
Proof.
  intros h g n m W Hn. unfold delete_node.
  destruct (delete_unlink h g n W Hn) as [g1 [h1 [E1 [E2 [W1 [L [PN I1]]]]]]].
  rewrite E1. cbn [bind]. rewrite E2. cbn [bind].
  assert (Vc : forall c, In c (node_children h g n) -> c < length h1).
  { intros c Hc. rewrite L. apply node_children_In in Hc. apply (wf_valid _ _ W). tauto. }
  assert (NDc : NoDup (node_children h g n)) by (apply node_children_nodup; apply (wf_nodup _ _ W)).
  destruct m.
  - eexists. split; [reflexivity|exact W1].
  - destruct (pars h1 n) as [|q qs] eqn:Eq; [eexists; split; [reflexivity|exact W1]|].
    destruct (node_children h g n) as [|c [|c2 cs]] eqn:Ec; try (eexists; split; [reflexivity|exact W1]).
    destruct (loop_extend_WF h1 g1 (q :: qs) [c] W1) as [h2 [E3 W2]].
    + constructor; [intros []|constructor].
    + intros x [<-|[]]. apply Vc. left. reflexivity.
    + exact PN.
    + rewrite E3. cbn [bind]. eexists. split; [reflexivity|exact W2].
  - destruct (pars h1 n) as [|q qs] eqn:Eq; [eexists; split; [reflexivity|exact W1]|].
    destruct (loop_extend_WF h1 g1 (q :: qs) (node_children h g n) W1 NDc Vc PN) as [h2 [E3 W2]].
    rewrite E3. cbn [bind]. eexists. split; [reflexivity|exact W2].
Qed.

(* ------------------------------------------------------------------ delete_subtree *)
Lemma fold_prune_spec : forall sub l h, NoDup l -> (forall c, In c l -> c < length h) ->
  length (fold_left (prune sub) l h) = length h /\
  forall r, get (fold_left (prune sub) l h) r =
    if memb r l then mkNode (uid (get h r)) (label (get h r)) (dedupe (remove_items (pars h r) sub)) true
    else get h r.
Proof.
  induction l as [|c t IH]; simpl; intros h ND V.
  - auto.
  - inversion ND as [|? ? Hc NDt]; subst.
    assert (Vc : c < length h) by (apply V; left; reflexivity).
    assert (L : length (prune sub h c) = length h) by (unfold prune, set_pars_uniq; apply length_upd).
    destruct (IH (prune sub h c) NDt) as [A B].
    { intros x Hx. rewrite L. apply V. right. exact Hx. }
    split; [congruence|]. intros r. rewrite B. unfold prune, set_pars_uniq, pars.
    destruct (Nat.eqb_spec r c) as [->|N]; simpl.
    + apply memb_false in Hc. rewrite Hc. rewrite get_upd_eq by exact Vc. reflexivity.
    + rewrite !get_upd_neq by congruence. reflexivity.
Qed.

(* removing a parent-closed set of members *)
Lemma prune_WF : forall h g sub, WF h g ->
  WF (fold_left (prune sub) (remove_items g sub) h) (remove_items g sub).
Proof.
  intros h g sub W. set (g1 := remove_items g sub).
  assert (ND1 : NoDup g1) by (apply remove_items_nodup; apply (wf_nodup _ _ W)).
  assert (I1 : forall r, In r g1 -> In r g) by (intros r Hr; apply remove_items_In in Hr; tauto).
  destruct (fold_prune_spec sub g1 h ND1) as [L G].
  { intros c Hc. apply (wf_valid _ _ W). auto. }
  set (h1 := fold_left (prune sub) g1 h) in *.
  assert (P : forall r, pars h1 r = if memb r g1 then dedupe (remove_items (pars h r) sub) else pars h r).
  { intros r. unfold pars. rewrite G. destruct (memb r g1); reflexivity. }
  apply WF_repars with (h := h) (g := g); auto.
  - apply heap_ok_change with (h := h); [apply (wf_heap _ _ W)|exact L|].
    intros r p Hr Hp. left. rewrite P in Hp. destruct (memb r g1); [|exact Hp].
    rewrite dedupe_In, remove_items_In in Hp. tauto.
  - intros r. rewrite G. destruct (memb r g1); reflexivity.
  - intros r Hr. rewrite G. apply memb_In in Hr. rewrite Hr. reflexivity.
  - intros r Hr. rewrite P. apply memb_In in Hr. rewrite Hr. apply dedupe_nodup.
  - intros r p Hr Hp. rewrite P in Hp. pose proof Hr as Hr'. apply memb_In in Hr'. rewrite Hr' in Hp.
    rewrite dedupe_In, remove_items_In in Hp. destruct Hp as [A B].
    apply remove_items_In. split; [|exact B]. eapply (wf_closed _ _ W); eauto.
Qed.

Theorem delete_subtree_WF : forall h g n, WF h g -> In n g -> is_ok (hierarchy h n) = true ->
  exists s', delete_subtree h g n = Ok s' /\ WF (fst s') (snd s').
Proof.
  intros h g n W Hn K. unfold delete_subtree.
  destruct (hierarchy h n) as [sub|e]; [|discriminate]. simpl.
  eexists. split; [reflexivity|]. simpl. apply prune_WF. exact W.
Qed.

(* ------------------------------------------------------------------ add_node *)
Lemma ins_ok_spec : forall h g R, ins_ok h g R = true ->
  (forall r, In r R -> uniq (get h r) = true /\ NoDup (pars h r)) /\ uid_inj h (g ++ R).
Proof.
  unfold ins_ok. intros h g R H. apply andb_true_iff in H. destruct H as [A B]. split.
  - intros r Hr. rewrite forallb_forall in A. specialize (A r Hr). apply andb_true_iff in A.
    destruct A as [A1 A2]. split; [exact A1|apply nodup_b_iff; exact A2].
  - apply uid_inj_b_iff in B. intros a b Ha Hb E. apply B; auto.
    + apply in_app_or in Ha. apply in_or_app. destruct Ha as [Ha|Ha]; [auto|].
      destruct (memb a g) eqn:M; [left; apply memb_In; exact M|right].
      apply filter_In. split; [exact Ha|]. rewrite M. reflexivity.
    + apply in_app_or in Hb. apply in_or_app. destruct Hb as [Hb|Hb]; [auto|].
      destruct (memb b g) eqn:M; [left; apply memb_In; exact M|right].
      apply filter_In. split; [exact Hb|]. rewrite M. reflexivity.
Qed.

(* add_node on a member list that is parent-closed except for references to n itself *)
Lemma add_node_g_WF_gen : forall h g n R,
  heap_ok h -> NoDup g -> (forall r, In r g -> r < length h) -> n < length h ->
  closure h n = Ok R ->
  (forall r p, In r g -> In p (pars h r) -> In p g \/ p = n) ->
  uid_inj h (g ++ R) ->
  (forall r, In r g \/ In r R -> NoDup (pars h r) /\ uniq (get h r) = true) ->
  exists g', add_node_g h g n = Ok g' /\ WF h g' /\ incl g g' /\ In n g' /\
             (forall m, In m g' -> In m g \/ In m R).
Proof.
  intros h g n R HK ND V Hn EC CL UI PW.
  destruct (add_node_g_ok h g n HK ND V Hn) as [g' E]. exists g'. split; [exact E|].
  unfold add_node_g in E.
  pose proof (dfs_add_closed _ _ _ _ _ E) as [I [Hn' C]].
  pose proof (dfs_add_sound _ _ _ _ _ E) as S.
  pose proof (dfs_add_nodup _ _ _ _ _ E ND) as ND'.
  destruct (closure_spec _ _ _ EC) as [_ [_ [_ RS]]].
  assert (M : forall m, In m g' -> In m g \/ In m R).
  { intros m Hm. destruct (S m Hm) as [A|A]; [auto|right; apply RS; exact A]. }
  split; [|split; [exact I|split; [exact Hn'|exact M]]].
  constructor; auto.
  - intros r Hr. destruct (M r Hr) as [A|A]; [auto|eapply closure_valid; eauto].
  - intros a b Ha Hb. apply UI; apply in_or_app; [destruct (M a Ha)|destruct (M b Hb)]; auto.
  - intros r Hr. apply PW. apply M. exact Hr.
  - intros r Hr. apply PW. apply M. exact Hr.
  - intros r p Hr Hp. destruct (C r Hr) as [A|A]; [|apply A; exact Hp].
    destruct (CL r p A Hp) as [B| ->]; [apply I; exact B|exact Hn'].
Qed.

Theorem add_node_WF : forall h g n, WF h g -> guard_b (h, g) (OAdd n) = true ->
  exists s', add_node h g n = Ok s' /\ WF (fst s') (snd s').
Proof.
  intros h g n W G. simpl in G. apply andb_true_iff in G. destruct G as [G1 G2].
  apply Nat.ltb_lt in G1. destruct (closure h n) as [R|e] eqn:EC; [|discriminate].
  destruct (ins_ok_spec _ _ _ G2) as [A B].
  destruct (add_node_g_WF_gen h g n R (wf_heap _ _ W) (wf_nodup _ _ W) (wf_valid _ _ W) G1 EC) as [g' [E [W' _]]].
  - intros r p Hr Hp. left. eapply (wf_closed _ _ W); eauto.
  - exact B.
  - intros r [Hr|Hr]; [split; [apply (wf_pnodup _ _ W)|apply (wf_uniq _ _ W)]; exact Hr|].
    destruct (A r Hr). auto.
  - unfold add_node. rewrite E. simpl. eexists. split; [reflexivity|exact W'].
Qed.

(* ------------------------------------------------------------------ sort_nodes *)
Lemma sort_nodes_WF : forall h g, WF h g -> exists g', sort_nodes h g = Ok g' /\ WF h g'.
Proof.
  intros h g W. unfold sort_nodes.
  destruct (root_nodes h g) as [|r [|r2 rs]] eqn:ER; try (exists g; auto; fail).
  assert (CB : closed_b h g = true) by (apply closed_b_iff; apply (wf_closed _ _ W)).
  rewrite CB. simpl.
  destruct (has_cycle h g) eqn:HC; [exists g; auto|].
  assert (Hr : In r g).
  { assert (X : In r (root_nodes h g)) by (rewrite ER; left; reflexivity).
    unfold root_nodes in X. apply filter_In in X. tauto. }
  unfold has_cycle in HC.
  assert (K : is_ok (hierarchy h r) = true).
  { destruct (is_ok (hierarchy h r)) eqn:X; [reflexivity|].
    assert (Y : existsb (fun r => negb (is_ok (hierarchy h r))) g = true).
    { apply existsb_exists. exists r. split; [exact Hr|]. rewrite X. reflexivity. }
    congruence. }
  destruct (hierarchy h r) as [l|e] eqn:EH; [|discriminate].
  exists l. split; [reflexivity|].
  destruct (hierarchy_spec _ _ _ EH) as [ND [_ [CL RS]]].
  assert (I : incl l g).
  { intros m Hm. apply RS in Hm.
    apply (reachP_closed (pars h) (fun x => In x g) r m Hm Hr). intros x p Hx Hp. eapply (wf_closed _ _ W); eauto. }
  apply WF_repars with (h := h) (g := g); auto.
  - apply (wf_heap _ _ W).
  - intros x Hx. apply (wf_uniq _ _ W). auto.
  - intros x Hx. apply (wf_pnodup _ _ W). auto.
Qed.

Lemma sort_nodes_incl : forall h g g', WF h g -> sort_nodes h g = Ok g' -> incl g' g.
Proof.
  intros h g g' W E. unfold sort_nodes in E.
  destruct (root_nodes h g) as [|r [|r2 rs]] eqn:ER; try (inversion E; subst; apply incl_refl).
  destruct (negb (closed_b h g)); [discriminate|].
  destruct (has_cycle h g); [inversion E; subst; apply incl_refl|].
  assert (Hr : In r g).
  { assert (X : In r (root_nodes h g)) by (rewrite ER; left; reflexivity).
    unfold root_nodes in X. apply filter_In in X. tauto. }
  destruct (hierarchy_spec _ _ _ E) as [_ [_ [_ RS]]].
  intros m Hm. apply RS in Hm.
  apply (reachP_closed (pars h) (fun x => In x g) r m Hm Hr). intros x p Hx Hp. eapply (wf_closed _ _ W); eauto.
Qed.

(* ------------------------------------------------------------------ update_node *)
Definition repointed (old new : ref) (nd : node) : list ref :=
  match list_index old (parents nd) with
  | Ok i => pl_setitem (uniq nd) (parents nd) i new
  | Raise _ => parents nd
  end.

(* actualise_old_node_children(old, new) for a new node that no member has as a parent *)
Lemma actualise_spec : forall h g old new, WF h g -> ~ In new g -> new < length h ->
  exists h1, actualise h g old new = Ok h1 /\ length h1 = length h /\ heap_ok h1 /\
    (forall r, uid (get h1 r) = uid (get h r) /\ uniq (get h1 r) = uniq (get h r) /\
               label (get h1 r) = label (get h r)) /\
    (forall r, ~ In r g \/ ~ In old (pars h r) -> get h1 r = get h r) /\
    (forall r, In r g -> NoDup (pars h1 r) /\
       (forall y, In y (pars h1 r) <-> (y = new /\ In old (pars h r)) \/ (In y (pars h r) /\ y <> old))).
Proof.
  intros h g old new W Nn Vn. unfold actualise.
  set (ch := node_children h g old).
  assert (NDc : NoDup ch) by (apply node_children_nodup; apply (wf_nodup _ _ W)).
  assert (Vc : forall c, In c ch -> c < length h).
  { intros c Hc. apply node_children_In in Hc. apply (wf_valid _ _ W). tauto. }
  destruct (loop_nodes_ok (repoint old new) (repointed old new) ch h NDc Vc) as [h1 [E [L G]]].
  { intros c Hc. apply node_children_In in Hc. destruct Hc as [_ Hc].
    unfold repoint, repointed. destruct (list_index_ok old _ Hc) as [i Ei].
    unfold pars in Ei. rewrite Ei. reflexivity. }
  exists h1. split; [exact E|]. split; [exact L|].
  assert (P : forall r, pars h1 r = if memb r ch then repointed old new (get h r) else pars h r).
  { intros r. unfold pars. rewrite G. destruct (memb r ch); reflexivity. }
  assert (Q : forall r, In r g -> NoDup (pars h1 r) /\
       (forall y, In y (pars h1 r) <-> (y = new /\ In old (pars h r)) \/ (In y (pars h r) /\ y <> old))).
  { intros r Hr. rewrite P. destruct (memb r ch) eqn:M.
    - apply memb_In in M. apply node_children_In in M. destruct M as [_ M].
      unfold repointed. destruct (list_index_ok old _ M) as [i Ei]. unfold pars in Ei. rewrite Ei.
      assert (Nnew : ~ In new (parents (get h r))).
      { intros X. apply Nn. eapply (wf_closed _ _ W); eauto. }
      unfold pl_setitem. apply memb_false in Nnew. rewrite Nnew, andb_false_r.
      apply memb_false in Nnew.
      destruct (set_nth_index_spec old new _ i Ei (wf_pnodup _ _ W r Hr) Nnew) as [A B].
      split; [exact A|]. intros y. rewrite B. unfold pars. tauto.
    - apply memb_false in M. assert (No : ~ In old (pars h r)).
      { intros X. apply M. apply node_children_In. auto. }
      split; [apply (wf_pnodup _ _ W); exact Hr|]. intros y. split.
      + intros X. right. split; [exact X|]. intros ->. tauto.
      + intros [[_ X]|[X _]]; tauto. }
  split; [|split; [|split; [|exact Q]]].
  - apply heap_ok_change with (h := h); [apply (wf_heap _ _ W)|exact L|].
    intros r p Hr Hp. destruct (memb r g) eqn:M.
    + apply memb_In in M. apply (Q r M) in Hp. destruct Hp as [[-> _]|[X _]]; auto.
    + apply memb_false in M. rewrite P in Hp.
      assert (X : memb r ch = false).
      { apply memb_false. intros Y. apply node_children_In in Y. tauto. }
      rewrite X in Hp. auto.
  - intros r. rewrite G. destruct (memb r ch); auto.
  - intros r Hr. rewrite G.
    assert (X : memb r ch = false).
    { apply memb_false. intros Y. apply node_children_In in Y. tauto. }
    rewrite X. reflexivity.
Qed.


Lemma WF_new_not_parent : forall h g r new, WF h g -> In r g -> ~ In new g -> ~ In new (pars h r).
Proof. intros h g r new W Hr Nn X. apply Nn. eapply (wf_closed _ _ W); eauto. Qed.

(* what update_node does inside its domain: no exception, a well-formed result, and the exact
   parent sets afterwards *)
Lemma update_node_facts : forall h g old new, WF h g -> guard_b (h, g) (OUpdNode old new) = true ->
  exists h2 g3, update_node h g old new = Ok (h2, g3) /\ WF h2 g3 /\
    (length h2 = length h /\
     forall r, uid (get h2 r) = uid (get h r) /\ label (get h2 r) = label (get h r) /\ uniq (get h2 r) = uniq (get h r)) /\
    (forall x, In x g -> forall p, In p (pars h2 x) <->
        (p = new /\ In old (pars h x)) \/ (In p (pars h x) /\ p <> old)) /\
    (forall p, In p (pars h2 new) <->
        In p (pars h new) \/ (p = new /\ In old (pars h old)) \/ (In p (pars h old) /\ p <> old)) /\
    (forall x, ~ In x g -> x <> new -> pars h2 x = pars h x) /\
    (forall x, In x g3 -> (In x g /\ x <> old) \/ reach h2 new x).
Proof.
  intros h g old new W G. simpl in G. repeat rewrite andb_true_iff in G.
  destruct G as [[[G1 G2] G3] G4].
  apply memb_In in G1. apply Nat.ltb_lt in G2. apply negb_true_iff in G3. apply memb_false in G3.
  destruct (closure h new) as [R|e] eqn:EC; [|discriminate].
  destruct (ins_ok_spec _ _ _ G4) as [IA IB].
  destruct (closure_spec _ _ _ EC) as [_ [HnR [RC RS]]].
  unfold update_node.
  destruct (actualise_spec h g old new W G3 G2) as [h1 [E1 [L1 [HK1 [F1 [N1 Q1]]]]]].
  rewrite E1. cbn [bind].
  (* new_node.nodes_from.extend(old_node.nodes_from) *)
  destruct (loop_nodes_ok (extend_by (pars h1 old)) (fun nd => pl_extend (uniq nd) (parents nd) (pars h1 old)) [new] h1)
    as [h2 [E2 [L2 G2']]].
  { constructor; [intros []|constructor]. }
  { intros c [<-|[]]. rewrite L1. exact G2. }
  { reflexivity. }
  rewrite E2. cbn [bind].
  destruct (list_remove_ok old g G1) as [g1 E3]. rewrite E3. cbn [bind].
  destruct (list_remove_nodup _ _ _ E3 (wf_nodup _ _ W)) as [ND1 No1].
  assert (I1 : forall r, In r g1 -> In r g) by (intros r Hr; eapply list_remove_incl; eauto).
  assert (Unew : uniq (get h new) = true) by (apply IA; exact HnR).
  assert (Hnew1 : get h1 new = get h new) by (apply N1; left; exact G3).
  assert (P2 : forall r, pars h2 r = if r =? new then pl_extend true (pars h new) (pars h1 old) else pars h1 r).
  { intros r. unfold pars. rewrite G2'. simpl. destruct (Nat.eqb_spec r new) as [->|N]; simpl; [|reflexivity].
    rewrite Hnew1, Unew. reflexivity. }
  assert (F2 : forall r, uid (get h2 r) = uid (get h r) /\ uniq (get h2 r) = uniq (get h r)).
  { intros r. rewrite G2'. destruct (memb r [new]); simpl; destruct (F1 r) as [A [B _]]; auto. }
  assert (Pold : forall y, In y (pars h1 old) -> y = new \/ In y g).
  { intros y Hy. apply (Q1 old G1) in Hy. destruct Hy as [[-> _]|[X _]]; [auto|right].
    eapply (wf_closed _ _ W); eauto. }
  (* parents in the new heap stay inside g + R *)
  assert (S2 : forall x p, (In x g \/ In x R) -> In p (pars h2 x) -> In p g \/ In p R).
  { intros x p Hx Hp. rewrite P2 in Hp. destruct (Nat.eqb_spec x new) as [->|N].
    - apply pl_extend_In in Hp. destruct Hp as [Hp|Hp].
      + right. eapply RC; eauto.
      + destruct (Pold p Hp) as [->|X]; auto.
    - destruct (memb x g) eqn:M.
      + apply memb_In in M. apply (Q1 x M) in Hp. destruct Hp as [[-> _]|[X _]]; [auto|left].
        eapply (wf_closed _ _ W); eauto.
      + apply memb_false in M. unfold pars in Hp. rewrite (N1 x (or_introl M)) in Hp.
        destruct Hx as [Hx|Hx]; [tauto|]. right. eapply RC; eauto. }
  assert (HK2 : heap_ok h2).
  { apply heap_ok_change with (h := h1); [exact HK1|exact L2|].
    intros r p Hr Hp. rewrite P2 in Hp. destruct (r =? new); [|auto].
    apply pl_extend_In in Hp. destruct Hp as [Hp|Hp].
    - right. rewrite L1. eapply (wf_heap _ _ W); [exact G2|exact Hp].
    - right. rewrite L1. destruct (Pold p Hp) as [->|X]; [exact G2|apply (wf_valid _ _ W); exact X]. }
  assert (Vn2 : new < length h2) by (rewrite L2, L1; exact G2).
  destruct (closure_ok h2 new HK2 Vn2) as [R2 EC2].
  destruct (closure_spec _ _ _ EC2) as [_ [_ [_ RS2]]].
  assert (IR2 : forall m, In m R2 -> In m g \/ In m R).
  { intros m Hm. apply RS2 in Hm.
    apply (reachP_closed (pars h2) (fun x => In x g \/ In x R) new m Hm); [right; exact HnR|].
    intros x p Hx Hp. eapply S2; eauto. }
  assert (PW : forall r, In r g \/ In r R -> NoDup (pars h2 r) /\ uniq (get h2 r) = true).
  { intros r Hr. split.
    - rewrite P2. destruct (Nat.eqb_spec r new) as [->|N].
      + apply pl_extend_nodup. apply IA. exact HnR.
      + destruct (memb r g) eqn:M.
        * apply memb_In in M. apply (Q1 r M).
        * apply memb_false in M. unfold pars. rewrite (N1 r (or_introl M)). destruct Hr as [Hr|Hr]; [tauto|].
          apply IA. exact Hr.
    - destruct (F2 r) as [_ ->]. destruct Hr as [Hr|Hr]; [apply (wf_uniq _ _ W); exact Hr|apply IA; exact Hr]. }
  destruct (add_node_g_WF_gen h2 g1 new R2 HK2 ND1) as [g2 [E4 [W4 [_ [_ M4]]]]].
  - intros r Hr. rewrite L2, L1. apply (wf_valid _ _ W). auto.
  - exact Vn2.
  - exact EC2.
  - intros r p Hr Hp. pose proof (I1 r Hr) as Hrg.
    assert (Nr : r <> new) by (intros ->; tauto).
    rewrite P2 in Hp. apply Nat.eqb_neq in Nr. rewrite Nr in Hp.
    apply (Q1 r Hrg) in Hp. destruct Hp as [[-> _]|[X Y]]; [auto|left].
    eapply list_remove_other; [exact E3|eapply (wf_closed _ _ W); eauto|exact Y].
  - intros a b Ha Hb E. destruct (F2 a) as [Ua _]. destruct (F2 b) as [Ub _]. rewrite Ua, Ub in E.
    apply IB; auto; apply in_or_app.
    + apply in_app_or in Ha. destruct Ha as [Ha|Ha]; [auto|apply IR2; exact Ha].
    + apply in_app_or in Hb. destruct Hb as [Hb|Hb]; [auto|apply IR2; exact Hb].
  - intros r Hr. apply PW. destruct Hr as [Hr|Hr]; [auto|apply IR2; exact Hr].
  - rewrite E4. cbn [bind].
    destruct (sort_nodes_WF h2 g2 W4) as [g3 [E5 W5]]. rewrite E5. cbn [bind].
    exists h2, g3. split; [reflexivity|]. split; [exact W5|]. split; [|split; [|split; [|split]]].
    + split; [congruence|]. intros r. rewrite G2'. destruct (F1 r) as [A [B C]].
      destruct (memb r [new]); simpl; auto.
    + intros x Hx p. rewrite P2. assert (Nx : x <> new) by (intros ->; tauto).
      apply Nat.eqb_neq in Nx. rewrite Nx. rewrite (proj2 (Q1 x Hx)).
      assert (V : x < length h) by (apply (wf_valid _ _ W); exact Hx).
      reflexivity.
    + intros p. rewrite P2, Nat.eqb_refl, pl_extend_In, (proj2 (Q1 old G1)). tauto.
    + intros x Hx Nx. rewrite P2. apply Nat.eqb_neq in Nx. rewrite Nx. unfold pars. rewrite N1; auto.
    + intros x Hx. apply (sort_nodes_incl h2 g2 g3 W4 E5) in Hx. destruct (M4 x Hx) as [A|A].
      * left. split; [apply I1; exact A|]. intros ->. tauto.
      * right. apply RS2. exact A.
Qed.

Theorem update_node_WF : forall h g old new, WF h g -> guard_b (h, g) (OUpdNode old new) = true ->
  exists s', update_node h g old new = Ok s' /\ WF (fst s') (snd s').
Proof.
  intros h g old new W G. destruct (update_node_facts h g old new W G) as [h2 [g3 [E [W' _]]]].
  exists (h2, g3). auto.
Qed.
