(* update_subtree keeps graphs well-formed and does not raise inside its domain (property C04):
   deepcopy, re-pointing of the children, removal of the old subtree, uid renewal, insertion. *)
From Coq Require Import List Arith Bool Lia.
From GolemV Require Import Graph.Heap Graph.Ops Graph.OpsSpec Graph.OpsBase Graph.OpsDfs Graph.OpsProofs.
Import ListNotations.

(* ------------------------------------------------------------------ index_of / rename *)
Lemma index_of_In : forall x l, In x l -> exists i, index_of x l = Some i /\ i < length l /\ nth i l 0 = x.
Proof.
  induction l as [|y t IH]; simpl; intros H; [contradiction|].
  destruct (Nat.eqb_spec x y) as [->|N].
  - exists 0. repeat split; lia.
  - destruct H as [H|H]; [congruence|]. destruct (IH H) as [i [A [B C]]]. rewrite A.
    exists (S i). repeat split; [lia|exact C].
Qed.

Lemma index_of_Some : forall x l i, index_of x l = Some i -> i < length l /\ nth i l 0 = x.
Proof.
  induction l as [|y t IH]; simpl; intros i E; [discriminate|].
  destruct (Nat.eqb_spec x y) as [->|N].
  - inversion E; subst. split; [lia|reflexivity].
  - destruct (index_of x t) as [j|] eqn:Ej; [|discriminate]. inversion E; subst.
    destruct (IH j eq_refl). split; [lia|assumption].
Qed.

Lemma index_of_nth : forall l i, NoDup l -> i < length l -> index_of (nth i l 0) l = Some i.
Proof.
  induction l as [|y t IH]; simpl; intros i ND L; [lia|].
  inversion ND as [|? ? Hy NDt]; subst. destruct i as [|i].
  - rewrite Nat.eqb_refl. reflexivity.
  - destruct (Nat.eqb_spec (nth i t 0) y) as [E|N].
    + exfalso. apply Hy. rewrite <- E. apply nth_In. lia.
    + rewrite IH; [reflexivity|assumption|lia].
Qed.

Lemma rename_In : forall R base x, In x R ->
  exists i, rename R base x = base + i /\ i < length R /\ nth i R 0 = x.
Proof.
  intros R base x H. destruct (index_of_In x R H) as [i [A [B C]]]. exists i. unfold rename. rewrite A. auto.
Qed.

Lemma rename_inj : forall R base x y, In x R -> In y R -> rename R base x = rename R base y -> x = y.
Proof.
  intros R base x y Hx Hy E. destruct (rename_In R base x Hx) as [i [A [B C]]].
  destruct (rename_In R base y Hy) as [j [A' [B' C']]]. rewrite A, A' in E.
  assert (i = j) by lia. subst. congruence.
Qed.

Lemma map_inj_nodup : forall (f : nat -> nat) l, (forall x y, In x l -> In y l -> f x = f y -> x = y) ->
  NoDup l -> NoDup (map f l).
Proof.
  induction l as [|a t IH]; simpl; intros I ND; [constructor|].
  inversion ND as [|? ? Ha NDt]; subst. constructor.
  - intros X. apply in_map_iff in X. destruct X as [y [E Hy]]. apply Ha.
    rewrite (I a y); auto.
  - apply IH; auto.
Qed.

(* ------------------------------------------------------------------ local reasoning about reachability *)
Lemma reach_local : forall h h' (S : ref -> Prop),
  (forall x p, S x -> In p (pars h x) -> S p) -> (forall x, S x -> pars h' x = pars h x) ->
  forall a b, reach h' a b -> S a -> reach h a b /\ S b.
Proof.
  intros h h' S CL EQ a b R. unfold reach in *. induction R as [a|a p b Hp Hr IHr]; intros Sa.
  - split; [constructor|exact Sa].
  - rewrite (EQ a Sa) in Hp. destruct (IHr (CL a p Sa Hp)) as [A B]. split; [econstructor; eauto|exact B].
Qed.

Lemma acyclic_from_local : forall h h' (S : ref -> Prop) n,
  S n -> (forall x p, S x -> In p (pars h x) -> S p) -> (forall x, S x -> pars h' x = pars h x) ->
  acyclic_from h n -> acyclic_from h' n.
Proof.
  intros h h' S n Sn CL EQ AC x R [p [Hp Hr]].
  destruct (reach_local h h' S CL EQ n x R Sn) as [R1 Sx].
  unfold edge in Hp. rewrite (EQ x Sx) in Hp.
  destruct (reach_local h h' S CL EQ p x Hr (CL x p Sx Hp)) as [R2 _].
  apply (AC x R1). exists p. split; [exact Hp|exact R2].
Qed.

Lemma reach_closed_set : forall h (S : ref -> Prop) a b,
  reach h a b -> S a -> (forall x p, S x -> In p (pars h x) -> S p) -> S b.
Proof. intros h S a b R. apply (reachP_closed (pars h) S a b R). Qed.

(* ------------------------------------------------------------------ a heap with more objects *)
Lemma pars_app_l : forall h h2 r, r < length h -> pars (h ++ h2) r = pars h r.
Proof. intros. unfold pars. rewrite get_app_l by assumption. reflexivity. Qed.

Lemma WF_app : forall h g h2, WF h g -> heap_ok (h ++ h2) -> WF (h ++ h2) g.
Proof.
  intros h g h2 W HK.
  assert (V : forall r, In r g -> get (h ++ h2) r = get h r).
  { intros r Hr. apply get_app_l. apply (wf_valid _ _ W). exact Hr. }
  constructor; auto.
  - apply (wf_nodup _ _ W).
  - intros r Hr. rewrite app_length. pose proof (wf_valid _ _ W r Hr). lia.
  - intros a b Ha Hb. rewrite (V a Ha), (V b Hb). apply (wf_uid _ _ W); auto.
  - intros r Hr. unfold pars. rewrite (V r Hr). apply (wf_pnodup _ _ W). exact Hr.
  - intros r Hr. rewrite (V r Hr). apply (wf_uniq _ _ W). exact Hr.
  - intros r p Hr Hp. unfold pars in Hp. rewrite (V r Hr) in Hp. eapply (wf_closed _ _ W); eauto.
Qed.

(* ------------------------------------------------------------------ deepcopy *)
Section Deepcopy.
  Variables (h : heap) (n : ref) (R : list ref).
  Hypothesis HK : heap_ok h.
  Hypothesis Hn : n < length h.
  Hypothesis EC : closure h n = Ok R.
  Hypothesis PW : forall r, In r R -> uniq (get h r) = true /\ NoDup (pars h r).

  Let base := length h.
  Let h1 := h ++ map (fun r => copy_node R base (get h r)) R.
  Let nw := rename R base n.

  Lemma deepcopy_eq : deepcopy h n = Ok (h1, nw).
  Proof. unfold deepcopy. rewrite EC. reflexivity. Qed.

  Lemma dc_length : length h1 = base + length R.
  Proof. unfold h1. rewrite app_length, map_length. reflexivity. Qed.

  Lemma dc_old : forall r, r < base -> get h1 r = get h r.
  Proof. intros. unfold h1. apply get_app_l. assumption. Qed.

  Lemma dc_copy : forall i, i < length R ->
    get h1 (base + i) = copy_node R base (get h (nth i R 0)).
  Proof.
    intros i L. unfold h1, base. rewrite get_app_r. unfold get at 1.
    rewrite nth_indep with (d' := (fun r => copy_node R (length h) (get h r)) 0) by (rewrite map_length; exact L).
    rewrite (map_nth (fun r => copy_node R (length h) (get h r)) R 0 i). reflexivity.
  Qed.

  Lemma dc_R_closed : forall m p, In m R -> In p (pars h m) -> In p R.
  Proof. destruct (closure_spec _ _ _ EC) as [_ [_ [A _]]]. exact A. Qed.

  Lemma dc_R_nodup : NoDup R.
  Proof. destruct (closure_spec _ _ _ EC) as [A _]. exact A. Qed.

  Lemma dc_n_in : In n R.
  Proof. destruct (closure_spec _ _ _ EC) as [_ [A _]]. exact A. Qed.

  (* parent list of the i-th copy: the renamed parent list of the i-th original *)
  Lemma dc_pars : forall i, i < length R ->
    pars h1 (base + i) = map (rename R base) (pars h (nth i R 0)).
  Proof.
    intros i L. unfold pars at 1. rewrite (dc_copy i L). unfold copy_node. simpl.
    assert (Hi : In (nth i R 0) R) by (apply nth_In; exact L).
    destruct (PW _ Hi) as [U ND]. rewrite U. apply dedupe_nodup_id.
    apply map_inj_nodup; [|exact ND].
    intros x y Hx Hy. apply rename_inj; eapply dc_R_closed; eauto.
  Qed.

  Definition is_copy (x : ref) : Prop := exists i, i < length R /\ x = base + i.

  Lemma dc_nw_copy : is_copy nw.
  Proof. destruct (rename_In R base n dc_n_in) as [i [A [B C]]]. exists i. auto. Qed.

  Lemma dc_copy_pars : forall x p, is_copy x -> In p (pars h1 x) -> is_copy p.
  Proof.
    intros x p [i [L ->]] Hp. rewrite (dc_pars i L) in Hp. apply in_map_iff in Hp.
    destruct Hp as [q [<- Hq]].
    assert (In q R) by (eapply dc_R_closed; [apply nth_In; exact L|exact Hq]).
    destruct (rename_In R base q H) as [j [A [B C]]]. exists j. auto.
  Qed.

  Lemma dc_copy_wf : forall x, is_copy x -> NoDup (pars h1 x) /\ uniq (get h1 x) = true.
  Proof.
    intros x [i [L ->]]. assert (Hi : In (nth i R 0) R) by (apply nth_In; exact L).
    destruct (PW _ Hi) as [U ND]. split.
    - rewrite (dc_pars i L). apply map_inj_nodup; [|exact ND].
      intros a b Ha Hb. apply rename_inj; eapply dc_R_closed; eauto.
    - rewrite (dc_copy i L). unfold copy_node. simpl. exact U.
  Qed.

  Lemma dc_copy_uid : forall i, i < length R -> uid (get h1 (base + i)) = uid (get h (nth i R 0)).
  Proof. intros i L. rewrite (dc_copy i L). reflexivity. Qed.

  Lemma dc_copy_label : forall i, i < length R -> label (get h1 (base + i)) = label (get h (nth i R 0)).
  Proof. intros i L. rewrite (dc_copy i L). reflexivity. Qed.

  Lemma dc_uid_inj : uid_inj h R -> forall a b, is_copy a -> is_copy b ->
    uid (get h1 a) = uid (get h1 b) -> a = b.
  Proof.
    intros UI a b [i [Li ->]] [j [Lj ->]] E. rewrite (dc_copy_uid i Li), (dc_copy_uid j Lj) in E.
    assert (X : nth i R 0 = nth j R 0) by (apply UI; auto; apply nth_In; assumption).
    f_equal. apply (proj1 (NoDup_nth R 0) dc_R_nodup); assumption.
  Qed.

  Lemma dc_heap_ok : heap_ok h1.
  Proof.
    intros r p Hr Hp. rewrite dc_length in *.
    destruct (Nat.ltb_spec r base) as [A|A].
    - unfold pars in Hp. rewrite (dc_old r A) in Hp. pose proof (HK r p A Hp). fold base in H. lia.
    - assert (C : is_copy r) by (exists (r - base); split; lia).
      destruct (dc_copy_pars r p C Hp) as [j [Lj ->]]. lia.
  Qed.

  (* the copy is as acyclic as the original *)
  Lemma dc_back : forall a b, reach h1 a b -> forall i, i < length R -> a = base + i ->
    exists j, j < length R /\ b = base + j /\ reach h (nth i R 0) (nth j R 0).
  Proof.
    intros a b Rab. unfold reach in *. induction Rab as [a|a p b Hp Hr IHr]; intros i L ->.
    - exists i. repeat split; auto. constructor.
    - rewrite (dc_pars i L) in Hp. apply in_map_iff in Hp. destruct Hp as [q [<- Hq]].
      assert (Hqr : In q R) by (eapply dc_R_closed; [apply nth_In; exact L|exact Hq]).
      destruct (rename_In R base q Hqr) as [k [A [B C]]].
      destruct (IHr k B A) as [j [Lj [-> Rj]]]. exists j. repeat split; auto.
      econstructor; [exact Hq|]. rewrite C in Rj. exact Rj.
  Qed.

  Lemma dc_acyclic : acyclic_from h n -> acyclic_from h1 nw.
  Proof.
    intros AC x Rx [p [Hp Hr]].
    destruct (rename_In R base n dc_n_in) as [i0 [A0 [B0 C0]]].
    destruct (dc_back nw x Rx i0 B0 A0) as [i [Li [-> Ri]]]. rewrite C0 in Ri.
    unfold edge in Hp. rewrite (dc_pars i Li) in Hp. apply in_map_iff in Hp. destruct Hp as [q [<- Hq]].
    assert (Hqr : In q R) by (eapply dc_R_closed; [apply nth_In; exact Li|exact Hq]).
    destruct (rename_In R base q Hqr) as [k [A [B C]]].
    destruct (dc_back _ _ Hr k B A) as [j [Lj [Ej Rj]]].
    assert (j = i) by lia. subst j. rewrite C in Rj.
    apply (AC (nth i R 0) Ri). exists q. split; [exact Hq|exact Rj].
  Qed.
End Deepcopy.

(* ------------------------------------------------------------------ uid renewal *)
Lemma fresh_uid_gt : forall h r, uid (get h r) < fresh_uid h.
Proof.
  unfold fresh_uid, get. induction h as [|x t IH]; intros r; simpl.
  - destruct r; simpl; lia.
  - destruct r as [|r]; [lia|]. specialize (IH r). lia.
Qed.

Lemma get_set_uid : forall h r u x, r < length h ->
  get (set_uid h r u) x = if r =? x then with_uid (get h r) u else get h x.
Proof.
  intros. unfold set_uid. rewrite get_upd. destruct (Nat.eqb_spec r x) as [->|N]; simpl; auto.
  destruct (Nat.ltb_spec x (length h)); [reflexivity|lia].
Qed.

Lemma renew_spec : forall rem l h,
  NoDup l -> (forall r, In r l -> r < length h) ->
  (forall u, In u rem -> exists x, ~ In x l /\ uid (get h x) = u) ->
  length (renew_uids rem l h) = length h /\
  (forall r, parents (get (renew_uids rem l h) r) = parents (get h r) /\
             label (get (renew_uids rem l h) r) = label (get h r) /\
             uniq (get (renew_uids rem l h) r) = uniq (get h r)) /\
  (forall r, ~ In r l -> get (renew_uids rem l h) r = get h r) /\
  (forall r, In r l -> ~ In (uid (get (renew_uids rem l h) r)) rem) /\
  (forall T, uid_inj h T -> uid_inj (renew_uids rem l h) T).
Proof.
  unfold renew_uids. induction l as [|r t IH]; intros h ND V RM; simpl.
  - repeat split; auto.
  - inversion ND as [|? ? Hr NDt]; subst.
    assert (Vr : r < length h) by (apply V; left; reflexivity).
    set (h1 := if memb (uid (get h r)) rem then set_uid h r (fresh_uid h) else h).
    assert (L1 : length h1 = length h).
    { unfold h1. destruct (memb (uid (get h r)) rem); [apply length_upd|reflexivity]. }
    assert (F1 : forall x, parents (get h1 x) = parents (get h x) /\ label (get h1 x) = label (get h x) /\
                           uniq (get h1 x) = uniq (get h x)).
    { intros x. unfold h1. destruct (memb (uid (get h r)) rem); [|auto].
      rewrite get_set_uid by exact Vr. destruct (Nat.eqb_spec r x) as [->|N]; auto. }
    assert (O1 : forall x, x <> r -> get h1 x = get h x).
    { intros x N. unfold h1. destruct (memb (uid (get h r)) rem); [|auto].
      rewrite get_set_uid by exact Vr. destruct (Nat.eqb_spec r x) as [->|N']; [congruence|reflexivity]. }
    assert (U1 : ~ In (uid (get h1 r)) rem).
    { unfold h1. destruct (memb (uid (get h r)) rem) eqn:M; [|apply memb_false; exact M].
      rewrite get_set_uid by exact Vr. rewrite Nat.eqb_refl. simpl. intros X.
      destruct (RM _ X) as [x [_ Ex]]. pose proof (fresh_uid_gt h x). lia. }
    assert (I1 : forall T, uid_inj h T -> uid_inj h1 T).
    { intros T UI. unfold h1. destruct (memb (uid (get h r)) rem); [|exact UI].
      intros a b Ha Hb. rewrite !get_set_uid by exact Vr.
      destruct (Nat.eqb_spec r a) as [<-|Na]; destruct (Nat.eqb_spec r b) as [<-|Nb]; simpl; intros E; auto.
      - pose proof (fresh_uid_gt h b). lia.
      - pose proof (fresh_uid_gt h a). lia. }
    destruct (IH h1 NDt) as [A [B [C [D E]]]].
    { intros x Hx. rewrite L1. apply V. right. exact Hx. }
    { intros u Hu. destruct (RM u Hu) as [x [Nx Ex]]. exists x. split; [intros X; apply Nx; right; exact X|].
      rewrite O1; [exact Ex|]. intros ->. apply Nx. left. reflexivity. }
    fold h1. split; [congruence|]. split; [|split; [|split]].
    + intros x. destruct (B x) as [B1 [B2 B3]]. destruct (F1 x) as [F11 [F12 F13]]. repeat split; congruence.
    + intros x Nx. rewrite C; [apply O1|]; intros X; apply Nx; [left; congruence|right; exact X].
    + intros x [<-|Hx]; [rewrite C by exact Hr; exact U1|apply D; exact Hx].
    + intros T UI. apply E. apply I1. exact UI.
Qed.

(* ------------------------------------------------------------------ update_subtree *)
Lemma reach_step_r : forall h a b p, reach h a b -> In p (pars h b) -> reach h a p.
Proof.
  intros h a b p R Hp. unfold reach in *. eapply reachP_trans; [exact R|]. econstructor; [exact Hp|constructor].
Qed.

Lemma reach_local_rev : forall h h' (S : ref -> Prop),
  (forall x p, S x -> In p (pars h x) -> S p) -> (forall x, S x -> pars h' x = pars h x) ->
  forall a b, reach h a b -> S a -> reach h' a b.
Proof.
  intros h h' S CL EQ a b R. unfold reach in *. induction R as [a|a p b Hp Hr IHr]; intros Sa.
  - constructor.
  - econstructor; [rewrite (EQ a Sa); exact Hp|]. apply IHr. eapply CL; eauto.
Qed.

(* what update_subtree does inside its domain: no exception, a well-formed result made of
   remaining old members (whose parent links only shrink or point to inserted nodes) and of
   inserted nodes Bs: new objects, closed under parents, free of cycles *)
Lemma update_subtree_facts_exact : forall h g old new, WF h g -> guard_b (h, g) (OUpdSub old new) = true ->
  exists h4 g3 (Bs : ref -> Prop), update_subtree h g old new = Ok (h4, g3) /\ WF h4 g3 /\
    (forall x, In x g3 -> In x g \/ Bs x) /\
    (forall x, Bs x -> length h <= x) /\
    (forall x p, Bs x -> In p (pars h4 x) -> Bs p) /\
    (forall x, Bs x -> ~ on_cycle h4 x) /\
    (forall x, In x g -> In x g3 -> forall p, In p (pars h4 x) -> Bs p \/ In p (pars h x)) /\
    (* frame: objects that are not members of g are untouched, new objects are appended *)
    (length h <= length h4 /\ forall r, r < length h -> ~ In r g -> get h4 r = get h r) /\
    (* exact result: R = the copied objects in copy order, g2 = the member list before sort_nodes *)
    (exists R g2, closure h new = Ok R /\
       length h4 = length h + length R /\
       (forall i, i < length R ->
          label (get h4 (length h + i)) = label (get h (nth i R 0)) /\
          pars h4 (length h + i) = map (rename R (length h)) (pars h (nth i R 0))) /\
       (forall r, In r g -> ~ reach h old r ->
          label (get h4 r) = label (get h r) /\
          forall p, In p (pars h4 r) <->
            (p = rename R (length h) new /\ In old (pars h r)) \/ (In p (pars h r) /\ ~ reach h old p)) /\
       WF h4 g2 /\ sort_nodes h4 g2 = Ok g3 /\
       (forall x, In x g2 <-> (In x g /\ ~ reach h old x) \/ reach h4 (rename R (length h) new) x)).
Proof.
  intros h g old new W G. simpl in G. repeat rewrite andb_true_iff in G.
  destruct G as [[[G1 G2] G3] G4].
  apply memb_In in G1. apply Nat.ltb_lt in G2.
  destruct (hierarchy h new) as [Rh|e] eqn:EH; [|discriminate].
  destruct (ins_ok_spec _ _ _ G4) as [IA IB]. simpl in IB.
  pose proof (wf_heap _ _ W) as HK.
  destruct (closure_ok h new HK G2) as [R EC].
  pose proof (hierarchy_closure_same _ _ _ _ EH EC) as SAME.
  assert (PW : forall r, In r R -> uniq (get h r) = true /\ NoDup (pars h r)).
  { intros r Hr. apply IA. apply SAME. exact Hr. }
  assert (UIR : uid_inj h R).
  { intros a b Ha Hb. apply IB; apply SAME; assumption. }
  pose proof (hierarchy_acyclic _ _ _ EH) as ACn.
  assert (ACo : acyclic_from h old).
  { destruct (hierarchy h old) as [l|] eqn:X; [eapply hierarchy_acyclic; eauto|discriminate]. }
  unfold update_subtree. rewrite (deepcopy_eq h new R EC). cbn [bind fst snd].
  set (base := length h).
  set (h1 := h ++ map (fun r => copy_node R base (get h r)) R).
  set (nw := rename R base new).
  pose proof (dc_heap_ok h new R HK G2 EC PW) as HK1. fold base h1 in HK1.
  pose proof (dc_length h R) as L1. fold base h1 in L1.
  assert (COPY : forall x, is_copy h R x -> base <= x < length h1).
  { intros x [i [Li ->]]. fold base. lia. }
  pose proof (dc_nw_copy h new R EC) as NWC. fold base nw in NWC.
  assert (W1 : WF h1 g) by (apply WF_app; assumption).
  assert (Vg : forall r, In r g -> r < base) by (apply (wf_valid _ _ W)).
  assert (Nnw : ~ In nw g).
  { intros X. specialize (Vg _ X). destruct (COPY _ NWC). lia. }
  assert (Vnw : nw < length h1) by (apply COPY; exact NWC).
  destruct (actualise_spec h1 g old nw W1 Nnw Vnw) as [h2 [E2 [L2 [HK2 [F2 [N2 Q2]]]]]].
  rewrite E2. cbn [bind].
  assert (OLD1 : forall x, x < base -> get h1 x = get h x) by (apply dc_old).
  (* the nodes reachable from old are untouched so far *)
  assert (RO : forall x, reach h old x -> In x g /\ pars h2 x = pars h x).
  { intros x Rx.
    assert (Hx : In x g).
    { apply (reach_closed_set h (fun y => In y g) old x Rx G1). intros y p Hy Hp. eapply (wf_closed _ _ W); eauto. }
    split; [exact Hx|]. unfold pars. rewrite N2.
    - rewrite OLD1 by (apply Vg; exact Hx). reflexivity.
    - right. unfold pars. rewrite OLD1 by (apply Vg; exact Hx). intros X.
      apply (ACo x Rx). exists old. split; [exact X|exact Rx]. }
  assert (ACo2 : acyclic_from h2 old).
  { apply (acyclic_from_local h h2 (fun x => reach h old x) old).
    - constructor.
    - intros x p Rx Hp. eapply reach_step_r; eauto.
    - intros x Rx. apply RO. exact Rx.
    - exact ACo. }
  assert (Vold2 : old < length h2) by (rewrite L2, L1; specialize (Vg _ G1); lia).
  destruct (hierarchy_ok h2 old HK2 Vold2 ACo2) as [S ES].
  unfold delete_subtree. rewrite ES. cbn [bind fst snd].
  destruct (hierarchy_spec _ _ _ ES) as [NDS [HoS [CLS RSS]]].
  assert (SG : forall m, In m S -> In m g).
  { intros m Hm. apply RSS in Hm.
    destruct (reach_local h h2 (fun x => reach h old x)) with (a := old) (b := m) as [A _]; auto.
    - intros x p Rx Hp. eapply reach_step_r; eauto.
    - intros x Rx. apply RO. exact Rx.
    - constructor.
    - apply RO. exact A. }
  set (g1 := remove_items g S).
  assert (ND1 : NoDup g1) by (apply remove_items_nodup; apply (wf_nodup _ _ W)).
  assert (I1 : forall r, In r g1 -> In r g /\ ~ In r S) by (intros r Hr; apply remove_items_In in Hr; exact Hr).
  destruct (fold_prune_spec S g1 h2 ND1) as [L3 G3'].
  { intros c Hc. rewrite L2, L1. destruct (I1 c Hc) as [A _]. specialize (Vg _ A). lia. }
  set (h3 := fold_left (prune S) g1 h2) in *.
  assert (P3 : forall r, pars h3 r = if memb r g1 then dedupe (remove_items (pars h2 r) S) else pars h2 r).
  { intros r. unfold pars. rewrite G3'. destruct (memb r g1); reflexivity. }
  assert (CP : forall x, is_copy h R x -> get h3 x = get h1 x).
  { intros x Cx. destruct (COPY x Cx) as [A B]. rewrite G3'.
    assert (X : memb x g1 = false).
    { apply memb_false. intros Y. destruct (I1 x Y) as [Z _]. specialize (Vg _ Z). lia. }
    rewrite X. apply N2. left. intros Y. specialize (Vg _ Y). lia. }
  assert (HK3 : heap_ok h3).
  { apply heap_ok_change with (h := h2); [exact HK2|exact L3|].
    intros r p Hr Hp. left. rewrite P3 in Hp. destruct (memb r g1); [|exact Hp].
    rewrite dedupe_In, remove_items_In in Hp. tauto. }
  assert (Vnw3 : nw < length h3) by (rewrite L3, L2; exact Vnw).
  assert (ACn3 : acyclic_from h3 nw).
  { apply (acyclic_from_local h1 h3 (is_copy h R) nw NWC).
    - intros x p Cx Hp. eapply (dc_copy_pars h new R EC PW); eauto.
    - intros x Cx. unfold pars. rewrite CP by exact Cx. reflexivity.
    - apply (dc_acyclic h new R G2 EC PW). exact ACn. }
  destruct (hierarchy_ok h3 nw HK3 Vnw3 ACn3) as [subc ESC]. rewrite ESC. cbn [bind].
  destruct (hierarchy_spec _ _ _ ESC) as [NDC [HnC [CLC RSC]]].
  assert (SCC : forall m, reach h3 nw m -> is_copy h R m).
  { intros m Rm. destruct (reach_local h1 h3 (is_copy h R)) with (a := nw) (b := m) as [_ B]; auto.
    - intros x p Cx Hp. eapply (dc_copy_pars h new R EC PW); eauto.
    - intros x Cx. unfold pars. rewrite CP by exact Cx. reflexivity. }
  set (rem := map (fun r => uid (get h3 r)) g1).
  destruct (renew_spec rem subc h3 NDC) as [L4 [F4 [O4 [U4 INJ4]]]].
  { intros r Hr. apply RSC in Hr. apply SCC in Hr. rewrite L3, L2. apply COPY. exact Hr. }
  { intros u Hu. unfold rem in Hu. apply in_map_iff in Hu. destruct Hu as [x [Ex Hx]]. exists x. split; [|exact Ex].
    intros X. apply RSC in X. apply SCC in X. destruct (COPY _ X). destruct (I1 x Hx) as [Z _]. specialize (Vg _ Z). lia. }
  set (h4 := renew_uids rem subc h3) in *.
  assert (P4 : forall r, pars h4 r = pars h3 r) by (intros r; unfold pars; apply F4).
  assert (HK4 : heap_ok h4).
  { apply heap_ok_change with (h := h3); [exact HK3|exact L4|]. intros r p Hr Hp. left. rewrite <- P4. exact Hp. }
  assert (Vnw4 : nw < length h4) by (rewrite L4; exact Vnw3).
  destruct (closure_ok h4 nw HK4 Vnw4) as [R4 EC4].
  destruct (closure_spec _ _ _ EC4) as [_ [_ [_ RS4]]].
  assert (R4C : forall m, In m R4 -> In m subc /\ is_copy h R m).
  { intros m Hm. apply RS4 in Hm.
    destruct (reach_local h3 h4 (fun _ => True)) with (a := nw) (b := m) as [A _]; auto.
    split; [apply RSC; exact A|apply SCC; exact A]. }
  (* uids of the remaining members are untouched since the start *)
  assert (UG : forall r, In r g -> uid (get h3 r) = uid (get h r)).
  { intros r Hr. rewrite G3'. assert (X : uid (get h2 r) = uid (get h r)).
    { destruct (F2 r) as [-> _]. rewrite OLD1 by (apply Vg; exact Hr). reflexivity. }
    destruct (memb r g1); simpl; exact X. }
  assert (NG1C : forall r, In r g1 -> ~ In r subc).
  { intros r Hr X. apply RSC in X. apply SCC in X. destruct (COPY _ X). destruct (I1 r Hr) as [Z _].
    specialize (Vg _ Z). lia. }
  destruct (add_node_g_WF_gen h4 g1 nw R4 HK4 ND1) as [g2 [E5 [W5 [I5 [Hn5 M5]]]]].
  - intros r Hr. rewrite L4, L3, L2, L1. destruct (I1 r Hr) as [Z _]. specialize (Vg _ Z). lia.
  - exact Vnw4.
  - exact EC4.
  - intros r p Hr Hp. rewrite P4, P3 in Hp. pose proof Hr as Hr'. apply memb_In in Hr'. rewrite Hr' in Hp.
    rewrite dedupe_In, remove_items_In in Hp. destruct Hp as [A B].
    destruct (I1 r Hr) as [Hrg _].
    apply (Q2 r Hrg) in A. destruct A as [[-> _]|[A1 A2]]; [right; reflexivity|left].
    apply remove_items_In. split; [|exact B].
    unfold pars in A1. rewrite OLD1 in A1 by (apply Vg; exact Hrg). eapply (wf_closed _ _ W); eauto.
  - assert (UI1 : uid_inj h4 g1).
    { apply INJ4. intros a b Ha Hb. destruct (I1 a Ha) as [Ha' _]. destruct (I1 b Hb) as [Hb' _].
      rewrite (UG a Ha'), (UG b Hb'). apply (wf_uid _ _ W); assumption. }
    assert (UI2 : uid_inj h4 subc).
    { apply INJ4. intros a b Ha Hb. apply RSC in Ha. apply SCC in Ha. apply RSC in Hb. apply SCC in Hb.
      rewrite (CP a Ha), (CP b Hb). apply (dc_uid_inj h new R EC UIR); assumption. }
    assert (CROSS : forall a b, In a g1 -> In b subc -> uid (get h4 a) <> uid (get h4 b)).
    { intros a b Ha Hb E. apply (U4 b Hb). rewrite <- E. rewrite (O4 a (NG1C a Ha)).
      unfold rem. apply in_map_iff. exists a. split; [reflexivity|exact Ha]. }
    intros a b Ha Hb E. apply in_app_or in Ha. apply in_app_or in Hb.
    destruct Ha as [Ha|Ha]; destruct Hb as [Hb|Hb].
    + apply UI1; assumption.
    + exfalso. apply (CROSS a b Ha (proj1 (R4C b Hb)) E).
    + exfalso. apply (CROSS b a Hb (proj1 (R4C a Ha))). symmetry. exact E.
    + apply UI2; [apply R4C|apply R4C|]; assumption.
  - intros r [Hr|Hr].
    + pose proof Hr as Hr'. apply memb_In in Hr'. split.
      * rewrite P4, P3, Hr'. apply dedupe_nodup.
      * destruct (F4 r) as [_ [_ ->]]. rewrite G3', Hr'. reflexivity.
    + destruct (R4C r Hr) as [_ Cr]. destruct (dc_copy_wf h new R EC PW r Cr) as [A B]. split.
      * rewrite P4. unfold pars. rewrite (CP r Cr). exact A.
      * destruct (F4 r) as [_ [_ ->]]. rewrite (CP r Cr). exact B.
  - rewrite E5. cbn [bind].
    destruct (sort_nodes_WF h4 g2 W5) as [g3 [E6 W6]]. rewrite E6. cbn [bind].
    destruct (closure_spec _ _ _ EC4) as [_ [HnR4 [CL4 _]]].
    exists h4, g3, (fun x => In x R4). split; [reflexivity|]. split; [exact W6|].
    split; [|split; [|split; [|split; [|split; [|split]]]]].
    + intros x Hx. apply (sort_nodes_incl h4 g2 g3 W5 E6) in Hx. destruct (M5 x Hx) as [A|A]; [left|right; exact A].
      apply I1. exact A.
    + intros x Hx. destruct (R4C x Hx) as [_ Cx]. apply COPY in Cx. fold base. lia.
    + intros x p Hx Hp. eapply CL4; eauto.
    + intros x Hx. apply RS4 in Hx.
      assert (AC4 : acyclic_from h4 nw).
      { apply (acyclic_from_local h3 h4 (fun _ => True) nw); auto. }
      apply AC4. exact Hx.
    + intros x Hxg Hx3 p Hp.
      assert (Hx1 : In x g1).
      { apply (sort_nodes_incl h4 g2 g3 W5 E6) in Hx3. destruct (M5 x Hx3) as [A|A]; [exact A|].
        destruct (R4C x A) as [_ Cx]. apply COPY in Cx. specialize (Vg _ Hxg). lia. }
      rewrite P4, P3 in Hp. pose proof Hx1 as Hx1'. apply memb_In in Hx1'. rewrite Hx1' in Hp.
      rewrite dedupe_In, remove_items_In in Hp. destruct Hp as [A _].
      apply (Q2 x Hxg) in A. destruct A as [[-> _]|[A1 _]]; [left; exact HnR4|right].
      unfold pars in A1. rewrite OLD1 in A1 by (apply Vg; exact Hxg). exact A1.
    + split; [rewrite L4, L3, L2, L1; fold base; lia|].
      intros r Hr Ng. fold base in Hr. rewrite O4.
      * rewrite G3'. assert (X : memb r g1 = false).
        { apply memb_false. intros Y. destruct (I1 r Y) as [Z _]. tauto. }
        rewrite X. rewrite N2 by (left; exact Ng). apply OLD1. exact Hr.
      * intros X. apply RSC in X. apply SCC in X. apply COPY in X. lia.
    + assert (SO : forall m, In m S <-> reach h old m).
      { intros m. split.
        - intros Hm. apply RSS in Hm.
          destruct (reach_local h h2 (fun x => reach h old x)) with (a := old) (b := m) as [A _]; auto.
          + intros x p Rx Hp. eapply reach_step_r; eauto.
          + intros x Rx. apply RO. exact Rx.
          + constructor.
        - intros Rm. apply RSS.
          apply (reach_local_rev h h2 (fun x => reach h old x)) with (a := old); auto.
          + intros x p Rx Hp. eapply reach_step_r; eauto.
          + intros x Rx. apply RO. exact Rx.
          + constructor. }
      exists R, g2. split; [exact EC|]. split; [rewrite L4, L3, L2, L1; reflexivity|].
      split; [|split; [|split; [exact W5|split; [exact E6|]]]].
      * intros i Li.
        assert (Ci : is_copy h R (base + i)) by (exists i; auto).
        destruct (F4 (base + i)) as [Fp [Fl _]]. fold base. unfold pars at 1. rewrite Fp, Fl, (CP _ Ci).
        split; [apply (dc_copy_label h R i Li)|]. apply (dc_pars h new R EC PW i Li).
      * intros r Hr NR.
        assert (NS : ~ In r S) by (rewrite SO; exact NR).
        assert (Hr1 : In r g1) by (apply remove_items_In; auto).
        pose proof Hr1 as Hr1'. apply memb_In in Hr1'.
        assert (Vr : r < base) by (apply Vg; exact Hr).
        split.
        -- destruct (F4 r) as [_ [Fl _]]. rewrite Fl, G3', Hr1'. simpl.
           destruct (F2 r) as [_ [_ Fl2]]. rewrite Fl2. rewrite OLD1 by exact Vr. reflexivity.
        -- intros p. rewrite P4, P3, Hr1', dedupe_In, remove_items_In, (proj2 (Q2 r Hr)), SO.
           unfold pars at 1 2. rewrite OLD1 by exact Vr. fold (pars h r). fold base nw. split.
           ++ intros [[[-> A]|[A B]] C]; [left; auto|right; auto].
           ++ intros [[-> A]|[A B]]; split; auto.
              ** intros X. apply SO, SG in X. tauto.
              ** right. split; [exact A|]. intros ->. apply B. constructor.
      * intros x. fold base nw. split.
        -- intros Hx. destruct (M5 x Hx) as [A|A].
           ++ left. destruct (I1 x A) as [A1 A2]. split; [exact A1|]. rewrite <- SO. exact A2.
           ++ right. apply RS4. exact A.
        -- intros [[A1 A2]|A].
           ++ apply I5. apply remove_items_In. split; [exact A1|]. rewrite SO. exact A2.
           ++ apply (reach_closed_set h4 (fun y => In y g2) nw x A Hn5).
              intros y p Hy Hp. eapply (wf_closed _ _ W5); eauto.
Qed.

Lemma update_subtree_facts_frame : forall h g old new, WF h g -> guard_b (h, g) (OUpdSub old new) = true ->
  exists h4 g3 (Bs : ref -> Prop), update_subtree h g old new = Ok (h4, g3) /\ WF h4 g3 /\
    (forall x, In x g3 -> In x g \/ Bs x) /\
    (forall x, Bs x -> length h <= x) /\
    (forall x p, Bs x -> In p (pars h4 x) -> Bs p) /\
    (forall x, Bs x -> ~ on_cycle h4 x) /\
    (forall x, In x g -> In x g3 -> forall p, In p (pars h4 x) -> Bs p \/ In p (pars h x)) /\
    (* frame: objects that are not members of g are untouched, new objects are appended *)
    (length h <= length h4 /\ forall r, r < length h -> ~ In r g -> get h4 r = get h r).
Proof.
  intros h g old new W G.
  destruct (update_subtree_facts_exact h g old new W G) as [h4 [g3 [Bs [A [B [C [D [E [F [H [J _]]]]]]]]]]].
  exists h4, g3, Bs. split; [exact A|]. split; [exact B|]. split; [exact C|]. split; [exact D|].
  split; [exact E|]. split; [exact F|]. split; [exact H|exact J].
Qed.

Lemma update_subtree_facts : forall h g old new, WF h g -> guard_b (h, g) (OUpdSub old new) = true ->
  exists h4 g3 (Bs : ref -> Prop), update_subtree h g old new = Ok (h4, g3) /\ WF h4 g3 /\
    (forall x, In x g3 -> In x g \/ Bs x) /\
    (forall x, Bs x -> length h <= x) /\
    (forall x p, Bs x -> In p (pars h4 x) -> Bs p) /\
    (forall x, Bs x -> ~ on_cycle h4 x) /\
    (forall x, In x g -> In x g3 -> forall p, In p (pars h4 x) -> Bs p \/ In p (pars h x)).
Proof.
  intros h g old new W G.
  destruct (update_subtree_facts_frame h g old new W G) as [h4 [g3 [Bs [A [B [C [D [E [F [H _]]]]]]]]]].
  exists h4, g3, Bs. split; [exact A|]. split; [exact B|]. split; [exact C|]. split; [exact D|].
  split; [exact E|]. split; [exact F|exact H].
Qed.

(* frame property: update_subtree leaves every object that is not a member of g untouched *)
Lemma update_subtree_frame : forall h g old new h' g', update_subtree h g old new = Ok (h', g') ->
  WF h g -> guard_b (h, g) (OUpdSub old new) = true ->
  length h <= length h' /\ forall r, r < length h -> ~ In r g -> get h' r = get h r.
Proof.
  intros h g old new h' g' E W G.
  destruct (update_subtree_facts_frame h g old new W G) as [h4 [g3 [Bs [A [_ [_ [_ [_ [_ [_ F]]]]]]]]]].
  rewrite E in A. inversion A; subst. exact F.
Qed.

Lemma deepcopy_frame : forall h n h' c, deepcopy h n = Ok (h', c) ->
  length h <= length h' /\ forall r, r < length h -> get h' r = get h r.
Proof.
  intros h n h' c E. unfold deepcopy in E. destruct (closure h n) as [R|e]; [|discriminate].
  cbn [bind] in E. inversion E; subst. split; [rewrite app_length; lia|].
  intros r Hr. apply get_app_l. exact Hr.
Qed.

Theorem update_subtree_WF : forall h g old new, WF h g -> guard_b (h, g) (OUpdSub old new) = true ->
  exists s', update_subtree h g old new = Ok s' /\ WF (fst s') (snd s').
Proof.
  intros h g old new W G. destruct (update_subtree_facts h g old new W G) as [h4 [g3 [Bs [E [W' _]]]]].
  exists (h4, g3). auto.
Qed.

(* ------------------------------------------------------------------ all operations *)
Lemma alloc_WF : forall h g ns, WF h g ->
  forallb (fun nd => forallb (fun p => p <? length h + length ns) (parents nd)) ns = true ->
  WF (h ++ ns) g.
Proof.
  intros h g ns W G. apply WF_app; [exact W|].
  intros r p Hr Hp. rewrite app_length in *.
  destruct (Nat.ltb_spec r (length h)) as [A|A].
  - rewrite pars_app_l in Hp by exact A. pose proof (wf_heap _ _ W r p A Hp). lia.
  - replace r with (length h + (r - length h)) in Hp by lia. unfold pars in Hp. rewrite get_app_r in Hp.
    rewrite forallb_forall in G. assert (X : In (get ns (r - length h)) ns) by (apply nth_In; lia).
    specialize (G _ X). rewrite forallb_forall in G. apply Nat.ltb_lt. apply G. exact Hp.
Qed.

(* T1.1: inside its domain every operation returns a value (does not raise) and the new
   graph is well-formed *)
Theorem op_preserves_WF : forall s o, WF (fst s) (snd s) -> guard_b s o = true ->
  exists s', run_op s o = Ok s' /\ WF (fst s') (snd s').
Proof.
  intros [h g] o W G. simpl in W. destruct o as [ns|n|n m|n|old new|old new|p c|p c cl]; simpl run_op.
  - simpl in G. eexists. split; [reflexivity|]. simpl. apply alloc_WF; assumption.
  - apply add_node_WF; assumption.
  - simpl in G. apply memb_In in G. apply delete_node_WF; assumption.
  - simpl in G. apply andb_true_iff in G. destruct G as [G1 G2]. apply memb_In in G1.
    apply delete_subtree_WF; assumption.
  - apply update_node_WF; assumption.
  - apply update_subtree_WF; assumption.
  - simpl in G. apply andb_true_iff in G. destruct G as [G1 G2]. apply memb_In in G1. apply memb_In in G2.
    destruct (connect_WF h g p c W G1 G2) as [h' [E W']]. exists (h', g). auto.
  - simpl in G. apply andb_true_iff in G. destruct G as [G1 G2]. apply memb_In in G1. apply memb_In in G2.
    apply disconnect_WF; assumption.
Qed.

(* T1.2: every state reached by a sequence of operations applied inside their domains is
   well-formed, and no operation of the sequence raises *)
Theorem ops_preserve_WF : forall os s, WF (fst s) (snd s) -> guards_ok s os = true ->
  exists s', run_ops s os = Ok s' /\ WF (fst s') (snd s').
Proof.
  induction os as [|o t IH]; intros s W G; simpl.
  - exists s. auto.
  - simpl in G. apply andb_true_iff in G. destruct G as [G1 G2].
    destruct (op_preserves_WF s o W G1) as [s1 [E W1]]. rewrite E in *. simpl. apply IH; assumption.
Qed.

Lemma guards_ok_prefix : forall os1 os2 s, guards_ok s (os1 ++ os2) = true -> guards_ok s os1 = true.
Proof.
  induction os1 as [|o t IH]; simpl; intros os2 s G; [reflexivity|].
  apply andb_true_iff in G. destruct G as [G1 G2]. rewrite G1. simpl.
  destruct (run_op s o); [eapply IH; eauto|discriminate].
Qed.

Theorem ops_reachable_WF : forall os1 os2 s, WF (fst s) (snd s) -> guards_ok s (os1 ++ os2) = true ->
  exists s1, run_ops s os1 = Ok s1 /\ WF (fst s1) (snd s1).
Proof. intros. apply ops_preserve_WF; [assumption|eapply guards_ok_prefix; eauto]. Qed.
