(* The heap-level operations refine their set-level specification (property C04, part 4):
   abs (op h g args) and spec_op (abs h g) args have the same node set, edge set and labels. *)
From Coq Require Import List Arith Bool Lia.
From GolemV Require Import Graph.Heap Graph.Ops Graph.OpsSpec Graph.OpsBase Graph.OpsDfs Graph.OpsProofs
  Graph.OpsChar.
Import ListNotations.

(* ------------------------------------------------------------------ reading lists as sets *)
Definition a_equiv (A B : agraph) : Prop :=
  (forall x, In x (an A) <-> In x (an B)) /\
  (forall e, In e (ae A) <-> In e (ae B)) /\
  (forall l, In l (al A) <-> In l (al B)).

Lemma eqb2_iff : forall a b, eqb2 a b = true <-> a = b.
Proof.
  intros [a1 a2] [b1 b2]. unfold eqb2. simpl. rewrite andb_true_iff, !Nat.eqb_eq. split.
  - intros [-> ->]. reflexivity.
  - intros E. inversion E. auto.
Qed.

Lemma mem2_In : forall e l, mem2 e l = true <-> In e l.
Proof.
  unfold mem2. intros e l. rewrite existsb_exists. split.
  - intros [y [Hy E]]. apply eqb2_iff in E. subst. exact Hy.
  - intros H. exists e. split; [exact H|apply eqb2_iff; reflexivity].
Qed.

Lemma incl_b_iff : forall l1 l2, incl_b l1 l2 = true <-> incl l1 l2.
Proof.
  unfold incl_b, incl. intros. rewrite forallb_forall. split; intros H x Hx; apply memb_In; apply H; exact Hx.
Qed.

Lemma incl2_b_iff : forall l1 l2, incl2_b l1 l2 = true <-> incl l1 l2.
Proof.
  unfold incl2_b, incl. intros. rewrite forallb_forall. split; intros H x Hx; apply mem2_In; apply H; exact Hx.
Qed.

(* the executable comparison used by holds_b decides set-level equality *)
Theorem a_eqb_iff : forall A B, a_eqb A B = true <-> a_equiv A B.
Proof.
  intros A B. unfold a_eqb, a_equiv, seteq_b, seteq2_b.
  rewrite !andb_true_iff, !incl_b_iff, !incl2_b_iff. unfold incl. split.
  - intros [[[A1 A2] [B1 B2]] [C1 C2]]. repeat split; auto.
  - intros [A1 [B1 C1]]. repeat split; intros x Hx; try apply A1; try apply B1; try apply C1; exact Hx.
Qed.

Lemma edges_of_In : forall h g p c, In (p, c) (edges_of h g) <-> In c g /\ In p (pars h c).
Proof.
  intros. unfold edges_of. rewrite in_flat_map. split.
  - intros [x [Hx H]]. apply in_map_iff in H. destruct H as [q [E Hq]]. inversion E; subst. auto.
  - intros [A B]. exists c. split; [exact A|]. apply in_map_iff. exists p. auto.
Qed.

Lemma labels_of_In : forall h g r l, In (r, l) (labels_of h g) <-> In r g /\ l = label (get h r).
Proof.
  intros. unfold labels_of. rewrite in_map_iff. split.
  - intros [x [E Hx]]. inversion E; subst. auto.
  - intros [A ->]. exists r. auto.
Qed.

Lemma a_parents_In : forall A x p, In p (a_parents A x) <-> In (p, x) (ae A).
Proof.
  intros. unfold a_parents. rewrite in_map_iff. split.
  - intros [[q y] [E H]]. simpl in E. subst. apply filter_In in H. destruct H as [H1 H2]. simpl in H2.
    apply Nat.eqb_eq in H2. subst. exact H1.
  - intros H. exists (p, x). split; [reflexivity|]. apply filter_In. split; [exact H|apply Nat.eqb_refl].
Qed.

Lemma a_children_In : forall A x c, In c (a_children A x) <-> In (x, c) (ae A).
Proof.
  intros. unfold a_children. rewrite in_map_iff. split.
  - intros [[q y] [E H]]. simpl in E. subst. apply filter_In in H. destruct H as [H1 H2]. simpl in H2.
    apply Nat.eqb_eq in H2. subst. exact H1.
  - intros H. exists (x, c). split; [reflexivity|]. apply filter_In. split; [exact H|apply Nat.eqb_refl].
Qed.

Lemma pairs_In : forall P C p c, In (p, c) (pairs P C) <-> In p P /\ In c C.
Proof.
  intros. unfold pairs. rewrite in_flat_map. split.
  - intros [x [Hx H]]. apply in_map_iff in H. destruct H as [y [E Hy]]. inversion E; subst. auto.
  - intros [A B]. exists p. split; [exact A|]. apply in_map_iff. exists c. auto.
Qed.

Lemma same_fields_label : forall h h' r, same_fields h h' -> label (get h' r) = label (get h r).
Proof. intros h h' r [_ F]. apply F. Qed.

(* ------------------------------------------------------------------ connect / disconnect *)
Theorem connect_refines : forall h g p c h' g', WF h g -> In p g -> In c g ->
  connect_nodes h g p c = Ok (h', g') ->
  a_equiv (abs h' g') (spec_connect (abs h g) p c).
Proof.
  intros h g p c h' g' W Hp Hc E.
  destruct (connect_char _ _ _ _ _ _ W Hp Hc E) as [-> [SF P]].
  split; [|split]; simpl.
  - tauto.
  - intros [q r]. rewrite edges_of_In, P. split.
    + intros [A [B|[-> ->]]]; [right; apply edges_of_In; auto|left; reflexivity].
    + intros [X|X]; [inversion X; subst; auto|apply edges_of_In in X; tauto].
  - intros [r l]. rewrite !labels_of_In, (same_fields_label h h' r SF). tauto.
Qed.

Theorem disconnect_refines : forall h g p c h' g', WF h g -> In p g -> In c g ->
  disconnect_nodes h g p c false = Ok (h', g') ->
  a_equiv (abs h' g') (spec_disconnect (abs h g) p c).
Proof.
  intros h g p c h' g' W Hp Hc E.
  destruct (disconnect_char _ _ _ _ _ _ _ W Hp Hc E) as [SF [P [G _]]]. rewrite (G eq_refl).
  split; [|split]; simpl.
  - tauto.
  - intros [q r]. rewrite edges_of_In, P, filter_In, edges_of_In, negb_true_iff. split.
    + intros [A [B C]]. split; [auto|]. destruct (eqb2 (q, r) (p, c)) eqn:X; [|reflexivity].
      apply eqb2_iff in X. inversion X; subst. tauto.
    + intros [[A B] C]. split; [exact A|]. split; [exact B|]. intros [-> ->].
      assert (X : eqb2 (p, c) (p, c) = true) by (apply eqb2_iff; reflexivity). congruence.
  - intros [r l]. rewrite !labels_of_In, (same_fields_label h h' r SF). tauto.
Qed.

(* with clean-up: the edge set and the labels of the remaining members follow the
   specification; the member list shrinks (which nodes exactly are removed is covered by the
   correspondence check only) *)
Theorem disconnect_cleanup_refines_partial : forall h g p c h' g', WF h g -> In p g -> In c g ->
  disconnect_nodes h g p c true = Ok (h', g') ->
  incl g' g /\
  (forall q r, In (q, r) (ae (abs h' g')) <-> In r g' /\ In (q, r) (ae (spec_disconnect (abs h g) p c))) /\
  (forall r l, In (r, l) (al (abs h' g')) <-> In r g' /\ In (r, l) (al (abs h g))).
Proof.
  intros h g p c h' g' W Hp Hc E.
  destruct (disconnect_char _ _ _ _ _ _ _ W Hp Hc E) as [SF [P [_ I]]].
  split; [exact I|]. split; simpl.
  - intros q r. rewrite edges_of_In, P, filter_In, edges_of_In, negb_true_iff. split.
    + intros [A [B C]]. split; [exact A|]. split; [auto|]. destruct (eqb2 (q, r) (p, c)) eqn:X; [|reflexivity].
      apply eqb2_iff in X. inversion X; subst. tauto.
    + intros [A [[_ B] C]]. split; [exact A|]. split; [exact B|]. intros [-> ->].
      assert (X : eqb2 (p, c) (p, c) = true) by (apply eqb2_iff; reflexivity). congruence.
  - intros r l. rewrite !labels_of_In, (same_fields_label h h' r SF). split; [|tauto].
    intros [A B]. auto.
Qed.

(* ------------------------------------------------------------------ delete_node *)
Lemma children_of_edges : forall n c l, NoDup l ->
  map snd (filter (fun e : nat * nat => fst e =? n) (map (fun p => (p, c)) l)) = if memb n l then [c] else [].
Proof.
  induction l as [|x t IH]; simpl; intros ND; [reflexivity|].
  inversion ND as [|? ? Hx NDt]; subst. rewrite Nat.eqb_sym.
  destruct (Nat.eqb_spec n x) as [->|N]; simpl.
  - rewrite (IH NDt). apply memb_false in Hx. rewrite Hx. reflexivity.
  - apply IH. exact NDt.
Qed.

Lemma a_children_abs : forall h g n, (forall r, In r g -> NoDup (pars h r)) ->
  a_children (abs h g) n = node_children h g n.
Proof.
  intros h g n ND. unfold a_children, abs, edges_of, node_children. simpl.
  induction g as [|c t IH]; simpl; [reflexivity|].
  rewrite filter_app, map_app, children_of_edges by (apply ND; left; reflexivity).
  assert (IH' := IH (fun r Hr => ND r (or_intror Hr))).
  destruct (memb n (pars h c)); simpl; [f_equal|]; exact IH'.
Qed.

Theorem delete_node_refines : forall h g n m h' g', WF h g -> In n g ->
  delete_node h g n m = Ok (h', g') ->
  a_equiv (abs h' g') (spec_delete (abs h g) n m).
Proof.
  intros h g n m h' g' W Hn E.
  destruct (delete_node_char _ _ _ _ _ _ W Hn E) as [SF [MG PG]].
  unfold spec_delete.
  rewrite (a_children_abs h g n (wf_pnodup _ _ W)).
  rewrite (dedupe_nodup_id (node_children h g n)) by (apply node_children_nodup; apply (wf_nodup _ _ W)).
  set (P := filter (fun p => negb (p =? n)) (a_parents (abs h g) n)).
  set (C' := filter (fun c => negb (c =? n)) (node_children h g n)).
  assert (HP : forall q, In q P <-> In q (pars h n) /\ q <> n).
  { intros q. unfold P. rewrite filter_In, a_parents_In, negb_true_iff, Nat.eqb_neq. simpl.
    rewrite edges_of_In. tauto. }
  assert (HC : forall r, In r C' <-> In r g /\ In n (pars h r) /\ r <> n).
  { intros r. unfold C'. rewrite filter_In, node_children_In, negb_true_iff, Nat.eqb_neq. tauto. }
  assert (EX : forall q r, In (q, r) (match m with
               | RNone => []
               | RSingle => if length (node_children h g n) =? 1 then pairs P C' else []
               | RAll => pairs P C' end) <->
            reconnects h g n m /\ In q (pars h n) /\ q <> n /\ In r g /\ In n (pars h r) /\ r <> n).
  { intros q r. destruct m; simpl.
    - tauto.
    - destruct (Nat.eqb_spec (length (node_children h g n)) 1) as [L|L].
      + rewrite pairs_In, HP, HC. tauto.
      + simpl. tauto.
    - rewrite pairs_In, HP, HC. tauto. }
  split; [|split]; simpl.
  - intros x. rewrite MG, filter_In, negb_true_iff. simpl. rewrite orb_false_r, Nat.eqb_neq. tauto.
  - intros [q r]. rewrite in_app_iff, EX, filter_In, edges_of_In. simpl.
    rewrite !orb_false_r, andb_true_iff, !negb_true_iff, !Nat.eqb_neq, edges_of_In. split.
    + intros [A B]. apply (PG r A) in B. apply MG in A. tauto.
    + intros X. assert (A : In r g') by (apply MG; tauto). split; [exact A|]. apply (PG r A). tauto.
  - intros [r l]. rewrite filter_In, !labels_of_In, MG, negb_true_iff. simpl.
    rewrite orb_false_r, Nat.eqb_neq, (same_fields_label h h' r SF). tauto.
Qed.

(* ------------------------------------------------------------------ ancestors on abstract graphs *)
Lemma dfs_closure_spec : forall par fuel n l, dfs_add par fuel [] n = Ok l ->
  forall m, In m l <-> reachP par n m.
Proof.
  intros par fuel n l E.
  pose proof (dfs_add_closed _ _ _ _ _ E) as [_ [Hn C]].
  pose proof (dfs_add_sound _ _ _ _ _ E) as S.
  intros m. split.
  - intros Hm. destruct (S m Hm) as [[]|D]. exact D.
  - intros Hr. apply (reachP_closed par (fun x => In x l) n m Hr Hn).
    intros x p Hx Hp. destruct (C x Hx) as [[]|D]. apply D. exact Hp.
Qed.

Lemma reachP_sub : forall par1 par2 (S : ref -> Prop),
  (forall x p, S x -> In p (par1 x) -> S p /\ In p (par2 x)) ->
  forall a b, reachP par1 a b -> S a -> reachP par2 a b /\ S b.
Proof.
  intros par1 par2 S H a b R. induction R as [a|a p b Hp Hr IHr]; intros Sa.
  - split; [constructor|exact Sa].
  - destruct (H a p Sa Hp) as [Sp Hp2]. destruct (IHr Sp) as [A B]. split; [econstructor; eauto|exact B].
Qed.

Lemma a_anc_spec : forall A n, In n (an A) ->
  (forall p c, In (p, c) (ae A) -> In c (an A) -> In p (an A)) ->
  forall m, In m (a_anc A n) <-> reachP (a_parents A) n m.
Proof.
  intros A n Hn CL. unfold a_anc.
  destruct (dfs_add_fuel (a_parents A) (an A)) with (fuel := 2 + length (an A)) (g := @nil ref) (n := n)
    as [l [E _]]; auto.
  - intros x Hx p Hp. apply a_parents_In in Hp. eapply CL; eauto.
  - constructor.
  - intros x [].
  - simpl. lia.
  - rewrite E. apply (dfs_closure_spec _ _ _ _ E).
Qed.

(* ancestors in the denoted graph = ancestors through the heap *)
Lemma a_anc_abs : forall h g n, WF h g -> In n g ->
  forall m, In m (a_anc (abs h g) n) <-> reach h n m.
Proof.
  intros h g n W Hn m. rewrite a_anc_spec; simpl; auto.
  - unfold reach. split; intros R.
    + apply (reachP_sub (a_parents (abs h g)) (pars h) (fun x => In x g)) with (a := n); auto.
      intros x p Hx Hp. apply a_parents_In in Hp. simpl in Hp. apply edges_of_In in Hp.
      destruct Hp as [_ Hp]. split; [eapply (wf_closed _ _ W); eauto|exact Hp].
    + apply (reachP_sub (pars h) (a_parents (abs h g)) (fun x => In x g)) with (a := n); auto.
      intros x p Hx Hp. split; [eapply (wf_closed _ _ W); eauto|].
      apply a_parents_In. simpl. apply edges_of_In. auto.
  - intros p c Hpc Hc. apply edges_of_In in Hpc. eapply (wf_closed _ _ W); [exact Hc|tauto].
Qed.

Lemma a_anc_universe : forall h n, heap_ok h -> n < length h ->
  forall m, In m (a_anc (universe h) n) <-> reach h n m.
Proof.
  intros h n HK Hn m. unfold universe.
  assert (SEQ : forall x, In x (seq 0 (length h)) <-> x < length h) by (intros x; rewrite in_seq; lia).
  rewrite a_anc_spec; simpl.
  - unfold reach. split; intros R.
    + apply (reachP_sub (a_parents (abs h (seq 0 (length h)))) (pars h) (fun x => x < length h)) with (a := n); auto.
      intros x p Hx Hp. apply a_parents_In in Hp. simpl in Hp. apply edges_of_In in Hp.
      destruct Hp as [_ Hp]. split; [eapply HK; eauto|exact Hp].
    + apply (reachP_sub (pars h) (a_parents (abs h (seq 0 (length h)))) (fun x => x < length h)) with (a := n); auto.
      intros x p Hx Hp. split; [eapply HK; eauto|].
      apply a_parents_In. simpl. apply edges_of_In. split; [apply SEQ; exact Hx|exact Hp].
  - apply SEQ. exact Hn.
  - intros p c Hpc Hc. apply edges_of_In in Hpc. apply SEQ. apply SEQ in Hc. eapply HK; [exact Hc|tauto].
Qed.

(* ------------------------------------------------------------------ delete_subtree / add_node *)
Theorem delete_subtree_refines : forall h g n h' g', WF h g -> In n g ->
  delete_subtree h g n = Ok (h', g') ->
  a_equiv (abs h' g') (spec_delete_subtree (abs h g) n).
Proof.
  intros h g n h' g' W Hn E.
  destruct (delete_subtree_char _ _ _ _ _ W Hn E) as [_ [F [MG PG]]].
  pose proof (a_anc_abs h g n W Hn) as AN.
  unfold spec_delete_subtree. split; [|split]; simpl.
  - intros x. rewrite MG, filter_In, negb_true_iff, memb_false, AN. tauto.
  - intros [q r]. rewrite filter_In, !edges_of_In. simpl.
    rewrite andb_true_iff, !negb_true_iff, !memb_false, !AN. split.
    + intros [A B]. apply (PG r A) in B. apply MG in A. tauto.
    + intros X. assert (A : In r g') by (apply MG; tauto). split; [exact A|]. apply (PG r A). tauto.
  - intros [r l]. rewrite filter_In, !labels_of_In, MG, negb_true_iff, memb_false, AN. simpl.
    destruct (F r) as [_ ->]. tauto.
Qed.

Theorem add_node_refines : forall h g n h' g', WF h g -> n < length h ->
  add_node h g n = Ok (h', g') ->
  a_equiv (abs h' g') (spec_add (universe h) (abs h g) n).
Proof.
  intros h g n h' g' W Vn E.
  destruct (add_node_char _ _ _ _ _ (wf_heap _ _ W) Vn E) as [-> [M [I C]]].
  pose proof (a_anc_universe h n (wf_heap _ _ W) Vn) as AN.
  assert (MG : forall r, In r g' <-> In r g \/ reach h n r).
  { intros r. split; [apply M|]. intros [A|A]; [apply I; exact A|apply C; [apply (wf_closed _ _ W)|exact A]]. }
  assert (SEQ : forall x, In x (seq 0 (length h)) <-> x < length h) by (intros x; rewrite in_seq; lia).
  assert (RV : forall r, reach h n r -> r < length h).
  { intros r R. eapply reach_valid; eauto. apply (wf_heap _ _ W). }
  unfold spec_add. split; [|split]; simpl.
  - intros x. rewrite in_app_iff, MG, AN. tauto.
  - intros [q r]. rewrite in_app_iff, filter_In, !edges_of_In, MG. simpl. rewrite memb_In, AN, SEQ.
    split; [|tauto]. intros [[A|A] B]; [tauto|]. right. split; [split; [apply RV; exact A|exact B]|exact A].
  - intros [r l]. rewrite in_app_iff, filter_In, !labels_of_In, MG. simpl. rewrite memb_In, AN, SEQ.
    split; [|tauto]. intros [[A|A] B]; [tauto|]. right. split; [split; [apply RV; exact A|exact B]|exact A].
Qed.

(* ------------------------------------------------------------------ all operations with a proved refinement *)
Definition refined_op (o : op) : bool :=
  match o with
  | OAlloc _ | OAdd _ | ODelete _ _ | ODelSub _ | OConnect _ _ | ODisconnect _ _ false => true
  | _ => false
  end.

(* T1.3: inside the domain the result denotes the graph that the documented meaning yields
   (same node set, edge set and labels; stated with the executable comparison of holds_b) *)
Theorem op_refines_spec : forall s o s', WF (fst s) (snd s) -> guard_b s o = true -> refined_op o = true ->
  run_op s o = Ok s' ->
  a_eqb (abs (fst s') (snd s')) (spec_op (universe (fst s)) (abs (fst s) (snd s)) o) = true.
Proof.
  intros [h g] o [h' g'] W G RO E. apply a_eqb_iff. simpl in W |- *.
  destruct o as [ns|n|n m|n|old new|old new|p c|p c cl]; simpl in RO; try discriminate; simpl run_op in E; simpl spec_op.
  - injection E as Eh Eg. subst h' g'. simpl in G.
    assert (V : forall r, In r g -> get (h ++ ns) r = get h r).
    { intros r Hr. apply get_app_l. apply (wf_valid _ _ W). exact Hr. }
    split; [|split]; simpl.
    + tauto.
    + intros [q r]. rewrite !edges_of_In. unfold pars. split; intros [A B]; split; auto;
        [rewrite <- (V r A)|rewrite (V r A)]; exact B.
    + intros [r l]. rewrite !labels_of_In. split; intros [A B]; split; auto;
        [rewrite <- (V r A)|rewrite (V r A)]; exact B.
  - simpl in G. apply andb_true_iff in G. destruct G as [G1 _]. apply Nat.ltb_lt in G1.
    apply add_node_refines; assumption.
  - simpl in G. apply memb_In in G. apply delete_node_refines; assumption.
  - simpl in G. apply andb_true_iff in G. destruct G as [G1 _]. apply memb_In in G1.
    apply delete_subtree_refines; assumption.
  - simpl in G. apply andb_true_iff in G. destruct G as [G1 G2]. apply memb_In in G1. apply memb_In in G2.
    apply connect_refines; assumption.
  - destruct cl; [discriminate|].
    simpl in G. apply andb_true_iff in G. destruct G as [G1 G2]. apply memb_In in G1. apply memb_In in G2.
    apply disconnect_refines; assumption.
Qed.

(* the list evaluated by the driver starts with agree (strengthened: the model may not decline
   inside the domain) and holds_b *)
Lemma check_spec : forall s o ob, exists rest,
  check s o ob = (agree s o ob && negb (declined s o && in_domain s o)) :: holds_b s o ob :: rest.
Proof.
  intros s o ob. unfold check, agree, holds_b, declined.
  destruct ob as [ho go|e]; destruct (in_domain s o); eexists; reflexivity.
Qed.
