(* update_node refines its set-level specification (property C04, part 4 continued). *)
From Coq Require Import List Arith Bool Lia.
From GolemV Require Import Graph.Heap Graph.Ops Graph.OpsSpec Graph.OpsBase Graph.OpsDfs Graph.OpsProofs
  Graph.OpsProofs2 Graph.OpsChar Graph.OpsAcyclic Graph.OpsRefine Graph.OpsSink.
Import ListNotations.

(* ------------------------------------------------------------------ exact member set *)
Lemma list_remove_iff : forall x l l', NoDup l -> list_remove x l = Ok l' ->
  forall y, In y l' <-> In y l /\ y <> x.
Proof.
  intros x l l' ND E y. split.
  - intros H. split; [eapply list_remove_incl; eauto|]. intros ->.
    apply (list_remove_nodup _ _ _ E ND). exact H.
  - intros [A B]. eapply list_remove_other; eauto.
Qed.

Lemma update_node_members : forall h g old new h2 g3, WF h g ->
  guard_b (h, g) (OUpdNode old new) = true -> update_node h g old new = Ok (h2, g3) ->
  forall x, In x g3 <-> (In x g /\ x <> old) \/ reach h2 new x.
Proof.
  intros h g old new h2 g3 W G E.
  destruct (update_node_facts h g old new W G) as [h2' [g3' [E' [W' [[L F] [FG [FN [FO FM]]]]]]]].
  rewrite E in E'. inversion E'; subst h2' g3'. clear E'.
  simpl in G. repeat rewrite andb_true_iff in G. destruct G as [[[G1 G2] G3] _].
  apply memb_In in G1. apply Nat.ltb_lt in G2. apply negb_true_iff in G3. apply memb_false in G3.
  unfold update_node in E.
  destruct (actualise h g old new) as [h1|] eqn:E1; [|discriminate]. cbn [bind] in E.
  destruct (loop_nodes (extend_by (pars h1 old)) [new] h1) as [h2a|] eqn:E2; [|discriminate]. cbn [bind] in E.
  destruct (list_remove old g) as [g1|] eqn:E3; [|discriminate]. cbn [bind] in E.
  destruct (add_node_g h2a g1 new) as [g2|] eqn:E4; [|discriminate]. cbn [bind] in E.
  destruct (sort_nodes h2a g2) as [g3a|] eqn:E5; [|discriminate]. cbn [bind] in E.
  inversion E; subst h2a g3a. clear E.
  pose proof (list_remove_iff old g g1 (wf_nodup _ _ W) E3) as M1.
  unfold add_node_g in E4.
  pose proof (dfs_add_closed _ _ _ _ _ E4) as [I [Hn C]].
  pose proof (dfs_add_sound _ _ _ _ _ E4) as S.
  pose proof (wf_heap _ _ W') as HK2.
  assert (Vn : new < length h2) by (rewrite L; exact G2).
  (* g2 is parent-closed *)
  assert (CL2 : forall r p, In r g2 -> In p (pars h2 r) -> In p g2).
  { intros r p Hr Hp. destruct (C r Hr) as [A|A]; [|apply A; exact Hp].
    apply M1 in A. destruct A as [A1 A2]. apply (FG r A1) in Hp.
    destruct Hp as [[-> _]|[B1 B2]]; [exact Hn|]. apply I. apply M1. split; [|exact B2].
    eapply (wf_closed _ _ W); eauto. }
  assert (M2 : forall x, In x g2 <-> (In x g /\ x <> old) \/ reach h2 new x).
  { intros x. split.
    - intros Hx. destruct (S x Hx) as [A|A]; [left; apply M1; exact A|right; exact A].
    - intros [A|A]; [apply I; apply M1; exact A|].
      apply (reach_closed_set h2 (fun y => In y g2) new x A Hn). intros y p Hy Hp. eapply CL2; eauto. }
  assert (V2 : forall r, In r g2 -> r < length h2).
  { intros r Hr. apply M2 in Hr. destruct Hr as [[A _]|A].
    - rewrite L. apply (wf_valid _ _ W). exact A.
    - eapply reach_valid; eauto. }
  intros x. rewrite (sort_nodes_same_set h2 g2 g3 HK2 V2 CL2 E5 x). apply M2.
Qed.

(* ------------------------------------------------------------------ the specification side *)
Lemma a_map_edges_In : forall f A p c, In (p, c) (ae (a_map f A)) <->
  exists q d, In (q, d) (ae A) /\ f q = p /\ f d = c.
Proof.
  intros f A p c. unfold a_map. simpl. rewrite in_map_iff. split.
  - intros [[q d] [E H]]. simpl in E. inversion E; subst. exists q, d. auto.
  - intros [q [d [H [<- <-]]]]. exists (q, d). auto.
Qed.

Lemma universe_edges_In : forall h p c, In (p, c) (ae (universe h)) <-> c < length h /\ In p (pars h c).
Proof. intros. unfold universe. simpl. rewrite edges_of_In, in_seq. split; intros [A B]; split; auto; lia. Qed.

Lemma universe_labels_In : forall h r l, In (r, l) (al (universe h)) <-> r < length h /\ l = label (get h r).
Proof. intros. unfold universe. simpl. rewrite labels_of_In, in_seq. split; intros [A B]; split; auto; lia. Qed.

Theorem update_node_refines : forall h g old new h2 g3, WF h g ->
  guard_b (h, g) (OUpdNode old new) = true -> spec_guard_b (h, g) (OUpdNode old new) = true ->
  update_node h g old new = Ok (h2, g3) ->
  a_equiv (abs h2 g3) (spec_update_node (universe h) (abs h g) old new).
Proof.
  intros h g old new h2 g3 W G SG E.
  pose proof (update_node_members h g old new h2 g3 W G E) as MG.
  destruct (update_node_facts h g old new W G) as [h2' [g3' [E' [W' [[L F] [FG [FN [FO FM]]]]]]]].
  rewrite E in E'. inversion E'; subst h2' g3'. clear E'.
  simpl in G. repeat rewrite andb_true_iff in G. destruct G as [[[G1 G2] G3] G4].
  apply memb_In in G1. apply Nat.ltb_lt in G2. apply negb_true_iff in G3. apply memb_false in G3.
  simpl in SG.
  destruct (closure h new) as [R|e] eqn:EC; [|discriminate].
  apply negb_true_iff in SG. apply memb_false in SG.
  destruct (closure_spec _ _ _ EC) as [_ [HnR [RC RS]]].
  pose proof (wf_heap _ _ W) as HK. pose proof (wf_heap _ _ W') as HK2.
  assert (Vg : forall r, In r g -> r < length h) by (apply (wf_valid _ _ W)).
  assert (VR : forall r, In r R -> r < length h) by (eapply closure_valid; eauto).
  assert (Gn : forall x, In x g -> x <> new) by (intros x Hx ->; tauto).
  unfold spec_update_node.
  set (f := fun x => if x =? old then new else x).
  set (keep := filter (fun x => negb (x =? old)) (an (abs h g))).
  set (E1 := ae (a_map f (abs h g)) ++ filter (fun e => negb (memb (snd e) keep)) (ae (universe h))).
  set (T := mkA (an (universe h)) E1 (al (universe h))).
  assert (Fold : f old = new) by (unfold f; rewrite Nat.eqb_refl; reflexivity).
  assert (Fne : forall x, x <> old -> f x = x).
  { intros x N. unfold f. apply Nat.eqb_neq in N. rewrite N. reflexivity. }
  assert (KEEP : forall x, In x keep <-> In x g /\ x <> old).
  { intros x. unfold keep. simpl. rewrite filter_In, negb_true_iff, Nat.eqb_neq. tauto. }
  (* edges of the specification's edge relation *)
  assert (EE : forall p x, In (p, x) E1 <->
     (exists q d, In d g /\ In q (pars h d) /\ f q = p /\ f d = x) \/
     (x < length h /\ In p (pars h x) /\ ~ (In x g /\ x <> old))).
  { intros p x. unfold E1. rewrite in_app_iff, a_map_edges_In, filter_In, universe_edges_In. simpl.
    rewrite negb_true_iff, memb_false, KEEP. split.
    - intros [[q [d [A B]]]|A]; [left; exists q, d; apply edges_of_In in A; tauto|right; tauto].
    - intros [[q [d [A [B C]]]]|A]; [left; exists q, d; split; [apply edges_of_In; tauto|exact C]|right; tauto]. }
  (* the nodes on which both relations are compared *)
  set (S := fun x => x = new \/ (In x g /\ x <> old) \/ (~ In x g /\ In x R)).
  assert (SP : forall x, S x -> forall p, In (p, x) E1 <-> In p (pars h2 x)).
  { intros x Sx p. rewrite EE. destruct (Nat.eq_dec x new) as [->|Nn].
    - rewrite FN. split.
      + intros [[q [d [A [B [C D]]]]]|[_ [A _]]]; [|left; exact A].
        assert (d = old).
        { destruct (Nat.eq_dec d old) as [e|n]; [exact e|]. rewrite (Fne d n) in D. subst d. exfalso. tauto. }
        subst d. destruct (Nat.eq_dec q old) as [->|n].
        * rewrite Fold in C. right. left. split; [symmetry; exact C|exact B].
        * rewrite (Fne q n) in C. subst q. right. right. tauto.
      + intros [A|[[-> A]|[A B]]].
        * right. split; [exact G2|]. split; [exact A|]. tauto.
        * left. exists old, old. repeat split; auto.
        * left. exists p, old. split; [exact G1|]. split; [exact A|]. split; [apply Fne; exact B|exact Fold].
    - destruct Sx as [Sx|[[Hx Nx]|[Nx Hx]]]; [contradiction| |].
      + rewrite (FG x Hx). split.
        * intros [[q [d [A [B [C D]]]]]|[_ [_ A]]]; [|tauto].
          assert (d = x).
          { destruct (Nat.eq_dec d old) as [e|n]; [|rewrite (Fne d n) in D; exact D].
            subst d. rewrite Fold in D. exfalso. apply Nn. symmetry. exact D. }
          subst d. destruct (Nat.eq_dec q old) as [->|n].
          -- rewrite Fold in C. left. split; [symmetry; exact C|exact B].
          -- rewrite (Fne q n) in C. subst q. right. tauto.
        * intros [[-> A]|[A B]].
          -- left. exists old, x. split; [exact Hx|]. split; [exact A|]. split; [exact Fold|apply Fne; exact Nx].
          -- left. exists p, x. split; [exact Hx|]. split; [exact A|]. split; [apply Fne; exact B|apply Fne; exact Nx].
      + rewrite (FO x Nx Nn). split.
        * intros [[q [d [A [B [C D]]]]]|[_ [A _]]]; [|exact A].
          exfalso. destruct (Nat.eq_dec d old) as [e|n].
          -- subst d. rewrite Fold in D. apply Nn. symmetry. exact D.
          -- rewrite (Fne d n) in D. subst d. tauto.
        * intros A. right. split; [apply VR; exact Hx|]. split; [exact A|]. tauto. }
  assert (SR : forall p, In p R -> S p).
  { intros p Hp. destruct (in_dec Nat.eq_dec p g) as [A|A].
    - right. left. split; [exact A|]. intros ->. tauto.
    - right. right. tauto. }
  assert (SCL : forall x p, S x -> In p (pars h2 x) -> S p).
  { intros x p Sx Hp. destruct (Nat.eq_dec x new) as [->|Nn].
    - apply FN in Hp. destruct Hp as [A|[[-> _]|[A B]]].
      + apply SR. eapply RC; eauto.
      + left. reflexivity.
      + right. left. split; [eapply (wf_closed _ _ W); eauto|exact B].
    - destruct Sx as [Sx|[[Hx Nx]|[Nx Hx]]]; [contradiction| |].
      + apply (FG x Hx) in Hp. destruct Hp as [[-> _]|[A B]]; [left; reflexivity|].
        right. left. split; [eapply (wf_closed _ _ W); eauto|exact B].
      + rewrite (FO x Nx Nn) in Hp. apply SR. eapply RC; eauto. }
  assert (Snew : S new) by (left; reflexivity).
  assert (SEQ : forall x, In x (seq 0 (length h)) <-> x < length h) by (intros x; rewrite in_seq; lia).
  assert (AN : forall m, In m (a_anc T new) <-> reach h2 new m).
  { intros m. rewrite a_anc_spec.
    - unfold reach. split; intros Rm.
      + apply (reachP_sub (a_parents T) (pars h2) S) with (a := new); auto.
        intros x p Sx Hp. apply a_parents_In in Hp. simpl in Hp. apply (SP x Sx) in Hp.
        split; [eapply SCL; eauto|exact Hp].
      + apply (reachP_sub (pars h2) (a_parents T) S) with (a := new); auto.
        intros x p Sx Hp. split; [eapply SCL; eauto|]. apply a_parents_In. simpl. apply (SP x Sx). exact Hp.
    - simpl. apply SEQ. exact G2.
    - simpl. intros p c Hpc Hc. apply SEQ. apply SEQ in Hc. apply EE in Hpc.
      destruct Hpc as [[q [d [A [B [C D]]]]]|[_ [A _]]]; [|eapply HK; eauto].
      assert (Vq : q < length h) by (apply Vg; eapply (wf_closed _ _ W); eauto).
      subst p. unfold f. destruct (q =? old); [exact G2|exact Vq]. }
  assert (NG : forall x, In x (keep ++ a_anc T new) <-> In x g3).
  { intros x. rewrite in_app_iff, KEEP, AN, MG. tauto. }
  assert (G3S : forall x, In x g3 -> S x).
  { intros x Hx. apply MG in Hx. destruct Hx as [A|A]; [right; left; exact A|].
    apply (reach_closed_set h2 S new x A Snew). intros y p Sy Hp. eapply SCL; eauto. }
  split; [|split]; simpl.
  - intros x. rewrite NG. tauto.
  - intros [p x]. rewrite filter_In, edges_of_In. simpl. rewrite memb_In, NG. split.
    + intros [A B]. split; [|exact A]. apply (SP x (G3S x A)). exact B.
    + intros [A B]. split; [exact B|]. apply (SP x (G3S x B)). exact A.
  - intros [x l]. rewrite filter_In, !labels_of_In. simpl. rewrite memb_In, NG, SEQ.
    destruct (F x) as [_ [Lx _]]. rewrite Lx. split.
    + intros [A B]. split; [|exact A]. split; [|exact B]. rewrite <- L. apply (wf_valid _ _ W'). exact A.
    + intros [[_ A] B]. tauto.
Qed.
